import PbVerif.Lemmas.Desc
/-
C34 — Descriptor protos and file descriptors convert losslessly.

Stated on `Model.Desc`: `newFile` (= `protodesc.FileOptions.New`, steps 0–3) and `toProto`
(= `protodesc.ToFileDescriptorProto`) on the MODELLED accessors: names, numbers, labels/cardinalities, types/kinds,
type references by full name, extendees, oneof membership incl. synthetic proto3-optional oneofs, JSON names,
proto3_optional, presence of defaults, packed/lazy/feature option bits, extension/reserved ranges, reserved names,
enum values, syntax/edition, services' method types.  NOT modelled (tied by the harness' accessor snapshot only):
option messages beyond the promoted bits, source locations, imports/public/option imports, streaming flags,
default-value literals (C39), visibility, relative (scoped) type names.
-/
namespace C34
open Desc Gen.EditionDefaults

def str (x : String) : Str := x.toList.map Char.toNat

/-! ### what a round trip must preserve: kinds and cardinalities of every top-level message's fields -/

def shape (d : FileD) : List (List (Nat × Nat)) :=
  d.messages.toList.map fun m => m.fields.map fun f => (f.kind, f.cardinality)

/-- `NewFile(ToProto(d))` reproduces `d`'s kinds and cardinalities (for a `d` that `NewFile` built from `p`). -/
def roundTripShapeOk (env : Env) (p : FileP) : Bool :=
  match newFile env p with
  | .error _ => true
  | .ok d =>
    match newFile env (toProto d) with
    | .error _ => false
    | .ok d' => shape d == shape d'

/-- editions 2023: `message M { M.G g = 1; message G {} }` with `g` spelt TYPE_GROUP and no DELIMITED feature -/
def groupWitness : FileP :=
  { path := str "w/editions_group.proto", pkg := str "w", syn := 9, edition := 1000
    messages := .cons (.mk (str "M")
      [{ name := str "g", number := some 1, label := some 1, type := 10, typeName := some (str ".w.M.G") }]
      [] (.cons (.mk (str "G") [] [] .nil [] [] [] [] [] false false {}) .nil) [] [] [] [] [] false false {}) .nil }

/-- editions 2023: `message M { int32 r = 1; }` with `r` spelt LABEL_REQUIRED and no LEGACY_REQUIRED feature -/
def requiredWitness : FileP :=
  { path := str "w/editions_required.proto", pkg := str "w", syn := 9, edition := 1000
    messages := .cons (.mk (str "M")
      [{ name := str "r", number := some 1, label := some 2, type := 5 }]
      [] .nil [] [] [] [] [] false false {}) .nil }

/-- editions 2023, file-level `message_encoding = DELIMITED`: `message M { N n = 1; } message N {}` where `n` has
NO `type` (descriptor.proto: "if type_name is set, this need not be set") -/
def untypedWitness : FileP :=
  { path := str "w/editions_untyped.proto", pkg := str "w", syn := 9, edition := 1000
    features := { messageEncoding := some evDelimited }
    messages := .cons (.mk (str "M")
      [{ name := str "n", number := some 1, label := some 1, type := 0, typeName := some (str ".w.N") }]
      [] .nil [] [] [] [] [] false false {})
      (.cons (.mk (str "N") [] [] .nil [] [] [] [] [] false false {}) .nil) }

/- FULL STATEMENT `newFile_toProto` (false of the current code):
   `∀ env p, roundTripShapeOk env p = true` — every descriptor NewFile builds is reproduced by NewFile∘ToProto.
   Still refuted by the two editions spellings protoc refuses and `NewFile` accepts (TYPE_GROUP / LABEL_REQUIRED
   without the feature): `ToProto` rewrites them to MESSAGE / OPTIONAL and the information is gone. -/
set_option maxRecDepth 20000 in
theorem newFile_toProto_false : ¬ ∀ env p, roundTripShapeOk env p = true := by
  intro h
  exact absurd (h {} groupWitness) (by decide)

set_option maxRecDepth 20000 in
theorem newFile_toProto_false' : roundTripShapeOk {} groupWitness = false ∧ roundTripShapeOk {} requiredWitness = false := by
  decide

set_option maxRecDepth 20000 in
/-- Regression example (witness of the finding repaired by c4513e1): the untyped message field under inherited
DELIMITED is now built with Kind group (`kGroup`) at once and round-trips. -/
theorem regress_untypedWitness :
    roundTripShapeOk {} untypedWitness = true ∧
    (match newFile {} untypedWitness with | .ok d => shape d | .error _ => []) = [[(kGroup, cOptional)], []] := by
  decide

/-! ### toProto of a built field, clause by clause (for ALL fields) -/

/-- names, numbers, option bits and default presence are copied -/
theorem toProto_field_copied (syn : Nat) (f : FieldD) :
    (toProtoField syn f).name = f.p.name ∧ (toProtoField syn f).number = some (f.p.number.getD 0) ∧
    (toProtoField syn f).packed = f.p.packed ∧ (toProtoField syn f).lazy = f.p.lazy ∧
    (toProtoField syn f).features = f.p.features := ⟨rfl, rfl, rfl, rfl, rfl⟩

/-- outside editions the label is the cardinality and the type is the kind -/
theorem toProto_field_label_type (syn : Nat) (f : FieldD) (h : syn ≠ 9) (hk : 1 ≤ f.kind ∧ f.kind ≤ 18) :
    (toProtoField syn f).label = some f.cardinality ∧ (toProtoField syn f).type = f.kind := by
  have : (syn == 9) = false := by simpa using h
  simp [toProtoField, this, hk.1, hk.2]

/-- under editions REQUIRED is spelt OPTIONAL and GROUP is spelt MESSAGE — the information then lives ONLY in the
features, which is why the witnesses above are lossy -/
theorem toProto_field_editions (f : FieldD) :
    (f.cardinality = cRequired → (toProtoField 9 f).label = some cOptional) ∧
    (f.kind = kGroup → (toProtoField 9 f).type = kMessage) := by
  constructor
  · intro h; simp [toProtoField, h]
  · intro h; simp [toProtoField, h, kGroup, kMessage]

/-- proto3_optional is emitted exactly for proto3 fields that carry it -/
theorem toProto_field_proto3_optional (f : FieldD) :
    (toProtoField 3 f).proto3Optional = f.p.proto3Optional ∧ (toProtoField 2 f).proto3Optional = false ∧
    (toProtoField 9 f).proto3Optional = false := by
  refine ⟨?_, rfl, rfl⟩
  simp [toProtoField, hasOptionalKeyword, editionProto3, editionProto2]

/-- the JSON name of a message field is the declared one (absent stays absent) -/
theorem toProto_field_json (syn : Nat) (f : FieldD) (h : f.isExtension = false) :
    (toProtoField syn f).jsonName = f.p.jsonName := by
  simp only [toProtoField, h]
  cases f.p.jsonName <;> rfl

/-! ### toProto ∘ newFile on a field, all clauses together

FULL STATEMENT `toProto_newFile`: `newFile env p = .ok d → toProto d = normalize p`.
Proved here: the field-level core, for EVERY field of every accepted file, under visible canonicity hypotheses
(what `protoc` emits and what validation guarantees); the lifting to field lists, enums and oneofs follows.
Missing for the file-level statement: the (routine, mutual) induction over the message tree that threads the
hypotheses from `check env p = ok` — they are consequences of `resolveErr = none` and `validateField = ok`, except
the canonicity ones (`number`/`label` present, field typed, editions spell REQUIRED/GROUP through features), which
are exactly the normalisations and the lossy spellings refuted above. -/

/-- **toProto_newFile (field level).** For a field that resolved (`resolveErr = none`), is typed and numbered, whose
`proto3_optional` only occurs in proto3 (validated), and — under editions — spells `required`/`group` through
features: `ToFieldDescriptorProto` of the built descriptor is the field proto itself. -/
theorem toProto_buildField_partial (c : Ctx) (par : GoFeatures) (scope : Str) (me : Bool) (n i : Nat) (p : FieldP) (syn : Nat)
    (hres : (buildField c par scope me n i p).resolveErr = none)
    (hnum : p.number.isSome = true) (hlabel : p.label.isSome = true)
    (htyped : 1 ≤ p.type ∧ p.type ≤ 18)
    (hnoempty : p.typeName ≠ some [])
    (hext : p.extendee = none)
    (hdef : p.defaultOk = none → p.defaultLit = [])
    (hp3 : p.proto3Optional = true → syn = 3)
    (hreq : (fieldFeatures par p.features p.packed).isLegacyRequired = true → syn = 9 ∧ p.label = some cOptional)
    (hreq2 : syn = 9 → p.label ≠ some cRequired)
    (hdel : (fieldFeatures par p.features p.packed).isDelimitedEncoded = true → syn = 9)
    (hgrp : p.type = kGroup → syn ≠ 9 ∧ (buildField c par scope me n i p).kind = kGroup) :
    toProtoField syn (buildField c par scope me n i p) = p := by
  obtain ⟨hone, t, hft⟩ := resolveErr_none_split c par scope me n i p hres
  generalize hk0 : (if (p.type == kMessage && (fieldFeatures par p.features p.packed).isDelimitedEncoded) = true then kGroup else p.type) = k0 at hft
  have hk0ne : k0 ≠ 0 := by
    rw [← hk0]; split
    · simp [kGroup]
    · omega
  obtain ⟨htk, hrefs⟩ := findTarget_ok c k0 _ t hft hk0ne
  have ht0 : (p.type == 0) = false := by simp; omega
  have hkind : (buildField c par scope me n i p).kind =
      (if t.kind == kGroup && ((match t.messageT with | some m => m.isMapEntry | none => false) || me) then kMessage else t.kind) := by
    simp only [buildField, hk0, hft, ht0, Bool.false_and, Bool.false_eq_true, ↓reduceIte] <;> rfl
  cases p with
  | mk name number label type typeName extendee oneofIndex jsonName p3 defOk defLit packed lazy feats =>
    simp only at *
    generalize hF : fieldFeatures par feats packed = F at *
    generalize hK : (if (t.kind == kGroup && ((match t.messageT with | some m => m.isMapEntry | none => false) || me)) = true then kMessage else t.kind) = K at *
    simp only [toProtoField, buildField, hk0, hft, hF, ht0, Bool.false_and, Bool.false_eq_true, ↓reduceIte,
      FieldP.mk.injEq, FieldD.number, FieldD.name, true_and]
    -- the final kind K in terms of the declared type
    have hKtype : (if (syn == 9 && (if (decide (1 ≤ K) && decide (K ≤ 18)) = true then K else 0) == kGroup) = true then kMessage
        else if (decide (1 ≤ K) && decide (K ≤ 18)) = true then K else 0) = type := by
      by_cases h11 : type = kMessage
      · subst h11
        by_cases hd : F.isDelimitedEncoded = true
        · have hs := hdel hd
          simp only [beq_self_eq_true, hd, Bool.and_self, ↓reduceIte] at hk0
          subst hk0; subst hs
          rw [htk] at hK
          by_cases hx : ((match t.messageT with | some m => m.isMapEntry | none => false) || me) = true
          · simp only [beq_self_eq_true, hx, Bool.and_self, ↓reduceIte] at hK
            subst hK; simp [kMessage, kGroup]
          · simp only [Bool.not_eq_true] at hx
            simp only [hx, Bool.and_false, Bool.false_eq_true, ↓reduceIte] at hK
            subst hK; simp [kMessage, kGroup]
        · simp only [Bool.not_eq_true] at hd
          simp only [hd, Bool.and_false, Bool.false_eq_true, ↓reduceIte] at hk0
          subst hk0
          rw [htk] at hK
          simp [kMessage, kGroup] at hK
          subst hK
          simp [kMessage, kGroup]
      · have hk0' : k0 = type := by
          rw [← hk0]
          have : (type == kMessage) = false := by simpa using h11
          simp [this]
        subst hk0'
        by_cases h10 : k0 = kGroup
        · obtain ⟨hs, hkk⟩ := hgrp h10
          have hKg : K = kGroup := by rw [← hkind]; exact hkk
          subst hKg
          have : (syn == 9) = false := by simpa using hs
          simp [this, h10, kGroup]
        · rw [htk] at hK
          have : (k0 == kGroup) = false := by simpa using h10
          simp only [this, Bool.false_and, Bool.false_eq_true, ↓reduceIte] at hK
          subst hK
          have h1 : decide (1 ≤ k0) = true := by simpa using htyped.1
          have h2 : decide (k0 ≤ 18) = true := by simpa using htyped.2
          simp [h1, h2, this]
    refine ⟨?_, ?_, (by rw [← hK] at hKtype; exact hKtype), ?_, ?_, ?_, ?_, ?_, ?_, ?_⟩
    · cases number <;> simp_all
    · cases label with
      | none => simp at hlabel
      | some l =>
        by_cases hr : F.isLegacyRequired = true
        · obtain ⟨hs, hl⟩ := hreq hr
          subst hs
          simp [cardinalityOf, hr, hl]
        · simp only [Bool.not_eq_true] at hr
          simp only [cardinalityOf, hr, Option.getD_some, Bool.not_false, Bool.true_and, Bool.false_eq_true, ↓reduceIte]
          by_cases hs : syn = 9
          · have := hreq2 hs
            have hne : (l == cRequired) = false := by
              simp only [beq_eq_false_iff_ne, ne_eq]
              intro h; exact this (by rw [h])
            simp [hne]
          · have : (syn == 9) = false := by simpa using hs
            simp [this]
    · -- typeName
      by_cases he : k0 = kEnum
      · simp only [he, ↓reduceIte] at hrefs
        obtain ⟨⟨r, hr, hfn⟩, hm, full, hfull⟩ := hrefs
        simp only [hm, hr, Option.map_some, hfn]
        cases typeName with
        | none => simp at hfull
        | some x => simp
      · by_cases hm : k0 = kMessage ∨ k0 = kGroup
        · simp only [he, ↓reduceIte, hm] at hrefs
          obtain ⟨⟨r, hr, hfn⟩, _, full, hfull⟩ := hrefs
          simp only [hr, hfn]
          cases typeName with
          | none => simp at hfull
          | some x => simp
        · simp only [he, ↓reduceIte, hm] at hrefs
          obtain ⟨h1, h2, h3⟩ := hrefs
          simp only [h1, h2, Option.map_none]
          cases typeName with
          | none => rfl
          | some x => simp at h3; subst h3; exact absurd rfl hnoempty
    · simp [hext]
    · cases oneofIndex with
      | none => rfl
      | some k =>
        obtain ⟨h0, h1⟩ := hone k rfl
        have : (decide (0 ≤ k) && decide (k < (n : Int))) = true := by simp [h0, h1]
        simp [this, Int.toNat_of_nonneg h0]
    · cases jsonName <;> rfl
    · by_cases h3 : syn = 3
      · subst h3; simp [hasOptionalKeyword, editionProto3, editionProto2]
      · have : (syn == 3) = false := by simpa using h3
        simp only [this, Bool.false_and]
        cases p3 with
        | false => rfl
        | true => exact absurd (hp3 rfl) h3
    · cases defOk <;> rfl
    · cases defOk with
      | none => simp [hdef rfl]
      | some b => simp

/-- … hence for every field list (`initFieldsFromDescriptorProto` + `resolveMessageDependencies`), any length. -/
theorem toProto_buildFields_partial (c : Ctx) (par : GoFeatures) (scope : Str) (me : Bool) (n : Nat) (syn : Nat)
    (ps : List FieldP) (i0 : Nat)
    (h : ∀ p ∈ ps, ∀ i, toProtoField syn (buildField c par scope me n i p) = p) :
    (buildFields c par scope me n i0 ps).map (toProtoField syn) = ps := by
  induction ps generalizing i0 with
  | nil => rfl
  | cons p rest ih =>
    simp only [buildFields, List.map_cons, List.cons.injEq]
    exact ⟨h p (by simp) i0, ih (i0 + 1) (fun q hq i => h q (by simp [hq]) i)⟩

/-- enums are copied; the only normalisation is that an absent value number is written as 0 -/
theorem toProto_buildEnum (par : GoFeatures) (scope : Str) (e : EnumP) (h : ∀ v ∈ e.values, v.number.isSome = true) :
    toProtoEnum (buildEnum par scope e) = e := by
  cases e with
  | mk name values rr rn alias feats =>
    simp only [toProtoEnum, buildEnum, EnumP.mk.injEq, true_and, and_true]
    simp only at h
    induction values with
    | nil => rfl
    | cons v vs ih =>
      simp only [List.map_cons, List.cons.injEq]
      refine ⟨?_, ih (fun w hw => h w (by simp [hw]))⟩
      have := h v (by simp)
      cases v with
      | mk vn vnum => cases vnum <;> simp_all

/-- oneof declarations are copied -/
theorem toProto_buildOneofs (scope : Str) (fds : List FieldD) (os : List OneofP) (i : Nat) :
    (buildOneofs scope fds i os).map (·.p) = os := by
  induction os generalizing i with
  | nil => rfl
  | cons o rest ih => simp [buildOneofs, ih]

/-- file header: syntax "proto2" is written as absent, everything else is copied (edition only under editions) -/
theorem toProto_header (env : Env) (p : FileP) :
    (toProto (build env p)).path = p.path ∧ (toProto (build env p)).pkg = p.pkg ∧
    (toProto (build env p)).features = p.features ∧
    (toProto (build env p)).syn = (if p.syn = 3 then 3 else if p.syn = 9 then 9 else 0) ∧
    (p.syn = 9 → (toProto (build env p)).edition = p.edition) := by
  refine ⟨rfl, rfl, rfl, ?_, ?_⟩
  · simp [toProto, build]
  · intro h; simp [toProto, build, fileEdition, h]

/-! ### the mutual induction over the message tree (any depth) -/

/-- the hypotheses of `toProto_buildField_partial` for one field in its context, at every index -/
structure FieldCanon (c : Ctx) (syn : Nat) (par : GoFeatures) (scope : Str) (me : Bool) (n : Nat) (p : FieldP) : Prop where
  resolved : ∀ i, (buildField c par scope me n i p).resolveErr = none
  numbered : p.number.isSome = true
  labelled : p.label.isSome = true
  typed : 1 ≤ p.type ∧ p.type ≤ 18
  typeName : p.typeName ≠ some []
  noExtendee : p.extendee = none
  defaultLit : p.defaultOk = none → p.defaultLit = []
  p3 : p.proto3Optional = true → syn = 3
  legacyRequired : (fieldFeatures par p.features p.packed).isLegacyRequired = true → syn = 9 ∧ p.label = some cOptional
  noRequiredLabel : syn = 9 → p.label ≠ some cRequired
  delimited : (fieldFeatures par p.features p.packed).isDelimitedEncoded = true → syn = 9
  group : p.type = kGroup → syn ≠ 9 ∧ ∀ i, (buildField c par scope me n i p).kind = kGroup

def EnumCanon (e : EnumP) : Prop := ∀ v ∈ e.values, v.number.isSome = true

mutual
/-- canonical message (no extensions declared inside): every field canonical in its context, recursively -/
def MsgCanon (c : Ctx) (syn : Nat) (par : GoFeatures) (scope : Str) : MessageP → Prop
  | .mk name fields oneofs nested enums exts _ _ _ me _ feat =>
    (∀ q ∈ fields, FieldCanon c syn (mergeGo par feat) (fullAppend scope name) me oneofs.length q) ∧
    (∀ e ∈ enums, EnumCanon e) ∧ exts = [] ∧
    MsgsCanon c syn (mergeGo par feat) (fullAppend scope name) nested
def MsgsCanon (c : Ctx) (syn : Nat) (par : GoFeatures) (scope : Str) : MessagePList → Prop
  | .nil => True
  | .cons m ms => MsgCanon c syn par scope m ∧ MsgsCanon c syn par scope ms
end

theorem map_toProtoEnum (par : GoFeatures) (scope : Str) (es : List EnumP) (h : ∀ e ∈ es, EnumCanon e) :
    (es.map (buildEnum par scope)).map toProtoEnum = es := by
  induction es with
  | nil => rfl
  | cons e rest ih =>
    simp only [List.map_cons, List.cons.injEq]
    exact ⟨toProto_buildEnum par scope e (h e (by simp)), ih (fun x hx => h x (by simp [hx]))⟩

mutual
theorem toProto_buildMsg (c : Ctx) (syn : Nat) (par : GoFeatures) (scope : Str) :
    (m : MessageP) → MsgCanon c syn par scope m → toProtoMsg syn (buildMsg c par scope m) = m
  | .mk name fields oneofs nested enums exts xr rr rn me ms feat, h => by
    simp only [MsgCanon] at h
    obtain ⟨hf, he, hx, hn⟩ := h
    subst hx
    simp only [buildMsg, toProtoMsg, MessageP.name, MessageP.extRanges, MessageP.resRanges, MessageP.resNames,
      MessageP.mapEntry, MessageP.messageSet, MessageP.features, buildExts, List.map_nil, MessageP.mk.injEq, true_and,
      and_true]
    refine ⟨?_, toProto_buildOneofs _ _ _ _, toProto_buildMsgs c syn _ _ nested hn, map_toProtoEnum _ _ _ he⟩
    apply toProto_buildFields_partial
    intro q hq i
    have hc := hf q hq
    exact toProto_buildField_partial c _ _ me oneofs.length i q syn (hc.resolved i) hc.numbered hc.labelled hc.typed
      hc.typeName hc.noExtendee hc.defaultLit hc.p3 hc.legacyRequired hc.noRequiredLabel hc.delimited
      (fun hg => ⟨(hc.group hg).1, (hc.group hg).2 i⟩)
theorem toProto_buildMsgs (c : Ctx) (syn : Nat) (par : GoFeatures) (scope : Str) :
    (ms : MessagePList) → MsgsCanon c syn par scope ms → toProtoMsgs syn (buildMsgs c par scope ms) = ms
  | .nil, _ => rfl
  | .cons m rest, h => by
    simp only [MsgsCanon] at h
    simp only [buildMsgs, toProtoMsgs, MessagePList.cons.injEq]
    exact ⟨toProto_buildMsg c syn par scope m h.1, toProto_buildMsgs c syn par scope rest h.2⟩
end

/-! ### extensions and services -/

theorem extResolveErr_none_split (c : Ctx) (par : GoFeatures) (scope : Str) (i : Nat) (p : FieldP)
    (h : (buildExt c par scope i p).resolveErr = none) :
    (∃ te, findTyped c .msg (p.extendee.getD []) = .ok te) ∧
    (∃ t, findTarget c (if (p.type == kMessage && (fieldFeatures par p.features p.packed).isDelimitedEncoded) then kGroup else p.type) (p.typeName.getD []) = .ok t) := by
  simp only [buildExt] at h
  generalize (if (p.type == kMessage && (fieldFeatures par p.features p.packed).isDelimitedEncoded) = true then kGroup else p.type) = k0 at h ⊢
  cases hx : findTyped c .msg (p.extendee.getD []) with
  | error e =>
    exfalso
    simp only [hx] at h
    cases e <;> simp [Option.orElse] at h
  | ok te =>
    refine ⟨⟨te, rfl⟩, ?_⟩
    cases hft : findTarget c k0 (p.typeName.getD []) with
    | ok t => exact ⟨t, rfl⟩
    | error e =>
      exfalso
      simp [hx, hft, Option.orElse] at h

/-- **toProto_newFile (extension level).** For an extension that resolved, is numbered, labelled and typed, and whose
validation facts hold (not required, no oneof index, JSON name absent or camel-cased — all enforced by
`validateExtensionDeclarations`): `ToFieldDescriptorProto` of the built descriptor is the extension proto itself. -/
theorem toProto_buildExt_partial (c : Ctx) (par : GoFeatures) (scope : Str) (i : Nat) (p : FieldP) (syn : Nat)
    (hres : (buildExt c par scope i p).resolveErr = none)
    (hnum : p.number.isSome = true) (hlabel : p.label.isSome = true)
    (htyped : 1 ≤ p.type ∧ p.type ≤ 18)
    (hnoempty : p.typeName ≠ some [])
    (hdef : p.defaultOk = none → p.defaultLit = [])
    (hp3 : p.proto3Optional = true → syn = 3)
    (hnotreq : p.label ≠ some cRequired)
    (honeof : p.oneofIndex = none)
    (hjson : ∀ j, p.jsonName = some j → j = jsonCamelCase p.name)
    (hdel : (fieldFeatures par p.features p.packed).isDelimitedEncoded = true → syn = 9)
    (hgrp : p.type = kGroup → syn ≠ 9) :
    toProtoField syn (buildExt c par scope i p) = p := by
  obtain ⟨⟨te, hte⟩, t, hft⟩ := extResolveErr_none_split c par scope i p hres
  obtain ⟨hten, full, hfull⟩ := findTyped_ok c .msg _ te hte
  generalize hk0 : (if (p.type == kMessage && (fieldFeatures par p.features p.packed).isDelimitedEncoded) = true then kGroup else p.type) = k0 at hft
  have hk0ne : k0 ≠ 0 := by
    rw [← hk0]; split
    · simp [kGroup]
    · omega
  obtain ⟨htk, hrefs⟩ := findTarget_ok c k0 _ t hft hk0ne
  have ht0 : (p.type == 0) = false := by simp; omega
  cases p with
  | mk name number label type typeName extendee oneofIndex jsonName p3 defOk defLit packed lazy feats =>
    simp only at *
    generalize hF : fieldFeatures par feats packed = F at *
    simp only [toProtoField, buildExt, hk0, hft, hte, hF, ht0, Bool.false_and, Bool.false_eq_true, ↓reduceIte,
      FieldP.mk.injEq, FieldD.number, FieldD.name, true_and, htk]
    have hKtype : (if (syn == 9 && (if (decide (1 ≤ k0) && decide (k0 ≤ 18)) = true then k0 else 0) == kGroup) = true then kMessage
        else if (decide (1 ≤ k0) && decide (k0 ≤ 18)) = true then k0 else 0) = type := by
      by_cases h11 : type = kMessage
      · subst h11
        by_cases hd : F.isDelimitedEncoded = true
        · have hs := hdel hd
          simp only [beq_self_eq_true, hd, Bool.and_self, ↓reduceIte] at hk0
          subst hk0; subst hs
          simp [kMessage, kGroup]
        · simp only [Bool.not_eq_true] at hd
          simp only [hd, Bool.and_false, Bool.false_eq_true, ↓reduceIte] at hk0
          subst hk0
          simp [kMessage, kGroup]
      · have hk0' : k0 = type := by
          rw [← hk0]
          have : (type == kMessage) = false := by simpa using h11
          simp [this]
        subst hk0'
        have h1 : decide (1 ≤ k0) = true := by simpa using htyped.1
        have h2 : decide (k0 ≤ 18) = true := by simpa using htyped.2
        by_cases h10 : k0 = kGroup
        · have hs := hgrp h10
          have : (syn == 9) = false := by simpa using hs
          simp [this, h1, h2]
        · have : (k0 == kGroup) = false := by simpa using h10
          simp [h1, h2, this]
    refine ⟨?_, ?_, hKtype, ?_, ?_, ?_, ?_, ?_, ?_, ?_⟩
    · cases number <;> simp_all
    · cases label with
      | none => simp at hlabel
      | some l =>
        have hne : (l == cRequired) = false := by
          simp only [beq_eq_false_iff_ne, ne_eq]
          intro h; exact hnotreq (by rw [h])
        simp [hne]
    · -- typeName
      by_cases he : k0 = kEnum
      · simp only [he, ↓reduceIte] at hrefs
        obtain ⟨⟨r, hr, hfn⟩, hm, full', hfull'⟩ := hrefs
        simp only [hm, hr, Option.map_some, hfn]
        cases typeName with
        | none => simp at hfull'
        | some x => simp
      · by_cases hm : k0 = kMessage ∨ k0 = kGroup
        · simp only [he, ↓reduceIte, hm] at hrefs
          obtain ⟨⟨r, hr, hfn⟩, _, full', hfull'⟩ := hrefs
          simp only [hr, hfn]
          cases typeName with
          | none => simp at hfull'
          | some x => simp
        · simp only [he, ↓reduceIte, hm] at hrefs
          obtain ⟨h1, h2, h3⟩ := hrefs
          simp only [h1, h2, Option.map_none]
          cases typeName with
          | none => rfl
          | some x => simp at h3; subst h3; exact absurd rfl hnoempty
    · -- extendee
      simp only [Option.map_some, hten]
      cases extendee with
      | none => simp at hfull
      | some x => simp
    · simp [honeof]
    · cases jsonName with
      | none => rfl
      | some j => simp [hjson j rfl]
    · by_cases h3 : syn = 3
      · subst h3; simp [hasOptionalKeyword, editionProto3, editionProto2]
      · have : (syn == 3) = false := by simpa using h3
        simp only [this, Bool.false_and]
        cases p3 with
        | false => rfl
        | true => exact absurd (hp3 rfl) h3
    · cases defOk <;> rfl
    · cases defOk with
      | none => simp [hdef rfl]
      | some b => simp

/-- pure canonicity of an extension proto in its context -/
structure ExtCanonP (syn : Nat) (par : GoFeatures) (p : FieldP) : Prop where
  numbered : p.number.isSome = true
  labelled : p.label.isSome = true
  typed : 1 ≤ p.type ∧ p.type ≤ 18
  typeName : p.typeName ≠ some []
  defaultLit : p.defaultOk = none → p.defaultLit = []
  p3 : p.proto3Optional = true → syn = 3
  delimited : (fieldFeatures par p.features p.packed).isDelimitedEncoded = true → syn = 9
  group : p.type = kGroup → syn ≠ 9

/-- a built extension that resolved and passed `validateExtension`, with a canonical proto, converts back to its proto -/
theorem toProto_ext_checked (v : VCtx) (c : Ctx) (syn : Nat) (par : GoFeatures) (scope : Str) (i : Nat) (q : FieldP)
    (hc : ExtCanonP syn par q)
    (hres : (buildExt c par scope i q).resolveErr = none)
    (hval : validateExtension v (buildExt c par scope i q) = .ok ()) :
    toProtoField syn (buildExt c par scope i q) = q := by
  simp only [validateExtension, seq_ok_iff, guardV_ok_iff] at hval
  have hp : (buildExt c par scope i q).p = q := rfl
  have hcard : (buildExt c par scope i q).cardinality = q.label.getD cOptional := rfl
  have hname : (buildExt c par scope i q).name = q.name := rfl
  have hnotreq : q.label ≠ some cRequired := by
    intro hl
    have := hval.2.1
    rw [hcard, hl] at this
    simp [cRequired] at this
  have honeof : q.oneofIndex = none := by
    have := hval.2.2.2.1
    rw [hp] at this
    cases hq : q.oneofIndex with
    | none => rfl
    | some x => rw [hq] at this; cases this
  have hjson : ∀ j, q.jsonName = some j → j = jsonCamelCase q.name := by
    intro j hj
    have := hval.2.2.1
    rw [hp, hj, hname] at this
    simpa using this
  exact toProto_buildExt_partial c par scope i q syn hres hc.numbered hc.labelled hc.typed hc.typeName hc.defaultLit
    hc.p3 hnotreq honeof hjson hc.delimited hc.group

theorem mem_buildExts (c : Ctx) (par : GoFeatures) (scope : Str) (ps : List FieldP) (i : Nat)
    (d : FieldD) (h : d ∈ buildExts c par scope i ps) : ∃ p ∈ ps, ∃ j, d = buildExt c par scope j p := by
  induction ps generalizing i with
  | nil => simp [buildExts] at h
  | cons p rest ih =>
    simp only [buildExts, List.mem_cons] at h
    rcases h with h | h
    · exact ⟨p, by simp, i, h⟩
    · obtain ⟨q, hq, j, hj⟩ := ih (i + 1) h
      exact ⟨q, by simp [hq], j, hj⟩

theorem buildExts_map (c : Ctx) (par : GoFeatures) (scope : Str) (syn : Nat) (ps : List FieldP) (i0 : Nat)
    (h : ∀ d ∈ buildExts c par scope i0 ps, toProtoField syn d = d.p) :
    (buildExts c par scope i0 ps).map (toProtoField syn) = ps := by
  induction ps generalizing i0 with
  | nil => rfl
  | cons q rest ih =>
    simp only [buildExts, List.map_cons, List.cons.injEq]
    refine ⟨?_, ih (i0 + 1) (fun d hd => h d (by simp [buildExts, hd]))⟩
    have := h (buildExt c par scope i0 q) (by simp [buildExts])
    rw [this]; rfl

/-- extension lists: every built extension resolved and validated ⇒ the list converts back -/
theorem toProto_exts_checked (v : VCtx) (c : Ctx) (syn : Nat) (par : GoFeatures) (scope : Str) (ps : List FieldP)
    (hc : ∀ q ∈ ps, ExtCanonP syn par q)
    (hres : ∀ d ∈ buildExts c par scope 0 ps, d.resolveErr = none)
    (hval : ∀ d ∈ buildExts c par scope 0 ps, validateExtension v d = .ok ()) :
    (buildExts c par scope 0 ps).map (toProtoField syn) = ps := by
  apply buildExts_map
  intro d hd
  obtain ⟨q, hq, j, rfl⟩ := mem_buildExts _ _ _ _ _ d hd
  exact toProto_ext_checked v c syn par scope j q (hc q hq) (hres _ hd) (hval _ hd)

/-- services: every method whose input and output resolved converts back (`fullNameOf` of the resolved message is
the fully-qualified reference that was written) -/
theorem toProto_method (c : Ctx) (m : MethodP) (h : methodErr (buildMethod c m) = none) :
    (match (buildMethod c m).input with | .ok t => fullNameOf t | .error _ => m.input) = m.input ∧
    (match (buildMethod c m).output with | .ok t => fullNameOf t | .error _ => m.output) = m.output := by
  simp only [buildMethod, methodErr] at h ⊢
  cases hi : findTyped c .msg m.input with
  | error e => rw [hi] at h; cases e <;> simp at h
  | ok ti =>
    cases ho : findTyped c .msg m.output with
    | error e => rw [hi, ho] at h; cases e <;> simp at h
    | ok to' => simp [(findTyped_ok c .msg _ ti hi).1, (findTyped_ok c .msg _ to' ho).1]

/-! ### from `newFile … = ok` to the file-level round trip -/

/-- pure canonicity of a field proto in its context — what `protoc` emits; the remaining hypotheses of
`toProto_buildField_partial` (`resolveErr = none`, no extendee, proto3_optional only in proto3) follow from
`newFile … = ok`. -/
structure FieldCanonP (c : Ctx) (syn : Nat) (par : GoFeatures) (scope : Str) (me : Bool) (n : Nat) (p : FieldP) : Prop where
  numbered : p.number.isSome = true
  labelled : p.label.isSome = true
  typed : 1 ≤ p.type ∧ p.type ≤ 18
  typeName : p.typeName ≠ some []
  defaultLit : p.defaultOk = none → p.defaultLit = []
  legacyRequired : (fieldFeatures par p.features p.packed).isLegacyRequired = true → syn = 9 ∧ p.label = some cOptional
  noRequiredLabel : syn = 9 → p.label ≠ some cRequired
  delimited : (fieldFeatures par p.features p.packed).isDelimitedEncoded = true → syn = 9
  group : p.type = kGroup → syn ≠ 9 ∧ ∀ i, (buildField c par scope me n i p).kind = kGroup

mutual
def MsgCanonP (c : Ctx) (syn : Nat) (par : GoFeatures) (scope : Str) : MessageP → Prop
  | .mk name fields oneofs nested enums exts _ _ _ me _ feat =>
    (∀ q ∈ fields, FieldCanonP c syn (mergeGo par feat) (fullAppend scope name) me oneofs.length q) ∧
    (∀ e ∈ enums, EnumCanon e) ∧ (∀ x ∈ exts, ExtCanonP syn (mergeGo par feat) x) ∧
    MsgsCanonP c syn (mergeGo par feat) (fullAppend scope name) nested
def MsgsCanonP (c : Ctx) (syn : Nat) (par : GoFeatures) (scope : Str) : MessagePList → Prop
  | .nil => True
  | .cons m ms => MsgCanonP c syn par scope m ∧ MsgsCanonP c syn par scope ms
end

theorem mem_buildFields (c : Ctx) (par : GoFeatures) (scope : Str) (me : Bool) (n : Nat) (ps : List FieldP) (i : Nat)
    (d : FieldD) (h : d ∈ buildFields c par scope me n i ps) : ∃ p ∈ ps, ∃ j, d = buildField c par scope me n j p := by
  induction ps generalizing i with
  | nil => simp [buildFields] at h
  | cons p rest ih =>
    simp only [buildFields, List.mem_cons] at h
    rcases h with h | h
    · exact ⟨p, by simp, i, h⟩
    · obtain ⟨q, hq, j, hj⟩ := ih (i + 1) h
      exact ⟨q, by simp [hq], j, hj⟩

theorem buildFields_map (c : Ctx) (par : GoFeatures) (scope : Str) (me : Bool) (n syn : Nat) (ps : List FieldP) (i0 : Nat)
    (h : ∀ d ∈ buildFields c par scope me n i0 ps, toProtoField syn d = d.p) :
    (buildFields c par scope me n i0 ps).map (toProtoField syn) = ps := by
  induction ps generalizing i0 with
  | nil => rfl
  | cons q rest ih =>
    simp only [buildFields, List.map_cons, List.cons.injEq]
    refine ⟨?_, ih (i0 + 1) (fun d hd => h d (by simp [buildFields, hd]))⟩
    have := h (buildField c par scope me n i0 q) (by simp [buildFields])
    rw [this]; rfl

/-- a built field that resolved and passed `validateField`, with a canonical proto, converts back to its proto -/
theorem toProto_field_checked (v : VCtx) (c : Ctx) (syn : Nat) (hsyn : v.edition = editionProto3 → syn = 3)
    (par : GoFeatures) (scope : Str) (me : Bool) (n i : Nat) (q : FieldP) (m : MessageD)
    (hc : FieldCanonP c syn par scope me n q)
    (hres : (buildField c par scope me n i q).resolveErr = none)
    (hval : validateField v m (buildField c par scope me n i q) = .ok ()) :
    toProtoField syn (buildField c par scope me n i q) = q := by
  simp only [validateField, seq_ok_iff, guardV_ok_iff] at hval
  have hp : (buildField c par scope me n i q).p = q := rfl
  have hext : q.extendee = none := by
    have := hval.2.2.2.2.2.1
    rw [hp] at this
    cases hq : q.extendee with
    | none => rfl
    | some x => rw [hq] at this; cases this
  have hp3 : q.proto3Optional = true → syn = 3 := by
    intro h3
    have := hval.2.2.2.2.2.2.1
    rw [hp, h3] at this
    simp only [Bool.true_and, Bool.not_eq_false', beq_iff_eq] at this
    exact hsyn this
  exact toProto_buildField_partial c par scope me n i q syn hres hc.numbered hc.labelled hc.typed hc.typeName hext
    hc.defaultLit hp3 hc.legacyRequired hc.noRequiredLabel hc.delimited (fun hg => ⟨(hc.group hg).1, (hc.group hg).2 i⟩)

mutual
theorem toProto_buildMsg_checked (v : VCtx) (c : Ctx) (syn : Nat) (hsyn : v.edition = editionProto3 → syn = 3)
    (par : GoFeatures) (scope : Str) :
    (m : MessageP) → MsgCanonP c syn par scope m → validateMsg v (buildMsg c par scope m) = .ok () →
      (∀ e ∈ msgResolveErrs (buildMsg c par scope m), e = none) → toProtoMsg syn (buildMsg c par scope m) = m
  | .mk name fields oneofs nested enums exts xr rr rn me ms feat, h, hv, hr => by
    simp only [MsgCanonP] at h
    obtain ⟨hf, he, hx, hn⟩ := h
    simp only [buildMsg, validateMsg, seq_ok_iff, allV_ok_iff] at hv
    simp only [buildMsg, msgResolveErrs, List.mem_append, List.mem_map] at hr
    simp only [buildMsg, toProtoMsg, MessageP.name, MessageP.extRanges, MessageP.resRanges, MessageP.resNames,
      MessageP.mapEntry, MessageP.messageSet, MessageP.features, MessageP.mk.injEq, true_and, and_true]
    refine ⟨?_, toProto_buildOneofs _ _ _ _, ?_, map_toProtoEnum _ _ _ he, ?_⟩
    · apply buildFields_map
      intro d hd
      obtain ⟨q, hq, j, rfl⟩ := mem_buildFields _ _ _ _ _ _ _ d hd
      have hres := hr (buildField c (mergeGo par feat) (fullAppend scope name) me oneofs.length j q).resolveErr
        (Or.inl (Or.inl ⟨_, hd, rfl⟩))
      exact toProto_field_checked v c syn hsyn _ _ me _ j q _ (hf q hq) hres (hv.2.2.2.2.2.2.2.2.1 _ hd)
    · exact toProto_buildMsgs_checked v c syn hsyn _ _ nested hn hv.2.2.2.2.2.2.2.2.2.2.2.1
        (fun e he' => hr e (Or.inl (Or.inr he')))
    · exact toProto_exts_checked v c syn _ _ exts hx (fun d hd => hr d.resolveErr (Or.inr ⟨d, hd, rfl⟩))
        (fun d hd => hv.2.2.2.2.2.2.2.2.2.2.2.2 d hd)
theorem toProto_buildMsgs_checked (v : VCtx) (c : Ctx) (syn : Nat) (hsyn : v.edition = editionProto3 → syn = 3)
    (par : GoFeatures) (scope : Str) :
    (ms : MessagePList) → MsgsCanonP c syn par scope ms → validateMsgs v (buildMsgs c par scope ms) = .ok () →
      (∀ e ∈ msgsResolveErrs (buildMsgs c par scope ms), e = none) → toProtoMsgs syn (buildMsgs c par scope ms) = ms
  | .nil, _, _, _ => rfl
  | .cons m rest, h, hv, hr => by
    simp only [MsgsCanonP] at h
    simp only [buildMsgs, validateMsgs, seq_ok_iff] at hv
    simp only [buildMsgs, msgsResolveErrs, List.mem_append] at hr
    simp only [buildMsgs, toProtoMsgs, MessagePList.cons.injEq]
    exact ⟨toProto_buildMsg_checked v c syn hsyn par scope m h.1 hv.1 (fun e he => hr e (Or.inl he)),
      toProto_buildMsgs_checked v c syn hsyn par scope rest h.2 hv.2 (fun e he => hr e (Or.inr he))⟩
end


/-- the documented normalisation on the modelled accessors: syntax "proto2" is written as absent; `edition` is only
written under editions (a canonical proto has every field labelled, numbered and typed, so nothing else changes) -/
def normalize (p : FileP) : FileP :=
  { p with syn := if p.syn = 3 then 3 else if p.syn = 9 then 9 else 0, edition := if p.syn = 9 then p.edition else 0 }

theorem map_eq_self {α} (f : α → α) (l : List α) (h : ∀ x ∈ l, f x = x) : l.map f = l := by
  induction l with
  | nil => rfl
  | cons a r ih =>
    simp only [List.map_cons, List.cons.injEq]
    exact ⟨h a (by simp), ih (fun x hx => h x (by simp [hx]))⟩

/-- canonical file (as `protoc` emits it): canonical messages (any depth), enums and extensions; nothing is asked of
services — their method types are references, and resolution alone makes them round-trip -/
structure FileCanon (env : Env) (p : FileP) : Prop where
  exts : ∀ x ∈ p.exts, ExtCanonP p.syn (fileFeatures p) x
  enums : ∀ e ∈ p.enums, EnumCanon e
  editions : p.syn = 9 → p.edition ≠ editionProto3
  messages : MsgsCanonP (mkCtx env p) p.syn (fileFeatures p) p.pkg p.messages

/-- **toProto_newFile (file level).** For every accepted canonical file — messages nested to any depth, enums, oneofs,
maps, groups, every field kind, `extend` blocks at file level and inside messages, services with their methods —
`ToFileDescriptorProto(NewFile(p))` is `p` up to the documented normalisation.  The only hypotheses besides acceptance
are the canonicity conditions of `FileCanon`. -/
theorem toProto_newFile_partial (env : Env) (p : FileP) (d : FileD) (h : newFile env p = .ok d) (hc : FileCanon env p) :
    toProto d = normalize p := by
  obtain ⟨⟨_, _, hres, hval⟩, rfl⟩ := (newFile_ok_iff env p d).1 h
  simp only [validateFile, seq_ok_iff, allV_ok_iff] at hval
  simp only [checkResolve, firstErr_ok_iff] at hres
  have hsyn : (⟨env, flattenMsgs (build env p).messages, (build env p).edition⟩ : VCtx).edition = editionProto3 → p.syn = 3 := by
    intro he
    have he' : fileEdition p = editionProto3 := he
    unfold fileEdition at he'
    by_cases h9 : p.syn = 9
    · simp [h9] at he'; exact absurd he' (hc.editions h9)
    · have : (p.syn == 9) = false := by simpa using h9
      rw [this] at he'
      by_cases h3 : p.syn = 3
      · exact h3
      · have : (p.syn == 3) = false := by simpa using h3
        rw [this] at he'; simp [editionProto2, editionProto3] at he'
  have hm := toProto_buildMsgs_checked _ (mkCtx env p) p.syn hsyn (fileFeatures p) p.pkg p.messages hc.messages
    hval.2.1 (fun e he => hres e (by simp [build, he]))
  have hen := map_toProtoEnum (fileFeatures p) p.pkg p.enums hc.enums
  have hxs := toProto_exts_checked ⟨env, flattenMsgs (build env p).messages, (build env p).edition⟩ (mkCtx env p) p.syn
    (fileFeatures p) p.pkg p.exts hc.exts
    (fun d hd => hres d.resolveErr (by simp only [build, List.mem_append, List.mem_map]; exact Or.inl (Or.inr ⟨d, hd, rfl⟩)))
    (fun d hd => hval.2.2 d hd)
  -- services
  have hsv : ∀ s ∈ p.services, ∀ m ∈ s.methods,
      (match (build env p).methods.find? (fun md => md.p == m) with
        | some md => { m with
            input := (match md.input with | .ok t => fullNameOf t | .error _ => m.input)
            output := (match md.output with | .ok t => fullNameOf t | .error _ => m.output) }
        | none => m) = m := by
    intro s _ m _
    cases hfind : (build env p).methods.find? (fun md => md.p == m) with
    | none => rfl
    | some md =>
      have hmem := List.mem_of_find?_eq_some hfind
      have hpm : md.p = m := by simpa using List.find?_some hfind
      have hmd : ∃ m', md = buildMethod (mkCtx env p) m' := by
        simp only [build, List.mem_flatMap, List.mem_map] at hmem
        obtain ⟨_, _, m', _, rfl⟩ := hmem
        exact ⟨m', rfl⟩
      obtain ⟨m', rfl⟩ := hmd
      have hm' : m' = m := hpm
      subst hm'
      have herr : methodErr (buildMethod (mkCtx env p) m') = none :=
        hres _ (by simp only [List.mem_append, List.mem_map]; exact Or.inr ⟨_, hmem, rfl⟩)
      obtain ⟨hi, ho⟩ := toProto_method (mkCtx env p) m' herr
      simp only [hi, ho]
  cases p with
  | mk path pkg syn edition features messages enums exts services =>
    simp only at hm hen hxs hsv
    simp only [toProto, normalize, build, FileP.mk.injEq, true_and, fileEdition]
    refine ⟨?_, ?_, hm, hen, hxs, ?_⟩
    · by_cases h3 : syn = 3
      · simp [h3]
      · by_cases h9 : syn = 9 <;> simp [h3, h9]
    · by_cases h9 : syn = 9 <;> simp [h9]
    · apply map_eq_self
      intro s hs
      cases s with
      | mk sname methods =>
        simp only [ServiceP.mk.injEq, true_and]
        apply map_eq_self
        intro m hmm
        exact hsv ⟨sname, methods⟩ hs m hmm

/-- `FileCanon` is satisfiable by a file with nesting, an extension range, a file-level and a nested `extend` block and a
service: proto2 `package w; message M { optional int32 x = 1; extensions 100 to 199; message N { repeated string s = 2; }
extend M { optional string inner = 101; } } extend M { optional int32 outer = 100; } service S { rpc Do(M) returns (M.N); }` -/
def canonExample : FileP :=
  { path := str "w/canon.proto", pkg := str "w", syn := 2
    messages := .cons (.mk (str "M") [{ name := str "x", number := some 1, label := some 1, type := 5 }] []
      (.cons (.mk (str "N") [{ name := str "s", number := some 2, label := some 3, type := 9 }] [] .nil [] [] [] [] [] false false {}) .nil)
      [] [{ name := str "inner", number := some 101, label := some 1, type := 9, extendee := some (str ".w.M") }]
      [(100, 200)] [] [] false false {}) .nil
    exts := [{ name := str "outer", number := some 100, label := some 1, type := 5, extendee := some (str ".w.M") }]
    services := [{ name := str "S", methods := [{ name := str "Do", input := str ".w.M", output := str ".w.M.N" }] }] }

theorem extCanon_simple (syn : Nat) (par : GoFeatures) (q : FieldP)
    (h1 : q.number.isSome = true) (h2 : q.label.isSome = true) (h3 : 1 ≤ q.type ∧ q.type ≤ 18) (h4 : q.typeName ≠ some [])
    (h5 : q.defaultOk = none → q.defaultLit = []) (h6 : q.proto3Optional = false)
    (h7 : (fieldFeatures par q.features q.packed).isDelimitedEncoded = false) (h8 : q.type ≠ kGroup) :
    ExtCanonP syn par q :=
  ⟨h1, h2, h3, h4, h5, fun h => (by rw [h6] at h; cases h), fun h => (by rw [h7] at h; cases h), fun h => absurd h h8⟩

set_option maxRecDepth 20000 in
example : FileCanon {} canonExample ∧ (newFile {} canonExample).isOk = true ∧
    toProto (build {} canonExample) = normalize canonExample := by
  have hc : FileCanon {} canonExample := by
    refine ⟨?_, (by intro e he; cases he), (by intro h; cases h), ?_⟩
    · intro x hx
      simp only [canonExample, List.mem_singleton] at hx
      subst hx
      exact extCanon_simple _ _ _ rfl rfl (by decide) (by decide) (fun _ => rfl) rfl (by decide) (by decide)
    · simp only [canonExample, MsgsCanonP, MsgCanonP, and_true, List.mem_singleton, forall_eq, List.not_mem_nil,
        false_imp_iff, implies_true, true_and]
      refine ⟨⟨rfl, rfl, (by decide), (by decide), fun _ => rfl, fun h => absurd h (by decide), fun h => (by cases h),
          fun h => absurd h (by decide), fun h => (by cases h)⟩,
        extCanon_simple _ _ _ rfl rfl (by decide) (by decide) (fun _ => rfl) rfl (by decide) (by decide),
        ⟨rfl, rfl, (by decide), (by decide), fun _ => rfl, fun h => absurd h (by decide), fun h => (by cases h),
          fun h => absurd h (by decide), fun h => (by cases h)⟩⟩
  have hok : (newFile {} canonExample).isOk = true := by decide
  refine ⟨hc, hok, ?_⟩
  cases hn : newFile {} canonExample with
  | error e => rw [hn] at hok; cases hok
  | ok d =>
    have := toProto_newFile_partial {} canonExample d hn hc
    rw [((newFile_ok_iff {} canonExample d).1 hn).2] at this
    exact this

/-! ### the hypotheses are satisfiable -/

def exCtx : Ctx := mkCtx {} untypedWitness
def exField : FieldP := { name := str "n", number := some 1, label := some 1, type := 11, typeName := some (str ".w.N") }
def exPar : GoFeatures := fileFeatures untypedWitness
set_option maxRecDepth 20000 in
/-- the hypotheses of `toProto_buildField_partial` are satisfiable by a non-trivial field: a message-typed field under
inherited DELIMITED encoding (built with Kind group, written back as TYPE_MESSAGE) -/
example : toProtoField 9 (buildField exCtx exPar (str "w.M") false 0 0 exField) = exField :=
  toProto_buildField_partial exCtx exPar (str "w.M") false 0 0 exField 9
    (by decide) (by decide) (by decide) (by decide) (by decide) (by decide) (by intro _; rfl) (by intro h; cases h)
    (by decide) (by decide) (by intro _; rfl) (by decide)

end C34
