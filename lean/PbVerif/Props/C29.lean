import PbVerif.Lemmas.FieldOrderDense
/-
C29 — all API flavors of one schema are interchangeable: the part that is pure logic, the ORDER in which
fields are emitted.

The open/hybrid coder table (`makeCoderMethods`), the opaque coder table (`makeOpaqueCoderMethods`) and the
reflection path used by dynamicpb (`order.LegacyFieldOrder`) must emit the fields of a message in the same order,
or the "identical deterministic wire bytes" clause of C29 fails although every flavor holds the same content.
The configurations `openCfg` / `opaqueCfg` and the comparator `legacyLt` are built from the facts that
`bin/gen-fieldorder` extracts from the current tree (`Gen/FieldOrder.lean`); the theorems below are about exactly
those, for ALL field lists (`table_order_*` need no hypothesis on field numbers at all; the dense-table theorems
need distinct numbers), and for ANY sorting algorithm (`IsSortOf`: a sorted permutation — `sort.Slice` promises
nothing more).  A change of the extracted shape (a skipped or differently guarded re-sort, another comparator,
another clause order) makes `cfg_canonical` / `legacyLt_eq` fail; `skipVariant_breaks_order` is the decided
counter-example showing that such a change matters.
-/
namespace C29
open Pb.FieldOrder

/-- the coder tables hold the declared fields of one message -/
structure WF (d : Desc) : Prop where
  /-- extension fields are not in the table -/
  declared : ∀ f ∈ d.fields, f.ext = false
  /-- a field in a (non-synthetic) oneof implies `Oneofs().Len() > 0` -/
  oneofs : ∀ f ∈ d.fields, ∀ i, f.oneof = some i → i < d.nOneofs

/-- **tie**: the shape extracted from the current tree is the canonical one, for both coders -/
theorem cfg_canonical : openCfg.Canonical ∧ opaqueCfg.Canonical := by decide

/-- **tie**: the extracted clause sequence of `LegacyFieldOrder` is extensions / non-oneof first / oneof index / number -/
theorem legacyLt_canonical : legacyLt = legacyCanon := legacyLt_eq

theorem phase1_perm (c : Cfg) (d : Desc) : (phase1 c d).Perm d.fields := by
  unfold phase1; split
  · exact sortBy_perm _ _
  · exact List.Perm.refl _

/-- **the coder table is the `LegacyFieldOrder`-sorted permutation of the declared fields** — including the case
in which the second sort is skipped (`Oneofs().Len() == 0`), where number order and legacy order coincide -/
theorem table_order_isSortOf (c : Cfg) (hc : c.Canonical) (d : Desc) (hd : WF d) :
    IsSortOf legacyLt d.fields (ordered c d) := by
  obtain ⟨h1, h2, h3, -⟩ := hc
  unfold ordered
  by_cases hr : resortRuns c d = true
  · simp only [hr, h3, Bool.and_self, if_true]
    have := sortBy_legacy_isSortOf (phase1 c d)
    exact ⟨this.1.trans (phase1_perm c d), this.2⟩
  · simp only [hr, Bool.false_and, Bool.false_eq_true, if_false]
    -- the re-sort is skipped only if the message declares no oneof: every field is a plain field
    have hn : d.nOneofs = 0 := by
      rcases h2 with h2 | h2 <;> simp [resortRuns, h2] at hr
      exact hr
    have hplain : ∀ f ∈ d.fields, f.oneof = none := by
      intro f hf
      cases ho : f.oneof with
      | none => rfl
      | some i => have := hd.oneofs f hf i ho; omega
    refine ⟨phase1_perm c d, ?_⟩
    have hs : (phase1 c d).Pairwise (fun a b => notAfter numLt a b = true) := by
      unfold phase1; simp only [h1, if_true]; exact (sortBy_num_isSortOf d.fields).2
    refine hs.imp_of_mem ?_
    intro a b ha hb hab
    have ha' := (phase1_perm c d).subset ha
    have hb' := (phase1_perm c d).subset hb
    simpa [notAfter, legacyLt_eq_numLt_of_plain b a (hd.declared b hb') (hd.declared a ha') (hplain b hb') (hplain a ha')] using hab

/-- **independent of the sort algorithm**: every sorted permutation of the declared fields IS the coder table -/
theorem table_order_unique (c : Cfg) (hc : c.Canonical) (d : Desc) (hd : WF d) (r : List CF)
    (hr : IsSortOf legacyLt d.fields r) : r = ordered c d :=
  legacy_sort_unique hr (table_order_isSortOf c hc d hd)

/-- **open order = opaque order** (both = the order induced by `LegacyFieldOrder`) -/
theorem open_eq_opaque (d : Desc) (hd : WF d) : ordered openCfg d = ordered opaqueCfg d :=
  table_order_unique opaqueCfg cfg_canonical.2 d hd _ (table_order_isSortOf openCfg cfg_canonical.1 d hd)

/-- **= the reflection path**: the table is what sorting the fields with `LegacyFieldOrder` alone gives -/
theorem table_eq_legacy_sort (c : Cfg) (hc : c.Canonical) (d : Desc) (hd : WF d) :
    ordered c d = sortBy legacyLt d.fields :=
  (table_order_unique c hc d hd _ (sortBy_legacy_isSortOf d.fields)).symm

/-- the declaration order of the fields is irrelevant -/
theorem table_order_of_perm (c : Cfg) (hc : c.Canonical) (d d' : Desc) (hd : WF d) (hd' : WF d')
    (hp : d'.fields.Perm d.fields) : ordered c d' = ordered c d := by
  have h := table_order_isSortOf c hc d' hd'
  exact table_order_unique c hc d hd _ ⟨h.1.trans hp, h.2⟩

/-- idempotence: building the table from the table changes nothing -/
theorem table_order_idempotent (c : Cfg) (hc : c.Canonical) (d : Desc) (hd : WF d) :
    ordered c ⟨ordered c d, d.nOneofs⟩ = ordered c d := by
  have h := table_order_isSortOf c hc d hd
  have hd' : WF ⟨ordered c d, d.nOneofs⟩ :=
    ⟨fun f hf => hd.declared f (h.1.subset hf), fun f hf => hd.oneofs f (h.1.subset hf)⟩
  exact table_order_of_perm c hc d _ hd hd' h.1

/-- **what is emitted for a message**: walking the table and emitting the populated fields (fast path) gives
the same sequence as sorting only the populated fields with `LegacyFieldOrder` (reflection path, dynamicpb) -/
theorem emitted_order (c : Cfg) (hc : c.Canonical) (d : Desc) (hd : WF d) (populated : CF → Bool) :
    (ordered c d).filter populated = sortBy legacyLt (d.fields.filter populated) := by
  have h := table_order_isSortOf c hc d hd
  exact legacy_sort_unique (l := d.fields.filter populated) ⟨h.1.filter _, h.2.filter _⟩ (sortBy_legacy_isSortOf _)

/-- **tie to the message model**: for a message descriptor of `Model/Msg.lean` with distinct field numbers the coder
table lists the declared fields in ascending order of `Pb.legacyLess` — the comparator with which `detMsg` /
`encodeDet` (the Lean reference every flavor's deterministic bytes are compared with) order the fields -/
theorem table_sorted_for_message_model (c : Cfg) (hc : c.Canonical) (md : Pb.MsgD) (n : Nat)
    (hn : (md.fields.map (·.num)).Nodup) (ho : ∀ f ∈ md.fields, ∀ i, f.oneof = some i → i < n) :
    ((ordered c (ofMsgD md n)).map (·.num)).Pairwise (fun a b => Pb.legacyLess md b a = false) := by
  have hmem : ∀ x ∈ (ofMsgD md n).fields, ∃ f ∈ md.fields, x = ofField f ∧ f.ext = false := by
    intro x hx
    simp only [ofMsgD, List.mem_map, List.mem_filter] at hx
    obtain ⟨f, ⟨hf, he⟩, rfl⟩ := hx
    exact ⟨f, hf, rfl, by simpa using he⟩
  have hd : WF (ofMsgD md n) := by
    refine ⟨?_, ?_⟩
    · intro x hx; obtain ⟨f, _, rfl, he⟩ := hmem x hx; simpa [ofField] using he
    · intro x hx i hi; obtain ⟨f, hf, rfl, _⟩ := hmem x hx; exact ho f hf i (by simpa [ofField] using hi)
  have h := table_order_isSortOf c hc _ hd
  rw [List.pairwise_map]
  refine h.2.imp_of_mem ?_
  intro x y hx hy hxy
  obtain ⟨fx, hfx, rfl, _⟩ := hmem x (h.1.subset hx)
  obtain ⟨fy, hfy, rfl, _⟩ := hmem y (h.1.subset hy)
  have e := legacyLt_eq_model md fy fx (find_eq_of_mem md.fields hn fy hfy) (find_eq_of_mem md.fields hn fx hfx)
  show Pb.legacyLess md fy.num fx.num = false
  rw [← e]
  simpa [notAfter] using hxy

/-! ### the dense lookup table -/

/-- **the dense table and the ordered table contain the same fields**: for distinct field numbers the loop that
fills `mi.denseCoderFields` never indexes out of range (the table has `maxDense + 1` entries; this is where the
open coder breaks at `>= len` and the opaque coder at `> len`), and afterwards entry `n` (for every `n ≤ maxDense`)
is exactly the field with number `n` of the final, re-sorted `mi.orderedCoderFields`, or empty if there is none -/
theorem dense_table (c : Cfg) (hc : c.Canonical) (d : Desc) (hd : WF d) (hn : (d.fields.map (·.num)).Nodup) :
    ∃ t, dense c d = some t ∧ t.length = maxDense c d + 1 ∧
      ∀ n, n ≤ maxDense c d → t.getD n none = lookup (ordered c d) n := by
  obtain ⟨h1, _, _, _, h5, h6, _⟩ := hc
  have hpp := phase1_perm c d
  have hn1 : ((phase1 c d).map (·.num)).Nodup := ((hpp.map _).nodup_iff).mpr hn
  have hasc : Asc (phase1 c d) := by
    refine asc_of_sorted_nodup ?_ hn1
    unfold phase1; simp only [h1, if_true]; exact (sortBy_num_isSortOf d.fields).2
  have hlen : (List.replicate (maxDense c d + 1) (none : Option CF)).length = maxDenseLoop 16 2 (phase1 c d) 0 + 1 := by
    simp [maxDense, h5, h6]
  obtain ⟨t, e1, e2, e3⟩ := fillLoop_spec c.guardStrict (phase1 c d) 0 _ hasc (fun _ _ => Nat.zero_le _) hlen
  refine ⟨t, e1, by simpa using e2, ?_⟩
  intro n hnm
  have hsort := table_order_isSortOf c ⟨h1, by assumption, by assumption, by assumption, h5, h6, by assumption⟩ d hd
  rw [e3 n (by simp; omega)]
  rw [lookup_perm (hsort.1.trans hpp.symm) (((hsort.1.map _).nodup_iff).mpr hn) n]
  have hlt : n < maxDense c d + 1 := by omega
  simp [List.getElem?_replicate, hlt]

/-- the open (`>= len`) and the opaque (`> len`) fill loop build the same dense table -/
theorem dense_open_eq_opaque (d : Desc) (hd : WF d) (hn : (d.fields.map (·.num)).Nodup) :
    dense openCfg d = dense opaqueCfg d ∧ maxDense openCfg d = maxDense opaqueCfg d := by
  obtain ⟨t1, a1, b1, c1⟩ := dense_table openCfg cfg_canonical.1 d hd hn
  obtain ⟨t2, a2, b2, c2⟩ := dense_table opaqueCfg cfg_canonical.2 d hd hn
  have hm : maxDense openCfg d = maxDense opaqueCfg d := by
    simp [maxDense, phase1, openCfg, opaqueCfg, Gen.FieldOrder.open_denseMinSparse, Gen.FieldOrder.opaque_denseMinSparse,
      Gen.FieldOrder.open_denseFactor, Gen.FieldOrder.opaque_denseFactor, Gen.FieldOrder.open_firstSortByNumber,
      Gen.FieldOrder.opaque_firstSortByNumber]
  refine ⟨?_, hm⟩
  rw [a1, a2]
  congr 1
  apply List.ext_getElem?
  intro n
  by_cases hnm : n ≤ maxDense openCfg d
  · have e1 := c1 n hnm
    have e2 := c2 n (hm ▸ hnm)
    rw [open_eq_opaque d hd] at e1
    have l1 : n < t1.length := by omega
    have l2 : n < t2.length := by omega
    simp only [List.getD_eq_getElem?_getD, List.getElem?_eq_getElem l1, List.getElem?_eq_getElem l2, Option.getD_some] at e1 e2
    simp [List.getElem?_eq_getElem l1, List.getElem?_eq_getElem l2, e1, e2]
  · have l1 : t1.length ≤ n := by omega
    have l2 : t2.length ≤ n := by omega
    simp [List.getElem?_eq_none l1, List.getElem?_eq_none l2]

/-! ### the counter-example: the guard of the seeded change C29-1 -/

/-- three fields: `a = 1`, `b = 124`, and `oneof o { c = 111 }` declared last -/
def skipWitness : Desc := ⟨[{ num := 1 }, { num := 124 }, { num := 111, oneof := some 0 }], 1⟩

/-- with the re-sort guarded by `!oneofsFollowRegularFields(fields)` (declaration order) the opaque table is in
plain number order `1, 111, 124`; the open table and the reflection path emit `1, 124, 111` -/
theorem skipVariant_breaks_order :
    (orderedSkipVariant skipWitness).map (·.num) = [1, 111, 124] ∧
    (ordered openCfg skipWitness).map (·.num) = [1, 124, 111] ∧
    (sortBy legacyLt skipWitness.fields).map (·.num) = [1, 124, 111] := by decide

example : WF skipWitness := ⟨by decide, by decide⟩

end C29
