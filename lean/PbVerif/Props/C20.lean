import PbVerif.Lemmas.JsonTextScalar
/-
C20 — protojson round-trips every JSON-representable message (tree level; Model/JsonText.lean).

Full statement (DESIGN §6):
    fromJSON_toJSON : representable m → fromJSON S mi (toJSON opts S mi m) = ok (dropUnknown (canon m))
    toJSON_fails_iff : toJSON … = error ↔ ¬ representable m
for every combination of the six options.  `Multiline` and `Indent` do not exist at tree level: they only
change the whitespace the encoder writes between tokens, and the tree-level theorems compose with the lexical
round trip `parse (print v) = v` of engine jsonlex (C21).  Proved here (see the individual statements):

  * scalar_roundtrip         every scalar kind, every value, every option record
  * scalar_fails_iff         `marshalSingular` fails iff a string is not valid UTF-8
-/
namespace C20
open JT Pb

/-- **every scalar kind and value** (bool, the ten integer kinds, float/double incl. NaN/±Inf, string, bytes, enum by name
or by number): `unmarshalScalar (marshalSingular v) = v`, NaNs as one value, for ALL option records -/
theorem scalar_roundtrip (C : JCodec) (L : JLaws C) (o : JOpts) (D : DOpts) (fx : FieldX) (v : Val)
    (hw : wfScalarJ fx v = true) (hnull : fx.nullEnum = false) (hen : namesDistinct fx.enums) :
    ∃ j, jScalar C o fx v = .ok j ∧ j.isNull = false ∧ dScalar C D fx j = .ok (some (normScalar fx v)) :=
  dScalar_jScalar C L o D fx v hw hnull hen

/-- the hypotheses are satisfiable: int64 min in an int64 field -/
example : wfScalarJ { f := { num := 1, kind := .int64, card := .optional }, jsonNames := [], textNames := [] }
    (.num (2 ^ 63)) = true := by decide

/-- `marshalSingular` on a value of the right shape fails iff it is a string that is not valid UTF-8
(whether or not the field enforces UTF-8: `json.Encoder.WriteString` refuses it) -/
theorem scalar_fails_iff (C : JCodec) (o : JOpts) (fx : FieldX) (b : Str) (hk : fx.f.kind = .string) (e : EErr) :
    jScalar C o fx (.bytes b) = .error e ↔ (e = .utf8 ∧ utf8Valid b = false) := by
  simp only [jScalar, hk]
  cases h : utf8Valid b <;> simp [eq_comm]

end C20
