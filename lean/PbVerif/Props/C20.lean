import PbVerif.Lemmas.JsonTextRoundJM3
import PbVerif.Lemmas.JsonTextFailsM
/-
C20 — protojson round-trips every JSON-representable message (tree level; Model/JsonText.lean).

Full statement (DESIGN §6), for every combination of the six options:
    fromJSON_toJSON  : representable m → fromJSON S mi (toJSON opts S mi m) = ok (dropUnknown (canon m))
    toJSON_fails_iff : toJSON opts S mi m = error ↔ ¬ representable m
`Multiline` and `Indent` do not exist at tree level (they only change the whitespace between tokens); the option
record `JOpts` carries them for completeness and the theorems hold for ALL values of the record — all 2^6
combinations.  The tree-level theorems compose with the lexical round trip `parse (print v) = v` of engine
jsonlex (C21): its laws are the hypothesis `JLaws` (never an axiom).

PROVED (`…_partial`): for ALL schemas, messages and limits in the fragment `RepMsgM`:
  singular scalars of every kind (64-bit integers as strings, 32-bit as numbers, bool, enum by name or by number,
  string, bytes/base64, float/double incl. NaN/±Infinity), presence disciplines (explicit, implicit with the
  zero value suppressed, required), repeated fields, MAP fields (keys as strings through `k.String()` /
  `unmarshalMapKey`, entries printed in `GenericKeyOrder`, re-inserted with the duplicate-key check never firing,
  message values included), nested messages and groups to any depth ≤ RecursionLimit,
  oneofs (seenOneofs), extensions (`[full.name]` keys), UseProtoNames / UseEnumNumbers, EmitUnpopulated /
  EmitDefaultValues (null, [], {}, zero values are printed and change nothing on input), json_name vs proto
  name, duplicate detection (seenNums) never firing on the encoder's output, unknown fields dropped,
  NaNs as one value.

OUTSIDE the fragment (statements kept above; covered by the implementation-level check of the harness only):
  * fields of type google.protobuf.Value / NullValue (DESIGN finding 18: under EmitUnpopulated the full statement
    is FALSE for them — `pb2.KnownTypes{}`), the other well-known types and Any (delegated to engine wktjson);
  * MessageSets; required-field checking (the harness uses AllowPartial);
  * messages nested deeper than the decoder's RecursionLimit: they do not round-trip (Marshal has no limit).
-/
namespace C20
open JT Pb

/-- **every scalar kind and value**: `unmarshalScalar (marshalSingular v) = v`, NaNs as one value, for ALL option records -/
theorem scalar_roundtrip (C : JCodec) (L : JLaws C) (o : JOpts) (D : DOpts) (fx : FieldX) (v : Val)
    (hw : wfScalarJ fx v = true) (hnull : fx.nullEnum = false) (hen : namesDistinct fx.enums) :
    ∃ j, jScalar C o fx v = .ok j ∧ j.isNull = false ∧ dScalar C D fx j = .ok (some (normScalar fx v)) :=
  dScalar_jScalar C L o D fx v hw hnull hen

example : wfScalarJ { f := { num := 1, kind := .int64, card := .optional }, jsonNames := [], textNames := [] }
    (.num (2 ^ 63)) = true := by decide

/-- **`fromJSON_toJSON_partial`**: for every schema `X` (hypotheses `SchemaJ`: distinct field numbers, output names
resolve to their own field, consistent presence flags — checked on every corpus schema by the harness), every option
record `o`, every decoder option record `D`, every limit and every message of the fragment:
`Unmarshal(Marshal(m))` succeeds and yields `m` without unknown fields (NaNs as one value). -/
theorem fromJSON_toJSON_partial (C : JCodec) (L : JLaws C) (D : DOpts) (X : SchemaX) (o : JOpts)
    (hS : SchemaJ X o) (mi : Nat) (limit : Int) (m : Msg) (hrep : RepMsgM X mi limit m) :
    ∃ jv, toJSON C o X mi m = .ok jv ∧ fromJSON C D X mi limit jv = .ok (normMsg X mi m) := by
  obtain ⟨jv, h1, _, h2⟩ := rtJM_msg C D X o hS L m mi limit hrep
  exact ⟨jv, h1, h2⟩

/-- the hypotheses are satisfiable by a non-trivial message: `{1: 5, 2: {1: 7}}` of a two-message schema -/
def exSchema : SchemaX :=
  { msgs := [
      { fields := [
          { f := { num := 1, kind := .int32, card := .optional }, jsonNames := [ascii ['a']], textNames := [ascii ['a']], presence := true },
          { f := { num := 2, kind := .message, card := .optional, sub := 1 }, jsonNames := [ascii ['b']], textNames := [ascii ['b']], presence := true }] },
      { fields := [
          { f := { num := 1, kind := .uint32, card := .implicit }, jsonNames := [ascii ['c']], textNames := [ascii ['c']] }] }] }

def exMsg : Msg :=
  .mk (.cons 1 (.one (.num 5)) (.cons 2 (.one (.msg (.mk (.cons 1 (.one (.num 7)) .nil) []))) .nil)) []

theorem oneofExcl_of_none (d : MsgX) (fs : Fields) (h : ∀ fx ∈ d.fields, fx.oneofIdx = none) : OneofExcl d fs := by
  intro a b fa fb o _ _ h3 _ h5 _
  have := h fa (find_mem h3).1
  rw [this] at h5
  cases h5

example : RepMsgM exSchema 0 100 exMsg := by
  have e0 : OneofExcl (exSchema.msg 0) (.cons 1 (.one (.num 5)) (.cons 2 (.one (.msg (.mk (.cons 1 (.one (.num 7)) .nil) []))) .nil)) :=
    oneofExcl_of_none _ _ (by decide)
  have e1 : OneofExcl (exSchema.msg 1) (.cons 1 (.one (.num 7)) .nil) := oneofExcl_of_none _ _ (by decide)
  have v5 : wfScalarJ { f := { num := 1, kind := .int32, card := .optional }, jsonNames := [ascii ['a']], textNames := [ascii ['a']], presence := true } (.num 5) = true := by decide
  have v7 : wfScalarJ { f := { num := 1, kind := .uint32, card := .implicit }, jsonNames := [ascii ['c']], textNames := [ascii ['c']] } (.num 7) = true := by decide
  exact ⟨by decide, rfl, rfl, e0, by decide, ⟨by decide, by decide, v5, by decide⟩, by decide,
    ⟨by decide, by decide, ⟨rfl, by decide, rfl, rfl, e1, by decide, ⟨by decide, by decide, v7, by decide⟩, trivial⟩, by decide⟩, trivial⟩

/-- **`toJSON_fails_iff_partial`**: for a message of the right *shape* (`ShapeMsgM`: as the fragment `RepMsgM`,
populated maps included, but strings — map keys and values too — may hold any bytes), `Marshal` fails IFF the message is not representable — some string, in a field that enforces UTF-8 or
not, is invalid UTF-8 — and then with the invalid-UTF-8 error; otherwise it succeeds. -/
theorem toJSON_fails_iff_partial (C : JCodec) (X : SchemaX) (o : JOpts) (mi : Nat) (limit : Int) (m : Msg)
    (hshape : ShapeMsgM X mi limit m) :
    ((∃ e, toJSON C o X mi m = .error e) ↔ ¬ RepMsgM X mi limit m) ∧
    (∀ e, toJSON C o X mi m = .error e → e = .utf8) := by
  rcases failsJM_msg C o X m mi limit hshape with ⟨jv, hj, hrep⟩ | ⟨he, hnrep⟩
  · refine ⟨⟨?_, fun h => absurd hrep h⟩, ?_⟩
    · rintro ⟨e, h⟩
      unfold toJSON at h
      rw [hj] at h
      cases h
    · intro e h
      unfold toJSON at h
      rw [hj] at h
      cases h
  · refine ⟨⟨fun _ => hnrep, fun _ => ⟨.utf8, he⟩⟩, ?_⟩
    intro e h
    unfold toJSON at h
    rw [he] at h
    cases h
    rfl

/-- `marshalSingular` on a string fails iff it is not valid UTF-8 (whether or not the field enforces it) -/
theorem scalar_fails_iff (C : JCodec) (o : JOpts) (fx : FieldX) (b : Str) (hk : fx.f.kind = .string) (e : EErr) :
    jScalar C o fx (.bytes b) = .error e ↔ (e = .utf8 ∧ utf8Valid b = false) := by
  simp only [jScalar, hk]
  cases h : utf8Valid b <;> simp [eq_comm]

end C20
