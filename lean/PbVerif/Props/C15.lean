import PbVerif.Model.MsgOps
import PbVerif.Lemmas.MsgAlg
/-
C15 — Unmarshal (without Merge) and Reset erase all prior state.
Model: `Pb.step`/`Pb.run` (Model/MsgOps.lean) for histories of reflection operations,
`Pb.unmarshalInto` (Model/Msg.lean) for decoding.  `proto.Unmarshal` without `Merge` is
`proto.Reset` followed by the merging decoder (proto/decode.go `UnmarshalOptions.unmarshal`:
`if !o.Merge { Reset(m) }`), which is how `unmarshalReset` is defined here.

In the model a message value IS its content (there is no hidden state such as size caches, lazy
buffers or presence bitmaps — those are covered behaviourally by the C15 harness stream and by
C16/C17), so "history does not matter" reduces to the facts below; they are stated for all
descriptors, all starting messages and all histories.
-/
namespace C15
open Pb
open Spec (Byte)

/-- `proto.Reset` yields the empty message, whatever the message was -/
theorem reset_empty (d : MsgD) (m : Msg) : step d m .reset = Msg.empty := rfl

theorem run_append (d : MsgD) (m : Msg) (ops ops' : List Op) :
    run d m (ops ++ ops') = run d (run d m ops) ops' := by
  unfold run; rw [List.foldl_append]

/-- after any history, `Reset` yields the empty message -/
theorem run_reset (d : MsgD) (m : Msg) (ops : List Op) : run d m (ops ++ [.reset]) = Msg.empty := by
  rw [run_append]; rfl

/-- … which is `proto.Equal` to a fresh message (for every schema) -/
theorem run_reset_equal (S : Schema) (mi : Nat) (d : MsgD) (m : Msg) (ops : List Op) :
    eqMsg S mi (run d m (ops ++ [.reset])) Msg.empty = true := by
  rw [run_reset]
  rw [Msg.empty, eqMsg, eqFields]
  simp [Fields.nums, (unknownEq_spec [] []).mpr ⟨rfl, Or.inl rfl⟩]

/-- `proto.Unmarshal` without `Merge`: reset, then decode with merge semantics -/
def unmarshalReset (S : Schema) (mi : Nat) (m : Msg) (b : List Byte) (limit : Int) (dis : Bool) :
    Except DErr Msg :=
  unmarshalInto S mi (step (S.msg mi) m .reset) b limit dis

/-- **Unmarshal without Merge does not depend on the prior state**: for every history `ops` applied to
every starting message, it is decoding the same bytes into a fresh message — all outcomes
(success and each error) included -/
theorem unmarshal_fresh (S : Schema) (mi : Nat) (m : Msg) (ops : List Op) (b : List Byte)
    (limit : Int) (dis : Bool) :
    unmarshalReset S mi (run (S.msg mi) m ops) b limit dis = unmarshal S mi b limit dis := rfl

/-- two different histories, same bytes: same result -/
theorem unmarshal_history_irrelevant (S : Schema) (mi : Nat) (m₁ m₂ : Msg) (ops₁ ops₂ : List Op)
    (b : List Byte) (limit : Int) (dis : Bool) :
    unmarshalReset S mi (run (S.msg mi) m₁ ops₁) b limit dis =
      unmarshalReset S mi (run (S.msg mi) m₂ ops₂) b limit dis := rfl

/-- hence the results are `proto.Equal` whenever the decode succeeds on a well-formed result -/
theorem unmarshal_fresh_equal (S : Schema) (mi : Nat) (m r : Msg) (ops : List Op) (b : List Byte)
    (limit : Int) (dis : Bool) (h : unmarshal S mi b limit dis = .ok r) :
    unmarshalReset S mi (run (S.msg mi) m ops) b limit dis = .ok r := h

/-- the merging decoder, in contrast, does depend on the prior state (so `Reset` is what erases it):
decoding field 1 = 1 into a message that already holds field 2 keeps field 2 -/
theorem merge_keeps_prior_state :
    let S : Schema := ⟨[⟨[{ num := 1, kind := .int32, card := .optional },
                         { num := 2, kind := .int32, card := .optional }]⟩]⟩
    let m := run (S.msg 0) Msg.empty [.set 2 (.num 7)]
    (match unmarshalInto S 0 m [0x08#8, 0x01#8] 100 false, unmarshalReset S 0 m [0x08#8, 0x01#8] 100 false with
     | .ok a, .ok b => has a 2 && !has b 2 && has a 1 && has b 1
     | _, _ => false) = true := by
  decide

end C15
