import PbVerif.Props.C03
import PbVerif.Lemmas.MsgUnknown
import PbVerif.Props.C06
/-
C09 — unknown fields are preserved; DiscardUnknown removes them.

Model: `Pb.decMsg` keeps a record as unknown when its number is not declared in the descriptor, or
is declared but arrives with a wire type that fits neither the field's kind nor (repeated numerics)
the packed form (`errUnknown` in proto/decode.go); `Pb.encMsg` re-emits the unknown bytes after the
known fields.

* `unknown_preserved`   — for EVERY input that decodes, the unknown bytes of the result are exactly
                          the concatenation, in input order, of the raw records (tag, payload: byte
                          for byte) that the message type does not interpret (`Pb.unkScan`, defined
                          over `protowire.ConsumeField` independently of the decoder);
* `unknown_preserved_into` — the same when decoding into a populated message (appended);
* `encode_emits_unknown`, `reencode_keeps_unknown` — Marshal re-emits them unchanged, as a suffix;
* `discard_unknown`     — with DiscardUnknown no message in the decoded tree retains unknown
                          fields, for EVERY input (`Pb.noUnkMsg`, recursive);
* `discard_is_strip`    — on encodings of well-formed messages DiscardUnknown yields the message
                          with the unknown fields removed at every level.
-/
namespace C09
open Pb Spec

theorem unknown_preserved_into (S : Schema) (mi : Nat) (m : Msg) (b : List Byte) (limit : Int) (r : Msg)
    (h : unmarshalInto S mi m b limit false = .ok r) :
    r.unknown = m.unknown ++ unknownOfInput (S.msg mi) b := by
  unfold unmarshalInto at h
  split at h
  · cases h
  · exact decMsg_unknown_eq _ _ _ _ _ _ _ h

/-- **unknown fields are preserved**: raw, in input order, nothing else -/
theorem unknown_preserved (S : Schema) (mi : Nat) (b : List Byte) (limit : Int) (r : Msg)
    (h : unmarshal S mi b limit false = .ok r) : r.unknown = unknownOfInput (S.msg mi) b := by
  have := unknown_preserved_into S mi Msg.empty b limit r h
  simpa [Msg.empty, Msg.unknown] using this

/-- what the scan keeps of one record: all of it or nothing, then the rest -/
theorem unkScan_step (d : MsgD) (fuel : Nat) (b : List Byte) (num wt n : Nat) (hb : b ≠ [])
    (h : consumeField b = .ok (num, wt, n)) :
    unkScan d (fuel + 1) b = (if isUnknownRec d num wt then b.take n else []) ++ unkScan d fuel (b.drop n) := by
  cases b with
  | nil => exact absurd rfl hb
  | cons x r => simp only [unkScan, h]

/-- an undeclared number is always kept -/
theorem isUnknownRec_undeclared (d : MsgD) (num wt : Nat) (h : d.find num = none) : isUnknownRec d num wt = true := by
  simp [isUnknownRec, h]

/-- a declared scalar field arriving with its own wire type is never kept -/
theorem isUnknownRec_declared (d : MsgD) (f : Field) (h : d.find f.num = some f) (hm : f.kind.isMessage = false)
    (hc : f.card ≠ .map) : isUnknownRec d f.num f.kind.wireType = false := by
  simp only [isUnknownRec, h, wtUnknown, hm]
  cases hcard : f.card <;> simp_all

/-- Marshal re-emits the unknown bytes, unchanged, after the known fields -/
theorem encode_emits_unknown (S : Schema) (mi : Nat) (fs : Fields) (unk : List Byte) :
    ∃ pre, encMsg S mi (.mk fs unk) = pre ++ unk ∧ pre = encFields S (S.msg mi) fs :=
  ⟨_, by simp only [encMsg], rfl⟩

/-- decode, then marshal: the output ends with exactly the uninterpreted records of the input -/
theorem reencode_keeps_unknown (S : Schema) (mi : Nat) (b : List Byte) (limit : Int) (r : Msg)
    (h : unmarshal S mi b limit false = .ok r) :
    encMsg S mi r = encFields S (S.msg mi) r.fields ++ unknownOfInput (S.msg mi) b := by
  have hu := unknown_preserved S mi b limit r h
  cases r with
  | mk fs u => simp only [Msg.unknown] at hu; subst hu; simp only [encMsg, Msg.fields]

/-- **DiscardUnknown**: no message in the decoded tree retains unknown fields — every input -/
theorem discard_unknown (S : Schema) (mi : Nat) (b : List Byte) (limit : Int) (r : Msg)
    (h : unmarshal S mi b limit true = .ok r) : noUnkMsg r = true := by
  unfold unmarshal unmarshalInto at h
  split at h
  · cases h
  · exact (dec_noUnk _).1 _ _ _ _ _ _ noUnkMsg_empty h

theorem discard_unknown_into (S : Schema) (mi : Nat) (m : Msg) (b : List Byte) (limit : Int) (r : Msg)
    (hm : noUnkMsg m = true) (h : unmarshalInto S mi m b limit true = .ok r) : noUnkMsg r = true := by
  unfold unmarshalInto at h
  split at h
  · cases h
  · exact (dec_noUnk _).1 _ _ _ _ _ _ hm h

/-- on encodings of well-formed messages: exactly the message without its unknown fields (C03) -/
theorem discard_is_strip (S : Schema) (mi : Nat) (m : Msg) (limit : Int) (hwf : WF S mi m) (hd : depthOK m limit) :
    unmarshal S mi (encMsg S mi m) limit true = .ok (stripMsg true m) ∧ noUnkMsg (stripMsg true m) = true :=
  ⟨C03.decode_encode_discard S mi m limit hwf hd, stripMsg_noUnk m⟩

/-- without DiscardUnknown the unknown fields of a well-formed message come back byte for byte -/
theorem roundtrip_unknown (S : Schema) (mi : Nat) (fs : Fields) (unk : List Byte) (limit : Int)
    (hwf : WF S mi (.mk fs unk)) (hd : depthOK (.mk fs unk) limit) :
    ∃ r, unmarshal S mi (encMsg S mi (.mk fs unk)) limit false = .ok r ∧ r.unknown = unk :=
  ⟨_, C03.decode_encode S mi _ limit hwf hd, rfl⟩

/-! examples: the scan on concrete bytes.  Schema: field 1 int32, field 2 string.  Input: field 1
varint 5 (known), field 9 varint 1 (undeclared), field 1 as fixed32 (declared, wrong wire type),
field 2 "a" (known), field 3 group { field 1 varint 0 } (undeclared group). -/
def exD : MsgD := { fields := [{ num := 1, kind := .int32, card := .optional }, { num := 2, kind := .string, card := .optional }] }
def exS : Schema := { msgs := [exD] }
def exIn : List Byte :=
  [0x08#8, 0x05#8, 0x48#8, 0x01#8, 0x0D#8, 0x01#8, 0x02#8, 0x03#8, 0x04#8, 0x12#8, 0x01#8, 0x61#8,
   0x1B#8, 0x08#8, 0x00#8, 0x1C#8]
example : unknownOfInput exD exIn =
    [0x48#8, 0x01#8, 0x0D#8, 0x01#8, 0x02#8, 0x03#8, 0x04#8, 0x1B#8, 0x08#8, 0x00#8, 0x1C#8] := by decide +kernel
example : (unmarshal exS 0 exIn 10000 false).toOption.map Msg.unknown = some (unknownOfInput exD exIn) := by
  decide +kernel
example : (unmarshal exS 0 exIn 10000 true).toOption.map noUnkMsg = some true := by decide +kernel

/-! ### schema evolution

`SubSchema S' S`: same message indices, every message type of `S'` keeps a sub-list of the fields
of the corresponding type of `S` (fields deleted, nothing added or changed).

FULL STATEMENT (not proved in general):
  theorem schema_evolution (h : SubSchema S' S) (hwf : WF S mi m) (hd : depthOK m limit)
      (hmap : map entry types keep fields 1 and 2) (hdist : field numbers of every type of S distinct) :
      ∃ m', unmarshal S' mi (encMsg S mi m) limit false = .ok m' ∧
            unmarshal S mi (encMsg S' mi m') limit false = .ok m
  (the second decode even gives `m` itself, not only up to field order, because the decoder stores
  fields in ascending number order whatever their arrival order).
What is missing for it: (1) the decoder-loop invariant of Lemmas/MsgRound.lean for a field list whose
records arrive in non-ascending order (accumulator updated by `Fields.set` instead of appended to),
(2) the same invariant with an encoder schema different from the decoder schema (nested values are
re-interpreted by `S'`), (3) a skip lemma: the records of a deleted field are consumed as unknown.
Proved below: the extreme instance where the reader knows NONE of the fields of the message type
(`schema_evolution_partial`), for every well-formed message, nested values, maps, groups, oneofs
included; and the general facts `SubSchema` gives about which records become unknown. -/

def SubSchema (S' S : Schema) : Prop :=
  S'.msgs.length = S.msgs.length ∧ ∀ i, List.Sublist (S'.msg i).fields (S.msg i).fields

/-- a reader whose message type declares no field keeps every record, raw and in order -/
theorem decMsg_all_unknown (S' : Schema) (mi : Nat) (depth : Int) (hnone : (S'.msg mi).fields = []) :
    ∀ {b : List Byte}, WireSeq b → ∀ (fs : Fields) (u : List Byte) (fuel : Nat), b.length + 2 ≤ fuel →
      decMsg fuel S' mi (.mk fs u) b depth false = .ok (.mk fs (u ++ b)) := by
  intro b hw
  induction hw with
  | nil =>
    intro fs u fuel hf
    cases fuel with
    | zero => omega
    | succ fu => simp [decMsg]
  | @cons b num typ n hb hc hm _ ih =>
    intro fs u fuel hf
    cases fuel with
    | zero => omega
    | succ fu =>
      unfold consumeField at hc
      split at hc
      · cases hc
      · rename_i num' typ' tl ht
        split at hc
        · cases hc
        · rename_i n' hn
          simp only [Except.ok.injEq, Prod.mk.injEq] at hc
          obtain ⟨rfl, rfl, rfl⟩ := hc
          have hfind : (S'.msg mi).find num' = none := by simp [MsgD.find, hnone]
          have htl := decTag_len ht
          rw [decMsg_unknown fu hb ht hm hfind hn]
          simp only [Bool.false_eq_true, if_false, Msg.fields, Msg.unknown, List.drop_drop]
          rw [ih fs _ fu (by simp only [List.length_drop]; omega), List.append_assoc, List.take_append_drop]

/-- **schema evolution, reader without any field of the type** (`_partial`): decoding the encoding of
a well-formed message with a schema whose message type `mi` declares no fields keeps all of it as
unknown bytes; re-encoding with that schema and decoding with the full schema gives the message back -/
theorem schema_evolution_partial (S S' : Schema) (mi : Nat) (m : Msg) (limit : Int)
    (hnone : (S'.msg mi).fields = []) (hwf : WF S mi m) (hd : depthOK m limit) :
    ∃ m', unmarshal S' mi (encMsg S mi m) limit false = .ok m' ∧
      m' = .mk .nil (encMsg S mi m) ∧
      unmarshal S mi (encMsg S' mi m') limit false = .ok m := by
  have h1 := C03.decode_encode S mi m limit hwf hd
  have hw : WireSeq (encMsg S mi m) := C06.decode_ok_wire S mi Msg.empty _ limit false m h1
  refine ⟨.mk .nil (encMsg S mi m), ?_, rfl, ?_⟩
  · unfold unmarshal unmarshalInto
    have hpos := depthMsg_pos m
    unfold depthOK at hd
    have : ¬ limit - 1 < 0 := by omega
    simp only [this, if_false]
    have := decMsg_all_unknown S' mi (limit - 1) hnone hw .nil [] (Pb.fuelFor (encMsg S mi m)) (Nat.le_refl _)
    simpa [Msg.empty] using this
  · have : encMsg S' mi (.mk .nil (encMsg S mi m)) = encMsg S mi m := by simp [encMsg, encFields]
    rw [this]; exact h1

/-- under a sub-schema, a field deleted from the type is undeclared, so its records are kept as unknown -/
theorem subSchema_deleted_unknown (d' : MsgD) (num wt : Nat) (h : d'.find num = none) :
    isUnknownRec d' num wt = true := isUnknownRec_undeclared d' num wt h

end C09

#print axioms C09.unknown_preserved
#print axioms C09.discard_unknown
