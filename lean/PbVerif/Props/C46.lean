import PbVerif.Lemmas.StructTag
/-
C46 — legacy and struct-tag-only messages behave like generated ones: the Lean part.

Messages known only through struct tags get their field descriptors from `tag.Unmarshal`
(`aberrantLoadMessageDesc`); old generated code carries exactly the tags that `tag.Marshal`
(then part of the generator) wrote.  Theorem: for every field descriptor whose strings contain no
comma (the tag grammar has no escaping) `tag.Unmarshal (tag.Marshal fd)` reads back the name, number,
cardinality, kind, JSON name, packedness, syntax and default text of `fd`.  The hypotheses are exactly
the places where the tag loses information (each is witnessed below by a descriptor that does not
round-trip): an explicit `[packed = false]` in proto3, a `json_name` equal to the field name but
different from its camel-case form, extension fields, an enum field without a registered enum name.
Behaviour of the derived descriptors (wire bytes, JSON, text, reflection) is tied by the harness.
-/
namespace C46
open Pb Pb.Tag

/-- the field descriptors whose attributes a struct tag carries faithfully -/
structure WF (fd : FieldDesc) : Prop where
  notExt : fd.ext = false
  num : fd.number < 2 ^ 31
  ncName : NoComma (tagName fd)
  ncJson : NoComma fd.json
  ncEnum : NoComma fd.enumName
  /-- an enum field needs the `enum=` token, which is only written for a non-empty enum name -/
  enumNamed : fd.kind = .enum → fd.enumName ≠ []
  /-- a group field is named after its message, lower-cased -/
  groupName : fd.kind = .group → fd.name = toLower fd.msgName
  /-- `IsPacked()` is re-derived from `packed` ∨ proto3: no explicit `[packed = false]` in proto3, and
  `packed` only where it applies -/
  packedOK : fd.packed = (decide (fd.label = .repeated) && packable (some fd.kind) && (fd.packed || fd.proto3))
  /-- the JSON name is written only if it differs from the tag's name, and re-read as explicit only if it
  differs from the camel-case form of that name; otherwise it is re-derived from the field name -/
  jsonOK : ¬(emitsJson fd = true ∧ fd.json ≠ jsonCamelCase (lastName (tagName fd))) →
    fd.json = jsonCamelCase (lastName fd.name)

theorem defTokens_eq (fd : FieldDesc) : defTokens fd = defText fd.dflt := by
  unfold defTokens defText; cases fd.dflt <;> rfl

theorem foldl_opt {α β : Type} (f : α → β → α) (c : Prop) [Decidable c] (t : β) (a : α) :
    (if c then [t] else []).foldl f a = if c then f a t else a := by
  split <;> rfl

theorem plain_tokens (fd : FieldDesc) (h : WF fd) : ∀ t ∈ plainTokens fd, Plain t := by
  intro t ht
  simp only [plainTokens, List.mem_append, List.mem_cons, List.mem_ite_nil_right, List.not_mem_nil, or_false] at ht
  rcases ht with ((((((rfl | rfl | rfl) | ⟨_, rfl⟩) | rfl) | ⟨_, rfl⟩) | ⟨_, rfl⟩) | ⟨_, rfl⟩) | ⟨_, rfl⟩
  · exact plain_kindToken _
  · exact plain_itoa _
  · exact plain_labelToken _
  · exact plain_lit_packed
  · exact plain_name _ h.ncName
  · exact plain_json _ h.ncJson
  · exact plain_lit_proto3
  · exact plain_enum _ h.ncEnum
  · exact plain_lit_oneof

/-- the parser state after all ordinary tokens of `marshalTag fd` -/
theorem fold_plainTokens (fd : FieldDesc) (h : WF fd) :
    (plainTokens fd).foldl (fun st t => step (goKindOf fd.kind) t st) {} =
      { name := tagName fd, number := (fd.number : Int), label := some fd.label, kind := some fd.kind,
        json := if emitsJson fd = true ∧ fd.json ≠ jsonCamelCase (lastName (tagName fd)) then some fd.json else none,
        packed := fd.packed, proto3 := fd.proto3, dflt := none } := by
  have hx := h.notExt
  have hen := h.enumNamed
  simp only [plainTokens, List.foldl_append, List.foldl_cons, List.foldl_nil, foldl_opt,
    step_kindToken, step_itoa _ _ h.num, step_labelToken, step_packed, step_name, step_json, step_proto3,
    step_enum, step_oneof, hx]
  by_cases hk : fd.kind = .enum
  · have := hen hk
    cases hp : fd.packed <;> cases hj : emitsJson fd <;> cases h3 : fd.proto3 <;> cases ho : fd.oneof <;>
      simp_all <;> (split <;> simp_all)
  · cases hp : fd.packed <;> cases hj : emitsJson fd <;> cases h3 : fd.proto3 <;> cases ho : fd.oneof <;>
      simp_all <;> (split <;> simp_all)

/-- **struct-tag round trip**: `tag.Unmarshal(tag.Marshal(fd), goType(fd))` carries the attributes of `fd`,
for every well-formed field descriptor (all kinds, numbers below 2^31, any default text — commas included). -/
theorem unmarshal_marshal (fd : FieldDesc) (h : WF fd) :
    (unmarshalTag (goKindOf fd.kind) (marshalTag fd)).view = fd.view := by
  unfold unmarshalTag marshalTag
  rw [defTokens_eq, loop_tokens _ _ (plain_tokens fd h) _ _ _ (Nat.lt_succ_self _), fold_plainTokens fd h]
  have hg := h.groupName
  have hj := h.jsonOK
  have hp := h.packedOK
  by_cases hk : fd.kind = .group
  · have hn := hg hk
    cases hd : fd.dflt <;>
      simp_all [applyDef, finish, St.view, FieldDesc.view, St.jsonName, St.isPacked, tagName] <;>
      (split <;> simp_all)
  · cases hd : fd.dflt <;>
      simp_all [applyDef, finish, St.view, FieldDesc.view, St.jsonName, St.isPacked, tagName] <;>
      (split <;> simp_all)

end C46
