import PbVerif.Lemmas.StructTag
/-
C46 — legacy and struct-tag-only messages behave like generated ones: the Lean part.

Messages known only through struct tags get their field descriptors from `tag.Unmarshal`
(`aberrantLoadMessageDesc`); old generated code carries exactly the tags that `tag.Marshal`
(then part of the generator) wrote.  Theorem: for every field descriptor whose strings contain no
comma (the tag grammar has no escaping) `tag.Unmarshal (tag.Marshal fd)` reads back the name, number,
cardinality, kind, JSON name, packedness, syntax and default text of `fd`.  The hypotheses are exactly
the places where the tag loses information (each is witnessed below by a descriptor that does not
round-trip): an explicit `[packed = false]` in proto3, a `json_name` equal to the field name but
different from its camel-case form, extension fields, an enum field without a registered enum name.
Behaviour of the derived descriptors (wire bytes, JSON, text, reflection) is tied by the harness.
-/
namespace C46
open Pb Pb.Tag

/-- the field descriptors whose attributes a struct tag carries faithfully -/
structure WF (fd : FieldDesc) : Prop where
  notExt : fd.ext = false
  num : fd.number < 2 ^ 31
  ncName : NoComma (tagName fd)
  ncJson : NoComma fd.json
  ncEnum : NoComma fd.enumName
  /-- an enum field needs the `enum=` token, which is only written for a non-empty enum name -/
  enumNamed : fd.kind = .enum → fd.enumName ≠ []
  /-- a group field is named after its message, lower-cased -/
  groupName : fd.kind = .group → fd.name = toLower fd.msgName
  /-- `IsPacked()` is re-derived from `packed` ∨ proto3: no explicit `[packed = false]` in proto3, and
  `packed` only where it applies -/
  packedOK : fd.packed = (decide (fd.label = .repeated) && packable (some fd.kind) && (fd.packed || fd.proto3))
  /-- the JSON name is written only if it differs from the tag's name, and re-read as explicit only if it
  differs from the camel-case form of that name; otherwise it is re-derived from the field name -/
  jsonOK : ¬(emitsJson fd = true ∧ fd.json ≠ jsonCamelCase (lastName (tagName fd))) →
    fd.json = jsonCamelCase (lastName fd.name)

theorem defTokens_eq (fd : FieldDesc) : defTokens fd = defText fd.dflt := by
  unfold defTokens defText; cases fd.dflt <;> rfl

theorem foldl_opt {α β : Type} (f : α → β → α) (c : Prop) [Decidable c] (t : β) (a : α) :
    (if c then [t] else []).foldl f a = if c then f a t else a := by
  split <;> rfl

theorem plain_tokens (fd : FieldDesc) (h : WF fd) : ∀ t ∈ plainTokens fd, Plain t := by
  intro t ht
  simp only [plainTokens, List.mem_append, List.mem_cons, List.mem_ite_nil_right, List.not_mem_nil, or_false] at ht
  rcases ht with ((((((rfl | rfl | rfl) | ⟨_, rfl⟩) | rfl) | ⟨_, rfl⟩) | ⟨_, rfl⟩) | ⟨_, rfl⟩) | ⟨_, rfl⟩
  · exact plain_kindToken _
  · exact plain_itoa _
  · exact plain_labelToken _
  · exact plain_lit_packed
  · exact plain_name _ h.ncName
  · exact plain_json _ h.ncJson
  · exact plain_lit_proto3
  · exact plain_enum _ h.ncEnum
  · exact plain_lit_oneof

/-- the parser state after all ordinary tokens of `marshalTag fd` -/
theorem fold_plainTokens (fd : FieldDesc) (h : WF fd) :
    (plainTokens fd).foldl (fun st t => step (goKindOf fd.kind) t st) {} =
      { name := tagName fd, number := (fd.number : Int), label := some fd.label, kind := some fd.kind,
        json := if emitsJson fd = true ∧ fd.json ≠ jsonCamelCase (lastName (tagName fd)) then some fd.json else none,
        packed := fd.packed, proto3 := fd.proto3, dflt := none } := by
  have hx := h.notExt
  have hen := h.enumNamed
  simp only [plainTokens, List.foldl_append, List.foldl_cons, List.foldl_nil, foldl_opt,
    step_kindToken, step_itoa _ _ h.num, step_labelToken, step_packed, step_name, step_json, step_proto3,
    step_enum, step_oneof, hx]
  by_cases hk : fd.kind = .enum
  · have := hen hk
    cases hp : fd.packed <;> cases hj : emitsJson fd <;> cases h3 : fd.proto3 <;> cases ho : fd.oneof <;>
      simp_all <;> (split <;> simp_all)
  · cases hp : fd.packed <;> cases hj : emitsJson fd <;> cases h3 : fd.proto3 <;> cases ho : fd.oneof <;>
      simp_all <;> (split <;> simp_all)

/-- **struct-tag round trip**: `tag.Unmarshal(tag.Marshal(fd), goType(fd))` carries the attributes of `fd`,
for every well-formed field descriptor (all kinds, numbers below 2^31, any default text — commas included). -/
theorem unmarshal_marshal (fd : FieldDesc) (h : WF fd) :
    (unmarshalTag (goKindOf fd.kind) (marshalTag fd)).view = fd.view := by
  unfold unmarshalTag marshalTag
  rw [defTokens_eq, loop_tokens _ _ (plain_tokens fd h) _ _ _ (Nat.lt_succ_self _), fold_plainTokens fd h]
  have hname : (if fd.kind = .group then toLower (tagName fd) else tagName fd) = fd.name := by
    by_cases hk : fd.kind = .group
    · simp [hk, tagName, h.groupName hk]
    · simp [hk, tagName]
  have hjson : (if emitsJson fd = true ∧ fd.json ≠ jsonCamelCase (lastName (tagName fd)) then some fd.json
      else none).getD (jsonCamelCase (lastName fd.name)) = fd.json := by
    by_cases hc : emitsJson fd = true ∧ fd.json ≠ jsonCamelCase (lastName (tagName fd))
    · simp [hc]
    · rw [if_neg hc]; exact (h.jsonOK hc).symm
  have hpk : (decide (some fd.label = some Label.repeated) && packable (some fd.kind) && (fd.packed || fd.proto3))
      = fd.packed := by
    have := h.packedOK
    simp only [Option.some.injEq] at this ⊢
    exact this.symm
  have hfin : ∀ d : Option Str, finish (applyDef
      { name := tagName fd, number := (fd.number : Int), label := some fd.label, kind := some fd.kind,
        json := if emitsJson fd = true ∧ fd.json ≠ jsonCamelCase (lastName (tagName fd)) then some fd.json else none,
        packed := fd.packed, proto3 := fd.proto3, dflt := none } d) =
      { name := fd.name, number := (fd.number : Int), label := some fd.label, kind := some fd.kind,
        json := if emitsJson fd = true ∧ fd.json ≠ jsonCamelCase (lastName (tagName fd)) then some fd.json else none,
        packed := fd.packed, proto3 := fd.proto3, dflt := d } := by
    intro d
    by_cases hk : fd.kind = .group
    · have := h.groupName hk
      cases d <;> simp [applyDef, finish, hk, tagName, this]
    · have e : tagName fd = fd.name := by simp [tagName, hk]
      cases d <;> simp [applyDef, finish, hk, e]
  rw [hfin]
  simp only [St.view, FieldDesc.view, St.jsonName, St.isPacked, hjson, hpk]

/-! ### the hypotheses are satisfiable, and each one is needed -/

/-- a proto3 optional enum field in a oneof with a default text containing commas -/
def ex1 : FieldDesc :=
  { kind := .enum, number := 115, label := .optional, packed := false, name := ['c', 'h', 'i', 'l', 'd', '_', 'e', 'n', 'u', 'm'],
    json := ['c', 'h', 'i', 'l', 'd', 'E', 'n', 'u', 'm'], proto3 := true, enumName := ['p', 'k', 'g', '.', 'M', '_', 'E'], oneof := true,
    dflt := some ['a', ',', 'b', ',', ',', 'c'] }

/-- a proto2 repeated group -/
def ex2 : FieldDesc :=
  { kind := .group, number := 120, label := .repeated, packed := false, name := ['a', 'g', 'r', 'o', 'u', 'p'],
    msgName := ['A', 'G', 'r', 'o', 'u', 'p'], json := ['a', 'g', 'r', 'o', 'u', 'p'], proto3 := false }

set_option maxRecDepth 8000 in
example : (unmarshalTag (goKindOf ex1.kind) (marshalTag ex1)).view = ex1.view := by decide
set_option maxRecDepth 8000 in
example : (unmarshalTag (goKindOf ex2.kind) (marshalTag ex2)).view = ex2.view := by decide

set_option maxRecDepth 8000 in
/-- the hypotheses of `unmarshal_marshal` are satisfiable by non-trivial descriptors -/
example : WF ex1 ∧ WF ex2 := by
  refine ⟨⟨rfl, by decide, ?_, ?_, ?_, by decide, by decide, by decide, by decide⟩,
          ⟨rfl, by decide, ?_, ?_, ?_, by decide, by decide, by decide, by decide⟩⟩ <;>
    (unfold NoComma; decide)

/-- without `packedOK`: proto3 `repeated int32 x = 1 [packed = false]` comes back packed -/
def bad1 : FieldDesc :=
  { kind := .int32, number := 1, label := .repeated, packed := false, name := ['x'], json := ['x'], proto3 := true }
set_option maxRecDepth 8000 in
example : (unmarshalTag (goKindOf bad1.kind) (marshalTag bad1)).view ≠ bad1.view := by decide

/-- without `jsonOK`: `int32 a_b = 1 [json_name = "a_b"]` comes back with JSON name `aB` -/
def bad2 : FieldDesc :=
  { kind := .int32, number := 1, label := .optional, packed := false, name := ['a', '_', 'b'], json := ['a', '_', 'b'],
    proto3 := false }
set_option maxRecDepth 8000 in
example : (unmarshalTag (goKindOf bad2.kind) (marshalTag bad2)).view ≠ bad2.view := by decide

/-- without `ncName`: a comma in a name splits the token -/
def bad3 : FieldDesc :=
  { kind := .int32, number := 1, label := .optional, packed := false, name := ['a', ',', 'r', 'e', 'q'], json := ['a', ',', 'r', 'e', 'q'],
    proto3 := false }
set_option maxRecDepth 8000 in
example : (unmarshalTag (goKindOf bad3.kind) (marshalTag bad3)).view ≠ bad3.view := by decide

end C46
