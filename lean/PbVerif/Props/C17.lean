import PbVerif.Model.Lazy
import PbVerif.Lemmas.MsgLazy
import PbVerif.Lemmas.MsgLazyIndex
/-
C17 — lazy decoding is observationally equivalent to eager decoding.

Model: `Model/Lazy.lean` on top of `Model/Msg.lean`.  `decLazy` = unmarshalPointerLazy with lazy
decoding allowed into an empty message: every record of a lazy field (singular length-delimited
message field outside oneofs, selected by `lazy : Nat → Bool`) with the right wire type is only
validated and its payload deferred; everything else is decoded eagerly.  Validation model:
`ConsumeBytes` succeeds and the eager decode of the payload into an empty submessage succeeds within
the remaining recursion budget (ValidationValid); its failure is the Unmarshal error
(ValidationInvalid); a wrong wire type sends the record to the unknown fields.  ValidationUnknown
(eager fallback) is not modelled.  That impl.Validate agrees with Unmarshal is compared by the C06
correspondence stream; that the real lazy path agrees with the real eager path on every observer is
compared by the C17 stream.  `force` = access every lazy field (lazyUnmarshal: the occurrences of a
field are decoded in input order, each merging into the submessage built so far).

For ALL inputs, schemas, lazy-field selections, limits and DiscardUnknown modes:
* `lazy_verdict`, `lazy_error_eq` — lazy Unmarshal succeeds iff eager Unmarshal succeeds, with the
                              same error otherwise;
* `force_eq`                — forcing the lazily decoded message gives exactly the eagerly decoded one;
* `lazy_ok_no_later_failure`, `access_never_fails` — once lazy Unmarshal has succeeded, no later access
                              to any field fails;
* `observers_commute`       — every observer (getters, Has, Range, Equal, CheckInitialized, Marshal,
                              JSON/text: any function of the message value) gives the same result on
                              the forced lazy message as on the eager one — observers of a lazy
                              message are by definition observers of `force`;
* `index_correct`           — the lazy index (`buildIndex`, contiguity merge, sort by (FieldNum, Start)):
                              `lookup` returns ranges covering exactly the deferred records of the
                              field, in input order, also for out-of-order and repeated fields and
                              with wrong-wire-type occurrences in between.
-/
namespace C17
open Pb Spec

theorem lazy_sim_top (S : Schema) (mi : Nat) (lazy : Nat → Bool) (b : List Byte) (limit : Int) (dis : Bool)
    (hl : ¬ limit - 1 < 0) :
    (∀ e, decLazyLoop (Pb.fuelFor b) S mi lazy LMsg.empty b (limit - 1) dis = .error e →
      decMsg (Pb.fuelFor b) S mi Msg.empty b (limit - 1) dis = .error e) ∧
    (∀ l, decLazyLoop (Pb.fuelFor b) S mi lazy LMsg.empty b (limit - 1) dis = .ok l →
      ∃ m, decMsg (Pb.fuelFor b) S mi Msg.empty b (limit - 1) dis = .ok m ∧ Sim S mi lazy (limit - 1) dis l m) :=
  lazy_sim S mi lazy (limit - 1) dis (Pb.fuelFor b) LMsg.empty Msg.empty b (Sim_empty S mi lazy (limit - 1) dis)
    (Nat.le_refl _)

/-- lazy Unmarshal fails exactly when eager Unmarshal fails, and with the same error -/
theorem lazy_error_eq (S : Schema) (mi : Nat) (lazy : Nat → Bool) (b : List Byte) (limit : Int) (dis : Bool) (e : DErr) :
    decLazy S mi lazy b limit dis = .error e ↔ unmarshal S mi b limit dis = .error e := by
  unfold decLazy unmarshal unmarshalInto
  by_cases hl : limit - 1 < 0
  · simp only [hl, if_true]
    constructor <;> (intro h; cases h; rfl)
  · simp only [hl, if_false]
    obtain ⟨hE, hO⟩ := lazy_sim_top S mi lazy b limit dis hl
    constructor
    · exact hE e
    · intro h
      cases hd : decLazyLoop (Pb.fuelFor b) S mi lazy LMsg.empty b (limit - 1) dis with
      | error e' => have := hE e' hd; rw [h] at this; cases this; rfl
      | ok l => obtain ⟨m, hm, _⟩ := hO l hd; rw [h] at hm; cases hm

/-- **same Unmarshal verdict** -/
theorem lazy_verdict (S : Schema) (mi : Nat) (lazy : Nat → Bool) (b : List Byte) (limit : Int) (dis : Bool) :
    (∃ l, decLazy S mi lazy b limit dis = .ok l) ↔ (∃ m, unmarshal S mi b limit dis = .ok m) := by
  constructor
  · rintro ⟨l, hl⟩
    cases hu : unmarshal S mi b limit dis with
    | ok m => exact ⟨m, rfl⟩
    | error e => rw [(lazy_error_eq S mi lazy b limit dis e).mpr hu] at hl; cases hl
  · rintro ⟨m, hm⟩
    cases hd : decLazy S mi lazy b limit dis with
    | ok l => exact ⟨l, rfl⟩
    | error e => rw [(lazy_error_eq S mi lazy b limit dis e).mp hd] at hm; cases hm

/-- **forcing the lazily decoded message gives the eagerly decoded message** -/
theorem force_eq (S : Schema) (mi : Nat) (lazy : Nat → Bool) (b : List Byte) (limit : Int) (dis : Bool) (l : LMsg)
    (h : decLazy S mi lazy b limit dis = .ok l) : force S mi l limit dis = unmarshal S mi b limit dis := by
  unfold decLazy at h
  unfold unmarshal unmarshalInto force
  by_cases hl : limit - 1 < 0
  · simp [hl] at h
  · simp only [hl, if_false] at h ⊢
    obtain ⟨m, hm, hs⟩ := (lazy_sim_top S mi lazy b limit dis hl).2 l h
    rw [hm]
    exact force_of_sim hs

/-- once lazy Unmarshal has succeeded, forcing never fails -/
theorem lazy_ok_no_later_failure (S : Schema) (mi : Nat) (lazy : Nat → Bool) (b : List Byte) (limit : Int) (dis : Bool)
    (l : LMsg) (h : decLazy S mi lazy b limit dis = .ok l) : ∃ m, force S mi l limit dis = .ok m := by
  rw [force_eq S mi lazy b limit dis l h]
  exact (lazy_verdict S mi lazy b limit dis).mp ⟨l, h⟩

/-- … nor does the first access to any single field (`lazyUnmarshal(num)`), lazy or not -/
theorem access_never_fails (S : Schema) (mi : Nat) (lazy : Nat → Bool) (b : List Byte) (limit : Int) (dis : Bool)
    (l : LMsg) (h : decLazy S mi lazy b limit dis = .ok l) (k : Nat) :
    ∃ r, forceField S mi (limit - 1) dis l.pend l.base k = .ok r := by
  unfold decLazy at h
  by_cases hl : limit - 1 < 0
  · simp [hl] at h
  · simp only [hl, if_false] at h
    obtain ⟨m, _, hs⟩ := (lazy_sim_top S mi lazy b limit dis hl).2 l h
    unfold forceField
    cases hfind : (S.msg mi).find k with
    | none => exact ⟨_, rfl⟩
    | some f =>
      simp only
      by_cases hlz : isLazyField lazy f = true
      · rcases (hs.lazyf k f hfind hlz).2 with ⟨h0, _⟩ | ⟨_, sub, hsub, _⟩
        · rw [h0]; exact ⟨_, rfl⟩
        · rw [hsub]; exact ⟨_, rfl⟩
      · have hocc : occurrences l.pend k = [] := by
          apply Classical.byContradiction
          intro hne
          have hin := (mem_pendNums l.pend k).mpr hne
          unfold pendNums at hin
          rw [List.mem_eraseDups, List.mem_map] at hin
          obtain ⟨kp, hm, rfl⟩ := hin
          have := hs.pendLazy kp hm
          simp [lazyAt, hfind, hlz] at this
        rw [hocc]; exact ⟨_, rfl⟩

/-- every observer gives the same answer on the (forced) lazily decoded message as on the eagerly
decoded one — for ANY function of the message value: field values, presence, Equal,
CheckInitialized, deterministic Marshal bytes, JSON/text content, and any read/write sequence
afterwards -/
theorem observers_commute {α : Type} (obs : Msg → α) (S : Schema) (mi : Nat) (lazy : Nat → Bool) (b : List Byte)
    (limit : Int) (dis : Bool) (l : LMsg) (h : decLazy S mi lazy b limit dis = .ok l) :
    (force S mi l limit dis).map obs = (unmarshal S mi b limit dis).map obs := by
  rw [force_eq S mi lazy b limit dis l h]

/-- the lazy index -/
theorem index_correct (buf : List Byte) (rs : List LRec) (hlen : ∀ r ∈ rs, 1 ≤ r.2.1) (hnum : ∀ r ∈ rs, 1 ≤ r.1)
    (hcons : Consistent (recSpans 0 rs)) (k : Nat) :
    (lookup (buildIndex rs) k).flatMap (slice buf) = (deferredSpans (recSpans 0 rs) k).flatMap (slice buf) :=
  Pb.index_correct buf rs hlen hnum hcons k

/-- sorting does not change what `lookup` returns (so it is immaterial that the code sorts only when
the input was out of order) -/
theorem lookup_sort_irrelevant (rs : List LRec) (hlen : ∀ r ∈ rs, 1 ≤ r.2.1) (hnum : ∀ r ∈ rs, 1 ≤ r.1)
    (hcons : Consistent (recSpans 0 rs)) (k : Nat) : lookup (buildIndex rs) k = lookup (rawIndex rs) k := by
  have hinv := idx_fold [] rs ([], 0, false, 0) [] (IdxInv_init []) hlen hnum (by simpa using hcons)
  unfold buildIndex
  apply lookup_sortIndex
  unfold rawIndex
  rw [List.pairwise_reverse]
  exact hinv.starts

/-! ### example: field 1 int32, field 2 lazy message (type 1: field 1 int32), field 3 string.
Input: field 2 {1: 5}, field 1 = 7, field 2 as varint (wrong wire type), field 2 {1: 9} twice
(contiguous), field 3 "a" — out of order, repeated, with an occurrence in the unknown fields. -/
def exS : Schema := { msgs := [
  { fields := [{ num := 1, kind := .int32, card := .optional }, { num := 2, kind := .message, card := .optional, sub := 1 },
               { num := 3, kind := .string, card := .optional }] },
  { fields := [{ num := 1, kind := .int32, card := .optional }] } ] }
def exIn : List Byte :=
  [0x12#8, 0x02#8, 0x08#8, 0x05#8, 0x08#8, 0x07#8, 0x10#8, 0x01#8, 0x12#8, 0x02#8, 0x08#8, 0x09#8,
   0x12#8, 0x02#8, 0x08#8, 0x09#8, 0x1A#8, 0x01#8, 0x61#8]
def exLazy : Nat → Bool := fun k => k == 2

example : (decLazy exS 0 exLazy exIn).toOption.map (fun l => (l.pend.map (·.1), l.base.fields.nums)) =
    some ([2, 2, 2], [1, 3]) := by decide +kernel
example : ((decLazy exS 0 exLazy exIn).toOption.bind (fun l => (force exS 0 l).toOption)).map (encMsg exS 0) =
    (unmarshal exS 0 exIn).toOption.map (encMsg exS 0) := by decide +kernel
example : (unmarshal exS 0 exIn).toOption.isSome = true := by decide +kernel
/-- the index for that input: records (num, length, treatment) -/
def exRecs : List LRec := [(2, 4, .deferred), (1, 2, .other), (2, 2, .lazyUnknown), (2, 4, .deferred), (2, 4, .deferred),
  (3, 3, .other)]
example : buildIndex exRecs = [IndexEntry.mk 2 0 4, IndexEntry.mk 2 8 16] := by decide
example : lookup (buildIndex exRecs) 2 = [(0, 4), (8, 16)] := by decide
/-- invalid content inside the lazy submessage: both fail -/
example : (decLazy exS 0 exLazy [0x12#8, 0x03#8, 0x08#8, 0x80#8, 0x80#8]).toOption.isNone = true ∧
    (unmarshal exS 0 [0x12#8, 0x03#8, 0x08#8, 0x80#8, 0x80#8]).toOption.isNone = true := by decide +kernel

end C17

#print axioms C17.lazy_verdict
#print axioms C17.force_eq
#print axioms C17.access_never_fails
#print axioms C17.index_correct
