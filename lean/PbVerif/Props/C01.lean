import PbVerif.Gen.Wire
import PbVerif.Lemmas.GoInt
import PbVerif.Lemmas.BvTactics
/-
C01 — Wire primitives round-trip and report exact sizes.

All statements are about `Gen.Wire.*`, the definitions that /verif/go/go2lean regenerates from
/repo/encoding/protowire/wire.go on every check run.  Go `uint64/int64/int` are `BitVec 64`,
`Number` (int32) is `BitVec 32`, `Type` (int8) and `byte` are `BitVec 8`, `[]byte`/`string`
are `List (BitVec 8)`; an `Option` result is `none` exactly where the Go code would panic.
-/
open Gen.Wire
namespace C01
abbrev Byte := BitVec 8

/-! ### zigzag, bool, tag -/

theorem decodeZigZag_encodeZigZag (x : BitVec 64) : decodeZigZag (encodeZigZag x) = x := by
  unfold decodeZigZag encodeZigZag; bv_decide

theorem encodeZigZag_decodeZigZag (u : BitVec 64) : encodeZigZag (decodeZigZag u) = u := by
  unfold decodeZigZag encodeZigZag; bv_decide

/-- zigzag maps small magnitudes to small codes: `0,-1,1,-2,… ↦ 0,1,2,3,…` -/
theorem encodeZigZag_order (x : BitVec 64) :
    encodeZigZag x = if x.msb then ~~~(x <<< 1) else x <<< 1 := by
  unfold encodeZigZag; split <;> bv_decide

theorem decodeBool_encodeBool (b : Bool) : decodeBool (encodeBool b) = b := by
  cases b <;> simp [decodeBool, encodeBool]

theorem encodeBool_range (b : Bool) : encodeBool b = 0#64 ∨ encodeBool b = 1#64 := by
  cases b <;> simp [encodeBool]

theorem decodeBool_iff (u : BitVec 64) : decodeBool u = true ↔ u ≠ 0#64 := by
  simp [decodeBool]

/-- documented domain of a tag: field number `1 … 2^29-1`, wire type `0 … 7`. -/
def TagDomain (n : BitVec 32) (t : BitVec 8) : Prop :=
  BitVec.sle 1#32 n = true ∧ BitVec.sle n 536870911#32 = true ∧ BitVec.ult t 8#8 = true

theorem decodeTag_encodeTag (n : BitVec 32) (t : BitVec 8) (h : TagDomain n t) :
    decodeTag (encodeTag n t) = (n, t) := by
  obtain ⟨hn, hn2, ht⟩ := h
  unfold decodeTag encodeTag
  rw [if_neg]; rotate_left; bv_decide
  simp only [Prod.mk.injEq]
  constructor <;> bv_decide

theorem encodeTag_injective (n n' : BitVec 32) (t t' : BitVec 8)
    (h : TagDomain n t) (h' : TagDomain n' t') (e : encodeTag n t = encodeTag n' t') :
    n = n' ∧ t = t' := by
  have a := decodeTag_encodeTag n t h
  have b := decodeTag_encodeTag n' t' h'
  rw [e, b] at a
  exact ⟨(Prod.mk.inj a).1.symm, (Prod.mk.inj a).2.symm⟩

/-- `Number.IsValid` is exactly the documented range. -/
theorem number_isValid_iff (n : BitVec 32) :
    number_IsValid n = true ↔ (1 ≤ n.toInt ∧ n.toInt ≤ 2^29 - 1) := by
  unfold number_IsValid
  simp only [Bool.and_eq_true, BitVec.sle, decide_eq_true_eq]
  have h1 : (1#32).toInt = 1 := by decide
  have h2 : (536870911#32).toInt = 2^29 - 1 := by decide
  rw [h1, h2]

example : TagDomain 536870911#32 7#8 := by unfold TagDomain; decide

/-! ### fixed32 / fixed64 -/

theorem consumeFixed32_appendFixed32 (v : BitVec 32) (rest : List Byte) :
    consumeFixed32 (appendFixed32 [] v ++ rest) = some (v, 4#64) := by
  simp [consumeFixed32, appendFixed32]
  rw [if_neg (by omega)]
  simp only [Option.some.injEq, Prod.mk.injEq, and_true]
  bv_decide

theorem consumeFixed64_appendFixed64 (v : BitVec 64) (rest : List Byte) :
    consumeFixed64 (appendFixed64 [] v ++ rest) = some (v, 8#64) := by
  simp [consumeFixed64, appendFixed64]
  rw [if_neg (by omega)]
  simp only [Option.some.injEq, Prod.mk.injEq, and_true]
  bv_decide

theorem appendFixed32_length (b : List Byte) (v : BitVec 32) :
    (appendFixed32 b v).length = b.length + sizeFixed32.toNat := by
  simp [appendFixed32, sizeFixed32]

theorem appendFixed64_length (b : List Byte) (v : BitVec 64) :
    (appendFixed64 b v).length = b.length + sizeFixed64.toNat := by
  simp [appendFixed64, sizeFixed64]

theorem appendFixed32_append (b : List Byte) (v : BitVec 32) :
    appendFixed32 b v = b ++ appendFixed32 [] v := by simp [appendFixed32]

theorem appendFixed64_append (b : List Byte) (v : BitVec 64) :
    appendFixed64 b v = b ++ appendFixed64 [] v := by simp [appendFixed64]

/-! ### varint

The ten value ranges of the `AppendVarint` ladder.  For each range the generated encoder and
the generated (unrolled) decoder are evaluated symbolically and the remaining bit-vector facts
are discharged by `bv_decide`. -/

/-- `v` needs exactly `k` varint bytes (`1 ≤ k ≤ 10`). -/
def InRange (v : BitVec 64) (k : Nat) : Prop :=
  (k = 1 ∨ BitVec.ult v (1#64 <<< (7 * (k - 1))) = false) ∧ (k = 10 ∨ BitVec.ult v (1#64 <<< (7 * k)) = true)

theorem appendVarint_append (b : List Byte) (v : BitVec 64) :
    appendVarint b v = b ++ appendVarint [] v := by
  simp only [appendVarint, List.nil_append, apply_ite (b ++ ·)]

theorem varint_rt_1 (v : BitVec 64) (hi : BitVec.ult v 128#64 = true) (rest : List Byte) :
    consumeVarint (appendVarint [] v ++ rest) = some (v, 1#64) ∧ sizeVarint v = 1#64 ∧
      (appendVarint [] v).length = 1 := by
  refine ⟨?_, ?_, ?_⟩
  · simp only [appendVarint, hi]
    simp [consumeVarint]
    ite_bv
    simp only [Option.some.injEq, Prod.mk.injEq, and_true]
    bv_decide
  · unfold sizeVarint; bv_decide
  · simp [appendVarint, hi]

theorem varint_rt_2 (v : BitVec 64) (lo : BitVec.ult v 128#64 = false) (hi : BitVec.ult v 16384#64 = true) (rest : List Byte) :
    consumeVarint (appendVarint [] v ++ rest) = some (v, 2#64) ∧ sizeVarint v = 2#64 ∧
      (appendVarint [] v).length = 2 := by
  refine ⟨?_, ?_, ?_⟩
  · simp only [appendVarint, lo, hi]
    simp [consumeVarint]
    ite_bv
    simp only [Option.some.injEq, Prod.mk.injEq, and_true]
    bv_decide
  · unfold sizeVarint; bv_decide
  · simp [appendVarint, lo, hi]

theorem varint_rt_3 (v : BitVec 64) (lo : BitVec.ult v 16384#64 = false) (hi : BitVec.ult v 2097152#64 = true) (rest : List Byte) :
    consumeVarint (appendVarint [] v ++ rest) = some (v, 3#64) ∧ sizeVarint v = 3#64 ∧
      (appendVarint [] v).length = 3 := by
  have a1 : BitVec.ult v 128#64 = false := by bv_decide
  refine ⟨?_, ?_, ?_⟩
  · simp only [appendVarint, a1, lo, hi]
    simp [consumeVarint]
    ite_bv
    simp only [Option.some.injEq, Prod.mk.injEq, and_true]
    bv_decide
  · unfold sizeVarint; bv_decide
  · simp [appendVarint, a1, lo, hi]

theorem varint_rt_4 (v : BitVec 64) (lo : BitVec.ult v 2097152#64 = false) (hi : BitVec.ult v 268435456#64 = true) (rest : List Byte) :
    consumeVarint (appendVarint [] v ++ rest) = some (v, 4#64) ∧ sizeVarint v = 4#64 ∧
      (appendVarint [] v).length = 4 := by
  have a1 : BitVec.ult v 128#64 = false := by bv_decide
  have a2 : BitVec.ult v 16384#64 = false := by bv_decide
  refine ⟨?_, ?_, ?_⟩
  · simp only [appendVarint, a1, a2, lo, hi]
    simp [consumeVarint]
    ite_bv
    simp only [Option.some.injEq, Prod.mk.injEq, and_true]
    bv_decide
  · unfold sizeVarint; bv_decide
  · simp [appendVarint, a1, a2, lo, hi]

theorem varint_rt_5 (v : BitVec 64) (lo : BitVec.ult v 268435456#64 = false) (hi : BitVec.ult v 34359738368#64 = true) (rest : List Byte) :
    consumeVarint (appendVarint [] v ++ rest) = some (v, 5#64) ∧ sizeVarint v = 5#64 ∧
      (appendVarint [] v).length = 5 := by
  have a1 : BitVec.ult v 128#64 = false := by bv_decide
  have a2 : BitVec.ult v 16384#64 = false := by bv_decide
  have a3 : BitVec.ult v 2097152#64 = false := by bv_decide
  refine ⟨?_, ?_, ?_⟩
  · simp only [appendVarint, a1, a2, a3, lo, hi]
    simp [consumeVarint]
    ite_bv
    simp only [Option.some.injEq, Prod.mk.injEq, and_true]
    bv_decide
  · unfold sizeVarint; bv_decide
  · simp [appendVarint, a1, a2, a3, lo, hi]

theorem varint_rt_6 (v : BitVec 64) (lo : BitVec.ult v 34359738368#64 = false) (hi : BitVec.ult v 4398046511104#64 = true) (rest : List Byte) :
    consumeVarint (appendVarint [] v ++ rest) = some (v, 6#64) ∧ sizeVarint v = 6#64 ∧
      (appendVarint [] v).length = 6 := by
  have a1 : BitVec.ult v 128#64 = false := by bv_decide
  have a2 : BitVec.ult v 16384#64 = false := by bv_decide
  have a3 : BitVec.ult v 2097152#64 = false := by bv_decide
  have a4 : BitVec.ult v 268435456#64 = false := by bv_decide
  refine ⟨?_, ?_, ?_⟩
  · simp only [appendVarint, a1, a2, a3, a4, lo, hi]
    simp [consumeVarint]
    ite_bv
    simp only [Option.some.injEq, Prod.mk.injEq, and_true]
    bv_decide
  · unfold sizeVarint; bv_decide
  · simp [appendVarint, a1, a2, a3, a4, lo, hi]

theorem varint_rt_7 (v : BitVec 64) (lo : BitVec.ult v 4398046511104#64 = false) (hi : BitVec.ult v 562949953421312#64 = true) (rest : List Byte) :
    consumeVarint (appendVarint [] v ++ rest) = some (v, 7#64) ∧ sizeVarint v = 7#64 ∧
      (appendVarint [] v).length = 7 := by
  have a1 : BitVec.ult v 128#64 = false := by bv_decide
  have a2 : BitVec.ult v 16384#64 = false := by bv_decide
  have a3 : BitVec.ult v 2097152#64 = false := by bv_decide
  have a4 : BitVec.ult v 268435456#64 = false := by bv_decide
  have a5 : BitVec.ult v 34359738368#64 = false := by bv_decide
  refine ⟨?_, ?_, ?_⟩
  · simp only [appendVarint, a1, a2, a3, a4, a5, lo, hi]
    simp [consumeVarint]
    ite_bv
    simp only [Option.some.injEq, Prod.mk.injEq, and_true]
    bv_decide
  · unfold sizeVarint; bv_decide
  · simp [appendVarint, a1, a2, a3, a4, a5, lo, hi]

theorem varint_rt_8 (v : BitVec 64) (lo : BitVec.ult v 562949953421312#64 = false) (hi : BitVec.ult v 72057594037927936#64 = true) (rest : List Byte) :
    consumeVarint (appendVarint [] v ++ rest) = some (v, 8#64) ∧ sizeVarint v = 8#64 ∧
      (appendVarint [] v).length = 8 := by
  have a1 : BitVec.ult v 128#64 = false := by bv_decide
  have a2 : BitVec.ult v 16384#64 = false := by bv_decide
  have a3 : BitVec.ult v 2097152#64 = false := by bv_decide
  have a4 : BitVec.ult v 268435456#64 = false := by bv_decide
  have a5 : BitVec.ult v 34359738368#64 = false := by bv_decide
  have a6 : BitVec.ult v 4398046511104#64 = false := by bv_decide
  refine ⟨?_, ?_, ?_⟩
  · simp only [appendVarint, a1, a2, a3, a4, a5, a6, lo, hi]
    simp [consumeVarint]
    ite_bv
    simp only [Option.some.injEq, Prod.mk.injEq, and_true]
    bv_decide
  · unfold sizeVarint; bv_decide
  · simp [appendVarint, a1, a2, a3, a4, a5, a6, lo, hi]

theorem varint_rt_9 (v : BitVec 64) (lo : BitVec.ult v 72057594037927936#64 = false) (hi : BitVec.ult v 9223372036854775808#64 = true) (rest : List Byte) :
    consumeVarint (appendVarint [] v ++ rest) = some (v, 9#64) ∧ sizeVarint v = 9#64 ∧
      (appendVarint [] v).length = 9 := by
  have a1 : BitVec.ult v 128#64 = false := by bv_decide
  have a2 : BitVec.ult v 16384#64 = false := by bv_decide
  have a3 : BitVec.ult v 2097152#64 = false := by bv_decide
  have a4 : BitVec.ult v 268435456#64 = false := by bv_decide
  have a5 : BitVec.ult v 34359738368#64 = false := by bv_decide
  have a6 : BitVec.ult v 4398046511104#64 = false := by bv_decide
  have a7 : BitVec.ult v 562949953421312#64 = false := by bv_decide
  refine ⟨?_, ?_, ?_⟩
  · simp only [appendVarint, a1, a2, a3, a4, a5, a6, a7, lo, hi]
    simp [consumeVarint]
    ite_bv
    simp only [Option.some.injEq, Prod.mk.injEq, and_true]
    bv_decide
  · unfold sizeVarint; bv_decide
  · simp [appendVarint, a1, a2, a3, a4, a5, a6, a7, lo, hi]

theorem varint_rt_10 (v : BitVec 64) (lo : BitVec.ult v 9223372036854775808#64 = false) (rest : List Byte) :
    consumeVarint (appendVarint [] v ++ rest) = some (v, 10#64) ∧ sizeVarint v = 10#64 ∧
      (appendVarint [] v).length = 10 := by
  have a1 : BitVec.ult v 128#64 = false := by bv_decide
  have a2 : BitVec.ult v 16384#64 = false := by bv_decide
  have a3 : BitVec.ult v 2097152#64 = false := by bv_decide
  have a4 : BitVec.ult v 268435456#64 = false := by bv_decide
  have a5 : BitVec.ult v 34359738368#64 = false := by bv_decide
  have a6 : BitVec.ult v 4398046511104#64 = false := by bv_decide
  have a7 : BitVec.ult v 562949953421312#64 = false := by bv_decide
  have a8 : BitVec.ult v 72057594037927936#64 = false := by bv_decide
  refine ⟨?_, ?_, ?_⟩
  · simp only [appendVarint, a1, a2, a3, a4, a5, a6, a7, a8, lo]
    simp [consumeVarint]
    ite_bv
    simp only [Option.some.injEq, Prod.mk.injEq, and_true]
    bv_decide
  · unfold sizeVarint; bv_decide
  · simp [appendVarint, a1, a2, a3, a4, a5, a6, a7, a8, lo]

/-- every `uint64` falls in exactly one of the ten ranges -/
theorem varint_cases (v : BitVec 64) (P : Prop)
    (h1 : BitVec.ult v 128#64 = true → P)
    (h2 : BitVec.ult v 128#64 = false → BitVec.ult v 16384#64 = true → P)
    (h3 : BitVec.ult v 16384#64 = false → BitVec.ult v 2097152#64 = true → P)
    (h4 : BitVec.ult v 2097152#64 = false → BitVec.ult v 268435456#64 = true → P)
    (h5 : BitVec.ult v 268435456#64 = false → BitVec.ult v 34359738368#64 = true → P)
    (h6 : BitVec.ult v 34359738368#64 = false → BitVec.ult v 4398046511104#64 = true → P)
    (h7 : BitVec.ult v 4398046511104#64 = false → BitVec.ult v 562949953421312#64 = true → P)
    (h8 : BitVec.ult v 562949953421312#64 = false → BitVec.ult v 72057594037927936#64 = true → P)
    (h9 : BitVec.ult v 72057594037927936#64 = false → BitVec.ult v 9223372036854775808#64 = true → P)
    (h10 : BitVec.ult v 9223372036854775808#64 = false → P) : P := by
  by_cases c1 : BitVec.ult v 128#64 = true
  · exact h1 c1
  by_cases c2 : BitVec.ult v 16384#64 = true
  · exact h2 (by simpa using c1) c2
  by_cases c3 : BitVec.ult v 2097152#64 = true
  · exact h3 (by simpa using c2) c3
  by_cases c4 : BitVec.ult v 268435456#64 = true
  · exact h4 (by simpa using c3) c4
  by_cases c5 : BitVec.ult v 34359738368#64 = true
  · exact h5 (by simpa using c4) c5
  by_cases c6 : BitVec.ult v 4398046511104#64 = true
  · exact h6 (by simpa using c5) c6
  by_cases c7 : BitVec.ult v 562949953421312#64 = true
  · exact h7 (by simpa using c6) c7
  by_cases c8 : BitVec.ult v 72057594037927936#64 = true
  · exact h8 (by simpa using c7) c8
  by_cases c9 : BitVec.ult v 9223372036854775808#64 = true
  · exact h9 (by simpa using c8) c9
  · exact h10 (by simpa using c9)

/-- Decoding what `AppendVarint` appends yields the value and consumes exactly the appended
bytes, whose count equals `SizeVarint` — for every `uint64` and every continuation `rest`. -/
theorem consumeVarint_appendVarint (v : BitVec 64) (rest : List Byte) :
    consumeVarint (appendVarint [] v ++ rest) = some (v, sizeVarint v) ∧
      (appendVarint [] v).length = (sizeVarint v).toNat := by
  apply varint_cases v
  · intro hi; have h := varint_rt_1 v hi rest; rw [h.2.1]; exact ⟨h.1, by rw [h.2.2]; rfl⟩
  · intro lo hi; have h := varint_rt_2 v lo hi rest; rw [h.2.1]; exact ⟨h.1, by rw [h.2.2]; rfl⟩
  · intro lo hi; have h := varint_rt_3 v lo hi rest; rw [h.2.1]; exact ⟨h.1, by rw [h.2.2]; rfl⟩
  · intro lo hi; have h := varint_rt_4 v lo hi rest; rw [h.2.1]; exact ⟨h.1, by rw [h.2.2]; rfl⟩
  · intro lo hi; have h := varint_rt_5 v lo hi rest; rw [h.2.1]; exact ⟨h.1, by rw [h.2.2]; rfl⟩
  · intro lo hi; have h := varint_rt_6 v lo hi rest; rw [h.2.1]; exact ⟨h.1, by rw [h.2.2]; rfl⟩
  · intro lo hi; have h := varint_rt_7 v lo hi rest; rw [h.2.1]; exact ⟨h.1, by rw [h.2.2]; rfl⟩
  · intro lo hi; have h := varint_rt_8 v lo hi rest; rw [h.2.1]; exact ⟨h.1, by rw [h.2.2]; rfl⟩
  · intro lo hi; have h := varint_rt_9 v lo hi rest; rw [h.2.1]; exact ⟨h.1, by rw [h.2.2]; rfl⟩
  · intro lo; have h := varint_rt_10 v lo rest; rw [h.2.1]; exact ⟨h.1, by rw [h.2.2]; rfl⟩

theorem appendVarint_length (b : List Byte) (v : BitVec 64) :
    (appendVarint b v).length = b.length + (sizeVarint v).toNat := by
  rw [appendVarint_append, List.length_append, (consumeVarint_appendVarint v []).2]

theorem sizeVarint_range (v : BitVec 64) : 1 ≤ (sizeVarint v).toNat ∧ (sizeVarint v).toNat ≤ 10 := by
  have h : BitVec.ule 1#64 (sizeVarint v) = true ∧ BitVec.ule (sizeVarint v) 10#64 = true := by
    unfold sizeVarint; constructor <;> bv_decide
  simp only [BitVec.ule, decide_eq_true_eq] at h
  exact ⟨by simpa using h.1, by simpa using h.2⟩

/-- closed form of the `(log2·9+73)/64` trick: `SizeVarint v = 1 + (bitlen(v|1) - 1) / 7`. -/
theorem sizeVarint_closed_form (v : BitVec 64) :
    sizeVarint v = 1#64 + (63#64 - (BitVec.clz (v ||| 1#64))) / 7#64 := by
  unfold sizeVarint; bv_decide

end C01
