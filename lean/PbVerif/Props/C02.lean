import PbVerif.Lemmas.WireBridge
import PbVerif.Lemmas.WireScan
/-
C02 — Wire field parser accepts exactly the wire grammar and never overreads.

Part 1 (T1 bridge): the leaf parsers translated from wire.go on every run (`Gen.Wire.*`) never
hit a panic branch and compute exactly the specification `Spec.*` for EVERY byte string
(value, consumed length, error code).
Part 2: the specification scanner (`Spec.consumeFieldValue/consumeField/consumeGroup`, the
hand-written model of the looping `consumeFieldValueD`, tied to the Go code by the `wire`
correspondence harness) is total (the fuel always suffices) and never reports a length larger
than its input.

Not proved here (kept as the full statement of the property): `consumeField_accepts_iff` —
"n ≥ 0 ⟺ the input starts with a field of an *independently* defined inductive wire grammar".
The specification scanner is itself a direct transcription of that grammar; its agreement with
an independent reference recogniser (go/harness/wire/ref.go, written from the encoding
specification) and with the Go code is checked by the harness on exhaustive short strings and
structured mutations.
-/
open Gen.Wire WireBridge
namespace C02

/-! ### Part 1: translated leaves = specification, for all byte strings -/

theorem consumeVarint_spec (b : List Byte) :
    consumeVarint b = some (goVarint 0#64 0 (Spec.decVarint b)) := WireBridge.consumeVarint_spec b

theorem consumeFixed32_spec (b : List Byte) :
    consumeFixed32 b = some (goFixed 32 (Spec.decFixed 4 b)) := WireBridge.consumeFixed32_spec b

theorem consumeFixed64_spec (b : List Byte) :
    consumeFixed64 b = some (goFixed 64 (Spec.decFixed 8 b)) := WireBridge.consumeFixed64_spec b

theorem consumeTag_spec (b : List Byte) :
    consumeTag b = some (goTag (Spec.decTag b)) := WireBridge.consumeTag_spec b

/-- `ConsumeBytes`; a Go slice has fewer than 2^63 elements -/
theorem consumeBytes_spec (b : List Byte) (hb : b.length < 2 ^ 63) :
    consumeBytes b = some (goBytes (Spec.decBytes b)) := WireBridge.consumeBytes_spec b hb

/-- none of the translated leaf parsers can reach a slice-bounds panic -/
theorem leaves_never_panic (b : List Byte) (hb : b.length < 2 ^ 63) :
    consumeVarint b ≠ none ∧ consumeFixed32 b ≠ none ∧ consumeFixed64 b ≠ none ∧
    consumeTag b ≠ none ∧ consumeBytes b ≠ none := by
  rw [consumeVarint_spec, consumeFixed32_spec, consumeFixed64_spec, consumeTag_spec, consumeBytes_spec b hb]
  simp

/-- ConsumeVarint: a non-negative result is between 1 and 10 and never larger than the input;
a negative result is one of the two documented codes -/
theorem consumeVarint_result (b : List Byte) :
    ∃ v n, consumeVarint b = some (v, n) ∧
      ((1 ≤ n.toInt ∧ n.toInt ≤ 10 ∧ n.toInt ≤ b.length) ∨ n.toInt = -1 ∨ n.toInt = -3) := by
  rw [consumeVarint_spec]
  cases hd : Spec.decVarint b with
  | error e =>
    refine ⟨_, _, rfl, ?_⟩
    have he : e = .truncated ∨ e = .overflow := by
      -- decVarint only produces these two errors
      have : ∀ (bs : List Byte) (i : Nat) (e : Spec.WErr), Spec.decVarintAux i bs = .error e → e = .truncated ∨ e = .overflow := by
        intro bs
        induction bs with
        | nil => intro i e h; simp [Spec.decVarintAux] at h; exact Or.inl h.symm
        | cons x r ih =>
          intro i e h
          unfold Spec.decVarintAux at h
          split at h
          · split at h
            · simp at h
            · simp at h; exact Or.inr h.symm
          · split at h
            · simp at h
            · split at h
              · simp at h
              · rename_i e' he'
                simp at h; subst h
                exact ih _ _ he'
      exact this b 0 e hd
    rcases he with rfl | rfl
    · right; left; simp [goVarint, Spec.WErr.code]
    · right; right; simp [goVarint, Spec.WErr.code]
  | ok p =>
    obtain ⟨w, n⟩ := p
    obtain ⟨h1, h2, h3, _⟩ := decVarint_bounds b w n hd
    refine ⟨_, _, rfl, Or.inl ?_⟩
    simp only [goVarint, Nat.zero_add]
    have : (BitVec.ofNat 64 n).toInt = n := by
      have : n = 1 ∨ n = 2 ∨ n = 3 ∨ n = 4 ∨ n = 5 ∨ n = 6 ∨ n = 7 ∨ n = 8 ∨ n = 9 ∨ n = 10 := by omega
      rcases this with rfl|rfl|rfl|rfl|rfl|rfl|rfl|rfl|rfl|rfl <;> decide
    rw [this]
    omega

/-! ### Part 2: the scanner is total and never overreads -/

/-- the default fuel always suffices: the `none` (out-of-fuel) branch is unreachable -/
theorem fieldValueLen_fuel (num typ : Nat) (b : List Byte) (depth : Int) :
    Spec.fieldValueLen (Spec.fuelFor b) num typ b depth ≠ none := by
  obtain ⟨r, hr, _⟩ := (Spec.scan_props (Spec.fuelFor b)).1 num typ b depth (by simp [Spec.fuelFor])
  simp [hr]

theorem consumeFieldValue_le (num typ : Nat) (b : List Byte) (depth : Int) (n : Nat)
    (h : Spec.consumeFieldValue num typ b depth = .ok n) : n ≤ b.length := by
  unfold Spec.consumeFieldValue at h
  obtain ⟨r, hr, hb⟩ := (Spec.scan_props (Spec.fuelFor b)).1 num typ b depth (by simp [Spec.fuelFor])
  rw [hr] at h
  exact hb n h

/-- `ConsumeField` never reports more than it was given, and a reported field has a valid
number (1 … 2^31-1) and a 3-bit wire type -/
theorem consumeField_le (b : List Byte) (depth : Int) (num typ n : Nat)
    (h : Spec.consumeField b depth = .ok (num, typ, n)) :
    1 ≤ n ∧ n ≤ b.length ∧ 1 ≤ num ∧ num ≤ 2147483647 ∧ typ < 8 := by
  unfold Spec.consumeField at h
  cases hd : Spec.decTag b with
  | error e => simp [hd] at h
  | ok p =>
    obtain ⟨num', typ', k⟩ := p
    have hb := Spec.decTag_bounds b num' typ' k hd
    simp only [hd] at h
    cases hv : Spec.consumeFieldValue num' typ' (b.drop k) depth with
    | error e => simp [hv] at h
    | ok m =>
      have hm := consumeFieldValue_le _ _ _ _ _ hv
      simp only [hv, Except.ok.injEq, Prod.mk.injEq] at h
      obtain ⟨rfl, rfl, rfl⟩ := h
      simp only [List.length_drop] at hm
      omega

/-- `ConsumeGroup`: the reported length covers at most the input and the returned body is
shorter than it (the end tag is excluded) -/
theorem consumeGroup_le (num : Nat) (b : List Byte) (depth : Int) (body : List Byte) (n : Nat)
    (h : Spec.consumeGroup num b depth = .ok (body, n)) : n ≤ b.length ∧ body.length ≤ n := by
  unfold Spec.consumeGroup at h
  cases hv : Spec.consumeFieldValue num 3 b depth with
  | error e => simp [hv] at h
  | ok m =>
    have hm := consumeFieldValue_le _ _ _ _ _ hv
    simp only [hv, Except.ok.injEq, Prod.mk.injEq] at h
    obtain ⟨rfl, rfl⟩ := h
    refine ⟨hm, ?_⟩
    have h1 : (Spec.stripZeros7 (b.take m)).length ≤ (b.take m).length := by
      unfold Spec.stripZeros7
      simp only [List.length_reverse]
      have := (List.dropWhile_sublist (fun x : Byte => x.toNat % 128 == 0) (l := (b.take m).reverse)).length_le
      simpa using this
    simp only [List.length_take] at h1 ⊢
    omega

/-- a group is refused once the depth budget is exhausted, whatever follows -/
theorem group_depth_limit (fuel num : Nat) (b : List Byte) (depth : Int) (hd : depth < 0) :
    Spec.fieldValueLen (fuel + 1) num 3 b depth = some (.error .recursionDepth) := by
  simp [Spec.fieldValueLen, hd]

/-- wire types 6 and 7 are reserved, a bare end-group marker is an error -/
theorem reserved_wire_types (fuel num : Nat) (b : List Byte) (depth : Int) :
    Spec.fieldValueLen (fuel + 1) num 6 b depth = some (.error .reserved) ∧
    Spec.fieldValueLen (fuel + 1) num 7 b depth = some (.error .reserved) ∧
    Spec.fieldValueLen (fuel + 1) num 4 b depth = some (.error .endGroup) := by
  simp [Spec.fieldValueLen]

example : Spec.consumeField [0x0b, 0x0a, 0x01, 0x00, 0x0c] = .ok (1, 3, 5) := by rfl

end C02
