import PbVerif.Lemmas.MsgAlgInit
import PbVerif.Lemmas.MsgAlgExamples
/-
C10 — required-field checks are exact (model: `Pb.initMsg` = proto/checkinit.go
`checkInitializedSlow`).
-/
namespace C10
open Pb
open Spec (Byte)

/-- every field declared `required` in descriptor `mi` is populated in `m` -/
def RequiredSet (S : Schema) (mi : Nat) (m : Msg) : Prop :=
  ∀ f ∈ (S.msg mi).fields, f.card = .required → (m.fields.get? f.num).isSome = true

/-- independent characterisation: at every message reachable in the value tree (through singular
message fields incl. oneof members and extensions, list elements, map entries and their values)
every required field of that message's descriptor is populated -/
def AllRequiredSet (S : Schema) (mi : Nat) (m : Msg) : Prop :=
  ∀ mi' m', Reach S mi m mi' m' → RequiredSet S mi' m'

/-! #### checker ⇒ characterisation -/

theorem initFields_mem {S : Schema} {d : MsgD} {fs : Fields} {n : Nat} {fv : FVal} {f : Field}
    (h : initFields S d fs = true) (hm : (n, fv) ∈ fs.toList) (hf : d.find n = some f) :
    initFVal S f fv = true := by
  induction fs using Fields.ind with
  | nil => simp [Fields.toList] at hm
  | cons k x tl ih =>
    rw [initFields, Bool.and_eq_true] at h
    simp only [Fields.toList, List.mem_cons, Prod.mk.injEq] at hm
    rcases hm with ⟨h1, h2⟩ | hm
    · subst h1; subst h2
      have := h.1
      rw [hf] at this
      exact this
    · exact ih h.2 hm

theorem initVals_mem {S : Schema} {f : Field} {vs : Vals} {m : Msg}
    (h : initVals S f vs = true) (hm : m ∈ vs.msgs) : initMsg S f.sub m = true := by
  induction vs using Vals.ind with
  | nil => simp [Vals.msgs] at hm
  | cons v tl ih =>
    rw [initVals, Bool.and_eq_true] at h
    cases v with
    | msg x =>
      simp only [Vals.msgs, List.mem_cons] at hm
      rcases hm with hm | hm
      · subst hm
        have := h.1
        rw [initVal] at this
        exact this
      · exact ih h.2 hm
    | num x => exact ih h.2 hm
    | bytes x => exact ih h.2 hm

theorem initFVal_mem {S : Schema} {f : Field} {fv : FVal} {m : Msg}
    (h : initFVal S f fv = true) (hm : m ∈ fv.msgs) : initMsg S f.sub m = true := by
  cases fv with
  | one v =>
    cases v with
    | msg x =>
      simp only [FVal.msgs, List.mem_singleton] at hm
      subst hm
      rw [initFVal, initVal] at h
      exact h
    | num x => simp [FVal.msgs] at hm
    | bytes x => simp [FVal.msgs] at hm
  | many vs =>
    rw [initFVal] at h
    exact initVals_mem h hm

theorem initMsg_child {S : Schema} {mi mi' : Nat} {m m' : Msg}
    (h : initMsg S mi m = true) (hc : Child S mi m mi' m') : initMsg S mi' m' = true := by
  cases hc with
  | mk hmem hf hm' =>
    rw [initMsg, Bool.and_eq_true] at h
    exact initFVal_mem (initFields_mem h.2 hmem hf) hm'

theorem initMsg_reach {S : Schema} {mi mi' : Nat} {m m' : Msg}
    (hr : Reach S mi m mi' m') (h : initMsg S mi m = true) : initMsg S mi' m' = true := by
  induction hr with
  | refl => exact h
  | step hc _ ih => exact ih (initMsg_child h hc)

theorem initMsg_requiredSet {S : Schema} {mi : Nat} {m : Msg} (h : initMsg S mi m = true) :
    RequiredSet S mi m := by
  cases m with
  | mk fs unk =>
    rw [initMsg, Bool.and_eq_true, List.all_eq_true] at h
    intro f hf hreq
    have := h.1 f hf
    simpa [hreq, Msg.fields] using this

/-! #### characterisation ⇒ checker (structural induction over the value tree) -/

theorem AllRequiredSet.child {S : Schema} {mi mi' : Nat} {m m' : Msg}
    (h : AllRequiredSet S mi m) (hc : Child S mi m mi' m') : AllRequiredSet S mi' m' :=
  fun _ _ r => h _ _ (Reach.step hc r)

mutual
theorem initMsg_of_all (S : Schema) : ∀ (m : Msg) (mi : Nat), AllRequiredSet S mi m → initMsg S mi m = true
  | .mk fs unk, mi, h => by
    rw [initMsg, Bool.and_eq_true, List.all_eq_true]
    constructor
    · intro f hf
      have := h _ _ (Reach.refl _ _) f hf
      by_cases hreq : f.card = .required
      · simpa [hreq, Msg.fields] using this hreq
      · simp [hreq]
    · exact initFields_of_all S fs (S.msg mi) (fun n fv hmem f hf m' hm' => h.child (Child.mk hmem hf hm'))
theorem initFields_of_all (S : Schema) : ∀ (fs : Fields) (d : MsgD),
    (∀ n fv, (n, fv) ∈ fs.toList → ∀ f, d.find n = some f → ∀ m' ∈ fv.msgs, AllRequiredSet S f.sub m') →
    initFields S d fs = true
  | .nil, _, _ => by simp [initFields]
  | .cons n fv tl, d, h => by
    rw [initFields, Bool.and_eq_true]
    constructor
    · split
      · rename_i f hf
        exact initFVal_of_all S fv f (h n fv (by simp [Fields.toList]) f hf)
      · rfl
    · exact initFields_of_all S tl d (fun k x hm => h k x (by simp [Fields.toList, hm]))
theorem initFVal_of_all (S : Schema) : ∀ (fv : FVal) (f : Field),
    (∀ m' ∈ fv.msgs, AllRequiredSet S f.sub m') → initFVal S f fv = true
  | .one v, f, h => by
    rw [initFVal]
    exact initVal_of_all S v f (fun m' hv => h m' (by subst hv; simp [FVal.msgs]))
  | .many vs, f, h => by
    rw [initFVal]
    exact initVals_of_all S vs f h
theorem initVal_of_all (S : Schema) : ∀ (v : Val) (f : Field),
    (∀ m', v = .msg m' → AllRequiredSet S f.sub m') → initVal S f v = true
  | .msg m, f, h => by
    rw [initVal]
    exact initMsg_of_all S m f.sub (h m rfl)
  | .num _, _, _ => by simp [initVal]
  | .bytes _, _, _ => by simp [initVal]
theorem initVals_of_all (S : Schema) : ∀ (vs : Vals) (f : Field),
    (∀ m' ∈ vs.msgs, AllRequiredSet S f.sub m') → initVals S f vs = true
  | .nil, _, _ => by simp [initVals]
  | .cons v tl, f, h => by
    rw [initVals, Bool.and_eq_true]
    constructor
    · exact initVal_of_all S v f (fun m' hv => h m' (by subst hv; simp [Vals.msgs]))
    · refine initVals_of_all S tl f (fun m' hm => h m' ?_)
      cases v <;> simp [Vals.msgs, hm]
end

/-- **C10 main theorem**: `checkInitializedSlow` succeeds iff every required field is populated at
every message of the value tree — for all (cyclic) schemas and all message values. -/
theorem initMsg_iff (S : Schema) (mi : Nat) (m : Msg) :
    initMsg S mi m = true ↔ AllRequiredSet S mi m :=
  ⟨fun h _ _ r => initMsg_requiredSet (initMsg_reach r h), initMsg_of_all S m mi⟩

/-- the hypotheses of `initMsg_iff`: none.  A non-trivial instance: the required field 8 is set at the
top level and in the submessage of field 3; dropping it in the submessage is detected -/
example : initMsg Ex.S0 0 Ex.m0 = true ∧
    initMsg Ex.S0 0 (.mk (.cons 8 (.one (.num 3))
      (.cons 3 (.one (.msg (.mk (.cons 1 (.one (.num 7)) .nil) []))) .nil)) []) = false := by decide

/-! ### merge and clone preserve initialization -/

mutual
/-- generalised: the destination only needs initialized *nested* values (`initFields`), its own
required fields may be missing — they are supplied by the source -/
theorem initMsg_mergeAux (S : Schema) : ∀ (b a : Msg) (mi : Nat),
    initFields S (S.msg mi) a.fields = true → initMsg S mi b = true → pwfMsg S mi b = true →
    initMsg S mi (mergeMsg S mi a b) = true
  | .mk sfs su, .mk dfs du, mi, ha, hb, hw => by
    rw [pwfMsg] at hw
    rw [initMsg, Bool.and_eq_true, List.all_eq_true] at hb
    rw [mergeMsg_mk, initMsg, Bool.and_eq_true, List.all_eq_true]
    constructor
    · intro f hf
      by_cases hreq : f.card = .required
      · have h1 := hb.1 f hf
        simp only [hreq, ne_eq, not_true_eq_false, decide_false, Bool.false_or] at h1 ⊢
        cases hg : sfs.get? f.num with
        | none => rw [hg] at h1; cases h1
        | some fv =>
          obtain ⟨f', hf', hwv⟩ := pwfFields_get hw hg
          rw [mergeFields_get? S _ sfs dfs (mergeOK_of_pwfFields hw) f.num, hg, hf']
          have hn := MsgD.find_num hf'
          have := get?_mergeFVal_isSome S (S.msg mi) f' dfs fv hwv
          rw [hn] at this
          exact this
      · simp [hreq]
    · exact initFields_merge S sfs dfs _ ha hb.2 hw
theorem initFields_merge (S : Schema) : ∀ (src dst : Fields) (d : MsgD),
    initFields S d dst = true → initFields S d src = true → pwfFields S d src = true →
    initFields S d (mergeFields S d dst src) = true
  | .nil, dst, d, hd, _, _ => by rw [mergeFields_nil]; exact hd
  | .cons n fv tl, dst, d, hd, hs, hw => by
    rw [initFields_cons, Bool.and_eq_true] at hs
    rw [pwfFields, Bool.and_eq_true, Bool.and_eq_true, Bool.and_eq_true] at hw
    rw [mergeFields_cons]
    refine initFields_merge S tl _ d ?_ hs.2 hw.2
    have h1 := hw.1.1.1
    have h2 := hs.1
    unfold mergeField
    unfold initField at h2
    split at h1
    · rename_i f hf
      rw [hf] at h2
      simp only [hf]
      have hn := MsgD.find_num hf
      exact initFields_mergeFVal S fv f dst d (by rw [hn]; exact hf) hd h2 h1
    · cases h1
theorem initFields_mergeFVal (S : Schema) : ∀ (fv : FVal) (f : Field) (dst : Fields) (d : MsgD),
    d.find f.num = some f → initFields S d dst = true → initFVal S f fv = true →
    pwfFVal S f fv = true → initFields S d (mergeFVal S d f dst fv) = true
  | .one (.msg sm), f, dst, d, hf, hd, hi, hw => by
    rw [initFVal, initVal] at hi
    rw [pwfFVal, Bool.and_eq_true, pwfVal] at hw
    rw [mergeFVal, mergeVal_msg]
    refine initFields_set (initFields_clearFor hd f) _ _ (fun f' hf' => ?_)
    rw [hf] at hf'
    cases hf'
    rw [initFVal, initVal]
    exact initMsg_mergeAux S sm (dst.subAt f.num) f.sub (initFields_subAt hd hf) hi hw.1
  | .one (.num n), f, dst, d, hf, hd, _, _ => by
    rw [mergeFVal, mergeVal_scalar _ _ _ _ _ rfl, setSingular_eq]
    split
    · exact initFields_erase (initFields_clearFor hd f) _
    · exact initFields_set (initFields_clearFor hd f) _ _ (fun f' _ => by simp [initFVal, initVal])
  | .one (.bytes b), f, dst, d, hf, hd, _, _ => by
    rw [mergeFVal, mergeVal_scalar _ _ _ _ _ rfl, setSingular_eq]
    split
    · exact initFields_erase (initFields_clearFor hd f) _
    · exact initFields_set (initFields_clearFor hd f) _ _ (fun f' _ => by simp [initFVal, initVal])
  | .many vs, f, dst, d, hf, hd, hi, hw => by
    rw [initFVal] at hi
    rw [pwfFVal, Bool.and_eq_true] at hw
    by_cases hc : f.card = .map
    · simp only [hc, if_true] at hw
      rw [mergeFVal_many_map S d f dst vs hc]
      split
      · exact hd
      · refine initFields_set hd _ _ (fun f' hf' => ?_)
        rw [hf] at hf'
        cases hf'
        rw [initFVal]
        exact initVals_mergeMap S vs (dst.listAt f.num) f (initVals_listAt hd hf) hi hw.2
    · simp only [hc, if_false] at hw
      rw [mergeFVal_many_list S d f dst vs hc, appendList_eq]
      split
      · exact hd
      · refine initFields_set hd _ _ (fun f' hf' => ?_)
        rw [hf] at hf'
        cases hf'
        rw [initFVal]
        exact initVals_append (initVals_listAt hd hf) (initVals_clone S vs f hi hw.2)
theorem initVals_clone (S : Schema) : ∀ (vs : Vals) (f : Field), initVals S f vs = true →
    pwfVals S f vs = true → initVals S f (cloneVals S f vs) = true
  | .nil, _, _, _ => by rw [cloneVals, initVals]
  | .cons (.msg m) tl, f, hi, hw => by
    rw [initVals, Bool.and_eq_true, initVal] at hi
    rw [pwfVals, Bool.and_eq_true, pwfVal] at hw
    rw [cloneVals, cloneVal, initVals, Bool.and_eq_true, initVal]
    exact ⟨initMsg_mergeAux S m Msg.empty f.sub rfl hi.1 hw.1, initVals_clone S tl f hi.2 hw.2⟩
  | .cons (.num n) tl, f, hi, hw => by
    rw [initVals, Bool.and_eq_true] at hi
    rw [pwfVals, Bool.and_eq_true] at hw
    rw [cloneVals, cloneVal, initVals, Bool.and_eq_true]
    · exact ⟨by simp [initVal], initVals_clone S tl f hi.2 hw.2⟩
    · intro m hh; cases hh
  | .cons (.bytes b) tl, f, hi, hw => by
    rw [initVals, Bool.and_eq_true] at hi
    rw [pwfVals, Bool.and_eq_true] at hw
    rw [cloneVals, cloneVal, initVals, Bool.and_eq_true]
    · exact ⟨by simp [initVal], initVals_clone S tl f hi.2 hw.2⟩
    · intro m hh; cases hh
theorem initVals_mergeMap (S : Schema) : ∀ (vs dst : Vals) (f : Field), initVals S f dst = true →
    initVals S f vs = true → pwfEntries S f.sub vs = true →
    initVals S f (mergeMapVals S f.sub dst vs) = true
  | .nil, dst, _, hd, _, _ => by rw [mergeMapVals]; exact hd
  | .cons (.msg e) tl, dst, f, hd, hi, hw => by
    obtain ⟨e', k, he, hk, _, _, hwe, htl⟩ := pwfEntries_cons_msg hw
    cases he
    rw [initVals, Bool.and_eq_true, initVal] at hi
    rw [mergeMapVals_cons_msg S f.sub dst e tl k hk]
    refine initVals_mergeMap S tl _ f ?_ hi.2 htl
    exact initVals_mapPut hd k _ (initMsg_mergeAux S e Msg.empty f.sub rfl hi.1 hwe)
  | .cons (.num n) tl, _, _, _, _, hw => by
    obtain ⟨e', _, he, _⟩ := pwfEntries_cons_msg hw
    cases he
  | .cons (.bytes b) tl, _, _, _, _, hw => by
    obtain ⟨e', _, he, _⟩ := pwfEntries_cons_msg hw
    cases he
end

/-- merging an initialized (populated, well-formed) source into an initialized destination gives
an initialized message — the destination may be ANY message value with initialized nested values -/
theorem initMsg_merge (S : Schema) (mi : Nat) (a b : Msg) (ha : initMsg S mi a = true)
    (hb : initMsg S mi b = true) (hw : pwfMsg S mi b = true) :
    initMsg S mi (mergeMsg S mi a b) = true := by
  refine initMsg_mergeAux S b a mi ?_ hb hw
  cases a with
  | mk fs u =>
    rw [initMsg, Bool.and_eq_true] at ha
    exact ha.2

theorem initMsg_clone (S : Schema) (mi : Nat) (b : Msg) (hb : initMsg S mi b = true)
    (hw : pwfMsg S mi b = true) : initMsg S mi (clone S mi b) = true :=
  initMsg_mergeAux S b Msg.empty mi rfl hb hw

example : initMsg Ex.S0 0 Ex.m0 = true ∧ pwfMsg Ex.S0 0 Ex.m0 = true := by decide

/-- without the populated-well-formed hypothesis on the source the law fails: a "populated" but
empty list in a required field is dropped by merge -/
theorem initMsg_merge_needs_pwf :
    let S : Schema := ⟨[⟨[{ num := 1, kind := .int32, card := .required }]⟩]⟩
    let b : Msg := .mk (.cons 1 (.many .nil) .nil) []
    initMsg S 0 b = true ∧ initMsg S 0 (mergeMsg S 0 Msg.empty b) = false := by decide

/-- … and so does a source holding two members of one oneof when (in an invalid schema) a oneof
member is `required`: the later member clears the earlier -/
theorem initMsg_merge_needs_oneof_exclusive :
    let S : Schema := ⟨[⟨[{ num := 1, kind := .int32, card := .required, oneof := some 0 },
                         { num := 2, kind := .int32, card := .optional, oneof := some 0 }]⟩]⟩
    let b : Msg := .mk (.cons 1 (.one (.num 1)) (.cons 2 (.one (.num 2)) .nil)) []
    initMsg S 0 b = true ∧ initMsg S 0 (mergeMsg S 0 b b) = false := by decide

end C10
