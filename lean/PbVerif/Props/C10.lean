import PbVerif.Lemmas.MsgAlg
/-
C10 — required-field checks are exact (model: `Pb.initMsg` = proto/checkinit.go
`checkInitializedSlow`).
-/
namespace C10
open Pb
open Spec (Byte)

/-- every field declared `required` in descriptor `mi` is populated in `m` -/
def RequiredSet (S : Schema) (mi : Nat) (m : Msg) : Prop :=
  ∀ f ∈ (S.msg mi).fields, f.card = .required → (m.fields.get? f.num).isSome = true

/-- independent characterisation: at every message reachable in the value tree (through singular
message fields incl. oneof members and extensions, list elements, map entries and their values)
every required field of that message's descriptor is populated -/
def AllRequiredSet (S : Schema) (mi : Nat) (m : Msg) : Prop :=
  ∀ mi' m', Reach S mi m mi' m' → RequiredSet S mi' m'

/-! #### checker ⇒ characterisation -/

theorem initFields_mem {S : Schema} {d : MsgD} {fs : Fields} {n : Nat} {fv : FVal} {f : Field}
    (h : initFields S d fs = true) (hm : (n, fv) ∈ fs.toList) (hf : d.find n = some f) :
    initFVal S f fv = true := by
  induction fs using Fields.ind with
  | nil => simp [Fields.toList] at hm
  | cons k x tl ih =>
    rw [initFields, Bool.and_eq_true] at h
    simp only [Fields.toList, List.mem_cons, Prod.mk.injEq] at hm
    rcases hm with ⟨h1, h2⟩ | hm
    · subst h1; subst h2
      have := h.1
      rw [hf] at this
      exact this
    · exact ih h.2 hm

theorem initVals_mem {S : Schema} {f : Field} {vs : Vals} {m : Msg}
    (h : initVals S f vs = true) (hm : m ∈ vs.msgs) : initMsg S f.sub m = true := by
  induction vs using Vals.ind with
  | nil => simp [Vals.msgs] at hm
  | cons v tl ih =>
    rw [initVals, Bool.and_eq_true] at h
    cases v with
    | msg x =>
      simp only [Vals.msgs, List.mem_cons] at hm
      rcases hm with hm | hm
      · subst hm
        have := h.1
        rw [initVal] at this
        exact this
      · exact ih h.2 hm
    | num x => exact ih h.2 hm
    | bytes x => exact ih h.2 hm

theorem initFVal_mem {S : Schema} {f : Field} {fv : FVal} {m : Msg}
    (h : initFVal S f fv = true) (hm : m ∈ fv.msgs) : initMsg S f.sub m = true := by
  cases fv with
  | one v =>
    cases v with
    | msg x =>
      simp only [FVal.msgs, List.mem_singleton] at hm
      subst hm
      rw [initFVal, initVal] at h
      exact h
    | num x => simp [FVal.msgs] at hm
    | bytes x => simp [FVal.msgs] at hm
  | many vs =>
    rw [initFVal] at h
    exact initVals_mem h hm

theorem initMsg_child {S : Schema} {mi mi' : Nat} {m m' : Msg}
    (h : initMsg S mi m = true) (hc : Child S mi m mi' m') : initMsg S mi' m' = true := by
  cases hc with
  | mk hmem hf hm' =>
    rw [initMsg, Bool.and_eq_true] at h
    exact initFVal_mem (initFields_mem h.2 hmem hf) hm'

theorem initMsg_reach {S : Schema} {mi mi' : Nat} {m m' : Msg}
    (hr : Reach S mi m mi' m') (h : initMsg S mi m = true) : initMsg S mi' m' = true := by
  induction hr with
  | refl => exact h
  | step hc _ ih => exact ih (initMsg_child h hc)

theorem initMsg_requiredSet {S : Schema} {mi : Nat} {m : Msg} (h : initMsg S mi m = true) :
    RequiredSet S mi m := by
  cases m with
  | mk fs unk =>
    rw [initMsg, Bool.and_eq_true, List.all_eq_true] at h
    intro f hf hreq
    have := h.1 f hf
    simpa [hreq, Msg.fields] using this

/-! #### characterisation ⇒ checker (structural induction over the value tree) -/

theorem AllRequiredSet.child {S : Schema} {mi mi' : Nat} {m m' : Msg}
    (h : AllRequiredSet S mi m) (hc : Child S mi m mi' m') : AllRequiredSet S mi' m' :=
  fun _ _ r => h _ _ (Reach.step hc r)

mutual
theorem initMsg_of_all (S : Schema) : ∀ (m : Msg) (mi : Nat), AllRequiredSet S mi m → initMsg S mi m = true
  | .mk fs unk, mi, h => by
    rw [initMsg, Bool.and_eq_true, List.all_eq_true]
    constructor
    · intro f hf
      have := h _ _ (Reach.refl _ _) f hf
      by_cases hreq : f.card = .required
      · simpa [hreq, Msg.fields] using this hreq
      · simp [hreq]
    · exact initFields_of_all S fs (S.msg mi) (fun n fv hmem f hf m' hm' => h.child (Child.mk hmem hf hm'))
theorem initFields_of_all (S : Schema) : ∀ (fs : Fields) (d : MsgD),
    (∀ n fv, (n, fv) ∈ fs.toList → ∀ f, d.find n = some f → ∀ m' ∈ fv.msgs, AllRequiredSet S f.sub m') →
    initFields S d fs = true
  | .nil, _, _ => by simp [initFields]
  | .cons n fv tl, d, h => by
    rw [initFields, Bool.and_eq_true]
    constructor
    · split
      · rename_i f hf
        exact initFVal_of_all S fv f (h n fv (by simp [Fields.toList]) f hf)
      · rfl
    · exact initFields_of_all S tl d (fun k x hm => h k x (by simp [Fields.toList, hm]))
theorem initFVal_of_all (S : Schema) : ∀ (fv : FVal) (f : Field),
    (∀ m' ∈ fv.msgs, AllRequiredSet S f.sub m') → initFVal S f fv = true
  | .one v, f, h => by
    rw [initFVal]
    exact initVal_of_all S v f (fun m' hv => h m' (by subst hv; simp [FVal.msgs]))
  | .many vs, f, h => by
    rw [initFVal]
    exact initVals_of_all S vs f h
theorem initVal_of_all (S : Schema) : ∀ (v : Val) (f : Field),
    (∀ m', v = .msg m' → AllRequiredSet S f.sub m') → initVal S f v = true
  | .msg m, f, h => by
    rw [initVal]
    exact initMsg_of_all S m f.sub (h m rfl)
  | .num _, _, _ => by simp [initVal]
  | .bytes _, _, _ => by simp [initVal]
theorem initVals_of_all (S : Schema) : ∀ (vs : Vals) (f : Field),
    (∀ m' ∈ vs.msgs, AllRequiredSet S f.sub m') → initVals S f vs = true
  | .nil, _, _ => by simp [initVals]
  | .cons v tl, f, h => by
    rw [initVals, Bool.and_eq_true]
    constructor
    · exact initVal_of_all S v f (fun m' hv => h m' (by subst hv; simp [Vals.msgs]))
    · refine initVals_of_all S tl f (fun m' hm => h m' ?_)
      cases v <;> simp [Vals.msgs, hm]
end

/-- **C10 main theorem**: `checkInitializedSlow` succeeds iff every required field is populated at
every message of the value tree — for all (cyclic) schemas and all message values. -/
theorem initMsg_iff (S : Schema) (mi : Nat) (m : Msg) :
    initMsg S mi m = true ↔ AllRequiredSet S mi m :=
  ⟨fun h _ _ r => initMsg_requiredSet (initMsg_reach r h), initMsg_of_all S m mi⟩

end C10
