import PbVerif.Props.C11
import PbVerif.Props.C12
import PbVerif.Lemmas.MsgAlgDet
import PbVerif.Lemmas.MsgAlgExamples
/-
C28 — the reflection API follows the protoreflect contract (model: `Pb.step`, `Pb.run`, `Pb.has`,
`Pb.whichOneof` of Model/MsgOps.lean; observers `range`, `get`, `listOf`, `mapGet` defined here).

Presence after Set/Clear/Mutable/Append and the Set/Clear frame laws are `C11.has_after_*`,
`C11.frame_set`, `C11.frame_clear`; oneof exclusivity and `WhichOneof` are `C12.run_exclusive`,
`C12.whichOneof_sound/_none/_complete`, `C12.set_selects`, `C12.set_clears_siblings` — not
repeated here.  This file adds: Range visits exactly the populated fields, each once, in every
reachable state; Get returns the default / an empty composite for unpopulated fields; the list and
map laws; unknown fields; Mutable.
-/
namespace C28
open Pb
open Spec (Byte)

/-! ### Range -/

/-- `Range`: the populated fields with their values, in stored order -/
def range (m : Msg) : List (Nat × FVal) := m.fields.toList

theorem sortedFrom_pairwise : ∀ {fs : Fields} {lb : Nat}, fs.sortedFrom lb →
    (∀ n ∈ fs.nums, lb ≤ n) ∧ fs.nums.Pairwise (· < ·)
  | .nil, _, _ => by simp [Fields.nums]
  | .cons n _ tl, lb, h => by
    obtain ⟨h1, h2⟩ := h
    obtain ⟨ih1, ih2⟩ := sortedFrom_pairwise h2
    simp only [Fields.nums, List.mem_cons, List.pairwise_cons]
    refine ⟨?_, ?_, ih2⟩
    · rintro k (rfl | hk)
      · exact h1
      · have := ih1 k hk; omega
    · intro k hk; have := ih1 k hk; omega

/-- **Range visits exactly the populated fields, each exactly once** — in every state reachable from
the empty message by any sequence of operations -/
theorem range_exactly_populated (d : MsgD) (ops : List Op) :
    let m := run d Msg.empty ops
    ((range m).map (·.1)).Nodup ∧ (∀ n, n ∈ (range m).map (·.1) ↔ has m n = true) ∧
    (∀ n fv, (n, fv) ∈ range m ↔ m.fields.get? n = some fv) := by
  intro m
  have hs := (sortedFrom_pairwise (C11.run_sorted d ops)).2
  have hn : m.fields.nums.Nodup := List.Pairwise.imp (fun h => Nat.ne_of_lt h) hs
  unfold range
  rw [← Fields.nums_eq_map]
  refine ⟨hn, ?_, ?_⟩
  · intro n; unfold has; rw [Fields.get?_isSome_iff]
  · intro n fv
    exact ⟨fun h => Fields.get?_of_mem hn h, fun h => Fields.mem_of_get? h⟩

/-- Range never visits an implicit-presence scalar holding its zero value -/
theorem range_no_implicit_zero (d : MsgD) (ops : List Op) (f : Field) (v : Val)
    (hf : d.find f.num = some f) (hc : f.card = .implicit)
    (h : (f.num, FVal.one v) ∈ range (run d Msg.empty ops)) : v.isZero = false :=
  C11.implicit_zero_never_stored d ops f v hf hc (Fields.get?_of_mem
    (List.Pairwise.imp (fun h => Nat.ne_of_lt h) (sortedFrom_pairwise (C11.run_sorted d ops)).2) h)

/-! ### Get -/

/-- what `Get` returns for an unpopulated field: the default scalar, an empty (read-only) message,
an empty list or map -/
def defaultFVal (f : Field) : FVal :=
  match f.card with
  | .repeated | .map => .many .nil
  | _ => if f.kind.isMessage then .one (.msg Msg.empty) else .one (defaultScalar f)

/-- `m.Get(fd)` -/
def get (m : Msg) (f : Field) : FVal :=
  match m.fields.get? f.num with
  | some fv => fv
  | none => defaultFVal f

theorem get_default_when_unset (m : Msg) (f : Field) (h : has m f.num = false) :
    get m f = defaultFVal f := by
  unfold has at h
  unfold get
  cases hg : m.fields.get? f.num with
  | none => rfl
  | some _ => rw [hg] at h; cases h

theorem get_when_set (m : Msg) (f : Field) (h : has m f.num = true) :
    m.fields.get? f.num = some (get m f) := by
  unfold has at h
  unfold get
  cases hg : m.fields.get? f.num with
  | none => rw [hg] at h; cases h
  | some _ => rfl

/-- unpopulated composite fields read as empty and unpopulated scalars as the declared default -/
theorem defaults (f : Field) :
    (f.card = .repeated ∨ f.card = .map → defaultFVal f = .many .nil) ∧
    (f.card ≠ .repeated → f.card ≠ .map → f.kind.isMessage = true → defaultFVal f = .one (.msg Msg.empty)) ∧
    (f.card ≠ .repeated → f.card ≠ .map → f.kind.isMessage = false → defaultFVal f = .one (defaultScalar f)) := by
  unfold defaultFVal
  refine ⟨?_, ?_, ?_⟩
  · rintro (h | h) <;> simp [h]
  · intro h1 h2 h3; cases hc : f.card <;> simp_all
  · intro h1 h2 h3; cases hc : f.card <;> simp_all

/-- Get after Set of a scalar returns the value (explicit presence, or a non-zero implicit value) -/
theorem get_after_set (d : MsgD) (m : Msg) (f : Field) (v : Val) (hf : d.find f.num = some f)
    (hv : v.isKey = true) (hz : (f.card = .implicit && v.isZero) = false) :
    get (step d m (.set f.num v)) f = .one v := by
  cases m with
  | mk fs u =>
    unfold get
    cases v with
    | msg x => simp [Val.isKey] at hv
    | num n => simp [step, hf, Msg.fields, get?_setSingular, hz]
    | bytes b => simp [step, hf, Msg.fields, get?_setSingular, hz]

/-- Get after Clear returns the default -/
theorem get_after_clear (d : MsgD) (m : Msg) (f : Field) :
    get (step d m (.clear f.num)) f = defaultFVal f :=
  get_default_when_unset _ f (C11.has_after_clear d m f.num)

/-! ### lists -/

/-- the list held by field `num` (empty when unpopulated) -/
def listOf (m : Msg) (num : Nat) : List Val := (m.fields.listAt num).toList

theorem Vals.toList_append (a b : Vals) : (a.append b).toList = a.toList ++ b.toList := by
  induction a using Vals.ind with
  | nil => rfl
  | cons x t ih => simp [Vals.append, Vals.toList, ih]

theorem Vals.toList_takeN : ∀ (vs : Vals) (n : Nat), (vs.takeN n).toList = vs.toList.take n
  | .nil, n => by cases n <;> simp [Vals.takeN, Vals.toList]
  | .cons x t, 0 => by simp [Vals.takeN, Vals.toList]
  | .cons x t, n + 1 => by simp [Vals.takeN, Vals.toList, Vals.toList_takeN t n]

theorem Vals.toList_setAt : ∀ (vs : Vals) (i : Nat) (v : Val), (vs.setAt i v).toList = vs.toList.set i v
  | .nil, i, v => by simp [Vals.setAt, Vals.toList]
  | .cons x t, 0, v => by simp [Vals.setAt, Vals.toList]
  | .cons x t, i + 1, v => by simp [Vals.setAt, Vals.toList, Vals.toList_setAt t i v]

theorem Vals.toList_eq_nil {vs : Vals} : vs.toList = [] ↔ vs.isNil = true := by
  cases vs <;> simp [Vals.toList, Vals.isNil]

/-- `Append`: the list grows by exactly the new element at the end; every other field is untouched -/
theorem list_append (d : MsgD) (m : Msg) (num : Nat) (v : Val) :
    listOf (step d m (.append num v)) num = listOf m num ++ [v] ∧
    (listOf (step d m (.append num v)) num).length = (listOf m num).length + 1 ∧
    (∀ j, j ≠ num → (step d m (.append num v)).fields.get? j = m.fields.get? j) := by
  cases m with
  | mk fs u =>
    have h1 : listOf (step d (.mk fs u) (.append num v)) num = listOf (.mk fs u) num ++ [v] := by
      unfold listOf Fields.listAt
      simp only [step, Msg.fields, get?_appendList, Vals.isNil, Bool.false_eq_true, if_false, if_true]
      rw [Vals.toList_append]
      rfl
    refine ⟨h1, by rw [h1]; simp, ?_⟩
    intro j hj
    have : ¬ num = j := fun e => hj e.symm
    simp [step, Msg.fields, get?_appendList, Vals.isNil, this]

/-- `Set(i, v)` on a list -/
theorem list_set (d : MsgD) (m : Msg) (num i : Nat) (v : Val) (vs : Vals)
    (h : m.fields.get? num = some (.many vs)) :
    listOf (step d m (.listSet num i v)) num = (listOf m num).set i v := by
  cases m with
  | mk fs u =>
    simp only [Msg.fields] at h
    unfold listOf Fields.listAt
    simp only [step, Msg.fields, h, Fields.get?_set, if_true, Vals.toList_setAt]

/-- `Truncate(n)`: the first `n` elements remain; an emptied list is unpopulated -/
theorem list_truncate (d : MsgD) (m : Msg) (num n : Nat) (vs : Vals)
    (h : m.fields.get? num = some (.many vs)) :
    listOf (step d m (.truncate num n)) num = (listOf m num).take n ∧
    (has (step d m (.truncate num n)) num = true ↔ (listOf m num).take n ≠ []) := by
  cases m with
  | mk fs u =>
    simp only [Msg.fields] at h
    have hl : listOf (.mk fs u) num = vs.toList := by unfold listOf Fields.listAt; simp [Msg.fields, h]
    rw [hl, ← Vals.toList_takeN]
    unfold listOf Fields.listAt has
    simp only [step, Msg.fields, h]
    by_cases hn : (vs.takeN n).isNil = true
    · simp only [hn, if_true, Fields.get?_erase]
      simp [Vals.toList, Vals.toList_eq_nil.mpr hn]
    · simp only [hn, Bool.false_eq_true, if_false, Fields.get?_set, if_true]
      simp [Vals.toList_eq_nil, hn]

/-! ### maps -/

/-- `Map.Get(k)`: the value stored under key `k` in map field `num` -/
def mapGet (m : Msg) (num : Nat) (k : Val) : Option Val :=
  match lookupEntry (m.fields.listAt num) k with
  | some e => (match e.fields.get? 2 with
               | some (.one v) => some v
               | _ => none)
  | none => none

/-- `Map.Set(k, v)`: looking up `k` returns `v`, every other key and every other field is unchanged -/
theorem map_put (d : MsgD) (m : Msg) (num : Nat) (k v : Val) (hk : k.isKey = true) :
    mapGet (step d m (.mapPut num k v)) num k = some v ∧
    (∀ k', valBEq k' k = false → mapGet (step d m (.mapPut num k v)) num k' = mapGet m num k') ∧
    (∀ j, j ≠ num → (step d m (.mapPut num k v)).fields.get? j = m.fields.get? j) ∧
    has (step d m (.mapPut num k v)) num = true := by
  cases m with
  | mk fs u =>
    have hent : entryHasKey (Msg.mk (.cons 1 (.one k) (.cons 2 (.one v) .nil)) []) k = true :=
      (entryHasKey_iff _ _).mpr ⟨by simp [entryKey, Fields.get?], hk⟩
    have hl : (step d (.mk fs u) (.mapPut num k v)).fields.listAt num =
        mapPut (fs.listAt num) k (Msg.mk (.cons 1 (.one k) (.cons 2 (.one v) .nil)) []) := by
      unfold Fields.listAt
      simp only [step, Msg.fields, Fields.get?_set, if_true]
      rfl
    refine ⟨?_, ?_, ?_, ?_⟩
    · unfold mapGet
      rw [hl, lookupEntry_mapPut _ _ _ hent, valBEq_refl hk]
      simp [Msg.fields, Fields.get?]
    · intro k' hk'
      unfold mapGet
      rw [hl, lookupEntry_mapPut _ _ _ hent, hk']
      rfl
    · intro j hj
      have : ¬ num = j := fun e => hj e.symm
      simp [step, Msg.fields, Fields.get?_set, this]
    · simp [has, step, Msg.fields, Fields.get?_set]

theorem lookupEntry_mapErase_ne (vs : Vals) (k k' : Val) (h : valBEq k' k = false) :
    lookupEntry (mapErase vs k) k' = lookupEntry vs k' := by
  induction vs using Vals.ind with
  | nil => rfl
  | cons x tl ih =>
    cases x with
    | msg e =>
      rw [mapErase]
      split
      · rename_i k0 hk0
        split
        · rename_i hb
          have := valBEq_eq hb
          subst this
          rw [lookupEntry_cons_msg]
          have : entryHasKey e k' = false := by unfold entryHasKey; rw [hk0]; exact h
          simp [this]
        · rw [lookupEntry_cons_msg, lookupEntry_cons_msg, ih]
      · rw [lookupEntry_cons_msg, lookupEntry_cons_msg, ih]
    | num n => rw [mapErase, lookupEntry_cons_num, lookupEntry_cons_num, ih]; intro e hh; cases hh
    | bytes b => rw [mapErase, lookupEntry_cons_bytes, lookupEntry_cons_bytes, ih]; intro e hh; cases hh

theorem lookupEntry_mapErase_self (vs : Vals) (k : Val) (hd : vs.toList.Pairwise KeysDiffer) :
    lookupEntry (mapErase vs k) k = none := by
  induction vs using Vals.ind with
  | nil => rfl
  | cons x tl ih =>
    simp only [Vals.toList, List.pairwise_cons] at hd
    cases x with
    | msg e =>
      rw [mapErase]
      split
      · rename_i k0 hk0
        split
        · rename_i hb
          have hk := valBEq_eq hb
          subst hk
          -- no later entry carries `k`
          cases hl : lookupEntry tl k with
          | none => rfl
          | some e' =>
            have hm := lookupEntry_mem hl
            have hk' := lookupEntry_key hl
            exact (hd.1 _ hm e e' k rfl rfl ((entryHasKey_iff _ _).mpr ⟨hk0, hk'.2⟩)
              ((entryHasKey_iff _ _).mpr hk')).elim
        · rename_i hb
          rw [lookupEntry_cons_msg, ih hd.2]
          have : entryHasKey e k = false := by
            unfold entryHasKey; rw [hk0]; simpa using hb
          simp [this]
      · rename_i hk0
        rw [lookupEntry_cons_msg, ih hd.2]
        have : entryHasKey e k = false := by unfold entryHasKey; rw [hk0]
        simp [this]
    | num n => rw [mapErase, lookupEntry_cons_num, ih hd.2]; intro e hh; cases hh
    | bytes b => rw [mapErase, lookupEntry_cons_bytes, ih hd.2]; intro e hh; cases hh

/-- `Map.Clear(k)`: `k` is gone (entries carry distinct keys), every other key is unchanged -/
theorem map_del (d : MsgD) (m : Msg) (num : Nat) (k : Val) (vs : Vals)
    (h : m.fields.get? num = some (.many vs)) :
    (∀ k', valBEq k' k = false → mapGet (step d m (.mapDel num k)) num k' = mapGet m num k') ∧
    (vs.toList.Pairwise KeysDiffer → mapGet (step d m (.mapDel num k)) num k = none) := by
  cases m with
  | mk fs u =>
    simp only [Msg.fields] at h
    have hl0 : fs.listAt num = vs := by unfold Fields.listAt; rw [h]
    have hl : (step d (.mk fs u) (.mapDel num k)).fields.listAt num = mapErase vs k := by
      unfold Fields.listAt
      simp only [step, Msg.fields, h]
      by_cases hn : (mapErase vs k).isNil = true
      · simp only [hn, if_true, Fields.get?_erase, if_true]
        exact ((Vals.isNil_iff _).mp hn).symm
      · simp only [hn, Bool.false_eq_true, if_false, Fields.get?_set, if_true]
    constructor
    · intro k' hk'
      unfold mapGet
      rw [hl, lookupEntry_mapErase_ne vs k k' hk']
      simp only [Msg.fields, hl0]
    · intro hd
      unfold mapGet
      rw [hl, lookupEntry_mapErase_self vs k hd]

theorem mem_mapPut {vs : Vals} {k : Val} {e : Msg} {b : Val} (h : b ∈ (mapPut vs k e).toList) :
    b = .msg e ∨ b ∈ vs.toList := by
  induction vs using Vals.ind with
  | nil => simp [mapPut, Vals.toList] at h; exact Or.inl h
  | cons x tl ih =>
    cases x with
    | msg old =>
      rw [mapPut] at h
      split at h
      · split at h
        · simp only [Vals.toList, List.mem_cons] at h ⊢
          rcases h with h | h
          · exact Or.inl h
          · exact Or.inr (Or.inr h)
        · simp only [Vals.toList, List.mem_cons] at h ⊢
          rcases h with h | h
          · exact Or.inr (Or.inl h)
          · rcases ih h with h | h
            · exact Or.inl h
            · exact Or.inr (Or.inr h)
      · simp only [Vals.toList, List.mem_cons] at h ⊢
        rcases h with h | h
        · exact Or.inr (Or.inl h)
        · rcases ih h with h | h
          · exact Or.inl h
          · exact Or.inr (Or.inr h)
    | num n =>
      rw [mapPut] at h
      · simp only [Vals.toList, List.mem_cons] at h ⊢
        rcases h with h | h
        · exact Or.inr (Or.inl h)
        · rcases ih h with h | h
          · exact Or.inl h
          · exact Or.inr (Or.inr h)
      · intro old hh; cases hh
    | bytes b' =>
      rw [mapPut] at h
      · simp only [Vals.toList, List.mem_cons] at h ⊢
        rcases h with h | h
        · exact Or.inr (Or.inl h)
        · rcases ih h with h | h
          · exact Or.inl h
          · exact Or.inr (Or.inr h)
      · intro old hh; cases hh

/-- `Map.Set` keeps the keys of a map distinct -/
theorem mapPut_keysDiffer (vs : Vals) (k : Val) (e : Msg) (hk : entryHasKey e k = true)
    (hd : vs.toList.Pairwise KeysDiffer) : (mapPut vs k e).toList.Pairwise KeysDiffer := by
  have hkk := (entryHasKey_iff _ _).mp hk
  induction vs using Vals.ind with
  | nil => simp [mapPut, Vals.toList]
  | cons x tl ih =>
    simp only [Vals.toList, List.pairwise_cons] at hd
    -- a head that does not carry `k` differs from everything in the updated tail
    have keep : ∀ (old : Msg), x = .msg old → entryHasKey old k = false →
        ∀ b ∈ (mapPut tl k e).toList, KeysDiffer x b := by
      intro old hx hno b hb ea eb k1 e1 e2 h1 h2
      subst hx
      cases e1
      rcases mem_mapPut hb with rfl | hb
      · cases e2
        have := ((entryHasKey_iff _ _).mp h2).1
        rw [hkk.1] at this
        cases this
        rw [h1] at hno; cases hno
      · exact hd.1 b hb old eb k1 rfl e2 h1 h2
    cases x with
    | msg old =>
      rw [mapPut]
      split
      · rename_i k0 hk0
        split
        · rename_i hb
          have := valBEq_eq hb
          subst this
          simp only [Vals.toList, List.pairwise_cons]
          refine ⟨?_, hd.2⟩
          intro b hb' ea eb k1 e1 e2 h1 h2
          cases e1
          have hk1 := (entryHasKey_iff _ _).mp h1
          rw [hkk.1] at hk1
          have := hk1.1; cases this
          exact hd.1 b hb' old eb k rfl e2 ((entryHasKey_iff _ _).mpr ⟨hk0, hkk.2⟩) h2
        · rename_i hb
          simp only [Vals.toList, List.pairwise_cons]
          refine ⟨keep old rfl ?_, ih hd.2⟩
          unfold entryHasKey; rw [hk0]; simpa using hb
      · rename_i hk0
        simp only [Vals.toList, List.pairwise_cons]
        refine ⟨keep old rfl ?_, ih hd.2⟩
        unfold entryHasKey; rw [hk0]
    | num n =>
      rw [mapPut]
      · simp only [Vals.toList, List.pairwise_cons]
        exact ⟨fun b _ ea eb k1 e1 => (by cases e1), ih hd.2⟩
      · intro old hh; cases hh
    | bytes b' =>
      rw [mapPut]
      · simp only [Vals.toList, List.pairwise_cons]
        exact ⟨fun b _ ea eb k1 e1 => (by cases e1), ih hd.2⟩
      · intro old hh; cases hh

/-! ### unknown fields, Mutable -/

/-- `SetUnknown` then `GetUnknown`; the fields are untouched -/
theorem set_unknown (d : MsgD) (m : Msg) (b : List Byte) :
    (step d m (.setUnknown b)).unknown = b ∧ (step d m (.setUnknown b)).fields = m.fields := by
  cases m; exact ⟨rfl, rfl⟩

/-- the operations on fields never touch the unknown fields -/
theorem unknown_frame (d : MsgD) (m : Msg) (op : Op) (h1 : ∀ b, op ≠ .setUnknown b) (h2 : op ≠ .reset) :
    (step d m op).unknown = m.unknown := by
  cases m with
  | mk fs u =>
    cases op with
    | setUnknown b => exact (h1 b rfl).elim
    | reset => exact (h2 rfl).elim
    | set num v => simp only [step]; split <;> (try split) <;> rfl
    | clear num => rfl
    | mutable num => simp only [step]; split <;> (try split) <;> rfl
    | append num v => rfl
    | listSet num i v => simp only [step]; split <;> rfl
    | truncate num n => simp only [step]; split <;> (try split) <;> rfl
    | mapPut num k v => rfl
    | mapDel num k => simp only [step]; split <;> (try split) <;> rfl

/-- `Mutable` on an unpopulated message field installs an empty submessage and populates the field;
on a populated one it returns the submessage that is there -/
theorem mutable_unset (d : MsgD) (m : Msg) (f : Field) (hf : d.find f.num = some f)
    (h : has m f.num = false) :
    (step d m (.mutable f.num)).fields.get? f.num = some (.one (.msg Msg.empty)) := by
  cases m with
  | mk fs u =>
    unfold has at h
    simp only [Msg.fields] at h
    have hg : (clearOneofFor d f fs).get? f.num = none := by
      unfold clearOneofFor
      split
      · rw [Fields.get?_clearOneof]
        cases hq : fs.get? f.num with
        | none => simp
        | some _ => rw [hq] at h; cases h
      · cases hq : fs.get? f.num with
        | none => rfl
        | some _ => rw [hq] at h; cases h
    simp only [step, hf, Msg.fields, hg, Fields.get?_set, if_true]

theorem mutable_set (d : MsgD) (m : Msg) (f : Field) (fv : FVal) (hf : d.find f.num = some f)
    (h : m.fields.get? f.num = some fv) :
    (step d m (.mutable f.num)).fields.get? f.num = some fv := by
  cases m with
  | mk fs u =>
    simp only [Msg.fields] at h
    have hg : (clearOneofFor d f fs).get? f.num = some fv := by
      unfold clearOneofFor
      split
      · rename_i o ho
        rw [Fields.get?_clearOneof]
        have : d.otherMember o f.num f.num = false := by
          unfold MsgD.otherMember; split <;> simp
        rw [this]; simpa using h
      · exact h
    simp only [step, hf, Msg.fields, hg]

/-! a history through every kind of operation, evaluated -/
example :
    let d := Ex.S0.msg 0
    let m := run d Msg.empty [.set 1 (.num 5), .append 4 (.num 1), .append 4 (.num 2), .mapPut 5 (.bytes [0x61#8]) (.num 9),
      .set 6 (.bytes [0x62#8]), .mutable 7, .setUnknown [0x98#8, 0x06#8, 0x01#8], .truncate 4 1, .clear 1]
    (range m).map (·.1) = [4, 5, 7] ∧ whichOneof d m 0 = some 7 ∧ (listOf m 4).length = 1 ∧
    (mapGet m 5 (.bytes [0x61#8])).isSome = true ∧ (mapGet m 5 (.bytes [0x62#8])).isSome = false ∧
    has m 6 = false ∧ has m 1 = false ∧ m.unknown = [0x98#8, 0x06#8, 0x01#8] := by
  decide

end C28
