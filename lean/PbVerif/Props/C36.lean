/-
C36 — Descriptor views are internally consistent.

Statement (properties.jsonl): for every descriptor, indexed and keyed views agree: Get(i).Index() == i,
ByName/ByNumber/ByJSONName/ByTextName return the first element with that key, FullName equals the
parent's full name joined with Name, ParentFile/Parent chains terminate at the file, Has on reserved
and extension ranges matches membership in the listed ranges, RequiredNumbers lists exactly the
required fields, and Oneof/ContainingOneof and MapKey/MapValue links are mutual.

All theorems are about `Model.DescViews` (hand-written from internal/filedesc/desc_list.go,
desc_list_gen.go, desc.go and the construction loops of reflect/protodesc), tied to the Go code by
the `descviews` harness. Every theorem quantifies over ALL lists / numbers / keys.

Obligations and status (all proved; nothing refuted on the current tree)
  get_index                      proved
  byKey_first                    proved  (generated lists: Enums, EnumValues, Messages, Fields, Oneofs,
                                          Extensions, Services, Methods — incl. the lower-cased group keys)
  oneof_byKey_first              proved  (OneofFields; first-wins since /repo 74fa6e8 — was DESIGN finding 11)
  ranges_has_iff (field, enum)   proved under NonOverlapping (= what CheckValid accepts, checkValid_iff)
  fieldCheckValid_has            proved for every int32 list (the wrapping-end hypothesis is gone since /repo 0989bec)
  ranges_has_sound               proved for ARBITRARY lists; completeness refuted for overlapping lists
                                 (such lists are rejected by CheckValid; not an obligation of the property)
  requiredNumbers_exact          proved
  fullName_join                  proved  (enum values are named in the enum's parent scope, as documented)
  parent_chain_terminates        proved
  oneof_links_mutual             proved
  names_has_iff / fieldNumbers_has_iff / names_checkValid_iff   proved
  MapKey/MapValue mutual links   tied by correspondence only (T3)
-/
import PbVerif.Lemmas.DescViews
namespace C36
open Model.DescViews

/-! ## Ranges -/

/-- `n` lies in the listed range `r` of an `EnumRanges` list (both ends inclusive). -/
def InEnumRange (r : Rng) (n : Int) : Prop := r.start ≤ n ∧ n ≤ r.stop
/-- `n` lies in the listed range `r` of a `FieldRanges` list (end exclusive). -/
def InFieldRange (r : Rng) (n : Int) : Prop := r.start ≤ n ∧ n < r.stop

def Int32 (x : Int) : Prop := -2147483648 ≤ x ∧ x ≤ 2147483647

/-- Listed enum ranges are non-empty and pairwise disjoint (any order). -/
def EnumNonOverlapping (rs : List Rng) : Prop :=
  (∀ r ∈ rs, r.start ≤ r.stop) ∧ rs.Pairwise (fun a b => a.stop < b.start ∨ b.stop < a.start)

/-- Listed field ranges (end exclusive) are int32 pairs, non-empty and pairwise disjoint (any order);
adjacent ranges `[a,b) [b,c)` are allowed. -/
def FieldNonOverlapping (rs : List Rng) : Prop :=
  (∀ r ∈ rs, Int32 r.start ∧ Int32 r.stop ∧ r.start < r.stop) ∧
  rs.Pairwise (fun a b => a.stop ≤ b.start ∨ b.stop ≤ a.start)

theorem fieldEnd_eq (r : Rng) (h1 : Int32 r.stop) (h2 : -2147483648 < r.stop) : fieldEnd r = r.stop - 1 := by
  unfold fieldEnd wrap32; unfold Int32 at h1; omega

theorem nonOverlapping_of_enum {rs : List Rng} (h : EnumNonOverlapping rs) : NonOverlapping enumEnd rs := h

theorem nonOverlapping_of_field {rs : List Rng} (h : FieldNonOverlapping rs) : NonOverlapping fieldEnd rs := by
  refine ⟨fun r hr => ?_, ?_⟩
  · obtain ⟨h1, h2, h3⟩ := h.1 r hr
    rw [fieldEnd_eq r h2 (by unfold Int32 at h1; omega)]; omega
  · refine List.Pairwise.imp_of_mem ?_ h.2
    intro a b ha hb hab
    obtain ⟨a1, a2, a3⟩ := h.1 a ha
    obtain ⟨b1, b2, b3⟩ := h.1 b hb
    rw [fieldEnd_eq a a2 (by unfold Int32 at a1; omega), fieldEnd_eq b b2 (by unfold Int32 at b1; omega)]
    omega

/-- Generic form: whenever the sorted copy satisfies the invariant that `CheckValid` establishes,
the binary search decides membership (ends as computed by `End()`). -/
theorem ranges_has_iff_sorted (e : Rng → Int) (rs : List Rng) (n : Int)
    (h : SortedNonOverlapping e (sortByStart rs)) :
    bsearch e n (sortByStart rs) = true ↔ ∃ r ∈ rs, r.start ≤ n ∧ n ≤ e r := by
  constructor
  · intro hb
    obtain ⟨r, hr, hin⟩ := bsearch_sound e n _ hb
    exact ⟨r, (sortByStart_perm rs).mem_iff.1 hr, hin⟩
  · rintro ⟨r, hr, hin⟩
    exact bsearch_complete e n _ h.1 h.2 ⟨r, (sortByStart_perm rs).mem_iff.2 hr, hin⟩

/-- `EnumRanges.Has` (end inclusive): for every listed order of non-overlapping ranges and every
number, `Has(n)` is membership in the listed ranges. -/
theorem ranges_has_iff_enum (rs : List Rng) (n : Int) (h : EnumNonOverlapping rs) :
    enumHas rs n = true ↔ ∃ r ∈ rs, InEnumRange r n :=
  ranges_has_iff_sorted enumEnd rs n (sorted_of_nonOverlapping _ _ h)

/-- `FieldRanges.Has` (end exclusive, `End() = r[1]-1` in int32): for every listed order of
non-overlapping (possibly adjacent) ranges and every number, `Has(n)` is membership `start ≤ n < end`. -/
theorem ranges_has_iff (rs : List Rng) (n : Int) (h : FieldNonOverlapping rs) :
    fieldHas rs n = true ↔ ∃ r ∈ rs, InFieldRange r n := by
  unfold fieldHas
  rw [ranges_has_iff_sorted fieldEnd rs n (sorted_of_nonOverlapping _ _ (nonOverlapping_of_field h))]
  constructor
  · rintro ⟨r, hr, h1, h2⟩
    obtain ⟨a1, a2, a3⟩ := h.1 r hr
    rw [fieldEnd_eq r a2 (by unfold Int32 at a1; omega)] at h2
    exact ⟨r, hr, h1, by omega⟩
  · rintro ⟨r, hr, h1, h2⟩
    obtain ⟨a1, a2, a3⟩ := h.1 r hr
    refine ⟨r, hr, h1, ?_⟩
    rw [fieldEnd_eq r a2 (by unfold Int32 at a1; omega)]; omega

/-- hypotheses are satisfiable by a non-trivial value: unsorted, adjacent, single-number and maximal ranges -/
example : FieldNonOverlapping [⟨10, 20⟩, ⟨1, 2⟩, ⟨2, 10⟩, ⟨536870911, 536870912⟩, ⟨536870912, 2147483647⟩] := by
  refine ⟨?_, ?_⟩
  · simp [Int32]
  · decide
example : EnumNonOverlapping [⟨5, 5⟩, ⟨-2147483648, -7⟩, ⟨6, 2147483647⟩] := by
  refine ⟨?_, ?_⟩ <;> decide

/-- ARBITRARY lists (overlapping, empty or inverted ranges, duplicate starts — and any order in which
`sort.Slice` leaves equal starts: `ls` is any permutation of the list): `Has` never answers true for
a number outside every listed range. -/
theorem ranges_has_sound (e : Rng → Int) (rs ls : List Rng) (n : Int) (hp : ls.Perm rs) :
    bsearch e n ls = true → ∃ r ∈ rs, r.start ≤ n ∧ n ≤ e r := by
  intro hb
  obtain ⟨r, hr, hin⟩ := bsearch_sound e n _ hb
  exact ⟨r, hp.mem_iff.1 hr, hin⟩

theorem ranges_has_sound_enum (rs : List Rng) (n : Int) :
    enumHas rs n = true → ∃ r ∈ rs, InEnumRange r n :=
  ranges_has_sound enumEnd rs _ n (sortByStart_perm rs)

/-- Completeness does NOT hold for overlapping lists: `reserved 1 to 10, 2 to 3, 4 to 5` (an enum;
such a list is rejected by `CheckValid`, but `Has` itself misses 7). -/
theorem ranges_has_complete_refuted :
    ¬ (∀ (rs : List Rng) (n : Int), (∃ r ∈ rs, InEnumRange r n) → enumHas rs n = true) := by
  intro h
  have h1 := h [⟨1, 10⟩, ⟨2, 3⟩, ⟨4, 5⟩] 7 ⟨⟨1, 10⟩, by simp, by simp [InEnumRange]⟩
  have hs : sortByStart [⟨1, 10⟩, ⟨2, 3⟩, ⟨4, 5⟩] = [⟨1, 10⟩, ⟨2, 3⟩, ⟨4, 5⟩] :=
    (sortByStart_unique _ _ (List.Perm.refl _) (by simp) (by simp)).symm
  rw [enumHas, hs] at h1
  simp [bsearch, enumEnd] at h1

/-- `CheckValid` (nil error) is exactly: every end point passes the number test, every range passes
the non-emptiness clause, and the listed ranges are pairwise disjoint — so every range list that
passed validation satisfies the hypothesis of `ranges_has_iff`. (`hok`: the non-emptiness clause
implies `Start() <= End()`; trivial for enums, int32-ness for fields.) -/
theorem checkValid_iff (e : Rng → Int) (ok : Int → Bool) (okR : Rng → Bool) (rs : List Rng)
    (hok : ∀ r ∈ rs, okR r = true → r.start ≤ e r) :
    checkLoop e ok okR none (sortByStart rs) = true ↔
      (∀ r ∈ rs, ok r.start = true ∧ ok (e r) = true ∧ okR r = true) ∧ NonOverlapping e rs := by
  have hp := sortByStart_perm rs
  rw [checkLoop_iff _ _ _ _ _ (fun r hr => hok r (hp.mem_iff.1 hr))]
  constructor
  · rintro ⟨h1, h2, _⟩
    refine ⟨fun r hr => h1 r (hp.mem_iff.2 hr),
      nonOverlapping_of_sorted e rs ⟨h2, fun r hr => hok r (hp.mem_iff.1 hr) (h1 r hr).2.2⟩⟩
  · rintro ⟨h1, h2⟩
    have hs := sorted_of_nonOverlapping e rs h2
    exact ⟨fun r hr => h1 r (hp.mem_iff.1 hr), hs.1, fun rp hrp => by cases hrp⟩

theorem enumCheckValid_iff (rs : List Rng) : enumCheckValid rs = true ↔ EnumNonOverlapping rs := by
  unfold enumCheckValid
  rw [checkValid_iff _ _ _ _ (fun r _ h => by simpa using h)]
  simp only [EnumNonOverlapping, NonOverlapping, enumEnd, true_and]
  constructor
  · exact fun h => h.2
  · exact fun h => ⟨fun r hr => decide_eq_true (h.1 r hr), h⟩

/-- `FieldRanges.CheckValid` on int32 pairs: nil iff all end points are valid numbers and the listed
ranges are non-empty (`start < stop`) and pairwise disjoint. -/
theorem fieldCheckValid_iff (isMessageSet : Bool) (rs : List Rng)
    (h32 : ∀ r ∈ rs, Int32 r.start ∧ Int32 r.stop) :
    fieldCheckValid isMessageSet rs = true ↔
      (∀ r ∈ rs, isValidFieldNumber isMessageSet r.start = true ∧ isValidFieldNumber isMessageSet (r.stop - 1) = true) ∧
      FieldNonOverlapping rs := by
  have hend : ∀ r ∈ rs, r.start < r.stop → fieldEnd r = r.stop - 1 := fun r hr h =>
    fieldEnd_eq r (h32 r hr).2 (by have := (h32 r hr).1; unfold Int32 at this; omega)
  unfold fieldCheckValid
  rw [checkValid_iff _ _ _ _ (fun r hr h => by
    have h : r.start < r.stop := by simpa using h
    rw [hend r hr h]; omega)]
  constructor
  · rintro ⟨h1, h2⟩
    have hlt : ∀ r ∈ rs, r.start < r.stop := fun r hr => by simpa using (h1 r hr).2.2
    refine ⟨fun r hr => ⟨(h1 r hr).1, by rw [← hend r hr (hlt r hr)]; exact (h1 r hr).2.1⟩,
      fun r hr => ⟨(h32 r hr).1, (h32 r hr).2, hlt r hr⟩, ?_⟩
    refine List.Pairwise.imp_of_mem ?_ h2.2
    intro a b ha hb hab
    rw [hend a ha (hlt a ha), hend b hb (hlt b hb)] at hab
    omega
  · rintro ⟨h1, h2⟩
    have hlt : ∀ r ∈ rs, r.start < r.stop := fun r hr => (h2.1 r hr).2.2
    refine ⟨fun r hr => ⟨(h1 r hr).1, by rw [hend r hr (hlt r hr)]; exact (h1 r hr).2, by simpa using hlt r hr⟩,
      nonOverlapping_of_field h2⟩

/-- A field-range list (int32 entries) that passes `CheckValid` has `Has` = listed membership. -/
theorem fieldCheckValid_has (isMessageSet : Bool) (rs : List Rng) (n : Int)
    (h32 : ∀ r ∈ rs, Int32 r.start ∧ Int32 r.stop)
    (hc : fieldCheckValid isMessageSet rs = true) :
    fieldHas rs n = true ↔ ∃ r ∈ rs, InFieldRange r n :=
  ranges_has_iff rs n ((fieldCheckValid_iff isMessageSet rs h32).1 hc).2

/-- The list that used to slip through (`End()` wrapping for a stored end of MinInt32) is rejected. -/
example : fieldCheckValid true [⟨4, -2147483648⟩] = false := by
  have hs : sortByStart [⟨4, -2147483648⟩] = [⟨4, -2147483648⟩] := by simp [sortByStart]
  rw [fieldCheckValid, hs]; decide

/-! ## Keyed lookups -/

section tables
variable {α κ : Type} [DecidableEq κ]

/-- Generated lists: the table built by `lazyInit` returns, for EVERY key, the index of the FIRST
element of the list that carries that key (`none` = nil when no element does). `keysOf d` is the key
list an element contributes to the map in question (`[d.Name()]`, `[d.Number()]`, and for
`Fields.byJSON`/`byText` the name plus its lower-cased form when the field is group-like). -/
theorem byKey_first (keysOf : α → List κ) (l : List α) (k : κ) :
    byKeyFirst keysOf l k = l.findIdx? (fun d => decide (k ∈ keysOf d)) :=
  byKeyFirst_eq keysOf l k

/-- The same, spelled out: `ByX(k)` is `&List[i]` iff `i` is the least index whose element has key `k`. -/
theorem byKey_first_iff (keysOf : α → List κ) (l : List α) (k : κ) (i : Nat) :
    byKeyFirst keysOf l k = some i ↔
      ∃ h : i < l.length, k ∈ keysOf l[i] ∧ ∀ j (hj : j < i), k ∉ keysOf (l[j]'(by omega)) :=
  byKeyFirst_some_iff keysOf l k i

theorem byKey_first_nil_iff (keysOf : α → List κ) (l : List α) (k : κ) :
    byKeyFirst keysOf l k = none ↔ ∀ d ∈ l, k ∉ keysOf d :=
  byKeyFirst_none_iff keysOf l k

/-- The element returned through the index really is the first match of a linear scan. -/
theorem byKey_first_get (keysOf : α → List κ) (l : List α) (k : κ) :
    (byKeyFirst keysOf l k).bind (getAt l) = l.find? (fun d => decide (k ∈ keysOf d)) := by
  rw [byKey_first]
  induction l with
  | nil => simp
  | cons d ds ih =>
    rw [List.findIdx?_cons, List.find?_cons]
    by_cases h : k ∈ keysOf d
    · simp [h, getAt]
    · simp only [h, decide_false, Bool.false_eq_true, if_false]
      rw [← ih]
      cases ds.findIdx? (fun d => decide (k ∈ keysOf d)) <;> simp [getAt]

/-- `OneofFields` (`Oneof.Fields()`): every keyed lookup returns the FIRST member with that key, for
every member list and every key — in particular when several members share a JSON name. -/
theorem oneof_byKey_first (keyOf : α → κ) (l : List α) (k : κ) :
    byKeyOneof keyOf l k = l.findIdx? (fun d => decide (keyOf d = k)) := by
  unfold byKeyOneof
  rw [byKey_first]
  congr 1; funext d; simp [eq_comm]

theorem oneof_byKey_first_iff (keyOf : α → κ) (l : List α) (k : κ) (i : Nat) :
    byKeyOneof keyOf l k = some i ↔
      ∃ h : i < l.length, keyOf l[i] = k ∧ ∀ j (hj : j < i), keyOf (l[j]'(by omega)) ≠ k := by
  unfold byKeyOneof
  rw [byKey_first_iff]
  simp [eq_comm]

theorem oneof_byKey_nil_iff (keyOf : α → κ) (l : List α) (k : κ) :
    byKeyOneof keyOf l k = none ↔ ∀ d ∈ l, keyOf d ≠ k := by
  unfold byKeyOneof
  rw [byKey_first_nil_iff]
  simp [eq_comm]

end tables

/-- The model of one oneof member for the witness: (name, JSON name) as character lists. -/
def witnessOneof : List (List Char × List Char) :=
  [(['f','o','o','_','b','a','r'], ['f','o','o','B','a','r']),
   (['f','o','o','B','a','r'],     ['f','o','o','B','a','r'])]

/-- Former witness of DESIGN finding 11 (proto2 `M{oneof o{int32 foo_bar=1; int32 fooBar=2}}`, both
members with JSON name `fooBar`): the oneof view now answers with member 0, like the message view. -/
example : byKeyOneof (fun (d : List Char × List Char) => d.2) witnessOneof ['f','o','o','B','a','r'] = some 0 := by
  decide
example : byKeyFirst (fun (d : List Char × List Char) => [d.2]) witnessOneof ['f','o','o','B','a','r'] = some 0 := by
  decide

/-! ## Get / Index, Names, FieldNumbers, RequiredNumbers, oneof links -/

theorem constructFrom_getElem? (p : Desc) (e : Bool) (i0 : Nat) (names : List Str) (i : Nat) :
    (constructFrom p e i0 names)[i]? = (names[i]?).map (fun nm => Desc.child p e nm (i0 + i)) := by
  induction names generalizing i0 i with
  | nil => simp [constructFrom]
  | cons nm rest ih =>
    cases i with
    | zero => simp [constructFrom]
    | succ i => simp [constructFrom, ih, Nat.add_assoc, Nat.add_comm 1 i]

/-- `Get(i).Index() == i` (and `Get(i).Parent()` is the declaring descriptor) for every list built by
the declaration loops, for every `i` in range; `Get` out of range is the Go panic (`none`). -/
theorem get_index (p : Desc) (e : Bool) (names : List Str) (i : Nat) (d : Desc)
    (h : getAt (construct p e names) i = some d) :
    d.index = i ∧ d.parent = some p ∧ i < names.length := by
  unfold getAt construct at h
  rw [constructFrom_getElem?] at h
  cases hn : names[i]? with
  | none => rw [hn] at h; cases h
  | some nm =>
    rw [hn] at h
    simp only [Option.map_some, Option.some.injEq, Nat.zero_add] at h
    subst h
    exact ⟨rfl, rfl, (List.getElem?_eq_some_iff.1 hn).1⟩

theorem get_length (p : Desc) (e : Bool) (names : List Str) : (construct p e names).length = names.length := by
  unfold construct
  generalize 0 = i0
  induction names generalizing i0 with
  | nil => rfl
  | cons nm rest ih => simp [constructFrom, ih]

/-- `Names.Has(s)` is membership in the list. -/
theorem names_has_iff {κ : Type} [DecidableEq κ] (l : List κ) (s : κ) : namesHas l s = true ↔ s ∈ l :=
  namesHas_iff l s

/-- `Names.CheckValid() == nil` iff the list has no duplicate. -/
theorem names_checkValid_iff {κ : Type} [DecidableEq κ] (l : List κ) : namesCheckValid l = true ↔ l.Nodup :=
  namesCheckValid_iff l

/-- `FieldNumbers.Has(n)` is membership in the list. -/
theorem fieldNumbers_has_iff (l : List Int) (n : Int) : fieldNumbersHas l n = true ↔ n ∈ l :=
  fieldNumbersHas_iff l n

/-- `RequiredNumbers` lists exactly the numbers of the required fields, in field order. -/
theorem requiredNumbers_exact (fs : List FieldInfo) :
    requiredNumbers fs = (fs.filter (fun f => decide (f.card = Card.required))).map (·.number) :=
  requiredNumbers_eq fs

theorem requiredNumbers_mem (fs : List FieldInfo) (n : Int) :
    fieldNumbersHas (requiredNumbers fs) n = true ↔ ∃ f ∈ fs, f.card = Card.required ∧ f.number = n := by
  rw [fieldNumbers_has_iff, requiredNumbers_exact]
  simp [List.mem_map, List.mem_filter, and_assoc]

/-- Oneof ↔ ContainingOneof: field `j` is listed in `Oneofs[k].Fields()` iff
`Fields[j].ContainingOneof()` is oneof `k`; the member list is in field order without repetition. -/
theorem oneof_links_mutual (fs : List FieldInfo) (k j : Nat) :
    j ∈ oneofMembers k fs ↔ containingOneof fs j = some k := by
  unfold oneofMembers containingOneof
  rw [oneofMembersFrom_eq]
  simp only [List.nil_append, Nat.add_zero, List.map_id', List.mem_filter, List.mem_range, decide_eq_true_eq]
  constructor
  · exact fun h => h.2
  · intro h
    refine ⟨?_, h⟩
    cases hj : fs[j]? with
    | none => rw [hj] at h; cases h
    | some f => exact (List.getElem?_eq_some_iff.1 hj).1

theorem oneof_members_sorted (fs : List FieldInfo) (k : Nat) :
    (oneofMembers k fs).Pairwise (· < ·) := by
  unfold oneofMembers
  rw [oneofMembersFrom_eq]
  simp only [List.nil_append, Nat.add_zero, List.map_id']
  exact List.Pairwise.filter _ List.pairwise_lt_range

/-! ## Full names and parent chains -/

/-- `FullName` of a declared descriptor is its naming scope joined with its name, `Name()` gives the
name back and `FullName().Parent()` the scope. For every descriptor whose parent is not an enum the
scope is `Parent().FullName()` (the file's package at top level); enum values are named in the
enum's parent scope (`makeBase`; protobuf's documented scoping of enum values). -/
theorem fullName_join (p : Desc) (e : Bool) (name : Str) (i : Nat) (h : '.' ∉ name) :
    (Desc.child p e name i).fullName = joinName p.scope name ∧
    (Desc.child p e name i).name = name ∧
    parentOf (Desc.child p e name i).fullName = p.scope := by
  have h0 : (Desc.child p e name i).fullName = joinName p.scope name := by
    simp only [Desc.fullName, Desc.scope, appendFullName_eq]
  refine ⟨h0, ?_, ?_⟩
  · rw [Desc.name, h0, nameOf_join _ _ h]
  · rw [h0, parentOf_join _ _ h]

theorem scope_of_nonEnum (p : Desc) (h : p.isEnum = false) : p.scope = p.fullName := by
  simp [Desc.scope, h]

/-- The scope of an enum's values is the scope the enum itself was named in: values are siblings of
their enum. -/
theorem scope_of_enum (p : Desc) (name : Str) (i : Nat) (h : '.' ∉ name) :
    (Desc.child p true name i).scope = p.scope := by
  have := (fullName_join p true name i h).2.2
  simpa [Desc.scope, Desc.isEnum] using this

/-- hypotheses are satisfiable by a non-trivial value: `pkg.sub` / message `M` / enum `E` / value `V` -/
example :
    let f := Desc.file ['p','.','q']
    let m := Desc.child f false ['M'] 0
    let en := Desc.child m true ['E'] 0
    let v := Desc.child en false ['V'] 3
    en.fullName = ['p','.','q','.','M','.','E'] ∧ v.fullName = ['p','.','q','.','M','.','V'] ∧ v.name = ['V'] := by
  decide
example : (Desc.child (Desc.file []) false ['M'] 0).fullName = ['M'] := by decide

theorem ancestor_parent (k : Nat) (d p : Desc) (h : d.parent = some p) :
    Desc.ancestor (k + 1) d = Desc.ancestor k p := by
  simp [Desc.ancestor, h]

/-- Parent chains terminate at the file: exactly `depth` applications of `Parent()` reach
`ParentFile()`, which is a file, whose own `Parent()` is nil; and every descriptor on the chain has
the same `ParentFile()`. -/
theorem parent_chain_terminates (d : Desc) :
    Desc.ancestor d.depth d = some d.parentFile ∧
    (∃ pkg, d.parentFile = Desc.file pkg) ∧
    Desc.ancestor (d.depth + 1) d = none ∧
    (∀ p, d.parent = some p → p.parentFile = d.parentFile) := by
  induction d with
  | file pkg => simp [Desc.ancestor, Desc.depth, Desc.parentFile, Desc.parent]
  | child p e nm i ih =>
    obtain ⟨h1, h2, h3, _⟩ := ih
    refine ⟨?_, ?_, ?_, ?_⟩
    · simpa [Desc.ancestor, Desc.depth, Desc.parent, Desc.parentFile] using h1
    · simpa [Desc.parentFile] using h2
    · simpa [Desc.ancestor, Desc.depth, Desc.parent] using h3
    · intro q hq
      simp only [Desc.parent, Option.some.injEq] at hq
      subst hq; rfl

end C36
