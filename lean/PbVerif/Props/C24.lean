import PbVerif.Lemmas.JsonTextRoundTM2
/-
C24 — prototext round-trips every message (tree level; Model/JsonText.lean).

Full statement (DESIGN §6):
    fromText_toText : WFMsg m → fromText S mi (toText S mi m) = ok (dropUnknown (canon m))
for every Multiline / Indent / EmitASCII setting.  None of the three exists at tree level: Multiline/Indent change
the whitespace between tokens, EmitASCII the escaping inside string literals.  The tree-level theorem composes with
the lexical round trips proved elsewhere — string literals in both ASCII modes: engine textstr (C25); number and
literal tokens, float formatting: the hypothesis `TLaws` (never an axiom), validated by the harness (all 2^32
float32 patterns in the thorough tier); they are NOT reproved here.

PROVED (`…_partial`): for ALL schemas, messages and limits in the fragment `RepMsgTM ok32`:
  singular scalars of every kind (bool literals, integers, enums by name or by number, strings — valid UTF-8 only
  where the field enforces it —, bytes, float/double bit for bit incl. nan, inf and -inf with all NaNs one value),
  presence disciplines, repeated fields printed as repeated `name: value` and re-appended, nested messages and
  groups to any depth ≤ RecursionLimit, oneofs (seenOneofs), extensions (`[full.name]`), duplicate detection
  (seenNums) never firing on the encoder's output, unknown fields dropped;
  populated MAP fields: entries printed as `name: {key: k value: v}` in key order (`GenericKeyOrder`), each
  re-inserted by `unmarshalMap`/`unmarshalMapEntry` (distinct keys: every `mmap.Set` appends), the extra recursion
  level of `unmarshalMap` (a map field needs `1 ≤ limit` where it stands and its values see `limit - 1`), result =
  the key-sorted normal form.

OUTSIDE the fragment (covered by the implementation-level check of the harness only):
  * expanded google.protobuf.Any, MessageSets, EmitUnknown, required-field checking (AllowPartial);
  * float32 values for which the lexical law fails in the code as it is: 0x15AE43FD and 0x95AE43FD (DESIGN
    finding 15) — `ok32Current`; after fixes/prototext-float32-parse.diff the law holds for every value and the
    theorem applies with `ok32 := fun _ => true`;
  * messages nested deeper than the decoder's RecursionLimit (Marshal has no limit).
-/
namespace C24
open JT Pb

/-- **every scalar kind and value** (text): `unmarshalScalar (marshalSingular v) = v`, floats bit for bit with all NaNs one
value; `ok32` = the float32 values for which the lexical law is claimed -/
theorem scalar_roundtrip (C : TCodec) (ok32 : Nat → Bool) (L : TLaws C ok32) (fx : FieldX) (v : Val)
    (hw : wfScalarT ok32 fx v = true) (hen : namesDistinct fx.enums) (hnd : namesNoDash fx.enums) :
    ∃ t, tScalar C fx v = .ok t ∧ tdTok C fx t = .ok (normScalar fx v) :=
  tdTok_tScalar C ok32 L fx v hw hen hnd

/-- the float32 values for which `Token.Float32 (appendFloat v) = v` holds in the code as it is: all but the two
double-rounding values of DESIGN finding 15 (measured exhaustively by the harness, thorough tier) -/
def ok32Current (b : Nat) : Bool := b != 0x15AE43FD && b != 0x95AE43FD

example : wfScalarT ok32Current { f := { num := 1, kind := .float, card := .optional }, jsonNames := [], textNames := [] }
    (.num 0x3f800000) = true := by decide

/-- the two values are outside the proved fragment of the code as it is -/
example : wfScalarT ok32Current { f := { num := 1, kind := .float, card := .optional }, jsonNames := [], textNames := [] }
    (.num 0x15AE43FD) = false := by decide

/-- **`fromText_toText_partial`**: for every schema (hypotheses `SchemaT`), every decoder option record, every limit
and every message of the fragment: `Unmarshal(Marshal(m))` succeeds and yields `m` without unknown fields, floats
bit for bit (NaNs as one value) -/
theorem fromText_toText_partial (C : TCodec) (ok32 : Nat → Bool) (L : TLaws C ok32) (D : DOpts) (X : SchemaX)
    (hS : SchemaT X) (mi : Nat) (limit : Int) (m : Msg) (hrep : RepMsgTM ok32 X mi limit m) :
    ∃ tfs, toText C X mi m = .ok tfs ∧ fromText C D X mi limit tfs = .ok (normMsg X mi m) :=
  rtTM_msg C D X ok32 hS L m mi limit hrep

/-- the same after fixes/prototext-float32-parse.diff: every float32 bit pattern -/
theorem fromText_toText_fixed (C : TCodec) (L : TLaws C (fun _ => true)) (D : DOpts) (X : SchemaX)
    (hS : SchemaT X) (mi : Nat) (limit : Int) (m : Msg) (hrep : RepMsgTM (fun _ => true) X mi limit m) :
    ∃ tfs, toText C X mi m = .ok tfs ∧ fromText C D X mi limit tfs = .ok (normMsg X mi m) :=
  rtTM_msg C D X _ hS L m mi limit hrep

/-- the hypotheses are satisfiable by a non-trivial message: `{1: 1.0f, 3: [7, 7]}` -/
def exSchema : SchemaX :=
  { msgs := [
      { fields := [
          { f := { num := 1, kind := .float, card := .optional }, jsonNames := [ascii ['a']], textNames := [ascii ['a']], presence := true },
          { f := { num := 3, kind := .uint32, card := .repeated }, jsonNames := [ascii ['r']], textNames := [ascii ['r']] }] }] }

def exMsg : Msg :=
  .mk (.cons 1 (.one (.num 0x3f800000)) (.cons 3 (.many (.cons (.num 7) (.cons (.num 7) .nil))) .nil)) []

theorem oneofExcl_of_none (d : MsgX) (fs : Fields) (h : ∀ fx ∈ d.fields, fx.oneofIdx = none) : OneofExcl d fs := by
  intro a b fa fb o _ _ h3 _ h5 _
  have := h fa (find_mem h3).1
  rw [this] at h5
  cases h5

example : RepMsgTM ok32Current exSchema 0 100 exMsg := by
  have e0 : OneofExcl (exSchema.msg 0) (.cons 1 (.one (.num 0x3f800000)) (.cons 3 (.many (.cons (.num 7) (.cons (.num 7) .nil))) .nil)) :=
    oneofExcl_of_none _ _ (by decide)
  have v1 : wfScalarT ok32Current { f := { num := 1, kind := .float, card := .optional }, jsonNames := [ascii ['a']], textNames := [ascii ['a']], presence := true } (.num 0x3f800000) = true := by decide
  have v7 : wfScalarT ok32Current { f := { num := 3, kind := .uint32, card := .repeated }, jsonNames := [ascii ['r']], textNames := [ascii ['r']] } (.num 7) = true := by decide
  exact ⟨by decide, rfl, rfl, e0, by decide, ⟨by decide, by decide, v1, by decide⟩, by decide,
    ⟨rfl, Or.inl ⟨rfl, v7, v7, trivial⟩⟩, trivial⟩


/-- … and by a message with a populated map field: `{5: {3 ↦ "x"}}` -/
def exSchemaM : SchemaX :=
  { msgs := [
      { fields := [
          { f := { num := 5, kind := .message, card := .map, sub := 1 }, jsonNames := [ascii ['m']], textNames := [ascii ['m']] }] },
      { fields := [
          { f := { num := 1, kind := .int32, card := .optional }, jsonNames := [sKey], textNames := [sKey], presence := true },
          { f := { num := 2, kind := .string, card := .optional }, jsonNames := [sValue], textNames := [sValue], presence := true }] }] }

def exMsgM : Msg :=
  .mk (.cons 5 (.many (.cons (.msg (.mk (.cons 1 (.one (.num 3)) (.cons 2 (.one (.bytes (ascii ['x']))) .nil)) [])) .nil)) .nil) []

example : RepMsgTM ok32Current exSchemaM 0 100 exMsgM := by
  have e0 : OneofExcl (exSchemaM.msg 0) (.cons 5 (.many (.cons (.msg (.mk (.cons 1 (.one (.num 3)) (.cons 2 (.one (.bytes (ascii ['x']))) .nil)) [])) .nil)) .nil) :=
    oneofExcl_of_none _ _ (by decide)
  have vk : wfScalarT ok32Current { f := { num := 1, kind := .int32, card := .optional }, jsonNames := [sKey], textNames := [sKey], presence := true } (.num 3) = true := by decide
  have vv : wfScalarT ok32Current { f := { num := 2, kind := .string, card := .optional }, jsonNames := [sValue], textNames := [sValue], presence := true } (.bytes (ascii ['x'])) = true := by decide
  exact ⟨by decide, rfl, rfl, e0, by decide, ⟨rfl, Or.inr ⟨rfl, by decide, ⟨rfl, rfl, rfl, rfl, vk, vv⟩, trivial⟩⟩, trivial⟩

end C24
