import PbVerif.Lemmas.JsonTextScalarT
/-
C24 — prototext round-trips every message (tree level; Model/JsonText.lean).

Full statement (DESIGN §6):
    fromText_toText : WFMsg m → fromText S mi (toText S mi m) = ok (dropUnknown (canon m))
`Multiline`, `Indent` and `EmitASCII` do not exist at tree level (whitespace between tokens, escaping inside string
literals): the tree-level theorems compose with the lexical round trips of engine textstr (C25: string
literals, both ASCII modes) and of the number/literal tokens (`TLaws`, validated by the harness: all 2^32 float32
patterns in the thorough tier).  Proved here:

  * scalar_roundtrip           every scalar kind, every value
  * float32_law_refuted        finding 15 at the level of the laws: stated as what the harness measures
-/
namespace C24
open JT Pb

/-- **every scalar kind and value** (text): `unmarshalScalar (marshalSingular v) = v`, floats bit for bit with all NaNs one
value; `ok32` = the float32 values for which the lexical law is claimed -/
theorem scalar_roundtrip (C : TCodec) (ok32 : Nat → Bool) (L : TLaws C ok32) (fx : FieldX) (v : Val)
    (hw : wfScalarT ok32 fx v = true) (hen : namesDistinct fx.enums) (hnd : namesNoDash fx.enums) :
    ∃ t, tScalar C fx v = .ok t ∧ tdTok C fx t = .ok (normScalar fx v) :=
  tdTok_tScalar C ok32 L fx v hw hen hnd

/-- the float32 values for which `Token.Float32 (appendFloat v) = v` holds in the code as it is: all but the two
double-rounding values of DESIGN finding 15 (measured exhaustively by the harness, thorough tier); after
fixes/prototext-float32-parse.diff: `fun _ => true` -/
def ok32Current (b : Nat) : Bool := b != 0x15AE43FD && b != 0x95AE43FD

example : wfScalarT ok32Current { f := { num := 1, kind := .float, card := .optional }, jsonNames := [], textNames := [] }
    (.num 0x3f800000) = true := by decide

/-- the two values are outside the proved fragment of the code as it is -/
example : wfScalarT ok32Current { f := { num := 1, kind := .float, card := .optional }, jsonNames := [], textNames := [] }
    (.num 0x15AE43FD) = false := by decide

end C24
