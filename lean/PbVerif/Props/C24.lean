import PbVerif.Lemmas.JsonTextRoundTM2
/-
C24 — prototext round-trips every message (tree level; Model/JsonText.lean).

Full statement (DESIGN §6):
    fromText_toText : WFMsg m → fromText S mi (toText S mi m) = ok (dropUnknown (canon m))
for every Multiline / Indent / EmitASCII setting.  None of the three exists at tree level: Multiline/Indent change
the whitespace between tokens, EmitASCII the escaping inside string literals.  The tree-level theorem composes with
the lexical round trips proved elsewhere — string literals in both ASCII modes: engine textstr (C25); number and
literal tokens, float formatting: the hypothesis `TLaws` (never an axiom), validated by the harness (all 2^32
float32 patterns in the thorough tier: since /repo e864d0a, the repair of DESIGN finding 15, `Token.Float32`
parses at float32 precision and the float32 law holds for EVERY bit pattern); they are NOT reproved here.

PROVED (`…_partial`): for ALL schemas, messages and limits in the fragment `RepMsgTM allF32` (every float32 value):
  singular scalars of every kind (bool literals, integers, enums by name or by number, strings — valid UTF-8 only
  where the field enforces it —, bytes, float/double bit for bit incl. nan, inf and -inf with all NaNs one value),
  presence disciplines, repeated fields printed as repeated `name: value` and re-appended, nested messages and
  groups to any depth ≤ RecursionLimit, oneofs (seenOneofs), extensions (`[full.name]`), duplicate detection
  (seenNums) never firing on the encoder's output, unknown fields dropped;
  populated MAP fields: entries printed as `name: {key: k value: v}` in key order (`GenericKeyOrder`), each
  re-inserted by `unmarshalMap`/`unmarshalMapEntry` (distinct keys: every `mmap.Set` appends), the extra recursion
  level of `unmarshalMap` (a map field needs `1 ≤ limit` where it stands and its values see `limit - 1`), result =
  the key-sorted normal form.

OUTSIDE the fragment (covered by the implementation-level check of the harness only):
  * expanded google.protobuf.Any, MessageSets, EmitUnknown, required-field checking (AllowPartial);
  * messages nested deeper than the decoder's RecursionLimit (Marshal has no limit).
-/
namespace C24
open JT Pb

/-- the float32 law is claimed for every bit pattern (the lemma files are parametric in the set of float32 values
for which `Token.Float32 (appendFloat v) = v` is assumed; since /repo e864d0a that is all of them) -/
abbrev allF32 : Nat → Bool := fun _ => true

/-- **every scalar kind and value** (text): `unmarshalScalar (marshalSingular v) = v`, floats bit for bit with all NaNs
one value -/
theorem scalar_roundtrip (C : TCodec) (L : TLaws C allF32) (fx : FieldX) (v : Val)
    (hw : wfScalarT allF32 fx v = true) (hen : namesDistinct fx.enums) (hnd : namesNoDash fx.enums) :
    ∃ t, tScalar C fx v = .ok t ∧ tdTok C fx t = .ok (normScalar fx v) :=
  tdTok_tScalar C allF32 L fx v hw hen hnd

/-- every float32 bit pattern is inside the fragment — the two values of the former finding 15 included -/
example : wfScalarT allF32 { f := { num := 1, kind := .float, card := .optional }, jsonNames := [], textNames := [] }
    (.num 0x15AE43FD) = true := by decide

/-- **`fromText_toText_partial`**: for every schema (hypotheses `SchemaT`), every decoder option record, every limit
and every message of the fragment: `Unmarshal(Marshal(m))` succeeds and yields `m` without unknown fields, floats
bit for bit (NaNs as one value), every float32 value included -/
theorem fromText_toText_partial (C : TCodec) (L : TLaws C allF32) (D : DOpts) (X : SchemaX)
    (hS : SchemaT X) (mi : Nat) (limit : Int) (m : Msg) (hrep : RepMsgTM allF32 X mi limit m) :
    ∃ tfs, toText C X mi m = .ok tfs ∧ fromText C D X mi limit tfs = .ok (normMsg X mi m) :=
  rtTM_msg C D X allF32 hS L m mi limit hrep

/-! ### HISTORICAL regression example (code before /repo e864d0a; DESIGN finding 15, now fixed)

`Token.Float32` parsed the literal with `strconv.ParseFloat(s, 64)` and narrowed, which rounds twice: of all
2^32 patterns exactly 0x15AE43FD and 0x95AE43FD (`±7.038531e-26`) came back one ulp off.  The theorems then
excluded these two values (`old_ok32`).  Nothing here is about the current code; the harness replays the two
values on every run, sweeps all 2^32 in the thorough tier, and reports a regression under the signature
`prototext-float32-double-rounding`. -/
namespace Old

/-- the float32 values for which the law held before the repair -/
def old_ok32 (b : Nat) : Bool := b != 0x15AE43FD && b != 0x95AE43FD

/-- the two values were outside the fragment the old theorem covered … -/
theorem old_excluded : wfScalarT old_ok32 { f := { num := 1, kind := .float, card := .optional }, jsonNames := [], textNames := [] }
    (.num 0x15AE43FD) = false ∧
    wfScalarT old_ok32 { f := { num := 1, kind := .float, card := .optional }, jsonNames := [], textNames := [] }
    (.num 0x95AE43FD) = false := by decide

/-- … and the old fragment is inside the present one: nothing that was covered is lost -/
theorem old_fragment_covered (fx : FieldX) (v : Val) (h : wfScalarT old_ok32 fx v = true) :
    wfScalarT allF32 fx v = true := by
  cases v with
  | msg m => simp [wfScalarT] at h
  | bytes b => simpa [wfScalarT] using h
  | num n =>
    unfold wfScalarT at h ⊢
    cases hk : fx.f.kind <;> simp only [hk] at h ⊢ <;> simp_all

end Old

/-- the hypotheses are satisfiable by a non-trivial message: `{1: 1.0f, 3: [7, 7]}` -/
def exSchema : SchemaX :=
  { msgs := [
      { fields := [
          { f := { num := 1, kind := .float, card := .optional }, jsonNames := [ascii ['a']], textNames := [ascii ['a']], presence := true },
          { f := { num := 3, kind := .uint32, card := .repeated }, jsonNames := [ascii ['r']], textNames := [ascii ['r']] }] }] }

def exMsg : Msg :=
  .mk (.cons 1 (.one (.num 0x3f800000)) (.cons 3 (.many (.cons (.num 7) (.cons (.num 7) .nil))) .nil)) []

theorem oneofExcl_of_none (d : MsgX) (fs : Fields) (h : ∀ fx ∈ d.fields, fx.oneofIdx = none) : OneofExcl d fs := by
  intro a b fa fb o _ _ h3 _ h5 _
  have := h fa (find_mem h3).1
  rw [this] at h5
  cases h5

example : RepMsgTM allF32 exSchema 0 100 exMsg := by
  have e0 : OneofExcl (exSchema.msg 0) (.cons 1 (.one (.num 0x3f800000)) (.cons 3 (.many (.cons (.num 7) (.cons (.num 7) .nil))) .nil)) :=
    oneofExcl_of_none _ _ (by decide)
  have v1 : wfScalarT allF32 { f := { num := 1, kind := .float, card := .optional }, jsonNames := [ascii ['a']], textNames := [ascii ['a']], presence := true } (.num 0x3f800000) = true := by decide
  have v7 : wfScalarT allF32 { f := { num := 3, kind := .uint32, card := .repeated }, jsonNames := [ascii ['r']], textNames := [ascii ['r']] } (.num 7) = true := by decide
  exact ⟨by decide, rfl, rfl, e0, by decide, ⟨by decide, by decide, v1, by decide⟩, by decide,
    ⟨rfl, Or.inl ⟨rfl, v7, v7, trivial⟩⟩, trivial⟩


/-- … and by a message with a populated map field: `{5: {3 ↦ "x"}}` -/
def exSchemaM : SchemaX :=
  { msgs := [
      { fields := [
          { f := { num := 5, kind := .message, card := .map, sub := 1 }, jsonNames := [ascii ['m']], textNames := [ascii ['m']] }] },
      { fields := [
          { f := { num := 1, kind := .int32, card := .optional }, jsonNames := [sKey], textNames := [sKey], presence := true },
          { f := { num := 2, kind := .string, card := .optional }, jsonNames := [sValue], textNames := [sValue], presence := true }] }] }

def exMsgM : Msg :=
  .mk (.cons 5 (.many (.cons (.msg (.mk (.cons 1 (.one (.num 3)) (.cons 2 (.one (.bytes (ascii ['x']))) .nil)) [])) .nil)) .nil) []

example : RepMsgTM allF32 exSchemaM 0 100 exMsgM := by
  have e0 : OneofExcl (exSchemaM.msg 0) (.cons 5 (.many (.cons (.msg (.mk (.cons 1 (.one (.num 3)) (.cons 2 (.one (.bytes (ascii ['x']))) .nil)) [])) .nil)) .nil) :=
    oneofExcl_of_none _ _ (by decide)
  have vk : wfScalarT allF32 { f := { num := 1, kind := .int32, card := .optional }, jsonNames := [sKey], textNames := [sKey], presence := true } (.num 3) = true := by decide
  have vv : wfScalarT allF32 { f := { num := 2, kind := .string, card := .optional }, jsonNames := [sValue], textNames := [sValue], presence := true } (.bytes (ascii ['x'])) = true := by decide
  exact ⟨by decide, rfl, rfl, e0, by decide, ⟨rfl, Or.inr ⟨rfl, by decide, ⟨rfl, rfl, rfl, rfl, vk, vv⟩, trivial⟩⟩, trivial⟩

end C24
