import PbVerif.Model.JsonLex
import PbVerif.Lemmas.JsonLexNumber
import PbVerif.Lemmas.JsonLexInt
import PbVerif.Lemmas.JsonLexQuoted
/-
C22 — JSON scalar values decode exactly (integers).

Statements are about `JsonLex.*` (Model/JsonLex.lean): `parseNumberParts`, `normalizeToIntString`,
`Token.Int/Uint` (`tokenInt/tokenUint`) and `unmarshalInt/unmarshalUint` of protojson, mirrored from
the Go code and tied to it by the `jsonlex` harness (math/big oracle).  Values are exact: an RFC 8259
number literal `[-] int [.frac] [e exp]` denotes `±(int.frac)·10^exp` with `exp` an integer of any
size (`LitValue`, stated without division).  Floats are not modelled (Lean's `Float` is opaque to the
kernel; `strconv.ParseFloat` is tied by the harness against math/big correct rounding only).
-/
namespace C22
open JsonLex JsonLex.RFC

/-! ## normalizeToIntString -/

/-- **normalize_iff.**  For well-formed parts (what `parseNumberParts` produces) and any integer `v`:
`normalizeToIntString` returns a decimal spelling of `v` (optional `-`, digits, possibly leading zeros)
iff `v` is the value `±intp.frac·10^exp` of the parts **and** the code's size guards hold
(`PartsGuard`: unless intp and frac are both empty, `exp` fits an int32 and, when `exp ≥ 0`,
`len(intp) + exp ≤ 20`).  In particular it fails on every non-integral value. -/
theorem normalize_iff (p : NumberParts) (hwf : PartsWF p) (v : Int) :
    (∃ s, normalizeToIntString p = some s ∧ SpellsInt s v) ↔ PartsValue p v ∧ PartsGuard p :=
  JsonLex.normalize_iff p hwf v

/-- guarded direction on its own (`…_partial` of DESIGN.md §6 C22) -/
theorem normalize_partial (p : NumberParts) (hwf : PartsWF p) (v : Int) (hv : PartsValue p v) (hg : PartsGuard p) :
    ∃ s, normalizeToIntString p = some s ∧ SpellsInt s v :=
  (normalize_iff p hwf v).2 ⟨hv, hg⟩

/-- non-integral values are rejected whatever the guard says -/
theorem normalize_none_of_nonintegral (p : NumberParts) (hwf : PartsWF p) (h : ¬ ∃ v, PartsValue p v) :
    normalizeToIntString p = none := by
  cases hn : normalizeToIntString p with
  | none => rfl
  | some s =>
    have := normalize_core p hwf
    rw [hn] at this
    obtain ⟨v, hv, _, _⟩ := this
    exact absurd ⟨v, hv⟩ h

/-- the parts of `0.000001e21` -/
def witness19 : NumberParts :=
  { neg := false, intp := [], frac := [0x30#8, 0x30#8, 0x30#8, 0x30#8, 0x30#8, 0x31#8], exp := [0x32#8, 0x31#8] }

theorem witness19_wf : PartsWF witness19 := by
  refine ⟨by simp [witness19, AllDigits], by simp [witness19], ?_, ?_, ?_⟩
  · intro d hd; simp [witness19] at hd; rcases hd with rfl | rfl <;> decide
  · intro a d h
    have : (witness19.frac).getLast? = some d := by rw [h]; simp
    simp [witness19] at this; rw [← this]; decide
  · exact ExpStr.some [] [0x32#8, 0x31#8] SignOpt.none (by simp) (by
      intro d hd; simp at hd; rcases hd with rfl | rfl <;> decide)

theorem witness19_value : PartsValue witness19 1000000000000000 := by
  unfold PartsValue
  have hk : (0 : Int) ≤ partsK witness19 := by decide
  rw [decValue_nonneg hk]; decide

/- FULL (unguarded) STATEMENT — *false of the current code* (DESIGN.md finding 19):
     PartsWF p → PartsValue p v → ∃ s, normalizeToIntString p = some s ∧ SpellsInt s v            -/

/-- The unguarded statement is false: the parts of `0.000001e21` have the integer value 10^15 but
`normalizeToIntString` rejects them (`intpSize + exp = 0 + 21 > 20`; the guard ignores that the
fraction starts with five zeros). -/
theorem normalize_unguarded_false :
    ¬ (∀ (p : NumberParts) (v : Int), PartsWF p → PartsValue p v →
        ∃ s, normalizeToIntString p = some s ∧ SpellsInt s v) := by
  intro h
  obtain ⟨s, hs, _⟩ := h witness19 _ witness19_wf witness19_value
  have hnone : normalizeToIntString witness19 = none := by decide
  rw [hnone] at hs; cases hs

/-! ## Integer fields: number tokens -/

/-- `raw` is an RFC 8259 number literal and denotes the integer `v` -/
def Denotes (raw : Bytes) (v : Int) : Prop :=
  ∃ m i f e, raw = m ++ (i ++ (f ++ e)) ∧ MinusOpt m ∧ IntPart i ∧ FracOpt f ∧ ExpOpt e ∧ LitValue m i f e v

theorem intLit_denotes {raw : Bytes} {v : Int} (h : IntLit raw v) : Denotes raw v := by
  obtain ⟨m, i, f, e, h1, hm, hi, hf, he, hv, _⟩ := h
  exact ⟨m, i, f, e, h1, hm, hi, hf, he, hv⟩

/-- **int_accept (signed, number token).**  For a token whose raw bytes are an RFC 8259 number:
`Token.Int(bits)` returns `v` iff the literal denotes the integer `v`, the size guards hold
(`IntLit` = `Denotes` ∧ `LitGuard`) and `-2^(bits-1) ≤ v < 2^(bits-1)`.  Non-integral literals and
out-of-range values are rejected (`int_reject`). -/
theorem int_accept (bits : Nat) (raw : Bytes) (hnum : Number raw) (v : Int) :
    unmarshalInt bits (.number raw) = some v ↔
      IntLit raw v ∧ -((2 : Int) ^ (bits - 1)) ≤ v ∧ v < (2 : Int) ^ (bits - 1) :=
  tokenInt_iff bits raw hnum v

/-- **int_accept (unsigned, number token)**: `Token.Uint(bits)` returns `n` iff the literal denotes
`n` (so `-0`, `-0.0e5` give 0 and every other negative literal is rejected), the guards hold and `n < 2^bits`. -/
theorem uint_accept (bits : Nat) (raw : Bytes) (hnum : Number raw) (n : Nat) :
    unmarshalUint bits (.number raw) = some n ↔ IntLit raw (n : Int) ∧ (n : Int) < (2 : Int) ^ bits :=
  tokenUint_iff bits raw hnum n

/-- the hypothesis is satisfiable by a non-trivial literal: `1.0e+2` is an RFC number and denotes 100 -/
example : Number [0x31#8, 0x2e#8, 0x30#8, 0x65#8, 0x2b#8, 0x32#8] ∧
    unmarshalInt 32 (.number [0x31#8, 0x2e#8, 0x30#8, 0x65#8, 0x2b#8, 0x32#8]) = some 100 := by
  refine ⟨?_, by decide⟩
  exact Number.mk [] [0x31#8] [0x2e#8, 0x30#8] [0x65#8, 0x2b#8, 0x32#8] MinusOpt.none
    (IntPart.nonzero _ [] (by decide) (by intro d hd; cases hd))
    (FracOpt.some _ [] (by decide) (by intro d hd; cases hd))
    (ExpOpt.some 0x65#8 [0x2b#8] 0x32#8 [] (Or.inl rfl) SignOpt.plus (by decide) (by intro d hd; cases hd))

theorem int32_accept (raw : Bytes) (hnum : Number raw) (v : Int) :
    unmarshalInt 32 (.number raw) = some v ↔ IntLit raw v ∧ -2147483648 ≤ v ∧ v ≤ 2147483647 := by
  rw [int_accept 32 raw hnum v]; constructor <;> rintro ⟨h1, h2, h3⟩ <;> exact ⟨h1, by omega, by omega⟩

theorem int64_accept (raw : Bytes) (hnum : Number raw) (v : Int) :
    unmarshalInt 64 (.number raw) = some v ↔
      IntLit raw v ∧ -9223372036854775808 ≤ v ∧ v ≤ 9223372036854775807 := by
  rw [int_accept 64 raw hnum v]; constructor <;> rintro ⟨h1, h2, h3⟩ <;> exact ⟨h1, by omega, by omega⟩

theorem uint32_accept (raw : Bytes) (hnum : Number raw) (n : Nat) :
    unmarshalUint 32 (.number raw) = some n ↔ IntLit raw (n : Int) ∧ n ≤ 4294967295 := by
  rw [uint_accept 32 raw hnum n]; constructor <;> rintro ⟨h1, h2⟩ <;> exact ⟨h1, by omega⟩

theorem uint64_accept (raw : Bytes) (hnum : Number raw) (n : Nat) :
    unmarshalUint 64 (.number raw) = some n ↔ IntLit raw (n : Int) ∧ n ≤ 18446744073709551615 := by
  rw [uint_accept 64 raw hnum n]; constructor <;> rintro ⟨h1, h2⟩ <;> exact ⟨h1, by omega⟩

/-- what is not an in-range integer is rejected -/
theorem int_reject (bits : Nat) (raw : Bytes) (hnum : Number raw)
    (h : ¬ ∃ v, Denotes raw v ∧ -((2 : Int) ^ (bits - 1)) ≤ v ∧ v < (2 : Int) ^ (bits - 1)) :
    unmarshalInt bits (.number raw) = none := by
  cases hr : unmarshalInt bits (.number raw) with
  | none => rfl
  | some v =>
    obtain ⟨h1, h2⟩ := (int_accept bits raw hnum v).1 hr
    exact absurd ⟨v, intLit_denotes h1, h2⟩ h

/-- the value is unique: two results for the same literal agree -/
theorem denotes_unique {raw : Bytes} {v w : Int} (hv : IntLit raw v) (hw : IntLit raw w) : v = w := by
  obtain ⟨m, i, f, e, rfl, hm, hi, hf, he, hvv, hg⟩ := hv
  have hc := getIntStr_core hm hi hf he
  cases hgs : getIntStr (m ++ (i ++ (f ++ e))) with
  | none => rw [hgs] at hc; exact absurd ⟨v, hvv, hg⟩ hc
  | some s =>
    rw [hgs] at hc
    obtain ⟨u, hu, _, hs⟩ := hc
    have e1 : u = v := DecValue.unique hu hvv
    obtain ⟨m', i', f', e', heq, hm', hi', hf', he', hww, hg'⟩ := hw
    have hc' := getIntStr_core hm' hi' hf' he'
    rw [← heq, hgs] at hc'
    obtain ⟨u', hu', _, hs'⟩ := hc'
    have e2 : u' = w := DecValue.unique hu' hww
    rw [← e1, ← e2]; exact hs.unique hs'

/- FULL STATEMENT for *every token the decoder produces* (`∃ rest, parseNumber (raw ++ rest) = some raw.length`
   instead of `Number raw`) — false of the current code (DESIGN.md finding 4b).                    -/

/-- `1e` followed by `}` is made a Number token and `Token.Int(32)` returns 1 for it, but `1e` is not
an RFC number (so it denotes nothing). -/
theorem int_accept_token_false :
    ¬ (∀ (raw rest : Bytes) (v : Int), parseNumber (raw ++ rest) = some raw.length →
        unmarshalInt 32 (.number raw) = some v → Number raw) := by
  intro h
  have h1 := h [0x31#8, 0x65#8] [0x7d#8] 1 (by decide) (by decide)
  have h2 := (JsonLex.parseNumberFixed_exact [0x31#8, 0x65#8] 2).2 ⟨_, [], by simp, rfl, DelimOK.nil, h1⟩
  revert h2; decide

/- FULL (unguarded) STATEMENT — false of the current code (DESIGN.md finding 19):
     Denotes raw v → -2^63 ≤ v < 2^63 → unmarshalInt 64 (.number raw) = some v                    -/

/-- `0.000001e21` -/
def lit19 : Bytes := [0x30#8, 0x2e#8, 0x30#8, 0x30#8, 0x30#8, 0x30#8, 0x30#8, 0x31#8, 0x65#8, 0x32#8, 0x31#8]

theorem lit19_denotes : Denotes lit19 1000000000000000 := by
  refine ⟨[], [0x30#8], [0x2e#8, 0x30#8, 0x30#8, 0x30#8, 0x30#8, 0x30#8, 0x31#8], [0x65#8, 0x32#8, 0x31#8], rfl,
    MinusOpt.none, IntPart.zero, ?_, ?_, ?_⟩
  · exact FracOpt.some _ _ (by decide) (by intro d hd; simp at hd; rcases hd with rfl | rfl <;> decide)
  · exact ExpOpt.some 0x65#8 [] 0x32#8 [0x31#8] (Or.inl rfl) SignOpt.none (by decide)
      (by intro d hd; simp at hd; subst hd; decide)
  · unfold LitValue
    have hk : (0 : Int) ≤ expInt (List.drop 1 [0x65#8, 0x32#8, 0x31#8]) -
        ((List.drop 1 [0x2e#8, 0x30#8, 0x30#8, 0x30#8, 0x30#8, 0x30#8, 0x31#8]).length : Int) := by decide
    rw [decValue_nonneg hk]; decide

theorem int_unguarded_false :
    ¬ (∀ (raw : Bytes) (v : Int), Denotes raw v → -((2 : Int) ^ 63) ≤ v → v < (2 : Int) ^ 63 →
        unmarshalInt 64 (.number raw) = some v) := by
  intro h
  have := h lit19 _ lit19_denotes (by decide) (by decide)
  revert this; decide

/-! ## Integer fields: quoted numbers -/

/-- the explicit `strings.TrimSpace` comparison is implied by the rest of the check -/
theorem quoted_trim_redundant (s : Bytes) (h : Number s) : trimSpaceUnchanged s = true := by
  obtain ⟨c, t, rfl, hc⟩ := number_head h
  obtain ⟨a, l, hal, hl⟩ := number_last_digit h
  exact trimSpaceUnchanged_of_number hal hc hl

/-- **int_accept (signed, quoted).**  A JSON string with content `s` is accepted for a signed integer
field and yields `v` iff `s` is — from its first to its last byte, no surrounding or inner space —
an RFC 8259 number that denotes `v`, the guards hold and `v` is in range.  (No hypothesis: the
dangling-exponent forms of finding 4 cannot occur at the end of input.) -/
theorem int_accept_quoted (bits : Nat) (s : Bytes) (v : Int) :
    unmarshalInt bits (.string s) = some v ↔
      IntLit s v ∧ -((2 : Int) ^ (bits - 1)) ≤ v ∧ v < (2 : Int) ^ (bits - 1) := by
  simp only [unmarshalInt]
  constructor
  · intro h
    cases hq : quotedNumber s with
    | none => rw [hq] at h; simp at h
    | some raw =>
      rw [hq] at h
      obtain ⟨rfl, hnum⟩ := (quotedNumber_iff s raw).1 hq
      exact (tokenInt_iff bits raw hnum v).1 h
  · rintro ⟨hl, hr⟩
    have hq := (quotedNumber_iff s s).2 ⟨rfl, hl.number⟩
    rw [hq]
    exact (tokenInt_iff bits s hl.number v).2 ⟨hl, hr⟩

/-- **int_accept (unsigned, quoted)** -/
theorem uint_accept_quoted (bits : Nat) (s : Bytes) (n : Nat) :
    unmarshalUint bits (.string s) = some n ↔ IntLit s (n : Int) ∧ (n : Int) < (2 : Int) ^ bits := by
  simp only [unmarshalUint]
  constructor
  · intro h
    cases hq : quotedNumber s with
    | none => rw [hq] at h; simp at h
    | some raw =>
      rw [hq] at h
      obtain ⟨rfl, hnum⟩ := (quotedNumber_iff s raw).1 hq
      exact (tokenUint_iff bits raw hnum n).1 h
  · rintro ⟨hl, hr⟩
    have hq := (quotedNumber_iff s s).2 ⟨rfl, hl.number⟩
    rw [hq]
    exact (tokenUint_iff bits s hl.number n).2 ⟨hl, hr⟩

/-- tokens that are neither numbers nor strings are rejected -/
theorem int_reject_other (bits : Nat) : unmarshalInt bits .other = none ∧ unmarshalUint bits .other = none :=
  ⟨rfl, rfl⟩

/-- quoted content with surrounding space is rejected -/
example : unmarshalInt 32 (.string [0x20#8, 0x31#8]) = none ∧ unmarshalInt 32 (.string [0x31#8, 0x20#8]) = none ∧
    unmarshalInt 32 (.string [0x31#8]) = some 1 := by decide

/-- the forms the property statement names: `1e2`, `100.0`, `1.0e+2`, `0.1e1`, `12345e-2` (not integral) -/
example : unmarshalInt 32 (.number [0x31#8, 0x65#8, 0x32#8]) = some 100 ∧
    unmarshalInt 32 (.number [0x31#8, 0x30#8, 0x30#8, 0x2e#8, 0x30#8]) = some 100 ∧
    unmarshalInt 32 (.number [0x31#8, 0x2e#8, 0x30#8, 0x65#8, 0x2b#8, 0x32#8]) = some 100 ∧
    unmarshalInt 32 (.number [0x30#8, 0x2e#8, 0x31#8, 0x65#8, 0x31#8]) = some 1 ∧
    unmarshalInt 32 (.number [0x31#8, 0x32#8, 0x33#8, 0x34#8, 0x35#8, 0x65#8, 0x2d#8, 0x32#8]) = none := by decide

end C22
