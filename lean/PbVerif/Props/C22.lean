import PbVerif.Model.JsonLex
import PbVerif.Lemmas.JsonLexNumber
import PbVerif.Lemmas.JsonLexInt
import PbVerif.Lemmas.JsonLexQuoted
/-
C22 — JSON scalar values decode exactly (integers).

Statements are about `JsonLex.*` (Model/JsonLex.lean): `parseNumberParts`, `normalizeToIntString`,
`Token.Int/Uint` (`tokenInt/tokenUint`) and `unmarshalInt/unmarshalUint` of protojson, mirrored from
the Go code and tied to it by the `jsonlex` harness (math/big oracle).  Values are exact: an RFC 8259
number literal `[-] int [.frac] [e exp]` denotes `±(int.frac)·10^exp` with `exp` an integer of any
size (`LitValue`, stated without division).  Floats are not modelled (Lean's `Float` is opaque to the
kernel; `strconv.ParseFloat` is tied by the harness against math/big correct rounding only).
-/
namespace C22
open JsonLex JsonLex.RFC

/-! ## normalizeToIntString -/

/-- **normalize_iff.**  For well-formed parts (what `parseNumberParts` produces) and any integer `v`:
`normalizeToIntString` returns a decimal spelling of `v` (optional `-`, digits, possibly leading zeros)
iff `v` is the value `±intp.frac·10^exp` of the parts **and** the code's size guards hold
(`PartsGuard`: unless intp and frac are both empty, `exp` fits an int32 and, when `exp ≥ 0`,
`len(intp) + exp - lead ≤ 20`, `lead` = leading zeros of the fraction when there is no integer part —
i.e. the result has at most 20 digits).  In particular it fails on every non-integral value.
`normalize_of_small` shows that the digit guard never fires on a value below 10^20. -/
theorem normalize_iff (p : NumberParts) (hwf : PartsWF p) (v : Int) :
    (∃ s, normalizeToIntString p = some s ∧ SpellsInt s v) ↔ PartsValue p v ∧ PartsGuard p :=
  JsonLex.normalize_iff p hwf v

/-- guarded direction on its own (`…_partial` of DESIGN.md §6 C22) -/
theorem normalize_partial (p : NumberParts) (hwf : PartsWF p) (v : Int) (hv : PartsValue p v) (hg : PartsGuard p) :
    ∃ s, normalizeToIntString p = some s ∧ SpellsInt s v :=
  (normalize_iff p hwf v).2 ⟨hv, hg⟩

/-- non-integral values are rejected whatever the guard says -/
theorem normalize_none_of_nonintegral (p : NumberParts) (hwf : PartsWF p) (h : ¬ ∃ v, PartsValue p v) :
    normalizeToIntString p = none := by
  cases hn : normalizeToIntString p with
  | none => rfl
  | some s =>
    have := normalize_core p hwf
    rw [hn] at this
    obtain ⟨v, hv, _, _⟩ := this
    exact absurd ⟨v, hv⟩ h

/-- **The digit guard is harmless** (DESIGN.md finding 19, repaired by repo commit 265c3c0): every
integer value below 10^20 — in particular every value of an integer field — is returned, provided
the exponent fits an int32 (or the mantissa is empty). -/
theorem normalize_of_small (p : NumberParts) (hwf : PartsWF p) (v : Int) (hv : PartsValue p v)
    (hsmall : v.natAbs < 10 ^ 20) (hg : PartsExpGuard p) :
    ∃ s, normalizeToIntString p = some s ∧ SpellsInt s v :=
  normalize_partial p hwf v hv (partsGuard_of_small hwf hv hsmall hg)

/-- the parts of `0.000001e21` (the former finding 19): now converted to 10^15 -/
example : normalizeToIntString
    { neg := false, intp := [], frac := [0x30#8, 0x30#8, 0x30#8, 0x30#8, 0x30#8, 0x31#8], exp := [0x32#8, 0x31#8] } =
    some [0x31#8, 0x30#8, 0x30#8, 0x30#8, 0x30#8, 0x30#8, 0x30#8, 0x30#8, 0x30#8, 0x30#8, 0x30#8, 0x30#8, 0x30#8,
      0x30#8, 0x30#8, 0x30#8] := by decide

/-! ## Integer fields: number tokens -/

/-- `raw` is an RFC 8259 number literal and denotes the integer `v` -/
def Denotes (raw : Bytes) (v : Int) : Prop :=
  ∃ m i f e, raw = m ++ (i ++ (f ++ e)) ∧ MinusOpt m ∧ IntPart i ∧ FracOpt f ∧ ExpOpt e ∧ LitValue m i f e v

theorem intLit_denotes {raw : Bytes} {v : Int} (h : IntLit raw v) : Denotes raw v := by
  obtain ⟨m, i, f, e, h1, hm, hi, hf, he, hv, _⟩ := h
  exact ⟨m, i, f, e, h1, hm, hi, hf, he, hv⟩

/-- **int_accept (signed, number token).**  For a token whose raw bytes are an RFC 8259 number:
`Token.Int(bits)` returns `v` iff the literal denotes the integer `v` (`IntLit` = `Denotes` ∧ `ExpGuard`:
the exponent fits an int32 unless the literal is a zero — this only concerns literals longer than 2^31
bytes) and `-2^(bits-1) ≤ v < 2^(bits-1)`.  Non-integral literals and out-of-range values are rejected
(`int_reject`).  Every Number token the decoder makes satisfies `hnum` (`C21.parseNumber_sound`). -/
theorem int_accept (bits : Nat) (hb : bits ≤ 64) (raw : Bytes) (hnum : Number raw) (v : Int) :
    unmarshalInt bits (.number raw) = some v ↔
      IntLit raw v ∧ -((2 : Int) ^ (bits - 1)) ≤ v ∧ v < (2 : Int) ^ (bits - 1) :=
  tokenInt_iff bits hb raw hnum v

/-- **int_accept (unsigned, number token)**: `Token.Uint(bits)` returns `n` iff the literal denotes
`n` (so `-0`, `-0.0e5` give 0 and every other negative literal is rejected) and `n < 2^bits`. -/
theorem uint_accept (bits : Nat) (hb : bits ≤ 64) (raw : Bytes) (hnum : Number raw) (n : Nat) :
    unmarshalUint bits (.number raw) = some n ↔ IntLit raw (n : Int) ∧ (n : Int) < (2 : Int) ^ bits :=
  tokenUint_iff bits hb raw hnum n

/-- the hypothesis is satisfiable by a non-trivial literal: `1.0e+2` is an RFC number and denotes 100 -/
example : Number [0x31#8, 0x2e#8, 0x30#8, 0x65#8, 0x2b#8, 0x32#8] ∧
    unmarshalInt 32 (.number [0x31#8, 0x2e#8, 0x30#8, 0x65#8, 0x2b#8, 0x32#8]) = some 100 := by
  refine ⟨?_, by decide⟩
  exact Number.mk [] [0x31#8] [0x2e#8, 0x30#8] [0x65#8, 0x2b#8, 0x32#8] MinusOpt.none
    (IntPart.nonzero _ [] (by decide) (by intro d hd; cases hd))
    (FracOpt.some _ [] (by decide) (by intro d hd; cases hd))
    (ExpOpt.some 0x65#8 [0x2b#8] 0x32#8 [] (Or.inl rfl) SignOpt.plus (by decide) (by intro d hd; cases hd))

theorem int32_accept (raw : Bytes) (hnum : Number raw) (v : Int) :
    unmarshalInt 32 (.number raw) = some v ↔ IntLit raw v ∧ -2147483648 ≤ v ∧ v ≤ 2147483647 := by
  rw [int_accept 32 (by decide) raw hnum v]; constructor <;> rintro ⟨h1, h2, h3⟩ <;> exact ⟨h1, by omega, by omega⟩

theorem int64_accept (raw : Bytes) (hnum : Number raw) (v : Int) :
    unmarshalInt 64 (.number raw) = some v ↔
      IntLit raw v ∧ -9223372036854775808 ≤ v ∧ v ≤ 9223372036854775807 := by
  rw [int_accept 64 (by decide) raw hnum v]; constructor <;> rintro ⟨h1, h2, h3⟩ <;> exact ⟨h1, by omega, by omega⟩

theorem uint32_accept (raw : Bytes) (hnum : Number raw) (n : Nat) :
    unmarshalUint 32 (.number raw) = some n ↔ IntLit raw (n : Int) ∧ n ≤ 4294967295 := by
  rw [uint_accept 32 (by decide) raw hnum n]; constructor <;> rintro ⟨h1, h2⟩ <;> exact ⟨h1, by omega⟩

theorem uint64_accept (raw : Bytes) (hnum : Number raw) (n : Nat) :
    unmarshalUint 64 (.number raw) = some n ↔ IntLit raw (n : Int) ∧ n ≤ 18446744073709551615 := by
  rw [uint_accept 64 (by decide) raw hnum n]; constructor <;> rintro ⟨h1, h2⟩ <;> exact ⟨h1, by omega⟩

/-- what is not an in-range integer is rejected -/
theorem int_reject (bits : Nat) (hb : bits ≤ 64) (raw : Bytes) (hnum : Number raw)
    (h : ¬ ∃ v, Denotes raw v ∧ -((2 : Int) ^ (bits - 1)) ≤ v ∧ v < (2 : Int) ^ (bits - 1)) :
    unmarshalInt bits (.number raw) = none := by
  cases hr : unmarshalInt bits (.number raw) with
  | none => rfl
  | some v =>
    obtain ⟨h1, h2⟩ := (int_accept bits hb raw hnum v).1 hr
    exact absurd ⟨v, intLit_denotes h1, h2⟩ h

/-- the value is unique: two results for the same literal agree -/
theorem denotes_unique {raw : Bytes} {v w : Int} (hv : IntLit raw v) (hw : IntLit raw w) : v = w := by
  obtain ⟨m, i, f, e, rfl, hm, hi, hf, he, hvv, hg⟩ := hv
  -- a value of a literal is a value of its parts whatever its size; compare through the parts
  have hnum := Number.mk m i f e hm hi hf he
  obtain ⟨m', i', f', e', heq, hm', hi', hf', he', hww, hg'⟩ := hw
  have p1 := parseNumberParts_spec hm hi hf he
  have p2 := parseNumberParts_spec hm' hi' hf' he'
  rw [heq, p2] at p1
  have hp : litParts m' i' f' e' = litParts m i f e := Option.some.inj p1
  have a := (litParts_value (m := m) (f := f) (e := e) hi v).2 hvv
  have b := (litParts_value (m := m') (f := f') (e := e') hi' w).2 hww
  rw [hp] at b
  exact PartsValue.unique a b

/-- every Number token the decoder produces is an RFC number, so `int_accept` applies to all of them
(the former finding 4b — `1e` before `}` accepted as 1 — is gone) -/
theorem int_accept_token (bits : Nat) (hb : bits ≤ 64) (raw rest : Bytes) (v : Int)
    (htok : parseNumber (raw ++ rest) = some raw.length) :
    unmarshalInt bits (.number raw) = some v ↔
      IntLit raw v ∧ -((2 : Int) ^ (bits - 1)) ≤ v ∧ v < (2 : Int) ^ (bits - 1) := by
  obtain ⟨p, r, hs, hl, _, hp⟩ := (JsonLex.parseNumber_exact _ _).1 htok
  have : p = raw := by
    have h1 := congrArg (List.take raw.length) hs
    rw [List.take_left' rfl, ← hl, List.take_left' rfl] at h1
    exact h1.symm
  subst this
  exact int_accept bits hb p hp v

/-- `1e}`: no Number token is made any more -/
example : parseNumber [0x31#8, 0x65#8, 0x7d#8] = none := by decide

/-- `0.000001e21` -/
def lit19 : Bytes := [0x30#8, 0x2e#8, 0x30#8, 0x30#8, 0x30#8, 0x30#8, 0x30#8, 0x31#8, 0x65#8, 0x32#8, 0x31#8]

/-- the former finding 19: `0.000001e21` denotes 10^15 and is accepted for 64-bit fields -/
example : unmarshalInt 64 (.number lit19) = some 1000000000000000 ∧
    unmarshalUint 64 (.number lit19) = some 1000000000000000 ∧ unmarshalInt 32 (.number lit19) = none := by decide

/-! ## Integer fields: quoted numbers -/

/-- the explicit `strings.TrimSpace` comparison is implied by the rest of the check -/
theorem quoted_trim_redundant (s : Bytes) (h : Number s) : trimSpaceUnchanged s = true := by
  obtain ⟨c, t, rfl, hc⟩ := number_head h
  obtain ⟨a, l, hal, hl⟩ := number_last_digit h
  exact trimSpaceUnchanged_of_number hal hc hl

/-- **int_accept (signed, quoted).**  A JSON string with content `s` is accepted for a signed integer
field and yields `v` iff `s` is — from its first to its last byte, no surrounding or inner space —
an RFC 8259 number that denotes `v` and `v` is in range. -/
theorem int_accept_quoted (bits : Nat) (hb : bits ≤ 64) (s : Bytes) (v : Int) :
    unmarshalInt bits (.string s) = some v ↔
      IntLit s v ∧ -((2 : Int) ^ (bits - 1)) ≤ v ∧ v < (2 : Int) ^ (bits - 1) := by
  simp only [unmarshalInt]
  constructor
  · intro h
    cases hq : quotedNumber s with
    | none => rw [hq] at h; simp at h
    | some raw =>
      rw [hq] at h
      obtain ⟨rfl, hnum⟩ := (quotedNumber_iff s raw).1 hq
      exact (tokenInt_iff bits hb raw hnum v).1 h
  · rintro ⟨hl, hr⟩
    have hq := (quotedNumber_iff s s).2 ⟨rfl, hl.number⟩
    rw [hq]
    exact (tokenInt_iff bits hb s hl.number v).2 ⟨hl, hr⟩

/-- **int_accept (unsigned, quoted)** -/
theorem uint_accept_quoted (bits : Nat) (hb : bits ≤ 64) (s : Bytes) (n : Nat) :
    unmarshalUint bits (.string s) = some n ↔ IntLit s (n : Int) ∧ (n : Int) < (2 : Int) ^ bits := by
  simp only [unmarshalUint]
  constructor
  · intro h
    cases hq : quotedNumber s with
    | none => rw [hq] at h; simp at h
    | some raw =>
      rw [hq] at h
      obtain ⟨rfl, hnum⟩ := (quotedNumber_iff s raw).1 hq
      exact (tokenUint_iff bits hb raw hnum n).1 h
  · rintro ⟨hl, hr⟩
    have hq := (quotedNumber_iff s s).2 ⟨rfl, hl.number⟩
    rw [hq]
    exact (tokenUint_iff bits hb s hl.number n).2 ⟨hl, hr⟩

/-- tokens that are neither numbers nor strings are rejected -/
theorem int_reject_other (bits : Nat) : unmarshalInt bits .other = none ∧ unmarshalUint bits .other = none :=
  ⟨rfl, rfl⟩

/-- quoted content with surrounding space is rejected -/
example : unmarshalInt 32 (.string [0x20#8, 0x31#8]) = none ∧ unmarshalInt 32 (.string [0x31#8, 0x20#8]) = none ∧
    unmarshalInt 32 (.string [0x31#8]) = some 1 := by decide

/-- the forms the property statement names: `1e2`, `100.0`, `1.0e+2`, `0.1e1`, `12345e-2` (not integral) -/
example : unmarshalInt 32 (.number [0x31#8, 0x65#8, 0x32#8]) = some 100 ∧
    unmarshalInt 32 (.number [0x31#8, 0x30#8, 0x30#8, 0x2e#8, 0x30#8]) = some 100 ∧
    unmarshalInt 32 (.number [0x31#8, 0x2e#8, 0x30#8, 0x65#8, 0x2b#8, 0x32#8]) = some 100 ∧
    unmarshalInt 32 (.number [0x30#8, 0x2e#8, 0x31#8, 0x65#8, 0x31#8]) = some 1 ∧
    unmarshalInt 32 (.number [0x31#8, 0x32#8, 0x33#8, 0x34#8, 0x35#8, 0x65#8, 0x2d#8, 0x32#8]) = none := by decide

end C22
