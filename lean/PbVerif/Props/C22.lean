import PbVerif.Model.JsonLex
namespace C22
open JsonLex
end C22
