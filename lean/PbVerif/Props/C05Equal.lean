import PbVerif.Props.C05
import PbVerif.Props.C30
import PbVerif.Props.C03Equal
/-
C05, the converse clause: messages with identical deterministic encodings are `proto.Equal`.
-/
namespace C05
open Pb
open Spec (Byte)

/-! ### a message is `proto.Equal` to its deterministic normal form -/

mutual
theorem eqMsg_det (S : Schema) : ∀ (m : Msg) (mi : Nat), wfMsg S mi m = true →
    eqMsg S mi m (detMsg S mi m) = true
  | .mk fs unk, mi, h => by
    rw [wfMsg] at h
    have hn := wfFields_nodup h
    rw [detMsg, eqMsg]
    simp only [Bool.and_eq_true, beq_iff_eq]
    refine ⟨⟨?_, ?_⟩, C30.unknownEq_refl unk⟩
    · refine eqFields_detAux S fs _ _ h (fun n fv f hg hf => ?_)
      rw [Fields.get?_sortBy _ _ (by rw [detFields_nums]; exact hn), Fields.get?_detFields, hg,
        Option.map_some, detField, hf]
    · rw [← Fields.toList_length, ← Fields.toList_length, Fields.toList_sortBy,
        (insSort_perm _ _).length_eq, detFields_toList, List.length_map]
theorem eqFields_detAux (S : Schema) : ∀ (fs R : Fields) (d : MsgD), wfFields S d fs = true →
    (∀ n fv f, fs.get? n = some fv → d.find n = some f → R.get? n = some (detFVal S f fv)) →
    eqFields S d fs R = true
  | .nil, _, _, _, _ => by rw [eqFields]
  | .cons n fv tl, R, d, h, hR => by
    rw [wfFields, Bool.and_eq_true, Bool.and_eq_true] at h
    rw [eqFields, Bool.and_eq_true]
    constructor
    · have h1 := h.1.1
      split at h1
      · rename_i f hf
        have := hR n fv f (by rw [Fields.get?_cons]; simp) hf
        simp only [hf, this]
        exact eqFVal_det S fv f h1
      · cases h1
    · refine eqFields_detAux S tl R d h.2 (fun m fv' f hg hf => hR m fv' f ?_ hf)
      rw [Fields.get?_cons]
      split
      · rename_i hnm
        subst hnm
        have := h.1.2
        rw [hg] at this
        cases this
      · exact hg
theorem eqFVal_det (S : Schema) : ∀ (fv : FVal) (f : Field), wfFVal S f fv = true →
    eqFVal S f fv (detFVal S f fv) = true
  | .one (.msg sm), f, h => by
    rw [wfFVal, wfVal] at h
    rw [detFVal, detVal, eqFVal, eqVal]
    exact eqMsg_det S sm f.sub h
  | .one (.num n), f, _ => by
    rw [detFVal, detVal_scalar S f _ rfl, eqFVal, eqVal]
    exact numEq_refl _ _
  | .one (.bytes b), f, _ => by
    rw [detFVal, detVal_scalar S f _ rfl, eqFVal, eqVal]
    exact beq_self_eq_true b
  | .many vs, f, h => by
    rw [wfFVal] at h
    by_cases hm : f.card = .map
    · simp only [hm, if_true] at h
      have hlen : ∀ kk, (Vals.sortBy (entryLess kk) (detVals S f vs)).toList.length = vs.toList.length := by
        intro kk
        rw [Vals.toList_sortBy, (insSort_perm _ _).length_eq, detVals_toList, List.length_map]
      cases hk : (S.msg f.sub).find 1 with
      | none =>
        simp only [detFVal, hm, if_true, hk]
        rw [eqFVal]
        simp only [hm, if_true, Bool.and_eq_true, beq_iff_eq]
        refine ⟨eqMapVals_detAux S vs _ f h (fun k e hl => ?_), ?_⟩
        · rw [lookupEntry_detVals S f vs h k, hl]; rfl
        · rw [detVals_toList, List.length_map]
      | some kf =>
        simp only [detFVal, hm, if_true, hk]
        rw [eqFVal]
        simp only [hm, if_true, Bool.and_eq_true, beq_iff_eq]
        refine ⟨eqMapVals_detAux S vs _ f h (fun k e hl => ?_), (hlen kf.kind).symm⟩
        rw [lookupEntry_eq_L, Vals.toList_sortBy,
          lookupEntryL_perm (insSort_perm _ _) ?_ k, ← lookupEntry_eq_L, lookupEntry_detVals S f vs h k, hl]
        · rfl
        · exact ((insSort_perm (entryLess kf.kind) (detVals S f vs).toList).pairwise_iff
            (fun hh ea eb k e1 e2 k1 k2 => hh eb ea k e2 e1 k2 k1)).mpr (keysDiffer_detVals S f vs h)
    · simp only [hm, if_false] at h
      simp only [detFVal, hm, if_false]
      rw [eqFVal]
      simp only [hm, if_false]
      exact eqVals_det S vs f h
theorem eqVals_det (S : Schema) : ∀ (vs : Vals) (f : Field), wfVals S f vs = true →
    eqVals S f vs (detVals S f vs) = true
  | .nil, _, _ => by rw [detVals, eqVals]
  | .cons (.msg sm) tl, f, h => by
    rw [wfVals, Bool.and_eq_true, wfVal] at h
    rw [detVals, detVal, eqVals, Bool.and_eq_true, eqVal]
    exact ⟨eqMsg_det S sm f.sub h.1, eqVals_det S tl f h.2⟩
  | .cons (.num n) tl, f, h => by
    rw [wfVals, Bool.and_eq_true] at h
    rw [detVals, detVal_scalar S f _ rfl, eqVals, Bool.and_eq_true, eqVal]
    exact ⟨numEq_refl _ _, eqVals_det S tl f h.2⟩
  | .cons (.bytes b) tl, f, h => by
    rw [wfVals, Bool.and_eq_true] at h
    rw [detVals, detVal_scalar S f _ rfl, eqVals, Bool.and_eq_true, eqVal]
    exact ⟨beq_self_eq_true b, eqVals_det S tl f h.2⟩
theorem eqMapVals_detAux (S : Schema) : ∀ (vs R : Vals) (f : Field), wfEntries S f.sub vs = true →
    (∀ k e, lookupEntry vs k = some e → lookupEntry R k = some (detMsg S f.sub e)) →
    eqMapVals S f.sub vs R = true
  | .nil, _, _, _, _ => by rw [eqMapVals]
  | .cons (.msg e) tl, R, f, h, hR => by
    have h0 := h
    rw [wfEntries, Bool.and_eq_true] at h
    obtain ⟨e', k, he, hk, hs, hl, hw⟩ := wfEntries_mem h0 (v := .msg e) (by simp [Vals.toList])
    cases he
    have hke : entryHasKey e k = true := (entryHasKey_iff _ _).mpr ⟨hk, hs⟩
    have hltl : lookupEntry tl k = none := by
      have hx := h.1
      rw [wfEntry, Bool.and_eq_true, hk] at hx
      simp only [Bool.and_eq_true] at hx
      cases hq : lookupEntry tl k with
      | none => rfl
      | some _ => rw [hq] at hx; simp at hx
    rw [eqMapVals, Bool.and_eq_true, eqMapVal]
    constructor
    · have := hR k e (by rw [lookupEntry_cons_msg, hke]; rfl)
      simp only [hk, this]
      exact eqMsg_det S e f.sub hw
    · refine eqMapVals_detAux S tl R f h.2 (fun k' e' hl' => hR k' e' ?_)
      rw [lookupEntry_cons_msg]
      split
      · rename_i hh
        have := ((entryHasKey_iff _ _).mp hh).1
        rw [hk] at this
        cases this
        rw [hltl] at hl'
        cases hl'
      · exact hl'
  | .cons (.num n) tl, _, _, h, _ => by
    rw [wfEntries, Bool.and_eq_true] at h
    simp [wfEntry] at h
  | .cons (.bytes b) tl, _, _, h, _ => by
    rw [wfEntries, Bool.and_eq_true] at h
    simp [wfEntry] at h
end

/-! ### the converse clause

FULL STATEMENT (not proved): for `a`, `b` well-formed up to the stored order of fields and map
entries, `encodeDet S mi a = encodeDet S mi b → eqMsg S mi a b`.  The round trip of C03, which
provides injectivity of the encoder, is proved for messages stored in ASCENDING field order
(`Pb.WF`); the deterministic order (`LegacyFieldOrder`: extensions, then plain fields, then oneof
members by oneof index) coincides with it exactly when no populated extension or oneof member
is out of number order.  The theorem below therefore asks for `WF` of the two normal forms —
true, for instance, for every well-formed message of a schema without extensions and oneofs —
and is named `_partial`. -/
theorem encodeDet_injective_partial (S : Schema) (mi : Nat) (a b : Msg) (limit : Int)
    (ha : wfMsg S mi a = true) (hb : wfMsg S mi b = true)
    (hna : WF S mi (detMsg S mi a)) (hnb : WF S mi (detMsg S mi b))
    (hda : depthOK (detMsg S mi a) limit) (hdb : depthOK (detMsg S mi b) limit)
    (h : encodeDet S mi a = encodeDet S mi b) : eqMsg S mi a b = true := by
  unfold encodeDet at h
  have hn : detMsg S mi a = detMsg S mi b := C03.encMsg_injective S mi _ _ limit hna hnb hda hdb h
  have h1 := eqMsg_det S a mi ha
  have h2 := eqMsg_det S b mi hb
  rw [hn] at h1
  exact C30.eqMsg_trans S a (detMsg S mi b) b mi h1 (C30.eqMsg_symm S b _ mi hb h2)

/-- the normal forms themselves coincide -/
theorem encodeDet_injective_normal (S : Schema) (mi : Nat) (a b : Msg) (limit : Int)
    (hna : WF S mi (detMsg S mi a)) (hnb : WF S mi (detMsg S mi b))
    (hda : depthOK (detMsg S mi a) limit) (hdb : depthOK (detMsg S mi b) limit)
    (h : encodeDet S mi a = encodeDet S mi b) : detMsg S mi a = detMsg S mi b :=
  C03.encMsg_injective S mi _ _ limit hna hnb hda hdb h

/-- the hypotheses are satisfiable by a non-trivial pair: fields and map entries stored in different
orders; the deterministic encodings coincide and the theorem applies -/
example :
    let a : Msg := .mk (.cons 2 (C30.one 5) (.cons 1 (C30.one 7)
      (.cons 3 (.many (.cons (C30.ent 2 2) (.cons (C30.ent 1 1) .nil))) .nil))) []
    let b : Msg := .mk (.cons 3 (.many (.cons (C30.ent 1 1) (.cons (C30.ent 2 2) .nil)))
      (.cons 1 (C30.one 7) (.cons 2 (C30.one 5) .nil))) []
    wfMsg C30.S1 0 a = true ∧ wfMsg C30.S1 0 b = true ∧
    WF C30.S1 0 (detMsg C30.S1 0 a) ∧ WF C30.S1 0 (detMsg C30.S1 0 b) ∧
    depthOK (detMsg C30.S1 0 a) 3 ∧ depthOK (detMsg C30.S1 0 b) 3 ∧
    encodeDet C30.S1 0 a = encodeDet C30.S1 0 b ∧ sortedMsg a = false := by
  decide +kernel

end C05
