import PbVerif.Model.Utf8
/-
Basic theorems about the shared UTF-8 model (`Model.Utf8`): `DecodeRune` and `AppendRune` are mutually
inverse on well-formed input, `Valid` is "a concatenation of encodings of Unicode scalar values".
Core Lean only; axioms: propext, Quot.sound (and Classical.choice through `omega`/`simp`).
-/
namespace Model.Utf8

/-- decide a chain of `if`s whose conditions are linear arithmetic facts -/
macro "ifs_omega" : tactic =>
  `(tactic| repeat (first | rw [if_pos (by omega)] | rw [if_neg (by omega)]))

theorem isScalar_iff (r : Nat) :
    isScalar r = true ↔ (r < 0xD800 ∨ (0xE000 ≤ r ∧ r ≤ 0x10FFFF)) := by
  simp only [isScalar, Bool.or_eq_true, Bool.and_eq_true, decide_eq_true_eq]

theorem accept_iff (c b : Nat) : accept c b = true ↔
    ((c = 0xE0 → 0xA0 ≤ b) ∧ (c = 0xF0 → 0x90 ≤ b) ∧ 0x80 ≤ b ∧
     (c = 0xED → b ≤ 0x9F) ∧ (c = 0xF4 → b ≤ 0x8F) ∧ b ≤ 0xBF) := by
  unfold accept acceptLo acceptHi
  rw [Bool.and_eq_true, decide_eq_true_iff, decide_eq_true_iff]
  repeat' split
  all_goals omega

theorem isCont_iff (b : Nat) : isCont b = true ↔ (0x80 ≤ b ∧ b ≤ 0xBF) := by
  simp only [isCont, Bool.and_eq_true, decide_eq_true_eq]

theorem isInvalid_iff (d : Nat × Nat) : isInvalid d = true ↔ (d.1 = 0xFFFD ∧ d.2 = 1) := by
  simp only [isInvalid, runeError, Bool.and_eq_true, beq_iff_eq]

theorem ofNat_eq_of_toNat (b : Byte) (n : Nat) (h : n = b.toNat) : BitVec.ofNat 8 n = b := by
  subst h; simp

/-- An ASCII byte decodes to itself. -/
theorem decodeRune_ascii (b : Byte) (t : List Byte) (h : b.toNat < 0x80) :
    decodeRune (b :: t) = (b.toNat, 1) := by
  simp only [decodeRune]; rw [if_pos h]

/-- `encodeRune` never returns the empty string, and at most four bytes. -/
theorem encodeRune_length (r : Nat) : 1 ≤ (encodeRune r).length ∧ (encodeRune r).length ≤ 4 := by
  unfold encodeRune; repeat' split
  all_goals simp

/-- **DecodeRune ∘ AppendRune**: for every Unicode scalar value `r` and every continuation `t`,
`DecodeRune(string(r) + t) = (r, len(string(r)))`. -/
theorem decodeRune_encodeRune (r : Nat) (t : List Byte) (h : isScalar r = true) :
    decodeRune (encodeRune r ++ t) = (r, (encodeRune r).length) := by
  rw [isScalar_iff] at h
  simp only [encodeRune]
  by_cases h1 : r < 0x80
  · ifs_omega
    simp only [decodeRune, List.cons_append, List.nil_append, BitVec.toNat_ofNat]
    ifs_omega
    simp; omega
  by_cases h2 : r < 0x800
  · ifs_omega
    simp only [decodeRune, decode2, List.cons_append, List.nil_append, BitVec.toNat_ofNat, isCont_iff]
    ifs_omega
    simp; omega
  by_cases h3 : r < 0x10000
  · ifs_omega
    simp only [decodeRune, decode3, List.cons_append, List.nil_append, BitVec.toNat_ofNat,
      accept_iff, isCont_iff]
    ifs_omega
    simp; omega
  · ifs_omega
    simp only [decodeRune, decode4, List.cons_append, List.nil_append, BitVec.toNat_ofNat,
      accept_iff, isCont_iff]
    ifs_omega
    simp; omega

/-- The encoded length is determined by the range of the scalar value (`utf8.RuneLen`). -/
theorem encodeRune_length_eq (r : Nat) (h : isScalar r = true) :
    (encodeRune r).length = if r < 0x80 then 1 else if r < 0x800 then 2 else if r < 0x10000 then 3 else 4 := by
  rw [isScalar_iff] at h
  unfold encodeRune
  repeat' split
  all_goals first | rfl | omega

/-- **AppendRune ∘ DecodeRune**: when `DecodeRune(p)` does not report an error, the rune is a Unicode
scalar value, the size is within `p`, and re-encoding the rune gives back exactly the consumed bytes
(so only shortest forms are accepted). -/
theorem decodeRune_ok (b : Byte) (t : List Byte) (h : isInvalid (decodeRune (b :: t)) = false) :
    isScalar (decodeRune (b :: t)).1 = true ∧ (decodeRune (b :: t)).2 ≤ (b :: t).length ∧
    encodeRune (decodeRune (b :: t)).1 = (b :: t).take (decodeRune (b :: t)).2 := by
  have hb := b.isLt
  rw [Bool.eq_false_iff, ne_eq, isInvalid_iff] at h
  revert h
  simp only [decodeRune]
  split
  · intro _
    refine ⟨by rw [isScalar_iff]; omega, by simp, ?_⟩
    simp only [encodeRune]; ifs_omega
    simp
  split
  · simp [runeError]
  split
  · -- two bytes
    cases t with
    | nil => simp [decode2, runeError]
    | cons b1 t =>
      have h1 := b1.isLt
      simp only [decode2, isCont_iff]
      split
      · intro _
        refine ⟨by rw [isScalar_iff]; omega, by simp, ?_⟩
        simp only [encodeRune]; ifs_omega
        simp only [List.take_succ_cons, List.take_zero]
        rw [ofNat_eq_of_toNat b _ (by omega), ofNat_eq_of_toNat b1 _ (by omega)]
      · simp [runeError]
  split
  · -- three bytes
    match t with
    | [] => simp [decode3, runeError]
    | [_] => simp [decode3, runeError]
    | b1 :: b2 :: t =>
      have h1 := b1.isLt
      have h2 := b2.isLt
      simp only [decode3, accept_iff, isCont_iff]
      split
      · intro _
        refine ⟨by rw [isScalar_iff]; omega, by simp, ?_⟩
        simp only [encodeRune]; ifs_omega
        simp only [List.take_succ_cons, List.take_zero]
        rw [ofNat_eq_of_toNat b _ (by omega), ofNat_eq_of_toNat b1 _ (by omega),
          ofNat_eq_of_toNat b2 _ (by omega)]
      · simp [runeError]
  split
  · -- four bytes
    match t with
    | [] => simp [decode4, runeError]
    | [_] => simp [decode4, runeError]
    | [_, _] => simp [decode4, runeError]
    | b1 :: b2 :: b3 :: t =>
      have h1 := b1.isLt
      have h2 := b2.isLt
      have h3 := b3.isLt
      simp only [decode4, accept_iff, isCont_iff]
      split
      · intro _
        refine ⟨by rw [isScalar_iff]; omega, by simp, ?_⟩
        simp only [encodeRune]; ifs_omega
        simp only [List.take_succ_cons, List.take_zero]
        rw [ofNat_eq_of_toNat b _ (by omega), ofNat_eq_of_toNat b1 _ (by omega),
          ofNat_eq_of_toNat b2 _ (by omega), ofNat_eq_of_toNat b3 _ (by omega)]
      · simp [runeError]
  · simp [runeError]

/-- When `DecodeRune` reports an error the first byte is not ASCII (Go then uses `rune(in[0])`). -/
theorem decodeRune_invalid_first (b : Byte) (t : List Byte)
    (h : isInvalid (decodeRune (b :: t)) = true) : 0x80 ≤ b.toNat := by
  rw [isInvalid_iff] at h
  revert h
  simp only [decodeRune]
  split
  · have := b.isLt; intro h; simp at h; omega
  · intro _; omega

/-- `DecodeRune` depends only on the bytes it consumes (well-formed case). -/
theorem decodeRune_prefix (b : Byte) (t u : List Byte) (h : isInvalid (decodeRune (b :: t)) = false) :
    decodeRune ((b :: t).take (decodeRune (b :: t)).2 ++ u) = decodeRune (b :: t) := by
  obtain ⟨hs, _, he⟩ := decodeRune_ok b t h
  rw [← he, decodeRune_encodeRune _ _ hs, he, List.length_take]
  have := decodeRune_ok b t h
  ext
  · rfl
  · simp only [List.length_cons] at *; omega

/-- A well-formed rune below `RuneSelf` occupies one byte, and vice versa. -/
theorem decodeRune_ok_size (b : Byte) (t : List Byte) (h : isInvalid (decodeRune (b :: t)) = false) :
    (decodeRune (b :: t)).2 =
      if (decodeRune (b :: t)).1 < 0x80 then 1 else if (decodeRune (b :: t)).1 < 0x800 then 2
      else if (decodeRune (b :: t)).1 < 0x10000 then 3 else 4 := by
  obtain ⟨hs, hl, he⟩ := decodeRune_ok b t h
  rw [← encodeRune_length_eq _ hs, he, List.length_take]
  omega

/-- every rune returned by `DecodeRune` is at most `MaxRune` -/
theorem decodeRune_le_maxRune (p : List Byte) : (decodeRune p).1 ≤ 0x10FFFF := by
  cases p with
  | nil => simp [decodeRune, runeError]
  | cons b t =>
    cases h : isInvalid (decodeRune (b :: t)) with
    | true => rw [isInvalid_iff] at h; omega
    | false =>
      have := (decodeRune_ok b t h).1
      rw [isScalar_iff] at this; omega

theorem encodeRunes_cons (r : Nat) (rs : List Nat) :
    encodeRunes (r :: rs) = encodeRune r ++ encodeRunes rs := by
  simp [encodeRunes]

/-- **`utf8.Valid` characterised**: a byte string is valid UTF-8 iff it is the concatenation of the
encodings of Unicode scalar values (no surrogates, nothing above U+10FFFF; overlong forms are excluded
because `encodeRune` writes shortest forms only). -/
theorem valid_iff (p : List Byte) :
    valid p = true ↔ ∃ rs : List Nat, (∀ r ∈ rs, isScalar r = true) ∧ p = encodeRunes rs := by
  constructor
  · intro h
    fun_induction valid p with
    | case1 => exact ⟨[], by simp, by simp [encodeRunes]⟩
    | case2 b t hinv => simp at h
    | case3 b t hinv ih =>
      obtain ⟨rs, hrs, hp⟩ := ih h
      have hinv' : isInvalid (decodeRune (b :: t)) = false := by simpa using hinv
      obtain ⟨hs, _, he⟩ := decodeRune_ok b t hinv'
      refine ⟨(decodeRune (b :: t)).1 :: rs, ?_, ?_⟩
      · intro r hr
        rcases List.mem_cons.mp hr with rfl | hr
        · exact hs
        · exact hrs r hr
      · rw [encodeRunes_cons, he, ← hp, List.take_append_drop]
  · rintro ⟨rs, hrs, rfl⟩
    induction rs with
    | nil => simp [encodeRunes, valid]
    | cons r rs ih =>
      have hs := hrs r (by simp)
      have ih := ih (fun x hx => hrs x (by simp [hx]))
      rw [encodeRunes_cons]
      have hne := (encodeRune_length r).1
      have hd := decodeRune_encodeRune r (encodeRunes rs) hs
      have hlen := encodeRune_length_eq r hs
      cases hE : encodeRune r ++ encodeRunes rs with
      | nil =>
        have : (encodeRune r ++ encodeRunes rs).length = 0 := by rw [hE]; rfl
        simp only [List.length_append] at this; omega
      | cons b t =>
        rw [hE] at hd
        unfold valid
        have hni : isInvalid (decodeRune (b :: t)) = false := by
          rw [Bool.eq_false_iff, ne_eq, isInvalid_iff, hd]
          simp only
          rw [hlen]
          split
          · omega
          · split
            · omega
            · split <;> omega
        rw [hni, hd]
        simp only [Bool.false_eq_true, if_false]
        rw [← hE, List.drop_left]
        exact ih

/-- A string of ASCII bytes is valid UTF-8. -/
theorem valid_of_ascii (p : List Byte) (h : ∀ b ∈ p, b.toNat < 0x80) : valid p = true := by
  induction p with
  | nil => simp [valid]
  | cons b t ih =>
    unfold valid
    have hb := h b (by simp)
    rw [decodeRune_ascii b t hb]
    have : isInvalid (b.toNat, 1) = false := by
      rw [Bool.eq_false_iff, ne_eq, isInvalid_iff]; simp only; omega
    rw [this]
    simp only [Bool.false_eq_true, if_false, List.drop_succ_cons, List.drop_zero]
    exact ih (fun x hx => h x (by simp [hx]))

end Model.Utf8
