import PbVerif.Lemmas.WktJsonDuration
import PbVerif.Lemmas.WktJsonTimestamp
import PbVerif.Lemmas.WktJsonTsGrammar
import PbVerif.Lemmas.WktJsonFieldMask
import PbVerif.Lemmas.WktJsonStruct
/-!
# C23 — Well-known types use their JSON forms exactly

Theorems about the model `PbVerif/Model/WktJson.lean` of `/repo/encoding/protojson/well_known_types.go`.
All statements quantify over ALL inputs (strings, integers); nothing is bounded.

Obligation refuted on the current tree (kept as a comment next to the proved negation and the `_partial`
theorem): `unmarshalTimestamp_rfc3339` (offset 24:00 / xx:60 of DESIGN finding 9, and the one-digit hour).
`parseDuration_iff` holds at full strength since /repo 5d68604 (finding 8 repaired); the ',' part of finding 9
is repaired by /repo 5508893.
-/
namespace C23
open WktJson

/-! ## Duration: the scanner against the documented grammar -/

/-- `parseDuration` (the scanner alone) accepts exactly the documented literals whose integer part fits
`int64`, with the documented value. -/
theorem parseDuration_iff (s : Str) (v : Int × Int) :
    parseDuration s = some v ↔
      ∃ p : DurParts, p.WF ∧ p.render = s ∧ p.value = v ∧ natOfDigits (optChars p.intp) ≤ maxInt64 := by
  constructor
  · intro h; exact parseDuration_sound h
  · rintro ⟨p, hwf, hr, hv, hm⟩
    rw [← hr, ← hv]
    exact parseDuration_render p hwf hm

theorem value_fst_natAbs (p : DurParts) : p.value.1.natAbs = natOfDigits (optChars p.intp) := by
  unfold DurParts.value
  split <;> simp

/-- `unmarshalDuration` (scanner + range test) accepts exactly the strings of the documented grammar
`[+-]? ( int [ '.' digit{0,9} ] | '.' digit{1,9} ) 's'` whose seconds are within ±315,576,000,000, with the
documented value — for ALL strings. -/
theorem unmarshalDuration_iff (s : Str) (v : Int × Int) :
    unmarshalDuration s = some v ↔
      DurationDenotes s v ∧ -maxSecondsInDuration ≤ v.1 ∧ v.1 ≤ maxSecondsInDuration := by
  unfold unmarshalDuration
  constructor
  · intro h
    cases hp : parseDuration s with
    | none => simp [hp] at h
    | some w =>
      obtain ⟨a, b⟩ := w
      simp only [hp, Option.bind_some] at h
      split at h
      · cases h
      · next hr =>
        injection h with h
        subst h
        obtain ⟨p, hwf, hrn, hv, _⟩ := (parseDuration_iff s (a, b)).mp hp
        exact ⟨⟨p, hwf, hrn, hv⟩, by omega, by omega⟩
  · rintro ⟨⟨p, hwf, hr, hv⟩, h1, h2⟩
    have hm : natOfDigits (optChars p.intp) ≤ maxInt64 := by
      have := value_fst_natAbs p
      rw [hv] at this
      simp only [maxSecondsInDuration] at h1 h2
      simp only [maxInt64]
      omega
    have hp := (parseDuration_iff s v).mpr ⟨p, hwf, hr, hv, hm⟩
    obtain ⟨a, b⟩ := v
    simp only [hp, Option.bind_some]
    rw [if_neg (by simp only at h1 h2; omega)]

/-- in particular, whatever is accepted belongs to the documented grammar -/
theorem unmarshalDuration_in_grammar (s : Str) (v : Int × Int) (h : unmarshalDuration s = some v) :
    DurationGrammar s := by
  obtain ⟨⟨p, hwf, hr, _⟩, _, _⟩ := (unmarshalDuration_iff s v).mp h
  exact ⟨p, hwf, hr⟩

/-- ".s" is not in the documented grammar ("There needs to be at least an integer or fractional part") -/
theorem dotS_not_in_grammar : ¬ DurationGrammar ['.', 's'] := by
  rintro ⟨p, ⟨hi, hf, hne⟩, hr⟩
  obtain ⟨sg, ip, fp⟩ := p
  simp only [DurParts.render] at hr
  cases sg with
  | plus => simp [Sign.chars] at hr
  | minus => simp [Sign.chars] at hr
  | none =>
    simp only [Sign.chars, List.nil_append] at hr
    cases ip with
    | some ds =>
      rcases hi ds rfl with h0 | ⟨c, t, hc, h1, _, _⟩
      · subst h0; simp [optChars] at hr
      · subst hc
        simp only [optChars, List.cons_append, List.append_assoc] at hr
        injection hr with hc _
        subst hc
        revert h1; decide
    | none =>
      obtain ⟨ds, hfp, hds⟩ := hne rfl
      simp only at hfp
      subst hfp
      simp only [optChars, fracChars, List.nil_append, List.cons_append] at hr
      injection hr with _ ht
      cases ds with
      | nil => exact hds rfl
      | cons d t => simp at ht

/-- the strings of DESIGN finding 8 are rejected (repaired by /repo 5d68604) -/
theorem noDigits_rejected :
    unmarshalDuration ['.', 's'] = none ∧ unmarshalDuration ['-', '.', 's'] = none ∧
      unmarshalDuration ['+', '.', 's'] = none ∧ unmarshalDuration ['.', 'x', 's'] = none := by decide

example : unmarshalDuration "-0.500s".toList = some (0, -500000000) ∧ unmarshalDuration "-.5s".toList = some (0, -500000000) ∧
    unmarshalDuration "1.s".toList = some (1, 0) := by decide

/-! ## Duration: marshal, round trip, ranges -/

/-- `marshalDuration` fails exactly on invalid Durations (seconds or nanos out of range, mixed signs). -/
theorem fmtDuration_none_iff (secs nanos : Int) :
    fmtDuration secs nanos = none ↔ ¬ DurationValid secs nanos := by
  constructor
  · intro h hv
    rw [fmtDuration_text hv] at h
    cases h
  · intro h
    unfold fmtDuration
    unfold DurationValid at h
    split
    · rfl
    · split
      · rfl
      · split
        · rfl
        · exfalso; apply h; omega

/-- Every valid Duration — any seconds within ±315,576,000,000, any nanos within ±999,999,999, signs not
opposed (so −0.5 s carries its sign in nanos only) — marshals to a text that parses back to exactly the
same pair. -/
theorem duration_roundtrip (secs nanos : Int) (hv : DurationValid secs nanos) :
    ∃ t, fmtDuration secs nanos = some t ∧ unmarshalDuration t = some (secs, nanos) := by
  refine ⟨_, fmtDuration_text hv, ?_⟩
  rw [← fmtParts_render]
  have hwf := fmtParts_wf secs nanos
  have hval := fmtParts_value hv
  obtain ⟨h1, h2, _, _, _, _⟩ := hv
  have hm : natOfDigits (optChars (fmtParts secs nanos).intp) ≤ maxInt64 := by
    have := value_fst_natAbs (fmtParts secs nanos)
    rw [hval] at this
    simp only [maxSecondsInDuration] at h1 h2
    simp only [maxInt64]
    omega
  unfold unmarshalDuration
  rw [parseDuration_render _ hwf hm, hval]
  simp only [Option.bind_some]
  rw [if_neg (by omega)]

example : DurationValid 0 (-500000000) ∧ DurationValid (-315576000000) (-999999999) := by
  unfold DurationValid maxSecondsInDuration secondsInNanos; omega

/-- The text has no fraction or exactly 3, 6 or 9 fractional digits. -/
theorem fmtDuration_frac_digits (secs nanos : Int) (t : Str) (h : fmtDuration secs nanos = some t) :
    ∃ pre fr, t = pre ++ fr ++ ['s'] ∧ allDigits (pre.dropWhile (· = '-')) ∧
      (fr = [] ∨ ∃ ds, fr = '.' :: ds ∧ allDigits ds ∧ (ds.length = 3 ∨ ds.length = 6 ∨ ds.length = 9)) := by
  have hv : DurationValid secs nanos := by
    apply Classical.byContradiction
    intro hn
    rw [(fmtDuration_none_iff secs nanos).mpr hn] at h
    cases h
  rw [fmtDuration_text hv] at h
  injection h with h
  refine ⟨(if secs < 0 ∨ nanos < 0 then ['-'] else []) ++ decDigits secs.natAbs, fracText nanos.natAbs, h.symm, ?_,
    fracText_shape _⟩
  have hd := allDigits_decDigits secs.natAbs
  have hdw : ∀ ds : Str, allDigits ds → ds.dropWhile (· = '-') = ds := by
    intro ds hds
    cases ds with
    | nil => rfl
    | cons c t =>
      have hc := (allDigits_cons.mp hds).1
      have : c ≠ '-' := by intro e; subst e; revert hc; decide
      simp [List.dropWhile, this]
  split
  · simp only [List.cons_append, List.nil_append, List.dropWhile, decide_true]
    rw [hdw _ hd]; exact hd
  · simp only [List.nil_append]
    rw [hdw _ hd]; exact hd

/-- Whatever `unmarshalDuration` accepts is a valid Duration: out-of-range seconds are rejected, nanos have
at most nine digits, and both fields carry the sign of the literal. -/
theorem unmarshalDuration_valid (s : Str) (secs nanos : Int) (h : unmarshalDuration s = some (secs, nanos)) :
    DurationValid secs nanos := by
  obtain ⟨⟨p, ⟨_, hf, _⟩, _, hv⟩, h1, h2⟩ := (unmarshalDuration_iff s (secs, nanos)).mp h
  have hn : natOfDigits (padFrac9 (optChars p.frac)) < 1000000000 := by
    have hfd : allDigits (optChars p.frac) ∧ (optChars p.frac).length ≤ 9 := by
      cases hfp : p.frac with
      | none => exact ⟨allDigits_nil, by simp [optChars]⟩
      | some ds => exact hf ds hfp
    have hall : allDigits (padFrac9 (optChars p.frac)) := by
      unfold padFrac9
      rw [allDigits_append]
      refine ⟨hfd.1, ?_⟩
      intro c hc
      rw [List.mem_replicate] at hc
      rw [hc.2]; decide
    have hlen : (padFrac9 (optChars p.frac)).length = 9 := by
      unfold padFrac9
      simp only [List.length_append, List.length_replicate]
      omega
    have := natOfDigits_lt hall
    rw [hlen] at this
    simpa using this
  unfold DurParts.value at hv
  simp only at h1 h2
  unfold DurationValid
  simp only [secondsInNanos]
  split at hv <;> (injection hv with ha hb; subst ha; subst hb) <;> omega

/-! ## Civil dates -/

/-- days → (y, m, d) → days is the identity on ALL integers -/
theorem civil_roundtrip (z : Int) :
    daysFromCivil (civilFromDays z).1 (civilFromDays z).2.1 (civilFromDays z).2.2 = z := days_civil z

/-- (y, m, d) → days → (y, m, d) is the identity on every valid proleptic-Gregorian date, any year -/
theorem civil_roundtrip_date (y m d : Int) (h : ValidDate y m d) :
    civilFromDays (daysFromCivil y m d) = (y, m, d) := civil_days y m d h

/-- `civilFromDays` yields a month in 1..12 and a day within that month's length, for ALL integers -/
theorem civilFromDays_valid (z : Int) :
    ValidDate (civilFromDays z).1 (civilFromDays z).2.1 (civilFromDays z).2.2 := civil_valid z

example : ValidDate 2000 2 29 ∧ ¬ ValidDate 1900 2 29 ∧ civilFromDays 11016 = (2000, 2, 29) := by
  unfold ValidDate; decide

/-! ## Timestamp: marshal, round trip, ranges -/

def TimestampValid (secs nanos : Int) : Prop :=
  minTimestampSeconds ≤ secs ∧ secs ≤ maxTimestampSeconds ∧ 0 ≤ nanos ∧ nanos ≤ secondsInNanos

/-- `marshalTimestamp` fails exactly outside 0001-01-01T00:00:00Z .. 9999-12-31T23:59:59.999999999Z. -/
theorem fmtTimestamp_none_iff (secs nanos : Int) :
    fmtTimestamp secs nanos = none ↔ ¬ TimestampValid secs nanos := by
  unfold fmtTimestamp TimestampValid
  constructor
  · intro h
    split at h
    · omega
    · split at h
      · omega
      · cases h
  · intro h
    split
    · rfl
    · split
      · rfl
      · exfalso; apply h; omega

/-- the text of `fmtTimestamp`: date-time, the trimmed fraction, `Z` -/
theorem fmtTimestamp_text (secs nanos : Int) (hv : TimestampValid secs nanos) :
    fmtTimestamp secs nanos =
      some (dateTimeText (civilFromDays (secs / 86400)).1.toNat (civilFromDays (secs / 86400)).2.1.toNat
          (civilFromDays (secs / 86400)).2.2.toNat (secs % 86400 / 3600).toNat (secs % 86400 % 3600 / 60).toNat
          (secs % 86400 % 60).toNat ++ (fracText nanos.toNat ++ ['Z'])) := by
  obtain ⟨h1, h2, h3, h4⟩ := hv
  unfold fmtTimestamp
  rw [if_neg (by omega), if_neg (by omega)]
  simp only [Option.some.injEq]
  have hN : nanos.toNat % 1000000000 = nanos.toNat := by
    apply Nat.mod_eq_of_lt
    simp only [secondsInNanos] at h4
    omega
  have := trimFrac_pad9 (dateTimeText (civilFromDays (secs / 86400)).1.toNat (civilFromDays (secs / 86400)).2.1.toNat
          (civilFromDays (secs / 86400)).2.2.toNat (secs % 86400 / 3600).toNat (secs % 86400 % 3600 / 60).toNat
          (secs % 86400 % 60).toNat) nanos.toNat
  rw [hN] at this
  have he : fmtTimeUTC secs nanos = dateTimeText (civilFromDays (secs / 86400)).1.toNat (civilFromDays (secs / 86400)).2.1.toNat
          (civilFromDays (secs / 86400)).2.2.toNat (secs % 86400 / 3600).toNat (secs % 86400 % 3600 / 60).toNat
          (secs % 86400 % 60).toNat ++ '.' :: padDigits 9 nanos.toNat := by
    unfold fmtTimeUTC dateTimeText
    simp [List.append_assoc]
  rw [he, this, List.append_assoc]

/-- Every Timestamp within years 1–9999 with nanos in 0..999,999,999 marshals to a text that parses back
to exactly the same pair. -/
theorem timestamp_roundtrip (secs nanos : Int) (hv : TimestampValid secs nanos) :
    ∃ t, fmtTimestamp secs nanos = some t ∧ unmarshalTimestamp t = some (secs, nanos) := by
  refine ⟨_, fmtTimestamp_text secs nanos hv, ?_⟩
  obtain ⟨h1, h2, h3, h4⟩ := hv
  simp only [minTimestampSeconds, maxTimestampSeconds, secondsInNanos] at h1 h2 h4
  -- the calendar fields
  have hval := civil_valid (secs / 86400)
  have hyr := civil_year_range (secs / 86400) (by omega) (by omega)
  have hrt := days_civil (secs / 86400)
  generalize civilFromDays (secs / 86400) = ymd at hval hyr hrt
  obtain ⟨Y, M, D⟩ := ymd
  simp only at hval hyr hrt
  obtain ⟨hm1, hm12, hd1, hdn⟩ := hval
  have hYc : ((Y.toNat : Nat) : Int) = Y := by omega
  have hMc : ((M.toNat : Nat) : Int) = M := by omega
  have hDc : ((D.toNat : Nat) : Int) = D := by omega
  have hN : nanos.toNat < 1000000000 := by omega
  have hp := parseTime_text Y.toNat M.toNat D.toNat (secs % 86400 / 3600).toNat (secs % 86400 % 3600 / 60).toNat
    (secs % 86400 % 60).toNat (by omega) (by omega) (by rw [hYc, hMc, hDc]; omega) (by omega) (by omega) (by omega)
    (fracText nanos.toNat) nanos.toNat (getFrac_fracText _ hN)
  rw [hYc, hMc, hDc, hrt] at hp
  have hsec : secs / 86400 * 86400 +
      (((secs % 86400 / 3600).toNat * 3600 + (secs % 86400 % 3600 / 60).toNat * 60 + (secs % 86400 % 60).toNat : Nat) : Int) =
      secs := by omega
  rw [hsec] at hp
  unfold unmarshalTimestamp
  rw [hp]
  simp only [Option.bind_some, minTimestampSeconds, maxTimestampSeconds]
  rw [if_neg (by omega), if_neg (fmtText_no_comma _ _ _ _ _ _ _)]
  -- the "more than nine digits after the last '.'" test does not fire
  have htm : tooManyFracDigits (dateTimeText Y.toNat M.toNat D.toNat (secs % 86400 / 3600).toNat
      (secs % 86400 % 3600 / 60).toNat (secs % 86400 % 60).toNat ++ (fracText nanos.toNat ++ ['Z'])) = false := by
    rcases fracText_shape nanos.toNat with h0 | ⟨ds, hds, hall, hlen⟩
    · rw [h0]
      apply tooManyFracDigits_nodot
      intro c hc
      simp only [List.nil_append, List.mem_append, List.mem_singleton] at hc
      rcases hc with hc | hc
      · exact dateTimeText_no_dot _ _ _ _ _ _ c hc
      · subst hc; decide
    · rw [hds]
      exact tooManyFracDigits_text _ ds hall (by omega)
  rw [htm]
  simp
  omega

example : TimestampValid (-62135596800) 0 ∧ TimestampValid 253402300799 999999999 := by
  unfold TimestampValid minTimestampSeconds maxTimestampSeconds secondsInNanos; omega

/-- The text is `YYYY-MM-DDThh:mm:ss`, no fraction or exactly 3, 6 or 9 fractional digits, `Z`. -/
theorem fmtTimestamp_frac_digits (secs nanos : Int) (t : Str) (h : fmtTimestamp secs nanos = some t) :
    ∃ Y M D hh mi ss fr, t = dateTimeText Y M D hh mi ss ++ (fr ++ ['Z']) ∧
      (fr = [] ∨ ∃ ds, fr = '.' :: ds ∧ allDigits ds ∧ (ds.length = 3 ∨ ds.length = 6 ∨ ds.length = 9)) := by
  have hv : TimestampValid secs nanos := by
    apply Classical.byContradiction
    intro hn
    rw [(fmtTimestamp_none_iff secs nanos).mpr hn] at h
    cases h
  rw [fmtTimestamp_text secs nanos hv] at h
  injection h with h
  exact ⟨_, _, _, _, _, _, _, h.symm, fracText_shape _⟩

/-! ## Timestamp: the parser against the grammar -/

/-- EXACT characterisation, for ALL strings: `unmarshalTimestamp` accepts `s` with result `v` iff `s` is a
literal of the grammar `TsParts` with fields in range (one- or two-digit hour, '.' with at most nine digits,
offset up to 24:60), `v` is the instant it denotes, and the instant lies in
0001-01-01T00:00:00Z .. 9999-12-31T23:59:59Z. -/
theorem unmarshalTimestamp_iff (s : Str) (v : Int × Int) :
    unmarshalTimestamp s = some v ↔
      ∃ p : TsParts, p.Accepted ∧ p.render = s ∧ p.value = v ∧
        minTimestampSeconds ≤ v.1 ∧ v.1 ≤ maxTimestampSeconds := by
  unfold unmarshalTimestamp
  constructor
  · intro h
    cases hp : parseTime s with
    | none => simp [hp] at h
    | some w =>
      obtain ⟨secs, ns⟩ := w
      simp only [hp, Option.bind_some] at h
      split at h
      · cases h
      · next hr =>
        split at h
        · cases h
        · next hcomma =>
          split at h
          · cases h
          · next htm =>
            injection h with h
            subst h
            obtain ⟨p, hf, hrn, hv1, hv2⟩ := parseTime_some hp
            have hh1 := hf.2.2.2.2.2.2.1
            have hfr := hf.2.2.2.2.2.2.2.2.2.1
            refine ⟨p, ⟨hf, ?_⟩, hrn, ?_, by simp only; omega, by simp only; omega⟩
            · intro comma ds hds
              have hc : comma = false := by
                cases comma with
                | false => rfl
                | true =>
                  exfalso
                  apply hcomma
                  rw [← hrn]
                  exact render_has_comma p ds hds
              subst hc
              refine ⟨rfl, ?_⟩
              apply Classical.byContradiction
              intro hlen
              have := (tooManyFracDigits_render p hh1 hfr).mpr ⟨ds, hds, by omega⟩
              rw [hrn] at this
              exact htm this
            · unfold TsParts.value at hv1 ⊢
              simp only at hv1
              rw [hv1, hv2]
  · rintro ⟨p, ⟨hf, hlen⟩, hr, hv, h1, h2⟩
    have hh1 := hf.2.2.2.2.2.2.1
    have hfr := hf.2.2.2.2.2.2.2.2.2.1
    have hp := parseTime_render p hf
    rw [hr] at hp
    rw [hp]
    simp only [Option.bind_some]
    have hv1 : p.value.1 = v.1 := by rw [hv]
    rw [if_neg (by omega)]
    have hnc : ¬ ',' ∈ s := by
      rw [← hr]
      exact render_no_comma p hh1 hfr (fun comma ds hds => (hlen comma ds hds).1)
    rw [if_neg hnc]
    have htm : tooManyFracDigits s = false := by
      cases hb : tooManyFracDigits s with
      | false => rfl
      | true =>
        rw [← hr] at hb
        obtain ⟨ds, hds, hl⟩ := (tooManyFracDigits_render p hh1 hfr).mp hb
        have := (hlen false ds hds).2
        omega
    rw [htm]
    simp only [Bool.false_eq_true, if_false, Option.some.injEq]
    rw [← hv]
    rfl

/-- Whatever `unmarshalTimestamp` accepts is a valid Timestamp: instants outside years 1–9999 are rejected
(also when only the offset moves them out), nanos are within 0..999,999,999. -/
theorem unmarshalTimestamp_valid (s : Str) (secs nanos : Int) (h : unmarshalTimestamp s = some (secs, nanos)) :
    TimestampValid secs nanos := by
  obtain ⟨p, ⟨hf, _⟩, _, hv, h1, h2⟩ := (unmarshalTimestamp_iff s (secs, nanos)).mp h
  have hfr := hf.2.2.2.2.2.2.2.2.2.1
  have hn : nanos = (tsNanos p.frac : Int) := by
    have := congrArg Prod.snd hv
    simpa [TsParts.value] using this.symm
  have hlt : tsNanos p.frac < 1000000000 := by
    cases hfrac : p.frac with
    | none => simp [tsNanos]
    | some fv =>
      obtain ⟨comma, ds⟩ := fv
      obtain ⟨hall, _⟩ := hfr comma ds hfrac
      simp only [tsNanos, nanosOfFrac]
      have htake : allDigits (ds.take 9) := fun c hc => hall c (List.mem_of_mem_take hc)
      have hlen : (ds.take 9).length ≤ 9 := by simp [List.length_take]; omega
      have h1 := natOfDigits_lt htake
      have hpow : 10 ^ (ds.take 9).length * 10 ^ (9 - (ds.take 9).length) = 1000000000 := by
        rw [← Nat.pow_add]
        have : (ds.take 9).length + (9 - (ds.take 9).length) = 9 := by omega
        rw [this]
      have hpos : 0 < 10 ^ (9 - (ds.take 9).length) := Nat.pow_pos (by omega)
      calc natOfDigits (ds.take 9) * 10 ^ (9 - (ds.take 9).length)
          < 10 ^ (ds.take 9).length * 10 ^ (9 - (ds.take 9).length) := Nat.mul_lt_mul_of_lt_of_le h1 (Nat.le_refl _) hpos
        _ = 1000000000 := hpow
  unfold TimestampValid
  simp only [secondsInNanos]
  simp only at h1 h2
  omega

/- FULL STATEMENT (false of the current code, see `unmarshalTimestamp_not_rfc3339`):

theorem unmarshalTimestamp_rfc3339 (s : Str) (v : Int × Int) :
    unmarshalTimestamp s = some v ↔
      ∃ p : TsParts, p.Rfc3339 ∧ p.render = s ∧ p.value = v ∧
        minTimestampSeconds ≤ v.1 ∧ v.1 ≤ maxTimestampSeconds
-/

/-- the ← half holds: every RFC 3339 literal (two-digit fields, '.', at most nine fraction digits, offset
00:00..23:59, `Z`) within years 1–9999 is accepted with the instant it denotes -/
theorem rfc3339_accepted (p : TsParts) (h : p.Rfc3339)
    (h1 : minTimestampSeconds ≤ p.value.1) (h2 : p.value.1 ≤ maxTimestampSeconds) :
    unmarshalTimestamp p.render = some p.value :=
  (unmarshalTimestamp_iff p.render p.value).mpr ⟨p, ⟨h.1, h.2.2.1⟩, rfl, rfl, h1, h2⟩

/-- the → half holds up to exactly two classes of strings (the remaining part of finding 9, and the one-digit
hour): whatever is accepted is an RFC 3339 literal, or has a one-digit hour, or an offset with hour 24 /
minute 60 -/
theorem unmarshalTimestamp_rfc3339_partial (s : Str) (v : Int × Int) (h : unmarshalTimestamp s = some v) :
    ∃ p : TsParts, p.Accepted ∧ p.render = s ∧ p.value = v ∧
      (p.Rfc3339 ∨ p.hour1 = true ∨
        (∃ neg hh mm, p.zone = some (neg, hh, mm) ∧ (hh = 24 ∨ mm = 60))) := by
  obtain ⟨p, hacc, hr, hv, _, _⟩ := (unmarshalTimestamp_iff s v).mp h
  refine ⟨p, hacc, hr, hv, ?_⟩
  by_cases c1 : p.hour1 = true
  · exact Or.inr (Or.inl c1)
  by_cases c3 : ∃ neg hh mm, p.zone = some (neg, hh, mm) ∧ (hh = 24 ∨ mm = 60)
  · exact Or.inr (Or.inr c3)
  left
  refine ⟨hacc.1, by simpa using c1, hacc.2, ?_⟩
  intro neg hh mm hz
  have hb := hacc.1.2.2.2.2.2.2.2.2.2.2 neg hh mm hz
  have : ¬ (hh = 24 ∨ mm = 60) := fun hx => c3 ⟨neg, hh, mm, hz, hx⟩
  omega

/-- no accepted string contains a ',' (DESIGN finding 9, repaired by /repo 5508893) -/
theorem unmarshalTimestamp_no_comma (s : Str) (v : Int × Int) (h : unmarshalTimestamp s = some v) : ¬ ',' ∈ s := by
  obtain ⟨p, ⟨hf, hlen⟩, hr, _, _, _⟩ := (unmarshalTimestamp_iff s v).mp h
  rw [← hr]
  exact render_no_comma p hf.2.2.2.2.2.2.1 hf.2.2.2.2.2.2.2.2.2.1 (fun comma ds hds => (hlen comma ds hds).1)

/-- NEGATION of `unmarshalTimestamp_rfc3339` on a concrete witness: a string with a one-digit hour is accepted
although every RFC 3339 literal has at least twenty characters -/
theorem unmarshalTimestamp_not_rfc3339 :
    ¬ (∀ (s : Str) (v : Int × Int), unmarshalTimestamp s = some v → ∃ p : TsParts, p.Rfc3339 ∧ p.render = s) := by
  intro h
  obtain ⟨p, hp, hr⟩ := h "2000-01-01T0:00:00Z".toList (946684800, 0) (by decide)
  have := render_length p hp.2.1
  rw [hr] at this
  revert this; decide

example : (⟨2000, 2, 29, 23, 59, 59, false, some (false, "123".toList), some (true, 23, 59)⟩ : TsParts).render =
    "2000-02-29T23:59:59.123-23:59".toList := by decide

/-! ## Timestamp: what the parser still accepts beyond RFC 3339 (rest of finding 9, one-digit hour) -/

/-- finding 9, repaired: ',' as the fraction separator is rejected, with any number of digits -/
theorem unmarshalTimestamp_rejects_comma :
    unmarshalTimestamp "2000-01-01T00:00:00,1234567891Z".toList = none ∧
      unmarshalTimestamp "2000-01-01T00:00:00,5-01:30".toList = none ∧
      unmarshalTimestamp "2000-01-01T00:00:00.1234567891Z".toList = none ∧
      unmarshalTimestamp "2000-01-01T00:00:00.123456789Z".toList = some (946684800, 123456789) := by decide

/-- finding 9 (known finding): zone offsets with hour 24 (and minute 60) are accepted -/
theorem unmarshalTimestamp_accepts_offset_24 :
    unmarshalTimestamp "2000-01-01T00:00:00-24:00".toList = some (946771200, 0) ∧
      unmarshalTimestamp "2000-01-01T00:00:00+23:60".toList = some (946598400, 0) ∧
      unmarshalTimestamp "2000-01-01T00:00:00+25:00".toList = none := by decide

/-- known finding: a one-digit hour is accepted (layout element "15" is read with `getnum(value, false)`) -/
theorem unmarshalTimestamp_accepts_one_digit_hour :
    unmarshalTimestamp "2000-01-01T0:00:00Z".toList = some (946684800, 0) ∧
      unmarshalTimestamp "2000-01-1T00:00:00Z".toList = none := by decide

/-! ## FieldMask -/

/-- `marshalFieldMask` succeeds iff every path is a valid full name and survives
`JSONSnakeCase ∘ JSONCamelCase` — as coded. -/
theorem fieldmask_marshal_iff (ps : List Str) :
    (marshalFieldMask ps).isSome = true ↔
      ∀ p ∈ ps, fullNameValid p = true ∧ jsonSnakeCase (jsonCamelCase p) = p := by
  unfold marshalFieldMask
  rw [Option.isSome_map]
  constructor
  · intro h
    cases hm : fmMarshalPaths ps with
    | none => rw [hm] at h; cases h
    | some ccs => exact (fmMarshalPaths_some ps ccs hm).2
  · intro h
    rw [fmMarshalPaths_of_all ps h]; rfl

/-- Whenever `marshalFieldMask` succeeds, `unmarshalFieldMask` of its text gives back exactly the paths
(any number of paths, including none). -/
theorem fieldmask_roundtrip (ps : List Str) (t : Str) (h : marshalFieldMask ps = some t) :
    unmarshalFieldMask t = some ps := by
  unfold marshalFieldMask at h
  cases hm : fmMarshalPaths ps with
  | none => simp [hm] at h
  | some ccs =>
    simp only [hm, Option.map_some, Option.some.injEq] at h
    obtain ⟨hcc, hall⟩ := fmMarshalPaths_some ps ccs hm
    subst h; subst hcc
    cases ps with
    | nil => rfl
    | cons p r =>
      -- all characters of the text are letters, digits, '.' or ','
      have hchars : ∀ x ∈ (p :: r).map jsonCamelCase, ∀ c ∈ x, camelChar c = true := by
        intro x hx
        obtain ⟨q, hq, e⟩ := List.mem_map.mp hx
        subst e
        exact camel_chars_of_valid (hall q hq).1
      have hsp : ∀ c ∈ joinComma ((p :: r).map jsonCamelCase), isSpace c = false :=
        joinComma_chars _ (fun c => isSpace c = false) (by decide)
          (fun x hx c hc => (camelChar_props (hchars x hx c hc)).2.2)
      have hne : jsonCamelCase p ≠ [] := by
        intro e
        have h1 := (hall p List.mem_cons_self).2
        rw [e] at h1
        exact fullNameValid_ne_nil (hall p List.mem_cons_self).1 h1.symm
      unfold unmarshalFieldMask
      rw [trimSpace_id _ hsp, if_neg (by simpa using joinComma_ne_nil _ _ hne),
        splitComma_joinComma _ (by simp) (fun x hx c hc => (camelChar_props (hchars x hx c hc)).2.1)]
      exact fmUnmarshalPaths_camel (p :: r) hall

example : marshalFieldMask ["foo_bar.baz".toList, "a1".toList] = some "fooBar.baz,a1".toList ∧
    marshalFieldMask ["fooBar".toList] = none ∧ marshalFieldMask ["foo__bar".toList] = none ∧
    marshalFieldMask ["foo_1".toList] = none ∧ marshalFieldMask ["".toList] = none ∧ marshalFieldMask [] = some [] := by
  decide

/-! ## Struct / Value / ListValue ↔ JSON tree -/

/-- `marshalKnownValue` fails exactly when some `Value` in the tree has no kind set or holds NaN/±Inf. -/
theorem value_marshal_iff (v : PValue) : (marshalValue v).isSome = okValue v := marshalValue_isSome v

/-- Value → JSON → Value is the identity on every proper value (maps with distinct keys, any depth). -/
theorem value_roundtrip (v : PValue) (j : JValue) (hc : canonValue v = true) (h : marshalValue v = some j) :
    unmarshalValue j = some v := unmarshal_marshalValue v j hc h

/-- JSON → Value → JSON is the identity on every JSON tree with finite numbers (object keys in ascending
order, which is the order `marshalMap` emits), and the value is the plain translation of the tree. -/
theorem json_roundtrip (j : JValue) (h : jcanonValue j = true) :
    unmarshalValue j = some (toP j) ∧ marshalValue (toP j) = some j := by
  obtain ⟨h1, h2, _⟩ := json_value_iso j h
  exact ⟨h1, h2⟩

/-- Whatever `unmarshalKnownValue` accepts is a proper value (duplicate keys were rejected). -/
theorem unmarshalValue_proper (j : JValue) (v : PValue) (h : unmarshalValue j = some v) :
    canonValue v = true := unmarshalValue_canon j v h

/-- the same three statements for Struct (= its field map) and ListValue -/
theorem struct_roundtrip (fs : PFields) (ms : JMembers) (hc : canonFields fs = true)
    (h : marshalFields fs = some ms) : unmarshalMembers ms = some fs := unmarshal_marshalFields fs ms hc h

theorem listvalue_roundtrip (vs : PList) (es : JElems) (hc : canonList vs = true)
    (h : marshalList vs = some es) : unmarshalElems es = some vs := unmarshal_marshalList vs es hc h

example : marshalValue (.struct (.cons ['a'] (.num 0x7FF0000000000000) .nil)) = none ∧
    marshalValue (.list (.cons .unset .nil)) = none ∧
    marshalValue (.struct (.cons ['a'] .null (.cons ['b'] (.list .nil) .nil))) =
      some (.obj (.cons ['a'] .null (.cons ['b'] (.arr .nil) .nil))) ∧
    unmarshalValue (.obj (.cons ['a'] .null (.cons ['a'] .null .nil))) = none := by
  refine ⟨?_, ?_, ?_, ?_⟩ <;> rfl

/-! ## Dispatch -/

/-- The unmarshal table is the marshal table plus `Empty` (whose marshal form `{}` is the regular one). -/
theorem dispatch_agree (parent short : String) :
    wellKnownTypeUnmarshaler parent short = wellKnownTypeMarshaler parent short ∨
      (parent = "google.protobuf" ∧ short = "Empty" ∧ wellKnownTypeMarshaler parent short = none ∧
        wellKnownTypeUnmarshaler parent short = some .empty) := by
  unfold wellKnownTypeUnmarshaler wellKnownTypeMarshaler
  by_cases hp : parent = "google.protobuf"
  · subst hp
    simp only [if_true]
    cases hm : marshalerTable.lookup short with
    | some w =>
      left
      unfold unmarshalerTable
      rw [List.lookup_append, hm]; rfl
    | none =>
      by_cases he : short = "Empty"
      · right; subst he; exact ⟨trivial, rfl, hm, by decide⟩
      · left
        have hb : (short == "Empty") = false := by simpa using he
        unfold unmarshalerTable
        rw [List.lookup_append, hm]
        simp [List.lookup, hb]
  · left; simp [hp]

/-- only names directly inside package `google.protobuf` are dispatched -/
theorem dispatch_only_wkt_package (parent short : String) (h : parent ≠ "google.protobuf") :
    wellKnownTypeMarshaler parent short = none ∧ wellKnownTypeUnmarshaler parent short = none := by
  simp [wellKnownTypeMarshaler, wellKnownTypeUnmarshaler, h]

end C23
