import PbVerif.Lemmas.FieldMask
/-
C44 — FieldMask operations implement path-set algebra.

  "Normalize is idempotent and returns a sorted, prefix-free list covering exactly the same paths;
   Union and Intersect cover exactly the union and intersection of the paths covered by their inputs;
   New/Append/IsValid accept exactly the paths that name a field reachable through singular message
   fields of the given message type."

All statements are about `Model.FieldMask.*` (PbVerif/Model/FieldMask.lean), which mirrors
/repo/types/known/fieldmaskpb/field_mask.pb.go function by function and is executed against the real
functions by go/harness/fieldmask on every check run.  Paths are arbitrary byte strings and path
lists have arbitrary length: nothing below is bounded.

`covers P q` (Lemmas/FieldMask.lean) is `∃ p ∈ P, hasPathPrefix q p = true`: the mask `P` selects `q`.
-/
open Model.FieldMask
namespace C44

/-- `covers` is exactly the predicate of the task statement. -/
theorem covers_def (P : List Path) (q : Path) :
    covers P q ↔ ∃ p ∈ P, hasPathPrefix q p = true := Iff.rfl

/-! ### hasPathPrefix and lessPath, as coded -/

/-- `hasPathPrefix path prefix`: equal, or `prefix` followed by `'.'` and anything. -/
theorem hasPathPrefix_spec (q p : Path) :
    hasPathPrefix q p = true ↔ q = p ∨ ∃ r, q = p ++ dot :: r := hasPathPrefix_iff

/-- `lessPath` is the lexicographic order on bytes re-keyed by `b ↦ (b - '.') mod 256`,
a proper prefix being smaller.  `'.'` has key 0, so it is the least symbol. -/
theorem lessPath_lex (x y : Path) :
    lessPath x y = true ↔ List.Lex (fun a b : Nat => a < b) (x.map key) (y.map key) := by
  induction x generalizing y with
  | nil =>
    cases y with
    | nil => simp
    | cons b y => simp
  | cons a x ih =>
    cases y with
    | nil => simp
    | cons b y =>
      rw [lessPath_cons_cons]
      simp only [List.map_cons]
      constructor
      · intro h
        by_cases hab : a = b
        · subst hab; simp only [if_true] at h; exact List.Lex.cons ((ih y).1 h)
        · simp only [hab, if_false, decide_eq_true_eq] at h; exact List.Lex.rel h
      · intro h
        generalize hka : key a = ka at h
        generalize hkb : key b = kb at h
        generalize hx : List.map key x = mx at h
        generalize hy : List.map key y = my at h
        cases h with
        | rel h =>
          have hab : ¬ a = b := by intro e; subst e; omega
          simp [hab, h]
        | cons h =>
          have hab : a = b := key_inj (hka.trans hkb.symm)
          subst hab
          simp only [if_true]
          exact (ih y).2 (by rw [hx, hy]; exact h)

theorem key_eq (b : Byte) : key b = (b.toNat + 210) % 256 := by
  unfold key dot; bv_omega

theorem key_dot_least (b : Byte) : key dot ≤ key b := by rw [key_dot]; omega

theorem lessPath_irrefl (x : Path) : lessPath x x = false := Model.FieldMask.lessPath_irrefl x

theorem lessPath_asymm (x y : Path) (h : lessPath x y = true) : lessPath y x = false :=
  Model.FieldMask.lessPath_asymm h

theorem lessPath_trans (x y z : Path) (h1 : lessPath x y = true) (h2 : lessPath y z = true) :
    lessPath x z = true := Model.FieldMask.lessPath_trans h1 h2

/-- trichotomy: distinct paths are ordered one way or the other (so `sort.Slice` has exactly one
possible result up to identical strings). -/
theorem lessPath_trichotomy (x y : Path) :
    lessPath x y = true ∨ x = y ∨ lessPath y x = true := by
  by_cases e : x = y
  · exact Or.inr (Or.inl e)
  · rcases lessPath_total e with h | h
    · exact Or.inl h
    · exact Or.inr (Or.inr h)

/-- any sorted permutation of `l` is the model's `sortPaths l`: the result of `sort.Slice` does
not depend on the (unstable, unspecified) algorithm. -/
theorem sort_unique (l l' : List Path) (hp : l'.Perm l)
    (hs : l'.Pairwise (fun a b => lessPath b a = false)) : l' = sortPaths l := by
  have hs' : l'.Pairwise (fun a b => lePath a b = true) :=
    hs.imp (fun h => by unfold lePath; simp [h])
  exact List.Perm.eq_of_pairwise (le := fun a b => lePath a b = true)
    (fun a b _ _ h1 h2 => lePath_antisymm h1 h2) hs' (sortPaths_pairwise l)
    (hp.trans (sortPaths_perm l).symm)

/-! ### Normalize -/

def Sorted (l : List Path) : Prop := l.Pairwise (fun x y => lessPath x y = true)

/-- no element is a path-prefix of (or equal to) another one -/
def PrefixFree (l : List Path) : Prop :=
  l.Pairwise (fun x y => hasPathPrefix x y = false ∧ hasPathPrefix y x = false)

theorem normalize_chain (P : List Path) : (normalizePaths P).Pairwise StrictChain := by
  rw [normalizePaths_eq]; exact elideAux_none_spec _ (sortPaths_pairwise P)

theorem normalize_sorted (P : List Path) : Sorted (normalizePaths P) :=
  (normalize_chain P).imp (fun h => h.1)

theorem normalize_prefix_free (P : List Path) : PrefixFree (normalizePaths P) := by
  refine (normalize_chain P).imp ?_
  intro x y ⟨hlt, hyx⟩
  refine ⟨?_, hyx⟩
  cases hxy : hasPathPrefix x y with
  | false => rfl
  | true =>
    rcases hasPathPrefix_le hxy with e | h
    · subst e; rw [Model.FieldMask.lessPath_irrefl] at hlt; cases hlt
    · rw [Model.FieldMask.lessPath_asymm hlt] at h; cases h

theorem normalize_covers (P : List Path) (q : Path) : covers (normalizePaths P) q ↔ covers P q := by
  rw [normalizePaths_eq, covers_elideAux_none, covers_of_perm (sortPaths_perm P)]

/-- every path of the result is one of the input paths -/
theorem normalize_subset (P : List Path) : ∀ p ∈ normalizePaths P, p ∈ P := by
  intro p hp
  rw [normalizePaths_eq] at hp
  exact (sortPaths_perm P).mem_iff.1 ((elideAux_sublist none _).subset hp)

/-- the lists that `Normalize` leaves alone are exactly the strictly sorted prefix-free ones -/
theorem normalize_fixed_iff (P : List Path) : normalizePaths P = P ↔ P.Pairwise StrictChain := by
  constructor
  · intro h; rw [← h]; exact normalize_chain P
  · intro h
    have hs : sortPaths P = P := List.mergeSort_of_pairwise (h.imp StrictChain.le)
    rw [normalizePaths_eq, hs, elideAux_none_of_chain P h]

theorem normalize_idempotent (P : List Path) :
    normalizePaths (normalizePaths P) = normalizePaths P :=
  (normalize_fixed_iff _).2 (normalize_chain P)

/-- `Normalize` is a canonical form: masks that cover the same paths normalize to the same list. -/
theorem normalize_canonical (P Q : List Path) (h : ∀ q, covers P q ↔ covers Q q) :
    normalizePaths P = normalizePaths Q := by
  have key : ∀ (P Q : List Path), (∀ q, covers P q ↔ covers Q q) →
      ∀ p ∈ normalizePaths P, p ∈ normalizePaths Q := by
    intro P Q h p hp
    have cA : ∀ q, covers (normalizePaths P) q ↔ covers (normalizePaths Q) q := by
      intro q; rw [normalize_covers, normalize_covers]; exact h q
    obtain ⟨p', hp', h1⟩ := (cA p).1 ⟨p, hp, hasPathPrefix_refl p⟩
    obtain ⟨p'', hp'', h2⟩ := (cA p').2 ⟨p', hp', hasPathPrefix_refl p'⟩
    have h3 := hasPathPrefix_trans h1 h2
    have pf : ∀ x ∈ normalizePaths P, ∀ y ∈ normalizePaths P,
        x = y ∨ (hasPathPrefix x y = false ∧ hasPathPrefix y x = false) := by
      have hsym : ∀ x y : Path, (x = y ∨ (hasPathPrefix x y = false ∧ hasPathPrefix y x = false)) →
          (y = x ∨ (hasPathPrefix y x = false ∧ hasPathPrefix x y = false)) := by
        intro x y hxy
        rcases hxy with e | ⟨a, b⟩
        · exact Or.inl e.symm
        · exact Or.inr ⟨b, a⟩
      have hpw : (normalizePaths P).Pairwise
          (fun x y => x = y ∨ (hasPathPrefix x y = false ∧ hasPathPrefix y x = false)) :=
        (normalize_prefix_free P).imp (fun h => Or.inr h)
      intro x hx y hy
      exact List.Pairwise.forall_of_forall_of_flip
        (R := fun x y => x = y ∨ (hasPathPrefix x y = false ∧ hasPathPrefix y x = false))
        (fun x _ => Or.inl rfl) hpw (hpw.imp (fun {a b} h => hsym a b h)) hx hy
    have e : p = p'' := by
      rcases pf p hp p'' hp'' with e | ⟨a, _⟩
      · exact e
      · rw [h3] at a; cases a
    subst e
    have : p = p' := hasPathPrefix_antisymm h1 h2
    subst this
    exact hp'
  have nd : ∀ P : List Path, (normalizePaths P).Nodup := by
    intro P
    refine (normalize_sorted P).imp ?_
    intro a b hab e
    subst e
    rw [Model.FieldMask.lessPath_irrefl] at hab; cases hab
  have perm : (normalizePaths P).Perm (normalizePaths Q) :=
    (List.perm_ext_iff_of_nodup (nd P) (nd Q)).2
      (fun a => ⟨key P Q h a, key Q P (fun q => (h q).symm) a⟩)
  exact List.Perm.eq_of_pairwise (le := fun a b => lessPath a b = true)
    (fun a b _ _ h1 h2 => by rw [Model.FieldMask.lessPath_asymm h1] at h2; cases h2)
    (normalize_sorted P) (normalize_sorted Q) perm

/-! ### Union -/

theorem union_eq (mx my : List Path) (ms : List (List Path)) :
    union mx my ms = normalizePaths (mx ++ my ++ ms.flatten) := by
  unfold union; rw [foldl_append_eq]

/-- n-ary: `Union(mx, my, ms...)` covers `q` iff one of the inputs does. -/
theorem union_covers (mx my : List Path) (ms : List (List Path)) (q : Path) :
    covers (union mx my ms) q ↔ covers mx q ∨ covers my q ∨ ∃ m ∈ ms, covers m q := by
  rw [union_eq, normalize_covers, covers_append, covers_append, covers_flatten, or_assoc]

theorem union_covers_two (P Q : List Path) (q : Path) :
    covers (union P Q []) q ↔ covers P q ∨ covers Q q := by
  rw [union_covers]; simp

theorem union_normal (mx my : List Path) (ms : List (List Path)) :
    Sorted (union mx my ms) ∧ PrefixFree (union mx my ms) :=
  ⟨normalize_sorted _, normalize_prefix_free _⟩

/-! ### Intersect -/

/-- The two-index loop terminates on *all* inputs (sorted or not): one of the four `case`s of the
`switch` always fires, so an index always advances.  (`none` in the model = the Go loop spins.) -/
theorem intersectLoop_terminates (l1 l2 : List Path) :
    ∃ r, intersectLoop (l1.length + l2.length) l1 l2 = some r :=
  intersectLoop_some _ l1 l2 (Nat.le_refl _)

/-- one `intersect(out, in)` step covers exactly what both sides cover -/
theorem intersectStep_covers (out inp : List Path) :
    ∃ r, intersectStep out inp = some r ∧ ∀ q, covers r q ↔ covers inp q ∧ covers out q := by
  unfold intersectStep
  obtain ⟨r, hr⟩ := intersectLoop_terminates (normalizePaths inp) (normalizePaths out)
  refine ⟨r, hr, fun q => ?_⟩
  have h1 : HeadLe (normalizePaths inp) := headLe_of_pairwise ((normalize_chain inp).imp StrictChain.le)
  have h2 : HeadLe (normalizePaths out) := headLe_of_pairwise ((normalize_chain out).imp StrictChain.le)
  rw [intersectLoop_covers _ _ _ r h1 h2 hr q, normalize_covers, normalize_covers]

theorem intersectFold_covers (out : List Path) (ins : List (List Path)) :
    ∃ r, intersectFold out ins = some r ∧ ∀ q, covers r q ↔ covers out q ∧ ∀ m ∈ ins, covers m q := by
  induction ins generalizing out with
  | nil => exact ⟨out, rfl, fun q => by simp⟩
  | cons m ins ih =>
    obtain ⟨r1, h1, c1⟩ := intersectStep_covers out m
    obtain ⟨r2, h2, c2⟩ := ih r1
    refine ⟨r2, by simp [intersectFold, h1, h2], fun q => ?_⟩
    rw [c2, c1]
    simp only [List.mem_cons, forall_eq_or_imp]
    constructor
    · rintro ⟨⟨a, b⟩, c⟩; exact ⟨b, a, c⟩
    · rintro ⟨b, a, c⟩; exact ⟨⟨a, b⟩, c⟩

/-- n-ary: `Intersect(mx, my, ms...)` terminates, and its result covers `q` iff every input does;
the result is in normal form. -/
theorem intersect_covers (mx my : List Path) (ms : List (List Path)) :
    ∃ r, intersect mx my ms = some r ∧ Sorted r ∧ PrefixFree r ∧
      ∀ q, covers r q ↔ covers mx q ∧ covers my q ∧ ∀ m ∈ ms, covers m q := by
  obtain ⟨r, hr, c⟩ := intersectFold_covers (union mx my ms) (mx :: my :: ms)
  refine ⟨normalizePaths r, by simp [intersect, hr], normalize_sorted r, normalize_prefix_free r, fun q => ?_⟩
  rw [normalize_covers, c, union_covers]
  simp only [List.mem_cons, forall_eq_or_imp]
  constructor
  · rintro ⟨_, h⟩; exact h
  · intro h; exact ⟨Or.inl h.1, h⟩

theorem intersect_covers_two (P Q : List Path) :
    ∃ r, intersect P Q [] = some r ∧ ∀ q, covers r q ↔ covers P q ∧ covers Q q := by
  obtain ⟨r, hr, _, _, c⟩ := intersect_covers P Q []
  exact ⟨r, hr, fun q => by rw [c]; simp⟩

/-! ### New / Append / IsValid over an abstract schema

`Schema` is a table of message descriptors (fields refer to their message type by index, so recursive
message types are finite); a `Field` records what `numValidPaths` reads from a descriptor:
`Name()`, `Kind() == GroupKind`, `TextName()`, `Message()`, `IsList()`, `IsMap()`. -/

/-- `rangeFields` visits `strings.Split(path, ".")`: the components are dot-free, there is at least
one, joining them with `.` gives the path back, and `splitDots` is the only such decomposition. -/
theorem splitDots_spec (p : Path) :
    splitDots p ≠ [] ∧ (∀ f ∈ splitDots p, dot ∉ f) ∧ joinDots (splitDots p) = p :=
  ⟨splitDots_ne_nil p, splitDots_dotfree p, joinDots_splitDots p⟩

theorem splitDots_unique (cs : List Path) (hne : cs ≠ []) (hd : ∀ f ∈ cs, dot ∉ f) :
    splitDots (joinDots cs) = cs := splitDots_joinDots cs hne hd

/-- The component `c` selects the field `fd` of message `md`, declaratively:
a non-group-kind field by its name; a group-kind field (proto2 group or editions DELIMITED field) by its
*text name* (`TextName()`: the message type name when the field is group-like, else the field name),
provided the field is itself called like that or is called `strings.ToLower` of it and no field
called `c` shadows it.  (This is the rule coded in the closure of `numValidPaths`.) -/
def Names (md : MsgDef) (c : Path) (fd : Field) : Prop :=
  fd ∈ md ∧
  ((fd.isGroup = false ∧ fd.name = c) ∨
   (fd.isGroup = true ∧ fd.textName = c ∧
      (fd.name = c ∨ (fd.name = toLower c ∧ ∀ g ∈ md, g.name ≠ c))))

theorem lookupField_sound {md : MsgDef} {c : Path} {fd : Field}
    (h : lookupField md c = some fd) : Names md c fd := by
  unfold lookupField at h
  split at h
  next hn =>
    split at h
    next gd hg =>
      split at h
      next hc =>
        simp only [Option.some.injEq] at h; subst h
        simp only [Bool.and_eq_true, beq_iff_eq] at hc
        obtain ⟨hm, hname⟩ := byName_some hg
        exact ⟨hm, Or.inr ⟨hc.1, hc.2, Or.inr ⟨hname, byName_none.1 hn⟩⟩⟩
      next => cases h
    next => cases h
  next fd' hf =>
    obtain ⟨hm, hname⟩ := byName_some hf
    split at h
    next => cases h
    next hc =>
      simp only [Option.some.injEq] at h; subst h
      refine ⟨hm, ?_⟩
      cases hg : fd'.isGroup with
      | false => exact Or.inl ⟨rfl, hname⟩
      | true =>
        have : fd'.textName = c := by simpa [hg] using hc
        exact Or.inr ⟨rfl, this, Or.inl hname⟩

theorem lookupField_complete {md : MsgDef} (hnd : (md.map (·.name)).Nodup) {c : Path} {fd : Field}
    (h : Names md c fd) : lookupField md c = some fd := by
  obtain ⟨hm, h⟩ := h
  have hb := byName_eq_some_of_mem hnd hm
  unfold lookupField
  rcases h with ⟨hg, hname⟩ | ⟨hg, hmsg, hname | ⟨hname, hno⟩⟩
  · rw [← hname, hb]; simp [hg]
  · rw [← hname, hb]; simp [hg, hmsg, hname]
  · rw [byName_none.2 hno, ← hname, hb]; simp [hg, hmsg]

/-- with unique field names, the closure's lookup is exactly `Names` -/
theorem lookupField_iff {md : MsgDef} (hnd : (md.map (·.name)).Nodup) (c : Path) (fd : Field) :
    lookupField md c = some fd ↔ Names md c fd :=
  ⟨lookupField_sound, lookupField_complete hnd⟩

/-- `Walk schema md cs`: the components `cs` (non-empty) walk fields starting in message `md`;
every component but the last selects a field that is neither a list nor a map and whose type is a
message (`fd.Message() != nil`), in which the walk continues. -/
inductive Walk (schema : Schema) : MsgDef → List Path → Prop
  | last {md : MsgDef} {c : Path} {fd : Field} :
      Names md c fd → Walk schema md [c]
  | step {md md' : MsgDef} {c : Path} {fd : Field} {i : Nat} {cs : List Path} :
      Names md c fd → fd.isList = false → fd.isMap = false →
      fd.target = some i → schema[i]? = some md' → Walk schema md' cs → Walk schema md (c :: cs)

def UniqueNames (schema : Schema) : Prop := ∀ md ∈ schema, (md.map (·.name)).Nodup

theorem walkFields_iff (schema : Schema) (hu : UniqueNames schema) (cs : List Path)
    (o : Option MsgDef) (ho : ∀ md, o = some md → md ∈ schema) :
    walkFields schema o cs = true ↔ cs = [] ∨ ∃ md, o = some md ∧ Walk schema md cs := by
  induction cs generalizing o with
  | nil => simp [walkFields]
  | cons c cs ih =>
    simp only [walkFields, reduceCtorEq, false_or]
    constructor
    · intro h
      cases o with
      | none => simp [stepField] at h
      | some md =>
        have hmd := ho md rfl
        cases hl : lookupField md c with
        | none => simp [stepField, hl] at h
        | some fd =>
          simp only [stepField, hl] at h
          have hn := lookupField_sound hl
          have ho' : ∀ md', nextMsg schema fd = some md' → md' ∈ schema := by
            intro md' e
            unfold nextMsg at e
            split at e
            · cases e
            · cases ht : fd.target with
              | none => simp [ht] at e
              | some i => simp only [ht, Option.bind_some] at e; exact List.mem_of_getElem? e
          rcases (ih _ ho').1 h with rfl | ⟨md', e, w⟩
          · exact ⟨md, rfl, Walk.last hn⟩
          · unfold nextMsg at e
            split at e
            · cases e
            next hlm =>
              simp only [Bool.or_eq_true, not_or, Bool.not_eq_true] at hlm
              cases ht : fd.target with
              | none => simp [ht] at e
              | some i =>
                simp only [ht, Option.bind_some] at e
                exact ⟨md, rfl, Walk.step hn hlm.1 hlm.2 ht e w⟩
    · rintro ⟨md, rfl, w⟩
      have hmd := ho md rfl
      cases w with
      | last hn =>
        rw [show stepField schema (some md) c = _ from rfl]
        simp [stepField, lookupField_complete (hu md hmd) hn, walkFields]
      | step hn hl hm ht hs w =>
        rename_i md' fd i
        have hnext : nextMsg schema fd = some md' := by
          unfold nextMsg; simp only [hl, hm, Bool.or_self, Bool.false_eq_true, if_false, ht, Option.bind_some]; exact hs
        simp only [stepField, lookupField_complete (hu md hmd) hn, hnext]
        exact (ih _ (fun md' e => by cases e; exact List.mem_of_getElem? hs)).2 (Or.inr ⟨_, rfl, w⟩)

/-- **Characterisation of validity.**  Over a schema with unique field names per message, the loop body
of `numValidPaths` accepts `path` for the message type `schema[root]` exactly when the dot-separated
components of `path` walk fields from the root through singular message fields. -/
theorem pathValid_iff (schema : Schema) (hu : UniqueNames schema) (root : Nat) (md0 : MsgDef)
    (hr : schema[root]? = some md0) (path : Path) :
    pathValid schema root path = true ↔ Walk schema md0 (splitDots path) := by
  unfold pathValid
  rw [walkFields_iff schema hu _ _ (fun md e => by rw [hr] at e; cases e; exact List.mem_of_getElem? hr)]
  simp [splitDots_ne_nil, hr]

theorem numValidPaths_eq (schema : Schema) (root : Nat) (paths : List Path) :
    numValidPaths schema root paths = (paths.takeWhile (pathValid schema root)).length := by
  induction paths with
  | nil => rfl
  | cons p ps ih =>
    simp only [numValidPaths, List.takeWhile_cons]
    split <;> simp [ih]

theorem numValidPaths_le (schema : Schema) (root : Nat) (paths : List Path) :
    numValidPaths schema root paths ≤ paths.length := by
  rw [numValidPaths_eq]; exact (List.takeWhile_sublist _).length_le

/-- `IsValid` (non-nil receiver) holds exactly when every path is valid. -/
theorem isValid_iff (schema : Schema) (root : Nat) (paths : List Path) :
    isValid schema root paths = true ↔ ∀ p ∈ paths, pathValid schema root p = true := by
  unfold isValid
  induction paths with
  | nil => simp [numValidPaths]
  | cons p ps ih =>
    simp only [numValidPaths, List.length_cons, List.mem_cons, forall_eq_or_imp]
    cases hp : pathValid schema root p with
    | false => simp
    | true => simpa using ih

/-- `Append` appends exactly the longest all-valid prefix of `paths` (`paths[:numValid]` cannot panic)
and returns a nil error exactly when every path is valid. -/
theorem append_spec (schema : Schema) (root : Nat) (xs paths : List Path) :
    (append schema root xs paths).1 = xs ++ paths.takeWhile (pathValid schema root) ∧
    ((append schema root xs paths).2 = true ↔ ∀ p ∈ paths, pathValid schema root p = true) := by
  unfold append
  have htake : paths.take (numValidPaths schema root paths) = paths.takeWhile (pathValid schema root) := by
    induction paths with
    | nil => rfl
    | cons p ps ih =>
      simp only [numValidPaths, List.takeWhile_cons]
      split <;> simp [ih]
  refine ⟨by simp only [htake], ?_⟩
  rw [← isValid_iff]
  unfold isValid
  have := numValidPaths_le schema root paths
  simp only [List.isEmpty_iff, List.drop_eq_nil_iff, beq_iff_eq]
  omega

theorem new_spec (schema : Schema) (root : Nat) (paths : List Path) :
    (new schema root paths).1 = paths.takeWhile (pathValid schema root) ∧
    ((new schema root paths).2 = true ↔ ∀ p ∈ paths, pathValid schema root p = true) := by
  have := append_spec schema root [] paths
  simpa [new] using this

/-! ### which fields can be named at all

Every field can be named by some path component (so every field reachable through singular message
fields can be named by some path).  What the theorem needs from a descriptor is what
`protoreflect.FieldDescriptor.TextName` guarantees (`TextNameWF`): for a group-kind field the text name
is the field name itself (DELIMITED field that is not group-like), or the field name is the lower-cased
text name (group-like field: text name = message type name) and no *other* field of the message is
called like that text name (the closure looks `c` up by field name first, so such a field would
shadow the group; the harness checks `TextNameWF` on every corpus message type).

History: before /repo commit 9230271 the closure compared with `Message().Name()` instead of `TextName()`
and this statement was refuted by `not_group_like_delimited` of testeditions.TestAllTypes
(see the `fixed:` line in known-findings.txt). -/

theorem field_selectable_iff (md : MsgDef) (hnd : (md.map (·.name)).Nodup) (fd : Field) (hm : fd ∈ md) :
    (∃ c, lookupField md c = some fd) ↔
      (fd.isGroup = false ∨ fd.name = fd.textName ∨
        (fd.name = toLower fd.textName ∧ ∀ g ∈ md, g.name ≠ fd.textName)) := by
  constructor
  · rintro ⟨c, h⟩
    obtain ⟨_, h⟩ := lookupField_sound h
    rcases h with ⟨hg, _⟩ | ⟨_, hmsg, hname | ⟨hname, hno⟩⟩
    · exact Or.inl hg
    · exact Or.inr (Or.inl (hname.trans hmsg.symm))
    · subst hmsg; exact Or.inr (Or.inr ⟨hname, hno⟩)
  · intro h
    cases hg : fd.isGroup with
    | false => exact ⟨fd.name, lookupField_complete hnd ⟨hm, Or.inl ⟨hg, rfl⟩⟩⟩
    | true =>
      rcases h with h | h | ⟨h1, h2⟩
      · rw [hg] at h; cases h
      · exact ⟨fd.textName, lookupField_complete hnd ⟨hm, Or.inr ⟨hg, rfl, Or.inl h⟩⟩⟩
      · exact ⟨fd.textName, lookupField_complete hnd ⟨hm, Or.inr ⟨hg, rfl, Or.inr ⟨h1, h2⟩⟩⟩⟩

/-- what `TextName()` guarantees for a group-kind field (see the section comment) -/
def TextNameWF (md : MsgDef) (fd : Field) : Prop :=
  fd.isGroup = true →
    fd.textName = fd.name ∨ (fd.name = toLower fd.textName ∧ ∀ g ∈ md, g.name ≠ fd.textName)

theorem every_field_selectable (md : MsgDef) (hnd : (md.map (·.name)).Nodup) (fd : Field)
    (hm : fd ∈ md) (hwf : TextNameWF md fd) : ∃ c, lookupField md c = some fd := by
  rw [field_selectable_iff md hnd fd hm]
  cases h : fd.isGroup with
  | false => exact Or.inl rfl
  | true =>
    rcases hwf h with e | e
    · exact Or.inr (Or.inl e.symm)
    · exact Or.inr (Or.inr e)

/-- the component that selects a field is its text name (group-kind) or its name (otherwise) -/
theorem lookupField_textName (md : MsgDef) (c : Path) (fd : Field) (h : lookupField md c = some fd) :
    c = if fd.isGroup then fd.textName else fd.name := by
  obtain ⟨_, h⟩ := lookupField_sound h
  rcases h with ⟨hg, hn⟩ | ⟨hg, ht, _⟩
  · simp [hg, hn]
  · simp [hg, ht]

/-- `optionalgroup` / `not_group_like_delimited` of testeditions.TestAllTypes, abbreviated:
field `g` (message type `G`, delimited, group-like: text name `G`) and field `x` (message type `G`,
delimited, not group-like: text name `x`). -/
def exGroupLike : Field := ⟨[103#8], true, [71#8], some 1, false, false⟩
def exNotGroupLike : Field := ⟨[120#8], true, [120#8], some 1, false, false⟩
def exMd : MsgDef := [exGroupLike, exNotGroupLike]

example : (exMd.map (·.name)).Nodup := by decide
example : TextNameWF exMd exGroupLike := by unfold TextNameWF; decide
example : TextNameWF exMd exNotGroupLike := by unfold TextNameWF; decide
example : lookupField exMd [71#8] = some exGroupLike := by decide       -- "G"
example : lookupField exMd [103#8] = none := by decide                  -- "g": a group-like field is not named by its field name
example : lookupField exMd [120#8] = some exNotGroupLike := by decide   -- "x": the repaired case

/-! ### non-vacuity: the predicates distinguish things, on concrete values

`a`=97 `b`=98 `c`=99 `.`=46 `!`=33 (sorts *below* `.` as a raw byte, above it for lessPath). -/

-- '.' first: "a.b" < "a!" < … although '!' < '.' as raw bytes; and "a.b" < "ab"
example : lessPath [97#8, 46#8, 98#8] [97#8, 33#8] = true := by decide
example : lessPath [97#8, 33#8] [97#8, 46#8, 98#8] = false := by decide
example : lessPath [97#8, 46#8, 98#8] [97#8, 98#8] = true := by decide
example : lessPath [97#8] [97#8, 46#8] = true := by decide
-- "a.b" is below "a"; "ab" and "a!" are not; "a." is (its second component is empty)
example : hasPathPrefix [97#8, 46#8, 98#8] [97#8] = true := by decide
example : hasPathPrefix [97#8, 98#8] [97#8] = false := by decide
example : hasPathPrefix [97#8, 33#8] [97#8] = false := by decide
example : hasPathPrefix [97#8, 46#8] [97#8] = true := by decide
-- covers is neither always true nor always false
example : covers [[97#8, 46#8, 98#8]] [97#8, 46#8, 98#8, 46#8, 99#8] := ⟨_, List.mem_cons_self, by decide⟩
example : ¬ covers [[97#8, 46#8, 98#8]] [97#8, 46#8, 98#8, 99#8] := by
  rintro ⟨p, hp, h⟩; simp only [List.mem_singleton] at hp; subst hp; revert h; decide
-- a strict chain with three elements: ["a.b", "ab", "a!"] is a fixed point of Normalize
example : normalizePaths [[97#8, 46#8, 98#8], [97#8, 98#8], [97#8, 33#8]] =
    [[97#8, 46#8, 98#8], [97#8, 98#8], [97#8, 33#8]] := by
  rw [normalize_fixed_iff]; unfold StrictChain; decide
-- Normalize really elides: ["a.b", "b", "a", "a"] ↦ ["a", "b"]
example : normalizePaths [[97#8, 46#8, 98#8], [98#8], [97#8], [97#8]] = [[97#8], [98#8]] := by
  have h : normalizePaths [[97#8], [98#8]] = [[97#8], [98#8]] := by
    rw [normalize_fixed_iff]; unfold StrictChain; decide
  rw [← h]
  apply normalize_canonical
  intro q
  simp only [covers, List.mem_cons, List.not_mem_nil, or_false, exists_eq_or_imp, exists_eq_left]
  constructor
  · rintro (h | h | h | h)
    · exact Or.inl (hasPathPrefix_trans h (by decide))
    · exact Or.inr h
    · exact Or.inl h
    · exact Or.inl h
  · rintro (h | h)
    · exact Or.inr (Or.inr (Or.inl h))
    · exact Or.inr (Or.inl h)
-- the intersect loop on ["a.b", "b"] and ["a", "b.c"] gives ["a.b", "b.c"]
example : intersectLoop 4 [[97#8, 46#8, 98#8], [98#8]] [[97#8], [98#8, 46#8, 99#8]] =
    some [[97#8, 46#8, 98#8], [98#8, 46#8, 99#8]] := by decide

/-- root = [a : M1, r : repeated M1, m : map, G g : group of M1, s : scalar, d : M1 delimited, not group-like];
M1 = [b : scalar, a : M1]; the third component of a field is its text name -/
def exSchema : Schema :=
  [ [ ⟨[97#8], false, [97#8], some 1, false, false⟩,
      ⟨[114#8], false, [114#8], some 1, true, false⟩,
      ⟨[109#8], false, [109#8], some 2, true, true⟩,
      ⟨[103#8], true, [71#8], some 1, false, false⟩,
      ⟨[115#8], false, [115#8], none, false, false⟩,
      ⟨[100#8], true, [100#8], some 1, false, false⟩ ],
    [ ⟨[98#8], false, [98#8], none, false, false⟩, ⟨[97#8], false, [97#8], some 1, false, false⟩ ],
    [ ⟨[107#8], false, [107#8], none, false, false⟩, ⟨[118#8], false, [118#8], none, false, false⟩ ] ]

example : UniqueNames exSchema := by unfold UniqueNames exSchema; decide
example : pathValid exSchema 0 [97#8, 46#8, 98#8] = true := by decide                      -- a.b
example : pathValid exSchema 0 [97#8, 46#8, 97#8, 46#8, 97#8, 46#8, 98#8] = true := by decide  -- a.a.a.b (recursive type)
example : pathValid exSchema 0 [114#8] = true := by decide                                 -- r
example : pathValid exSchema 0 [114#8, 46#8, 98#8] = false := by decide                    -- r.b: through a list
example : pathValid exSchema 0 [109#8, 46#8, 107#8] = false := by decide                   -- m.k: through a map
example : pathValid exSchema 0 [71#8, 46#8, 98#8] = true := by decide                      -- G.b: group by type name
example : pathValid exSchema 0 [103#8, 46#8, 98#8] = false := by decide                    -- g.b: not by field name
example : pathValid exSchema 0 [100#8, 46#8, 98#8] = true := by decide                     -- d.b: delimited, not group-like
example : pathValid exSchema 0 [115#8, 46#8, 98#8] = false := by decide                    -- s.b: through a scalar
example : pathValid exSchema 0 [97#8, 46#8] = false := by decide                           -- "a.": empty component
example : pathValid exSchema 0 [] = false := by decide                                     -- ""
example : pathValid exSchema 0 [97#8, 46#8, 120#8] = false := by decide                    -- a.x: unknown
example : (new exSchema 0 [[97#8], [114#8, 46#8, 98#8], [115#8]]) = ([[97#8]], false) := by decide

end C44
