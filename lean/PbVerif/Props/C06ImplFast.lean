import PbVerif.Lemmas.ImplFast
/-
C06 (table-driven decoder, T1 tie) — the varint fast paths that internal/impl inlines are
`protowire.ConsumeVarint`.

`Gen.ImplFast.*` is regenerated on every run by bin/gen-implfast: it finds every inlined fast path
in internal/impl/*.go structurally, checks each occurrence against the canonical shapes (modulo
variable names and the spelling of integer literals) and translates the TEXT of the first
occurrence of each shape with go2lean.  `Gen.Wire.consumeVarint` is the go2lean translation of
encoding/protowire.ConsumeVarint (C02).  Proved here, kernel-only, for every byte string:

* `implFastVarint_eq_consumeVarint` — shape (a), the `v, n` block of the consume* functions of
  codec_gen.go: same value, same length, same error encoding as `ConsumeVarint(b)`;
* `implFastTag_eq_consumeVarint`, `implFastSize_eq_consumeVarint` — shape (b), the tag loops of
  decode.go / lazy.go / validate.go / codec_extension.go and the length prefix of validate.go:
  the chain equals its own last branch `x, n = ConsumeVarint(b); if n < 0 { fail }; b = b[n:]`;
* `…_spec` — hence (C02 bridge) all of them compute `Spec.decVarint`;
* `implTagSplit_eq_decTag`, `implTagPath_accepts`, `implTagPath_sound` — `num = tag >> 3` with
  the `< MinValidNumber || > MaxValidNumber` check and `wtyp = tag & 7` give the number and wire
  type of `Spec.decTag`, and accept exactly when `Spec.decTag` accepts a number ≤ 2^29-1.

Hypotheses: `b.length < 2^63` (a Go slice; only needed where the code re-slices `b`), and for the
tag shape `b ≠ []` — the generator checks that every such site is the first statement of a
`for len(b) > 0` body (`implFastTag_needs_guard`: without the guard `b[0]` panics).
-/
open Gen.Wire Gen.ImplFast WireBridge
namespace C06

/-! ### shape (a) -/

theorem implFastVarint_eq_consumeVarint (b : List Byte) :
    implFastVarint b = consumeVarint b := ImplFast.implFastVarint_eq_consumeVarint b

/-- never panics; value, length and error code of the specification -/
theorem implFastVarint_spec (b : List Byte) :
    implFastVarint b = some (goVarint 0#64 0 (Spec.decVarint b)) := by
  rw [implFastVarint_eq_consumeVarint, consumeVarint_spec]

/-! ### shape (b) -/

theorem implFastTag_eq_consumeVarint (b : List Byte) (hne : b ≠ []) (hb : b.length < 2 ^ 63) :
    implFastTag b =
      (consumeVarint b).bind fun (v, n) =>
        if BitVec.slt n 0#64 then some (0#64, [], false)
        else (Go.slice b (some n) none).bind fun rest => some (v, rest, true) :=
  ImplFast.implFastTag_eq_slow b hne hb

theorem implFastSize_eq_consumeVarint (b : List Byte) (hb : b.length < 2 ^ 63) :
    implFastSize b =
      (consumeVarint b).bind fun (v, n) =>
        if BitVec.slt n 0#64 then some (0#64, [], false)
        else (Go.slice b (some n) none).bind fun rest => some (v, rest, true) :=
  ImplFast.implFastSize_eq_slow b hb

/-- (tag, remaining input, ok) — never panics under the loop guard -/
theorem implFastTag_spec (b : List Byte) (hne : b ≠ []) (hb : b.length < 2 ^ 63) :
    implFastTag b = some (match Spec.decVarint b with
      | .ok (v, n) => (BitVec.ofNat 64 v, b.drop n, true)
      | .error _ => (0#64, [], false)) := by
  rw [ImplFast.implFastTag_eq_slow b hne hb, ImplFast.slowAdvance_spec b hb]; rfl

theorem implFastSize_spec (b : List Byte) (hb : b.length < 2 ^ 63) :
    implFastSize b = some (match Spec.decVarint b with
      | .ok (v, n) => (BitVec.ofNat 64 v, b.drop n, true)
      | .error _ => (0#64, [], false)) := by
  rw [ImplFast.implFastSize_eq_slow b hb, ImplFast.slowAdvance_spec b hb]; rfl

/-- the hypothesis `b ≠ []` is needed: the tag fast path indexes `b[0]` unguarded -/
theorem implFastTag_needs_guard : implFastTag [] = none := ImplFast.implFastTag_nil

/-! ### the tag split -/

/-- `num`/`wtyp` of internal/impl = number/type of `Spec.decTag`, under the impl's range check
(`Spec.decTag` = `protowire.ConsumeTag` admits numbers up to 2^31-1, internal/impl only up to
`MaxValidNumber` = 2^29-1). -/
theorem implTagSplit_eq_decTag (b : List Byte) (v n : Nat) (hd : Spec.decVarint b = .ok (v, n)) :
    implTagSplit (BitVec.ofNat 64 v) =
      match Spec.decTag b with
      | .ok (num, typ, _) =>
        if num ≤ 536870911 then (BitVec.ofNat 32 num, BitVec.ofNat 8 typ, true) else (0#32, 0#8, false)
      | .error _ => (0#32, 0#8, false) := by
  obtain ⟨_, _, _, hv⟩ := decVarint_bounds b v n hd
  rw [ImplFast.implTagSplit_ofNat v hv]
  unfold Spec.decTag
  simp only [hd]
  by_cases h1 : v / 8 > 2147483647
  · rw [if_pos (Or.inr (by omega)), if_pos h1]
  · rw [if_neg h1]
    by_cases h2 : v / 8 < 1
    · rw [if_pos (Or.inl h2), if_pos h2]
    · rw [if_neg h2]
      by_cases h3 : 536870911 < v / 8
      · rw [if_pos (Or.inr h3)]
        simp only [if_neg (show ¬ v / 8 ≤ 536870911 by omega)]
      · rw [if_neg (by omega)]
        simp only [if_pos (show v / 8 ≤ 536870911 by omega)]

/-- the unchecked split of codec_extension.go (lazy extension bytes were validated before):
whenever `Spec.decTag` accepts, it yields the same number and type -/
theorem implTagSplitUnchecked_eq_decTag (b : List Byte) (num typ n : Nat)
    (hd : Spec.decTag b = .ok (num, typ, n)) :
    ∃ v, Spec.decVarint b = .ok (v, n) ∧
      implTagSplitUnchecked (BitVec.ofNat 64 v) = (BitVec.ofNat 32 num, BitVec.ofNat 8 typ) := by
  unfold Spec.decTag at hd
  cases hv : Spec.decVarint b with
  | error e => simp [hv] at hd
  | ok p =>
    obtain ⟨v, n'⟩ := p
    obtain ⟨_, _, _, hlt⟩ := decVarint_bounds b v n' hv
    simp only [hv] at hd
    split at hd
    · simp at hd
    · split at hd
      · simp at hd
      · simp only [Except.ok.injEq, Prod.mk.injEq] at hd
        obtain ⟨rfl, rfl, rfl⟩ := hd
        exact ⟨v, rfl, ImplFast.implTagSplitUnchecked_ofNat v hlt⟩

/-- completeness of the inlined tag path: whatever `Spec.decTag` accepts with a number the
table-driven decoder admits is accepted with the same number, type and remaining input -/
theorem implTagPath_accepts (b : List Byte) (hb : b.length < 2 ^ 63) (num typ n : Nat)
    (hd : Spec.decTag b = .ok (num, typ, n)) (hnum : num ≤ 536870911) :
    ∃ tag, implFastTag b = some (tag, b.drop n, true) ∧
      implTagSplit tag = (BitVec.ofNat 32 num, BitVec.ofNat 8 typ, true) := by
  have hne : b ≠ [] := by
    intro h; subst h; simp [Spec.decTag, Spec.decVarint, Spec.decVarintAux] at hd
  obtain ⟨v, hv, _⟩ := implTagSplitUnchecked_eq_decTag b num typ n hd
  refine ⟨BitVec.ofNat 64 v, ?_, ?_⟩
  · rw [implFastTag_spec b hne hb, hv]
  · rw [implTagSplit_eq_decTag b v n hv, hd]
    simp [hnum]

/-- soundness: if the inlined tag path accepts, `Spec.decTag` accepts the same number (≤ 2^29-1),
type and length -/
theorem implTagPath_sound (b : List Byte) (hne : b ≠ []) (hb : b.length < 2 ^ 63)
    (tag : BitVec 64) (rest : List Byte) (num : BitVec 32) (typ : BitVec 8)
    (h1 : implFastTag b = some (tag, rest, true)) (h2 : implTagSplit tag = (num, typ, true)) :
    ∃ nu ty n, Spec.decTag b = .ok (nu, ty, n) ∧ nu ≤ 536870911 ∧
      num = BitVec.ofNat 32 nu ∧ typ = BitVec.ofNat 8 ty ∧ rest = b.drop n := by
  rw [implFastTag_spec b hne hb] at h1
  cases hv : Spec.decVarint b with
  | error e => simp [hv] at h1
  | ok p =>
    obtain ⟨v, n⟩ := p
    simp only [hv, Option.some.injEq, Prod.mk.injEq, and_true] at h1
    obtain ⟨rfl, rfl⟩ := h1
    rw [implTagSplit_eq_decTag b v n hv] at h2
    cases hd : Spec.decTag b with
    | error e => simp [hd] at h2
    | ok q =>
      obtain ⟨nu, ty, n'⟩ := q
      have hn : n' = n := by
        unfold Spec.decTag at hd
        simp only [hv] at hd
        split at hd
        · simp at hd
        · split at hd
          · simp at hd
          · simp only [Except.ok.injEq, Prod.mk.injEq] at hd
            exact hd.2.2.symm
      subst hn
      simp only [hd] at h2
      by_cases hle : nu ≤ 536870911
      · simp only [hle, ↓reduceIte, Prod.mk.injEq, and_true] at h2
        exact ⟨nu, ty, n', rfl, hle, h2.1.symm, h2.2.symm, rfl⟩
      · simp [hle] at h2


/-! ### impl.Validate's varint-skip ladder (does not call ConsumeVarint) -/

/-- The ten-way `switch` pair of validate.go skips exactly the bytes `protowire.ConsumeVarint`
would consume, and fails exactly when `ConsumeVarint` reports an error (n < 0; Validate does not
distinguish truncated from overflow).  It never panics. -/
theorem implValidateSkipVarint_eq_consumeVarint (b : List Byte) (hb : b.length < 2 ^ 63) :
    implValidateSkipVarint b =
      (consumeVarint b).bind fun (_, n) =>
        if BitVec.slt n 0#64 then some ([], false)
        else (Go.slice b (some n) none).bind fun rest => some (rest, true) :=
  ImplFast.skip_eq_slow b hb

theorem implValidateSkipVarint_spec (b : List Byte) (hb : b.length < 2 ^ 63) :
    implValidateSkipVarint b = some (match Spec.decVarint b with
      | .ok (_, n) => (b.drop n, true)
      | .error _ => ([], false)) := by
  rw [ImplFast.skip_eq_slow b hb, ImplFast.slowSkip_spec b hb]; rfl

/-- Validate and the table-driven unmarshal agree on varint values at the leaf: the ladder
advances by the `n` that the `v, n` fast path of the consume* functions returns, and fails iff
that `n` is negative. -/
theorem implValidateSkipVarint_eq_implFastVarint (b : List Byte) (hb : b.length < 2 ^ 63) :
    implValidateSkipVarint b =
      (implFastVarint b).bind fun (_, n) =>
        if BitVec.slt n 0#64 then some ([], false)
        else (Go.slice b (some n) none).bind fun rest => some (rest, true) := by
  rw [implFastVarint_eq_consumeVarint]; exact ImplFast.skip_eq_slow b hb

/-- The tenth byte: after nine continuation bytes the ladder accepts exactly the bytes 0 and 1
(`b[9] < 0x80 && b[9] < 2` in the long branch is `b[9] < 2`; the `len(b) > 9` clause of the short
branch is dead code) — the same as ConsumeVarint's `y < 2` overflow check; anything else,
including a tenth continuation byte, is a failure. -/
theorem implValidateSkipVarint_tenth (p : List Byte) (hp9 : p.length = 9)
    (hp : ∀ x ∈ p, ¬ x.toNat < 128) (x9 : Byte) (r : List Byte)
    (hb : (p ++ x9 :: r).length < 2 ^ 63) :
    implValidateSkipVarint (p ++ x9 :: r) = some (if x9.toNat < 2 then (r, true) else ([], false)) := by
  rw [ImplFast.skip_eq_aux _ hb, ImplFast.skipAux_cont p hp (x9 :: r) 0 (by omega)]
  simp only [Nat.zero_add, hp9, ImplFast.skipAux, ge_iff_le, Nat.le_refl, ↓reduceIte]

/-! ### encoder side -/

/-- Scanner fact (gen-implfast/encoders.go): internal/impl, internal/encoding/messageset,
encoding/protodelim and proto contain NO re-implementation of varint size / varint append (no
`bits.Len`-style size formula, no `|0x80` continuation bit, no `>>7` shift ladder, no `1<<14…`
size ladder, no sizeVarint/appendVarint-named function): every varint, tag and length prefix is
produced by encoding/protowire (C01/C02).  Breaks as soon as one appears. -/
theorem noInlinedVarintEncoders : Gen.ImplFast.inlinedVarintEncoders = [] := rfl

/-! ### the hypotheses are satisfiable by non-trivial values -/

example : implFastVarint [0x96, 0x01, 0xff] = some (150#64, 2#64) := by decide
example : implFastTag [0x0a, 0x03] = some (10#64, [0x03], true) := by decide
example : implTagSplit 10#64 = (1#32, 2#8, true) := by decide
example : Spec.decTag [0x0a, 0x03] = .ok (1, 2, 1) := by rfl
example : implValidateSkipVarint [0x96, 0x01, 0x07] = some ([0x07], true) := by decide
example : implValidateSkipVarint [0xff, 0xff, 0xff, 0xff, 0xff, 0xff, 0xff, 0xff, 0xff, 0x02] = some ([], false) := by decide

end C06
