import PbVerif.Model.Registry
namespace C33
end C33
