import PbVerif.Lemmas.RegistryStep
/-
C33 — Registries behave like a conflict-checking name table.

`Model.Registry.Files` / `Types` mirror the maps of reflect/protoregistry/registry.go (`descsByName`,
`filesByPath`, `numFiles`; `typesByName`, `extensionsByMessage`, counters) with the code's order of
checks and insertions; `Model.Registry.Spec` is the abstract name table: the list `a` of accepted files
(resp. types), from which the set of declaration names `declNames a`, of package names `pkgNames a`,
of paths `paths a` and the extension table `extsOf a m` are derived.

A history is a list of API calls (`FOp` / `TOp`); all theorems hold for every history (no bound on
length, number of files, nesting depth).  The only hypothesis on a registered file is `FileD.wf`:
full names are unique inside the file — what `protodesc.NewFile` enforces for every descriptor that
exists (the harness checks `wf` on each file protodesc accepts).
-/
open Model.Registry
namespace C33

/-- every file handed to RegisterFile in the history is a well-formed descriptor -/
def OpsWF (ops : List FOp) : Prop := ∀ f, FOp.register f ∈ ops → f.wf = true

/-! ## 1. every result of every history matches the abstract name table -/

/-- Files: the answers of the map-based model to any history are the answers of the name table. -/
theorem files_refine (ops : List FOp) (h : OpsWF ops) :
    (Files.run {} ops).2 = (Spec.run [] ops).2 :=
  (filesRun_refines ops finv_init Spec.valid_nil h).1

/-- Types: the same, for RegisterMessage/Enum/Extension, Find*, Num*, Range*. -/
theorem types_refine (ops : List TOp) : (Types.run {} ops).2 = (Spec.runT [] ops).2 :=
  (typesRun_refines ops tinv_init).1

/-- `r` is the concrete state and `a` the abstract state after some history of well-formed files -/
def Reach (r : Files) (a : List FileD) : Prop :=
  ∃ ops, OpsWF ops ∧ (Files.run {} ops).1 = r ∧ (Spec.run [] ops).1 = a

def TReach (r : Types) (a : List TypeD) : Prop :=
  ∃ ops, (Types.run {} ops).1 = r ∧ (Spec.runT [] ops).1 = a

theorem reach_inv {r : Files} {a : List FileD} (h : Reach r a) : FInv r a ∧ Spec.Valid a := by
  obtain ⟨ops, wf, rfl, rfl⟩ := h
  exact (filesRun_refines ops finv_init Spec.valid_nil wf).2

theorem treach_inv {r : Types} {a : List TypeD} (h : TReach r a) : TInv r a := by
  obtain ⟨ops, rfl, rfl⟩ := h
  exact (typesRun_refines ops tinv_init).2

/-- the abstract state is exactly the list of files whose RegisterFile call answered "ok", in order -/
def accepted : List FOp → List FRes → List FileD
  | .register f :: ops, .regOk :: rs => f :: accepted ops rs
  | _ :: ops, _ :: rs => accepted ops rs
  | _, _ => []

theorem state_eq_accepted (ops : List FOp) : ∀ a : List FileD,
    (Spec.run a ops).1 = a ++ accepted ops (Spec.run a ops).2 := by
  induction ops with
  | nil => intro a; simp [Spec.run, accepted]
  | cons op ops ih =>
    intro a
    simp only [Spec.run]
    rw [ih]
    cases op with
    | register f =>
      simp only [Spec.step]
      rcases Spec.register_cases a f with ⟨e1, e2⟩ | ⟨e1, e2⟩
      · rw [e1, e2]; simp [accepted]
      · rw [e1]
        cases h : (Spec.register a f).2 <;> first | exact absurd h e2 | simp [accepted]
    | find n => simp only [Spec.step]; cases Spec.find a n <;> simp [accepted]
    | findPath p => simp only [Spec.step, Spec.findPath]; cases a.find? _ <;> simp [accepted]
    | numFiles => simp [Spec.step, accepted]
    | rangeFiles => simp [Spec.step, accepted]
    | numByPkg n => simp [Spec.step, accepted]
    | rangeByPkg n => simp [Spec.step, accepted]

/-! ## 2. registration succeeds iff it introduces no conflict -/

/-- RegisterFile succeeds iff the file's path is new, no prefix of its package is a registered
declaration, and none of its top-level names (enum values included) is a registered declaration or
a package name. -/
theorem register_ok_iff {r : Files} {a : List FileD} (h : Reach r a) (f : FileD) (wf : f.wf = true) :
    (r.register f).2 = .regOk ↔
      f.path ∉ Spec.paths a ∧
      (∀ p ∈ prefixesDesc f.pkg, p ∉ Spec.declNames a) ∧
      (∀ k ∈ (topEntries f).map (·.1), k ∉ Spec.declNames a ∧ k ∉ Spec.pkgNames a) := by
  obtain ⟨inv, _⟩ := reach_inv h
  rw [(register_refines f inv wf).1, Spec.register_ok_iff]
  simp only [Spec.NoConflict, Spec.PathConflict, Spec.PkgConflict, Spec.NameConflict, not_exists, not_and,
    not_or]

/-- the error class follows the order of the three checks; the answer is never the panic of the
`.(*packageDescriptor)` type assertion -/
theorem register_result {r : Files} {a : List FileD} (h : Reach r a) (f : FileD) (wf : f.wf = true) :
    (r.register f).2 = (Spec.register a f).2 ∧ (r.register f).2 ≠ .panic := by
  obtain ⟨inv, _⟩ := reach_inv h
  have e := (register_refines f inv wf).1
  refine ⟨e, ?_⟩
  rw [e]
  unfold Spec.register
  split
  · simp
  split
  · simp
  split <;> simp

/-- Types: registration succeeds iff the name is new and (for an extension) the (message, number)
slot is free. -/
theorem registerT_ok_iff (a : List TypeD) (t : TypeD) :
    (Spec.registerT a t).2 = .regOk ↔ ¬ Spec.ExtNumConflict a t ∧ ¬ Spec.TypeNameConflict a t := by
  have hx : (t.kind = .extension ∧ t.number ∈ (Spec.extsOf a t.extendee).map (·.number)) ↔
      Spec.ExtNumConflict a t := by
    simp only [Spec.ExtNumConflict, Spec.extsOf, List.mem_map, List.mem_filter, decide_eq_true_eq]
    constructor
    · rintro ⟨h, t', ⟨h1, h2, h3⟩, h4⟩; exact ⟨h, t', h1, h2, h3, h4⟩
    · rintro ⟨h, t', h1, h2, h3, h4⟩; exact ⟨h, t', ⟨h1, h2, h3⟩, h4⟩
  unfold Spec.registerT Spec.TypeNameConflict
  rw [← hx]
  split
  · rename_i c
    exact ⟨fun h => (by cases h), fun h => absurd c h.1⟩
  · rename_i c
    split
    · rename_i c2
      exact ⟨fun h => (by cases h), fun h => absurd c2 h.2⟩
    · rename_i c2
      exact ⟨fun _ => ⟨c, c2⟩, fun _ => rfl⟩

theorem typeStep_result {r : Types} {a : List TypeD} (h : TReach r a) (op : TOp) :
    (r.step op).2 = (Spec.stepT a op).2 :=
  (typesStep_refines (treach_inv h) op).1

/-! ## 3. a failed registration changes nothing -/

/-- a failed RegisterFile leaves the registry state untouched … -/
theorem register_fail_unchanged {r : Files} {a : List FileD} (h : Reach r a) (f : FileD) (wf : f.wf = true)
    (hf : (r.register f).2 ≠ .regOk) : (r.register f).1 = r := by
  obtain ⟨inv, _⟩ := reach_inv h
  rw [register_fail_state r f hf]
  have hne : a ≠ [] := by
    intro e
    apply hf
    rw [(register_refines f inv wf).1, Spec.register_ok_iff, e]
    simp [Spec.NoConflict, Spec.PathConflict, Spec.PkgConflict, Spec.NameConflict, Spec.paths,
      Spec.declNames, Spec.pkgNames]
  rw [initDescs_of_ne_nil (inv.descs_ne_nil hne)]

/-- … so every later lookup, count and range answers as if the call had not been made. -/
theorem register_fail_later {r : Files} {a : List FileD} (h : Reach r a) (f : FileD) (wf : f.wf = true)
    (hf : (r.register f).2 ≠ .regOk) (ops : List FOp) :
    Files.run (r.register f).1 ops = Files.run r ops := by
  rw [register_fail_unchanged h f wf hf]

/-- Types: any call that does not answer "ok" leaves the state untouched (no hypothesis needed: the
code inserts only after its last check). -/
theorem typeStep_fail_unchanged (r : Types) (op : TOp) (hf : (r.step op).2 ≠ .regOk) :
    (r.step op).1 = r := by
  cases op with
  | regMessage n =>
    simp only [Types.step, Types.registerMessage] at hf ⊢
    cases h : r.registerName _ <;> simp_all
  | regEnum n =>
    simp only [Types.step, Types.registerEnum] at hf ⊢
    cases h : r.registerName _ <;> simp_all
  | regExtension n e k =>
    have : (r.registerExtension n e k).2 = .regOk ∨ (r.registerExtension n e k).1 = r := by
      unfold Types.registerExtension
      simp only
      split
      · exact Or.inr rfl
      split
      · exact Or.inr rfl
      · exact Or.inl rfl
    exact this.resolve_left hf
  | _ => rfl

/-! ## 4. every declaration of a registered file is found by its full name, and nothing else is -/

/-- nested messages, fields, oneofs, enum values (in the scope enclosing their enum), extensions,
services and methods: all of `FileD.decls`. -/
theorem find_every_declaration {r : Files} {a : List FileD} (h : Reach r a) {g : FileD} (hg : g ∈ a)
    {d : Desc} (hd : d ∈ g.decls) : r.find d.full = some d := by
  obtain ⟨inv, v⟩ := reach_inv h
  rcases inv.descs with ⟨_, e2⟩ | hD
  · rw [e2] at hg; cases hg
  · exact find_complete hD v hg hd

theorem find_only_registered {r : Files} {a : List FileD} (h : Reach r a) {n : FullName} {d : Desc}
    (hf : r.find n = some d) : d.full = n ∧ ∃ g ∈ a, d ∈ g.decls := by
  obtain ⟨inv, v⟩ := reach_inv h
  rw [find_refines inv v] at hf
  have h1 := List.mem_of_find?_eq_some hf
  have h2 := List.find?_some hf
  simp only [decide_eq_true_eq] at h2
  obtain ⟨g, hg, hd⟩ := List.mem_flatMap.mp h1
  exact ⟨h2, g, hg, hd⟩

/-- consequently the full names of all declarations of all registered files denote one descriptor each -/
theorem declarations_unambiguous {r : Files} {a : List FileD} (h : Reach r a) {g g' : FileD}
    (hg : g ∈ a) (hg' : g' ∈ a) {d d' : Desc} (hd : d ∈ g.decls) (hd' : d' ∈ g'.decls)
    (e : d.full = d'.full) : d = d' := by
  have h1 := find_every_declaration h hg hd
  have h2 := find_every_declaration h hg' hd'
  rw [e, h2] at h1
  exact (Option.some.inj h1).symm

/-- Types: a registered type is found by its full name under its own kind; other kinds report a
wrong type; unregistered names are not found. -/
theorem findKind_spec (a : List TypeD) (nd : (a.map (·.full)).Nodup) (k : TKind) (n : FullName) :
    (∀ t ∈ a, t.full = n → Spec.findKind a k n = if t.kind = k then .found t else .wrongType) ∧
    (n ∉ a.map (·.full) → Spec.findKind a k n = .notFound) := by
  unfold Spec.findKind
  constructor
  · intro t ht hn
    have : a.find? (fun t => t.full = n) = some t := by
      cases hf : a.find? (fun t => t.full = n) with
      | none =>
        rw [List.find?_eq_none] at hf
        exact absurd (by simpa using hn) (hf t ht)
      | some t' =>
        have h1 := List.mem_of_find?_eq_some hf
        have h2 := List.find?_some hf
        simp only [decide_eq_true_eq] at h2
        have : (t'.full, t') = (t.full, t) → t' = t := fun e => (Prod.mk.inj e).2
        congr 1
        have nd' : ((a.map (fun t => (t.full, t))).map (·.1)).Nodup := by rw [List.map_map]; exact nd
        have m1 : (n, t') ∈ a.map (fun t => (t.full, t)) := List.mem_map.mpr ⟨t', h1, by rw [h2]⟩
        have m2 : (n, t) ∈ a.map (fun t => (t.full, t)) := List.mem_map.mpr ⟨t, ht, by rw [hn]⟩
        exact nodup_keys_functional nd' m1 m2
    rw [this]
  · intro hn
    rw [(find?_isSome_iff_mem_map a (·.full) n).mpr hn]

theorem treach_valid {r : Types} {a : List TypeD} (h : TReach r a) : TValid a := by
  obtain ⟨ops, _, rfl⟩ := h
  suffices ∀ (ops : List TOp) (a : List TypeD), TValid a → TValid (Spec.runT a ops).1 from
    this ops [] ⟨by simp, by intro m; simp [Spec.extsOf]⟩
  intro ops
  induction ops with
  | nil => intro a v; exact v
  | cons op ops ih =>
    intro a v
    simp only [Spec.runT]
    apply ih
    cases op <;> first | exact tvalid_registerT a _ v | exact v

/-- Types, on the concrete model: registered types are found under their kind, by name … -/
theorem types_find_registered {r : Types} {a : List TypeD} (h : TReach r a) {t : TypeD} (ht : t ∈ a)
    (k : TKind) : r.findKind k t.full = if t.kind = k then .found t else .wrongType := by
  have inv := treach_inv h
  have : r.findKind k t.full = Spec.findKind a k t.full := by
    simp only [Types.findKind, Spec.findKind, inv.byName, lookup_byName]
  rw [this]
  exact (findKind_spec a (treach_valid h).1 k t.full).1 t ht rfl

theorem types_find_unregistered {r : Types} {a : List TypeD} (h : TReach r a) (k : TKind) {n : FullName}
    (hn : n ∉ a.map (·.full)) : r.findKind k n = .notFound := by
  have inv := treach_inv h
  have : r.findKind k n = Spec.findKind a k n := by
    simp only [Types.findKind, Spec.findKind, inv.byName, lookup_byName]
  rw [this]
  exact (findKind_spec a (treach_valid h).1 k n).2 hn

/-- … and extensions by (message, number); free slots are not found. -/
theorem types_find_by_number {r : Types} {a : List TypeD} (h : TReach r a) :
    (∀ t ∈ a, t.kind = .extension → r.findExtensionByNumber t.extendee t.number = .found t) ∧
    (∀ m k, k ∉ (Spec.extsOf a m).map (·.number) → r.findExtensionByNumber m k = .notFound) := by
  have inv := treach_inv h
  have v := treach_valid h
  have hfind : ∀ m k, r.findExtensionByNumber m k =
      match (Spec.extsOf a m).find? (fun t => t.number = k) with
      | some t => .found t
      | none => .notFound := by
    intro m k
    simp only [Types.findExtensionByNumber, inv.exts m, lookup_byNumber]
    cases (Spec.extsOf a m).find? (fun t => t.number = k) <;> rfl
  constructor
  · intro t ht hk
    rw [hfind]
    have hmem : t ∈ Spec.extsOf a t.extendee := by
      simp [Spec.extsOf, List.mem_filter, ht, hk]
    have nd' : (((Spec.extsOf a t.extendee).map (fun t => (t.number, t))).map (·.1)).Nodup := by
      rw [List.map_map]; exact v.2 _
    cases hf : (Spec.extsOf a t.extendee).find? (fun t' => t'.number = t.number) with
    | none =>
      rw [List.find?_eq_none] at hf
      exact absurd (by simp) (hf t hmem)
    | some t' =>
      have h1 := List.mem_of_find?_eq_some hf
      have h2 := List.find?_some hf
      simp only [decide_eq_true_eq] at h2
      have m1 : (t.number, t') ∈ (Spec.extsOf a t.extendee).map (fun t => (t.number, t)) :=
        List.mem_map.mpr ⟨t', h1, by rw [h2]⟩
      have m2 : (t.number, t) ∈ (Spec.extsOf a t.extendee).map (fun t => (t.number, t)) :=
        List.mem_map.mpr ⟨t, hmem, rfl⟩
      rw [nodup_keys_functional nd' m1 m2]
  · intro m k hk
    rw [hfind, (find?_isSome_iff_mem_map (Spec.extsOf a m) (·.number) k).mpr hk]

/-! ## 5. counts and ranges enumerate exactly the registered entries -/

theorem files_counts {r : Files} {a : List FileD} (h : Reach r a) :
    r.numFiles = a.length ∧ r.rangeFiles.Perm a ∧
    (∀ n, r.rangeByPkg n = a.filter (fun f => f.pkg = n)) ∧
    (∀ n, r.numByPkg n = (a.filter (fun f => f.pkg = n)).length) ∧
    (∀ p, r.findPath p = Spec.findPath a p) ∧ (Spec.paths a).Nodup := by
  obtain ⟨inv, v⟩ := reach_inv h
  refine ⟨inv.num, by rw [rangeFiles_refines inv], rangeByPkg_refines inv v, ?_, findPath_refines inv, v.paths⟩
  intro n; simp only [Files.numByPkg, rangeByPkg_refines inv v n]

theorem types_counts {r : Types} {a : List TypeD} (h : TReach r a) :
    r.numMessages = (a.filter (fun t => t.kind = .message)).length ∧
    r.numEnums = (a.filter (fun t => t.kind = .enum)).length ∧
    r.numExtensions = (a.filter (fun t => t.kind = .extension)).length ∧
    (∀ k, (r.rangeKind k).Perm (a.filter (fun t => t.kind = k))) ∧
    (∀ m, (r.rangeExtensionsByMessage m).Perm (Spec.extsOf a m)) ∧
    (∀ m, ((alLookup m r.extensionsByMessage).getD []).length = (Spec.extsOf a m).length) := by
  have inv := treach_inv h
  refine ⟨inv.numM, inv.numE, inv.numX, ?_, ?_, ?_⟩
  · intro k; simp [Types.rangeKind, inv.byName, List.map_map, Function.comp_def]
  · intro m; simp [Types.rangeExtensionsByMessage, inv.exts m, List.map_map, Function.comp_def]
  · intro m; simp [inv.exts m]

/-! ## the hypotheses are satisfiable by non-trivial values -/

/-- package a.b; enum E{V}; message M { enum K{k1}; message N { field f; oneof o }; extension x; field g };
service S { method m } -/
def exFile : FileD :=
  { path := "p.proto", pkg := ["a", "b"], enums := [⟨"E", ["V"]⟩],
    msgs := .cons (.mk "M" [⟨"K", ["k1"]⟩] (.cons (.mk "N" [] .nil [] ["f"] ["o"]) .nil)
              [⟨"x", ["a", "b", "M"], 1⟩] ["g"] []) .nil,
    exts := [], svcs := [⟨"S", ["m"]⟩] }

/-- package a; message b — clashes with the package a.b -/
def exFile2 : FileD :=
  { path := "q.proto", pkg := ["a"], enums := [], msgs := .cons (.mk "b" [] .nil [] [] []) .nil, exts := [], svcs := [] }

/-- package a.b.M — its package runs through the message a.b.M -/
def exFile3 : FileD := { path := "r.proto", pkg := ["a", "b", "M"], enums := [], msgs := .nil, exts := [], svcs := [] }

def exOps : List FOp :=
  [.register exFile, .find ["a", "b", "M", "N", "o"], .find ["a", "b", "M", "k1"], .find ["a", "b", "M", "K", "k1"],
   .find ["a", "b", "S", "m"], .register exFile2, .register exFile3, .register exFile, .numFiles, .numByPkg ["a", "b"]]

example : OpsWF exOps := by
  intro f hf
  simp only [exOps, List.mem_cons, FOp.register.injEq, reduceCtorEq, List.not_mem_nil, or_false, false_or] at hf
  rcases hf with rfl | rfl | rfl | rfl <;> rfl

example : (Files.run {} exOps).2 =
    [.regOk, .found ⟨.oneof, ["a", "b", "M", "N", "o"]⟩, .found ⟨.enumValue, ["a", "b", "M", "k1"]⟩, .notFound,
     .found ⟨.method, ["a", "b", "S", "m"]⟩, .errName ["a", "b"], .errPkg ["a", "b", "M"], .errPath,
     .num 1, .num 1] := by rfl

example : Reach (Files.run {} exOps).1 [exFile] := ⟨exOps, by
  intro f hf
  simp only [exOps, List.mem_cons, FOp.register.injEq, reduceCtorEq, List.not_mem_nil, or_false, false_or] at hf
  rcases hf with rfl | rfl | rfl | rfl <;> rfl, rfl, rfl⟩

example : (Types.run {} [.regExtension ["x"] ["M"] 1, .regExtension ["y"] ["M"] 1, .regMessage ["x"],
      .regMessage ["M"], .findEnum ["M"], .findExtensionByNumber ["M"] 1, .numExtensions]).2 =
    [.regOk, .errExtNum, .errName, .regOk, .wrongType,
     .found { kind := .extension, full := ["x"], extendee := ["M"], number := 1 }, .num 1] := by rfl

end C33
