import PbVerif.Model.ConcCode
import PbVerif.Lemmas.ConcDcl
import PbVerif.Lemmas.ConcReg
import PbVerif.Lemmas.ConcNest
/-
C19 — Concurrent first use of types, descriptors and registries is safe.

Double-checked initialisation (`Conc.Dcl`) in the three variants of the code, each selected by the
shape facts of Gen/ConcFacts.lean:
  msgInfoCfg n   MessageInfo.init / initOnce       (re-check reads the flag; n body writes)
  fileCfg n      filedesc.File.lazyInit / lazyInitOnce (re-check reads L2; L2 set by the first of n+1 writes;
                                                     the flag is stored again on a re-check hit)
  onceCfg n      sync.Once.Do (the lazily built lookup tables of internal/filedesc/desc_list*.go)
and the global registries under globalMutex (`Conc.Reg`, `regCfg prog ndecl` for ANY program).
Every theorem holds for all reachable states: all schedules, any number of threads, any body length.

Level: protocol, sequentially consistent atomics.  Data-race freedom under the Go memory model is
observed with the race detector by the harness, not proved.
-/
namespace C19
open Conc Conc.Code

/-! ## Double-checked initialisation -/
section dcl
open Conc.Dcl

/-- the extracted shape facts, spelled out -/
theorem shape_facts :
    Gen.ConcFacts.msgInfoFastPathAtomicLoad = true ∧ Gen.ConcFacts.msgInfoLocks = true ∧
    Gen.ConcFacts.msgInfoRecheckFlag = true ∧ Gen.ConcFacts.msgInfoStoreAfterBody = true ∧
    Gen.ConcFacts.fileFastPathAtomicLoad = true ∧ Gen.ConcFacts.fileLocks = true ∧
    Gen.ConcFacts.fileRecheckL2Nil = true ∧ Gen.ConcFacts.fileStoreAfterBody = true ∧
    Gen.ConcFacts.fileBodySetsL2First = true ∧ Gen.ConcFacts.syncOnceIsDoubleChecked = true ∧
    Gen.ConcFacts.onceTablesGuarded = Gen.ConcFacts.onceTables ∧
    Gen.ConcFacts.registryAccessorsLocked = Gen.ConcFacts.registryAccessors ∧
    Gen.ConcFacts.registryWritersExclusive = true ∧
    Gen.ConcFacts.aberrantNoLockFreePublishWhileDeriving = true ∧ Gen.ConcFacts.aberrantLockedMapOnlyUnderLock = true ∧
    Gen.ConcFacts.extInfoFastPathsAtomic = true ∧ Gen.ConcFacts.extInfoSlowPathShape = true ∧
    Gen.ConcFacts.extInfoFlagOnlyAtomicOnLazyPath = true := by decide

/-- the three initialisers of the code have the protocol shape the proofs need (flag stored after
the body, slow path under the lock, and — where the re-check reads the structure — a first write
that makes it non-empty).  `decide`d from the generated facts. -/
theorem msgInfo_shape (n : Nat) : (msgInfoCfg n).Safe :=
  ⟨(by decide : (if Gen.ConcFacts.msgInfoStoreAfterBody then Order.bodyThenStore else .storeThenBody) = .bodyThenStore),
   (by decide : (Gen.ConcFacts.msgInfoFastPathAtomicLoad && Gen.ConcFacts.msgInfoLocks) = true),
   fun h => absurd h (by decide : (if Gen.ConcFacts.msgInfoRecheckFlag then Recheck.flag else .started) ≠ .started)⟩

theorem file_shape (n : Nat) : (fileCfg n).Safe :=
  ⟨(by decide : (if Gen.ConcFacts.fileStoreAfterBody then Order.bodyThenStore else .storeThenBody) = .bodyThenStore),
   (by decide : (Gen.ConcFacts.fileFastPathAtomicLoad && Gen.ConcFacts.fileLocks) = true),
   fun _ => by
     have h : Gen.ConcFacts.fileBodySetsL2First = true := by decide
     show 0 < (if Gen.ConcFacts.fileBodySetsL2First then n + 1 else n)
     rw [h]; simp⟩

theorem extInfo_shape (n : Nat) : (extInfoCfg n).Safe :=
  ⟨(by decide : (if Gen.ConcFacts.extInfoSlowPathShape && Gen.ConcFacts.extInfoFlagOnlyAtomicOnLazyPath
      then Order.bodyThenStore else .storeThenBody) = .bodyThenStore),
   (by decide : (Gen.ConcFacts.extInfoFastPathsAtomic && Gen.ConcFacts.extInfoSlowPathShape) = true),
   fun h => by cases h⟩

theorem once_shape (n : Nat) : (onceCfg n).Safe :=
  ⟨(by decide : (if Gen.ConcFacts.syncOnceIsDoubleChecked then Order.bodyThenStore else .storeThenBody) = .bodyThenStore),
   (by decide : (Gen.ConcFacts.syncOnceIsDoubleChecked && decide (0 < Gen.ConcFacts.onceTables)
      && (Gen.ConcFacts.onceTablesGuarded == Gen.ConcFacts.onceTables)) = true),
   fun h => by cases h⟩

/-! The theorems are stated once, for any configuration with the safe shape, and instantiated for
the three initialisers of the code below. -/

variable {cfg : Cfg}

/-- The body runs at most once. -/
theorem body_at_most_once (safe : cfg.Safe) {s : State} (r : Reachable cfg s) : s.runs ≤ 1 :=
  (inv_reachable safe r).runs_le

/-- Mutual exclusion: at most one thread is inside the critical section (re-check, body, store, unlock). -/
theorem mutual_exclusion (safe : cfg.Safe) {s : State} (r : Reachable cfg s) {i j : Nat}
    (hi : inCS (s.pc i) = true) (hj : inCS (s.pc j) = true) : i = j := by
  have inv := inv_reachable safe r
  have holder : ∀ k, inCS (s.pc k) = true → s.mutex = some k := by
    intro k hk
    cases hpc : s.pc k with
    | recheck => exact (inv.recheck_q k hpc).1
    | body n => exact (inv.body_st k n hpc).1
    | store b => exact (inv.store_st k b hpc).1
    | unlock => exact (inv.unlock_st k hpc).1
    | fast => rw [hpc] at hk; cases hk
    | lock => rw [hpc] at hk; cases hk
    | read => rw [hpc] at hk; cases hk
    | done o => rw [hpc] at hk; cases hk
  have a := holder i hi
  have b := holder j hj
  rw [a] at b
  exact Option.some.inj b

/-- The shared structure is only ever a prefix of the complete structure: no write is repeated,
none is skipped, and while a thread is in the body it is exactly that thread's prefix. -/
theorem data_is_prefix (safe : cfg.Safe) {s : State} (r : Reachable cfg s) :
    ∃ k, k ≤ cfg.writes ∧ s.data = List.range k := by
  induction r with
  | init => exact ⟨0, Nat.zero_le _, rfl⟩
  | step r' st ih =>
    have inv := inv_reachable safe r'
    cases st with
    | write i k hpc hk =>
      have h := inv.body_st i k hpc
      exact ⟨k + 1, hk, by simp [h.2.1, List.range_succ]⟩
    | _ => exact ih

/-- Whoever passes the fast-path check observes the complete structure: the flag is set only when
the body has completed. -/
theorem flag_implies_complete (safe : cfg.Safe) {s : State} (r : Reachable cfg s) (hf : s.flag = true) :
    s.data = complete cfg :=
  ((inv_reachable safe r).flag_st hf).1

/-- A thread that leaves the lock leaves behind the complete structure. -/
theorem unlock_implies_complete (safe : cfg.Safe) {s : State} (r : Reachable cfg s) {i : Nat}
    (h : s.pc i = .unlock) : s.data = complete cfg ∧ s.flag = true :=
  let x := (inv_reachable safe r).unlock_st i h; ⟨x.2.1, x.2.2.1⟩

/-- No partial structure is ever read: every thread that is about to use the structure — after a
fast-path hit or after leaving the lock — finds it complete, and what it observed is the complete
post-state of the body. -/
theorem reader_sees_complete (safe : cfg.Safe) {s : State} (r : Reachable cfg s) {i : Nat} :
    (s.pc i = .read → s.data = complete cfg) ∧ (∀ obs, s.pc i = .done obs → obs = complete cfg) := by
  have inv := inv_reachable safe r
  exact ⟨fun h => (inv.flag_st (inv.read_st i h)).1, fun obs h => (inv.done_st i obs h).1⟩

/-- All threads observe the same structure. -/
theorem observers_agree (safe : cfg.Safe) {s : State} (r : Reachable cfg s) {i j : Nat} {a b : List Nat}
    (hi : s.pc i = .done a) (hj : s.pc j = .done b) : a = b := by
  have inv := inv_reachable safe r
  rw [(inv.done_st i a hi).1, (inv.done_st j b hj).1]

/-- Once complete, the structure is never written again. -/
theorem complete_is_stable (safe : cfg.Safe) {s t : State} (r : Reachable cfg s) (st : Step cfg s t)
    (hf : s.flag = true) : t.data = s.data ∧ t.flag = true := by
  have inv := inv_reachable safe r
  cases st with
  | write i k hpc hk => have := (inv.body_st i k hpc).2.2.2.1; rw [hf] at this; cases this
  | _ => simp_all

/-- No deadlock: whenever some thread has not finished, some thread can take a step. -/
theorem no_deadlock (safe : cfg.Safe) {s : State} (r : Reachable cfg s) {i : Nat}
    (hnd : ∀ obs, s.pc i ≠ .done obs) : ∃ t, Step cfg s t := by
  have inv := inv_reachable safe r
  -- if the lock is held its holder can move, otherwise i can
  have holder_moves : ∀ h, s.mutex = some h → (inCS (s.pc h) = true) → ∃ t, Step cfg s t := by
    intro h _ hcs
    cases hpc : s.pc h with
    | recheck =>
      cases hi : initialised cfg s with
      | true => exact ⟨_, Step.recheck_hit s h hpc hi⟩
      | false => exact ⟨_, Step.recheck_miss s h hpc hi⟩
    | body k =>
      by_cases hk : k < cfg.writes
      · exact ⟨_, Step.write s h k hpc hk⟩
      · exact ⟨_, Step.body_end s h k hpc hk⟩
    | store b => exact ⟨_, Step.store s h b hpc⟩
    | unlock => exact ⟨_, Step.unlock s h hpc⟩
    | fast => rw [hpc] at hcs; cases hcs
    | lock => rw [hpc] at hcs; cases hcs
    | read => rw [hpc] at hcs; cases hcs
    | done o => rw [hpc] at hcs; cases hcs
  cases hpc : s.pc i with
  | fast =>
    cases hf : s.flag with
    | true => exact ⟨_, Step.fast_hit s i hpc hf⟩
    | false => exact ⟨_, Step.fast_miss s i hpc hf⟩
  | lock =>
    cases hm : s.mutex with
    | none => exact ⟨_, Step.lock s i hpc safe.locks hm⟩
    | some h =>
      -- the holder is in the critical section: found by the history of the lock
      exact holder_in_cs safe r hm |> holder_moves h hm
  | recheck => exact holder_moves i (inv.recheck_q i hpc).1 (by rw [hpc]; rfl)
  | body k => exact holder_moves i (inv.body_st i k hpc).1 (by rw [hpc]; rfl)
  | store b => exact holder_moves i (inv.store_st i b hpc).1 (by rw [hpc]; rfl)
  | unlock => exact holder_moves i (inv.unlock_st i hpc).1 (by rw [hpc]; rfl)
  | read => exact ⟨_, Step.read s i hpc⟩
  | done o => exact absurd hpc (hnd o)
where
  holder_in_cs {cfg : Cfg} (safe : cfg.Safe) {s : State} (r : Reachable cfg s) {h : Nat}
      (hm : s.mutex = some h) : inCS (s.pc h) = true := by
    induction r generalizing h with
    | init => simp [init] at hm
    | step r' st ih =>
      cases st with
      | lock i hpc _ hmu => simp at hm; subst hm; simp [upd, inCS]
      | nolock i hpc hl => rw [safe.locks] at hl; cases hl
      | unlock i hpc => simp at hm
      | fast_hit i hpc hf =>
        have := ih hm; simp only [upd]; split
        · rename_i he; subst he; rw [hpc] at this; cases this
        · exact this
      | fast_miss i hpc hf =>
        have := ih hm; simp only [upd]; split
        · rename_i he; subst he; rw [hpc] at this; cases this
        · exact this
      | read i hpc =>
        have := ih hm; simp only [upd]; split
        · rename_i he; subst he; rw [hpc] at this; cases this
        · exact this
      | recheck_hit i hpc hi =>
        have := ih hm; simp only [upd]; split
        · unfold afterHit; cases cfg.storeOnHit <;> rfl
        · exact this
      | recheck_miss i hpc hi =>
        have := ih hm; simp only [upd]; split
        · simp [afterMiss, safe.order, inCS]
        · exact this
      | write i k hpc hk =>
        have := ih hm; simp only [upd]; split
        · rfl
        · exact this
      | body_end i k hpc hk =>
        have := ih hm; simp only [upd]; split
        · simp [afterBody, safe.order, inCS]
        · exact this
      | store i b hpc =>
        have := ih hm; simp only [upd]; split
        · unfold afterStore; cases b <;> rfl
        · exact this

/-! ### the three initialisers of the code -/

/-- MessageInfo.init: the body (makeStructInfo, makeReflectFuncs, makeCoderMethods / the opaque
hook) runs at most once and every caller that returns from init sees its complete result. -/
theorem messageInfo_init_safe (n : Nat) {s : State} (r : Reachable (msgInfoCfg n) s) :
    s.runs ≤ 1 ∧ (∀ i j, inCS (s.pc i) = true → inCS (s.pc j) = true → i = j) ∧
    (∀ i, s.pc i = .read → s.data = List.range n) ∧ (∀ i obs, s.pc i = .done obs → obs = List.range n) :=
  ⟨body_at_most_once (msgInfo_shape n) r, fun _ _ hi hj => mutual_exclusion (msgInfo_shape n) r hi hj,
   fun _ h => (reader_sees_complete (msgInfo_shape n) r).1 h, fun _ obs h => (reader_sees_complete (msgInfo_shape n) r).2 obs h⟩

/-- File.lazyInit: lazyRawInit runs at most once and `fd.L2` is only handed out fully resolved. -/
theorem file_lazyInit_safe (n : Nat) {s : State} (r : Reachable (fileCfg n) s) :
    s.runs ≤ 1 ∧ (∀ i j, inCS (s.pc i) = true → inCS (s.pc j) = true → i = j) ∧
    (∀ i, s.pc i = .read → s.data = complete (fileCfg n)) ∧ (∀ i obs, s.pc i = .done obs → obs = complete (fileCfg n)) :=
  ⟨body_at_most_once (file_shape n) r, fun _ _ hi hj => mutual_exclusion (file_shape n) r hi hj,
   fun _ h => (reader_sees_complete (file_shape n) r).1 h, fun _ obs h => (reader_sees_complete (file_shape n) r).2 obs h⟩

/-- sync.Once tables (Names.has, FieldRanges.sorted, Fields.byName …): built at most once, read
only when complete. -/
theorem once_table_safe (n : Nat) {s : State} (r : Reachable (onceCfg n) s) :
    s.runs ≤ 1 ∧ (∀ i j, inCS (s.pc i) = true → inCS (s.pc j) = true → i = j) ∧
    (∀ i, s.pc i = .read → s.data = List.range n) ∧ (∀ i obs, s.pc i = .done obs → obs = List.range n) :=
  ⟨body_at_most_once (once_shape n) r, fun _ _ hi hj => mutual_exclusion (once_shape n) r hi hj,
   fun _ h => (reader_sees_complete (once_shape n) r).1 h, fun _ obs h => (reader_sees_complete (once_shape n) r).2 obs h⟩

/-- ExtensionInfo.lazyInitSlow (legacy, hand-built and generated extension descriptors): initFromLegacy /
initToLegacy / the converter and field info are built at most once, and every caller of TypeDescriptor, New,
Zero, ValueOf, InterfaceOf, IsValid* that gets past its lock-free stage check reads them complete. -/
theorem extensionInfo_lazyInit_safe (n : Nat) {s : State} (r : Reachable (extInfoCfg n) s) :
    s.runs ≤ 1 ∧ (∀ i j, inCS (s.pc i) = true → inCS (s.pc j) = true → i = j) ∧
    (∀ i, s.pc i = .read → s.data = List.range n) ∧ (∀ i obs, s.pc i = .done obs → obs = List.range n) :=
  ⟨body_at_most_once (extInfo_shape n) r, fun _ _ hi hj => mutual_exclusion (extInfo_shape n) r hi hj,
   fun _ h => (reader_sees_complete (extInfo_shape n) r).1 h, fun _ obs h => (reader_sees_complete (extInfo_shape n) r).2 obs h⟩

end dcl

/-! ## The global registries under globalMutex -/
section reg
open Conc.Reg

variable {prog : Nat → Op} {ndecl : Nat → Nat}

theorem registry_shape (prog : Nat → Op) (ndecl : Nat → Nat) : (regCfg prog ndecl).readerLocks = true := by
  show (decide (0 < Gen.ConcFacts.registryAccessors) && (Gen.ConcFacts.registryAccessorsLocked == Gen.ConcFacts.registryAccessors)
    && Gen.ConcFacts.registryWritersExclusive) = true
  decide

/-- Mutual exclusion of the readers/writer lock: a writer inside its critical section excludes
every reader, and there is at most one writer. -/
theorem registry_mutual_exclusion {s : Reg.State} (r : Reg.Reachable (regCfg prog ndecl) s) :
    (∀ i, (s.pc i = .wcheck ∨ (∃ k, s.pc i = .ins k) ∨ ∃ res, s.pc i = .wunlock res) → s.writer = some i ∧ s.readers = []) ∧
    (∀ i, s.pc i = .rread → s.writer = none) := by
  have inv := Reg.inv_reachable (registry_shape prog ndecl) r
  have noReaders : ∀ i, s.writer = some i → s.readers = [] := by
    intro i hw
    cases hr : s.readers with
    | nil => rfl
    | cons a l =>
      have := inv.readers_excl (by rw [hr]; intro h; cases h)
      rw [hw] at this; cases this
  constructor
  · intro i h
    rcases h with h | ⟨k, h⟩ | ⟨res, h⟩
    · have := (inv.wcheck_st i h).1; exact ⟨this, noReaders i this⟩
    · have := (inv.ins_st i k h).1; exact ⟨this, noReaders i this⟩
    · have := (inv.wunlock_st i res h).1; exact ⟨this, noReaders i this⟩
  · intro i h
    have hm := (inv.rread_st i h).1
    exact inv.readers_excl (by intro h0; rw [h0] at hm; cases hm)

/-- **Linearisation.**  Let `log` be the threads in the order in which they acquired globalMutex
(each at most once).  Every finished operation returned exactly what the *sequential* registry
(`seqApply`, one whole operation at a time) returns for it when the operations are executed one
after the other in the order of `log`: thread `i`'s result is the sequential result of `prog i` in
the state reached by the operations that acquired the lock before `i`.  And whenever no writer holds
the lock, the registry's tables are the sequential state after all operations of `log`. -/
theorem registry_linearizable {s : Reg.State} (r : Reg.Reachable (regCfg prog ndecl) s) :
    s.log.Nodup ∧
    (∀ i res, s.pc i = .done res →
      ∃ pre post, s.log = pre ++ i :: post ∧
        res = (seqApply (regCfg prog ndecl) (seqRun (regCfg prog ndecl) (pre.map prog)) (prog i)).2) ∧
    (s.writer = none → s.tab = seqRun (regCfg prog ndecl) (s.log.map prog)) := by
  have inv := Reg.inv_reachable (registry_shape prog ndecl) r
  exact ⟨inv.nodup, fun i res h => inv.done_st i res h, inv.free⟩

/-- Lookups never observe a half-registered file: in whatever a lookup saw, a declaration of file
`f` is present iff `f` is registered (in `filesByPath`) — all declarations of a file or none. -/
theorem lookup_never_sees_partial_file {s : Reg.State} (r : Reg.Reachable (regCfg prog ndecl) s)
    {i : Nat} {t : Tab} (h : s.pc i = .done (.snap t)) (hl : prog i = .lookup) :
    ∀ f k, (f, k) ∈ t.entries ↔ (f ∈ t.files ∧ k < ndecl f) := by
  obtain ⟨pre, post, _, hres⟩ := (registry_linearizable r).2.1 i _ h
  have hp : (regCfg prog ndecl).prog i = .lookup := hl
  rw [show prog i = (regCfg prog ndecl).prog i from rfl, hp, seqApply_lookup] at hres
  cases hres
  exact seqRun_wf (regCfg prog ndecl) (pre.map prog)

/-- A registration either succeeds or reports a conflict, exactly as sequentially: it succeeds iff
no registration of the same file acquired the lock earlier. -/
theorem register_result_sequential {s : Reg.State} (r : Reg.Reachable (regCfg prog ndecl) s)
    {i f : Nat} {res : Res} (h : s.pc i = .done res) (hp : prog i = .register f) :
    ∃ pre post, s.log = pre ++ i :: post ∧
      res = if f ∈ (seqRun (regCfg prog ndecl) (pre.map prog)).files then .conflict else .ok := by
  obtain ⟨pre, post, hlog, hres⟩ := (registry_linearizable r).2.1 i _ h
  refine ⟨pre, post, hlog, ?_⟩
  rw [hres, hp]
  simp only [seqApply]
  split <;> rfl

end reg

/-! ## Mutually recursive legacy ("aberrant") descriptors: derivation under the lock, lock-free cache -/
section nest
open Conc.Nest

variable {fields : Bool → Nat} {prog : Nat → Bool}

/-- the code never makes a descriptor reachable without the lock while its derivation (or that of
its cycle partner) is running: `decide`d from the extracted facts -/
theorem aberrant_shape (fields : Bool → Nat) (prog : Nat → Bool) : (aberrantCfg fields prog).publish ≠ .nestedEarly := by
  show aberrantPublish ≠ .nestedEarly
  decide

/-- Every thread that makes first use of one member of a reference cycle of tag-derived legacy
messages — through the lock-free cache or through the lock — and walks from its descriptor to the
other member sees BOTH descriptors complete, whichever member the derivation started from, for all
schedules and any number of threads. -/
theorem aberrant_cycle_complete {s : Nest.State} (r : Nest.Reachable (aberrantCfg fields prog) s) {i : Nat} :
    (s.pc i = .walk → s.dOut = s.kOut ∧ s.dIn = s.kIn) ∧
    (∀ obs, s.pc i = .done obs → obs = (s.kOut, s.kIn)) := by
  have inv := Nest.inv_reachable (aberrant_shape fields prog) r
  exact ⟨fun h => inv.made_complete (inv.walk_st i h), fun obs h => (inv.done_st i obs h).2⟩

/-- All threads observe the same (complete) pair of descriptors. -/
theorem aberrant_observers_agree {s : Nest.State} (r : Nest.Reachable (aberrantCfg fields prog) s) {i j : Nat} {a b : Nat × Nat}
    (hi : s.pc i = .done a) (hj : s.pc j = .done b) : a = b := by
  have inv := Nest.inv_reachable (aberrant_shape fields prog) r
  rw [(inv.done_st i a hi).2, (inv.done_st j b hj).2]

/-- What the lock-free cache hands out is complete, and the derivation runs under mutual exclusion. -/
theorem aberrant_lockfree_complete {s : Nest.State} (r : Nest.Reachable (aberrantCfg fields prog) s) :
    ((s.lfOut = true ∨ s.lfIn = true) → s.dOut = s.kOut ∧ s.dIn = s.kIn) ∧
    (∀ i k, (s.pc i = .buildInner k ∨ s.pc i = .buildOuter k) → s.mutex = some i) := by
  have inv := Nest.inv_reachable (aberrant_shape fields prog) r
  refine ⟨fun h => ?_, fun i k h => ?_⟩
  · rcases h with h | h
    · exact inv.made_complete (inv.lf_made.1 h)
    · exact inv.made_complete (inv.lf_made.2 h)
  · rcases h with h | h
    · exact (inv.inner_st i k h).1
    · exact (inv.outer_st i k h).1

/-- non-vacuity: Outer (type false, 4 fields) ↔ Inner (type true, 1 field); thread 0 derives from
Outer and is in the middle of Outer's fields, thread 1 (first use of Inner) missed the lock-free
cache and waits for the lock, thread 2 has not started -/
example :
    let cfg := aberrantCfg (fun t => if t then 1 else 4) (fun i => i == 1)
    let s := Nest.run cfg [0, 0, 0, 0, 0, 0, 0, 0, 1]
    Nest.Reachable cfg s ∧ s.pc 0 = .buildOuter 2 ∧ s.pc 1 = .lock ∧ s.pc 2 = .fast ∧ s.dIn = 1 ∧ s.dOut = 2 ∧
    s.lfIn = false ∧ Nest.next cfg s 1 = none :=
  ⟨Nest.run_reachable _ _, by decide, by decide, by decide, by decide, by decide, by decide, by decide⟩

/-- … continued: everybody observes (4, 1) -/
example :
    let cfg := aberrantCfg (fun t => if t then 1 else 4) (fun i => i == 1)
    let s := Nest.run cfg [0, 0, 0, 0, 0, 0, 0, 0, 1, 0, 0, 0, 0, 0, 0, 1, 1, 1, 1, 2, 2, 2, 2, 2]
    s.pc 0 = .done (4, 1) ∧ s.pc 1 = .done (4, 1) ∧ s.pc 2 = .done (4, 1) := by decide

/-- If the re-entrant function stored every finished descriptor into the lock-free cache itself
(`defer legacyMessageDescCache.Store(t, md)` in aberrantLoadMessageDescReentrant), the nested Inner
would be visible before its cycle partner Outer is complete: a thread making first use of Inner
takes the lock-free path and, walking Inner.out, reads Outer with 1 of its 4 fields. -/
theorem nested_early_publish_breaks :
    let bad : Nest.Cfg := { aberrantCfg (fun t => if t then 1 else 4) (fun i => i == 1) with publish := .nestedEarly }
    ∃ s, Nest.Reachable bad s ∧ s.pc 1 = .done (1, 1) ∧ s.kOut = 4 ∧ s.pc 0 = .buildOuter 1 := by
  intro bad
  exact ⟨Nest.run bad [0, 0, 0, 0, 0, 0, 0, 1, 1], Nest.run_reachable bad _, by decide, by decide, by decide⟩

end nest

/-! ## Non-vacuity -/
section examples
open Conc.Dcl

/-- MessageInfo.init with a 3-write body; five threads in five phases: 0 is in the middle of the
body (2 of 3 writes done), 1 missed the fast path and waits for the lock, 2 is at the fast-path
check, 3 has not started … and after the run below: readers from both paths. -/
def demoInit : List Dcl.Ev :=
  [.fast 0 false, .fast 1 false, .lock 0, .recheck 0 false, .write 0 0, .write 0 1]

example :
    let s := Dcl.run (msgInfoCfg 3) demoInit
    Dcl.Reachable (msgInfoCfg 3) s ∧ s.pc 0 = .body 2 ∧ s.pc 1 = .lock ∧ s.pc 2 = .fast ∧
    s.data = [0, 1] ∧ s.flag = false ∧ s.mutex = some 0 ∧ s.runs = 1 :=
  ⟨Dcl.run_reachable _ _, by decide, by decide, by decide, by decide, by decide, by decide, by decide⟩

/-- continued: 0 finishes, 1 takes the slow path and hits the re-check, 2 takes the fast path; all
three observe the complete structure; the body ran once. -/
example :
    let s := Dcl.run (msgInfoCfg 3) (demoInit ++ [.write 0 2, .bodyEnd 0, .store 0, .unlock 0, .lock 1, .fast 2 true,
      .recheck 1 true, .unlock 1, .read 0, .read 1, .read 2])
    s.pc 0 = .done [0, 1, 2] ∧ s.pc 1 = .done [0, 1, 2] ∧ s.pc 2 = .done [0, 1, 2] ∧ s.runs = 1 ∧ s.mutex = none := by decide

/-- File.lazyInit: a second thread that hits the re-check stores the flag again (storeOnHit) -/
example :
    let s := Dcl.run (fileCfg 1) [.fast 0 false, .fast 1 false, .lock 0, .recheck 0 false, .write 0 0, .write 0 1, .bodyEnd 0,
      .store 0, .unlock 0, .lock 1, .recheck 1 true, .store 1, .unlock 1, .read 1, .fast 2 true, .read 2]
    s.pc 1 = .done [0, 1] ∧ s.pc 2 = .done [0, 1] ∧ s.pc 0 = .read ∧ s.runs = 1 := by decide

/-- the trace checker rejects runs that are not runs of the protocol: a second thread entering the
lock while it is held; a fast-path hit before the flag is stored -/
example : Dcl.acceptsTrace (msgInfoCfg 2) [.fast 0 false, .fast 1 false, .lock 0, .lock 1] = false := by decide
example : Dcl.acceptsTrace (msgInfoCfg 2) [.fast 0 false, .lock 0, .recheck 0 false, .write 0 0, .fast 1 true] = false := by decide

/-! ### The theorems are sensitive to the protocol shape -/

/-- If the done flag were stored before the body has run, a thread taking the fast path would
read a partially written structure. -/
theorem flag_before_body_breaks :
    let bad : Dcl.Cfg := { msgInfoCfg 3 with order := .storeThenBody }
    ∃ s, Dcl.Reachable bad s ∧ s.pc 1 = .done [0] ∧ complete bad = [0, 1, 2] := by
  intro bad
  let tr : List Dcl.Ev := [.fast 0 false, .lock 0, .recheck 0 false, .store 0, .write 0 0, .fast 1 true, .read 1]
  exact ⟨Dcl.run bad tr, Dcl.run_reachable bad tr, by decide, by decide⟩

/-- If a helper called from inside lazyInitSlow's body stored the stage word xi.init with a plain write
(InitExtensionInfo from initFromLegacy), the store would not be ordered after the body's writes: a
goroutine whose lock-free `atomic.LoadUint32(&xi.init)` sees the stage already announced uses the
ExtensionInfo while only one of its three parts is written. -/
theorem extInfo_plain_stage_store_breaks :
    let bad : Dcl.Cfg := { extInfoCfg 3 with order := .storeThenBody }
    ∃ s, Dcl.Reachable bad s ∧ s.pc 1 = .done [0] ∧ complete bad = [0, 1, 2] ∧ s.pc 0 = .body 1 := by
  intro bad
  let tr : List Dcl.Ev := [.fast 0 false, .lock 0, .recheck 0 false, .store 0, .write 0 0, .fast 1 true, .read 1]
  exact ⟨Dcl.run bad tr, Dcl.run_reachable bad tr, by decide, by decide, by decide⟩

/-- If the slow path did not take the lock, the body could run twice (and the structure would be
written twice). -/
theorem no_lock_breaks :
    let bad : Dcl.Cfg := { msgInfoCfg 2 with locks := false }
    ∃ s, Dcl.Reachable bad s ∧ s.runs = 2 ∧ s.data = [0, 0] := by
  intro bad
  let tr : List Dcl.Ev := [.fast 0 false, .fast 1 false, .lock 0, .lock 1, .recheck 0 false, .recheck 1 false, .write 0 0, .write 1 0]
  exact ⟨Dcl.run bad tr, Dcl.run_reachable bad tr, by decide, by decide⟩

/-- File.lazyInit's re-check (`fd.L2 == nil`) relies on the body setting L2 first: with an empty
body the re-check would never hit and the body would be entered again. -/
theorem started_recheck_needs_first_write :
    let bad : Dcl.Cfg := { fileCfg 0 with writes := 0 }
    ∃ s, Dcl.Reachable bad s ∧ s.runs = 2 := by
  intro bad
  let tr : List Dcl.Ev := [.fast 0 false, .fast 1 false, .lock 0, .recheck 0 false, .bodyEnd 0, .store 0, .unlock 0,
    .lock 1, .recheck 1 false]
  exact ⟨Dcl.run bad tr, Dcl.run_reachable bad tr, by decide⟩

end examples

section regexamples
open Conc.Reg

/-- threads 0 and 3 register files 7 and 8 (two declarations each), threads 1, 2, 4 look up -/
def demoProg : Nat → Op
  | 0 => .register 7
  | 3 => .register 8
  | 5 => .register 7
  | _ => .lookup

/-- three threads in distinct phases: writer 0 has inserted one of two declarations, readers 1 and
2 are blocked (still idle) — the lock admits nobody while the file is half registered -/
example :
    let cfg := regCfg demoProg (fun _ => 2)
    let s := Reg.run cfg [0, 0, 0]
    Reg.Reachable cfg s ∧ s.pc 0 = .ins 1 ∧ s.tab.entries = [(7, 0)] ∧ s.tab.files = [] ∧
    Reg.next cfg s 1 = none ∧ Reg.next cfg s 3 = none :=
  ⟨Reg.run_reachable _ _, by decide, by decide, by decide, by decide, by decide⟩

/-- a full history: register 7; two overlapping lookups; register 8 waits for both readers;
a duplicate registration of 7 reports the conflict.  Results are the sequential ones in lock order
0, 1, 2, 3, 5. -/
example :
    let cfg := regCfg demoProg (fun _ => 2)
    let s := Reg.run cfg [0, 0, 0, 0, 0, 0, 1, 2, 1, 2, 1, 2, 3, 3, 3, 3, 3, 3, 5, 5, 5]
    s.log = [0, 1, 2, 3, 5] ∧ s.pc 0 = .done .ok ∧
    s.pc 1 = .done (.snap ⟨[(7, 0), (7, 1)], [7]⟩) ∧ s.pc 2 = .done (.snap ⟨[(7, 0), (7, 1)], [7]⟩) ∧
    s.pc 3 = .done .ok ∧ s.pc 5 = .done .conflict ∧
    s.tab = ⟨[(7, 0), (7, 1), (8, 0), (8, 1)], [7, 8]⟩ := by decide

/-- both readers hold the read lock at the same time (readers overlap readers) -/
example :
    let cfg := regCfg demoProg (fun _ => 2)
    let s := Reg.run cfg [1, 2, 4]
    s.readers = [4, 2, 1] ∧ s.pc 1 = .rread ∧ s.pc 2 = .rread ∧ Reg.next cfg s 0 = none := by decide

/-- If an accessor did not take the lock, a lookup could observe a half-registered file: one
declaration of file 7 is visible although the file is not registered yet. -/
theorem accessor_without_lock_breaks :
    let bad : Reg.Cfg := { regCfg demoProg (fun _ => 2) with readerLocks := false }
    ∃ s, Reg.Reachable bad s ∧ s.pc 1 = .done (.snap ⟨[(7, 0)], []⟩) := by
  intro bad
  exact ⟨Reg.run bad [0, 0, 0, 1, 1, 1], Reg.run_reachable bad _, by decide⟩

end regexamples

end C19
