import PbVerif.Props.C03
import PbVerif.Lemmas.MsgTotal
import PbVerif.Lemmas.MsgDepth
import PbVerif.Lemmas.MsgDeep
import PbVerif.Lemmas.MsgInv
/-
C06 — binary decoding is total and bounded, on ALL byte strings.

Model: `Pb.unmarshalInto` / `decMsg` / `decField` / `decEntry` (Model/Msg.lean = proto/decode.go +
decode_gen.go, reflection path).  The model decoder is a total function, so "never panics, never
reads beyond its input" hold by construction; what is proved here:

* `decode_total_no_fuel`  — the model's fuel (`fuelFor b = |b| + 2`) is adequate on every input: the
                            artefact error `DErr.fuel` is unreachable (every loop iteration consumes
                            ≥ 1 byte, nested payloads are strictly shorter);
* `decode_err_classes`    — the only errors are malformed data, recursion depth, invalid UTF-8;
* `decode_limit_zero`, `decode_depth`, `decode_ok_iff_depth`, `decode_limit_mono` — RecursionLimit;
* `decode_ok_wire`, `decode_malformed_fails` — success implies that the whole input is a sequence of
                            complete wire records with field numbers 1…2^29-1;
* `decode_wf`             — decoded messages are well-formed (`Pb.dwfMsg`): strictly ascending
                            declared fields, values of the right shape, canonical numbers, valid
                            UTF-8 where enforced, implicit-presence scalars non-zero, lists non-empty,
                            at most one member per oneof, map entries `(1 ↦ key, 2 ↦ value)` with
                            distinct keys — hereditarily.  `dwfMsg` is `cwfMsg` (the hypothesis of
                            the round trip C03) without the conjuncts on unknown bytes, encoded sizes
                            and group budget (`cwf_dwf`).
The agreement of `impl.Validate` with Unmarshal is tied by the correspondence run, not modelled.
-/
namespace C06
open Pb Spec

/-- the model's fuel artefact never shows: decoding is total with `fuelFor`, on every input -/
theorem decode_total_no_fuel (S : Schema) (mi : Nat) (m : Msg) (b : List Byte) (limit : Int) (dis : Bool) :
    unmarshalInto S mi m b limit dis ≠ .error .fuel := by
  unfold unmarshalInto
  split
  · simp
  · exact (dec_no_fuel _).1 _ _ _ _ _ _ (Nat.le_refl _)

/-- the only failures: malformed wire data, exceeded RecursionLimit, invalid UTF-8 -/
theorem decode_err_classes (S : Schema) (mi : Nat) (m : Msg) (b : List Byte) (limit : Int) (dis : Bool) (e : DErr)
    (h : unmarshalInto S mi m b limit dis = .error e) : e = .decode ∨ e = .depth ∨ e = .utf8 := by
  cases e with
  | decode => simp
  | depth => simp
  | utf8 => simp
  | fuel => exact absurd h (decode_total_no_fuel S mi m b limit dis)

/-- a non-positive limit refuses even the empty input -/
theorem decode_limit_zero (S : Schema) (mi : Nat) (m : Msg) (b : List Byte) (limit : Int) (dis : Bool)
    (h : limit ≤ 0) : unmarshalInto S mi m b limit dis = .error .depth := by
  unfold unmarshalInto
  have : limit - 1 < 0 := by omega
  simp [this]

/-- a larger limit does not change a successful decode (all inputs) -/
theorem decode_limit_mono (S : Schema) (mi : Nat) (m : Msg) (b : List Byte) (limit limit' : Int) (dis : Bool)
    (r : Msg) (hl : limit ≤ limit') (h : unmarshalInto S mi m b limit dis = .ok r) :
    unmarshalInto S mi m b limit' dis = .ok r := by
  unfold unmarshalInto at h ⊢
  split at h
  · cases h
  · rename_i hd
    have : ¬ limit' - 1 < 0 := by omega
    simp only [this, if_false]
    exact (dec_depth_mono _).1 _ _ _ _ _ _ _ _ (by omega) h

/-- **deep nesting past the limit fails with the depth error**: the encoding of a well-formed message
that nests deeper than `limit` is rejected with `errRecursionDepth` -/
theorem decode_depth (S : Schema) (mi : Nat) (m : Msg) (limit : Int) (dis : Bool)
    (hwf : WF S mi m) (hd : ¬ depthOK m limit) :
    unmarshal S mi (encMsg S mi m) limit dis = .error .depth := by
  unfold unmarshal unmarshalInto
  unfold depthOK at hd
  by_cases hl : limit - 1 < 0
  · simp [hl]
  · simp only [hl, if_false]
    exact deepMsg S m mi defaultRecursionLimit (limit - 1) dis (Int.le_refl _) hwf (by omega) (by omega)
      (Pb.fuelFor (encMsg S mi m)) (Nat.le_refl _)

/-- for encodings of well-formed messages the limit is exact -/
theorem decode_ok_iff_depth (S : Schema) (mi : Nat) (m : Msg) (limit : Int) (hwf : WF S mi m) :
    unmarshal S mi (encMsg S mi m) limit false = .ok m ↔ depthOK m limit := by
  constructor
  · intro h
    by_cases hd : depthOK m limit
    · exact hd
    · rw [decode_depth S mi m limit false hwf hd] at h; cases h
  · exact C03.decode_encode S mi m limit hwf

/-- success implies that the input is a sequence of complete wire records (numbers 1…2^29-1) -/
theorem decode_ok_wire (S : Schema) (mi : Nat) (m : Msg) (b : List Byte) (limit : Int) (dis : Bool) (r : Msg)
    (h : unmarshalInto S mi m b limit dis = .ok r) : WireSeq b := by
  unfold unmarshalInto at h
  split at h
  · cases h
  · exact decMsg_ok_wireSeq _ _ _ _ _ _ _ _ h

/-- contrapositive: an input that is not a sequence of complete records is rejected -/
theorem decode_fails_of_not_wire (S : Schema) (mi : Nat) (m : Msg) (b : List Byte) (limit : Int) (dis : Bool)
    (h : ¬ WireSeq b) : ∃ e, unmarshalInto S mi m b limit dis = .error e := by
  cases hr : unmarshalInto S mi m b limit dis with
  | error e => exact ⟨e, rfl⟩
  | ok r => exact absurd (decode_ok_wire S mi m b limit dis r hr) h

/-- what `WireSeq` says at a record boundary: the next record is complete, its number is in range,
and the same holds for what follows it -/
theorem wireSeq_inv {b : List Byte} (h : WireSeq b) (hb : b ≠ []) :
    ∃ num typ n, consumeField b = .ok (num, typ, n) ∧ num ≤ maxValidNumber ∧ WireSeq (b.drop n) := by
  cases h with
  | nil => exact absurd rfl hb
  | cons _ hc hm ht => exact ⟨_, _, _, hc, hm, ht⟩

/-- malformed data at the first record boundary (bad tag, field number 0, truncated value,
unterminated group, …) makes the decode fail -/
theorem decode_malformed_head (S : Schema) (mi : Nat) (m : Msg) (b : List Byte) (limit : Int) (dis : Bool)
    (e : WErr) (hb : b ≠ []) (h : consumeField b = .error e) :
    ∃ e', unmarshalInto S mi m b limit dis = .error e' := by
  apply decode_fails_of_not_wire
  intro hw
  obtain ⟨num, typ, n, hc, _, _⟩ := wireSeq_inv hw hb
  rw [h] at hc; cases hc

/-- **decoded messages are well-formed** (any input; the schema conditions `schemaOK` hold of every
descriptor protodesc accepts: repeated/map fields are not oneof members, map keys are scalars) -/
theorem decode_wf_into (S : Schema) (hS : schemaOK S = true) (mi : Nat) (m : Msg) (b : List Byte) (limit : Int)
    (dis : Bool) (r : Msg) (hm : dwfMsg S mi m = true) (h : unmarshalInto S mi m b limit dis = .ok r) :
    dwfMsg S mi r = true := by
  unfold unmarshalInto at h
  split at h
  · cases h
  · exact (dec_inv S hS _).1 _ _ _ _ _ _ hm h

theorem decode_wf (S : Schema) (hS : schemaOK S = true) (mi : Nat) (b : List Byte) (limit : Int) (dis : Bool)
    (r : Msg) (h : unmarshal S mi b limit dis = .ok r) : dwfMsg S mi r = true :=
  decode_wf_into S hS mi Msg.empty b limit dis r (dwfMsg_empty S mi) h

/-- oneof exclusivity and sortedness of a decoded message, spelled out -/
theorem decode_wf_fields (S : Schema) (hS : schemaOK S = true) (mi : Nat) (b : List Byte) (limit : Int) (dis : Bool)
    (fs : Fields) (u : List Byte) (h : unmarshal S mi b limit dis = .ok (.mk fs u)) :
    fs.sortedFrom 1 ∧ AtMostOne (S.msg mi) fs ∧
    (∀ n fv, fs.get? n = some fv → n ≤ maxValidNumber ∧ ∃ f, (S.msg mi).find n = some f ∧ dwfFVal S f fv = true) :=
  (dwfMsg_iff S mi fs u).mp (decode_wf S hS mi b limit dis _ h)

def DwfImp (S : Schema) (m : Msg) : Prop := ∀ mi g, cwfMsg S mi g m = true → dwfMsg S mi m = true

theorem dwf_val {S : Schema} {g : Int} {f : Field} {v : Val} (h : cwfVal S g f v = true)
    (IH : ∀ sub, v = .msg sub → DwfImp S sub) : dwfVal S f v = true := by
  cases v with
  | num n => simpa [cwfVal, dwfVal] using h
  | bytes b => simpa [cwfVal, dwfVal] using h
  | msg sub =>
    simp only [cwfVal, Bool.and_eq_true] at h
    simp only [dwfVal, h.1, Bool.true_and]
    by_cases hg : f.kind = .group
    · simp only [hg, if_true, Bool.and_eq_true] at h; exact IH sub rfl _ _ h.2.2
    · simp only [hg, if_false, Bool.and_eq_true] at h; exact IH sub rfl _ _ h.2.1

theorem dwf_vals {S : Schema} {g : Int} {f : Field} : ∀ (vs : Vals), cwfVals S g f vs = true →
    (∀ sub, sizeOf sub < sizeOf vs → DwfImp S sub) → dwfVals S f vs = true
  | .nil, _, _ => by simp [dwfVals]
  | .cons v tl, h, IH => by
    simp only [cwfVals, Bool.and_eq_true] at h
    simp only [dwfVals, Bool.and_eq_true]
    refine ⟨dwf_val h.1 ?_, dwf_vals tl h.2 ?_⟩
    · intro sub hs; subst hs; apply IH; simp; omega
    · intro sub hs; apply IH; simp; omega

theorem dwf_entries {S : Schema} {f kf vf : Field} : ∀ (vs : Vals), cwfEntries S f kf vf vs = true →
    (∀ sub, sizeOf sub < sizeOf vs → DwfImp S sub) → dwfEntries S kf vf vs = true
  | .nil, _, _ => by simp [dwfEntries]
  | .cons v tl, h, IH => by
    simp only [cwfEntries, Bool.and_eq_true] at h
    obtain ⟨⟨hwe, hkt⟩, hwt⟩ := h
    obtain ⟨key, value, hveq, hks, hvs, hsz⟩ := cwfEntry_inv hwe
    subst hveq
    have hvw : dwfVal S vf value = true := by
      apply dwf_val hvs
      intro sub hs; subst hs; apply IH; simp; omega
    simp only [dwfEntries, Bool.and_eq_true]
    refine ⟨⟨by simp [dwfEntry, hks, hvw], hkt⟩, dwf_entries tl hwt ?_⟩
    intro sub hs; apply IH; simp; omega

theorem dwf_fval {S : Schema} {g : Int} {f : Field} {fv : FVal} (h : cwfFVal S g f fv = true)
    (IH : ∀ sub, sizeOf sub < sizeOf fv → DwfImp S sub) : dwfFVal S f fv = true := by
  cases fv with
  | one v =>
    simp only [cwfFVal, Bool.and_eq_true] at h
    simp only [dwfFVal, Bool.and_eq_true]
    refine ⟨⟨h.1.1, dwf_val h.1.2 ?_⟩, h.2⟩
    intro sub hs; subst hs; apply IH; simp; omega
  | many vs =>
    simp only [cwfFVal, Bool.and_eq_true] at h
    have hIH : ∀ sub, sizeOf sub < sizeOf vs → DwfImp S sub := by
      intro sub hs; apply IH; simp; omega
    have h2 := h.2
    simp only [dwfFVal, h.1, Bool.true_and]
    cases hc : f.card with
    | optional => simp [hc] at h2
    | implicit => simp [hc] at h2
    | required => simp [hc] at h2
    | repeated =>
      simp only [hc, Bool.and_eq_true] at h2
      exact dwf_vals vs h2.1 hIH
    | map =>
      simp only [hc, Bool.and_eq_true] at h2
      have h3 := h2.2
      split at h3
      · rename_i kf vf hk hv; simp only [hk, hv]; exact dwf_entries vs h3 hIH
      · simp at h3

theorem dwf_fields {S : Schema} {d : MsgD} {g : Int} : ∀ (fs : Fields) (lb : Nat), cwfFields S d g lb fs = true →
    (∀ sub, sizeOf sub < sizeOf fs → DwfImp S sub) →
    sortedB lb fs = true ∧ oneofOKB d fs = true ∧ dvFields S d fs = true
  | .nil, _, _, _ => by simp [sortedB, oneofOKB, dvFields]
  | .cons n fv tl, lb, h, IH => by
    simp only [cwfFields, Bool.and_eq_true, decide_eq_true_eq] at h
    obtain ⟨⟨⟨hl, hmax⟩, hf⟩, htl⟩ := h
    obtain ⟨i1, i2, i3⟩ := dwf_fields tl (n + 1) htl (by intro sub hs; apply IH; simp; omega)
    cases hfind : d.find n with
    | none => simp [hfind] at hf
    | some f =>
      simp only [hfind, Bool.and_eq_true] at hf
      have hv := dwf_fval hf.1 (by intro sub hs; apply IH; simp; omega)
      refine ⟨by simp [sortedB, hl, i1], ?_, by simp [dvFields, hmax, hfind, hv, i3]⟩
      simp only [oneofOKB, hfind, i2, Bool.and_true]
      exact hf.2

theorem dwfImp_all {S : Schema} : ∀ (n : Nat) (m : Msg), sizeOf m ≤ n → DwfImp S m
  | 0, m, h => by cases m; simp at h
  | n + 1, .mk fs unk, h => by
    intro mi g hwf
    simp only [cwfMsg, Bool.and_eq_true] at hwf
    obtain ⟨i1, i2, i3⟩ := dwf_fields fs 1 hwf.1 (by intro sub hs; apply dwfImp_all n; simp at h; omega)
    simp [dwfMsg, i1, i2, i3]

/-- the decoder's invariant is the round trip's well-formedness minus the conjuncts on unknown
bytes, encoded sizes and group budget -/
theorem cwf_dwf (S : Schema) (mi : Nat) (g : Int) (m : Msg) (h : cwfMsg S mi g m = true) : dwfMsg S mi m = true :=
  dwfImp_all (sizeOf m) m (Nat.le_refl _) mi g h

/-! the hypotheses are satisfiable: the schema of the C03 example is `schemaOK`, its message `dwfMsg`;
decoding a concrete byte string yields a `dwfMsg` message -/
example : schemaOK C03.Example.S = true := by decide +kernel
example : dwfMsg C03.Example.S 0 C03.Example.M = true := by decide +kernel

end C06

#print axioms C06.decode_total_no_fuel
#print axioms C06.decode_depth
#print axioms C06.decode_wf
#print axioms C06.decode_ok_wire
