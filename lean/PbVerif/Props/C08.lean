import PbVerif.Lemmas.FastInitFlagSound
/-
C08 — generated fast path and reflection path are indistinguishable: the parts of the fast path that
decide *required-field initialisation* (model: Model/FastInit.lean), stated against the reflection-path
model `Pb.initMsg` (exact by `C10.initMsg_iff`).

THE CODE AS IT STANDS (/repo at 2af26fa) — namespace `C08`:
(a) `needsFixed_correct`            `needsInitCheck` (checkinit.go since 78c9443; model `walk` / `queryFixed` /
                                    `runFixed`) terminates and is exact, for ALL schemas (cyclic or not) and ALL
                                    query sequences: every entry of the map and every answer equals `Reaches`;
(b) `initFast_eq_initMsg_fixed`     `checkInitializedPointer` with the `isInit` table pruned by those results
                                    equals `checkInitializedSlow` on every typed value (`quiet_is_initialized`,
                                    `initFast_eq_initMsg`, `decoded_typed`);
(c) `flag_sound_fixed`              the `UnmarshalInitialized` flag (`flagLoop` with `MapRule.andOcc`, codec_map.go
                                    since 6c2b514) implies `initMsg` of the decoded message, all schemas, all inputs;
(d) `unmarshal_verdict_eq_initMsg`  the verdict of a top-level `Unmarshal` without AllowPartial (proto/decode.go
                                    since 2af26fa; model `unmarshalTop`), merging or not, is `initMsg` of the
                                    resulting message.

HISTORICAL REGRESSION WITNESSES — namespace `C08.Old`, names `old_*`: statements about the code *before* the
three repairs (models `needs`/`query`/`run`, `MapRule.orOcc`, `decFlagInto`).  They say nothing about the
current code; they document what was wrong, and the `example`s next to the headline theorems show that the
current model gives the right answer on the same inputs.
-/
namespace C08
open Pb FastInit

/-! ### witnesses shared by the examples and by `C08.Old` -/

/-- Q{A a} A{B b; C c} B{A a} C{required int32 x}  (indices 0 1 2 3) -/
def cycS : Schema := ⟨[
  ⟨[{ num := 1, kind := .message, card := .optional, sub := 1 }]⟩,
  ⟨[{ num := 1, kind := .message, card := .optional, sub := 2 },
    { num := 2, kind := .message, card := .optional, sub := 3 }]⟩,
  ⟨[{ num := 1, kind := .message, card := .optional, sub := 1 }]⟩,
  ⟨[{ num := 1, kind := .int32, card := .required }]⟩]⟩

def noXr : Nat → Bool := fun _ => false

/-- B reaches the required field of C through A -/
theorem cycS_B_reaches : Reaches cycS noXr 2 :=
  .step (j := 1) (by decide) (.step (j := 3) (by decide) (.here (by decide)))

/-- Q.a.b.a.c = {}  (wire bytes 0a060a040a021200) -/
def cycM : Msg :=
  let c : Msg := .mk .nil []
  let a2 : Msg := .mk (.cons 2 (.one (.msg c)) .nil) []
  let b : Msg := .mk (.cons 1 (.one (.msg a2)) .nil) []
  let a1 : Msg := .mk (.cons 1 (.one (.msg b)) .nil) []
  .mk (.cons 1 (.one (.msg a1)) .nil) []

/-- T{map<int32,V> m = 1} E{int32 key = 1; V value = 2} V{optional W w = 1} W{required int32 x = 1}
(indices 0 1 2 3) -/
def mapS : Schema := ⟨[
  ⟨[{ num := 1, kind := .message, card := .map, sub := 1 }]⟩,
  ⟨[{ num := 1, kind := .int32, card := .optional }, { num := 2, kind := .message, card := .optional, sub := 2 }]⟩,
  ⟨[{ num := 1, kind := .message, card := .optional, sub := 3 }]⟩,
  ⟨[{ num := 1, kind := .int32, card := .required }]⟩]⟩

/-- T{m: {1: V{w:{}} then V{}}}: one map entry carrying the value field twice (0a08 0801 12020a00 1200) -/
def mapBytes : List Spec.Byte := [0x0a, 0x08, 0x08, 0x01, 0x12, 0x02, 0x0a, 0x00, 0x12, 0x00]

def mapNd : Nat → Bool := fun i => decide (i < 4)

/-- V{w: W{}}: a merge target that already holds an uninitialized submessage -/
def partialV : Msg := .mk (.cons 1 (.one (.msg (.mk .nil []))) .nil) []

/-- the descriptor rules are satisfiable by non-trivial schemas: a cycle, and a map whose value reaches a
required field -/
example : schemaOK cycS = true ∧ MapOK cycS noXr ∧ ExtOK cycS noXr ∧ ReqOK cycS ∧
    schemaOK mapS = true ∧ MapOK mapS noXr ∧ ExtOK mapS noXr ∧ ReqOK mapS ∧ Reaches mapS noXr 0 :=
  ⟨by decide, mapOK_of_B (by decide), extOK_of_B (by decide), reqOK_of_B (by decide),
   by decide, mapOK_of_B (by decide), extOK_of_B (by decide), reqOK_of_B (by decide),
   .step (j := 2) (by decide) (.step (j := 3) (by decide) (.here (by decide)))⟩

/-! ### (a) needsInitCheck -/

theorem runFixed_exact (S : Schema) (xr : Nat → Bool) : ∀ (qs : List Nat) (g g' : BCache),
    Exact S xr g → runFixed S xr qs g = some g' → Exact S xr g'
  | [], g, g', hg, h => by cases h; exact hg
  | q :: qs, g, g', hg, h => by
    rw [runFixed] at h
    split at h
    · cases h
    · rename_i r g1 hq
      exact runFixed_exact S xr qs g1 g' (queryFixed_exact S xr g q r g1 hg hq).1 h

/-- **`needsInitCheck` is exact, for ALL schemas and ALL query sequences**: every sequence of queries
terminates; afterwards every entry of the map equals the specification, and so does every answer -/
theorem needsFixed_correct (S : Schema) (xr : Nat → Bool) (qs : List Nat) :
    ∃ g, runFixed S xr qs BCache.empty = some g ∧
      (∀ i b, g i = some b → (b = true ↔ Reaches S xr i)) ∧
      (∀ i, ∃ r g', queryFixed S xr g i = some (r, g') ∧ (r = true ↔ Reaches S xr i) ∧
        g' i = some r) := by
  have htot : ∀ (qs : List Nat) (g : BCache), ∃ g', runFixed S xr qs g = some g' := by
    intro qs
    induction qs with
    | nil => intro g; exact ⟨g, rfl⟩
    | cons q qs ih =>
      intro g
      obtain ⟨r, g1, h⟩ := queryFixed_total S xr g q
      obtain ⟨g', h'⟩ := ih g1
      exact ⟨g', by rw [runFixed, h]; exact h'⟩
  obtain ⟨g, hg⟩ := htot qs BCache.empty
  have hex : Exact S xr g := runFixed_exact S xr qs _ g (fun j b hj => by simp [BCache.empty] at hj) hg
  refine ⟨g, hg, hex, fun i => ?_⟩
  obtain ⟨r, g', hq⟩ := queryFixed_total S xr g i
  exact ⟨r, g', hq, (queryFixed_exact S xr g i r g' hex hq).2, queryFixed_stores S xr g i r g' hex hq⟩

/-- on the cyclic witness the code answers `true` for B after Q was queried (it used to answer `false`:
`Old.old_needs_wrong_witness`) -/
example : (runFixed cycS noXr [0] BCache.empty).bind (fun g => (queryFixed cycS noXr g 2).map (·.1)) = some true := by
  decide

/-- `mi.needsInitCheck` as computed by `needsInitCheck(mi.Desc)` after the queries `qs` (by
`ndFixed_exact` the history does not matter) -/
def ndFixed (S : Schema) (xr : Nat → Bool) (qs : List Nat) : Nat → Bool := fun i =>
  match (runFixed S xr qs BCache.empty).bind (fun g => queryFixed S xr g i) with
  | some (r, _) => r
  | none => false

theorem ndFixed_exact (S : Schema) (xr : Nat → Bool) (qs : List Nat) (i : Nat) :
    ndFixed S xr qs i = true ↔ Reaches S xr i := by
  obtain ⟨g, hg, _, hq⟩ := needsFixed_correct S xr qs
  obtain ⟨r, g', hq', hiff, _⟩ := hq i
  unfold ndFixed
  rw [hg]
  simp only [Option.bind_some, hq']
  exact hiff

/-! ### (b) checkInitializedPointer pruned by needsInitCheck = checkInitializedSlow

`MapOK`/`ExtOK`: the descriptor rules the walk relies on (a map entry has no required field, no
extension range and no message-valued field other than its plain value field 2; extension fields extend
messages with extension ranges).  `tyMsg`: message values sit in message-valued fields (true of every
decoded message, `C08.decoded_typed`). -/

/-- **key lemma**: a message type that reaches no required field and no extension range is initialized
whatever its value -/
theorem quiet_is_initialized (S : Schema) (xr : Nat → Bool) (hM : MapOK S xr) (hX : ExtOK S xr)
    (mi : Nat) (m : Msg) (hq : ¬ Reaches S xr mi) (ht : tyMsg S mi m = true) : initMsg S mi m = true :=
  quiet_msg S xr m mi (fun hr => hq (reaches_of_reachesM hM hX hr)) ht

/-- **with exact `needsInitCheck` results the pruned fast check is the slow check**, for all schemas
(cyclic or not) and all typed values -/
theorem initFast_eq_initMsg (S : Schema) (xr : Nat → Bool) (nd : Nat → Bool) (hM : MapOK S xr) (hX : ExtOK S xr)
    (hnd : ∀ i, nd i = true ↔ Reaches S xr i) (mi : Nat) (m : Msg) (ht : tyMsg S mi m = true) :
    initFastMsg S nd mi m = initMsg S mi m :=
  fast_msg S xr nd hM hX hnd m mi ht

/-- **`CheckInitialized` on the fast path is `checkInitializedSlow`**: every `needsInitCheck` flag is exact
(whatever was queried before), so the pruned check equals the full check, for all schemas and typed values -/
theorem initFast_eq_initMsg_fixed (S : Schema) (xr : Nat → Bool) (hM : MapOK S xr) (hX : ExtOK S xr)
    (qs : List Nat) (mi : Nat) (m : Msg) (ht : tyMsg S mi m = true) :
    initFastMsg S (ndFixed S xr qs) mi m = initMsg S mi m :=
  initFast_eq_initMsg S xr _ hM hX (ndFixed_exact S xr qs) mi m ht

/-- on the cyclic witness (Q queried first) the fast check now rejects Q.a.b.a.c = {} as the slow check does
(it used to accept it: `Old.old_initFast_wrong_with_cached`) -/
example : initFastMsg cycS (ndFixed cycS noXr [0]) 0 cycM = false ∧ initMsg cycS 0 cycM = false := by
  decide

/-- every decoded message is typed (so (b) applies to whatever the decoder produces) -/
theorem decoded_typed (S : Schema) (xr : Nat → Bool) (hS : schemaOK S = true) (hM : MapOK S xr) (mi : Nat)
    (b : List Spec.Byte) (m : Msg) (h : unmarshal S mi b = .ok m) : tyMsg S mi m = true := by
  refine ty_of_dwfMsg S xr hM m mi ?_
  unfold unmarshal unmarshalInto at h
  split at h
  · cases h
  · exact (dec_inv S hS _).1 _ _ _ _ _ _ (dwfMsg_empty S mi) h

/-! ### (c) the `initialized` flag computed while decoding

`decFlag S nd rule mi b` = the message decoded from `b` together with the flag (`FastInit.flagLoop`:
`requiredMask` popcount, `if f.funcs.isInit != nil && !o.initialized { initialized = false }`, and the
rule `consumeMapOfMessage` uses to combine the occurrences of a map value; the code as it stands uses
`MapRule.andOcc`).  A non-merging `proto.Unmarshal` skips `checkInitialized` when the flag is set, so the
flag has to imply `initMsg`. -/

/-- the flag is sound for rule `rule`: for every schema obeying the descriptor rules (`schemaOK`, `MapOK`,
`ExtOK`, `ReqOK`), `needsInitCheck` results `nd` that are never wrongly `false`, every message type and
every input, a set flag means the decoded message is initialized -/
def FlagSound (rule : MapRule) : Prop :=
  ∀ (S : Schema) (xr nd : Nat → Bool), schemaOK S = true → MapOK S xr → ExtOK S xr → ReqOK S →
    (∀ i, nd i = false → ¬ Reaches S xr i) →
    ∀ (mi : Nat) (b : List Spec.Byte) (m : Msg), decFlag S nd rule mi b = .ok (m, true) → initMsg S mi m = true

/-- **the flag (a map value counts as initialized when it was seen and every occurrence was initialized) is
sound**, all schemas, all inputs -/
theorem flag_sound_fixed : FlagSound .andOcc :=
  fun S xr nd hS hM hX hR hnd mi b m h => decFlag_sound S xr nd .andOcc hS hM hX hR hnd (Or.inl rfl) mi b m h

/-- the flag is not vacuous: an initialized input sets it
(T{m: {1: V{w: W{x: 5}}}} = 0a08 0801 1204 0a02 0805) -/
example :
    (match decFlag mapS mapNd .andOcc 0 [0x0a, 0x08, 0x08, 0x01, 0x12, 0x04, 0x0a, 0x02, 0x08, 0x05] with
     | .ok (m, fl) => fl && initMsg mapS 0 m
     | .error _ => false) = true := by
  decide

/-- on the map witness (value field twice: V{w:{}} then V{}) the flag is not set and the decoded message is
not initialized (the flag used to be set: `Old.old_mapS_or_flag`) -/
example :
    (match decFlag mapS mapNd .andOcc 0 mapBytes with
     | .ok (m, fl) => !fl && !initMsg mapS 0 m
     | .error _ => false) = true := by
  decide

/-! ### (d) the verdict of a top-level Unmarshal

`unmarshalTop S nd mi merge m0 b limit dis` = proto/decode.go `UnmarshalOptions.unmarshal` without
AllowPartial on the fast path: `Reset` unless `Merge`; decode; when the caller asked for `Merge` the flag is
cleared; a set flag returns nil, otherwise `checkInitialized(m)` (the pruned fast check) decides. -/

/-- **a top-level Unmarshal, merging or not, reports a required-field error iff the resulting message is not
initialized** — for all schemas obeying the descriptor rules, any `needsInitCheck` history, any well-formed
merge target, all inputs, all RecursionLimits, with or without DiscardUnknown -/
theorem unmarshal_verdict_eq_initMsg (S : Schema) (xr : Nat → Bool) (hS : schemaOK S = true) (hM : MapOK S xr)
    (hX : ExtOK S xr) (hR : ReqOK S) (qs : List Nat) (mi : Nat) (merge : Bool) (m0 : Msg)
    (b : List Spec.Byte) (limit : Int) (dis : Bool) (m : Msg) (v : Bool)
    (hw : merge = true → dwfMsg S mi m0 = true)
    (h : unmarshalTop S (ndFixed S xr qs) mi merge m0 b limit dis = .ok (m, v)) :
    v = initMsg S mi m :=
  unmarshalTop_verdict S xr _ hS hM hX hR (ndFixed_exact S xr qs) mi merge m0 b limit dis m v hw h

/-- the merging case spelled out: the verdict is `initMsg` of the merged result, whatever the flag says -/
theorem unmarshal_merge_verdict (S : Schema) (xr : Nat → Bool) (hS : schemaOK S = true) (hM : MapOK S xr)
    (hX : ExtOK S xr) (hR : ReqOK S) (qs : List Nat) (mi : Nat) (m0 : Msg) (b : List Spec.Byte) (m : Msg) (v : Bool)
    (hw : dwfMsg S mi m0 = true)
    (h : unmarshalTop S (ndFixed S xr qs) mi true m0 b = .ok (m, v)) :
    unmarshalInto S mi m0 b 10000 false = .ok m ∧ v = initMsg S mi m := by
  refine ⟨?_, unmarshal_verdict_eq_initMsg S xr hS hM hX hR qs mi true m0 b 10000 false m v (fun _ => hw) h⟩
  unfold unmarshalTop at h
  simp only [if_true] at h
  cases hu : unmarshalInto S mi m0 b 10000 false with
  | error e => rw [hu] at h; cases h
  | ok m1 =>
    rw [hu] at h
    simp only [Except.map, Except.ok.injEq, Prod.mk.injEq] at h
    rw [h.1]

/-- the three regression inputs under the code as it stands: merging empty input into V{w: W{}} is refused
(used to be accepted: `Old.old_flag_merge_needs_initialized_target`), the map witness is refused, an
initialized input is accepted -/
example :
    (match unmarshalTop mapS (ndFixed mapS noXr []) 2 true partialV [],
           unmarshalTop mapS (ndFixed mapS noXr []) 0 false Msg.empty mapBytes,
           unmarshalTop mapS (ndFixed mapS noXr []) 0 false Msg.empty
             [0x0a, 0x08, 0x08, 0x01, 0x12, 0x04, 0x0a, 0x02, 0x08, 0x05] with
     | .ok (_, v1), .ok (_, v2), .ok (_, v3) => !v1 && !v2 && v3
     | _, _, _ => false) = true := by
  decide

/-! ### HISTORICAL regression witnesses: the code before /repo 78c9443, 6c2b514, 2af26fa

Nothing below is a statement about the current code. -/
namespace Old

/-! #### `needsInitCheckLocked` before 78c9443 (model `needs` / `query` / `run`) -/

/-- the fuel artefact of the model never shows -/
theorem old_needs_total (S : Schema) (xr : Nat → Bool) (qs : List Nat) (c : Cache) :
    ∃ c', run S xr qs c = some c' := by
  induction qs generalizing c with
  | nil => exact ⟨c, rfl⟩
  | cons q qs ih =>
    obtain ⟨r, c1, h⟩ := query_total S xr c q
    obtain ⟨c', h'⟩ := ih c1
    exact ⟨c', by rw [run, h]; exact h'⟩

theorem old_run_trueOK (S : Schema) (xr : Nat → Bool) : ∀ (qs : List Nat) (c c' : Cache),
    TrueOK S xr c → run S xr qs c = some c' → TrueOK S xr c'
  | [], c, c', hc, h => by cases h; exact hc
  | q :: qs, c, c', hc, h => by
    rw [run] at h
    split at h
    · cases h
    · rename_i r c1 hq
      exact old_run_trueOK S xr qs c1 c' (needs_true_sound S xr _ c q r c1 hc hq).1 h

/-- **a `true` is always right**: after any sequence of queries from the empty map, on any schema
(cyclic or not), every cached `true` and every `true` answer is correct -/
theorem old_needs_sound_when_true (S : Schema) (xr : Nat → Bool) (qs : List Nat) (c : Cache)
    (h : run S xr qs Cache.empty = some c) :
    (∀ i, c i = some (.done true) → Reaches S xr i) ∧
    (∀ i c', query S xr c i = some (true, c') → Reaches S xr i) := by
  have hc : TrueOK S xr c := old_run_trueOK S xr qs _ c (fun j hj => by simp [Cache.empty] at hj) h
  exact ⟨hc, fun i c' hq => (needs_true_sound S xr _ c i true c' hc hq).2 rfl⟩

theorem old_run_acyclic (S : Schema) (xr : Nat → Bool) (hA : Acyclic S) : ∀ (qs : List Nat) (c c' : Cache),
    ExactC S xr c → NoBusy c → run S xr qs c = some c' → ExactC S xr c' ∧ NoBusy c'
  | [], c, c', hc, hb, h => by cases h; exact ⟨hc, hb⟩
  | q :: qs, c, c', hc, hb, h => by
    rw [run] at h
    split at h
    · cases h
    · rename_i r c1 hq
      obtain ⟨a, b, _⟩ := needs_acyclic S xr hA _ c q r c1 hc (fun j hj => absurd hj (hb j)) hq
      exact old_run_acyclic S xr hA qs c1 c' a (fun j hj => hb j ((b j).1 hj)) h

/-- **exact on acyclic schemas**: every cached entry and every answer equals the specification -/
theorem old_needs_correct_acyclic (S : Schema) (xr : Nat → Bool) (hA : Acyclic S) (qs : List Nat) (c : Cache)
    (h : run S xr qs Cache.empty = some c) :
    (∀ i b, c i = some (.done b) → (b = true ↔ Reaches S xr i)) ∧
    (∀ i r c', query S xr c i = some (r, c') → (r = true ↔ Reaches S xr i)) := by
  obtain ⟨hc, hb⟩ := old_run_acyclic S xr hA qs _ c (fun j b hj => by simp [Cache.empty] at hj)
    (fun j hj => by simp [Cache.empty] at hj) h
  exact ⟨hc, fun i r c' hq => (needs_acyclic S xr hA _ c i r c' hc (fun j hj => absurd hj (hb j)) hq).2.2⟩

/-- the statement one would want of the old code, for all schemas -/
def OldNeedsCorrect : Prop :=
  ∀ (S : Schema) (xr : Nat → Bool) (qs : List Nat) (c : Cache), run S xr qs Cache.empty = some c →
    ∀ i b, c i = some (.done b) → (b = true ↔ Reaches S xr i)

/-- after `needsInitCheck(Q)` the map holds `false` for B -/
theorem old_cycS_cached : (run cycS noXr [0] Cache.empty).map (fun c => c 2) = some (some (.done false)) := by
  decide

/-- **HISTORICAL, refuted the old code** (finding `needsinitcheck-cycle-cached-false`, repaired in 78c9443): there are a schema, a cache reachable from
the empty cache by a sequence of queries, and a message for which the cached answer differs from the
specification; the next query of that message returns the wrong answer -/
theorem old_needs_wrong_witness :
    ∃ (S : Schema) (xr : Nat → Bool) (qs : List Nat) (c : Cache) (i : Nat),
      run S xr qs Cache.empty = some c ∧ c i = some (.done false) ∧ query S xr c i = some (false, c) ∧
      Reaches S xr i := by
  have h := old_cycS_cached
  cases hr : run cycS noXr [0] Cache.empty with
  | none => rw [hr] at h; cases h
  | some c =>
    rw [hr] at h
    simp only [Option.map_some, Option.some.injEq] at h
    refine ⟨cycS, noXr, [0], c, 2, hr, h, ?_, cycS_B_reaches⟩
    simp [query, needs, h]

theorem old_needs_correct_false : ¬ OldNeedsCorrect := by
  intro hN
  obtain ⟨S, xr, qs, c, i, hr, hc, _, hreach⟩ := old_needs_wrong_witness
  have := (hN S xr qs c hr i false hc).2 hreach
  cases this

/-- the flags `mi.needsInitCheck` as the old code computes them after the queries `qs` -/
def oldNdOfRun (S : Schema) (xr : Nat → Bool) (qs : List Nat) : Nat → Bool := fun i =>
  match (run S xr (qs ++ [i]) Cache.empty).bind (fun c => c i) with
  | some (.done b) => b
  | _ => false

/-- **HISTORICAL: with the flags the old code computed** (same finding, seen through
CheckInitialized): after `needsInitCheck(Q)` the fast path accepts a message whose C.x is missing -/
theorem old_initFast_wrong_with_cached :
    tyMsg cycS 0 cycM = true ∧ initFastMsg cycS (oldNdOfRun cycS noXr [0]) 0 cycM = true ∧ initMsg cycS 0 cycM = false := by
  decide

/-! #### `consumeMapOfMessage` before 6c2b514 (`MapRule.orOcc`) -/

/-- **the flag of the old code (OR rule) is sound for everything except message-valued maps** -/
theorem old_flag_sound (S : Schema) (xr nd : Nat → Bool) (hS : schemaOK S = true) (hM : MapOK S xr) (hX : ExtOK S xr)
    (hR : ReqOK S) (hnd : ∀ i, nd i = false → ¬ Reaches S xr i) (hno : NoMsgMap S)
    (mi : Nat) (b : List Spec.Byte) (m : Msg) (h : decFlag S nd .orOcc mi b = .ok (m, true)) :
    initMsg S mi m = true :=
  decFlag_sound S xr nd .orOcc hS hM hX hR hnd (Or.inr hno) mi b m h

/-- with the OR rule the flag is set although W.x is missing in the merged value -/
theorem old_mapS_or_flag :
    (match decFlag mapS mapNd .orOcc 0 mapBytes with
     | .ok (m, fl) => fl && !initMsg mapS 0 m
     | .error _ => false) = true := by
  decide

theorem mapNd_sound : ∀ i, mapNd i = false → ¬ Reaches mapS noXr i := by
  intro i hi hr
  have hge : mapS.msgs.length ≤ i := by
    simp only [mapNd, decide_eq_false_iff_not] at hi
    show 4 ≤ i
    omega
  rcases reaches_iff.1 hr with ho | ⟨j, hj, _⟩
  · simp [own, hasRequired, msg_out_of_range hge, noXr] at ho
  · rw [succs_out_of_range hge] at hj; cases hj

/-- **HISTORICAL, refuted the old code** (finding `map-message-value-init-or`, repaired in 6c2b514): the flag
with the OR rule is not sound -/
theorem old_flag_sound_or_false : ¬ FlagSound .orOcc := by
  intro hF
  have h := old_mapS_or_flag
  cases hd : decFlag mapS mapNd .orOcc 0 mapBytes with
  | error e => rw [hd] at h; cases h
  | ok r =>
    obtain ⟨m, fl⟩ := r
    rw [hd] at h
    simp only [Bool.and_eq_true, Bool.not_eq_true'] at h
    obtain ⟨rfl, hi⟩ := h
    have := hF mapS noXr mapNd (by decide) (mapOK_of_B (by decide)) (extOK_of_B (by decide))
      (reqOK_of_B (by decide)) mapNd_sound 0 mapBytes m hd
    rw [hi] at this; cases this

/-! #### a merging Unmarshal trusting the flag, before 2af26fa (`decFlagInto`) -/

theorem old_flag_sound_merge (rule : MapRule)
    (S : Schema) (xr nd : Nat → Bool) (hS : schemaOK S = true) (hM : MapOK S xr) (hX : ExtOK S xr)
    (hR : ReqOK S) (hnd : ∀ i, nd i = false → ¬ Reaches S xr i) (hr : rule = .andOcc ∨ NoMsgMap S)
    (mi : Nat) (m0 : Msg) (b : List Spec.Byte) (m : Msg) (hw : dwfMsg S mi m0 = true)
    (h0 : initFields S (S.msg mi) m0.fields = true)
    (h : decFlagInto S nd rule mi m0 b = .ok (m, true)) : initMsg S mi m = true :=
  decFlagInto_sound S xr nd rule hS hM hX hR hnd hr mi m0 b m hw h0 h

/-- **HISTORICAL** (repaired in 2af26fa, which no longer trusts the flag when merging): V{w: W{}} as merge
target, empty input: the flag is set, the result is not initialized -/
theorem old_flag_merge_needs_initialized_target :
    (match decFlagInto mapS mapNd .andOcc 2 partialV [] with
     | .ok (m, fl) => fl && !initMsg mapS 2 m
     | .error _ => false) = true := by
  decide

end Old

end C08
