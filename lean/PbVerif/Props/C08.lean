import PbVerif.Lemmas.FastInitCheck
/-
C08 — generated fast path and reflection path are indistinguishable: the parts of the table-driven
fast path that decide *required-field initialisation*.

(a) `needsInitCheck` (internal/impl/checkinit.go; model `FastInit.needs` / `query` / `run`):
    * `needs_total`              the model's fuel is never exhausted;
    * `needs_sound_when_true`    a cached or returned `true` is always right — all schemas, all histories;
    * `needs_correct_acyclic`    on schemas whose message graph is acyclic every cached entry and every
                                 answer is exact;
    * `needs_correct_false`      REFUTED for cyclic schemas: `¬ NeedsCorrect` (witness Q{A} A{B,C} B{A}
                                 C{required x}: after querying Q the map holds `false` for B, and B reaches C);
    * `needsFixed_correct`       the repaired walk (fixes/needsinitcheck-cycle.diff) is exact for ALL
                                 schemas and ALL query sequences, and total.
-/
namespace C08
open Pb FastInit

/-! ### (a) needsInitCheck -/

/-- the fuel artefact of the model never shows -/
theorem needs_total (S : Schema) (xr : Nat → Bool) (qs : List Nat) (c : Cache) :
    ∃ c', run S xr qs c = some c' := by
  induction qs generalizing c with
  | nil => exact ⟨c, rfl⟩
  | cons q qs ih =>
    obtain ⟨r, c1, h⟩ := query_total S xr c q
    obtain ⟨c', h'⟩ := ih c1
    exact ⟨c', by rw [run, h]; exact h'⟩

theorem run_trueOK (S : Schema) (xr : Nat → Bool) : ∀ (qs : List Nat) (c c' : Cache),
    TrueOK S xr c → run S xr qs c = some c' → TrueOK S xr c'
  | [], c, c', hc, h => by cases h; exact hc
  | q :: qs, c, c', hc, h => by
    rw [run] at h
    split at h
    · cases h
    · rename_i r c1 hq
      exact run_trueOK S xr qs c1 c' (needs_true_sound S xr _ c q r c1 hc hq).1 h

/-- **a `true` is always right**: after any sequence of queries from the empty map, on any schema
(cyclic or not), every cached `true` and every `true` answer is correct -/
theorem needs_sound_when_true (S : Schema) (xr : Nat → Bool) (qs : List Nat) (c : Cache)
    (h : run S xr qs Cache.empty = some c) :
    (∀ i, c i = some (.done true) → Reaches S xr i) ∧
    (∀ i c', query S xr c i = some (true, c') → Reaches S xr i) := by
  have hc : TrueOK S xr c := run_trueOK S xr qs _ c (fun j hj => by simp [Cache.empty] at hj) h
  exact ⟨hc, fun i c' hq => (needs_true_sound S xr _ c i true c' hc hq).2 rfl⟩

theorem run_acyclic (S : Schema) (xr : Nat → Bool) (hA : Acyclic S) : ∀ (qs : List Nat) (c c' : Cache),
    ExactC S xr c → NoBusy c → run S xr qs c = some c' → ExactC S xr c' ∧ NoBusy c'
  | [], c, c', hc, hb, h => by cases h; exact ⟨hc, hb⟩
  | q :: qs, c, c', hc, hb, h => by
    rw [run] at h
    split at h
    · cases h
    · rename_i r c1 hq
      obtain ⟨a, b, _⟩ := needs_acyclic S xr hA _ c q r c1 hc (fun j hj => absurd hj (hb j)) hq
      exact run_acyclic S xr hA qs c1 c' a (fun j hj => hb j ((b j).1 hj)) h

/-- **exact on acyclic schemas**: every cached entry and every answer equals the specification -/
theorem needs_correct_acyclic (S : Schema) (xr : Nat → Bool) (hA : Acyclic S) (qs : List Nat) (c : Cache)
    (h : run S xr qs Cache.empty = some c) :
    (∀ i b, c i = some (.done b) → (b = true ↔ Reaches S xr i)) ∧
    (∀ i r c', query S xr c i = some (r, c') → (r = true ↔ Reaches S xr i)) := by
  obtain ⟨hc, hb⟩ := run_acyclic S xr hA qs _ c (fun j b hj => by simp [Cache.empty] at hj)
    (fun j hj => by simp [Cache.empty] at hj) h
  exact ⟨hc, fun i r c' hq => (needs_acyclic S xr hA _ c i r c' hc (fun j hj => absurd hj (hb j)) hq).2.2⟩

/-- the statement one would want of the code as it is, for all schemas -/
def NeedsCorrect : Prop :=
  ∀ (S : Schema) (xr : Nat → Bool) (qs : List Nat) (c : Cache), run S xr qs Cache.empty = some c →
    ∀ i b, c i = some (.done b) → (b = true ↔ Reaches S xr i)

/-- Q{A a} A{B b; C c} B{A a} C{required int32 x}  (indices 0 1 2 3) -/
def cycS : Schema := ⟨[
  ⟨[{ num := 1, kind := .message, card := .optional, sub := 1 }]⟩,
  ⟨[{ num := 1, kind := .message, card := .optional, sub := 2 },
    { num := 2, kind := .message, card := .optional, sub := 3 }]⟩,
  ⟨[{ num := 1, kind := .message, card := .optional, sub := 1 }]⟩,
  ⟨[{ num := 1, kind := .int32, card := .required }]⟩]⟩

def noXr : Nat → Bool := fun _ => false

/-- B reaches the required field of C through A -/
theorem cycS_B_reaches : Reaches cycS noXr 2 :=
  .step (j := 1) (by decide) (.step (j := 3) (by decide) (.here (by decide)))

/-- after `needsInitCheck(Q)` the map holds `false` for B -/
theorem cycS_cached : (run cycS noXr [0] Cache.empty).map (fun c => c 2) = some (some (.done false)) := by
  decide

/-- **REFUTED** (finding `needsinitcheck-cycle-cached-false`): there are a schema, a cache reachable from
the empty cache by a sequence of queries, and a message for which the cached answer differs from the
specification; the next query of that message returns the wrong answer -/
theorem needs_wrong_witness :
    ∃ (S : Schema) (xr : Nat → Bool) (qs : List Nat) (c : Cache) (i : Nat),
      run S xr qs Cache.empty = some c ∧ c i = some (.done false) ∧ query S xr c i = some (false, c) ∧
      Reaches S xr i := by
  have h := cycS_cached
  cases hr : run cycS noXr [0] Cache.empty with
  | none => rw [hr] at h; cases h
  | some c =>
    rw [hr] at h
    simp only [Option.map_some, Option.some.injEq] at h
    refine ⟨cycS, noXr, [0], c, 2, hr, h, ?_, cycS_B_reaches⟩
    simp [query, needs, h]

theorem needs_correct_false : ¬ NeedsCorrect := by
  intro hN
  obtain ⟨S, xr, qs, c, i, hr, hc, _, hreach⟩ := needs_wrong_witness
  have := (hN S xr qs c hr i false hc).2 hreach
  cases this

/-! #### the repair -/

theorem runFixed_exact (S : Schema) (xr : Nat → Bool) : ∀ (qs : List Nat) (g g' : BCache),
    Exact S xr g → runFixed S xr qs g = some g' → Exact S xr g'
  | [], g, g', hg, h => by cases h; exact hg
  | q :: qs, g, g', hg, h => by
    rw [runFixed] at h
    split at h
    · cases h
    · rename_i r g1 hq
      exact runFixed_exact S xr qs g1 g' (queryFixed_exact S xr g q r g1 hg hq).1 h

/-- **the repaired walk is exact, for ALL schemas and ALL query sequences**: every sequence of queries
terminates; afterwards every entry of the map equals the specification, and so does every answer -/
theorem needsFixed_correct (S : Schema) (xr : Nat → Bool) (qs : List Nat) :
    ∃ g, runFixed S xr qs BCache.empty = some g ∧
      (∀ i b, g i = some b → (b = true ↔ Reaches S xr i)) ∧
      (∀ i, ∃ r g', queryFixed S xr g i = some (r, g') ∧ (r = true ↔ Reaches S xr i) ∧
        g' i = some r) := by
  have htot : ∀ (qs : List Nat) (g : BCache), ∃ g', runFixed S xr qs g = some g' := by
    intro qs
    induction qs with
    | nil => intro g; exact ⟨g, rfl⟩
    | cons q qs ih =>
      intro g
      obtain ⟨r, g1, h⟩ := queryFixed_total S xr g q
      obtain ⟨g', h'⟩ := ih g1
      exact ⟨g', by rw [runFixed, h]; exact h'⟩
  obtain ⟨g, hg⟩ := htot qs BCache.empty
  have hex : Exact S xr g := runFixed_exact S xr qs _ g (fun j b hj => by simp [BCache.empty] at hj) hg
  refine ⟨g, hg, hex, fun i => ?_⟩
  obtain ⟨r, g', hq⟩ := queryFixed_total S xr g i
  exact ⟨r, g', hq, (queryFixed_exact S xr g i r g' hex hq).2, queryFixed_stores S xr g i r g' hex hq⟩

/-- on the witness the repaired code answers `true` for B after Q was queried -/
example : (runFixed cycS noXr [0] BCache.empty).bind (fun g => (queryFixed cycS noXr g 2).map (·.1)) = some true := by
  decide

/-! ### (b) checkInitializedPointer pruned by needsInitCheck = checkInitializedSlow

`MapOK`/`ExtOK`: the descriptor rules the walk relies on (a map entry has no required field, no
extension range and no message-valued field other than its plain value field 2; extension fields extend
messages with extension ranges).  `tyMsg`: message values sit in message-valued fields (true of every
decoded message, `C08.decoded_typed`). -/

/-- **key lemma**: a message type that reaches no required field and no extension range is initialized
whatever its value -/
theorem quiet_is_initialized (S : Schema) (xr : Nat → Bool) (hM : MapOK S xr) (hX : ExtOK S xr)
    (mi : Nat) (m : Msg) (hq : ¬ Reaches S xr mi) (ht : tyMsg S mi m = true) : initMsg S mi m = true :=
  quiet_msg S xr m mi (fun hr => hq (reaches_of_reachesM hM hX hr)) ht

/-- **with exact `needsInitCheck` results the pruned fast check is the slow check**, for all schemas
(cyclic or not) and all typed values -/
theorem initFast_eq_initMsg (S : Schema) (xr : Nat → Bool) (nd : Nat → Bool) (hM : MapOK S xr) (hX : ExtOK S xr)
    (hnd : ∀ i, nd i = true ↔ Reaches S xr i) (mi : Nat) (m : Msg) (ht : tyMsg S mi m = true) :
    initFastMsg S nd mi m = initMsg S mi m :=
  fast_msg S xr nd hM hX hnd m mi ht

/-- the flags `mi.needsInitCheck` as the code as it is computes them after the queries `qs` -/
def ndOfRun (S : Schema) (xr : Nat → Bool) (qs : List Nat) : Nat → Bool := fun i =>
  match (run S xr (qs ++ [i]) Cache.empty).bind (fun c => c i) with
  | some (.done b) => b
  | _ => false

/-- Q.a.b.a.c = {}  (wire bytes 0a060a040a021200) -/
def cycM : Msg :=
  let c : Msg := .mk .nil []
  let a2 : Msg := .mk (.cons 2 (.one (.msg c)) .nil) []
  let b : Msg := .mk (.cons 1 (.one (.msg a2)) .nil) []
  let a1 : Msg := .mk (.cons 1 (.one (.msg b)) .nil) []
  .mk (.cons 1 (.one (.msg a1)) .nil) []

/-- **REFUTED with the flags the code as it is computes** (same finding, seen through
CheckInitialized): after `needsInitCheck(Q)` the fast path accepts a message whose C.x is missing -/
theorem initFast_wrong_with_cached :
    tyMsg cycS 0 cycM = true ∧ initFastMsg cycS (ndOfRun cycS noXr [0]) 0 cycM = true ∧ initMsg cycS 0 cycM = false := by
  decide

/-- with the repaired walk every flag is exact (whatever was queried before), so the fast check is the slow check -/
theorem initFast_eq_initMsg_fixed (S : Schema) (xr : Nat → Bool) (hM : MapOK S xr) (hX : ExtOK S xr)
    (qs : List Nat) (nd : Nat → Bool)
    (hnd : ∀ i, ∃ g g', runFixed S xr qs BCache.empty = some g ∧ queryFixed S xr g i = some (nd i, g'))
    (mi : Nat) (m : Msg) (ht : tyMsg S mi m = true) : initFastMsg S nd mi m = initMsg S mi m := by
  refine initFast_eq_initMsg S xr nd hM hX (fun i => ?_) mi m ht
  obtain ⟨g, g', hr, hq⟩ := hnd i
  exact (queryFixed_exact S xr g i (nd i) g' (runFixed_exact S xr qs _ g (fun j b hj => by simp [BCache.empty] at hj) hr) hq).2

/-- T{map<int32,V> m = 1} E{int32 key = 1; V value = 2} V{optional W w = 1} W{required int32 x = 1}
(indices 0 1 2 3) -/
def mapS : Schema := ⟨[
  ⟨[{ num := 1, kind := .message, card := .map, sub := 1 }]⟩,
  ⟨[{ num := 1, kind := .int32, card := .optional }, { num := 2, kind := .message, card := .optional, sub := 2 }]⟩,
  ⟨[{ num := 1, kind := .message, card := .optional, sub := 3 }]⟩,
  ⟨[{ num := 1, kind := .int32, card := .required }]⟩]⟩

/-- the hypotheses are satisfiable by non-trivial schemas: a cycle, and a map whose value reaches a required field -/
example : MapOK cycS noXr ∧ ExtOK cycS noXr ∧ MapOK mapS noXr ∧ ExtOK mapS noXr ∧ Reaches mapS noXr 0 :=
  ⟨mapOK_of_B (by decide), extOK_of_B (by decide), mapOK_of_B (by decide), extOK_of_B (by decide),
   .step (j := 2) (by decide) (.step (j := 3) (by decide) (.here (by decide)))⟩

end C08
