import PbVerif.Lemmas.WktTime
/-
C43 — Timestamp and Duration helpers convert exactly.

Every statement is about `Model.WktTime.*`, thin message-level wrappers (nil receiver = `none`)
around `Gen.WktTime.*`, the definitions that /verif/go/gen-wkttime regenerates on every check run
from types/known/durationpb/duration.pb.go and types/known/timestamppb/timestamp.pb.go (and
cross-checks against the generator templates).  int64 / time.Duration are `BitVec 64`, int32 is
`BitVec 32`; the specifications are over `Int` (`BitVec.toInt`).  All theorems hold for ALL 2^64·2^32
field values; none uses `bv_decide`.

`time.Time` is the pair (`Unix()`, `Nanosecond()`) with the stdlib invariant 0 ≤ nsec < 10^9
(`GoTime.Time.WF`); `time.Unix` is the hand-written contract `GoTime.unix` (mirrors
$GOROOT/src/time/time.go, tied by the correspondence harness only).
-/
open Gen.WktTime Model.WktTime WktTime
namespace C43

/-! ### the constants of the code are the documented limits -/

/-- ±10000 years of 365.25 days; 0001-01-01T00:00:00Z and 9999-12-31T23:59:59Z as Unix seconds
(proleptic Gregorian day counts × 86400); the `check` codes are 1…5 / 1…4 in declaration order. -/
theorem constants :
    durationAbsDuration = 315576000000 ∧ durationAbsDuration = 10000 * 36525 * 864 ∧
    timestampMinTimestamp = -62135596800 ∧ timestampMinTimestamp = -(daysBeforeUnixEpoch * 86400) ∧
    timestampMaxTimestamp = 253402300799 ∧ timestampMaxTimestamp = daysUnixEpochToYear10000 * 86400 - 1 ∧
    [durationInvalidNil, durationInvalidUnderflow, durationInvalidOverflow, durationInvalidNanosRange,
      durationInvalidNanosSign] = [1, 2, 3, 4, 5] ∧
    [timestampInvalidNil, timestampInvalidUnderflow, timestampInvalidOverflow, timestampInvalidNanos] = [1, 2, 3, 4] := by
  decide

/-! ### (a) `durationpb.New(d).AsDuration() == d` for every `time.Duration` -/

/-- `New` splits exactly and produces a normalised pair: |nanos| < 10^9 and the signs agree. -/
theorem new_exact (d : BitVec 64) :
    exactNanos (Duration.new d).seconds (Duration.new d).nanos = d.toInt ∧
    -1000000000 < (Duration.new d).nanos.toInt ∧ (Duration.new d).nanos.toInt < 1000000000 ∧
    ¬ (0 < (Duration.new d).seconds.toInt ∧ (Duration.new d).nanos.toInt < 0) ∧
    ¬ ((Duration.new d).seconds.toInt < 0 ∧ 0 < (Duration.new d).nanos.toInt) ∧
    inInt64 ((Duration.new d).seconds.toInt * 1000000000) := by
  have hD := BitVec.le_toInt d
  have hD' := BitVec.toInt_lt (x := d)
  obtain ⟨h1, h2⟩ := new_toInt d
  simp only [Duration.new, exactNanos, inInt64, minInt64, maxInt64]
  rw [h1, h2, tdiv_lit]
  split <;> omega

theorem asDuration_new (d : BitVec 64) : Duration.asDuration (some (Duration.new d)) = d := by
  obtain ⟨h1, _, _, _, _, h6⟩ := new_exact d
  have hD := BitVec.le_toInt d
  have hD' := BitVec.toInt_lt (x := d)
  apply BitVec.toInt_inj.mp
  simp only [Duration.asDuration, Duration.getSeconds, Duration.getNanos]
  rw [asDuration_toInt, if_pos h6, h1]
  simp only [clamp64, minInt64, maxInt64]
  omega

/-! ### (b) `AsDuration` returns the exact value clamped to int64 -/

/-- What `AsDuration` computes for every pair: the exact clamp when `seconds·10^9` fits int64,
otherwise MinInt64 / MaxInt64 chosen by the sign of `seconds` alone. -/
theorem asDuration_spec (x : Duration) :
    (Duration.asDuration (some x)).toInt =
      if inInt64 (x.seconds.toInt * 1000000000) then clamp64 (exactNanos x.seconds x.nanos)
      else if x.seconds.toInt < 0 then minInt64 else maxInt64 :=
  asDuration_toInt x.seconds x.nanos

/- FULL STATEMENT (property C43, clause "AsDuration returns the exact value clamped to the int64 range
   for any seconds/nanos"):

     theorem asDuration_exact (x : Duration) :
       (Duration.asDuration (some x)).toInt = clamp64 (exactNanos x.seconds x.nanos)

   It is FALSE of the current code (DESIGN finding 5): see `asDuration_exact_false`.  What is proved
   instead: the exact set of inputs on which it holds (`asDuration_exact_iff`), the statement under the
   hypothesis that excludes the failures (`asDuration_exact_partial`), and the statement at full
   strength for every valid Duration (`asDuration_exact_of_valid`). -/

/-- The clause fails: `Duration{Seconds: 9223372037, Nanos: -999999999}.AsDuration()` is MaxInt64
although the exact value 9223372036000000001 is representable. -/
theorem asDuration_exact_false :
    ¬ ∀ x : Duration, (Duration.asDuration (some x)).toInt = clamp64 (exactNanos x.seconds x.nanos) := by
  intro h
  exact absurd (h ⟨9223372037#64, BitVec.ofInt 32 (-999999999)⟩) (by decide)

/-- the witness, spelled out -/
theorem asDuration_witness :
    (Duration.asDuration (some ⟨9223372037#64, BitVec.ofInt 32 (-999999999)⟩)).toInt = 9223372036854775807 ∧
    exactNanos 9223372037#64 (BitVec.ofInt 32 (-999999999)) = 9223372036000000001 ∧
    clamp64 9223372036000000001 = 9223372036000000001 := by decide

/-- `AsDuration` is exact precisely when it is NOT the case that `seconds·10^9` overflows int64 while
the exact sum lies strictly inside the int64 range (at MinInt64/MaxInt64 themselves the saturated
result happens to be right). -/
theorem asDuration_exact_iff (x : Duration) :
    (Duration.asDuration (some x)).toInt = clamp64 (exactNanos x.seconds x.nanos) ↔
      (inInt64 (x.seconds.toInt * 1000000000) ∨
        ¬ (minInt64 < exactNanos x.seconds x.nanos ∧ exactNanos x.seconds x.nanos < maxInt64)) := by
  have hN := BitVec.le_toInt x.nanos
  have hN' := BitVec.toInt_lt (x := x.nanos)
  rw [asDuration_spec]
  simp only [inInt64, clamp64, exactNanos, minInt64, maxInt64, Int.max_def, Int.min_def]
  repeat' split
  all_goals omega

/-- PARTIAL form of the refuted clause: exact whenever the product fits, or nanos does not have the
sign opposite to seconds.  (Missing for the full statement: the inputs with `seconds·10^9` outside
int64, nanos of the opposite sign and a representable sum — there the code saturates by the sign of
seconds; `asDuration_exact_iff` shows nothing else is missing.) -/
theorem asDuration_exact_partial (x : Duration)
    (h : inInt64 (x.seconds.toInt * 1000000000) ∨
      (¬ (0 < x.seconds.toInt ∧ x.nanos.toInt < 0) ∧ ¬ (x.seconds.toInt < 0 ∧ 0 < x.nanos.toInt))) :
    (Duration.asDuration (some x)).toInt = clamp64 (exactNanos x.seconds x.nanos) := by
  rw [asDuration_exact_iff]
  simp only [inInt64, exactNanos, minInt64, maxInt64] at h ⊢
  omega

example : inInt64 ((9223372036#64).toInt * 1000000000) ∨
    (¬ (0 < (9223372036#64).toInt ∧ (999999999#32).toInt < 0) ∧ ¬ ((9223372036#64).toInt < 0 ∧ 0 < (999999999#32).toInt)) := by
  decide

/-- nil receiver: the getters return 0, so `AsDuration` is 0 -/
theorem asDuration_nil : Duration.asDuration none = 0#64 := by decide

/-! ### (c) `check` / `IsValid` / `CheckValid` accept exactly the documented ranges -/

/-- `Duration.check`, as a decision list over the integers -/
theorem duration_check_spec (x : Option Duration) :
    (Duration.check x).toNat =
      match x with
      | none => 1
      | some v =>
        if v.seconds.toInt < -315576000000 then 2
        else if 315576000000 < v.seconds.toInt then 3
        else if v.nanos.toInt ≤ -1000000000 ∨ 1000000000 ≤ v.nanos.toInt then 4
        else if (0 < v.seconds.toInt ∧ v.nanos.toInt < 0) ∨ (v.seconds.toInt < 0 ∧ 0 < v.nanos.toInt) then 5
        else 0 := by
  cases x with
  | none => decide
  | some v =>
    simp only [Duration.check, Duration.getSeconds, Duration.getNanos, Option.isNone_some, durationCheck,
      Bool.false_eq_true, if_false, Bool.or_eq_true, Bool.and_eq_true, BitVec.slt_iff_toInt_lt,
      BitVec.sle_iff_toInt_le, BitVec.reduceToInt]
    repeat' split
    all_goals first | rfl | omega

/-- `CheckValid` reports the class that `check` computed (the switch maps code k to the k-th message) -/
theorem duration_checkValid_eq (x : Option Duration) : Duration.checkValid x = (Duration.check x).toNat := by
  have h := duration_check_spec x
  simp only [Duration.checkValid, durationCheckValid, Duration.check] at h ⊢
  generalize durationCheck x.isNone (Duration.getSeconds x) (Duration.getNanos x) = c at h ⊢
  have hc : c = BitVec.ofNat 64 c.toNat := by simp
  cases x with
  | none => simp only at h; rw [hc, h]; decide
  | some v =>
    simp only at h
    repeat' split at h
    all_goals (rw [hc, h]; decide)

theorem duration_isValid_eq (x : Option Duration) : Duration.isValid x = (Duration.check x == 0#64) := rfl

/-- Duration valid ⇔ non-nil, |seconds| ≤ 315576000000, |nanos| < 10^9, signs do not disagree -/
theorem duration_check_iff (x : Option Duration) :
    Duration.check x = 0#64 ↔ ∃ v, x = some v ∧ v.Valid := by
  have h := duration_check_spec x
  rw [← BitVec.toNat_inj]
  cases x with
  | none => simp only at h; rw [h]; simp
  | some v =>
    simp only at h
    rw [h]
    simp only [Option.some.injEq, exists_eq_left', Duration.Valid, BitVec.toNat_ofNat]
    repeat' split
    all_goals omega

theorem duration_isValid_iff (x : Option Duration) :
    Duration.isValid x = true ↔ ∃ v, x = some v ∧ v.Valid := by
  rw [duration_isValid_eq, beq_iff_eq, duration_check_iff]

theorem duration_checkValid_iff (x : Option Duration) :
    Duration.checkValid x = 0 ↔ ∃ v, x = some v ∧ v.Valid := by
  rw [duration_checkValid_eq, ← duration_check_iff, ← BitVec.toNat_inj]; rfl

example : Duration.Valid ⟨BitVec.ofInt 64 (-315576000000), BitVec.ofInt 32 (-999999999)⟩ := by
  unfold Duration.Valid; decide

/-- (b) at full strength for every valid Duration (`check() == 0`), including the valid ones beyond
±292 years, which saturate. -/
theorem asDuration_exact_of_valid (x : Duration) (h : Duration.check (some x) = 0#64) :
    (Duration.asDuration (some x)).toInt = clamp64 (exactNanos x.seconds x.nanos) := by
  obtain ⟨v, hv, hV⟩ := (duration_check_iff (some x)).mp h
  cases hv
  apply asDuration_exact_partial
  right
  unfold Duration.Valid at hV
  omega

example : Duration.check (some ⟨315576000000#64, 999999999#32⟩) = 0#64 := by decide

/-- valid Durations of at most ±9223372035 s (≈ 292 years) convert without saturation -/
theorem asDuration_exact_of_valid_small (x : Duration) (h : Duration.check (some x) = 0#64)
    (hs : -9223372035 ≤ x.seconds.toInt ∧ x.seconds.toInt ≤ 9223372035) :
    (Duration.asDuration (some x)).toInt = exactNanos x.seconds x.nanos := by
  rw [asDuration_exact_of_valid x h]
  obtain ⟨v, hv, hV⟩ := (duration_check_iff (some x)).mp h
  cases hv
  unfold Duration.Valid at hV
  simp only [clamp64, exactNanos, minInt64, maxInt64, Int.max_def, Int.min_def]
  repeat' split
  all_goals omega

/-- every `durationpb.New(d)` is a valid Duration (|d| / 10^9 ≤ 9223372036 < 315576000000) -/
theorem new_valid (d : BitVec 64) : Duration.check (some (Duration.new d)) = 0#64 := by
  obtain ⟨h1, h2, h3, h4, h5, h6⟩ := new_exact d
  rw [duration_check_iff]
  refine ⟨_, rfl, ?_⟩
  unfold Duration.Valid
  simp only [exactNanos, inInt64, minInt64, maxInt64] at h1 h6
  omega

/-- `Timestamp.check`, as a decision list over the integers -/
theorem timestamp_check_spec (x : Option Timestamp) :
    (Timestamp.check x).toNat =
      match x with
      | none => 1
      | some v =>
        if v.seconds.toInt < -62135596800 then 2
        else if 253402300799 < v.seconds.toInt then 3
        else if v.nanos.toInt < 0 ∨ 1000000000 ≤ v.nanos.toInt then 4
        else 0 := by
  cases x with
  | none => decide
  | some v =>
    simp only [Timestamp.check, Timestamp.getSeconds, Timestamp.getNanos, Option.isNone_some, timestampCheck,
      Bool.false_eq_true, if_false, Bool.or_eq_true, BitVec.slt_iff_toInt_lt,
      BitVec.sle_iff_toInt_le, BitVec.reduceToInt]
    repeat' split
    all_goals first | rfl | omega

theorem timestamp_checkValid_eq (x : Option Timestamp) : Timestamp.checkValid x = (Timestamp.check x).toNat := by
  have h := timestamp_check_spec x
  simp only [Timestamp.checkValid, timestampCheckValid, Timestamp.check] at h ⊢
  generalize timestampCheck x.isNone (Timestamp.getSeconds x) (Timestamp.getNanos x) = c at h ⊢
  have hc : c = BitVec.ofNat 64 c.toNat := by simp
  cases x with
  | none => simp only at h; rw [hc, h]; decide
  | some v =>
    simp only at h
    repeat' split at h
    all_goals (rw [hc, h]; decide)

theorem timestamp_isValid_eq (x : Option Timestamp) : Timestamp.isValid x = (Timestamp.check x == 0#64) := rfl

/-- Timestamp valid ⇔ non-nil, 0001-01-01T00:00:00Z ≤ seconds ≤ 9999-12-31T23:59:59Z, 0 ≤ nanos < 10^9 -/
theorem timestamp_check_iff (x : Option Timestamp) :
    Timestamp.check x = 0#64 ↔ ∃ v, x = some v ∧ v.Valid := by
  have h := timestamp_check_spec x
  rw [← BitVec.toNat_inj]
  cases x with
  | none => simp only at h; rw [h]; simp
  | some v =>
    simp only at h
    rw [h]
    simp only [Option.some.injEq, exists_eq_left', Timestamp.Valid, BitVec.toNat_ofNat]
    repeat' split
    all_goals omega

theorem timestamp_isValid_iff (x : Option Timestamp) :
    Timestamp.isValid x = true ↔ ∃ v, x = some v ∧ v.Valid := by
  rw [timestamp_isValid_eq, beq_iff_eq, timestamp_check_iff]

theorem timestamp_checkValid_iff (x : Option Timestamp) :
    Timestamp.checkValid x = 0 ↔ ∃ v, x = some v ∧ v.Valid := by
  rw [timestamp_checkValid_eq, ← timestamp_check_iff, ← BitVec.toNat_inj]; rfl

example : Timestamp.Valid ⟨BitVec.ofInt 64 (-62135596800), 999999999#32⟩ := by
  unfold Timestamp.Valid; decide

/-! ### (d) `timestamppb.New(t).AsTime()` equals `t` for every `time.Time` -/

theorem timestamp_asTime_new (t : GoTime.Time) (h : t.WF) :
    Timestamp.asTime (some (Timestamp.new t)) = t := by
  obtain ⟨h0, h1⟩ := h
  have e : BitVec.signExtend 64 (BitVec.setWidth 32 t.nsec) = t.nsec := by
    apply BitVec.toInt_inj.mp
    rw [toInt_signExtend64, toInt_setWidth32]; omega
  simp only [Timestamp.asTime, Timestamp.new, timestampNew, Timestamp.getSeconds, Timestamp.getNanos,
    timestampAsTime, GoTime.Time.utc, e]
  unfold GoTime.unix
  rw [if_neg]
  simp only [Bool.or_eq_true, BitVec.slt_iff_toInt_lt, BitVec.sle_iff_toInt_le, BitVec.reduceToInt]
  omega

example : GoTime.Time.WF ⟨BitVec.ofInt 64 (-62135596801), 999999999#64⟩ := by
  unfold GoTime.Time.WF; decide

/-- `AsTime` of any Timestamp is a well-formed time denoting exactly `seconds·10^9 + nanos` ns since the
epoch (nanos of either sign are carried into the seconds; only int64 overflow of the seconds is excluded). -/
theorem timestamp_asTime_exact (x : Timestamp) :
    (Timestamp.asTime (some x)).WF ∧
    (inInt64 (x.seconds.toInt + x.nanos.toInt / 1000000000) →
      (Timestamp.asTime (some x)).unix.toInt * 1000000000 + (Timestamp.asTime (some x)).nsec.toInt
        = x.seconds.toInt * 1000000000 + x.nanos.toInt) := by
  obtain ⟨h1, h2, h3⟩ := unix_toInt x.seconds (x.nanos.signExtend 64)
  rw [toInt_signExtend64] at h2 h3
  simp only [Timestamp.asTime, Timestamp.getSeconds, Timestamp.getNanos, timestampAsTime, GoTime.Time.utc]
  refine ⟨h1, fun h => ?_⟩
  rw [h2, h3 h]
  omega

/-- for Timestamps with in-range nanos (in particular all valid ones) the conversion is the identity on
the fields, and `New` inverts it -/
theorem timestamp_new_asTime (x : Timestamp) (h0 : 0 ≤ x.nanos.toInt) (h1 : x.nanos.toInt < 1000000000) :
    Timestamp.asTime (some x) = ⟨x.seconds, x.nanos.signExtend 64⟩ ∧
    Timestamp.new (Timestamp.asTime (some x)) = x := by
  have a : Timestamp.asTime (some x) = ⟨x.seconds, x.nanos.signExtend 64⟩ := by
    simp only [Timestamp.asTime, Timestamp.getSeconds, Timestamp.getNanos, timestampAsTime, GoTime.Time.utc]
    unfold GoTime.unix
    rw [if_neg]
    simp only [Bool.or_eq_true, BitVec.slt_iff_toInt_lt, BitVec.sle_iff_toInt_le, BitVec.reduceToInt,
      toInt_signExtend64]
    omega
  refine ⟨a, ?_⟩
  rw [a]
  have e : BitVec.setWidth 32 (BitVec.signExtend 64 x.nanos) = x.nanos := by
    apply BitVec.toInt_inj.mp
    rw [toInt_setWidth32, toInt_signExtend64]; omega
  simp only [Timestamp.new, timestampNew, e]

example : (0 : Int) ≤ (999999999#32).toInt ∧ (999999999#32).toInt < 1000000000 := by decide

end C43
