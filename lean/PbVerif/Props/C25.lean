import PbVerif.Lemmas.TextStr
import PbVerif.Lemmas.TextStrUnknown
/-
C25 — Text string literals encode arbitrary bytes losslessly.

Statement (properties.jsonl): "Any byte string written as a text-format string literal (with or without
EmitASCII) parses back to the identical bytes; with EmitASCII the output contains only printable ASCII;
Format/Marshal with EmitUnknown renders any syntactically valid unknown-field set without panicking."

Models: `Model.TextStr` (appendString / parseString / parseStringValue, written line by line from
internal/encoding/text/{encode.go, decode_string.go}), `Model.Utf8` (unicode/utf8), and
`Model.TextStr.Unknown` (prototext marshalUnknown + the protowire functions it calls).
All theorems quantify over ALL byte strings `s` — valid UTF-8 or not — both `ascii` settings, and every
continuation `rest` of the input after the literal.
-/
namespace C25
open Model.Utf8 Model.TextStr

abbrev Byte := BitVec 8

/-- The encoder never panics: the slice expressions `"00"[k:]`, `"0000"[k:]`, `"00000000"[k:]`, `in[n:]`,
`in[:n+i]` are always in range. -/
theorem appendString_total (s : List Byte) (ascii : Bool) : ∃ o, appendString s ascii = some o := by
  unfold appendString
  obtain ⟨body, hb⟩ := escLoop_total (s.drop (indexNeedEscape s)) ascii
  exact ⟨0x22#8 :: (s.take (indexNeedEscape s) ++ body ++ [0x22#8]), by simp [hb]⟩

/-- **Lossless (single literal).**  `parseString` applied to the literal written for `s`, followed by
anything, returns exactly `s` and leaves what follows the literal minus leading white space/comments
(`d.consume`). -/
theorem parseString_appendString (s : List Byte) (ascii : Bool) (rest : List Byte) (o : List Byte)
    (h : appendString s ascii = some o) :
    parseString (o ++ rest) = .ok (s, skipWs rest) := by
  unfold appendString at h
  simp only [Option.map_eq_some_iff] at h
  obtain ⟨body, hbody, rfl⟩ := h
  simp only [parseString, List.cons_append]
  rw [parse_skip_nil, List.append_assoc, List.append_assoc,
    parse_run _ _ _ (idx_take_nonesc s), parse_escLoop _ _ _ hbody]
  simp only [List.nil_append, List.cons_append, List.take_append_drop]
  exact parse_close rest s

/-- One iteration of the `parseStringValue` loop on a literal written by the encoder. -/
theorem parseStringValueLoop_appendString (s : List Byte) (ascii : Bool) (rest acc o : List Byte)
    (h : appendString s ascii = some o) :
    parseStringValueLoop (o ++ rest) acc = parseStringValueLoop (skipWs rest) (acc ++ s) := by
  have hp := parseString_appendString s ascii rest o h
  unfold appendString at h
  simp only [Option.map_eq_some_iff] at h
  obtain ⟨body, _, rfl⟩ := h
  simp only [List.cons_append] at hp ⊢
  rw [parseStringValueLoop.eq_def]
  simp only [beq_self_eq_true, Bool.true_or, if_true]
  split
  · rename_i e he; rw [hp] at he; simp at he
  · rename_i s' rest' he
    rw [hp] at he
    simp only [Except.ok.injEq, Prod.mk.injEq] at he
    rw [← he.1, ← he.2]

/-- what `parseStringValue` does when the input does not (or no longer) start with a quote -/
theorem parseStringValueLoop_stop (inp acc : List Byte)
    (h : startsWithQuote inp = false) :
    parseStringValueLoop inp acc = .ok (acc, inp) := by
  rw [parseStringValueLoop.eq_def]
  split
  · rfl
  · rename_i c t
    simp only [startsWithQuote] at h
    simp [h]

/-- **Lossless (the token the decoder returns).**  `parseStringValue` — what `Decoder.Read` runs for a
string scalar — returns exactly `s`, provided the input after the literal (and after white space and
comments) does not start another literal, which would be concatenated. -/
theorem parseStringValue_appendString (s : List Byte) (ascii : Bool) (rest o : List Byte)
    (h : appendString s ascii = some o)
    (hrest : startsWithQuote (skipWs rest) = false) :
    parseStringValue (o ++ rest) = .ok (s, skipWs rest) := by
  unfold parseStringValue
  rw [parseStringValueLoop_appendString s ascii rest [] o h, parseStringValueLoop_stop _ _ hrest]
  simp

/-- the hypothesis of `parseStringValue_appendString` is satisfiable by non-trivial continuations -/
example : startsWithQuote (skipWs [0x20#8, 0x23#8, 0x41#8, 0x0a#8, 0x7d#8, 0x22#8]) = false := by decide

/-- **Adjacent literals concatenate**: two literals written by the encoder (either setting each),
separated by any `mid` made of white space/comments (`skipWs mid = []`… stated generally: whatever
`skipWs (mid ++ o2 ++ rest)` is, as long as it is `o2 ++ rest`), parse to `s1 ++ s2`. -/
theorem parseStringValue_two (s1 s2 : List Byte) (a1 a2 : Bool) (mid rest o1 o2 : List Byte)
    (h1 : appendString s1 a1 = some o1) (h2 : appendString s2 a2 = some o2)
    (hmid : skipWs (mid ++ (o2 ++ rest)) = o2 ++ rest)
    (hrest : startsWithQuote (skipWs rest) = false) :
    parseStringValue (o1 ++ (mid ++ (o2 ++ rest))) = .ok (s1 ++ s2, skipWs rest) := by
  unfold parseStringValue
  rw [parseStringValueLoop_appendString s1 a1 _ [] o1 h1, hmid,
    parseStringValueLoop_appendString s2 a2 rest _ o2 h2, parseStringValueLoop_stop _ _ hrest]
  simp

/-- the literal is `"` body `"` where the body is a sequence of escape sequences and verbatim bytes -/
theorem appendString_pieces (s : List Byte) (ascii : Bool) (o : List Byte) (h : appendString s ascii = some o) :
    ∃ body, o = 0x22#8 :: (body ++ [0x22#8]) ∧ Pieces ascii body := by
  unfold appendString at h
  simp only [Option.map_eq_some_iff] at h
  obtain ⟨body, hbody, rfl⟩ := h
  refine ⟨s.take (indexNeedEscape s) ++ body, by simp, ?_⟩
  exact Pieces.raw_run ascii _ _ (fun c hc => rawOK_of_nonesc ascii c (idx_take_nonesc s c hc))
    (escLoop_pieces _ _ _ hbody)

/-- **EmitASCII ⇒ printable ASCII**: with `outputASCII` every byte of the literal is in `[0x20, 0x7e]`. -/
theorem appendString_ascii (s : List Byte) (o : List Byte) (h : appendString s true = some o) :
    ∀ c ∈ o, 0x20 ≤ c.toNat ∧ c.toNat ≤ 0x7e := by
  obtain ⟨body, rfl, hp⟩ := appendString_pieces s true o h
  intro c hc
  simp only [List.mem_cons, List.mem_append, List.not_mem_nil, or_false] at hc
  rcases hc with rfl | hc | rfl
  · simp
  · have := pieces_bytes true body hp c hc
    exact ⟨this.1, this.2.2 rfl⟩
  · simp

/-- **No raw control byte, whatever the setting**: no byte below 0x20 (so no raw newline, carriage
return, tab or NUL) and no DEL appears in the literal. -/
theorem appendString_no_control (s : List Byte) (ascii : Bool) (o : List Byte)
    (h : appendString s ascii = some o) : ∀ c ∈ o, 0x20 ≤ c.toNat ∧ c.toNat ≠ 0x7f := by
  obtain ⟨body, rfl, hp⟩ := appendString_pieces s ascii o h
  intro c hc
  simp only [List.mem_cons, List.mem_append, List.not_mem_nil, or_false] at hc
  rcases hc with rfl | hc | rfl
  · simp
  · have := pieces_bytes ascii body hp c hc
    exact ⟨this.1, this.2.1⟩
  · simp

/-- **No unescaped quote / dangling backslash**: between the two delimiting quotes a scanner that only
knows "a backslash escapes the next byte" (`bodyOK`) finds no `"`, no control byte, no DEL, and never a
backslash as the last byte. -/
theorem appendString_body_escaped (s : List Byte) (ascii : Bool) (o : List Byte)
    (h : appendString s ascii = some o) :
    ∃ body, o = 0x22#8 :: (body ++ [0x22#8]) ∧ bodyOK body = true := by
  obtain ⟨body, ho, hp⟩ := appendString_pieces s ascii o h
  exact ⟨body, ho, bodyOK_of_pieces ascii body hp⟩

/-! ## EmitUnknown: `marshalUnknown` is total on every syntactically valid unknown-field set

"Syntactically valid" is made precise by the syntax tree `Unknown.UFields` (Lemmas/TextStrUnknown.lean):
a sequence of fields, each a tag followed by a varint / 4 bytes / 8 bytes / a length-prefixed payload /
a group `start-tag fields end-tag` with the same field number.  Tags, varint values, lengths and end
tags are kept as raw byte strings subject to `isVarintFrom` (any encoding `ConsumeVarint` accepts, so
NON-MINIMAL encodings are in the language) and `isTag` (field number in `1 ..= MaxInt32`, as `ConsumeTag`
demands).  `valid` checks those side conditions, `encode` is the concatenation, `depth` the group nesting.
The bound `depth ≤ 10001` is protowire's own (`DefaultRecursionLimit` = 10000 nested levels below the
outermost group): deeper sets are rejected by `protowire.ConsumeFieldValue` — hence by `proto.Unmarshal` —
and can only be planted with `SetUnknown`; for those `marshalUnknown` does panic (`b[n:]` with n = -6;
observed on the real code, see the engine report). -/

open Model.TextStr.Unknown

/-- **protowire accepts the grammar**: the field scanner used by `proto.Unmarshal` for unknown fields
(`ConsumeFieldValue` after `ConsumeTag`) accepts every valid field, whatever follows it, and reports
exactly its length. -/
theorem consumeFieldValue_valid (f : UField) (rest : List Byte) (hv : f.valid = true) (hd : f.depth ≤ 10001) :
    consumeTag (f.tag ++ (f.payload ++ rest)) = .ok (tagNum f.tag, f.typ, f.tag.length) ∧
    consumeFieldValue (tagNum f.tag) f.typ (f.payload ++ rest) = .ok f.payload.length := by
  refine ⟨consumeTag_ok _ _ _ (f.tag_valid hv), ?_⟩
  unfold consumeFieldValue
  exact fieldValue_ok f hv _ _ rest (by simp only [fuelFor, List.length_append]; omega)
    (by simp only [recursionLimit]; omega)

/-- **`ConsumeGroup` is exact**: on a valid group it returns precisely the encoded body — also when the
end tag is a non-minimal varint — so `marshalUnknown` recurses on a strictly shorter, again valid,
byte string. -/
theorem consumeGroup_exact (tag : List Byte) (body : UFields) (etag rest : List Byte)
    (hv : (UField.group tag body etag).valid = true) (hd : (UField.group tag body etag).depth ≤ 10001) :
    consumeGroup (tagNum tag) (body.encode ++ (etag ++ rest))
        = some (.ok (body.encode, body.encode.length + etag.length)) ∧
      body.encode.length < (tag ++ (body.encode ++ (etag ++ rest))).length ∧ body.valid = true := by
  refine ⟨consumeGroup_ok tag body etag rest hv hd, ?_, ?_⟩
  · simp only [UField.valid, Bool.and_eq_true] at hv
    have := isTag_length_pos _ _ hv.1.1.1
    simp only [List.length_append]; omega
  · simp only [UField.valid, Bool.and_eq_true] at hv
    exact hv.1.1.2

/-- **`marshalUnknown` never panics on a valid unknown-field set** (either EmitASCII setting): no
negative length reaches `b[n:]`, the `default:` arm of the wire-type switch is not taken, the slice
inside `ConsumeGroup` is in range, and `WriteString` does not panic. -/
theorem marshalUnknown_total (fs : UFields) (ascii : Bool) (hv : fs.valid = true) (hd : fs.depth ≤ 10001) :
    ∃ out, marshalUnknown fs.encode ascii = some out := by
  unfold marshalUnknown
  obtain ⟨e', he⟩ := marshalFields_ok fs hv hd fs.encode.length ascii { lastType := 0, out := [] } (Nat.le_refl _)
  exact ⟨e'.out, by rw [he]; rfl⟩

/-- the hypotheses are satisfiable by a non-trivial set: a varint field with a non-minimal tag, a bytes
field with invalid UTF-8, fixed32/fixed64, an empty group, and a nested group (field 2047, two-byte
tags) whose end tag is written non-minimally in four bytes -/
def exampleSet : UFields :=
  .cons (.varint [0x88#8, 0x00#8] [0xff#8, 0xff#8, 0xff#8, 0xff#8, 0xff#8, 0xff#8, 0xff#8, 0xff#8, 0xff#8, 0x01#8]) <|
  .cons (.bytes [0x12#8] [0x83#8, 0x00#8] [0xff#8, 0x0a#8, 0x22#8]) <|
  .cons (.fixed32 [0x1d#8] [1#8, 2#8, 3#8, 4#8]) <|
  .cons (.fixed64 [0x21#8] [1#8, 2#8, 3#8, 4#8, 5#8, 6#8, 7#8, 8#8]) <|
  .cons (.group [0x2b#8] .nil [0x2c#8]) <|
  .cons (.group [0xfb#8, 0x7f#8]
      (.cons (.group [0x0b#8] (.cons (.varint [0x08#8] [0x01#8]) .nil) [0x8c#8, 0x00#8]) .nil)
      [0xfc#8, 0xff#8, 0x80#8, 0x00#8]) .nil

example : exampleSet.valid = true ∧ exampleSet.depth = 2 := by decide

end C25
