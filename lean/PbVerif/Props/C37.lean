import PbVerif.Props.C38
/-
C37 — Compact descriptor builder agrees with protodesc (evidence level: translation validation).

The main tie is the differential accessor snapshot of the harness (all linked files exhaustively + random schemas).
Proved here, on `Model.DescFeatures`, is the part of the two constructions that is LOGIC and differs textually
between `internal/filedesc` (wire-order byte parsing) and `reflect/protodesc` (message accessors): how each node's
`EditionFeatures` are derived.  Three disagreements are refuted with witnesses (findings).
-/
namespace C37
open Desc Gen.EditionDefaults

/-- file level: the same defaults for every supported edition, then the same merge of `FileOptions.features`. -/
theorem builder_file_features :
    ∀ ed ∈ [editionProto2, editionProto3, edition2023, edition2024, editionUnstable],
      protodescDefaultsGo ed = filedescDefaultsGo ed :=
  fun ed h => (C38.defaults_agree ed h).1

/-- messages, extensions without `packed`: both constructions call the same merge on the parent's features
(`mergeEditionFeatures(parent, opts.features)` / `unmarshalFeatureSet(v, parent)`), which `C38.view_merge` shows to be
the view of the proto-level merge. -/
theorem builder_message_features (parent : FeatureSet) (ov : Overrides) :
    mergeGo (view parent) ov = view (merge parent ov) := (C38.view_merge parent ov).symm

/-- fields: equal whenever the legacy `packed` option and `features.repeated_field_encoding` are not BOTH present
(protoc never emits both: `packed` is refused under editions, `features` outside editions). -/
theorem builder_field_features_partial (parent : GoFeatures) (ov : Overrides) (packedOpt : Option Bool)
    (h : packedOpt = none ∨ ov.repeatedFieldEncoding = none) :
    filedescFieldFeatures parent ov packedOpt = fieldFeatures parent ov packedOpt := by
  rcases h with h | h
  · subst h; rfl
  · cases packedOpt with
    | none => rfl
    | some b =>
      cases ov with
      | mk fp et rfe u8 me jf ens dsv g1 g2 g3 =>
        simp only at h; subst h
        cases fp <;> cases et <;> cases u8 <;> cases me <;> cases jf <;> cases g1 <;> cases g2 <;> cases g3 <;> rfl

/- FULL STATEMENT (false of the current code): `∀ parent ov packedOpt, filedescFieldFeatures parent ov packedOpt = fieldFeatures parent ov packedOpt`.
   With both present protodesc lets `packed` win, filedesc lets the later wire field (`features`) win. -/
theorem builder_field_features_false :
    ¬ ∀ parent ov packedOpt, filedescFieldFeatures parent ov packedOpt = fieldFeatures parent ov packedOpt := by
  intro h
  exact absurd (h {} { repeatedFieldEncoding := some evPacked } (some false)) (by decide)

/-- enums: equal exactly when the enum carries no feature override of its own … -/
theorem builder_enum_features_partial (parent : GoFeatures) (ov : Overrides)
    (h : ov.enumType = none ∧ ov.jsonFormat = none ∧ ov.goLegacyUnmarshalJsonEnum = none ∧ ov.goStripEnumPrefix = none ∧
         ov.fieldPresence = none ∧ ov.repeatedFieldEncoding = none ∧ ov.utf8Validation = none ∧ ov.messageEncoding = none ∧
         ov.goApiLevel = none) :
    filedescEnumFeatures parent ov = protodescEnumFeatures parent ov :=
  C38.filedesc_enum_features_partial parent ov h

/- … FULL STATEMENT (false): `∀ parent ov, IsClosed` agrees. `(*Enum).unmarshalSeed` never reads `EnumOptions`. -/
theorem builder_enum_features_false :
    ¬ ∀ parent ov, isClosed (filedescEnumFeatures parent ov) = isClosed (protodescEnumFeatures parent ov) :=
  C38.filedesc_enum_features_false

/- FULL STATEMENT (false): `IsLazy()` of an extension agrees. -/
theorem builder_ext_lazy_false : ¬ ∀ lazyOpt, filedescExtIsLazy lazyOpt = protodescExtIsLazy lazyOpt := by
  intro h; exact absurd (h true) (by decide)

theorem builder_ext_lazy_partial : filedescExtIsLazy false = protodescExtIsLazy false := rfl

end C37
