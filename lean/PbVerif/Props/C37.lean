import PbVerif.Props.C38
/-
C37 — Compact descriptor builder agrees with protodesc (evidence level: translation validation).

The main tie is the differential accessor snapshot of the harness (all linked files exhaustively + random schemas).
Proved here, on `Model.DescFeatures`, is the part of the two constructions that is LOGIC and differs textually
between `internal/filedesc` (wire-order byte parsing) and `reflect/protodesc` (message accessors): how each node's
`EditionFeatures` are derived.  One remaining disagreement (legacy `packed` option together with `features.repeated_field_encoding`, a spelling
protoc refuses) is refuted with a witness.
-/
namespace C37
open Desc Gen.EditionDefaults

/-- file level: the same defaults for every supported edition, then the same merge of `FileOptions.features`. -/
theorem builder_file_features :
    ∀ ed ∈ [editionProto2, editionProto3, edition2023, edition2024, editionUnstable],
      protodescDefaultsGo ed = filedescDefaultsGo ed :=
  fun ed h => (C38.defaults_agree ed h).1

/-- messages, extensions without `packed`: both constructions call the same merge on the parent's features
(`mergeEditionFeatures(parent, opts.features)` / `unmarshalFeatureSet(v, parent)`), which `C38.view_merge` shows to be
the view of the proto-level merge. -/
theorem builder_message_features (parent : FeatureSet) (ov : Overrides) :
    mergeGo (view parent) ov = view (merge parent ov) := (C38.view_merge parent ov).symm

/-- fields: equal whenever the legacy `packed` option and `features.repeated_field_encoding` are not BOTH present
(protoc never emits both: `packed` is refused under editions, `features` outside editions). -/
theorem builder_field_features_partial (parent : GoFeatures) (ov : Overrides) (packedOpt : Option Bool)
    (h : packedOpt = none ∨ ov.repeatedFieldEncoding = none) :
    filedescFieldFeatures parent ov packedOpt = fieldFeatures parent ov packedOpt := by
  rcases h with h | h
  · subst h; rfl
  · cases packedOpt with
    | none => rfl
    | some b =>
      cases ov with
      | mk fp et rfe u8 me jf ens dsv g1 g2 g3 =>
        simp only at h; subst h
        cases fp <;> cases et <;> cases u8 <;> cases me <;> cases jf <;> cases g1 <;> cases g2 <;> cases g3 <;> rfl

/- FULL STATEMENT (false of the current code): `∀ parent ov packedOpt, filedescFieldFeatures parent ov packedOpt = fieldFeatures parent ov packedOpt`.
   With both present protodesc lets `packed` win, filedesc lets the later wire field (`features`) win. -/
theorem builder_field_features_false :
    ¬ ∀ parent ov packedOpt, filedescFieldFeatures parent ov packedOpt = fieldFeatures parent ov packedOpt := by
  intro h
  exact absurd (h {} { repeatedFieldEncoding := some evPacked } (some false)) (by decide)

/-- enums: both constructions merge the enum's own `features` into the parent's (filedesc since e5f41ee), for ALL
parents and overrides; in particular `IsClosed()` agrees. -/
theorem builder_enum_features (parent : GoFeatures) (ov : Overrides) :
    filedescEnumFeatures parent ov = protodescEnumFeatures parent ov ∧
    isClosed (filedescEnumFeatures parent ov) = isClosed (protodescEnumFeatures parent ov) := ⟨rfl, rfl⟩

/-- `IsLazy()` of an extension agrees (protodesc records the option since 5c0ecc9). -/
theorem builder_ext_lazy (lazyOpt : Bool) : filedescExtIsLazy lazyOpt = protodescExtIsLazy lazyOpt := rfl

/-- `EnforceUTF8()` exists on both descriptor kinds and is the resolved feature (since c1ca555); both constructions
produce `*filedesc.Field` / `*filedesc.Extension`, so the accessor agrees as soon as the features do. -/
theorem builder_descriptor_utf8 (f : GoFeatures) : descriptorEnforceUTF8 f = enforceUTF8 f := rfl

/- Historical regression examples (code before e5f41ee / 5c0ecc9); NOT statements about the current code. -/
namespace Old
def protodescExtIsLazy (_lazyOpt : Bool) : Bool := false
theorem old_builder_ext_lazy_false : ¬ ∀ lazyOpt, filedescExtIsLazy lazyOpt = Old.protodescExtIsLazy lazyOpt := by
  intro h; exact absurd (h true) (by decide)
theorem old_builder_enum_features_false :
    ¬ ∀ parent ov, isClosed (C38.Old.filedescEnumFeatures parent ov) = isClosed (protodescEnumFeatures parent ov) :=
  C38.Old.old_filedesc_enum_features_false
end Old

end C37
