import PbVerif.Model.DescFeatures
/-
C38 — Editions features resolve by inheritance and preserve semantics.

Stated on `Model.DescFeatures` (mirror of reflect/protodesc/editions.go, internal/filedesc/editions.go and the
derived accessors of internal/filedesc/desc.go); the defaults table is `Gen.EditionDefaults` (regenerated from
`editions_defaults.binpb` on every run).
-/
namespace C38
open Desc Gen.EditionDefaults

/-! ### merge laws -/

theorem get_merge (p : FeatureSet) (o : Overrides) (f : Feature) :
    (merge p o).get f = (o.get f).getD (p.get f) := by
  cases f <;> rfl

theorem FeatureSet.ext_get {a b : FeatureSet} (h : ∀ f, a.get f = b.get f) : a = b := by
  have h1 := h .fieldPresence; have h2 := h .enumType; have h3 := h .repeatedFieldEncoding
  have h4 := h .utf8Validation; have h5 := h .messageEncoding; have h6 := h .jsonFormat
  have h7 := h .enforceNamingStyle; have h8 := h .defaultSymbolVisibility
  have h9 := h .goLegacyUnmarshalJsonEnum; have h10 := h .goApiLevel; have h11 := h .goStripEnumPrefix
  cases a; cases b
  simp only [FeatureSet.get] at h1 h2 h3 h4 h5 h6 h7 h8 h9 h10 h11
  simp [*]

theorem get_comp (a b : Overrides) (f : Feature) :
    (a.comp b).get f = (b.get f).orElse fun _ => a.get f := by
  cases f <;> rfl

/-- an override that mentions nothing changes nothing -/
theorem merge_empty (p : FeatureSet) : merge p Overrides.empty = p := by
  apply FeatureSet.ext_get; intro f; rw [get_merge]; cases f <;> rfl

/-- idempotent -/
theorem merge_idem (p : FeatureSet) (o : Overrides) : merge (merge p o) o = merge p o := by
  apply FeatureSet.ext_get; intro f
  simp only [get_merge]
  cases o.get f <;> rfl

/-- right-biased: what the child mentions wins, what it does not mention is inherited -/
theorem merge_right_biased (p : FeatureSet) (o : Overrides) (f : Feature) :
    (∀ v, o.get f = some v → (merge p o).get f = v) ∧ (o.get f = none → (merge p o).get f = p.get f) := by
  rw [get_merge]
  constructor
  · intro v h; rw [h]; rfl
  · intro h; rw [h]; rfl

/-- associative: merging two overrides one after the other = merging their composition -/
theorem merge_assoc (p : FeatureSet) (a b : Overrides) : merge (merge p a) b = merge p (a.comp b) := by
  apply FeatureSet.ext_get; intro f
  simp only [get_merge, get_comp]
  cases b.get f <;> cases a.get f <;> rfl

/-! ### resolution = nearest explicit setting, else the edition default — chains of ANY length -/

theorem resolveSpec_cons (b : FeatureSet) (o : Overrides) (c : List Overrides) :
    resolveSpec b (o :: c) = resolveSpec (merge b o) c := rfl

theorem nearest_cons (f : Feature) (o : Overrides) (c : List Overrides) :
    nearest f (o :: c) = (nearest f c).or (o.get f) := by
  simp only [nearest, List.reverse_cons, List.findSome?_append, List.findSome?_cons, List.findSome?_nil]
  cases o.get f <;> rfl

/-- **resolve_nearest.** For every feature, every base (edition default) and every chain
file → … → node, the resolved value is the value of the nearest override that mentions the feature,
and the base value when none does. -/
theorem resolve_nearest (f : Feature) (b : FeatureSet) (c : List Overrides) :
    (resolveSpec b c).get f = (nearest f c).getD (b.get f) := by
  induction c generalizing b with
  | nil => rfl
  | cons o c ih =>
    rw [resolveSpec_cons, ih, get_merge, nearest_cons]
    cases nearest f c <;> cases o.get f <;> rfl

/-- The non-trivial instance: three levels, the middle one mentions the feature. -/
example : (resolveSpec { enumType := 1 } [{}, { enumType := some 2 }, { jsonFormat := some 2 }]).get .enumType = 2 := by
  decide

/-! ### the Go representation commutes with merging -/

/-- **view_merge.** `mergeEditionFeatures` / `unmarshalFeatureSet` on the boolean struct computes exactly the
boolean view of the proto-level merge. -/
theorem view_merge (p : FeatureSet) (o : Overrides) : view (merge p o) = mergeGo (view p) o := by
  cases o with
  | mk fp et rfe u8 me jf ens dsv g1 g2 g3 =>
    cases fp <;> cases et <;> cases rfe <;> cases u8 <;> cases me <;> cases jf <;> cases g1 <;> cases g2 <;> cases g3 <;> rfl

theorem resolveGo_view (b : FeatureSet) (c : List Overrides) :
    resolveGo (view b) c = view (resolveSpec b c) := by
  induction c generalizing b with
  | nil => rfl
  | cons o c ih =>
    simp only [resolveGo, resolveSpec, List.foldl_cons]
    rw [← view_merge]
    exact ih (merge b o)

/-- The resolved Go attributes are functions of the nearest override: e.g. enum openness. -/
theorem resolveGo_isOpenEnum (b : FeatureSet) (c : List Overrides) :
    (resolveGo (view b) c).isOpenEnum = ((nearest .enumType c).getD b.enumType == evOpen) := by
  rw [resolveGo_view]
  have := resolve_nearest .enumType b c
  simp only [FeatureSet.get] at this
  simp [view, this]

theorem resolveGo_isFieldPresence (b : FeatureSet) (c : List Overrides) :
    (resolveGo (view b) c).isFieldPresence =
      (let v := (nearest .fieldPresence c).getD b.fieldPresence; v == evLegacyRequired || v == evExplicit) := by
  rw [resolveGo_view]
  have := resolve_nearest .fieldPresence b c
  simp only [FeatureSet.get] at this
  simp [view, this]

/-! ### the defaults table -/

/-- Both runtimes derive the same defaults from `editions_defaults.binpb` for every supported edition
(protodesc: Clone(fixed)+Merge(overridable) then mergeEditionFeatures; filedesc: wire order into one struct). -/
theorem defaults_agree :
    ∀ ed ∈ [editionProto2, editionProto3, edition2023, edition2024, editionUnstable],
      protodescDefaultsGo ed = filedescDefaultsGo ed ∧ protodescDefaultsGo ed = (defaultsFor ed).map view ∧
      (defaultsFor ed).isSome := by
  decide

/-- Outside `knownEditions` `getFeatureSetFor` reaches `panic("unknown value for edition")`, and for
EDITION_UNKNOWN `os.Exit(1)`; `protodesc.FileOptions.New` guards this with the supported-range check, except
for paths under cmd/protoc-gen-go/testdata/ (C35 finding `testdata-path-edition-panic`). -/
theorem defaultsFor_none : defaultsFor 0 = none ∧ defaultsFor 1 = none ∧ defaultsFor 900 = none ∧ defaultsFor 1002 = none := by
  decide

/-! ### legacy_equiv: proto2 / proto3 defaults give exactly the pre-editions attribute tables -/

def g2 : GoFeatures := (protodescDefaultsGo editionProto2).getD {}
def g3 : GoFeatures := (protodescDefaultsGo editionProto3).getD {}

theorem g2_eq : protodescDefaultsGo editionProto2 = some g2 := by decide
theorem g3_eq : protodescDefaultsGo editionProto3 = some g3 := by decide

/-- HasPresence: for ALL cardinalities and field shapes. -/
theorem legacy_equiv_hasPresence (card : Nat) (isExt hasMsg inOneof : Bool) :
    hasPresence card isExt g2 hasMsg inOneof = legacyHasPresence 2 card isExt hasMsg inOneof ∧
    hasPresence card isExt g3 hasMsg inOneof = legacyHasPresence 3 card isExt hasMsg inOneof := by
  have h2 : g2.isFieldPresence = true := by decide
  have h3 : g3.isFieldPresence = false := by decide
  simp only [hasPresence, legacyHasPresence, h2, h3]
  by_cases hc : card = cRepeated <;> cases isExt <;> cases hasMsg <;> cases inOneof <;> simp [hc]

/-- The condition `validateMessageDeclarations` / `validateExtensionDeclarations` now enforce (622c0ae:
`fd.GetOptions().GetPacked() && !isPackable(f)` is an error): `[packed = true]` only on repeated fields of a packable
kind. -/
def packedOptionValid (card kind : Nat) (packedOpt : Option Bool) : Bool :=
  !(packedOpt == some true && !(card == cRepeated && packableKind kind))

/-- **legacy_equiv (IsPacked).** For all cardinalities, kinds and `packed` options that validation accepts, the
proto2 / proto3 defaults give the pre-editions `IsPacked()`. -/
theorem legacy_equiv_isPacked (card kind : Nat) (packedOpt : Option Bool)
    (h : packedOptionValid card kind packedOpt = true) :
    isPacked card kind (fieldFeatures g2 Overrides.empty packedOpt) = legacyIsPacked 2 card kind packedOpt ∧
    isPacked card kind (fieldFeatures g3 Overrides.empty packedOpt) = legacyIsPacked 3 card kind packedOpt := by
  have h2 : g2.isPacked = false := by decide
  have h3 : g3.isPacked = true := by decide
  have e2 : mergeGo g2 Overrides.empty = g2 := by decide
  have e3 : mergeGo g3 Overrides.empty = g3 := by decide
  cases packedOpt with
  | none =>
    simp only [isPacked, fieldFeatures, legacyIsPacked, e2, e3, h2, h3]
    by_cases hc : card = cRepeated <;> cases hk : packableKind kind <;> simp [hc]
  | some b =>
    cases b with
    | false =>
      simp only [isPacked, fieldFeatures, legacyIsPacked]
      by_cases hc : card = cRepeated <;> cases hk : packableKind kind <;> simp [hc]
    | true =>
      simp only [packedOptionValid, beq_self_eq_true, Bool.true_and, Bool.not_not, Bool.and_eq_true, beq_iff_eq] at h
      simp [isPacked, fieldFeatures, legacyIsPacked, h.1, h.2]

/-- Outside that condition the accessor itself differs from the pre-editions one (`IsPacked()` masks the option by kind
and cardinality; the pre-editions accessor returned the stored option) — which is why validation has to consult the
option and not the accessor. A remark about the accessor, not an obligation: such schemas are rejected. -/
theorem isPacked_masks_option :
    isPacked cRepeated kString (fieldFeatures g2 Overrides.empty (some true)) = false ∧
    legacyIsPacked 2 cRepeated kString (some true) = true := by decide

theorem legacy_equiv_utf8_closed :
    enforceUTF8 g2 = legacyEnforceUTF8 2 ∧ enforceUTF8 g3 = legacyEnforceUTF8 3 ∧
    isClosed g2 = legacyIsClosed 2 ∧ isClosed g3 = legacyIsClosed 3 ∧
    g2.isDelimitedEncoded = false ∧ g3.isDelimitedEncoded = false ∧
    g2.isLegacyRequired = false ∧ g3.isLegacyRequired = false := by
  decide

/-- Kind and cardinality are the declared ones under the proto2/proto3 defaults (no group conversion, no
legacy-required conversion): for ALL types and labels. -/
theorem legacy_equiv_kind_card (type label : Nat) (isExt mapish : Bool) (h : type ≠ kGroup ∨ mapish = false ∨ isExt = true) :
    kindOf type g2 isExt mapish = type ∧ kindOf type g3 isExt mapish = type ∧
    cardinalityOf label g2 isExt = label ∧ cardinalityOf label g3 isExt = label := by
  have d2 : g2.isDelimitedEncoded = false := by decide
  have d3 : g3.isDelimitedEncoded = false := by decide
  have r2 : g2.isLegacyRequired = false := by decide
  have r3 : g3.isLegacyRequired = false := by decide
  simp only [kindOf, cardinalityOf, d2, d3, r2, r3]
  cases isExt <;> cases mapish <;> simp_all

/-- The attributes the codecs read. -/
def runtimeView (g : GoFeatures) : List Bool :=
  [g.isFieldPresence, g.isLegacyRequired, g.isOpenEnum, g.isPacked, g.isUTF8Validated, g.isDelimitedEncoded, g.isJSONCompliant]

/-- File-level overrides of the editions translation of a proto2 file (what `protoc`'s migration writes). -/
def proto2Translation : Overrides :=
  { enumType := some evClosed, repeatedFieldEncoding := some evExpanded, utf8Validation := some evNone,
    jsonFormat := some evLegacyBestEffort }
/-- … and of a proto3 file (proto3 `optional` fields additionally carry field-level EXPLICIT). -/
def proto3Translation : Overrides := { fieldPresence := some evImplicit }

def g23 : GoFeatures := (protodescDefaultsGo edition2023).getD {}
theorem g23_eq : protodescDefaultsGo edition2023 = some g23 := by decide

/-- **legacy_equiv.** A proto2 / proto3 file and its edition-2023 translation resolve to identical runtime
attributes at file level, hence (by `resolve_nearest`, the chains below file level being equal) at every node. -/
theorem legacy_equiv :
    runtimeView (mergeGo g23 proto2Translation) = runtimeView g2 ∧
    runtimeView (mergeGo g23 proto3Translation) = runtimeView g3 ∧
    runtimeView (mergeGo (mergeGo g23 proto3Translation) { fieldPresence := some evExplicit })
      = [true, g3.isLegacyRequired, g3.isOpenEnum, g3.isPacked, g3.isUTF8Validated, g3.isDelimitedEncoded, g3.isJSONCompliant] := by
  refine ⟨by decide, by decide, by decide⟩

/-! ### UTF-8 validation follows the resolved feature, for fields and extensions (c1ca555 + c7b40f5) -/

/-- the DESCRIPTOR accessor is the resolved feature for `*filedesc.Field` and `*filedesc.Extension` alike -/
theorem descriptor_utf8 (f : GoFeatures) : descriptorEnforceUTF8 f = enforceUTF8 f := rfl

/-- **runtime_utf8.** The codecs validate UTF-8 exactly when the resolved `utf8_validation` is VERIFY — for every
edition, for message fields and for extension fields (`strs.EnforceUTF8` looks through the `ExtensionTypeDescriptor`
wrapper). -/
theorem runtime_utf8 (ed : Nat) (isExt : Bool) (f : GoFeatures) : runtimeEnforceUTF8 ed isExt f = enforceUTF8 f := rfl

/-- in particular extensions of an edition-2023 file are validated by default, those of a proto2 file are not -/
example : runtimeEnforceUTF8 edition2023 true g23 = true ∧ runtimeEnforceUTF8 editionProto2 true g2 = false := by decide

/- Historical regression example (code before c1ca555/c7b40f5): extensions fell through to `Syntax() == Proto3`.
   NOT a statement about the current code. -/
namespace OldUtf8
def runtimeEnforceUTF8 (edition : Nat) (isExtension : Bool) (f : GoFeatures) : Bool :=
  if isExtension then edition == editionProto3 else f.isUTF8Validated
theorem old_runtime_utf8_false : ¬ ∀ ed isExt f, OldUtf8.runtimeEnforceUTF8 ed isExt f = enforceUTF8 f := by
  intro h
  exact absurd (h edition2023 true g23) (by decide)
end OldUtf8

/-! ### enum-level features: both constructions honour them (filedesc since e5f41ee) -/

/-- **filedesc_enum_features.** An enum's resolved features are the nearest override INCLUDING its own, in the
compact builder exactly as in protodesc: for all parents and overrides. -/
theorem filedesc_enum_features (parent : GoFeatures) (ov : Overrides) :
    filedescEnumFeatures parent ov = protodescEnumFeatures parent ov := rfl

theorem filedesc_enum_isClosed (parent : FeatureSet) (ov : Overrides) :
    isClosed (filedescEnumFeatures (view parent) ov) = !((ov.enumType.getD parent.enumType) == evOpen) := by
  rw [filedesc_enum_features, protodescEnumFeatures, ← view_merge]
  rfl

/- Historical regression example (the code before e5f41ee): `(*Enum).unmarshalSeed` copied the parent's features
and never read `EnumOptions.features`.  NOT a statement about the current code. -/
namespace Old
def filedescEnumFeatures (parent : GoFeatures) (_ov : Overrides) : GoFeatures := parent
theorem old_filedesc_enum_features_false :
    ¬ ∀ parent ov, isClosed (Old.filedescEnumFeatures parent ov) = isClosed (protodescEnumFeatures parent ov) := by
  intro h
  exact absurd (h {} { enumType := some evOpen }) (by decide)
end Old

end C38
