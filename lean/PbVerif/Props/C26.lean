import PbVerif.Lemmas.JsonTextTotalT
/-
C26 — JSON and text decoders are total and enforce field uniqueness.

Statements are about the tree-level models of protojson / prototext `unmarshalMessage`
(Model/JsonText.lean: `dMembers`/`dMsg`, `tdFields`/`tdMsgV`), for ALL schemas, documents, limits and
states.  The lexical layer (tokenizers) is below these models (engines jsonlex, textstr).

  (1) set.Ints laws                                   ints_*
  (2) uniqueness, JSON                                fromJSON_seen_iff, fromJSON_dup_iff, fromJSON_dupOneof_iff,
                                                      fromJSON_rejects_dup, fromJSON_rejects_oneof
  (3) uniqueness, text                                fromText_seen_iff, fromText_dup_iff, fromText_dupOneof_iff,
                                                      fromText_rejects_dup, fromText_rejects_oneof
  (4) recursion limit                                 depth_limit_json, depth_limit_json_rejects, skip_json_honours_limit,
                                                      depth_limit_text (full: skipped values count since /repo 5d21ab7, the
                                                      repair of finding 10), depth_limit_text_rejects, skip_text_honours_limit,
                                                      text_skip_rejects; C26.Old.old_*: historical regression examples
  (5) totality                                        Lean functions are total; the Go panics that exist at this level are the
                                                      `Err.panic` branches of the model: no_panic_json, no_panic_text, bracket_slice_in_bounds
-/
namespace C26
open JT Pb

variable (C : JCodec) (T : TCodec) (D : DOpts) (X : SchemaX) (mi : Nat) (limit : Int)

/-! ## (1) internal/set/ints.go -/

theorem ints_has_empty (n : Nat) : Ints.has {} n = false := Ints.has_empty n
theorem ints_has_set (s : Ints) (n : Nat) : (s.set n).has n = true := Ints.has_set s n
theorem ints_has_set_other (s : Ints) (n k : Nat) (hk : k ≠ n) : (s.set n).has k = s.has k := Ints.has_set_other s n k hk
theorem ints_has_clear (s : Ints) (n : Nat) : (s.clear n).has n = false := Ints.has_clear s n
theorem ints_has_clear_other (s : Ints) (n k : Nat) (hk : k ≠ n) : (s.clear n).has k = s.has k := Ints.has_clear_other s n k hk
theorem ints_len_empty : Ints.len {} = 0 := Ints.len_empty
theorem ints_len_set (s : Ints) (n : Nat) : (s.set n).len = if s.has n then s.len else s.len + 1 := Ints.len_set s n
/-- with the Go-map invariant (distinct keys), which `Set`/`Clear` preserve (`Ints.wf_set`, `Ints.wf_clear`) -/
theorem ints_len_clear (s : Ints) (n : Nat) (h : s.WF) : (s.clear n).len = if s.has n then s.len - 1 else s.len :=
  Ints.len_clear s n h

example : (({} : Ints).set 3 |>.set 70 |>.set 3).len = 2 ∧ (({} : Ints).set 70).has 70 = true := by decide

/-! ## (2) JSON: `seenNums` / `seenOneofs` -/

/-- some member of `pre` names field `num` (under any accepted name: json_name, proto name, `[ext.name]`) -/
def JNamedIn (pre : List (Str × JV)) (num : Nat) : Prop := ∃ a ∈ pre, jNamed X (X.msg mi) a = some num

/-- some member of `pre` sets oneof `o` (a resolved non-repeated member of it with a value that is not a skipped null) -/
def JSetsIn (pre : List (Str × JV)) (o : Nat) : Prop := ∃ a ∈ pre, jSetsOneof X (X.msg mi) a = some o

/-- the error `e` comes out of the *value* of member `key: v` (a nested message, list or map) -/
def JNested (s : LoopSt) (key : Str) (v : JV) (e : Err) : Prop :=
  ∃ fx sn' so', dHead D X (X.msg mi) limit key v s.sn s.so = .value fx sn' so' ∧
    dFieldVal C D X mi fx limit s.m v = .error e

/-- **the loop invariant**: after the loop has run through `pre`, `seenNums` holds exactly the numbers of
the fields named so far and `seenOneofs` exactly the oneofs set so far -/
theorem fromJSON_seen_iff (pre : List (Str × JV)) (m0 : Msg) (s : LoopSt)
    (h : foldE (dStep C D X mi limit) pre ⟨{}, {}, m0⟩ = .ok s) :
    (∀ n, s.sn.has n = true ↔ JNamedIn X mi pre n) ∧ (∀ o, s.so.has o = true ↔ JSetsIn X mi pre o) := by
  constructor
  · intro n
    have := foldE_inv (dStep C D X mi limit) (fun s n => s.sn.has n = true) (fun a n => jNamed X (X.msg mi) a = some n)
      (fun s a s' hs n => dStep_sn C D X mi limit s s' a hs n) pre _ s h n
    simpa [Ints.has_empty, JNamedIn] using this
  · intro o
    have := foldE_inv (dStep C D X mi limit) (fun s o => s.so.has o = true) (fun a o => jSetsOneof X (X.msg mi) a = some o)
      (fun s a s' hs o => dStep_so C D X mi limit s s' a hs o) pre _ s h o
    simpa [Ints.has_empty, JSetsIn] using this

theorem dHead_dup (key : Str) (v : JV) (sn so : Ints) :
    dHead D X (X.msg mi) limit key v sn so = .error .dup ↔
      ∃ fx, resolveJSON X (X.msg mi) key = .found fx ∧ sn.has fx.f.num = true := by
  rw [dHead_dup_iff]
  constructor
  · rintro (h | ⟨_, _, h⟩)
    · exact h
    · have := skipJ_err limit v 0 .dup h
      cases this
  · exact .inl

theorem dHead_dupOneof (key : Str) (v : JV) (sn so : Ints) :
    dHead D X (X.msg mi) limit key v sn so = .error .dupOneof ↔
      (∀ fx, resolveJSON X (X.msg mi) key = .found fx → sn.has fx.f.num = false) ∧
      ∃ o, jSetsOneof X (X.msg mi) (key, v) = some o ∧ so.has o = true := by
  unfold dHead jSetsOneof
  cases h : resolveJSON X (X.msg mi) key with
  | badExt => simp
  | unknown =>
    by_cases hd : D.discard = true
    · simp only [hd, if_true]
      cases hs : skipJ limit 0 v with
      | error e =>
        have := skipJ_err limit v 0 e hs
        subst this
        simp
      | ok _ => simp
    · simp [hd]
  | found fx =>
    by_cases hh : sn.has fx.f.num = true
    · simp [hh]
    · have hh' : sn.has fx.f.num = false := by simpa using hh
      simp only [hh, if_false]
      by_cases hn : (v.isNull && !fx.valueMsg && !fx.nullEnum) = true
      · simp [hn, hh']
      · simp only [hn, if_false]
        cases hc : fx.f.card <;> simp [hh']
        all_goals
          (cases ho : fx.oneofIdx with
           | none => simp
           | some o => simp only; split <;> simp_all)

theorem dStep_err (s : LoopSt) (key : Str) (v : JV) (e : Err) :
    dStep C D X mi limit s (key, v) = .error e ↔
      dHead D X (X.msg mi) limit key v s.sn s.so = .error e ∨ JNested C D X mi limit s key v e := by
  unfold dStep JNested
  simp only
  cases h : dHead D X (X.msg mi) limit key v s.sn s.so with
  | error e' => simp
  | skip sn' => simp
  | value fx sn' so' =>
    simp only
    cases h2 : dFieldVal C D X mi fx limit s.m v with
    | error e' => simp [h2]
    | ok m' => simp [h2]

/-- **`fromJSON_dup_iff`** (all schemas, all documents). The protojson field loop returns the
"duplicate field" error IFF it runs without error through some prefix of the members and the next
member either names a field that a member of that prefix already named — under any of its accepted
names, repeated fields and JSON nulls included, exactly as coded — or carries the duplicate error out
of its own value (a nested message where the same holds). -/
theorem fromJSON_dup_iff (ms : JMembers) (m0 : Msg) :
    dMembers C D X mi limit ms {} {} m0 = .error .dup ↔
      ∃ pre key v post s, ms.toList = pre ++ (key, v) :: post ∧
        foldE (dStep C D X mi limit) pre ⟨{}, {}, m0⟩ = .ok s ∧
        ((∃ fx, resolveJSON X (X.msg mi) key = .found fx ∧ JNamedIn X mi pre fx.f.num) ∨
          JNested C D X mi limit s key v .dup) := by
  rw [dMembers_eq_fold]
  have hmap : ∀ r : Except Err LoopSt, r.map (·.m) = .error .dup ↔ r = .error .dup := by
    intro r; cases r <;> simp [Except.map]
  rw [hmap, foldE_error_iff]
  constructor
  · rintro ⟨pre, ⟨key, v⟩, post, s, hl, hp, hs⟩
    refine ⟨pre, key, v, post, s, hl, hp, ?_⟩
    rcases (dStep_err C D X mi limit s key v .dup).mp hs with h | h
    · obtain ⟨fx, hr, hh⟩ := (dHead_dup D X mi limit key v s.sn s.so).mp h
      exact .inl ⟨fx, hr, ((fromJSON_seen_iff C D X mi limit pre m0 s hp).1 _).mp hh⟩
    · exact .inr h
  · rintro ⟨pre, key, v, post, s, hl, hp, h⟩
    refine ⟨pre, (key, v), post, s, hl, hp, ?_⟩
    apply (dStep_err C D X mi limit s key v .dup).mpr
    rcases h with ⟨fx, hr, hn⟩ | h
    · exact .inl ((dHead_dup D X mi limit key v s.sn s.so).mpr
        ⟨fx, hr, ((fromJSON_seen_iff C D X mi limit pre m0 s hp).1 _).mpr hn⟩)
    · exact .inr h

/-- the same for oneofs: "oneof … is already set" IFF the first failing member sets a oneof (a
non-repeated member of it with a value other than a skipped null) that a member of the prefix has set,
its own field not having been named before — or carries that error out of its value -/
theorem fromJSON_dupOneof_iff (ms : JMembers) (m0 : Msg) :
    dMembers C D X mi limit ms {} {} m0 = .error .dupOneof ↔
      ∃ pre key v post s, ms.toList = pre ++ (key, v) :: post ∧
        foldE (dStep C D X mi limit) pre ⟨{}, {}, m0⟩ = .ok s ∧
        (((∀ fx, resolveJSON X (X.msg mi) key = .found fx → ¬ JNamedIn X mi pre fx.f.num) ∧
            ∃ o, jSetsOneof X (X.msg mi) (key, v) = some o ∧ JSetsIn X mi pre o) ∨
          JNested C D X mi limit s key v .dupOneof) := by
  rw [dMembers_eq_fold]
  have hmap : ∀ r : Except Err LoopSt, r.map (·.m) = .error .dupOneof ↔ r = .error .dupOneof := by
    intro r; cases r <;> simp [Except.map]
  rw [hmap, foldE_error_iff]
  constructor
  · rintro ⟨pre, ⟨key, v⟩, post, s, hl, hp, hs⟩
    refine ⟨pre, key, v, post, s, hl, hp, ?_⟩
    have inv := fromJSON_seen_iff C D X mi limit pre m0 s hp
    rcases (dStep_err C D X mi limit s key v .dupOneof).mp hs with h | h
    · obtain ⟨h1, o, ho, hso⟩ := (dHead_dupOneof D X mi limit key v s.sn s.so).mp h
      refine .inl ⟨?_, o, ho, (inv.2 o).mp hso⟩
      intro fx hr hn
      have := (inv.1 _).mpr hn
      rw [h1 fx hr] at this
      cases this
    · exact .inr h
  · rintro ⟨pre, key, v, post, s, hl, hp, h⟩
    refine ⟨pre, (key, v), post, s, hl, hp, ?_⟩
    have inv := fromJSON_seen_iff C D X mi limit pre m0 s hp
    apply (dStep_err C D X mi limit s key v .dupOneof).mpr
    rcases h with ⟨h1, o, ho, hso⟩ | h
    · refine .inl ((dHead_dupOneof D X mi limit key v s.sn s.so).mpr ⟨?_, o, ho, (inv.2 o).mpr hso⟩)
      intro fx hr
      cases hb : s.sn.has fx.f.num with
      | false => rfl
      | true => exact absurd ((inv.1 _).mp hb) (h1 fx hr)
    · exact .inr h

/-- **rejection** (the property clause itself, for ALL documents, states and values): a member list in
which two members name the same field — under any accepted names — is never accepted -/
theorem fromJSON_rejects_dup (ms : JMembers) (l1 l2 l3 : List (Str × JV)) (a b : Str × JV) (n : Nat)
    (hl : ms.toList = l1 ++ a :: l2 ++ b :: l3)
    (ha : jNamed X (X.msg mi) a = some n) (hb : jNamed X (X.msg mi) b = some n)
    (sn so : Ints) (m0 m : Msg) : dMembers C D X mi limit ms sn so m0 ≠ .ok m := by
  intro h
  rw [dMembers_eq_fold, hl] at h
  cases hf : foldE (dStep C D X mi limit) (l1 ++ a :: l2 ++ b :: l3) ⟨sn, so, m0⟩ with
  | error e => rw [hf] at h; simp [Except.map] at h
  | ok sf =>
    obtain ⟨s1, h1, h2⟩ := foldE_ok_prefix _ (l1 ++ a :: l2) (b :: l3) _ _ hf
    have hin := (foldE_inv (dStep C D X mi limit) (fun s n => s.sn.has n = true)
      (fun a n => jNamed X (X.msg mi) a = some n)
      (fun s a s' hs n => dStep_sn C D X mi limit s s' a hs n) _ _ s1 h1 n).mpr
      (.inr ⟨a, by simp, ha⟩)
    simp only [foldE] at h2
    unfold jNamed at hb
    cases hr : resolveJSON X (X.msg mi) b.1 with
    | badExt => rw [hr] at hb; cases hb
    | unknown => rw [hr] at hb; cases hb
    | found fx =>
      rw [hr] at hb
      simp only [Option.some.injEq] at hb
      have : dStep C D X mi limit s1 (b.1, b.2) = .error .dup :=
        (dStep_err C D X mi limit s1 b.1 b.2 .dup).mpr
          (.inl ((dHead_dup D X mi limit b.1 b.2 s1.sn s1.so).mpr ⟨fx, hr, hb ▸ hin⟩))
      rw [show (b.1, b.2) = b from rfl] at this
      rw [this] at h2
      cases h2

/-- a member that sets a oneof resolves to a field -/
theorem jSetsOneof_found (a : Str × JV) (o : Nat) (h : jSetsOneof X (X.msg mi) a = some o) :
    ∃ fx, resolveJSON X (X.msg mi) a.1 = .found fx := by
  unfold jSetsOneof at h
  cases hr : resolveJSON X (X.msg mi) a.1 with
  | badExt => rw [hr] at h; cases h
  | unknown => rw [hr] at h; cases h
  | found fx => exact ⟨fx, rfl⟩

/-- two members that set the same oneof are never accepted -/
theorem fromJSON_rejects_oneof (ms : JMembers) (l1 l2 l3 : List (Str × JV)) (a b : Str × JV) (o : Nat)
    (hl : ms.toList = l1 ++ a :: l2 ++ b :: l3)
    (ha : jSetsOneof X (X.msg mi) a = some o) (hb : jSetsOneof X (X.msg mi) b = some o)
    (sn so : Ints) (m0 m : Msg) : dMembers C D X mi limit ms sn so m0 ≠ .ok m := by
  intro h
  rw [dMembers_eq_fold, hl] at h
  cases hf : foldE (dStep C D X mi limit) (l1 ++ a :: l2 ++ b :: l3) ⟨sn, so, m0⟩ with
  | error e => rw [hf] at h; simp [Except.map] at h
  | ok sf =>
    obtain ⟨s1, h1, h2⟩ := foldE_ok_prefix _ (l1 ++ a :: l2) (b :: l3) _ _ hf
    have hin := (foldE_inv (dStep C D X mi limit) (fun s o => s.so.has o = true)
      (fun a o => jSetsOneof X (X.msg mi) a = some o)
      (fun s a s' hs o => dStep_so C D X mi limit s s' a hs o) _ _ s1 h1 o).mpr
      (.inr ⟨a, by simp, ha⟩)
    simp only [foldE] at h2
    obtain ⟨fx, hr⟩ := jSetsOneof_found X mi b o hb
    -- the head of `b` reports "duplicate field" or "oneof already set"
    have herr : ∃ e, dHead D X (X.msg mi) limit b.1 b.2 s1.sn s1.so = .error e := by
      cases hh : s1.sn.has fx.f.num with
      | true => exact ⟨.dup, (dHead_dup D X mi limit b.1 b.2 s1.sn s1.so).mpr ⟨fx, hr, hh⟩⟩
      | false =>
        refine ⟨.dupOneof, (dHead_dupOneof D X mi limit b.1 b.2 s1.sn s1.so).mpr ⟨?_, o, hb, hin⟩⟩
        intro gx hg
        rw [hr] at hg
        cases hg
        exact hh
    obtain ⟨e, he⟩ := herr
    have : dStep C D X mi limit s1 (b.1, b.2) = .error e :=
      (dStep_err C D X mi limit s1 b.1 b.2 e).mpr (.inl he)
    rw [show (b.1, b.2) = b from rfl] at this
    rw [this] at h2
    cases h2

example : ∃ (ms : JMembers) (l1 l2 l3 : List (Str × JV)) (a b : Str × JV), ms.toList = l1 ++ a :: l2 ++ b :: l3 :=
  ⟨.cons [] .null (.cons [] .null .nil), [], [], [], ([], .null), ([], .null), rfl⟩

/-! ## (3) text: `seenNums` / `seenOneofs` (non-repeated fields only, as coded) -/

def TNamedIn (pre : List (TName × Bool × TV)) (num : Nat) : Prop := ∃ a ∈ pre, tNamed X (X.msg mi) a = some num
def TSetsIn (pre : List (TName × Bool × TV)) (o : Nat) : Prop := ∃ a ∈ pre, tSetsOneof X (X.msg mi) a = some o

def TNested (s : LoopSt) (name : TName) (sep : Bool) (v : TV) (e : Err) : Prop :=
  ∃ fx sn' so', tdHead D X (X.msg mi) limit name sep v s.sn s.so = .value fx sn' so' ∧
    tdFieldVal T D X mi fx limit s.m v = .error e

theorem fromText_seen_iff (pre : List (TName × Bool × TV)) (m0 : Msg) (s : LoopSt)
    (h : foldE (tdStep T D X mi limit) pre ⟨{}, {}, m0⟩ = .ok s) :
    (∀ n, s.sn.has n = true ↔ TNamedIn X mi pre n) ∧ (∀ o, s.so.has o = true ↔ TSetsIn X mi pre o) := by
  constructor
  · intro n
    have := foldE_inv (tdStep T D X mi limit) (fun s n => s.sn.has n = true) (fun a n => tNamed X (X.msg mi) a = some n)
      (fun s a s' hs n => tdStep_sn T D X mi limit s s' a hs n) pre _ s h n
    simpa [Ints.has_empty, TNamedIn] using this
  · intro o
    have := foldE_inv (tdStep T D X mi limit) (fun s o => s.so.has o = true) (fun a o => tSetsOneof X (X.msg mi) a = some o)
      (fun s a s' hs o => tdStep_so T D X mi limit s s' a hs o) pre _ s h o
    simpa [Ints.has_empty, TSetsIn] using this

theorem tdStep_err (s : LoopSt) (name : TName) (sep : Bool) (v : TV) (e : Err) :
    tdStep T D X mi limit s (name, sep, v) = .error e ↔
      tdHead D X (X.msg mi) limit name sep v s.sn s.so = .error e ∨ TNested T D X mi limit s name sep v e := by
  unfold tdStep TNested
  simp only
  cases h : tdHead D X (X.msg mi) limit name sep v s.sn s.so with
  | error e' => simp
  | skip sn' => simp
  | value fx sn' so' =>
    simp only
    cases h2 : tdFieldVal T D X mi fx limit s.m v with
    | error e' => simp [h2]
    | ok m' => simp [h2]

/-- **`fromText_dup_iff`** (all schemas, all documents). The prototext field loop returns
"non-repeated field … is repeated" IFF it runs without error through some prefix and the next field is a
non-repeated field (separator rule met, its oneof — if any — not yet set) that a field of the prefix
already named, or carries that error out of its own value. Repeated and map fields never count. -/
theorem fromText_dup_iff (fs : TFields) (m0 : Msg) :
    tdFields T D X mi limit fs {} {} m0 = .error .dup ↔
      ∃ pre name sep v post s, fs.toList = pre ++ (name, sep, v) :: post ∧
        foldE (tdStep T D X mi limit) pre ⟨{}, {}, m0⟩ = .ok s ∧
        ((∃ fx, resolveText X (X.msg mi) name = .found fx ∧ isSingular fx = true ∧ sepOK fx sep = true ∧
            (∀ o, fx.oneofIdx = some o → ¬ TSetsIn X mi pre o) ∧ TNamedIn X mi pre fx.f.num) ∨
          TNested T D X mi limit s name sep v .dup) := by
  rw [tdFields_eq_fold]
  have hmap : ∀ r : Except Err LoopSt, r.map (·.m) = .error .dup ↔ r = .error .dup := by
    intro r; cases r <;> simp [Except.map]
  rw [hmap, foldE_error_iff]
  constructor
  · rintro ⟨pre, ⟨name, sep, v⟩, post, s, hl, hp, hs⟩
    refine ⟨pre, name, sep, v, post, s, hl, hp, ?_⟩
    have inv := fromText_seen_iff T D X mi limit pre m0 s hp
    rcases (tdStep_err T D X mi limit s name sep v .dup).mp hs with h | h
    · obtain ⟨fx, hr, h1, h2, h3, h4⟩ := (tdHead_dup D X (X.msg mi) limit name sep v s.sn s.so).mp h
      refine .inl ⟨fx, hr, h1, h2, ?_, (inv.1 _).mp h4⟩
      intro o ho hin
      have := (inv.2 o).mpr hin
      rw [h3 o ho] at this
      cases this
    · exact .inr h
  · rintro ⟨pre, name, sep, v, post, s, hl, hp, h⟩
    refine ⟨pre, (name, sep, v), post, s, hl, hp, ?_⟩
    have inv := fromText_seen_iff T D X mi limit pre m0 s hp
    apply (tdStep_err T D X mi limit s name sep v .dup).mpr
    rcases h with ⟨fx, hr, h1, h2, h3, h4⟩ | h
    · refine .inl ((tdHead_dup D X (X.msg mi) limit name sep v s.sn s.so).mpr ⟨fx, hr, h1, h2, ?_, (inv.1 _).mpr h4⟩)
      intro o ho
      cases hb : s.so.has o with
      | false => rfl
      | true => exact absurd ((inv.2 o).mp hb) (h3 o ho)
    · exact .inr h

theorem fromText_dupOneof_iff (fs : TFields) (m0 : Msg) :
    tdFields T D X mi limit fs {} {} m0 = .error .dupOneof ↔
      ∃ pre name sep v post s, fs.toList = pre ++ (name, sep, v) :: post ∧
        foldE (tdStep T D X mi limit) pre ⟨{}, {}, m0⟩ = .ok s ∧
        ((∃ fx o, resolveText X (X.msg mi) name = .found fx ∧ isSingular fx = true ∧ sepOK fx sep = true ∧
            fx.oneofIdx = some o ∧ TSetsIn X mi pre o) ∨
          TNested T D X mi limit s name sep v .dupOneof) := by
  rw [tdFields_eq_fold]
  have hmap : ∀ r : Except Err LoopSt, r.map (·.m) = .error .dupOneof ↔ r = .error .dupOneof := by
    intro r; cases r <;> simp [Except.map]
  rw [hmap, foldE_error_iff]
  constructor
  · rintro ⟨pre, ⟨name, sep, v⟩, post, s, hl, hp, hs⟩
    refine ⟨pre, name, sep, v, post, s, hl, hp, ?_⟩
    have inv := fromText_seen_iff T D X mi limit pre m0 s hp
    rcases (tdStep_err T D X mi limit s name sep v .dupOneof).mp hs with h | h
    · obtain ⟨fx, o, hr, h1, h2, h3, h4⟩ := (tdHead_dupOneof D X (X.msg mi) limit name sep v s.sn s.so).mp h
      exact .inl ⟨fx, o, hr, h1, h2, h3, (inv.2 o).mp h4⟩
    · exact .inr h
  · rintro ⟨pre, name, sep, v, post, s, hl, hp, h⟩
    refine ⟨pre, (name, sep, v), post, s, hl, hp, ?_⟩
    have inv := fromText_seen_iff T D X mi limit pre m0 s hp
    apply (tdStep_err T D X mi limit s name sep v .dupOneof).mpr
    rcases h with ⟨fx, o, hr, h1, h2, h3, h4⟩ | h
    · exact .inl ((tdHead_dupOneof D X (X.msg mi) limit name sep v s.sn s.so).mpr ⟨fx, o, hr, h1, h2, h3, (inv.2 o).mpr h4⟩)
    · exact .inr h

theorem tNamed_found (a : TName × Bool × TV) (n : Nat) (h : tNamed X (X.msg mi) a = some n) :
    ∃ fx, resolveText X (X.msg mi) a.1 = .found fx ∧ isSingular fx = true ∧ fx.f.num = n := by
  unfold tNamed at h
  cases hr : resolveText X (X.msg mi) a.1 with
  | badNum => rw [hr] at h; cases h
  | badExt => rw [hr] at h; cases h
  | byNumber => rw [hr] at h; cases h
  | unknown _ => rw [hr] at h; cases h
  | found fx =>
    rw [hr] at h
    simp only at h
    split at h
    · rename_i hs
      exact ⟨fx, rfl, hs, by simpa using h⟩
    · cases h

theorem tSetsOneof_found (a : TName × Bool × TV) (o : Nat) (h : tSetsOneof X (X.msg mi) a = some o) :
    ∃ fx, resolveText X (X.msg mi) a.1 = .found fx ∧ isSingular fx = true ∧ fx.oneofIdx = some o := by
  unfold tSetsOneof at h
  cases hr : resolveText X (X.msg mi) a.1 with
  | badNum => rw [hr] at h; cases h
  | badExt => rw [hr] at h; cases h
  | byNumber => rw [hr] at h; cases h
  | unknown _ => rw [hr] at h; cases h
  | found fx =>
    rw [hr] at h
    simp only at h
    split at h
    · rename_i hs
      exact ⟨fx, rfl, hs, h⟩
    · cases h

/-- **rejection**: a field list that names one non-repeated field twice is never accepted
(whatever the states, values, separators) -/
theorem fromText_rejects_dup (fs : TFields) (l1 l2 l3 : List (TName × Bool × TV)) (a b : TName × Bool × TV) (n : Nat)
    (hl : fs.toList = l1 ++ a :: l2 ++ b :: l3)
    (ha : tNamed X (X.msg mi) a = some n) (hb : tNamed X (X.msg mi) b = some n)
    (sn so : Ints) (m0 m : Msg) : tdFields T D X mi limit fs sn so m0 ≠ .ok m := by
  intro h
  rw [tdFields_eq_fold, hl] at h
  cases hf : foldE (tdStep T D X mi limit) (l1 ++ a :: l2 ++ b :: l3) ⟨sn, so, m0⟩ with
  | error e => rw [hf] at h; simp [Except.map] at h
  | ok sf =>
    obtain ⟨s1, h1, h2⟩ := foldE_ok_prefix _ (l1 ++ a :: l2) (b :: l3) _ _ hf
    have hin := (foldE_inv (tdStep T D X mi limit) (fun s n => s.sn.has n = true)
      (fun a n => tNamed X (X.msg mi) a = some n)
      (fun s a s' hs n => tdStep_sn T D X mi limit s s' a hs n) _ _ s1 h1 n).mpr
      (.inr ⟨a, by simp, ha⟩)
    simp only [foldE] at h2
    obtain ⟨fx, hr, hs, hn⟩ := tNamed_found X mi b n hb
    obtain ⟨e, he⟩ := tdHead_singular_seen D X (X.msg mi) limit b.1 b.2.1 b.2.2 s1.sn s1.so fx hr hs
      (.inl (hn ▸ hin))
    have : tdStep T D X mi limit s1 (b.1, b.2.1, b.2.2) = .error e :=
      (tdStep_err T D X mi limit s1 b.1 b.2.1 b.2.2 e).mpr (.inl he)
    rw [show (b.1, b.2.1, b.2.2) = b from rfl] at this
    rw [this] at h2
    cases h2

/-- two fields that set the same oneof are never accepted -/
theorem fromText_rejects_oneof (fs : TFields) (l1 l2 l3 : List (TName × Bool × TV)) (a b : TName × Bool × TV) (o : Nat)
    (hl : fs.toList = l1 ++ a :: l2 ++ b :: l3)
    (ha : tSetsOneof X (X.msg mi) a = some o) (hb : tSetsOneof X (X.msg mi) b = some o)
    (sn so : Ints) (m0 m : Msg) : tdFields T D X mi limit fs sn so m0 ≠ .ok m := by
  intro h
  rw [tdFields_eq_fold, hl] at h
  cases hf : foldE (tdStep T D X mi limit) (l1 ++ a :: l2 ++ b :: l3) ⟨sn, so, m0⟩ with
  | error e => rw [hf] at h; simp [Except.map] at h
  | ok sf =>
    obtain ⟨s1, h1, h2⟩ := foldE_ok_prefix _ (l1 ++ a :: l2) (b :: l3) _ _ hf
    have hin := (foldE_inv (tdStep T D X mi limit) (fun s o => s.so.has o = true)
      (fun a o => tSetsOneof X (X.msg mi) a = some o)
      (fun s a s' hs o => tdStep_so T D X mi limit s s' a hs o) _ _ s1 h1 o).mpr
      (.inr ⟨a, by simp, ha⟩)
    simp only [foldE] at h2
    obtain ⟨fx, hr, hs, ho⟩ := tSetsOneof_found X mi b o hb
    obtain ⟨e, he⟩ := tdHead_singular_seen D X (X.msg mi) limit b.1 b.2.1 b.2.2 s1.sn s1.so fx hr hs
      (.inr ⟨o, ho, hin⟩)
    have : tdStep T D X mi limit s1 (b.1, b.2.1, b.2.2) = .error e :=
      (tdStep_err T D X mi limit s1 b.1 b.2.1 b.2.2 e).mpr (.inl he)
    rw [show (b.1, b.2.1, b.2.2) = b from rfl] at this
    rw [this] at h2
    cases h2

/-! ## (4) the recursion limit -/

/-- **`depth_limit` (JSON)**: an accepted document is nested at most `RecursionLimit` deep — message objects
through known fields (lists and maps are free, as coded) *and* the containers of discarded unknown values. -/
theorem depth_limit_json (v : JV) (m : Msg) (h : fromJSON C D X mi limit v = .ok m) :
    (jdepth D X mi v : Int) ≤ limit := dMsg_depth C D X v mi limit m h

/-- contrapositive form: deeper than the limit ⇒ rejected -/
theorem depth_limit_json_rejects (v : JV) (h : (jdepth D X mi v : Int) > limit) (m : Msg) :
    fromJSON C D X mi limit v ≠ .ok m := fun hm => by
  have := depth_limit_json C D X mi limit v m hm
  omega

/-- **the JSON skip path honours the limit**, exactly: `skipJSONValue` (entered with the limit that is left
after the enclosing message) fails iff the skipped value nests more containers than that, and then with the
recursion-depth error -/
theorem skip_json_honours_limit (v : JV) :
    skipJ limit 0 v = .error .depth ↔ cdepth v ≠ 0 ∧ (cdepth v : Int) > limit := by
  have h := skipJ_ok_iff limit v 0
  constructor
  · intro he
    have hn : ¬ (cdepth v = 0 ∨ ((0 + cdepth v : Nat) : Int) ≤ limit) := fun hc => by
      have := h.mpr hc
      rw [he] at this
      cases this
    omega
  · intro hd
    cases hs : skipJ limit 0 v with
    | ok u =>
      have := h.mp hs
      omega
    | error e => rw [skipJ_err limit v 0 e hs]

example : skipJ 1 0 (.arr (.cons (.arr .nil) .nil)) = .error .depth := rfl

/-- **`depth_limit` (text)**, the full statement: an accepted document is nested at most `RecursionLimit` deep —
one level per message through known fields, one more per map field occurrence (`unmarshalMap`), lists free,
*and* the messages inside the values skipped for unknown or reserved names (`skipMessageValue` counts them since
/repo 5d21ab7, the repair of DESIGN finding 10; before it this statement was false, see `C26.Old`). -/
theorem depth_limit_text (fs : TFields) (m : Msg) (h : fromText T D X mi limit fs = .ok m) :
    (tdepthV D X mi (.msg fs) : Int) ≤ limit :=
  tdMsgV_depth T D X (.msg fs) mi limit m h

/-- contrapositive form: deeper than the limit ⇒ rejected -/
theorem depth_limit_text_rejects (fs : TFields) (h : (tdepthV D X mi (.msg fs) : Int) > limit) (m : Msg) :
    fromText T D X mi limit fs ≠ .ok m := fun hm => by
  have := depth_limit_text T D X mi limit fs m hm
  omega

/-- **the text skip path honours the limit**, exactly: `skipValue` (entered with the limit that is left after
the enclosing message) fails iff the skipped value nests more messages than that, and then with the
recursion-depth error — the same contract as protojson's `skipJSONValue` -/
theorem skip_text_honours_limit (v : TV) (h0 : 0 ≤ limit) :
    skipT limit v = .error .depth ↔ (bdepth v : Int) > limit := by
  constructor
  · intro he
    have hn : ¬ (bdepth v : Int) ≤ limit := fun hc => by
      have := skipT_ok v limit hc
      rw [he] at this
      cases this
    omega
  · intro hd
    cases hs : skipT limit v with
    | ok u =>
      have := skipT_depth v limit h0 hs
      omega
    | error e => rw [skipT_err limit v e hs]

/-- a chain of `n` nested messages under the unknown name `a`: `a{a{…}}` -/
def nest : Nat → TV
  | 0 => .msg .nil
  | n + 1 => .msg (.cons (.ident (ascii ['a'])) false (nest n) .nil)

theorem bdepth_nest : ∀ n, bdepth (nest n) = n + 1
  | 0 => by simp [nest, bdepth, bdepthFields]
  | n + 1 => by simp [nest, bdepth, bdepthFields, bdepth_nest n]; omega

/-- the one-message schema without fields -/
def emptySchema : SchemaX := { msgs := [{ fields := [] }] }

/-- the old witness of finding 10 is rejected with the recursion-depth error:
`UnmarshalOptions{DiscardUnknown: true, RecursionLimit: 1}` on `a{a{…}}` nested two or more levels deep -/
theorem text_skip_rejects (n : Nat) :
    fromText T { discard := true } emptySchema 0 1
      (.cons (.ident (ascii ['a'])) false (nest (n + 1)) .nil) = .error .depth := by
  simp [fromText, tdMsgV, tdFields, tdHead, resolveText, emptySchema, SchemaX.msg, nest, skipT]

/-- … and one level (exactly the limit that is left) is accepted -/
example : fromText T { discard := true } emptySchema 0 2
    (.cons (.ident (ascii ['a'])) false (nest 0) .nil) = .ok Msg.empty := by
  simp [fromText, tdMsgV, tdFields, tdHead, resolveText, emptySchema, SchemaX.msg, nest, skipT, skipTFields]

/-! ### HISTORICAL regression example (code before /repo 5d21ab7; DESIGN finding 10, now fixed)

`skipValue` / `skipMessageValue` as they were (`skipTOld`) never looked at the recursion limit — any depth was
walked, 12,000,000 levels ended the process with a stack overflow — and `unmarshalMessage` dropped their
result.  Nothing here is about the current code; the harness replays the old witnesses on every run and reports
a regression under the signature `prototext-skip-ignores-recursion-limit`. -/
namespace Old

/-- the old skip path accepted `a{a{…}}` at ANY depth, whatever the limit (it had no limit parameter at all) -/
theorem old_skip_ignores_limit : ∀ n : Nat, skipTOld (nest n) = .ok ()
  | 0 => rfl
  | n + 1 => by
    rw [nest, skipTOld, skipTFieldsOld, old_skip_ignores_limit n]
    rfl

/-- where the current one stops: the same value, limit 1 -/
theorem old_witness_now_rejected (n : Nat) : skipT 1 (nest (n + 1)) = .error .depth := by
  cases n <;> simp [nest, skipT, skipTFields]

end Old

/-! ## (5) totality

All model functions are total Lean functions (structural recursion on the document tree; no fuel).
What can go wrong in the Go code at this level, and where the model has it:

* `name[1 : len(name)-1]` (protojson, extension names): guarded by `HasPrefix("[") && HasSuffix("]")`, which
  implies `len(name) ≥ 2` — `bracket_slice_in_bounds`.
* `panic("unmarshalScalar: invalid scalar kind")`, `panic("invalid kind for map key")`,
  prototext `panic("invalid scalar kind")`: the `Err.panic` results of `dScalar`, `dKey`, `tdTok`;
  `no_panic_json` / `no_panic_text`: never returned, for all documents, given that map keys have key kinds.
* `Option`/`getD` branches of the model that stand for "cannot happen with a descriptor": `SchemaX.msg` on an
  index outside the schema (an empty message: every name is unknown), `headD` of an empty name list (the empty
  name), a map entry descriptor without fields 1 and 2 (`Err.delegated`); the harness checks on every corpus
  schema that they do not occur (verb `namesok`, `MapKeysOK` by construction of the flattening).
* Token accessors that panic on the wrong token kind (`tok.Name()`, `tok.Bool()`, `NameKind()`): the Go code tests
  `Kind()` first in every case; the model's trees are typed by constructor, the question does not arise here.
  Index expressions of the tokenizers themselves are below this model (engines jsonlex, textstr).
-/

theorem bracket_slice_in_bounds (s : Str) (h : isBracketed s = true) : 2 ≤ s.length := isBracketed_length s h

theorem no_panic_json (hK : MapKeysOK X) (v : JV) : fromJSON C D X mi limit v ≠ .error .panic :=
  dMsg_np C D X hK v mi limit

theorem no_panic_text (hK : MapKeysOK X) (fs : TFields) : fromText T D X mi limit fs ≠ .error .panic :=
  tdMsgV_np T D X hK (.msg fs) mi limit

example : MapKeysOK emptySchema := by
  intro i fx hmem
  have : (emptySchema.msg i).fields = [] := by
    unfold emptySchema SchemaX.msg
    cases i with
    | zero => rfl
    | succ n => cases n <;> rfl
  rw [this] at hmem
  cases hmem

end C26
