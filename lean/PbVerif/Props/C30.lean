import PbVerif.Lemmas.MsgAlgClone
import PbVerif.Lemmas.MsgAlgUnknown
import PbVerif.Lemmas.MsgAlgExamples
/-
C30 — proto.Equal is an equivalence (model: `Pb.eqMsg`, `Pb.unknownEq`).
-/
namespace C30
open Pb
open Spec (Byte)

/-! ### unknown fields -/

theorem unknownEq_refl (x : List Byte) : unknownEq x x = true :=
  (unknownEq_spec x x).mpr ⟨rfl, Or.inl rfl⟩

theorem unknownEq_symm (x y : List Byte) (h : unknownEq x y = true) : unknownEq y x = true := by
  rw [unknownEq_spec] at *
  obtain ⟨hl, h⟩ := h
  refine ⟨hl.symm, ?_⟩
  rcases h with h | ⟨rx, ry, h1, h2, h3⟩
  · exact Or.inl h.symm
  · exact Or.inr ⟨ry, rx, h2, h1, fun n => (h3 n).symm⟩

theorem unknownEq_trans (x y z : List Byte) (h1 : unknownEq x y = true) (h2 : unknownEq y z = true) :
    unknownEq x z = true := by
  rw [unknownEq_spec] at *
  obtain ⟨hl1, h1⟩ := h1
  obtain ⟨hl2, h2⟩ := h2
  refine ⟨hl1.trans hl2, ?_⟩
  rcases h1 with h1 | ⟨rx, ry, a1, a2, a3⟩
  · subst h1; exact h2
  · rcases h2 with h2 | ⟨ry', rz, b1, b2, b3⟩
    · subst h2; exact Or.inr ⟨rx, ry, a1, a2, a3⟩
    · rw [a2] at b1
      cases b1
      exact Or.inr ⟨rx, rz, a1, b2, fun n => (a3 n).trans (b3 n)⟩

/-- **`unknownEq` characterised**: two well-formed unknown-field strings (`recsOf` = the sequence of
records `(number, raw bytes)`) are equal iff, for every field number, the concatenation of the raw
records of that number is the same — whatever the interleaving between different numbers -/
theorem unknownEq_iff (x y : List Byte) (rx ry : List (Nat × List Byte))
    (hx : recsOf x = some rx) (hy : recsOf y = some ry) :
    unknownEq x y = true ↔ ∀ n, unknownOf n rx = unknownOf n ry := by
  rw [unknownEq_spec]
  constructor
  · rintro ⟨_, h | ⟨rx', ry', h1, h2, h3⟩⟩
    · subst h; rw [hx] at hy; cases hy; intro n; rfl
    · rw [hx] at h1; rw [hy] at h2; cases h1; cases h2; exact h3
  · intro h
    refine ⟨?_, Or.inr ⟨rx, ry, hx, hy, h⟩⟩
    rw [recsOf_length hx, recsOf_length hy]
    exact totalLen_eq_of_unknownOf _ rx ry (Nat.le_refl _) h

/-- records of field 1 and field 2 interleaved differently: equal; the hypotheses are satisfiable -/
example : recsOf [0x08#8, 0x01#8, 0x10#8, 0x02#8] = some [(1, [0x08#8, 0x01#8]), (2, [0x10#8, 0x02#8])] ∧
    unknownEq [0x08#8, 0x01#8, 0x10#8, 0x02#8] [0x10#8, 0x02#8, 0x08#8, 0x01#8] = true ∧
    unknownEq [0x08#8, 0x01#8, 0x08#8, 0x02#8] [0x08#8, 0x02#8, 0x08#8, 0x01#8] = false := by
  decide

/-- malformed unknown bytes are equal only to themselves (bytes are lists: nil and empty coincide) -/
theorem unknownEq_malformed (x y : List Byte) (hx : recsOf x = none) :
    unknownEq x y = true ↔ x = y := by
  rw [unknownEq_spec]
  constructor
  · rintro ⟨_, h | ⟨rx, _, h1, _⟩⟩
    · exact h
    · rw [hx] at h1; cases h1
  · intro h; exact ⟨by rw [h], Or.inl h⟩

theorem unknownEq_nil : unknownEq [] [] = true := unknownEq_refl []

/-! ### transitivity — holds for ALL schemas and ALL message values, no hypothesis -/

theorem eqFields_get {S : Schema} {d : MsgD} {ys zs : Fields} {n : Nat} {fy : FVal}
    (h : eqFields S d ys zs = true) (hg : ys.get? n = some fy) :
    ∃ f fz, d.find n = some f ∧ zs.get? n = some fz ∧ eqFVal S f fy fz = true := by
  induction ys using Fields.ind with
  | nil => simp [Fields.get?] at hg
  | cons m fv tl ih =>
    rw [eqFields, Bool.and_eq_true] at h
    rw [Fields.get?_cons] at hg
    split at hg
    · rename_i hm
      subst hm
      cases hg
      have h1 := h.1
      split at h1
      · rename_i f fz hf hz
        exact ⟨f, fz, hf, hz, h1⟩
      · cases h1
    · exact ih h.2 hg

theorem eqMapVals_lookup {S : Schema} {ei : Nat} {ys zs : Vals} {k : Val} {ey : Msg}
    (h : eqMapVals S ei ys zs = true) (hl : lookupEntry ys k = some ey) :
    ∃ ez, lookupEntry zs k = some ez ∧ eqMsg S ei ey ez = true := by
  induction ys using Vals.ind with
  | nil => simp [lookupEntry] at hl
  | cons v tl ih =>
    rw [eqMapVals, Bool.and_eq_true] at h
    cases v with
    | msg e =>
      rw [lookupEntry_cons_msg] at hl
      split at hl
      · rename_i hk
        cases hl
        have h1 := h.1
        rw [eqMapVal] at h1
        rw [((entryHasKey_iff _ _).mp hk).1] at h1
        simp only at h1
        split at h1
        · rename_i ez hz
          exact ⟨ez, hz, h1⟩
        · cases h1
      · exact ih h.2 hl
    | num n => exact ih h.2 hl
    | bytes b => exact ih h.2 hl

mutual
theorem eqMsg_trans (S : Schema) : ∀ (x y z : Msg) (mi : Nat),
    eqMsg S mi x y = true → eqMsg S mi y z = true → eqMsg S mi x z = true
  | .mk xs xu, .mk ys yu, .mk zs zu, mi, h1, h2 => by
    simp only [eqMsg, Bool.and_eq_true, beq_iff_eq] at *
    exact ⟨⟨eqFields_trans S xs ys zs _ h1.1.1 h2.1.1, h1.1.2.trans h2.1.2⟩,
      unknownEq_trans _ _ _ h1.2 h2.2⟩
theorem eqFields_trans (S : Schema) : ∀ (xs ys zs : Fields) (d : MsgD),
    eqFields S d xs ys = true → eqFields S d ys zs = true → eqFields S d xs zs = true
  | .nil, _, _, _, _, _ => by simp [eqFields]
  | .cons n fx tl, ys, zs, d, h1, h2 => by
    rw [eqFields, Bool.and_eq_true] at h1 ⊢
    refine ⟨?_, eqFields_trans S tl ys zs d h1.2 h2⟩
    have h := h1.1
    split at h
    · rename_i f fy hf hy
      obtain ⟨f', fz, hf', hz, he⟩ := eqFields_get h2 hy
      rw [hf] at hf'
      cases hf'
      simp only [hf, hz]
      exact eqFVal_trans S fx fy fz f h he
    · cases h
theorem eqFVal_trans (S : Schema) : ∀ (x y z : FVal) (f : Field),
    eqFVal S f x y = true → eqFVal S f y z = true → eqFVal S f x z = true
  | .one a, .one b, .one c, f, h1, h2 => by
    simp only [eqFVal] at *
    exact eqVal_trans S a b c f h1 h2
  | .many as, .many bs, .many cs, f, h1, h2 => by
    simp only [eqFVal] at *
    split
    · rename_i hm
      simp only [hm, if_true, Bool.and_eq_true, beq_iff_eq] at h1 h2 ⊢
      exact ⟨eqMapVals_trans S as bs cs _ h1.1 h2.1, h1.2.trans h2.2⟩
    · rename_i hm
      simp only [hm, if_false] at h1 h2
      exact eqVals_trans S as bs cs f h1 h2
  | .one _, .many _, _, _, h1, _ => by simp [eqFVal] at h1
  | .many _, .one _, _, _, h1, _ => by simp [eqFVal] at h1
  | .one _, .one _, .many _, _, _, h2 => by simp [eqFVal] at h2
  | .many _, .many _, .one _, _, _, h2 => by simp [eqFVal] at h2
theorem eqVal_trans (S : Schema) : ∀ (x y z : Val) (f : Field),
    eqVal S f x y = true → eqVal S f y z = true → eqVal S f x z = true
  | .num a, .num b, .num c, f, h1, h2 => by
    simp only [eqVal] at *
    exact numEq_trans _ _ _ _ h1 h2
  | .bytes a, .bytes b, .bytes c, f, h1, h2 => by
    simp only [eqVal, beq_iff_eq] at *
    exact h1.trans h2
  | .msg a, .msg b, .msg c, f, h1, h2 => by
    simp only [eqVal] at *
    exact eqMsg_trans S a b c _ h1 h2
  | .num _, .bytes _, _, _, h1, _ => by simp [eqVal] at h1
  | .num _, .msg _, _, _, h1, _ => by simp [eqVal] at h1
  | .bytes _, .num _, _, _, h1, _ => by simp [eqVal] at h1
  | .bytes _, .msg _, _, _, h1, _ => by simp [eqVal] at h1
  | .msg _, .num _, _, _, h1, _ => by simp [eqVal] at h1
  | .msg _, .bytes _, _, _, h1, _ => by simp [eqVal] at h1
  | .num _, .num _, .bytes _, _, _, h2 => by simp [eqVal] at h2
  | .num _, .num _, .msg _, _, _, h2 => by simp [eqVal] at h2
  | .bytes _, .bytes _, .num _, _, _, h2 => by simp [eqVal] at h2
  | .bytes _, .bytes _, .msg _, _, _, h2 => by simp [eqVal] at h2
  | .msg _, .msg _, .num _, _, _, h2 => by simp [eqVal] at h2
  | .msg _, .msg _, .bytes _, _, _, h2 => by simp [eqVal] at h2
theorem eqVals_trans (S : Schema) : ∀ (xs ys zs : Vals) (f : Field),
    eqVals S f xs ys = true → eqVals S f ys zs = true → eqVals S f xs zs = true
  | .nil, .nil, .nil, _, _, _ => by simp [eqVals]
  | .cons a as, .cons b bs, .cons c cs, f, h1, h2 => by
    simp only [eqVals, Bool.and_eq_true] at *
    exact ⟨eqVal_trans S a b c f h1.1 h2.1, eqVals_trans S as bs cs f h1.2 h2.2⟩
  | .nil, .cons _ _, _, _, h1, _ => by simp [eqVals] at h1
  | .cons _ _, .nil, _, _, h1, _ => by simp [eqVals] at h1
  | .nil, .nil, .cons _ _, _, _, h2 => by simp [eqVals] at h2
  | .cons _ _, .cons _ _, .nil, _, _, h2 => by simp [eqVals] at h2
theorem eqMapVals_trans (S : Schema) : ∀ (xs ys zs : Vals) (ei : Nat),
    eqMapVals S ei xs ys = true → eqMapVals S ei ys zs = true → eqMapVals S ei xs zs = true
  | .nil, _, _, _, _, _ => by simp [eqMapVals]
  | .cons v tl, ys, zs, ei, h1, h2 => by
    rw [eqMapVals, Bool.and_eq_true] at h1 ⊢
    exact ⟨eqMapVal_trans S v ys zs ei h1.1 h2, eqMapVals_trans S tl ys zs ei h1.2 h2⟩
theorem eqMapVal_trans (S : Schema) : ∀ (x : Val) (ys zs : Vals) (ei : Nat),
    eqMapVal S ei x ys = true → eqMapVals S ei ys zs = true → eqMapVal S ei x zs = true
  | .msg e, ys, zs, ei, h1, h2 => by
    rw [eqMapVal] at h1 ⊢
    split at h1
    · rename_i k hk
      split at h1
      · rename_i ey hy
        obtain ⟨ez, hz, he⟩ := eqMapVals_lookup h2 hy
        rw [hz]
        exact eqMsg_trans S e ey ez ei h1 he
      · cases h1
    · cases h1
  | .num _, _, _, _, _, _ => by simp [eqMapVal]
  | .bytes _, _, _, _, _, _ => by simp [eqMapVal]
end

/-! ### reflexivity (including NaN and ±0: `numEq_refl`) on well-formed values -/

mutual
theorem eqMsg_refl (S : Schema) : ∀ (x : Msg) (mi : Nat), wfMsg S mi x = true → eqMsg S mi x x = true
  | .mk xs xu, mi, h => by
    simp only [eqMsg, Bool.and_eq_true, beq_iff_eq]
    rw [wfMsg] at h
    exact ⟨⟨eqFields_refl S xs xs _ h (fun _ _ h => h), trivial⟩, unknownEq_refl xu⟩
theorem eqFields_refl (S : Schema) : ∀ (xs ys : Fields) (d : MsgD), wfFields S d xs = true →
    (∀ n fv, xs.get? n = some fv → ys.get? n = some fv) → eqFields S d xs ys = true
  | .nil, _, _, _, _ => by simp [eqFields]
  | .cons n fx tl, ys, d, h, hsub => by
    rw [wfFields, Bool.and_eq_true, Bool.and_eq_true] at h
    rw [eqFields, Bool.and_eq_true]
    constructor
    · have hy := hsub n fx (by simp [Fields.get?_cons])
      have h1 := h.1.1
      split at h1
      · rename_i f hf
        simp only [hf, hy]
        exact eqFVal_refl S fx f h1
      · cases h1
    · refine eqFields_refl S tl ys d h.2 (fun m fv hm => hsub m fv ?_)
      rw [Fields.get?_cons]
      split
      · rename_i hnm
        subst hnm
        rw [hm] at h
        simp at h
      · exact hm
theorem eqFVal_refl (S : Schema) : ∀ (x : FVal) (f : Field), wfFVal S f x = true → eqFVal S f x x = true
  | .one a, f, h => by
    rw [wfFVal] at h
    rw [eqFVal]
    exact eqVal_refl S a f h
  | .many as, f, h => by
    rw [wfFVal] at h
    rw [eqFVal]
    split
    · rename_i hm
      simp only [hm, if_true] at h
      simp only [Bool.and_eq_true, beq_iff_eq, and_true]
      exact eqMapVals_refl S as as _ h (fun _ _ h => h)
    · rename_i hm
      simp only [hm, if_false] at h
      exact eqVals_refl S as f h
theorem eqVal_refl (S : Schema) : ∀ (x : Val) (f : Field), wfVal S f x = true → eqVal S f x x = true
  | .num a, f, _ => by simp only [eqVal]; exact numEq_refl _ _
  | .bytes a, f, _ => by simp [eqVal]
  | .msg a, f, h => by
    rw [wfVal] at h
    simp only [eqVal]
    exact eqMsg_refl S a _ h
theorem eqVals_refl (S : Schema) : ∀ (xs : Vals) (f : Field), wfVals S f xs = true → eqVals S f xs xs = true
  | .nil, _, _ => by simp [eqVals]
  | .cons a as, f, h => by
    rw [wfVals, Bool.and_eq_true] at h
    simp only [eqVals, Bool.and_eq_true]
    exact ⟨eqVal_refl S a f h.1, eqVals_refl S as f h.2⟩
theorem eqMapVals_refl (S : Schema) : ∀ (xs ys : Vals) (ei : Nat), wfEntries S ei xs = true →
    (∀ k e, lookupEntry xs k = some e → lookupEntry ys k = some e) → eqMapVals S ei xs ys = true
  | .nil, _, _, _, _ => by simp [eqMapVals]
  | .cons v tl, ys, ei, h, hsub => by
    rw [wfEntries, Bool.and_eq_true] at h
    rw [eqMapVals, Bool.and_eq_true]
    constructor
    · exact eqMapVal_refl S v tl ys ei h.1 hsub
    · refine eqMapVals_refl S tl ys ei h.2 (fun k e hl => hsub k e ?_)
      cases v with
      | msg e0 =>
        rw [lookupEntry_cons_msg]
        split
        · rename_i hk
          have h1 := h.1
          rw [wfEntry, Bool.and_eq_true, ((entryHasKey_iff _ _).mp hk).1] at h1
          simp only [Bool.and_eq_true] at h1
          rw [hl] at h1
          simp at h1
        · exact hl
      | num n => exact hl
      | bytes b => exact hl
theorem eqMapVal_refl (S : Schema) : ∀ (x : Val) (tl ys : Vals) (ei : Nat), wfEntry S ei tl x = true →
    (∀ k e, lookupEntry (.cons x tl) k = some e → lookupEntry ys k = some e) → eqMapVal S ei x ys = true
  | .msg e, tl, ys, ei, h, hsub => by
    rw [wfEntry, Bool.and_eq_true] at h
    rw [eqMapVal]
    have h1 := h.1
    split at h1
    · rename_i k hk
      rw [Bool.and_eq_true] at h1
      have := hsub k e (by
        rw [lookupEntry_cons_msg, (entryHasKey_iff _ _).mpr ⟨hk, h1.1⟩]; rfl)
      simp only [hk, this]
      exact eqMsg_refl S e ei h.2
    · cases h1
  | .num _, _, _, _, _, _ => by simp [eqMapVal]
  | .bytes _, _, _, _, _, _ => by simp [eqMapVal]
end

/-! ### symmetry on well-formed values (only the left argument needs to be well-formed) -/

theorem eqFields_iff_mem (S : Schema) (d : MsgD) (ys xs : Fields) :
    eqFields S d ys xs = true ↔ ∀ n fy, (n, fy) ∈ ys.toList →
      ∃ f fx, d.find n = some f ∧ xs.get? n = some fx ∧ eqFVal S f fy fx = true := by
  induction ys using Fields.ind with
  | nil => simp [eqFields, Fields.toList]
  | cons m y tl ih =>
    rw [eqFields, Bool.and_eq_true, ih]
    constructor
    · rintro ⟨h1, h2⟩ n fy hm
      simp only [Fields.toList, List.mem_cons, Prod.mk.injEq] at hm
      rcases hm with ⟨e1, e2⟩ | hm
      · subst e1; subst e2
        split at h1
        · rename_i f fx hf hx; exact ⟨f, fx, hf, hx, h1⟩
        · cases h1
      · exact h2 n fy hm
    · intro h
      constructor
      · obtain ⟨f, fx, hf, hx, he⟩ := h m y (by simp [Fields.toList])
        simp only [hf, hx, he]
      · intro n fy hm
        exact h n fy (by simp [Fields.toList, hm])

theorem eqMapVals_iff_mem (S : Schema) (ei : Nat) (ys xs : Vals) :
    eqMapVals S ei ys xs = true ↔ ∀ v ∈ ys.toList, eqMapVal S ei v xs = true := by
  induction ys using Vals.ind with
  | nil => simp [eqMapVals, Vals.toList]
  | cons y tl ih =>
    rw [eqMapVals, Bool.and_eq_true, ih]
    simp [Vals.toList]

/-- from "every field of `xs` has a counterpart in `ys` that is equal to it *from the right*"
to `eqFields ys xs` -/
theorem eqFields_flip (S : Schema) (d : MsgD) (xs ys : Fields) (hn : xs.nums.Nodup)
    (hl : xs.nums.length = ys.nums.length)
    (h : ∀ n fx, xs.get? n = some fx →
      ∃ f fy, d.find n = some f ∧ ys.get? n = some fy ∧ eqFVal S f fy fx = true) :
    eqFields S d ys xs = true := by
  rw [eqFields_iff_mem]
  let R : (Nat × FVal) → (Nat × FVal) → Prop := fun x y =>
    x.1 = y.1 ∧ ∃ f, d.find x.1 = some f ∧ eqFVal S f y.2 x.2 = true
  have hp := pigeonhole R xs.toList ys.toList (Fields.toList_nodup hn)
    (by rw [Fields.toList_length, Fields.toList_length, hl]; exact Nat.le_refl _)
    (by
      rintro ⟨n, fx⟩ hx
      obtain ⟨f, fy, hf, hy, he⟩ := h n fx (Fields.get?_of_mem hn hx)
      exact ⟨(n, fy), Fields.mem_of_get? hy, rfl, f, hf, he⟩)
    (by
      rintro ⟨n, fx⟩ hx ⟨n', fx'⟩ hx' ⟨m, fy⟩ ⟨e1, _⟩ ⟨e2, _⟩
      simp only at e1 e2
      subst e1; subst e2
      have a := Fields.get?_of_mem hn hx
      have b := Fields.get?_of_mem hn hx'
      rw [a] at b
      cases b
      rfl)
  intro n fy hm
  obtain ⟨⟨n', fx⟩, hx, e, f, hf, he⟩ := hp (n, fy) hm
  simp only at e hf he
  subst e
  exact ⟨f, fx, hf, Fields.get?_of_mem hn hx, he⟩

theorem eqMapVals_flip (S : Schema) (ei : Nat) (xs ys : Vals) (hw : wfEntries S ei xs = true)
    (hl : xs.toList.length = ys.toList.length)
    (h : ∀ k ex, lookupEntry xs k = some ex →
      ∃ ey, lookupEntry ys k = some ey ∧ eqMsg S ei ey ex = true) :
    eqMapVals S ei ys xs = true := by
  rw [eqMapVals_iff_mem]
  let R : Val → Val → Prop := fun x y =>
    ∃ ex ey k, x = .msg ex ∧ y = .msg ey ∧ lookupEntry xs k = some ex ∧
      lookupEntry ys k = some ey ∧ eqMsg S ei ey ex = true
  have hp := pigeonhole R xs.toList ys.toList (wfEntries_nodup hw) (by rw [hl]; exact Nat.le_refl _)
    (by
      intro x hx
      obtain ⟨e, k, hv, _, _, hlk, _⟩ := wfEntries_mem hw hx
      obtain ⟨ey, hy, he⟩ := h k e hlk
      exact ⟨.msg ey, lookupEntry_mem hy, e, ey, k, hv, rfl, hlk, hy, he⟩)
    (by
      rintro x _ x' _ y ⟨ex, ey, k, rfl, rfl, h1, h2, _⟩ ⟨ex', ey', k', rfl, e, h1', h2', _⟩
      cases e
      have a := (lookupEntry_key h2).1
      have b := (lookupEntry_key h2').1
      rw [a] at b
      cases b
      rw [h1] at h1'
      cases h1'
      rfl)
  intro v hv
  obtain ⟨x, _, ex, ey, k, rfl, rfl, h1, h2, he⟩ := hp v hv
  rw [eqMapVal, (lookupEntry_key h2).1]
  simp only [h1, he]

mutual
theorem eqMsg_symm (S : Schema) : ∀ (x y : Msg) (mi : Nat), wfMsg S mi x = true →
    eqMsg S mi x y = true → eqMsg S mi y x = true
  | .mk xs xu, .mk ys yu, mi, hw, h => by
    rw [wfMsg] at hw
    simp only [eqMsg, Bool.and_eq_true, beq_iff_eq] at h ⊢
    exact ⟨⟨eqFields_flip S _ xs ys (wfFields_nodup hw) h.1.2 (eqFields_symm S xs ys _ hw h.1.1),
      h.1.2.symm⟩, unknownEq_symm _ _ h.2⟩
theorem eqFields_symm (S : Schema) : ∀ (xs ys : Fields) (d : MsgD), wfFields S d xs = true →
    eqFields S d xs ys = true → ∀ n fx, xs.get? n = some fx →
      ∃ f fy, d.find n = some f ∧ ys.get? n = some fy ∧ eqFVal S f fy fx = true
  | .nil, _, _, _, _, _, _, hg => by simp [Fields.get?] at hg
  | .cons m fv tl, ys, d, hw, h, n, fx, hg => by
    rw [wfFields, Bool.and_eq_true, Bool.and_eq_true] at hw
    rw [eqFields, Bool.and_eq_true] at h
    rw [Fields.get?_cons] at hg
    split at hg
    · rename_i hm
      subst hm
      cases hg
      have h1 := h.1
      split at h1
      · rename_i f fy hf hy
        have hwv := hw.1.1
        rw [hf] at hwv
        exact ⟨f, fy, hf, hy, eqFVal_symm S fv fy f hwv h1⟩
      · cases h1
    · exact eqFields_symm S tl ys d hw.2 h.2 n fx hg
theorem eqFVal_symm (S : Schema) : ∀ (x y : FVal) (f : Field), wfFVal S f x = true →
    eqFVal S f x y = true → eqFVal S f y x = true
  | .one a, .one b, f, hw, h => by
    rw [wfFVal] at hw
    rw [eqFVal] at h ⊢
    exact eqVal_symm S a b f hw h
  | .many as, .many bs, f, hw, h => by
    rw [wfFVal] at hw
    rw [eqFVal] at h ⊢
    split
    · rename_i hm
      simp only [hm, if_true, Bool.and_eq_true, beq_iff_eq] at hw h ⊢
      exact ⟨eqMapVals_flip S _ as bs hw h.2 (eqMapVals_symm S as bs _ hw h.1), h.2.symm⟩
    · rename_i hm
      simp only [hm, if_false] at hw h
      exact eqVals_symm S as bs f hw h
  | .one _, .many _, _, _, h => by simp [eqFVal] at h
  | .many _, .one _, _, _, h => by simp [eqFVal] at h
theorem eqVal_symm (S : Schema) : ∀ (x y : Val) (f : Field), wfVal S f x = true →
    eqVal S f x y = true → eqVal S f y x = true
  | .num a, .num b, f, _, h => by
    simp only [eqVal] at h ⊢
    rw [numEq_symm]; exact h
  | .bytes a, .bytes b, f, _, h => by
    simp only [eqVal, beq_iff_eq] at h ⊢
    exact h.symm
  | .msg a, .msg b, f, hw, h => by
    rw [wfVal] at hw
    simp only [eqVal] at h ⊢
    exact eqMsg_symm S a b _ hw h
  | .num _, .bytes _, _, _, h => by simp [eqVal] at h
  | .num _, .msg _, _, _, h => by simp [eqVal] at h
  | .bytes _, .num _, _, _, h => by simp [eqVal] at h
  | .bytes _, .msg _, _, _, h => by simp [eqVal] at h
  | .msg _, .num _, _, _, h => by simp [eqVal] at h
  | .msg _, .bytes _, _, _, h => by simp [eqVal] at h
theorem eqVals_symm (S : Schema) : ∀ (xs ys : Vals) (f : Field), wfVals S f xs = true →
    eqVals S f xs ys = true → eqVals S f ys xs = true
  | .nil, .nil, _, _, _ => by simp [eqVals]
  | .cons a as, .cons b bs, f, hw, h => by
    rw [wfVals, Bool.and_eq_true] at hw
    simp only [eqVals, Bool.and_eq_true] at h ⊢
    exact ⟨eqVal_symm S a b f hw.1 h.1, eqVals_symm S as bs f hw.2 h.2⟩
  | .nil, .cons _ _, _, _, h => by simp [eqVals] at h
  | .cons _ _, .nil, _, _, h => by simp [eqVals] at h
theorem eqMapVals_symm (S : Schema) : ∀ (xs ys : Vals) (ei : Nat), wfEntries S ei xs = true →
    eqMapVals S ei xs ys = true → ∀ k ex, lookupEntry xs k = some ex →
      ∃ ey, lookupEntry ys k = some ey ∧ eqMsg S ei ey ex = true
  | .nil, _, _, _, _, _, _, hl => by simp [lookupEntry] at hl
  | .cons v tl, ys, ei, hw, h, k, ex, hl => by
    rw [wfEntries, Bool.and_eq_true] at hw
    rw [eqMapVals, Bool.and_eq_true] at h
    cases v with
    | msg e =>
      rw [lookupEntry_cons_msg] at hl
      split at hl
      · rename_i hk
        cases hl
        exact eqMapVal_symm S (.msg ex) tl ys ei hw.1 h.1 k ex rfl ((entryHasKey_iff _ _).mp hk).1
      · exact eqMapVals_symm S tl ys ei hw.2 h.2 k ex hl
    | num n => exact eqMapVals_symm S tl ys ei hw.2 h.2 k ex hl
    | bytes b => exact eqMapVals_symm S tl ys ei hw.2 h.2 k ex hl
theorem eqMapVal_symm (S : Schema) : ∀ (x : Val) (tl ys : Vals) (ei : Nat), wfEntry S ei tl x = true →
    eqMapVal S ei x ys = true → ∀ k ex, x = .msg ex → entryKey ex = some k →
      ∃ ey, lookupEntry ys k = some ey ∧ eqMsg S ei ey ex = true
  | .msg e, tl, ys, ei, hw, h, k, ex, hx, hk => by
    cases hx
    rw [wfEntry, Bool.and_eq_true] at hw
    rw [eqMapVal, hk] at h
    simp only at h
    split at h
    · rename_i ey hy
      exact ⟨ey, hy, eqMsg_symm S e ey ei hw.2 h⟩
    · cases h
  | .num _, _, _, _, _, _, _, _, hx, _ => by cases hx
  | .bytes _, _, _, _, _, _, _, _, hx, _ => by cases hx
end

/-! ### a message equals its clone (populated well-formed values) -/

mutual
theorem eqMsg_clone (S : Schema) : ∀ (m : Msg) (mi : Nat), pwfMsg S mi m = true →
    eqMsg S mi m (clone S mi m) = true
  | .mk fs unk, mi, h => by
    rw [pwfMsg] at h
    unfold clone
    rw [Msg.empty, mergeMsg_mk, eqMsg]
    simp only [Bool.and_eq_true, beq_iff_eq, List.nil_append]
    refine ⟨⟨?_, (nums_cloneFields_length S _ fs h).symm⟩, unknownEq_refl unk⟩
    refine eqFields_cloneAux S fs _ _ h (fun n fv f hg hf => ?_)
    rw [get?_cloneFields S _ fs h n, hg, hf]
theorem eqFields_cloneAux (S : Schema) : ∀ (fs R : Fields) (d : MsgD), pwfFields S d fs = true →
    (∀ n fv f, fs.get? n = some fv → d.find n = some f → R.get? n = some (cloneFVal S f fv)) →
    eqFields S d fs R = true
  | .nil, _, _, _, _ => by rw [eqFields]
  | .cons n fv tl, R, d, h, hR => by
    rw [pwfFields, Bool.and_eq_true, Bool.and_eq_true, Bool.and_eq_true] at h
    rw [eqFields, Bool.and_eq_true]
    constructor
    · have h1 := h.1.1.1
      split at h1
      · rename_i f hf
        have := hR n fv f (by rw [Fields.get?_cons]; simp) hf
        simp only [hf, this]
        exact eqFVal_clone S fv f h1
      · cases h1
    · refine eqFields_cloneAux S tl R d h.2 (fun m fv' f hg hf => hR m fv' f ?_ hf)
      rw [Fields.get?_cons]
      split
      · rename_i hnm
        subst hnm
        have := h.1.1.2
        rw [hg] at this
        cases this
      · exact hg
theorem eqFVal_clone (S : Schema) : ∀ (fv : FVal) (f : Field), pwfFVal S f fv = true →
    eqFVal S f fv (cloneFVal S f fv) = true
  | .one (.msg sm), f, h => by
    rw [pwfFVal, Bool.and_eq_true, pwfVal] at h
    rw [cloneFVal, eqFVal, eqVal]
    exact eqMsg_clone S sm f.sub h.1
  | .one (.num n), f, _ => by
    rw [cloneFVal, eqFVal, eqVal]
    · exact numEq_refl _ _
    · intro sm hh; cases hh
  | .one (.bytes b), f, _ => by
    rw [cloneFVal, eqFVal, eqVal]
    · exact beq_self_eq_true b
    · intro sm hh; cases hh
  | .many vs, f, h => by
    rw [pwfFVal, Bool.and_eq_true] at h
    rw [cloneFVal]
    by_cases hm : f.card = .map
    · simp only [hm, if_true] at h ⊢
      rw [eqFVal]
      simp only [hm, if_true, Bool.and_eq_true, beq_iff_eq]
      have hok := entriesOK_of_pwf h.2
      constructor
      · refine eqMapVals_cloneAux S vs _ f.sub h.2 (fun k e hl => ?_)
        rw [lookupEntry_mergeMapVals S f.sub vs .nil hok k, hl]
      · rw [mergeMapVals_length S f.sub vs .nil hok (fun _ _ _ => rfl)]
        simp [Vals.toList]
    · simp only [hm, if_false] at h ⊢
      rw [eqFVal]
      simp only [hm, if_false]
      exact eqVals_clone S vs f h.2
theorem eqVals_clone (S : Schema) : ∀ (vs : Vals) (f : Field), pwfVals S f vs = true →
    eqVals S f vs (cloneVals S f vs) = true
  | .nil, _, _ => by rw [cloneVals, eqVals]
  | .cons (.msg sm) tl, f, h => by
    rw [pwfVals, Bool.and_eq_true, pwfVal] at h
    rw [cloneVals, cloneVal, eqVals, Bool.and_eq_true, eqVal]
    exact ⟨eqMsg_clone S sm f.sub h.1, eqVals_clone S tl f h.2⟩
  | .cons (.num n) tl, f, h => by
    rw [pwfVals, Bool.and_eq_true] at h
    rw [cloneVals, cloneVal, eqVals, Bool.and_eq_true, eqVal]
    · exact ⟨numEq_refl _ _, eqVals_clone S tl f h.2⟩
    · intro sm hh; cases hh
  | .cons (.bytes b) tl, f, h => by
    rw [pwfVals, Bool.and_eq_true] at h
    rw [cloneVals, cloneVal, eqVals, Bool.and_eq_true, eqVal]
    · exact ⟨beq_self_eq_true b, eqVals_clone S tl f h.2⟩
    · intro sm hh; cases hh
theorem eqMapVals_cloneAux (S : Schema) : ∀ (vs R : Vals) (ei : Nat), pwfEntries S ei vs = true →
    (∀ k e, lookupEntry vs k = some e → lookupEntry R k = some (clone S ei e)) →
    eqMapVals S ei vs R = true
  | .nil, _, _, _, _ => by rw [eqMapVals]
  | .cons (.msg e) tl, R, ei, h, hR => by
    obtain ⟨e', k, he, hk, hs, hl, hw, htl⟩ := pwfEntries_cons_msg h
    cases he
    have hke : entryHasKey e k = true := (entryHasKey_iff _ _).mpr ⟨hk, hs⟩
    rw [eqMapVals, Bool.and_eq_true, eqMapVal]
    constructor
    · have := hR k e (by rw [lookupEntry_cons_msg, hke]; rfl)
      simp only [hk, this]
      exact eqMsg_clone S e ei hw
    · refine eqMapVals_cloneAux S tl R ei htl (fun k' e' hl' => hR k' e' ?_)
      rw [lookupEntry_cons_msg]
      split
      · rename_i hh
        have := ((entryHasKey_iff _ _).mp hh).1
        rw [hk] at this
        cases this
        rw [hl] at hl'
        cases hl'
      · exact hl'
  | .cons (.num n) tl, _, _, h, _ => by
    obtain ⟨e', _, he, _⟩ := pwfEntries_cons_msg h
    cases he
  | .cons (.bytes b) tl, _, _, h, _ => by
    obtain ⟨e', _, he, _⟩ := pwfEntries_cons_msg h
    cases he
end

/-! ### the hypotheses are satisfiable, and they are needed -/

example : pwfMsg Ex.S0 0 Ex.m0 = true ∧ wfMsg Ex.S0 0 Ex.m0 = true := by decide
/-- NaN in field 2, out-of-order fields, map, unknown bytes: equal to itself and to its clone -/
example : eqMsg Ex.S0 0 Ex.m0 Ex.m0 = true := eqMsg_refl _ _ _ (by decide)
example : eqMsg Ex.S0 0 Ex.m0 (clone Ex.S0 0 Ex.m0) = true := eqMsg_clone _ _ _ (by decide)

/-- reflexivity fails for a field the descriptor does not declare -/
theorem eqMsg_refl_needs_declared :
    eqMsg ⟨[⟨[]⟩]⟩ 0 (.mk (.cons 1 (.one (.num 0)) .nil) []) (.mk (.cons 1 (.one (.num 0)) .nil) []) = false := by
  decide

def S1 : Schema := ⟨[⟨[{ num := 1, kind := .int32, card := .optional },
                       { num := 2, kind := .int32, card := .optional },
                       { num := 3, kind := .message, card := .map, sub := 1 }]⟩,
                     ⟨[{ num := 1, kind := .int32, card := .optional },
                       { num := 2, kind := .int32, card := .optional }]⟩]⟩
def one (n : Nat) : FVal := .one (.num n)
def ent (k v : Nat) : Val := .msg (.mk (.cons 1 (one k) (.cons 2 (one v) .nil)) [])

/-- reflexivity fails when a field number occurs twice -/
theorem eqMsg_refl_needs_distinct :
    let m : Msg := .mk (.cons 1 (one 1) (.cons 1 (one 2) .nil)) []
    eqMsg S1 0 m m = false := by decide

/-- symmetry fails when a field number occurs twice in the left message -/
theorem eqMsg_symm_needs_distinct :
    let x : Msg := .mk (.cons 1 (one 1) (.cons 1 (one 1) .nil)) []
    let y : Msg := .mk (.cons 1 (one 1) (.cons 2 (one 2) .nil)) []
    eqMsg S1 0 x y = true ∧ eqMsg S1 0 y x = false := by decide

/-- symmetry fails when a map key occurs twice in the left message -/
theorem eqMsg_symm_needs_distinct_keys :
    let x : Msg := .mk (.cons 3 (.many (.cons (ent 1 1) (.cons (ent 1 1) .nil))) .nil) []
    let y : Msg := .mk (.cons 3 (.many (.cons (ent 1 1) (.cons (ent 2 2) .nil))) .nil) []
    eqMsg S1 0 x y = true ∧ eqMsg S1 0 y x = false := by decide

/-- `eqMsg_clone` fails for an unpopulated (empty) list held as a field value: `clone` drops it -/
theorem eqMsg_clone_needs_populated :
    let m : Msg := .mk (.cons 1 (.many .nil) .nil) []
    wfMsg S1 0 m = true ∧ eqMsg S1 0 m (clone S1 0 m) = false := by decide

end C30
