import PbVerif.Lemmas.MsgAlg
/-
C30 — proto.Equal is an equivalence (model: `Pb.eqMsg`, `Pb.unknownEq`).
-/
namespace C30
open Pb
open Spec (Byte)

/-! ### unknown fields -/

theorem unknownEq_refl (x : List Byte) : unknownEq x x = true :=
  (unknownEq_spec x x).mpr ⟨rfl, Or.inl rfl⟩

theorem unknownEq_symm (x y : List Byte) (h : unknownEq x y = true) : unknownEq y x = true := by
  rw [unknownEq_spec] at *
  obtain ⟨hl, h⟩ := h
  refine ⟨hl.symm, ?_⟩
  rcases h with h | ⟨rx, ry, h1, h2, h3⟩
  · exact Or.inl h.symm
  · exact Or.inr ⟨ry, rx, h2, h1, fun n => (h3 n).symm⟩

theorem unknownEq_trans (x y z : List Byte) (h1 : unknownEq x y = true) (h2 : unknownEq y z = true) :
    unknownEq x z = true := by
  rw [unknownEq_spec] at *
  obtain ⟨hl1, h1⟩ := h1
  obtain ⟨hl2, h2⟩ := h2
  refine ⟨hl1.trans hl2, ?_⟩
  rcases h1 with h1 | ⟨rx, ry, a1, a2, a3⟩
  · subst h1; exact h2
  · rcases h2 with h2 | ⟨ry', rz, b1, b2, b3⟩
    · subst h2; exact Or.inr ⟨rx, ry, a1, a2, a3⟩
    · rw [a2] at b1
      cases b1
      exact Or.inr ⟨rx, rz, a1, b2, fun n => (a3 n).trans (b3 n)⟩

/-! ### transitivity — holds for ALL schemas and ALL message values, no hypothesis -/

theorem eqFields_get {S : Schema} {d : MsgD} {ys zs : Fields} {n : Nat} {fy : FVal}
    (h : eqFields S d ys zs = true) (hg : ys.get? n = some fy) :
    ∃ f fz, d.find n = some f ∧ zs.get? n = some fz ∧ eqFVal S f fy fz = true := by
  induction ys using Fields.ind with
  | nil => simp [Fields.get?] at hg
  | cons m fv tl ih =>
    rw [eqFields, Bool.and_eq_true] at h
    rw [Fields.get?_cons] at hg
    split at hg
    · rename_i hm
      subst hm
      cases hg
      have h1 := h.1
      split at h1
      · rename_i f fz hf hz
        exact ⟨f, fz, hf, hz, h1⟩
      · cases h1
    · exact ih h.2 hg

theorem eqMapVals_lookup {S : Schema} {ei : Nat} {ys zs : Vals} {k : Val} {ey : Msg}
    (h : eqMapVals S ei ys zs = true) (hl : lookupEntry ys k = some ey) :
    ∃ ez, lookupEntry zs k = some ez ∧ eqMsg S ei ey ez = true := by
  induction ys using Vals.ind with
  | nil => simp [lookupEntry] at hl
  | cons v tl ih =>
    rw [eqMapVals, Bool.and_eq_true] at h
    cases v with
    | msg e =>
      rw [lookupEntry_cons_msg] at hl
      split at hl
      · rename_i hk
        cases hl
        have h1 := h.1
        rw [eqMapVal] at h1
        rw [((entryHasKey_iff _ _).mp hk).1] at h1
        simp only at h1
        split at h1
        · rename_i ez hz
          exact ⟨ez, hz, h1⟩
        · cases h1
      · exact ih h.2 hl
    | num n => exact ih h.2 hl
    | bytes b => exact ih h.2 hl

mutual
theorem eqMsg_trans (S : Schema) : ∀ (x y z : Msg) (mi : Nat),
    eqMsg S mi x y = true → eqMsg S mi y z = true → eqMsg S mi x z = true
  | .mk xs xu, .mk ys yu, .mk zs zu, mi, h1, h2 => by
    simp only [eqMsg, Bool.and_eq_true, beq_iff_eq] at *
    exact ⟨⟨eqFields_trans S xs ys zs _ h1.1.1 h2.1.1, h1.1.2.trans h2.1.2⟩,
      unknownEq_trans _ _ _ h1.2 h2.2⟩
theorem eqFields_trans (S : Schema) : ∀ (xs ys zs : Fields) (d : MsgD),
    eqFields S d xs ys = true → eqFields S d ys zs = true → eqFields S d xs zs = true
  | .nil, _, _, _, _, _ => by simp [eqFields]
  | .cons n fx tl, ys, zs, d, h1, h2 => by
    rw [eqFields, Bool.and_eq_true] at h1 ⊢
    refine ⟨?_, eqFields_trans S tl ys zs d h1.2 h2⟩
    have h := h1.1
    split at h
    · rename_i f fy hf hy
      obtain ⟨f', fz, hf', hz, he⟩ := eqFields_get h2 hy
      rw [hf] at hf'
      cases hf'
      simp only [hf, hz]
      exact eqFVal_trans S fx fy fz f h he
    · cases h
theorem eqFVal_trans (S : Schema) : ∀ (x y z : FVal) (f : Field),
    eqFVal S f x y = true → eqFVal S f y z = true → eqFVal S f x z = true
  | .one a, .one b, .one c, f, h1, h2 => by
    simp only [eqFVal] at *
    exact eqVal_trans S a b c f h1 h2
  | .many as, .many bs, .many cs, f, h1, h2 => by
    simp only [eqFVal] at *
    split
    · rename_i hm
      simp only [hm, if_true, Bool.and_eq_true, beq_iff_eq] at h1 h2 ⊢
      exact ⟨eqMapVals_trans S as bs cs _ h1.1 h2.1, h1.2.trans h2.2⟩
    · rename_i hm
      simp only [hm, if_false] at h1 h2
      exact eqVals_trans S as bs cs f h1 h2
  | .one _, .many _, _, _, h1, _ => by simp [eqFVal] at h1
  | .many _, .one _, _, _, h1, _ => by simp [eqFVal] at h1
  | .one _, .one _, .many _, _, _, h2 => by simp [eqFVal] at h2
  | .many _, .many _, .one _, _, _, h2 => by simp [eqFVal] at h2
theorem eqVal_trans (S : Schema) : ∀ (x y z : Val) (f : Field),
    eqVal S f x y = true → eqVal S f y z = true → eqVal S f x z = true
  | .num a, .num b, .num c, f, h1, h2 => by
    simp only [eqVal] at *
    exact numEq_trans _ _ _ _ h1 h2
  | .bytes a, .bytes b, .bytes c, f, h1, h2 => by
    simp only [eqVal, beq_iff_eq] at *
    exact h1.trans h2
  | .msg a, .msg b, .msg c, f, h1, h2 => by
    simp only [eqVal] at *
    exact eqMsg_trans S a b c _ h1 h2
  | .num _, .bytes _, _, _, h1, _ => by simp [eqVal] at h1
  | .num _, .msg _, _, _, h1, _ => by simp [eqVal] at h1
  | .bytes _, .num _, _, _, h1, _ => by simp [eqVal] at h1
  | .bytes _, .msg _, _, _, h1, _ => by simp [eqVal] at h1
  | .msg _, .num _, _, _, h1, _ => by simp [eqVal] at h1
  | .msg _, .bytes _, _, _, h1, _ => by simp [eqVal] at h1
  | .num _, .num _, .bytes _, _, _, h2 => by simp [eqVal] at h2
  | .num _, .num _, .msg _, _, _, h2 => by simp [eqVal] at h2
  | .bytes _, .bytes _, .num _, _, _, h2 => by simp [eqVal] at h2
  | .bytes _, .bytes _, .msg _, _, _, h2 => by simp [eqVal] at h2
  | .msg _, .msg _, .num _, _, _, h2 => by simp [eqVal] at h2
  | .msg _, .msg _, .bytes _, _, _, h2 => by simp [eqVal] at h2
theorem eqVals_trans (S : Schema) : ∀ (xs ys zs : Vals) (f : Field),
    eqVals S f xs ys = true → eqVals S f ys zs = true → eqVals S f xs zs = true
  | .nil, .nil, .nil, _, _, _ => by simp [eqVals]
  | .cons a as, .cons b bs, .cons c cs, f, h1, h2 => by
    simp only [eqVals, Bool.and_eq_true] at *
    exact ⟨eqVal_trans S a b c f h1.1 h2.1, eqVals_trans S as bs cs f h1.2 h2.2⟩
  | .nil, .cons _ _, _, _, h1, _ => by simp [eqVals] at h1
  | .cons _ _, .nil, _, _, h1, _ => by simp [eqVals] at h1
  | .nil, .nil, .cons _ _, _, _, h2 => by simp [eqVals] at h2
  | .cons _ _, .cons _ _, .nil, _, _, h2 => by simp [eqVals] at h2
theorem eqMapVals_trans (S : Schema) : ∀ (xs ys zs : Vals) (ei : Nat),
    eqMapVals S ei xs ys = true → eqMapVals S ei ys zs = true → eqMapVals S ei xs zs = true
  | .nil, _, _, _, _, _ => by simp [eqMapVals]
  | .cons v tl, ys, zs, ei, h1, h2 => by
    rw [eqMapVals, Bool.and_eq_true] at h1 ⊢
    exact ⟨eqMapVal_trans S v ys zs ei h1.1 h2, eqMapVals_trans S tl ys zs ei h1.2 h2⟩
theorem eqMapVal_trans (S : Schema) : ∀ (x : Val) (ys zs : Vals) (ei : Nat),
    eqMapVal S ei x ys = true → eqMapVals S ei ys zs = true → eqMapVal S ei x zs = true
  | .msg e, ys, zs, ei, h1, h2 => by
    rw [eqMapVal] at h1 ⊢
    split at h1
    · rename_i k hk
      split at h1
      · rename_i ey hy
        obtain ⟨ez, hz, he⟩ := eqMapVals_lookup h2 hy
        rw [hz]
        exact eqMsg_trans S e ey ez ei h1 he
      · cases h1
    · cases h1
  | .num _, _, _, _, _, _ => by simp [eqMapVal]
  | .bytes _, _, _, _, _, _ => by simp [eqMapVal]
end

/-! ### reflexivity (including NaN and ±0: `numEq_refl`) on well-formed values -/

mutual
theorem eqMsg_refl (S : Schema) : ∀ (x : Msg) (mi : Nat), wfMsg S mi x = true → eqMsg S mi x x = true
  | .mk xs xu, mi, h => by
    simp only [eqMsg, Bool.and_eq_true, beq_iff_eq]
    rw [wfMsg] at h
    exact ⟨⟨eqFields_refl S xs xs _ h (fun _ _ h => h), trivial⟩, unknownEq_refl xu⟩
theorem eqFields_refl (S : Schema) : ∀ (xs ys : Fields) (d : MsgD), wfFields S d xs = true →
    (∀ n fv, xs.get? n = some fv → ys.get? n = some fv) → eqFields S d xs ys = true
  | .nil, _, _, _, _ => by simp [eqFields]
  | .cons n fx tl, ys, d, h, hsub => by
    rw [wfFields, Bool.and_eq_true, Bool.and_eq_true] at h
    rw [eqFields, Bool.and_eq_true]
    constructor
    · have hy := hsub n fx (by simp [Fields.get?_cons])
      have h1 := h.1.1
      split at h1
      · rename_i f hf
        simp only [hf, hy]
        exact eqFVal_refl S fx f h1
      · cases h1
    · refine eqFields_refl S tl ys d h.2 (fun m fv hm => hsub m fv ?_)
      rw [Fields.get?_cons]
      split
      · rename_i hnm
        subst hnm
        rw [hm] at h
        simp at h
      · exact hm
theorem eqFVal_refl (S : Schema) : ∀ (x : FVal) (f : Field), wfFVal S f x = true → eqFVal S f x x = true
  | .one a, f, h => by
    rw [wfFVal] at h
    rw [eqFVal]
    exact eqVal_refl S a f h
  | .many as, f, h => by
    rw [wfFVal] at h
    rw [eqFVal]
    split
    · rename_i hm
      simp only [hm, if_true] at h
      simp only [Bool.and_eq_true, beq_iff_eq, and_true]
      exact eqMapVals_refl S as as _ h (fun _ _ h => h)
    · rename_i hm
      simp only [hm, if_false] at h
      exact eqVals_refl S as f h
theorem eqVal_refl (S : Schema) : ∀ (x : Val) (f : Field), wfVal S f x = true → eqVal S f x x = true
  | .num a, f, _ => by simp only [eqVal]; exact numEq_refl _ _
  | .bytes a, f, _ => by simp [eqVal]
  | .msg a, f, h => by
    rw [wfVal] at h
    simp only [eqVal]
    exact eqMsg_refl S a _ h
theorem eqVals_refl (S : Schema) : ∀ (xs : Vals) (f : Field), wfVals S f xs = true → eqVals S f xs xs = true
  | .nil, _, _ => by simp [eqVals]
  | .cons a as, f, h => by
    rw [wfVals, Bool.and_eq_true] at h
    simp only [eqVals, Bool.and_eq_true]
    exact ⟨eqVal_refl S a f h.1, eqVals_refl S as f h.2⟩
theorem eqMapVals_refl (S : Schema) : ∀ (xs ys : Vals) (ei : Nat), wfEntries S ei xs = true →
    (∀ k e, lookupEntry xs k = some e → lookupEntry ys k = some e) → eqMapVals S ei xs ys = true
  | .nil, _, _, _, _ => by simp [eqMapVals]
  | .cons v tl, ys, ei, h, hsub => by
    rw [wfEntries, Bool.and_eq_true] at h
    rw [eqMapVals, Bool.and_eq_true]
    constructor
    · exact eqMapVal_refl S v tl ys ei h.1 hsub
    · refine eqMapVals_refl S tl ys ei h.2 (fun k e hl => hsub k e ?_)
      cases v with
      | msg e0 =>
        rw [lookupEntry_cons_msg]
        split
        · rename_i hk
          have h1 := h.1
          rw [wfEntry, Bool.and_eq_true, ((entryHasKey_iff _ _).mp hk).1] at h1
          simp only [Bool.and_eq_true] at h1
          rw [hl] at h1
          simp at h1
        · exact hl
      | num n => exact hl
      | bytes b => exact hl
theorem eqMapVal_refl (S : Schema) : ∀ (x : Val) (tl ys : Vals) (ei : Nat), wfEntry S ei tl x = true →
    (∀ k e, lookupEntry (.cons x tl) k = some e → lookupEntry ys k = some e) → eqMapVal S ei x ys = true
  | .msg e, tl, ys, ei, h, hsub => by
    rw [wfEntry, Bool.and_eq_true] at h
    rw [eqMapVal]
    have h1 := h.1
    split at h1
    · rename_i k hk
      rw [Bool.and_eq_true] at h1
      have := hsub k e (by
        rw [lookupEntry_cons_msg, (entryHasKey_iff _ _).mpr ⟨hk, h1.1⟩]; rfl)
      simp only [hk, this]
      exact eqMsg_refl S e ei h.2
    · cases h1
  | .num _, _, _, _, _, _ => by simp [eqMapVal]
  | .bytes _, _, _, _, _, _ => by simp [eqMapVal]
end

end C30
