import PbVerif.Lemmas.Range
/-!
# C32 — protorange visits every populated value exactly once

Statements about `Model.Range.range o m` — the model of `protorange.Options{Stable: true}.Range`
written function by function from `reflect/protorange/range.go` — for ALL message trees `m` and
ALL callback oracles `o : Nat → Res` (`o i` = what the `i`-th callback invocation returns,
pushes and pops counted together).

What the code guarantees, as read and as proved here:

* every push is followed by its pop, properly nested, *whatever* the callbacks return — also under
  Terminate and under errors (`events_balanced`);
* for every oracle the events are a "prefix walk" of the populated-value tree: below every visited
  value a prefix of its children is visited, each at most once, in order (`events_prefix_walk`);
* when the callbacks always return nil, the pushes are exactly the pre-order of the populated
  values (fields in number order, then the unknown set if non-empty; list elements; map entries in
  key order; for a resolvable Any only the expanded body) and the pops their post-order
  (`visited_eq_preorder`);
* the value reported with a step is that step applied to the value below it on the stack
  (`step_consistent`);
* Terminate or an error returned by callback `k`: the events are the first `k+1` events of the
  undisturbed traversal followed by exactly the pending pops (`terminate_prefix`);
* Break returned by callback `k`, **as coded** (and as `range_test.go` expects): from a push it
  skips the children of that value *and all later siblings of that value*; from a pop it skips all
  later siblings; the traversal then resumes after the parent (`break_skips`).  The sentence
  "[Break] has no effect when traversing values that are not composite types" in the Go doc is
  looser than the code: Break on a scalar field ends the iteration over the remaining fields.
-/
namespace C32
open Model.Range

/-- The events of the traversal that no callback disturbs. -/
abbrev full (m : Msg) : List Event := (range Oracle.cont m).1

private theorem range_fst (o : Oracle) (m : Msg) : (range o m).1 = (walkTree o (treeOf m)).1 := by
  rw [range_eq_walk]

private theorem range_snd (o : Oracle) (m : Msg) :
    (range o m).2 = (if (walkTree o (treeOf m)).2 = .brk ∨ (walkTree o (treeOf m)).2 = .term then .ok
      else (walkTree o (treeOf m)).2) := by
  rw [range_eq_walk]

/-- **Prefix walk, every oracle.**  The first event pushes the Root step with the message, the last
event pops it, and in between (`w`) lies a prefix walk of the populated-value forest of `m`
(`Trace`: a prefix of the children of each visited value, each as push · inner events · pop). -/
theorem events_prefix_walk (o : Oracle) (m : Msg) :
    ∃ w, (range o m).1 = Event.push (.root m.ty) (.msg m) :: (w ++ [Event.pop (.root m.ty) (.msg m)]) ∧
      Trace (kidsMsg m) w := by
  rw [range_fst, treeOf]
  exact walkTree_inner o _ _ _

/-- **Balanced, every oracle** — also under Break, Terminate and errors no pop is skipped:
the event sequence is a Dyck word whose matching push and pop carry the same step and value,
and it is one single Root block. -/
theorem events_balanced (o : Oracle) (m : Msg) :
    Dyck (range o m).1 ∧
    ∃ w, (range o m).1 = Event.push (.root m.ty) (.msg m) :: (w ++ [Event.pop (.root m.ty) (.msg m)]) ∧
      Dyck w := by
  obtain ⟨w, hw, ht⟩ := events_prefix_walk o m
  exact ⟨by rw [hw]; exact Dyck.node ht.dyck, w, hw, ht.dyck⟩

/-- The same with the stack machine: replaying the events on an empty stack succeeds (every pop
matches the last open push) and leaves the stack empty. -/
theorem events_balanced_exec (o : Oracle) (m : Msg) : exec [] (range o m).1 = some [] :=
  (events_balanced o m).1.exec []

/-- **Every populated value exactly once.**  With callbacks that always return nil the pushes are
the Root step followed by the pre-order listing of the populated values of `m`, the pops are the
post-order listing, and Range returns nil. -/
theorem visited_eq_preorder (m : Msg) :
    pushes (full m) = (Step.root m.ty, Val.msg m) :: preMsg m ∧
    pops (full m) = postKids (kidsMsg m) ++ [(Step.root m.ty, Val.msg m)] ∧
    (range Oracle.cont m).2 = .ok := by
  refine ⟨?_, ?_, ?_⟩
  · rw [full, range_fst, contTree_pushes, treeOf, preTree, preKids_kidsMsg]
  · rw [full, range_fst, contTree_pops, treeOf, postTree]
  · rw [range_snd, contTree_snd]; simp

/-- **Exactly once, as addresses.**  In a well-formed tree every populated value has its own path
(`pathsTree`, the step sequences from Root), and without control actions the paths reported by the
pushes (`pushPaths` replays the stack) are exactly these paths, each once. -/
theorem each_value_once (m : Msg) (hwf : wfMsg m = true) :
    pushPaths [] (full m) = pathsTree [] (treeOf m) ∧ (pushPaths [] (full m)).Nodup := by
  have h : pushPaths [] (full m) = pathsTree [] (treeOf m) := by
    have := contTree_pushPaths [] (treeOf m) []
    simpa [full, range_fst, pushPaths] using this
  refine ⟨h, ?_⟩
  rw [h]
  exact pathsTree_nodup [] (treeOf m) (by simpa [treeOf, DistinctTree] using distinctMsg m hwf)

/-- **At most once, every oracle.**  Whatever the callbacks answer, the paths reported by the pushes
are a subsequence of the paths of the undisturbed traversal, hence (well-formed tree) pairwise
different: no value is ever visited twice and none is invented. -/
theorem never_twice (o : Oracle) (m : Msg) (hwf : wfMsg m = true) :
    (pushPaths [] (range o m).1).Sublist (pushPaths [] (full m)) ∧
    (pushPaths [] (range o m).1).Nodup := by
  have hsub : (pushPaths [] (range o m).1).Sublist (pushPaths [] (full m)) := by
    obtain ⟨w, hw, ht⟩ := events_prefix_walk o m
    obtain ⟨l, hl, he⟩ := ht.pushPaths_sublist [Step.root m.ty] [Event.pop (.root m.ty) (.msg m)]
    rw [(each_value_once m hwf).1, hw, treeOf]
    simp only [pushPaths, pathsTree, List.nil_append]
    rw [he]
    simpa [pushPaths] using List.Sublist.cons_cons [Step.root m.ty] hl
  exact ⟨hsub, hsub.nodup (each_value_once m hwf).2⟩

/-- Every callback is made: two events per populated value (plus Root). -/
theorem full_length (m : Msg) : (full m).length = 2 * (1 + (preMsg m).length) := by
  have h1 := (visited_eq_preorder m).1
  have h2 : ∀ w : List Event, Dyck w → w.length = 2 * (pushes w).length := by
    intro w hw
    induction hw with
    | nil => rfl
    | node _ ih => simp [pushes, pushes_append, ih]; omega
    | append _ _ iha ihb => simp [pushes_append, iha, ihb]; omega
  rw [h2 _ (events_balanced Oracle.cont m).1, h1]
  simp only [List.length_cons]
  omega

/-- **Step consistency, every oracle.**  For a well-formed tree (field numbers and map keys
strictly ascending — what `Stable: true` presents) replaying the events against the value stack
succeeds: the first push is `Root` with `m`, every other push reports `applyStep parent step`,
every pop reports what was pushed, and the stack ends empty. -/
theorem step_consistent (o : Oracle) (m : Msg) (hwf : wfMsg m = true) :
    StackOK m [] (range o m).1 := by
  obtain ⟨w, hw, ht⟩ := events_prefix_walk o m
  rw [hw]
  exact StackOK.root (ht.stackOK (m := m) (.root m.ty, .msg m) [] _ (cohMsg m hwf) (StackOK.pop StackOK.done))

/-- Range returns nil or an error that some callback returned; never Break or Terminate. -/
theorem result_from_callbacks (o : Oracle) (m : Msg) :
    (range o m).2 = .ok ∨ ∃ c i, o i = .err c ∧ (range o m).2 = .err c := by
  rw [range_snd]
  rcases walkTree_fromOracle o (treeOf m) with h | ⟨i, hi⟩
  · left; simp [h]
  · cases hr : (walkTree o (treeOf m)).2 with
    | ok => simp
    | brk => simp
    | term => simp
    | err c => right; exact ⟨c, i, by rw [hi, hr], by simp⟩

/-- **Every oracle: Range returns the last error a callback returned** (`amendError`: a later
non-nil error replaces an earlier one), and nil when no callback that was actually invoked
returned an error — Break and Terminate never leak out. -/
theorem result_is_last_error (o : Oracle) (m : Msg) :
    (range o m).2 = (match lastErr (answers o (range o m).1.length) with
      | some c => .err c
      | none => .ok) := by
  rw [range_fst, range_snd, ← walkTree_lastErr]
  cases (walkTree o (treeOf m)).2 <;> simp [Res.errCode]

/-- **Every oracle: Terminate or an error stops the traversal.**  Whatever the other callbacks
answer, after a callback that answered Terminate or an error no further push is made: all later
events are pops (the pending ones, since the whole sequence is balanced). -/
theorem hard_answer_stops (o : Oracle) (m : Msg) (k : Nat) (hk : k < (range o m).1.length)
    (hh : (o k).Hard) : ((range o m).1.drop (k + 1)).all Event.isPop = true := by
  rw [range_fst] at hk ⊢
  exact (walkTree_hard o k (treeOf m) hk hh).1

/-- A traversal whose callbacks return nil as long as they are asked is the undisturbed one. -/
theorem undisturbed (o : Oracle) (m : Msg) (h : ∀ i, i < (full m).length → o i = .ok) :
    range o m = range Oracle.cont m := by
  have : walkTree o (treeOf m) = walkTree Oracle.cont (treeOf m) :=
    walkTree_eq_cont o _ (by simpa [full, range_fst] using h)
  rw [range_eq_walk, range_eq_walk, this]

/-- **Terminate / error at callback `k`.**  If the callbacks return nil before invocation `k` and
Terminate or an error at invocation `k` (anything afterwards), then the events are the first
`k+1` events of the undisturbed traversal followed by `c`, where `c` consists of pops only and is
exactly the list of pending pops (innermost first); Range returns nil or a callback's error. -/
theorem terminate_prefix (o : Oracle) (m : Msg) (k : Nat) (hs : StopsAt o k)
    (hk : k < (full m).length) :
    (range o m).1 = (full m).take (k + 1) ++
        (pending [] ((full m).take (k + 1))).map (fun sv => Event.pop sv.1 sv.2) ∧
    ((range o m).2 = .ok ∨ ∃ c i, o i = .err c ∧ (range o m).2 = .err c) := by
  refine ⟨?_, result_from_callbacks o m⟩
  obtain ⟨p, q, c, hfull, hlen, hev, hc, _⟩ :=
    walkTree_stop o k (treeOf m) hs (by simpa [full, range_fst] using hk)
  have htake : (full m).take (k + 1) = p := by
    rw [full, range_fst, hfull, ← hlen]; simp
  have hd : Dyck (p ++ c) := by
    rw [← hev, ← range_fst]; exact (events_balanced o m).1
  rw [htake, range_fst, hev, ← closers_unique hd hc]

/-- The result of the previous theorem when callback `k` returns Terminate and no callback ever
returns an error: Range returns nil. -/
theorem terminate_returns_nil (o : Oracle) (m : Msg) (hne : ∀ i c, o i ≠ .err c) :
    (range o m).2 = .ok := by
  rcases result_from_callbacks o m with h | ⟨c, i, hi, _⟩
  · exact h
  · exact absurd hi (hne i c)

/-- An error returned by callback `k` after nil answers, with nil answers afterwards, is what
Range returns. -/
theorem error_returned (o : Oracle) (m : Msg) (k c : Nat)
    (hk : k < (full m).length) (hok : ∀ i, i ≠ k → o i = .ok) (herr : o k = .err c) :
    (range o m).2 = .err c := by
  have hs : StopsAt o k := ⟨fun i hi => hok i (by omega), by rw [herr]; trivial⟩
  obtain ⟨p, q, c', hfull, hlen, hev, hc, hhard⟩ :=
    walkTree_stop o k (treeOf m) hs (by simpa [full, range_fst] using hk)
  rcases result_from_callbacks o m with h | ⟨c2, i, hi, h2⟩
  · -- the result cannot be nil: the walk's own result is Terminate or an error, and Terminate
    -- is not something this oracle ever returns
    rw [range_snd] at h
    rcases walkTree_fromOracle o (treeOf m) with h3 | ⟨j, hj⟩
    · rw [h3] at hhard; exact absurd hhard (by simp [Res.Hard])
    · by_cases hjk : j = k
      · subst hjk; rw [herr] at hj; rw [← hj] at h; simp at h
      · rw [hok j hjk] at hj; rw [← hj] at hhard; exact absurd hhard (by simp [Res.Hard])
  · by_cases hik : i = k
    · subst hik; rw [herr] at hi; cases hi; exact h2
    · rw [hok i hik] at hi; cases hi

/-- **Break at callback `k`, as coded.**  If callback `k` returns Break and every other callback
returns nil, then with `full` the undisturbed events there is a decomposition (see `Skip`)

* `k` is a push: `full = pre ++ push x :: sub ++ pop x :: sibs ++ post`, and the events are
  `pre ++ [push x, pop x] ++ post` — the inside of `x` (`sub`) and all later siblings of `x` with
  their insides (`sibs`) are skipped;
* `k` is a pop: `full = pre ++ pop x :: sibs ++ post`, and the events are `pre ++ pop x :: post` —
  all later siblings of `x` are skipped;

where `pre.length = k`, `sub` and `sibs` are balanced, and `post` is empty (x was the Root value)
or starts with the pop of the parent of `x` — so `sibs` is *all* that remained of the parent's
iteration — and the traversal continues undisturbed after it.  Range returns nil. -/
theorem break_skips (o : Oracle) (m : Msg) (k : Nat) (hb : BreaksAt o k)
    (hk : k < (full m).length) :
    (∃ post, (post = [] ∨ StartsWithPop post) ∧ Skip (full m) (range o m).1 post k) ∧
    (range o m).2 = .ok := by
  have h := walkTree_break o k (treeOf m) hb (by simpa [full, range_fst] using hk)
  rw [full, range_fst, range_fst, range_snd]
  rcases h with ⟨hr, hs⟩ | ⟨hr, post, hp, hs⟩
  · exact ⟨⟨[], Or.inl rfl, hs⟩, by simp [hr]⟩
  · exact ⟨⟨post, Or.inr hp, hs⟩, by simp [hr]⟩

/-- Locally and for every oracle: whenever the push of a value returns anything but nil, nothing
below that value is visited and the value's pop follows immediately. -/
theorem nonnil_push_skips_children (o : Oracle) (s : Step) (v : Val) (kids : Forest)
    (h : o 0 ≠ .ok) : (walkTree o (.node s v kids)).1 = [Event.push s v, Event.pop s v] := by
  have hne : amend .ok (o 0) ≠ .ok := by
    cases h0 : o 0 <;> simp_all [amend]
  rw [walkTree_node, visit_of_not_ok hne]

/-- Locally and for every oracle: as soon as the visit of one child ends with a non-nil error
(Break included), no later sibling is visited. -/
theorem nonnil_child_ends_iteration (o : Oracle) (t : Tree) (ts : Forest)
    (h : (walkTree o t).2 ≠ .ok) : walkKids o (.cons t ts) = walkTree o t := by
  rw [walkKids_cons, if_neg h]

/-! ## Non-vacuity: a tree with every kind of node, and oracles satisfying the hypotheses -/

/-- nested message with an unknown-field set -/
def exInner : Msg := .plain "Inner" (.cons 1 (.scalar (.tok "i32:7")) .nil) [8, 1]

/-- a resolvable Any whose body is `exInner` -/
def exAny : Msg :=
  .any "google.protobuf.Any"
    (.cons 1 (.scalar (.tok "str:Inner")) (.cons 2 (.scalar (.bytes [8, 7, 8, 1])) .nil)) [] exInner

/-- scalar field 1, message field 2, list field 3 (scalar and message element kinds are separate
fields in protobuf; here a list of messages), map field 4, Any field 5, unknown bytes. -/
def exMsg : Msg :=
  .plain "Outer"
    (.cons 1 (.scalar (.tok "str:a"))
    (.cons 2 (.msg exInner)
    (.cons 3 (.list (.cons (.msg exInner) (.cons (.msg (.plain "Inner" .nil [])) .nil)))
    (.cons 4 (.map (.cons (.str [97]) (.scalar (.tok "i32:1")) (.cons (.str [97, 0]) (.scalar (.tok "i32:2")) .nil)))
    (.cons 5 (.msg exAny) .nil)))))
    [16, 3]

example : wfMsg exMsg = true := by decide
example : (pushPaths [] (full exMsg)).length = 18 := by decide
example : (full exMsg).length = 36 := by decide
example : (preMsg exMsg).length = 17 := by decide
/-- the Any's own fields are not among the visited values, its body is -/
example : (Step.anyExpand "Inner", Val.msg exInner) ∈ preMsg exMsg := by decide
example : (Step.unknown, Val.scalar (.bytes [16, 3])) ∈ preMsg exMsg := by decide
example : (Step.field 1, Val.scalar (.tok "str:Inner")) ∉ preMsg exMsg := by decide

/-- Break from the push of field 2 (callback 3): its inside and fields 3, 4, 5 and the unknown
set are skipped. -/
def exBreak : Oracle := fun i => if i = 3 then .brk else .ok
example : BreaksAt exBreak 3 := ⟨rfl, fun i hi => by simp [exBreak, hi]⟩
example : (range exBreak exMsg).1.length = 6 := by decide
example : pushes (range exBreak exMsg).1 =
    [(.root "Outer", .msg exMsg), (.field 1, .scalar (.tok "str:a")), (.field 2, .msg exInner)] := by
  decide

/-- Break inside the list of field 3 (push of element 0 = callback 10): the inside of element 0
(4 events) and element 1 (2 events) are skipped, fields 4, 5 and the unknown set are still visited. -/
def exBreak2 : Oracle := fun i => if i = 10 then .brk else .ok
example : BreaksAt exBreak2 10 := ⟨rfl, fun i hi => by simp [exBreak2, hi]⟩
example : (range exBreak2 exMsg).1.length = 36 - 4 - 2 := by decide
example : (Step.field 4, Val.map (.cons (.str [97]) (.scalar (.tok "i32:1")) (.cons (.str [97, 0]) (.scalar (.tok "i32:2")) .nil)))
    ∈ pushes (range exBreak2 exMsg).1 := by decide

/-- Terminate from callback 11 (push of field 1 inside list element 0): 12 events, then the four
pending pops (field 1, element 0, field 3, Root). -/
def exTerm : Oracle := fun i => if i = 11 then .term else .ok
example : StopsAt exTerm 11 := ⟨fun i hi => by simp [exTerm]; omega, by simp [exTerm, Res.Hard]⟩
example : (range exTerm exMsg).1.length = 12 + 4 := by decide
example : (range exTerm exMsg).2 = .ok := by decide

/-- an error after a Break overrides it; a later error overrides an earlier one -/
def exErr : Oracle := fun i => if i = 11 then .brk else if i = 12 then .err 1 else if i = 13 then .err 2 else .ok
example : (range exErr exMsg).2 = .err 2 := by decide

end C32
