import PbVerif.Lemmas.DefVal
/-
C39 — Textual default values round-trip exactly.

For every scalar kind and value and both default-value formats (`Descriptor`, `GoTag`), `Unmarshal`
of `Marshal`'s text reproduces the value (all NaNs equal).  Statements are about the model of
`internal/encoding/defval/default.go` in `Model/DefVal.lean`; `strconv`'s float formatting/parsing is a
parameter (`FloatCodec`) whose round-trip laws are *hypotheses* (`Law64`, `Law32`).

History (DESIGN finding 16, fixed in /repo ca80197): `Unmarshal` used to parse `FloatKind` text at 64 bits
and narrow, which rounded twice for the float32 patterns `0x15AE43FD`/`0x95AE43FD`.  The code (and this model)
now takes the value from `ParseFloat(s, 32)`; `float_roundtrip` is stated at full strength for every bit
pattern, and `float_former_witness` records that the former witness now comes back.
-/
namespace C39
open Model.DefVal

/-! ## bytes -/

/-- Every byte list survives `marshalBytes` → `unmarshalBytes` (every byte value in every position). -/
theorem bytes_roundtrip (b : List Byte) : unmarshalBytes (marshalBytes b) = some b := by
  have h : unmarshalBytesRes (marshalBytes b) = .ok b := by
    simp only [unmarshalBytesRes, parseString]
    have := parseLoop_run 0x22#8 (marshalBytes b ++ [0x22#8]) [] (by decide)
    simp only [List.nil_append] at this
    rw [this]
    simpa using parseLoop_marshalBytes b [] []
  simp [unmarshalBytes, h]

/-- The escape of one byte is read back as that byte *whatever follows it*: in particular the octal escape
always has three digits, so a digit that follows in the data cannot be absorbed into it. -/
theorem escape_independent_of_continuation (c : Byte) (tl out : List Byte) :
    parseLoop 0x22#8 (escapeByte c ++ tl) out = parseLoop 0x22#8 tl (out ++ [c]) :=
  parseLoop_escapeByte c tl out

/-- every escape that is not a single raw byte or a two-character escape is `\` + exactly three octal digits -/
theorem octal_escape_three_digits (c : Byte) (h : (escapeByte c).length ≠ 1 ∧ (escapeByte c).length ≠ 2) :
    ∃ d1 d2 d3, escapeByte c = [0x5c#8, d1, d2, d3] ∧ isOct d1 = true ∧ isOct d2 = true ∧ isOct d3 = true := by
  have hc := c.isLt
  unfold escapeByte at h ⊢
  repeat' split at h
  all_goals first
    | (exfalso; simp at h; done)
    | skip
  rename_i h1 h2 h3 h4 h5 h6 h7
  simp only [h1, h2, h3, h4, h5, h6, h7, if_false]
  refine ⟨_, _, _, rfl, ?_, ?_, ?_⟩ <;>
    · simp only [isOct, Bool.and_eq_true, decide_eq_true_eq]
      rw [digit_toNat _ (by omega)]
      omega

/-- `"\x01" ++ "7"`: the digit after the low byte stays a digit -/
example : unmarshalBytes (marshalBytes [0x01#8, 0x37#8]) = some [0x01#8, 0x37#8] := bytes_roundtrip _
example : marshalBytes [0x01#8, 0x37#8] = [0x5c#8, 0x30#8, 0x30#8, 0x31#8, 0x37#8] := by decide
/-- …whereas a one-digit escape `\1` followed by `7` would be read as the single byte 0o17 -/
example : unmarshalBytes [0x5c#8, 0x31#8, 0x37#8] = some [0x0f#8] := by
  simp [unmarshalBytes, unmarshalBytesRes, parseString, indexNeedEscape, needEscape, parseLoop.eq_def, isOct,
    List.takeWhile, digitsValue]

/-! ## integers: all four widths over their full ranges (the text is the same in both formats) -/

theorem int32_roundtrip (v : BitVec 32) :
    (parseInt 32 (formatInt v.toInt)).map (BitVec.ofInt 32) = some v := by
  have lo := BitVec.le_toInt v
  have hi := @BitVec.toInt_lt 32 v
  rw [parseInt_formatInt 32 v.toInt (by omega) (by simpa using lo) (by simpa using hi)]
  simp [BitVec.ofInt_toInt]

theorem int64_roundtrip (v : BitVec 64) :
    (parseInt 64 (formatInt v.toInt)).map (BitVec.ofInt 64) = some v := by
  have lo := BitVec.le_toInt v
  have hi := @BitVec.toInt_lt 64 v
  rw [parseInt_formatInt 64 v.toInt (by omega) (by simpa using lo) (by simpa using hi)]
  simp [BitVec.ofInt_toInt]

theorem uint32_roundtrip (v : BitVec 32) :
    (parseUint 32 (formatUint v.toNat)).map (BitVec.ofNat 32) = some v := by
  rw [parseUint_formatUint 32 v.toNat v.isLt]
  simp

theorem uint64_roundtrip (v : BitVec 64) :
    (parseUint 64 (formatUint v.toNat)).map (BitVec.ofNat 64) = some v := by
  rw [parseUint_formatUint 64 v.toNat v.isLt]
  simp

/-- `Unmarshal` of an int64 kind does not narrow: a value outside int32 is rejected by the 32-bit kinds -/
example : parseInt 32 [0x32#8, 0x31#8, 0x34#8, 0x37#8, 0x34#8, 0x38#8, 0x33#8, 0x36#8, 0x34#8, 0x38#8] = none := by
  decide                                                               -- "2147483648" as int32
example : parseInt 32 [0x2d#8, 0x32#8, 0x31#8, 0x34#8, 0x37#8, 0x34#8, 0x38#8, 0x33#8, 0x36#8, 0x34#8, 0x38#8]
    = some (-2147483648) := by decide                                  -- "-2147483648"
example : parseInt 32 [0x2b#8, 0x35#8] = some 5 := by decide          -- "+5" is accepted
example : parseInt 32 [0x30#8, 0x78#8, 0x31#8] = none := by decide    -- "0x1" is not (base 10)
example : parseUint 32 [0x2b#8, 0x35#8] = none := by decide           -- ParseUint takes no sign

/-! ## enums -/

/-- Descriptor format: the name printed for a value of the enum is resolved to that same value
(aliases, i.e. equal numbers, are allowed: names are what must be distinct). -/
theorem enum_roundtrip_descriptor (fc : FloatCodec) (evs : List EnumValue) (ev : EnumValue) (v : Value)
    (hm : ev ∈ evs) (hn : evs.Pairwise (fun x y => x.name ≠ y.name)) :
    marshal fc v (some ev) .enum .descriptor = some ev.name ∧
    unmarshal fc ev.name .enum evs .descriptor = some (.enum ev.number, some ev) := by
  have := find_key (·.name) evs ev hm hn
  simp [marshal, unmarshal, byName, this]

/-- GoTag format: the number printed is resolved to the first value carrying that number, so the
*number* always round-trips (aliases allowed)… -/
theorem enum_roundtrip_gotag_number (fc : FloatCodec) (evs : List EnumValue) (n : BitVec 32)
    (hm : ∃ ev ∈ evs, ev.number = n) :
    ∃ ev', marshal fc (.enum n) none .enum .goTag = some (formatInt n.toInt) ∧
      unmarshal fc (formatInt n.toInt) .enum evs .goTag = some (.enum n, some ev') ∧
      ev' ∈ evs ∧ ev'.number = n := by
  have lo := BitVec.le_toInt n
  have hi := @BitVec.toInt_lt 32 n
  have hp := parseInt_formatInt 32 n.toInt (by omega) (by simpa using lo) (by simpa using hi)
  obtain ⟨ev, hev, hnum⟩ := hm
  have hsome : (evs.find? (fun x => x.number = n)).isSome := by
    rw [List.find?_isSome]; exact ⟨ev, hev, by simp [hnum]⟩
  obtain ⟨ev', he⟩ := Option.isSome_iff_exists.1 hsome
  have hmem := List.mem_of_find?_eq_some he
  have hnum' : ev'.number = n := by simpa using List.find?_some he
  exact ⟨ev', by simp [marshal], by simp [unmarshal, hp, byNumber, BitVec.ofInt_toInt, he, hnum'], hmem, hnum'⟩

/-- …and with distinct numbers the value descriptor round-trips too. -/
theorem enum_roundtrip_gotag (fc : FloatCodec) (evs : List EnumValue) (ev : EnumValue)
    (hm : ev ∈ evs) (hn : evs.Pairwise (fun x y => x.number ≠ y.number)) :
    marshal fc (.enum ev.number) (some ev) .enum .goTag = some (formatInt ev.number.toInt) ∧
    unmarshal fc (formatInt ev.number.toInt) .enum evs .goTag = some (.enum ev.number, some ev) := by
  have lo := BitVec.le_toInt ev.number
  have hi := @BitVec.toInt_lt 32 ev.number
  have hp := parseInt_formatInt 32 ev.number.toInt (by omega) (by simpa using lo) (by simpa using hi)
  have := find_key (·.number) evs ev hm hn
  simp [marshal, unmarshal, hp, byNumber, BitVec.ofInt_toInt, this]

/-- hypotheses are satisfiable by an enum with a negative number and an alias (names distinct) -/
example :
    let evs : List EnumValue := [⟨[0x41#8], 0#32⟩, ⟨[0x42#8], BitVec.ofInt 32 (-1)⟩, ⟨[0x43#8], 0#32⟩]
    evs.Pairwise (fun x y => x.name ≠ y.name) ∧ (⟨[0x43#8], 0#32⟩ : EnumValue) ∈ evs := by decide

/-! ## floats -/

/-- double: for every bit pattern, given the `strconv` law for 64 bits (NaNs come back as a NaN) -/
theorem double_roundtrip (fc : FloatCodec) (h : fc.Law64) (b : BitVec 64) (f : Format) (evs : List EnumValue) :
    ∃ s b', marshal fc (.float64 b) none .double f = some s ∧
      unmarshal fc s .double evs f = some (.float64 b', none) ∧
      Value.same (.float64 b) (.float64 b') = true := by
  simp only [marshal, Value.float?, Option.map_some, unmarshal]
  by_cases h1 : b = negInf64
  · subst h1; exact ⟨sNegInf, negInf64, rfl, rfl, by decide⟩
  by_cases h2 : b = posInf64
  · subst h2; exact ⟨sInf, posInf64, rfl, rfl, by decide⟩
  by_cases h3 : isNaN64 b = true
  · refine ⟨sNaN, goNaN64, by simp [marshalFloat, h1, h2, h3], rfl, ?_⟩
    simp only [Value.same, h3, Bool.true_and]
    simp; right; decide
  · have hfin : isFinite64 b = true := by
      simp only [isNaN64, Bool.and_eq_true, beq_iff_eq, bne_iff_ne, ne_eq, not_and, Decidable.not_not] at h3
      simp only [isFinite64, bne_iff_ne, ne_eq]
      intro he
      have hm := h3 he
      apply h2
      simp only [posInf64]
      by_cases hs : sign64 b = 0
      · simp only [exp64, man64, sign64] at he hm hs; bv_omega
      · exfalso; apply h1; simp only [negInf64]
        have := b.isLt
        simp only [exp64, man64, sign64] at he hm hs; bv_omega
    have hns := h.notSpecial b hfin
    simp only [specials, List.mem_cons, List.not_mem_nil, or_false, not_or] at hns
    refine ⟨fc.format64 b, b, by simp [marshalFloat, h1, h2, h3], ?_, by simp [Value.same]⟩
    simp [parseFloatText, hns.1, hns.2.1, hns.2.2, h.roundtrip b hfin]

/-- the model's conversions are coherent: `float32(float64(x)) == x` for every finite float32 -/
theorem narrow_widen_finite (b : BitVec 32) (h : isFinite32 b = true) : narrow (widen b) = b :=
  narrow_widen b h

/-- the float hypotheses are satisfiable by a codec that is not strconv:
the decimal text of the bit pattern -/
example : ∃ fc : FloatCodec, fc.Law64 ∧ fc.Law32 :=
  ⟨exampleCodec, exampleCodec_laws⟩

/-- the three non-finite classes of float32 -/
theorem float_nonfinite (fc : FloatCodec) (b : BitVec 32) (hnf : isFinite32 b = false) (f : Format)
    (evs : List EnumValue) :
    ∃ s b', marshal fc (.float32 b) none .float f = some s ∧
      unmarshal fc s .float evs f = some (.float32 b', none) ∧
      Value.same (.float32 b) (.float32 b') = true := by
  rcases float32_trichotomy b with hfin | hinf | hnan
  · rw [hfin] at hnf; cases hnf
  · rcases inf32_cases b hinf with rfl | rfl
    · exact ⟨sInf, posInf32, rfl, rfl, by decide⟩
    · exact ⟨sNegInf, negInf32, rfl, rfl, by decide⟩
  · have hw := widen_nan b hnan
    have n1 : widen b ≠ negInf64 := by intro e; rw [e] at hw; revert hw; decide
    have n2 : widen b ≠ posInf64 := by intro e; rw [e] at hw; revert hw; decide
    refine ⟨sNaN, narrow goNaN64, ?_, rfl, ?_⟩
    · simp [marshal, Value.float?, marshalFloat, n1, n2, hw]
    · simp only [Value.same, hnan, Bool.true_and]
      simp; right; decide

/-- float32: for EVERY bit pattern, given the `strconv` law for 32 bits (NaNs come back as a NaN) -/
theorem float_roundtrip (fc : FloatCodec) (h : fc.Law32) (b : BitVec 32) (f : Format) (evs : List EnumValue) :
    ∃ s b', marshal fc (.float32 b) none .float f = some s ∧
      unmarshal fc s .float evs f = some (.float32 b', none) ∧
      Value.same (.float32 b) (.float32 b') = true := by
  by_cases hfin : isFinite32 b = true
  · have hw := widen_finite b hfin
    obtain ⟨n1, n2, n3⟩ := finite64_not_special _ hw
    have hns := h.notSpecial b hfin
    simp only [specials, List.mem_cons, List.not_mem_nil, or_false, not_or] at hns
    refine ⟨fc.format32 (widen b), b, ?_, ?_, by simp [Value.same]⟩
    · simp [marshal, Value.float?, marshalFloat, n1, n2, n3]
    · obtain ⟨d, hd⟩ := Option.isSome_iff_exists.1 (h.accepted b hfin)
      simp [unmarshal, parseFloatText, hns.1, hns.2.1, hns.2.2, h.roundtrip b hfin, hd]
  · exact float_nonfinite fc b (by simpa using hfin) f evs

/-- The former witness of finding 16: with the facts about Go's strconv that the harness checks
(`FormatFloat(float64(x),'g',-1,32) = "7.038531e-26"`, `ParseFloat` accepts it at 64 bits, and at 32 bits it
yields `x` itself, `0x3AB5C87FA0000000` as a float64), `Unmarshal(Marshal(0x15AE43FD))` is `0x15AE43FD`. -/
theorem float_former_witness (fc : FloatCodec)
    (hfmt : fc.format32 (widen 0x15AE43FD#32) = witnessText)
    (hparse64 : (fc.parse64 witnessText).isSome = true)
    (hparse32 : fc.parse32 witnessText = 0x3AB5C87FA0000000#64) (f : Format) (evs : List EnumValue) :
    marshal fc (.float32 0x15AE43FD#32) none .float f = some witnessText ∧
    unmarshal fc witnessText .float evs f = some (.float32 0x15AE43FD#32, none) := by
  have hw : widen 0x15AE43FD#32 = 0x3AB5C87FA0000000#64 := by decide
  obtain ⟨d, hd⟩ := Option.isSome_iff_exists.1 hparse64
  refine ⟨?_, ?_⟩
  · simp only [marshal, Value.float?, Option.map_some, marshalFloat]
    rw [hw] at hfmt ⊢
    rw [if_neg (by decide), if_neg (by decide), if_neg (by decide)]
    simp [hfmt]
  · have e : parseFloatText fc .float witnessText = some 0x3AB5C87FA0000000#64 := by
      simp only [parseFloatText]
      rw [if_neg (by decide), if_neg (by decide), if_neg (by decide), hd]
      simp [hparse32]
    simp only [unmarshal, e, Option.map_some]
    have : narrow 0x3AB5C87FA0000000#64 = 0x15AE43FD#32 := by decide
    rw [this]

/-! ## every kind, both formats -/

/-- `Unmarshal(Marshal(v))` gives `v` back (NaNs as a NaN) for every well-typed value of every scalar kind in
both formats, under the strconv laws and, for enums, for a value of the
enum whose names and numbers are pairwise distinct (for aliases see `enum_roundtrip_descriptor`,
`enum_roundtrip_gotag_number`). -/
theorem defval_roundtrip (fc : FloatCodec) (h64 : fc.Law64) (h32 : fc.Law32)
    (k : Kind) (v : Value) (f : Format) (evs : List EnumValue) (ev : Option EnumValue)
    (hty : wellTyped k v = true)
    (henum : k = .enum → ∃ e, ev = some e ∧ e ∈ evs ∧ v = .enum e.number ∧
      evs.Pairwise (fun x y => x.name ≠ y.name) ∧ evs.Pairwise (fun x y => x.number ≠ y.number)) :
    ∃ s v', marshal fc v ev k f = some s ∧
      unmarshal fc s k evs f = some (v', if k = .enum then ev else none) ∧
      Value.same v v' = true := by
  cases k <;> cases v <;> simp only [wellTyped] at hty <;> try (exact absurd hty (by decide))
  case bool.bool b =>
    cases b <;> cases f <;> exact ⟨_, .bool _, rfl, rfl, rfl⟩
  case enum.enum n =>
    obtain ⟨e, rfl, hm, hv, hn1, hn2⟩ := henum rfl
    cases hv
    cases f
    · obtain ⟨a, b⟩ := enum_roundtrip_descriptor fc evs e (.enum e.number) hm hn1
      exact ⟨_, _, a, by simpa using b, by simp [Value.same]⟩
    · obtain ⟨a, b⟩ := enum_roundtrip_gotag fc evs e hm hn2
      exact ⟨_, _, a, by simpa using b, by simp [Value.same]⟩
  case int32.int32 x | sint32.int32 x | sfixed32.int32 x =>
    have := int32_roundtrip x
    cases hp : parseInt 32 (formatInt x.toInt) with
    | none => rw [hp] at this; cases this
    | some d =>
      rw [hp] at this; simp at this
      exact ⟨formatInt x.toInt, .int32 x, by simp [marshal, Value.int?], by simp [unmarshal, hp, this],
        by simp [Value.same]⟩
  case int64.int64 x | sint64.int64 x | sfixed64.int64 x =>
    have := int64_roundtrip x
    cases hp : parseInt 64 (formatInt x.toInt) with
    | none => rw [hp] at this; cases this
    | some d =>
      rw [hp] at this; simp at this
      exact ⟨formatInt x.toInt, .int64 x, by simp [marshal, Value.int?], by simp [unmarshal, hp, this],
        by simp [Value.same]⟩
  case uint32.uint32 x | fixed32.uint32 x =>
    have := parseUint_formatUint 32 x.toNat x.isLt
    exact ⟨formatUint x.toNat, .uint32 x, by simp [marshal, Value.uint?], by simp [unmarshal, this],
      by simp [Value.same]⟩
  case uint64.uint64 x | fixed64.uint64 x =>
    have := parseUint_formatUint 64 x.toNat x.isLt
    exact ⟨formatUint x.toNat, .uint64 x, by simp [marshal, Value.uint?], by simp [unmarshal, this],
      by simp [Value.same]⟩
  case float.float32 b =>
    obtain ⟨s, b', h1, h2, h3⟩ := float_roundtrip fc h32 b f evs
    exact ⟨s, .float32 b', h1, by simpa using h2, h3⟩
  case double.float64 b =>
    obtain ⟨s, b', h1, h2, h3⟩ := double_roundtrip fc h64 b f evs
    exact ⟨s, .float64 b', h1, by simpa using h2, h3⟩
  case string.string s =>
    exact ⟨s, .string s, by simp [marshal], by simp [unmarshal], by simp [Value.same]⟩
  case bytes.bytes b =>
    exact ⟨marshalBytes b, .bytes b, by simp [marshal], by simp [unmarshal, bytes_roundtrip], by simp [Value.same]⟩

/-- the hypotheses of `defval_roundtrip` are satisfiable: a codec over a two-entry table satisfies `Law64`-shaped
requirements on that table; here we only exhibit a non-trivial instance of the enum and typing hypotheses -/
example :
    let evs : List EnumValue := [⟨[0x41#8], 0#32⟩, ⟨[0x42#8], BitVec.ofInt 32 (-1)⟩]
    wellTyped .enum (.enum (BitVec.ofInt 32 (-1))) = true ∧
    (∃ e, (some (⟨[0x42#8], BitVec.ofInt 32 (-1)⟩ : EnumValue)) = some e ∧ e ∈ evs ∧
      Value.enum (BitVec.ofInt 32 (-1)) = .enum e.number ∧
      evs.Pairwise (fun x y => x.name ≠ y.name) ∧ evs.Pairwise (fun x y => x.number ≠ y.number)) := by
  refine ⟨by decide, ⟨_, rfl, by decide, by decide, by decide, by decide⟩⟩

end C39
