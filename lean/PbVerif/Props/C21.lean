import PbVerif.Model.JsonLex
import PbVerif.Lemmas.JsonLexNumber
import PbVerif.Lemmas.JsonLexString
import PbVerif.Lemmas.JsonLexDecoder
import PbVerif.Lemmas.JsonLexEncoder
/-
C21 — protojson speaks exactly JSON.

Statements are about `JsonLex.*` (Model/JsonLex.lean), the hand-written executable model of
/repo/internal/encoding/json, tied to the Go code by the `jsonlex` correspondence harness, and about
the RFC 8259 grammar `JsonLex.RFC.*` written from the RFC text.
-/
namespace C21
open JsonLex JsonLex.RFC

/-! ## Numbers (decode_number.go : parseNumber) -/

/-- **`parseNumber` accepts exactly the RFC 8259 numbers** that are followed by a delimiter byte or by the
end of input, and returns their length.  (DESIGN.md finding 4 — an exponent marker without digits was
accepted — was repaired by repo commit be83e9c; the model mirrors the repaired code.) -/
theorem parseNumber_exact (s : Bytes) (n : Nat) :
    parseNumber s = some n ↔ ∃ p rest, s = p ++ rest ∧ p.length = n ∧ DelimOK rest ∧ Number p :=
  JsonLex.parseNumber_exact s n

/-- **parseNumber_sound**: the accepted prefix is an RFC 8259 number. -/
theorem parseNumber_sound (s : Bytes) (n : Nat) (h : parseNumber s = some n) : Number (s.take n) := by
  obtain ⟨p, rest, rfl, rfl, _, hp⟩ := (parseNumber_exact s n).1 h
  rwa [List.take_left' rfl]

/-- **parseNumber_complete**: an RFC 8259 number followed by a delimiter (or by nothing) is accepted whole. -/
theorem parseNumber_complete (p rest : Bytes) (hp : Number p) (hd : DelimOK rest) :
    parseNumber (p ++ rest) = some p.length :=
  (parseNumber_exact _ _).2 ⟨_, rest, rfl, rfl, hd, hp⟩

/-- … and nothing longer or shorter is: the accepted length is unique. -/
theorem parseNumber_length_unique (p rest : Bytes) (hp : Number p) (hd : DelimOK rest) (n : Nat)
    (h : parseNumber (p ++ rest) = some n) : n = p.length := by
  rw [parseNumber_complete p rest hp hd] at h; exact (Option.some.inj h).symm

/-- membership in the RFC 8259 number grammar is decided by running `parseNumber` on the whole string
(this is the `rfcnumber`/`numspec` voice of the model driver, compared with `encoding/json.Valid`) -/
theorem number_iff (p : Bytes) : Number p ↔ parseNumber p = some p.length := by
  rw [parseNumber_exact]
  constructor
  · intro h; exact ⟨p, [], by simp, rfl, DelimOK.nil, h⟩
  · rintro ⟨q, rest, hs, hl, _, hq⟩
    have : rest = [] := by
      have := congrArg List.length hs
      simp at this
      exact List.length_eq_zero_iff.1 (by omega)
    subst this
    simp at hs; subst hs; exact hq

/-- the inputs of the former finding 4 are rejected: `1e,`  `1e+ `  `-0E-]` -/
example : parseNumber [0x31#8, 0x65#8, 0x2c#8] = none ∧ parseNumber [0x31#8, 0x65#8, 0x2b#8, 0x20#8] = none ∧
    parseNumber [0x2d#8, 0x30#8, 0x45#8, 0x2d#8, 0x5d#8] = none := by decide

example : parseNumber [0x2d#8, 0x31#8, 0x2e#8, 0x35#8, 0x65#8, 0x2b#8, 0x33#8, 0x7d#8] = some 7 := by decide

/-! ## Strings (decode_string.go : Decoder.parseString) -/

/-- `parseString` accepts exactly: a quotation mark, a sequence `cs` of characters and escapes in
which `\uXXXX` escapes of surrogates occur only as well-formed pairs (`DChars`: RFC 3629 UTF-8
characters other than control characters, `"` and `\`; the eight one-letter escapes; `\uXXXX` with
four hex digits), and a quotation mark; it returns what `cs` denotes and the length including both
quotation marks.  In particular invalid UTF-8, raw control characters, unknown escapes, short or
non-hexadecimal `\u` escapes and lone surrogates are rejected, whatever follows the literal. -/
theorem parseString_exact (inp content : Bytes) (n : Nat) :
    parseString inp = .ok (content, n) ↔
      ∃ cs rest, inp = 0x22#8 :: (cs ++ 0x22#8 :: rest) ∧ n = cs.length + 2 ∧ DChars cs content :=
  JsonLex.parseString_exact inp content n

/-- Soundness: what `parseString` consumes is a string of the RFC 8259 grammar (over UTF-8). -/
theorem parseString_sound (inp content : Bytes) (n : Nat) (h : parseString inp = .ok (content, n)) :
    JString (inp.take n) := by
  obtain ⟨cs, rest, rfl, rfl, hcs⟩ := (parseString_exact inp content n).1 h
  have : (0x22#8 :: (cs ++ 0x22#8 :: rest)).take (cs.length + 2) = 0x22#8 :: (cs ++ [0x22#8]) := by
    have : 0x22#8 :: (cs ++ 0x22#8 :: rest) = (0x22#8 :: (cs ++ [0x22#8])) ++ rest := by simp
    rw [this]; exact List.take_left' (by simp)
  rw [this]
  exact JString.mk cs hcs.jchars

/-- Completeness: every RFC 8259 string whose surrogate escapes form well-formed pairs (`JCharsWF`;
the RFC grammar itself also admits lone surrogate escapes, which the code deliberately rejects) is
accepted whole, whatever follows it. -/
theorem parseString_complete (cs rest : Bytes) (h : JCharsWF cs) :
    ∃ content, parseString (0x22#8 :: (cs ++ 0x22#8 :: rest)) = .ok (content, cs.length + 2) := by
  obtain ⟨content, hc⟩ := h.dchars
  exact ⟨content, (parseString_exact _ _ _).2 ⟨cs, rest, rfl, rfl, hc⟩⟩

/-- … and exactly those: an accepted literal has well-formed surrogate escapes. -/
theorem parseString_wf (inp content : Bytes) (n : Nat) (h : parseString inp = .ok (content, n)) :
    ∃ cs rest, inp = 0x22#8 :: (cs ++ 0x22#8 :: rest) ∧ n = cs.length + 2 ∧ JCharsWF cs := by
  obtain ⟨cs, rest, h1, h2, hcs⟩ := (parseString_exact inp content n).1 h
  exact ⟨cs, rest, h1, h2, hcs.wf⟩

/-- a lone surrogate escape is an RFC `char` but is rejected -/
example : JString [0x22#8, 0x5c#8, 0x75#8, 0x64#8, 0x38#8, 0x30#8, 0x30#8, 0x22#8] ∧
    parseString [0x22#8, 0x5c#8, 0x75#8, 0x64#8, 0x38#8, 0x30#8, 0x30#8, 0x22#8] = .error .eof := by
  refine ⟨?_, by rfl⟩
  exact JString.mk [0x5c#8, 0x75#8, 0x64#8, 0x38#8, 0x30#8, 0x30#8]
    (JChars.single (JChar.hex _ _ _ _ (by decide) (by decide) (by decide) (by decide)))

/-! ## The token automaton (decode.go : Decoder.Read) -/

/-- **decoder_sound.**  If a fresh `Decoder` reads `b` token by token up to EOF without error, then `b`
is an RFC 8259 JSON text — it splits into whitespace-separated tokens that derive from the `value`
grammar, every number token an RFC number and every string token an RFC string — or `b` consists of
whitespace only and no token was read (the EOF case of `Read` only looks at the open stack; see
`decoder_accepts_empty`; protojson.Unmarshal rejects the EOF token it gets in that case, which the
harness checks). -/
theorem decoder_sound (b : Bytes) (toks : List Token) (h : decodeAll b = .ok toks) :
    AllWs b ∨ JsonText b := by
  rcases decodeAllG_sound numSound_parseNumber b toks h with hw | ht
  · exact Or.inl hw
  · exact Or.inr (ht.mono (fun _ h => h) (fun _ h => h.jstring))

/-- the empty input is read to EOF without error (and without a token) -/
theorem decoder_accepts_empty : decodeAll [] = .ok [] := by rfl

/-- the documents of the former finding 4 are rejected: `[1e,2e]` -/
example : ∃ e, decodeAll [0x5b#8, 0x31#8, 0x65#8, 0x2c#8, 0x32#8, 0x65#8, 0x5d#8] = .error e := ⟨_, rfl⟩

/-! ## The Encoder (encode.go) -/

/-- `WriteString` fails (errInvalidUTF8) exactly on input that is not valid UTF-8 (RFC 3629). -/
theorem writeString_ok_iff (s : Bytes) : (appendString [] s).2 = true ↔ Utf8Chars s := by
  constructor
  · intro h
    have : appendString [] s = ((appendString [] s).1, true) := by rw [← h]
    obtain ⟨_, _, _, hu⟩ := appendString_sound s _ this
    exact hu
  · exact appendString_complete s

/-- **Every string literal the Encoder emits is in the RFC 8259 grammar and parses back to the
original**, whatever follows it: for all valid UTF-8 `s`, `appendString` writes `lit` with
`JString lit` and `parseString (lit ++ rest) = (s, len lit)`. -/
theorem writeString_roundtrip (s lit : Bytes) (h : appendString [] s = (lit, true)) :
    JString lit ∧ ∀ rest, parseString (lit ++ rest) = .ok (s, lit.length) := by
  obtain ⟨esc, rfl, hesc, _⟩ := appendString_sound s lit h
  refine ⟨JString.mk esc hesc.jchars, fun rest => ?_⟩
  exact (parseString_exact _ _ _).2 ⟨esc, rest, by simp, by simp, hesc⟩

example : appendString [] [0x61#8, 0x22#8, 0x0a#8, 0x01#8, 0xc3#8, 0xa9#8] =
    ([0x22#8, 0x61#8, 0x5c#8, 0x22#8, 0x5c#8, 0x6e#8, 0x5c#8, 0x75#8, 0x30#8, 0x30#8, 0x30#8, 0x31#8, 0xc3#8, 0xa9#8,
      0x22#8], true) := by decide

/-- **Structural output is in the grammar, whatever the indent.**  For every JSON value tree `v`
whose strings/names are valid UTF-8 and whose number literals are RFC numbers, every indent made of
whitespace (`NewEncoder` admits spaces and tabs; the empty indent is the compact form) and either
value of `detrand.Bool()`, the call sequence `opsOf v` runs without error or panic and its output
splits into whitespace and exactly the tokens `toksOf v`, which derive from `value`.
`toksOf v` does not depend on `indent`/`rnd`: Multiline/Indent output and compact output are the
same token sequence — the same JSON value — with different insignificant whitespace. -/
theorem encoder_output (rnd : Bool) (indent : Bytes) (hind : AllWs indent) (v : JVal) (hv : v.WF) :
    ∃ out, encodeValue rnd indent v = some (out, true) ∧
      LexesTo Number JString out (toksOf v) ∧ Value (toksOf v) := by
  obtain ⟨e', seg, hrun, hout, hseg, _, _, _⟩ :=
    enc_val rnd v hv { indent := indent } ⟨hind, AllWs.nil⟩
  refine ⟨e'.out, by simp [encodeValue, hrun], ?_, toksOf_value v⟩
  have := hseg.lexes
  simpa [hout, sepToks, EKind.isValueEnd] using this

theorem encoder_valid (rnd : Bool) (indent : Bytes) (hind : AllWs indent) (v : JVal) (hv : v.WF) :
    ∃ out, encodeValue rnd indent v = some (out, true) ∧ JsonText out := by
  obtain ⟨out, h1, h2, h3⟩ := encoder_output rnd indent hind v hv
  exact ⟨out, h1, toksOf v, h2, h3⟩

/-- `WriteInt`/`WriteUint` are `WriteFloat`-like calls with the literals `[-]decimal` (`strconv.AppendInt/
AppendUint` from their contract, tied by the harness), and these literals are RFC 8259 numbers — so
`encoder_output` covers them through `JVal.num`. -/
theorem writeInt_literal (rnd : Bool) (e : Enc) (n : Int) (u : Nat) :
    encStep rnd e (.int n) = encStep rnd e (.float (if n < 0 then 0x2d#8 :: decimal n.natAbs else decimal n.natAbs)) ∧
    encStep rnd e (.uint u) = encStep rnd e (.float (decimal u)) ∧
    Number (if n < 0 then 0x2d#8 :: decimal n.natAbs else decimal n.natAbs) ∧ Number (decimal u) :=
  ⟨rfl, rfl, intLiteral_number n, decimal_number u⟩

/-- whitespace-insensitivity, spelled out for two settings -/
theorem encoder_indent_insensitive (rnd1 rnd2 : Bool) (ind1 ind2 : Bytes) (h1 : AllWs ind1) (h2 : AllWs ind2)
    (v : JVal) (hv : v.WF) :
    ∃ out1 out2 ts, encodeValue rnd1 ind1 v = some (out1, true) ∧ encodeValue rnd2 ind2 v = some (out2, true) ∧
      LexesTo Number JString out1 ts ∧ LexesTo Number JString out2 ts ∧ Value ts := by
  obtain ⟨o1, a1, b1, c1⟩ := encoder_output rnd1 ind1 h1 v hv
  obtain ⟨o2, a2, b2, _⟩ := encoder_output rnd2 ind2 h2 v hv
  exact ⟨o1, o2, toksOf v, a1, a2, b1, b2, c1⟩

example : (JVal.obj (.cons [0x61#8] (.arr (.cons (.num [0x31#8]) (.cons .null .nil))) .nil)).WF := by
  refine ⟨?_, ⟨?_, trivial, trivial⟩, trivial⟩
  · exact Utf8Chars.cons [0x61#8] [] (Utf8Char.one _ (by decide)) Utf8Chars.nil
  · exact Number.mk [] [0x31#8] [] [] MinusOpt.none (IntPart.nonzero _ [] (by decide) (by intro d hd; cases hd))
      FracOpt.none ExpOpt.none

end C21
