import PbVerif.Model.JsonLex
namespace C21
open JsonLex
end C21
