import PbVerif.Lemmas.MSetLazy
/-
C47 — MessageSet encoding round-trips and matches the item format.

Statements are about `Model/MSet.lean`, the line-by-line model of
internal/encoding/messageset/messageset.go, proto/messageset.go (reflection path, `wantLen = false`)
and internal/impl/codec_messageset.go (fast path, `wantLen = true`); the model is tied to the Go
code by the `mset` harness (exact results and error codes of the messageset functions; proto.Unmarshal
/ Marshal / Size of the generated types in both builds and of dynamicpb).

Every theorem holds for ALL type ids 1 … 2^31-1, payloads, continuations (`rest`) and — where
a `wantLen` / `det` parameter appears — for both paths and both marshalling modes.

Two obligations are FALSE of the current code and are registered as refuted (checks/C47.json):
* `lazy_roundtrip`   — negation `lazy_duplicate_item_lost` (known finding mset-lazy-duplicate-item-remarshal)
* `paths_agree`      — negation `unknown_length_prefix_paths_differ` (known finding
                       mset-unknown-item-nonminimal-length-fast-vs-reflection)
-/
namespace C47
open Spec MSet

/-! ## 1. the item format -/

/-- an extension `n` with payload `p` is written as
`start-group(1) · type_id(2, varint) = n · message(3, bytes) = p · end-group(1)` -/
theorem encodeItem_format (n : Nat) (p : Bytes) :
    encodeItem n p =
      tag 1 3 ++ tag 2 0 ++ encVarint n ++ tag 3 2 ++ encVarint p.length ++ p ++ tag 1 4 := by
  simp [encodeItem, appendFieldEnd, appendFieldStart, encBytes, fieldItem, fieldTypeID, fieldMessage,
    wStartGroup, wVarint, wBytes, wEndGroup]

/-- the four tags are the single bytes 0b, 10, 1a, 0c -/
theorem item_tags : tag 1 3 = [0x0b#8] ∧ tag 2 0 = [0x10#8] ∧ tag 3 2 = [0x1a#8] ∧ tag 1 4 = [0x0c#8] := by
  refine ⟨?_, ?_, ?_, ?_⟩ <;> simp [tag, encTag, encVarint_lt]

/-- the part of an item behind the start tag, as `ConsumeFieldValue` receives it -/
def itemBody (n : Nat) (p : Bytes) : Bytes := tag 2 0 ++ encVarint n ++ tag 3 2 ++ encBytes p ++ tag 1 4

theorem encodeItem_body (n : Nat) (p : Bytes) : encodeItem n p = tag 1 3 ++ itemBody n p := by
  simp [encodeItem_format, itemBody, encBytes]

/-! ## 2. `ConsumeFieldValue` -/

/-- GENERAL FORM.  On any sequence of well-formed fields `toks` (type ids, message fields with any
valid length prefix, arbitrary other fields) followed by the end marker, `ConsumeFieldValue`
returns: the LAST type id (0 if there is none); the concatenation of the payloads of all message
fields — on the fast path (`w = true`) behind a length prefix, which is the received one when
there was a single message field and the minimal one otherwise, and `00` when there was none —;
and the length up to and including the end marker.  Other fields are skipped.  `rest` is arbitrary. -/
theorem consumeItem_fields (w : Bool) (toks : List Tok) (rest : Bytes)
    (hwf : ∀ x ∈ toks, x.WF) (hlen : toksLen toks < 2 ^ 64) :
    consumeItem w (encToks toks ++ (tag 1 4 ++ rest)) =
      .ok ((toks.foldl stepTok (0, none)).1, finMsg w (repMsg w (toks.foldl stepTok (0, none)).2),
        (encToks toks ++ tag 1 4).length) :=
  consumeItem_toks w toks rest hwf hlen

private theorem wfTypeId {n : Nat} (h1 : 1 ≤ n) (h2 : n < 2 ^ 31) : (Tok.typeId n).WF := ⟨h1, h2⟩
private theorem wfMsg {p : Bytes} (h : p.length < 2 ^ 64) : (Tok.message (encVarint p.length) p).WF :=
  isVarint_enc h

private theorem encBytes_ne_nil (p : Bytes) : ¬ (encVarint p.length = [] ∧ p = []) := fun h =>
  encVarint_ne_nil _ h.1

/-- round trip of one item, any continuation: reflection path gets the payload, fast path the
payload behind its length prefix; `n` bytes = the whole body -/
theorem consumeItem_encodeItem (w : Bool) {n : Nat} {p : Bytes} (h1 : 1 ≤ n) (h2 : n < 2 ^ 31)
    (hp : p.length < 2 ^ 64) (rest : Bytes) :
    consumeItem w (itemBody n p ++ rest) = .ok (n, if w then encBytes p else p, (itemBody n p).length) := by
  have h := consumeItem_fields w [.typeId n, .message (encVarint p.length) p] rest
    (by intro x hx; simp only [List.mem_cons, List.not_mem_nil, or_false] at hx
        rcases hx with rfl | rfl
        · exact wfTypeId h1 h2
        · exact wfMsg hp)
    (by simpa [toksLen, Tok.len] using hp)
  simp only [encToks, Tok.enc, List.append_nil, List.append_assoc] at h
  simp only [itemBody, encBytes, List.append_assoc]
  rw [h]
  cases w <;> simp [stepTok, finMsg, repMsg, encBytes_ne_nil]

/-- message field BEFORE the type id: decodes the same -/
theorem consumeItem_either_order (w : Bool) {n : Nat} {p : Bytes} (h1 : 1 ≤ n) (h2 : n < 2 ^ 31)
    (hp : p.length < 2 ^ 64) (rest : Bytes) :
    consumeItem w (tag 3 2 ++ encBytes p ++ tag 2 0 ++ encVarint n ++ tag 1 4 ++ rest) =
      .ok (n, if w then encBytes p else p, (itemBody n p).length) := by
  have h := consumeItem_fields w [.message (encVarint p.length) p, .typeId n] rest
    (by intro x hx; simp only [List.mem_cons, List.not_mem_nil, or_false] at hx
        rcases hx with rfl | rfl
        · exact wfMsg hp
        · exact wfTypeId h1 h2)
    (by simpa [toksLen, Tok.len] using hp)
  simp only [encToks, Tok.enc, List.append_nil, List.append_assoc] at h
  simp only [encBytes, List.append_assoc]
  rw [h]
  cases w <;> simp [stepTok, finMsg, repMsg, encBytes_ne_nil, itemBody, encBytes] <;> omega

/-- duplicate message fields are CONCATENATED (as coded: "multiple message fields, which need to be
merged"); on the fast path the length prefix is rebuilt for the concatenation -/
theorem consumeItem_dup_message (w : Bool) {n : Nat} {p1 p2 : Bytes} (h1 : 1 ≤ n) (h2 : n < 2 ^ 31)
    (hp : p1.length + p2.length < 2 ^ 64) (rest : Bytes) :
    consumeItem w (tag 2 0 ++ encVarint n ++ tag 3 2 ++ encBytes p1 ++ tag 3 2 ++ encBytes p2 ++ tag 1 4 ++ rest) =
      .ok (n, if w then encBytes (p1 ++ p2) else p1 ++ p2,
        (tag 2 0 ++ encVarint n ++ tag 3 2 ++ encBytes p1 ++ tag 3 2 ++ encBytes p2 ++ tag 1 4).length) := by
  have h := consumeItem_fields w
    [.typeId n, .message (encVarint p1.length) p1, .message (encVarint p2.length) p2] rest
    (by intro x hx; simp only [List.mem_cons, List.not_mem_nil, or_false] at hx
        rcases hx with rfl | rfl | rfl
        · exact wfTypeId h1 h2
        · exact wfMsg (by omega)
        · exact wfMsg (by omega))
    (by simp only [toksLen, Tok.len]; omega)
  simp only [encToks, Tok.enc, List.append_nil, List.append_assoc] at h
  simp only [encBytes, List.append_assoc]
  rw [h]
  cases w <;> simp [stepTok, finMsg, repMsg, encVarint_ne_nil]

/-- a repeated type id: the LAST one wins (as coded: `typeid = protowire.Number(v)` on every
occurrence), wherever it stands -/
theorem consumeItem_type_id_rule (w : Bool) {n1 n2 : Nat} {p : Bytes} (h1 : 1 ≤ n1) (h2 : n1 < 2 ^ 31)
    (h3 : 1 ≤ n2) (h4 : n2 < 2 ^ 31) (hp : p.length < 2 ^ 64) (rest : Bytes) :
    (∃ k, consumeItem w (tag 2 0 ++ encVarint n1 ++ tag 2 0 ++ encVarint n2 ++ tag 3 2 ++ encBytes p ++ tag 1 4 ++ rest) =
      .ok (n2, if w then encBytes p else p, k)) ∧
    (∃ k, consumeItem w (tag 2 0 ++ encVarint n1 ++ tag 3 2 ++ encBytes p ++ tag 2 0 ++ encVarint n2 ++ tag 1 4 ++ rest) =
      .ok (n2, if w then encBytes p else p, k)) := by
  constructor
  · have h := consumeItem_fields w [.typeId n1, .typeId n2, .message (encVarint p.length) p] rest
      (by intro x hx; simp only [List.mem_cons, List.not_mem_nil, or_false] at hx
          rcases hx with rfl | rfl | rfl
          · exact wfTypeId h1 h2
          · exact wfTypeId h3 h4
          · exact wfMsg hp)
      (by simpa [toksLen, Tok.len] using hp)
    simp only [encToks, Tok.enc, List.append_nil, List.append_assoc] at h
    simp only [encBytes, List.append_assoc]
    rw [h]
    cases w <;> simp [stepTok, finMsg, repMsg, encBytes_ne_nil]
  · have h := consumeItem_fields w [.typeId n1, .message (encVarint p.length) p, .typeId n2] rest
      (by intro x hx; simp only [List.mem_cons, List.not_mem_nil, or_false] at hx
          rcases hx with rfl | rfl | rfl
          · exact wfTypeId h1 h2
          · exact wfMsg hp
          · exact wfTypeId h3 h4)
      (by simpa [toksLen, Tok.len] using hp)
    simp only [encToks, Tok.enc, List.append_nil, List.append_assoc] at h
    simp only [encBytes, List.append_assoc]
    rw [h]
    cases w <;> simp [stepTok, finMsg, repMsg, encBytes_ne_nil]

/-- an item WITHOUT a type id: `ConsumeFieldValue` succeeds with type id 0 … -/
theorem item_without_type_id (w : Bool) {p : Bytes} (hp : p.length < 2 ^ 64) (rest : Bytes) :
    consumeItem w (tag 3 2 ++ encBytes p ++ tag 1 4 ++ rest) =
      .ok (0, if w then encBytes p else p, (tag 3 2 ++ encBytes p ++ tag 1 4).length) := by
  have h := consumeItem_fields w [.message (encVarint p.length) p] rest
    (by intro x hx; simp only [List.mem_cons, List.not_mem_nil, or_false] at hx; subst hx; exact wfMsg hp)
    (by simpa [toksLen, Tok.len] using hp)
  simp only [encToks, Tok.enc, List.append_nil, List.append_assoc] at h
  simp only [encBytes, List.append_assoc]
  rw [h]
  cases w <;> simp [stepTok, finMsg, repMsg, encBytes_ne_nil]

/-- … and `Unmarshal` DROPS the whole item (`if typeID == 0 { continue }`): it is neither
delivered nor kept as an unknown field.  The same holds for every top-level field that is not an
item.  General form: on any sequence of well-formed elements, exactly the items that carry a type
id are delivered, in order. -/
theorem unmarshal_elements (w : Bool) (els : List El) (hwf : ∀ x ∈ els, x.WF) :
    unmarshalItems w (encEls els) = .ok (els.filterMap (El.callback w)) :=
  unmarshalItems_els w els hwf

theorem item_without_type_id_dropped (w : Bool) {p : Bytes} (hp : p.length < 2 ^ 64) (els : List El)
    (hwf : ∀ x ∈ els, x.WF) :
    unmarshalItems w (tag 1 3 ++ tag 3 2 ++ encBytes p ++ tag 1 4 ++ encEls els) = unmarshalItems w (encEls els) := by
  have h := unmarshal_elements w (El.item [.message (encVarint p.length) p] :: els) (by
    intro x hx
    simp only [List.mem_cons] at hx
    rcases hx with rfl | hx
    · exact ⟨by intro y hy; simp only [List.mem_cons, List.not_mem_nil, or_false] at hy; subst hy; exact wfMsg hp,
        by simpa [toksLen, Tok.len] using hp⟩
    · exact hwf x hx)
  simp only [encEls, El.enc, encToks, Tok.enc, List.append_nil, List.append_assoc] at h
  simp only [encBytes, List.append_assoc]
  rw [h, unmarshal_elements w els hwf]
  simp [El.callback, stepTok]

/-- an item without a message field: the empty payload; the fast path substitutes the length
prefix `00` ("The message field was missing, which should never happen. Be prepared …") -/
theorem item_without_message (w : Bool) {n : Nat} (h1 : 1 ≤ n) (h2 : n < 2 ^ 31) (rest : Bytes) :
    consumeItem w (tag 2 0 ++ encVarint n ++ tag 1 4 ++ rest) =
      .ok (n, if w then encBytes [] else [], (tag 2 0 ++ encVarint n ++ tag 1 4).length) := by
  have h := consumeItem_fields w [.typeId n] rest
    (by intro x hx; simp only [List.mem_cons, List.not_mem_nil, or_false] at hx; subst hx; exact wfTypeId h1 h2)
    (by simp [toksLen, Tok.len])
  simp only [encToks, Tok.enc, List.append_nil, List.append_assoc] at h
  simp only [List.append_assoc]
  rw [h]
  cases w <;> simp [stepTok, finMsg, repMsg, encBytes]

/-- the loops of the model never run out of their budget (`len(b) + 1` iterations) -/
theorem consumeItem_total (w : Bool) (b : Bytes) :
    consumeItem w b ≠ .error .fuel ∧ unmarshalItems w b ≠ .error .fuel ∧
    ∀ out, appendUnknown out b ≠ .error .fuel :=
  ⟨consumeItem_ne_fuel w b, unmarshalItems_ne_fuel w b, fun out => appendUnknownLoop_ne_fuel _ out b (by omega)⟩

/-! ## 3. sets -/

/-- Well-formed content.  `us` are the unresolved items the unknown bytes stand for. -/
structure WF (known : Nat → Bool) (s : Content) (us : List (Nat × Bytes)) : Prop where
  /-- every populated extension: number 1 … 2^31-1, payload shorter than 2^64, resolvable -/
  items_wf : ∀ x ∈ s.items, ItemWF x ∧ known x.1 = true
  /-- a map keyed by number, listed by ascending number (in particular: distinct) -/
  items_sorted : s.items.Pairwise (fun a b => a.1 < b.1)
  /-- the unknown fields are `(t, bytes)` records of unresolved items -/
  unknown_eq : s.unknown = encodeUnknown us
  unknown_wf : ∀ x ∈ us, ItemWF x ∧ known x.1 = false

example : WF (fun t => t == 1000 || t == 536870912)
    ⟨[(1000, [0x08#8, 0x01#8]), (536870912, [])], encodeUnknown [(5000, [0x01#8]), (3, [])]⟩
    [(5000, [0x01#8]), (3, [])] where
  items_wf := by
    intro x hx
    simp only [List.mem_cons, List.not_mem_nil, or_false] at hx
    rcases hx with rfl | rfl <;> exact ⟨⟨by omega, by omega, by simp⟩, by simp⟩
  items_sorted := by simp
  unknown_eq := rfl
  unknown_wf := by
    intro x hx
    simp only [List.mem_cons, List.not_mem_nil, or_false] at hx
    rcases hx with rfl | rfl <;> exact ⟨⟨by omega, by omega, by simp⟩, by simp⟩

/-- the `AppendUnknown` law: unknown records `(t, p)` — the form in which unresolved items are
stored — are re-emitted AS ITEMS, exactly like extensions -/
theorem appendUnknown_law (b : Bytes) (us : List (Nat × Bytes)) (hwf : ∀ x ∈ us, ItemWF x) :
    appendUnknown b (encodeUnknown us) = .ok (b ++ encodeItems us) :=
  appendUnknown_encodeUnknown b us hwf

/-- … and any unknown record that is NOT length-delimited makes `AppendUnknown` (hence Marshal)
fail with "invalid data in message set unknown fields" (as coded; such a record cannot come out of
`Unmarshal`, which drops non-item fields, only out of `SetUnknown`) -/
theorem appendUnknown_rejects_other_wire_types (b rest : Bytes) {num typ : Nat} (h1 : 1 ≤ num)
    (h2 : num < 2 ^ 31) (ht : typ < 8) (hne : typ ≠ 2) :
    appendUnknown b (tag num typ ++ rest) = .error .unknownData := by
  have hl : (tag num typ ++ rest).length ≠ 0 := by
    have := tag_length_pos num typ; simp only [List.length_append]; omega
  unfold appendUnknown
  simp only [appendUnknownLoop, hl, if_false, decTag_tag h1 h2 ht, wBytes, ne_eq, hne, not_false_eq_true, if_true]

/-- what Marshal writes: the extensions (ascending when `det`), then the unknown records as items -/
theorem encodeSet_eq (det : Bool) {s : Content} {us : List (Nat × Bytes)}
    (hu : s.unknown = encodeUnknown us) (hwf : ∀ x ∈ us, ItemWF x) :
    encodeSet det s = .ok (encodeItems ((if det then sortItems s.items else s.items) ++ us)) := by
  rw [encodeSet, hu, appendUnknown_law _ us hwf, encodeItems_append]

/-- extensions in ANY order with distinct numbers (a Go map iterated in any order — the
non-deterministic reflection path): decoding gives the extensions in the order written, and the
unresolved items back as the same `(t, bytes)` records.  Both paths. -/
theorem decodeSet_encodeItems_any_order (known : Nat → Bool) (w : Bool) (its us : List (Nat × Bytes))
    (hi : ∀ x ∈ its, ItemWF x ∧ known x.1 = true) (hu : ∀ x ∈ us, ItemWF x ∧ known x.1 = false)
    (hd : its.Pairwise (fun a b => a.1 ≠ b.1)) :
    decodeSet known w (encodeItems (its ++ us)) = .ok ⟨its, encodeUnknown us⟩ :=
  decodeSet_encodeItems known w its us hi hu hd

/-- ROUND TRIP.  For every well-formed content, both marshalling modes and both decoding paths:
Marshal succeeds and Unmarshal of its output is the content again (extensions by ascending number,
unknown items preserved as `(t, bytes)` records). -/
theorem decodeSet_encodeSet (known : Nat → Bool) (w det : Bool) (s : Content) (us : List (Nat × Bytes))
    (h : WF known s us) : ∃ b, encodeSet det s = .ok b ∧ decodeSet known w b = .ok s := by
  have hs : sortItems s.items = s.items :=
    List.mergeSort_of_pairwise (h.items_sorted.imp (fun hab => by simpa using Nat.le_of_lt hab))
  refine ⟨encodeItems (s.items ++ us), ?_, ?_⟩
  · rw [encodeSet_eq det h.unknown_eq (fun x hx => (h.unknown_wf x hx).1), hs]; simp
  · rw [decodeSet_encodeItems_any_order known w s.items us h.items_wf h.unknown_wf
      (h.items_sorted.imp (fun hab => Nat.ne_of_lt hab)), ← h.unknown_eq]

/-- the same for a map listed in ANY order: the content comes back as the sorted listing under
`det` (fast path always, reflection path under Deterministic), in the listing's own order otherwise -/
theorem decodeSet_encodeSet_unsorted (known : Nat → Bool) (w det : Bool) (s : Content) (us : List (Nat × Bytes))
    (hi : ∀ x ∈ s.items, ItemWF x ∧ known x.1 = true) (hd : s.items.Pairwise (fun a b => a.1 ≠ b.1))
    (hu : s.unknown = encodeUnknown us) (hwf : ∀ x ∈ us, ItemWF x ∧ known x.1 = false) :
    ∃ b, encodeSet det s = .ok b ∧
      decodeSet known w b = .ok ⟨if det then sortItems s.items else s.items, s.unknown⟩ ∧
      (if det then sortItems s.items else s.items).Perm s.items := by
  have hp : (if det then sortItems s.items else s.items).Perm s.items := by
    cases det
    · exact List.Perm.refl _
    · exact List.mergeSort_perm _ _
  refine ⟨_, encodeSet_eq det hu (fun x hx => (hwf x hx).1), ?_, hp⟩
  rw [decodeSet_encodeItems_any_order known w _ us (fun x hx => hi x (hp.mem_iff.1 hx)) hwf
    (hp.pairwise_iff (fun {a b} (hab : a.1 ≠ b.1) => Ne.symm hab) |>.2 hd), hu]

/-- duplicate ITEMS of one extension are merged (payloads appended), both paths -/
theorem decodeSet_duplicate_items (known : Nat → Bool) (w : Bool) {t : Nat} {p1 p2 : Bytes}
    (h1 : 1 ≤ t) (h2 : t < 2 ^ 31) (hp1 : p1.length < 2 ^ 64) (hp2 : p2.length < 2 ^ 64) (hk : known t = true) :
    decodeSet known w (encodeItem t p1 ++ encodeItem t p2) = .ok ⟨[(t, p1 ++ p2)], []⟩ :=
  MSet.decodeSet_duplicate_items known w h1 h2 hp1 hp2 hk

/-- SIZE.  For EVERY content (no well-formedness needed) and both modes: whenever Marshal
succeeds, `sizeMessageSet` is the length of its output -/
theorem sizeSet_eq_length (det : Bool) (s : Content) (b : Bytes) (h : encodeSet det s = .ok b) :
    sizeSet s = b.length := by
  have := sizeUnknown_append h
  rw [this, encodeItems_length, sizeSet]
  congr 1
  cases det
  · rfl
  · exact (sizeItems_perm (List.mergeSort_perm _ _)).symm

/-- `SizeField` accounts for everything of an item but the message field -/
theorem sizeField_item (n : Nat) (p : Bytes) :
    (encodeItem n p).length = sizeField n + sizeTag 3 + sizeBytes p.length := encodeItem_length n p

/-! ## 4. the lazily kept form of the fast path (refuted obligation `lazy_roundtrip`)

FULL STATEMENT (false of the current code):
  `lazy_roundtrip` : for every extension `t` kept as raw records `rs` (one per occurrence in the input),
     decodeSet known w (encodeLazyItem t (lazyRecords t rs)) = .ok ⟨[(t, concatenation of the payloads of rs)], []⟩
i.e. default Marshal of a lazily decoded MessageSet followed by Unmarshal gives the content back. -/

/-- `_partial`: it holds when the extension occurred ONCE (any valid length prefix): the lazily kept
form IS the item with the received prefix, and decodes to the payload -/
theorem lazy_roundtrip_partial (known : Nat → Bool) (w : Bool) {t : Nat} {lp p : Bytes}
    (h1 : 1 ≤ t) (h2 : t < 2 ^ 31) (h3 : t ≠ 3) (h : IsVarint lp p.length) (hk : known t = true) :
    encodeLazyItem t (lazyRecord t (lp ++ p)) = (rawItem t lp p).enc ∧
    decodeSet known w (encodeLazyItem t (lazyRecord t (lp ++ p))) = .ok ⟨[(t, p)], []⟩ := by
  have e := encodeLazyItem_records t lp p []
  have d := decodeSet_lazyItem known w (t := t) (lp := lp) (p := p) [] h1 h2 h3 h (by simp) hk
  simp only [lazyRecords, List.append_nil] at e d
  exact ⟨by rw [e]; rfl, d⟩

/-- NEGATION, for all inputs: when the extension occurred more than once, the item written by the
default Marshal decodes (on either path) to the FIRST occurrence only … -/
theorem lazy_duplicate_item_lost (known : Nat → Bool) (w : Bool) {t : Nat} {lp p : Bytes} (rs : List (Bytes × Bytes))
    (h1 : 1 ≤ t) (h2 : t < 2 ^ 31) (h3 : t ≠ 3) (h : IsVarint lp p.length)
    (hrs : ∀ r ∈ rs, IsVarint r.1 r.2.length) (hk : known t = true) :
    decodeSet known w (encodeLazyItem t (lazyRecords t ((lp, p) :: rs))) = .ok ⟨[(t, p)], []⟩ :=
  decodeSet_lazyItem known w rs h1 h2 h3 h hrs hk

/-- … whereas the content is the merge of all occurrences (`decodeSet_duplicate_items`): the witness
of the known finding, type id 1000, payloads `08 01` and `10 07` -/
theorem lazy_roundtrip_false :
    let known : Nat → Bool := fun t => t == 1000
    let p1 : Bytes := [0x08#8, 0x01#8]
    let p2 : Bytes := [0x10#8, 0x07#8]
    decodeSet known true (encodeItem 1000 p1 ++ encodeItem 1000 p2) = .ok ⟨[(1000, p1 ++ p2)], []⟩ ∧
    decodeSet known true
      (encodeLazyItem 1000 (lazyRecords 1000 [(encVarint p1.length, p1), (encVarint p2.length, p2)])) =
        .ok ⟨[(1000, p1)], []⟩ ∧
    p1 ≠ p1 ++ p2 := by
  refine ⟨?_, ?_, by decide⟩
  · exact decodeSet_duplicate_items _ true (by omega) (by omega) (by simp) (by simp) (by simp)
  · exact lazy_duplicate_item_lost _ true _ (by omega) (by omega) (by omega) (isVarint_enc (by simp))
      (by intro r hr; simp only [List.mem_cons, List.not_mem_nil, or_false] at hr; subst hr
          exact isVarint_enc (by simp)) (by simp)

/-- the size computed for the lazily kept form is its length (so Size = length holds even there) -/
theorem sizeLazyItem_eq_length (t : Nat) (lb : Bytes) (h : sizeTag t ≤ lb.length) :
    (encodeLazyItem t lb).length = sizeLazyItem t lb := encodeLazyItem_length t lb h

/-! ## 5. fast path = reflection path (refuted obligation `paths_agree`)

FULL STATEMENT (false of the current code):
  `paths_agree` : ∀ known b, decodeSet known true b = decodeSet known false b. -/

/-- what each path stores for an unresolved item whose message field has the length prefix `lp`:
the fast path keeps `lp` as received, the reflection path writes the minimal prefix -/
theorem unknown_item_stored (known : Nat → Bool) (w : Bool) {t : Nat} {lp p : Bytes}
    (h1 : 1 ≤ t) (h2 : t < 2 ^ 31) (h : IsVarint lp p.length) (hk : known t = false) :
    decodeSet known w (rawItem t lp p).enc =
      .ok ⟨[], tag t 2 ++ (if w then lp else encVarint p.length) ++ p⟩ :=
  decodeSet_rawItem_unknown known w h1 h2 h hk

/-- NEGATION, for all inputs: the two paths differ exactly when the prefix is not the minimal one -/
theorem unknown_length_prefix_paths_differ (known : Nat → Bool) {t : Nat} {lp p : Bytes}
    (h1 : 1 ≤ t) (h2 : t < 2 ^ 31) (h : IsVarint lp p.length) (hk : known t = false) :
    decodeSet known true (rawItem t lp p).enc = decodeSet known false (rawItem t lp p).enc ↔
      lp = encVarint p.length := by
  rw [unknown_item_stored known true h1 h2 h hk, unknown_item_stored known false h1 h2 h hk]
  simp

/-- the witness of the known finding: type id 5000, payload `08 01`, length prefix `82 00` -/
theorem paths_agree_false :
    let b := (rawItem 5000 [0x82#8, 0x00#8] [0x08#8, 0x01#8]).enc
    decodeSet (fun _ => false) true b ≠ decodeSet (fun _ => false) false b := by
  intro b
  have hv : IsVarint [0x82#8, 0x00#8] ([0x08#8, 0x01#8] : Bytes).length := by
    intro r; simp [decVarint, decVarintAux]
  rw [Ne, unknown_length_prefix_paths_differ _ (by omega) (by omega) hv rfl]
  rw [encVarint_lt (by simp)]
  decide

/-- `_partial`: on the encoder's own output (minimal prefixes) the two paths agree — this is
`decodeSet_encodeSet`, whose right-hand side does not depend on `w` -/
theorem paths_agree_partial (known : Nat → Bool) (det : Bool) (s : Content) (us : List (Nat × Bytes))
    (h : WF known s us) :
    ∃ b, encodeSet det s = .ok b ∧ decodeSet known true b = decodeSet known false b := by
  obtain ⟨b, hb, _⟩ := decodeSet_encodeSet known true det s us h
  obtain ⟨b', hb', hd'⟩ := decodeSet_encodeSet known false det s us h
  obtain ⟨_, _, hd⟩ := decodeSet_encodeSet known true det s us h
  exact ⟨b, hb, by
    have : b = b' := by rw [hb] at hb'; exact (Except.ok.inj hb')
    subst this
    obtain ⟨b2, hb2, hd2⟩ := decodeSet_encodeSet known true det s us h
    have : b = b2 := by rw [hb] at hb2; exact (Except.ok.inj hb2)
    subst this
    rw [hd2, hd']⟩

end C47
