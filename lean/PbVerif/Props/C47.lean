import PbVerif.Lemmas.MSetTotal
/-
C47 — MessageSet encoding round-trips and matches the item format.

Statements are about `Model/MSet.lean`, the line-by-line model of
internal/encoding/messageset/messageset.go, proto/messageset.go (reflection path, `wantLen = false`)
and internal/impl/codec_messageset.go (fast path, `wantLen = true`); the model is tied to the Go
code by the `mset` harness (exact results and error codes of the messageset functions; proto.Unmarshal
/ Marshal / Size of the generated types in both builds and of dynamicpb).

Every theorem holds for ALL type ids 1 … 2^31-1, payloads, continuations (`rest`) and — where
a `wantLen` / `det` parameter appears — for both paths and both marshalling modes.

History: two obligations — `lazy_roundtrip` and `paths_agree` — were FALSE of the code this check was
first built against (known findings mset-lazy-duplicate-item-remarshal and
mset-unknown-item-nonminimal-length-fast-vs-reflection).  Both defects were repaired in /repo
(2afca19, ff1f95d); the model follows the repaired code and both obligations are now proved at full
strength (sections 4, 5).  The old-code witnesses survive only as labelled regression examples in
`C47.Old` (about definitions of the OLD code kept in Lemmas/MSetLazy.lean, namespace `MSet.Old`).
-/
namespace C47
open Spec MSet

/-! ## 1. the item format -/

/-- an extension `n` with payload `p` is written as
`start-group(1) · type_id(2, varint) = n · message(3, bytes) = p · end-group(1)` -/
theorem encodeItem_format (n : Nat) (p : Bytes) :
    encodeItem n p =
      tag 1 3 ++ tag 2 0 ++ encVarint n ++ tag 3 2 ++ encVarint p.length ++ p ++ tag 1 4 := by
  simp [encodeItem, appendFieldEnd, appendFieldStart, encBytes, fieldItem, fieldTypeID, fieldMessage,
    wStartGroup, wVarint, wBytes, wEndGroup]

/-- the four tags are the single bytes 0b, 10, 1a, 0c -/
theorem item_tags : tag 1 3 = [0x0b#8] ∧ tag 2 0 = [0x10#8] ∧ tag 3 2 = [0x1a#8] ∧ tag 1 4 = [0x0c#8] := by
  refine ⟨?_, ?_, ?_, ?_⟩ <;> simp [tag, encTag, encVarint_lt]

/-- the part of an item behind the start tag, as `ConsumeFieldValue` receives it -/
def itemBody (n : Nat) (p : Bytes) : Bytes := tag 2 0 ++ encVarint n ++ tag 3 2 ++ encBytes p ++ tag 1 4

theorem encodeItem_body (n : Nat) (p : Bytes) : encodeItem n p = tag 1 3 ++ itemBody n p := by
  simp [encodeItem_format, itemBody, encBytes]

/-! ## 2. `ConsumeFieldValue` -/

/-- GENERAL FORM.  On any sequence of well-formed fields `toks` (type ids, message fields with any
valid length prefix, arbitrary other fields) followed by the end marker, `ConsumeFieldValue`
returns: the LAST type id (0 if there is none); the concatenation of the payloads of all message
fields — on the fast path (`w = true`) behind a length prefix, which is the received one when
there was a single message field and the minimal one otherwise, and `00` when there was none —;
and the length up to and including the end marker.  Other fields are skipped.  `rest` is arbitrary. -/
theorem consumeItem_fields (w : Bool) (toks : List Tok) (rest : Bytes)
    (hwf : ∀ x ∈ toks, x.WF) (hlen : toksLen toks < 2 ^ 64) :
    consumeItem w (encToks toks ++ (tag 1 4 ++ rest)) =
      .ok ((toks.foldl stepTok (0, none)).1, finMsg w (repMsg w (toks.foldl stepTok (0, none)).2),
        (encToks toks ++ tag 1 4).length) :=
  consumeItem_toks w toks rest hwf hlen

private theorem wfTypeId {n : Nat} (h1 : 1 ≤ n) (h2 : n < 2 ^ 31) : (Tok.typeId n).WF := ⟨h1, h2⟩
private theorem wfMsg {p : Bytes} (h : p.length < 2 ^ 64) : (Tok.message (encVarint p.length) p).WF :=
  isVarint_enc h

private theorem encBytes_ne_nil (p : Bytes) : ¬ (encVarint p.length = [] ∧ p = []) := fun h =>
  encVarint_ne_nil _ h.1

/-- round trip of one item, any continuation: reflection path gets the payload, fast path the
payload behind its length prefix; `n` bytes = the whole body -/
theorem consumeItem_encodeItem (w : Bool) {n : Nat} {p : Bytes} (h1 : 1 ≤ n) (h2 : n < 2 ^ 31)
    (hp : p.length < 2 ^ 64) (rest : Bytes) :
    consumeItem w (itemBody n p ++ rest) = .ok (n, if w then encBytes p else p, (itemBody n p).length) := by
  have h := consumeItem_fields w [.typeId n, .message (encVarint p.length) p] rest
    (by intro x hx; simp only [List.mem_cons, List.not_mem_nil, or_false] at hx
        rcases hx with rfl | rfl
        · exact wfTypeId h1 h2
        · exact wfMsg hp)
    (by simpa [toksLen, Tok.len] using hp)
  simp only [encToks, Tok.enc, List.append_nil, List.append_assoc] at h
  simp only [itemBody, encBytes, List.append_assoc]
  rw [h]
  cases w <;> simp [stepTok, finMsg, repMsg, encBytes_ne_nil]

/-- message field BEFORE the type id: decodes the same -/
theorem consumeItem_either_order (w : Bool) {n : Nat} {p : Bytes} (h1 : 1 ≤ n) (h2 : n < 2 ^ 31)
    (hp : p.length < 2 ^ 64) (rest : Bytes) :
    consumeItem w (tag 3 2 ++ encBytes p ++ tag 2 0 ++ encVarint n ++ tag 1 4 ++ rest) =
      .ok (n, if w then encBytes p else p, (itemBody n p).length) := by
  have h := consumeItem_fields w [.message (encVarint p.length) p, .typeId n] rest
    (by intro x hx; simp only [List.mem_cons, List.not_mem_nil, or_false] at hx
        rcases hx with rfl | rfl
        · exact wfMsg hp
        · exact wfTypeId h1 h2)
    (by simpa [toksLen, Tok.len] using hp)
  simp only [encToks, Tok.enc, List.append_nil, List.append_assoc] at h
  simp only [encBytes, List.append_assoc]
  rw [h]
  cases w <;> simp [stepTok, finMsg, repMsg, encBytes_ne_nil, itemBody, encBytes] <;> omega

/-- duplicate message fields are CONCATENATED (as coded: "multiple message fields, which need to be
merged"); on the fast path the length prefix is rebuilt for the concatenation -/
theorem consumeItem_dup_message (w : Bool) {n : Nat} {p1 p2 : Bytes} (h1 : 1 ≤ n) (h2 : n < 2 ^ 31)
    (hp : p1.length + p2.length < 2 ^ 64) (rest : Bytes) :
    consumeItem w (tag 2 0 ++ encVarint n ++ tag 3 2 ++ encBytes p1 ++ tag 3 2 ++ encBytes p2 ++ tag 1 4 ++ rest) =
      .ok (n, if w then encBytes (p1 ++ p2) else p1 ++ p2,
        (tag 2 0 ++ encVarint n ++ tag 3 2 ++ encBytes p1 ++ tag 3 2 ++ encBytes p2 ++ tag 1 4).length) := by
  have h := consumeItem_fields w
    [.typeId n, .message (encVarint p1.length) p1, .message (encVarint p2.length) p2] rest
    (by intro x hx; simp only [List.mem_cons, List.not_mem_nil, or_false] at hx
        rcases hx with rfl | rfl | rfl
        · exact wfTypeId h1 h2
        · exact wfMsg (by omega)
        · exact wfMsg (by omega))
    (by simp only [toksLen, Tok.len]; omega)
  simp only [encToks, Tok.enc, List.append_nil, List.append_assoc] at h
  simp only [encBytes, List.append_assoc]
  rw [h]
  cases w <;> simp [stepTok, finMsg, repMsg, encVarint_ne_nil]

/-- a repeated type id: the LAST one wins (as coded: `typeid = protowire.Number(v)` on every
occurrence), wherever it stands -/
theorem consumeItem_type_id_rule (w : Bool) {n1 n2 : Nat} {p : Bytes} (h1 : 1 ≤ n1) (h2 : n1 < 2 ^ 31)
    (h3 : 1 ≤ n2) (h4 : n2 < 2 ^ 31) (hp : p.length < 2 ^ 64) (rest : Bytes) :
    (∃ k, consumeItem w (tag 2 0 ++ encVarint n1 ++ tag 2 0 ++ encVarint n2 ++ tag 3 2 ++ encBytes p ++ tag 1 4 ++ rest) =
      .ok (n2, if w then encBytes p else p, k)) ∧
    (∃ k, consumeItem w (tag 2 0 ++ encVarint n1 ++ tag 3 2 ++ encBytes p ++ tag 2 0 ++ encVarint n2 ++ tag 1 4 ++ rest) =
      .ok (n2, if w then encBytes p else p, k)) := by
  constructor
  · have h := consumeItem_fields w [.typeId n1, .typeId n2, .message (encVarint p.length) p] rest
      (by intro x hx; simp only [List.mem_cons, List.not_mem_nil, or_false] at hx
          rcases hx with rfl | rfl | rfl
          · exact wfTypeId h1 h2
          · exact wfTypeId h3 h4
          · exact wfMsg hp)
      (by simpa [toksLen, Tok.len] using hp)
    simp only [encToks, Tok.enc, List.append_nil, List.append_assoc] at h
    simp only [encBytes, List.append_assoc]
    rw [h]
    cases w <;> simp [stepTok, finMsg, repMsg, encBytes_ne_nil]
  · have h := consumeItem_fields w [.typeId n1, .message (encVarint p.length) p, .typeId n2] rest
      (by intro x hx; simp only [List.mem_cons, List.not_mem_nil, or_false] at hx
          rcases hx with rfl | rfl | rfl
          · exact wfTypeId h1 h2
          · exact wfMsg hp
          · exact wfTypeId h3 h4)
      (by simpa [toksLen, Tok.len] using hp)
    simp only [encToks, Tok.enc, List.append_nil, List.append_assoc] at h
    simp only [encBytes, List.append_assoc]
    rw [h]
    cases w <;> simp [stepTok, finMsg, repMsg, encBytes_ne_nil]

/-- an item WITHOUT a type id: `ConsumeFieldValue` succeeds with type id 0 … -/
theorem item_without_type_id (w : Bool) {p : Bytes} (hp : p.length < 2 ^ 64) (rest : Bytes) :
    consumeItem w (tag 3 2 ++ encBytes p ++ tag 1 4 ++ rest) =
      .ok (0, if w then encBytes p else p, (tag 3 2 ++ encBytes p ++ tag 1 4).length) := by
  have h := consumeItem_fields w [.message (encVarint p.length) p] rest
    (by intro x hx; simp only [List.mem_cons, List.not_mem_nil, or_false] at hx; subst hx; exact wfMsg hp)
    (by simpa [toksLen, Tok.len] using hp)
  simp only [encToks, Tok.enc, List.append_nil, List.append_assoc] at h
  simp only [encBytes, List.append_assoc]
  rw [h]
  cases w <;> simp [stepTok, finMsg, repMsg, encBytes_ne_nil]

/-- … and `Unmarshal` DROPS the whole item (`if typeID == 0 { continue }`): it is neither
delivered nor kept as an unknown field.  The same holds for every top-level field that is not an
item.  General form: on any sequence of well-formed elements, exactly the items that carry a type
id are delivered, in order. -/
theorem unmarshal_elements (w : Bool) (els : List El) (hwf : ∀ x ∈ els, x.WF) :
    unmarshalItems w (encEls els) = .ok (els.filterMap (El.callback w)) :=
  unmarshalItems_els w els hwf

theorem item_without_type_id_dropped (w : Bool) {p : Bytes} (hp : p.length < 2 ^ 64) (els : List El)
    (hwf : ∀ x ∈ els, x.WF) :
    unmarshalItems w (tag 1 3 ++ tag 3 2 ++ encBytes p ++ tag 1 4 ++ encEls els) = unmarshalItems w (encEls els) := by
  have h := unmarshal_elements w (El.item [.message (encVarint p.length) p] :: els) (by
    intro x hx
    simp only [List.mem_cons] at hx
    rcases hx with rfl | hx
    · exact ⟨by intro y hy; simp only [List.mem_cons, List.not_mem_nil, or_false] at hy; subst hy; exact wfMsg hp,
        by simpa [toksLen, Tok.len] using hp⟩
    · exact hwf x hx)
  simp only [encEls, El.enc, encToks, Tok.enc, List.append_nil, List.append_assoc] at h
  simp only [encBytes, List.append_assoc]
  rw [h, unmarshal_elements w els hwf]
  simp [El.callback, stepTok]

/-- an item without a message field: the empty payload; the fast path substitutes the length
prefix `00` ("The message field was missing, which should never happen. Be prepared …") -/
theorem item_without_message (w : Bool) {n : Nat} (h1 : 1 ≤ n) (h2 : n < 2 ^ 31) (rest : Bytes) :
    consumeItem w (tag 2 0 ++ encVarint n ++ tag 1 4 ++ rest) =
      .ok (n, if w then encBytes [] else [], (tag 2 0 ++ encVarint n ++ tag 1 4).length) := by
  have h := consumeItem_fields w [.typeId n] rest
    (by intro x hx; simp only [List.mem_cons, List.not_mem_nil, or_false] at hx; subst hx; exact wfTypeId h1 h2)
    (by simp [toksLen, Tok.len])
  simp only [encToks, Tok.enc, List.append_nil, List.append_assoc] at h
  simp only [List.append_assoc]
  rw [h]
  cases w <;> simp [stepTok, finMsg, repMsg, encBytes]

/-- the loops of the model never run out of their budget (`len(b) + 1` iterations) -/
theorem consumeItem_total (w : Bool) (b : Bytes) :
    consumeItem w b ≠ .error .fuel ∧ unmarshalItems w b ≠ .error .fuel ∧
    ∀ out, appendUnknown out b ≠ .error .fuel :=
  ⟨consumeItem_ne_fuel w b, unmarshalItems_ne_fuel w b, fun out => appendUnknownLoop_ne_fuel _ out b (by omega)⟩

/-- the Go slice expression `message[nn:]` (merge of a further message field on the fast path) never
panics: the `panic` result of the model is unreachable on any input shorter than 2^64 bytes -/
theorem consumeItem_no_panic (w : Bool) (b : Bytes) (h : b.length < 2 ^ 64) :
    consumeItem w b ≠ .error .panic ∧ unmarshalItems w b ≠ .error .panic :=
  ⟨consumeItem_ne_panic w b h, unmarshalItems_ne_panic w b h⟩

/-! ## 3. sets -/

/-- Well-formed content.  `us` are the unresolved items the unknown bytes stand for. -/
structure WF (known : Nat → Bool) (s : Content) (us : List (Nat × Bytes)) : Prop where
  /-- every populated extension: number 1 … 2^31-1, payload shorter than 2^64, resolvable -/
  items_wf : ∀ x ∈ s.items, ItemWF x ∧ known x.1 = true
  /-- a map keyed by number, listed by ascending number (in particular: distinct) -/
  items_sorted : s.items.Pairwise (fun a b => a.1 < b.1)
  /-- the unknown fields are `(t, bytes)` records of unresolved items -/
  unknown_eq : s.unknown = encodeUnknown us
  unknown_wf : ∀ x ∈ us, ItemWF x ∧ known x.1 = false

example : WF (fun t => t == 1000 || t == 536870912)
    ⟨[(1000, [0x08#8, 0x01#8]), (536870912, [])], encodeUnknown [(5000, [0x01#8]), (3, [])]⟩
    [(5000, [0x01#8]), (3, [])] where
  items_wf := by
    intro x hx
    simp only [List.mem_cons, List.not_mem_nil, or_false] at hx
    rcases hx with rfl | rfl <;> exact ⟨⟨by omega, by omega, by simp⟩, by simp⟩
  items_sorted := by simp
  unknown_eq := rfl
  unknown_wf := by
    intro x hx
    simp only [List.mem_cons, List.not_mem_nil, or_false] at hx
    rcases hx with rfl | rfl <;> exact ⟨⟨by omega, by omega, by simp⟩, by simp⟩

/-- the `AppendUnknown` law: unknown records `(t, p)` — the form in which unresolved items are
stored — are re-emitted AS ITEMS, exactly like extensions -/
theorem appendUnknown_law (b : Bytes) (us : List (Nat × Bytes)) (hwf : ∀ x ∈ us, ItemWF x) :
    appendUnknown b (encodeUnknown us) = .ok (b ++ encodeItems us) :=
  appendUnknown_encodeUnknown b us hwf

/-- … and any unknown record that is NOT length-delimited makes `AppendUnknown` (hence Marshal)
fail with "invalid data in message set unknown fields" (as coded; such a record cannot come out of
`Unmarshal`, which drops non-item fields, only out of `SetUnknown`) -/
theorem appendUnknown_rejects_other_wire_types (b rest : Bytes) {num typ : Nat} (h1 : 1 ≤ num)
    (h2 : num < 2 ^ 31) (ht : typ < 8) (hne : typ ≠ 2) :
    appendUnknown b (tag num typ ++ rest) = .error .unknownData := by
  have hl : (tag num typ ++ rest).length ≠ 0 := by
    have := tag_length_pos num typ; simp only [List.length_append]; omega
  unfold appendUnknown
  simp only [appendUnknownLoop, hl, if_false, decTag_tag h1 h2 ht, wBytes, ne_eq, hne, not_false_eq_true, if_true]

/-- what Marshal writes: the extensions (ascending when `det`), then the unknown records as items -/
theorem encodeSet_eq (det : Bool) {s : Content} {us : List (Nat × Bytes)}
    (hu : s.unknown = encodeUnknown us) (hwf : ∀ x ∈ us, ItemWF x) :
    encodeSet det s = .ok (encodeItems ((if det then sortItems s.items else s.items) ++ us)) := by
  rw [encodeSet, hu, appendUnknown_law _ us hwf, encodeItems_append]

/-- extensions in ANY order with distinct numbers (a Go map iterated in any order — the
non-deterministic reflection path): decoding gives the extensions in the order written, and the
unresolved items back as the same `(t, bytes)` records.  Both paths. -/
theorem decodeSet_encodeItems_any_order (known : Nat → Bool) (w : Bool) (its us : List (Nat × Bytes))
    (hi : ∀ x ∈ its, ItemWF x ∧ known x.1 = true) (hu : ∀ x ∈ us, ItemWF x ∧ known x.1 = false)
    (hd : its.Pairwise (fun a b => a.1 ≠ b.1)) :
    decodeSet known w (encodeItems (its ++ us)) = .ok ⟨its, encodeUnknown us⟩ :=
  decodeSet_encodeItems known w its us hi hu hd

/-- ROUND TRIP.  For every well-formed content, both marshalling modes and both decoding paths:
Marshal succeeds and Unmarshal of its output is the content again (extensions by ascending number,
unknown items preserved as `(t, bytes)` records). -/
theorem decodeSet_encodeSet (known : Nat → Bool) (w det : Bool) (s : Content) (us : List (Nat × Bytes))
    (h : WF known s us) : ∃ b, encodeSet det s = .ok b ∧ decodeSet known w b = .ok s := by
  have hs : sortItems s.items = s.items :=
    List.mergeSort_of_pairwise (h.items_sorted.imp (fun hab => by simpa using Nat.le_of_lt hab))
  refine ⟨encodeItems (s.items ++ us), ?_, ?_⟩
  · rw [encodeSet_eq det h.unknown_eq (fun x hx => (h.unknown_wf x hx).1), hs]; simp
  · rw [decodeSet_encodeItems_any_order known w s.items us h.items_wf h.unknown_wf
      (h.items_sorted.imp (fun hab => Nat.ne_of_lt hab)), ← h.unknown_eq]

/-- the same for a map listed in ANY order: the content comes back as the sorted listing under
`det` (fast path always, reflection path under Deterministic), in the listing's own order otherwise -/
theorem decodeSet_encodeSet_unsorted (known : Nat → Bool) (w det : Bool) (s : Content) (us : List (Nat × Bytes))
    (hi : ∀ x ∈ s.items, ItemWF x ∧ known x.1 = true) (hd : s.items.Pairwise (fun a b => a.1 ≠ b.1))
    (hu : s.unknown = encodeUnknown us) (hwf : ∀ x ∈ us, ItemWF x ∧ known x.1 = false) :
    ∃ b, encodeSet det s = .ok b ∧
      decodeSet known w b = .ok ⟨if det then sortItems s.items else s.items, s.unknown⟩ ∧
      (if det then sortItems s.items else s.items).Perm s.items := by
  have hp : (if det then sortItems s.items else s.items).Perm s.items := by
    cases det
    · exact List.Perm.refl _
    · exact List.mergeSort_perm _ _
  refine ⟨_, encodeSet_eq det hu (fun x hx => (hwf x hx).1), ?_, hp⟩
  rw [decodeSet_encodeItems_any_order known w _ us (fun x hx => hi x (hp.mem_iff.1 hx)) hwf
    (hp.pairwise_iff (fun {a b} (hab : a.1 ≠ b.1) => Ne.symm hab) |>.2 hd), hu]

/-- duplicate ITEMS of one extension are merged (payloads appended), both paths -/
theorem decodeSet_duplicate_items (known : Nat → Bool) (w : Bool) {t : Nat} {p1 p2 : Bytes}
    (h1 : 1 ≤ t) (h2 : t < 2 ^ 31) (hp1 : p1.length < 2 ^ 64) (hp2 : p2.length < 2 ^ 64) (hk : known t = true) :
    decodeSet known w (encodeItem t p1 ++ encodeItem t p2) = .ok ⟨[(t, p1 ++ p2)], []⟩ :=
  MSet.decodeSet_duplicate_items known w h1 h2 hp1 hp2 hk

/-- SIZE.  For EVERY content (no well-formedness needed) and both modes: whenever Marshal
succeeds, `sizeMessageSet` is the length of its output -/
theorem sizeSet_eq_length (det : Bool) (s : Content) (b : Bytes) (h : encodeSet det s = .ok b) :
    sizeSet s = b.length := by
  have := sizeUnknown_append h
  rw [this, encodeItems_length, sizeSet]
  congr 1
  cases det
  · rfl
  · exact (sizeItems_perm (List.mergeSort_perm _ _)).symm

/-- `SizeField` accounts for everything of an item but the message field -/
theorem sizeField_item (n : Nat) (p : Bytes) :
    (encodeItem n p).length = sizeField n + sizeTag 3 + sizeBytes p.length := encodeItem_length n p

/-! ## 4. the lazily kept form of the fast path -/

/-- what the default Marshal writes for an extension kept as raw records `rs` (one `(length prefix,
payload)` per occurrence in the input): ONE item, one message field per record -/
theorem encodeLazyItem_format (t : Nat) (rs : List (Bytes × Bytes)) (hv : ∀ r ∈ rs, IsVarint r.1 r.2.length) :
    encodeLazyItem t (lazyRecords t rs) = .ok (El.item (.typeId t :: lazyMsgs rs)).enc :=
  encodeLazyItem_records t rs hv

/-- LAZY ROUND TRIP, full strength: for every extension `t` kept as ANY number of raw records with any
valid length prefixes, the pass-through does not panic, and decoding what it writes — on either
path — gives the extension with the payloads of all occurrences appended, which is what decoding
the original items eagerly gives (`decodeSet_duplicate_items`) -/
theorem lazy_roundtrip (known : Nat → Bool) (w : Bool) {t : Nat} (rs : List (Bytes × Bytes))
    (h1 : 1 ≤ t) (h2 : t < 2 ^ 31) (hrs : ∀ r ∈ rs, IsVarint r.1 r.2.length)
    (hlen : (lazyPayload rs).length < 2 ^ 64) (hk : known t = true) :
    ∃ b, encodeLazyItem t (lazyRecords t rs) = .ok b ∧
      decodeSet known w b = .ok ⟨[(t, lazyPayload rs)], []⟩ :=
  decodeSet_lazyItem known w rs h1 h2 hrs hlen hk

example : ∃ b, encodeLazyItem 1000 (lazyRecords 1000
      [(encVarint 2, [0x08#8, 0x01#8]), (encVarint 2, [0x10#8, 0x07#8])]) = .ok b ∧
    decodeSet (fun t => t == 1000) true b = .ok ⟨[(1000, [0x08#8, 0x01#8, 0x10#8, 0x07#8])], []⟩ :=
  lazy_roundtrip _ true _ (by omega) (by omega)
    (by intro r hr; simp only [List.mem_cons, List.not_mem_nil, or_false] at hr
        rcases hr with rfl | rfl <;> exact isVarint_enc (by simp))
    (by simp [lazyPayload]) (by simp)

/-- the size computed for the lazily kept form is the length of what is written -/
theorem sizeLazyItem_eq_length {t : Nat} {lb out : Bytes} (h : encodeLazyItem t lb = .ok out) :
    sizeLazyItem t lb = .ok out.length := encodeLazyItem_length h

/-! ## 5. fast path = reflection path -/

/-- an unresolved item is stored byte for byte — length prefix `lp` as received — on both paths -/
theorem unknown_item_stored (known : Nat → Bool) (w : Bool) {t : Nat} {lp p : Bytes}
    (h1 : 1 ≤ t) (h2 : t < 2 ^ 31) (h : IsVarint lp p.length) (hk : known t = false) :
    decodeSet known w (rawItem t lp p).enc = .ok ⟨[], tag t 2 ++ lp ++ p⟩ :=
  decodeSet_rawItem_unknown known w h1 h2 h hk

/-- every value that `messageset.Unmarshal(b, true, fn)` hands to `fn` is read back by
`protowire.ConsumeBytes` (so the extension coder of the fast path and the ignored error of
`mv, _ := protowire.ConsumeBytes(v)` on the reflection path never see a failure) -/
theorem callback_values_wellformed (b : Bytes) (hb : b.length < 2 ^ 64) (cs : List (Nat × Bytes))
    (h : unmarshalItems true b = .ok cs) : ∀ x ∈ cs, ∃ p k, decBytes x.2 = .ok (p, k) :=
  itemsLoop_result _ b hb cs h

/-- PATHS AGREE, full strength: for EVERY resolver and EVERY input (shorter than 2^64 bytes) the
fast path and the reflection path decode to the same content or fail alike -/
theorem paths_agree (known : Nat → Bool) (b : Bytes) (hb : b.length < 2 ^ 64) :
    decodeSet known true b = decodeSet known false b :=
  decodeSet_paths known b hb

/-! ## historical regression examples (the code BEFORE 2afca19 / ff1f95d) -/
namespace Old
open MSet.Old

/-- before 2afca19: the item written for an extension that occurred more than once decoded to the
FIRST occurrence only (type id 1000, payloads `08 01` and `10 07`) -/
theorem old_lazy_duplicate_item_lost :
    let p1 : Bytes := [0x08#8, 0x01#8]
    let p2 : Bytes := [0x10#8, 0x07#8]
    decodeSet (fun t => t == 1000) true
      (MSet.Old.encodeLazyItem 1000 (lazyRecords 1000 [(encVarint p1.length, p1), (encVarint p2.length, p2)])) =
        .ok ⟨[(1000, p1)], []⟩ :=
  MSet.Old.decodeSet_lazyItem _ true _ (by omega) (by omega) (by omega) (isVarint_enc (by simp))
    (by intro r hr; simp only [List.mem_cons, List.not_mem_nil, or_false] at hr; subst hr
        exact isVarint_enc (by simp)) (by simp)

/-- before ff1f95d: the reflection path rewrote the length prefix of an unresolved item minimally, so
it differed from the fast path exactly on non-minimal prefixes (witness `0b1088271a820008010c`) -/
theorem old_unknown_length_prefix_paths_differ (known : Nat → Bool) {t : Nat} {lp p : Bytes}
    (h1 : 1 ≤ t) (h2 : t < 2 ^ 31) (h : IsVarint lp p.length) (hk : known t = false) :
    decodeSetRefl known (rawItem t lp p).enc = decodeSet known true (rawItem t lp p).enc ↔
      lp = encVarint p.length := by
  rw [decodeSetRefl_rawItem_unknown known h1 h2 h hk, unknown_item_stored known true h1 h2 h hk]
  simp [wBytes, eq_comm]

end Old

end C47
