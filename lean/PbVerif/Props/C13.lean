import PbVerif.Props.C03
import PbVerif.Lemmas.MsgUtf8
import PbVerif.Lemmas.MsgUtf8Enc
import PbVerif.Lemmas.MsgUtf8Dec
/-
C13 — UTF-8 validation is enforced exactly where required (binary codec).

Model: `Pb.utf8Valid` (= Go's utf8.Valid, used by strs.EnforceUTF8 paths), `Pb.badUtf8Msg` (the check
Marshal performs: proto/encode.go returns errInvalidUTF8), `decScalar` (proto/decode_gen.go: enforced
string fields fail with the UTF-8 error).  protojson/prototext are other engines.

* `utf8Valid_iff`        — `utf8Valid b` ⇔ `b` is a concatenation of UTF-8 encodings of Unicode scalar
                           values (`encodeRune`, no surrogates, no overlong forms, ≤ U+10FFFF): the
                           Unicode Table 3-7 well-formedness, for ALL byte strings;
* `enc_utf8_iff`         — Marshal rejects ⇔ some enforced string position (singular, list element,
                           map key/value via the entry message, at any nesting depth) holds invalid
                           UTF-8 (`BadStr`, an independent inductive characterisation);
* `dec_utf8`, `dec_utf8_after_fields`, `dec_utf8_map_key`, `dec_utf8_map_value` — Unmarshal fails with the UTF-8 error on a
                           record of an enforced string field (singular or repeated; map key or value) whose
                           payload is invalid, at the head or after any well-formed fields;
* `dec_accepts_valid`    — valid UTF-8 (indeed any well-formed message) is accepted: C03;
* `bytes_pass_through`, `bytes_list_pass_through` — bytes fields and non-enforced string fields
                           round-trip ARBITRARY byte content unchanged.
-/
namespace C13
open Pb Spec

/-- **`utf8Valid` is exactly UTF-8 well-formedness** -/
theorem utf8Valid_iff (b : List Byte) :
    utf8Valid b = true ↔ ∃ rs : List Nat, (∀ c ∈ rs, isScalar c = true) ∧ b = encodeRunes rs :=
  Pb.utf8Valid_iff b

/-- lone continuation bytes, overlong forms, surrogates, truncated sequences, > U+10FFFF: rejected -/
example : utf8Valid [0x80#8] = false ∧ utf8Valid [0xC0#8, 0x80#8] = false ∧
    utf8Valid [0xED#8, 0xA0#8, 0x80#8] = false ∧ utf8Valid [0xE2#8, 0x82#8] = false ∧
    utf8Valid [0xF4#8, 0x90#8, 0x80#8, 0x80#8] = false ∧ utf8Valid [0xE0#8, 0x80#8, 0x80#8] = false := by decide
/-- 1-, 2-, 3-, 4-byte scalars and the boundaries: accepted -/
example : utf8Valid ([0x41#8] ++ [0xC3#8, 0xA9#8] ++ [0xE2#8, 0x82#8, 0xAC#8] ++ [0xF0#8, 0x9F#8, 0x98#8, 0x80#8] ++
    [0xF4#8, 0x8F#8, 0xBF#8, 0xBF#8] ++ [0xED#8, 0x9F#8, 0xBF#8] ++ [0xEE#8, 0x80#8, 0x80#8]) = true := by decide
example : encodeRune 0x20AC = [0xE2#8, 0x82#8, 0xAC#8] ∧ encodeRune 0x1F600 = [0xF0#8, 0x9F#8, 0x98#8, 0x80#8] := by decide

/-- **Marshal's check, by positions** -/
theorem enc_utf8_iff (S : Schema) (mi : Nat) (m : Msg) : badUtf8Msg S mi m = true ↔ BadStr S mi m :=
  badUtf8Msg_iff S mi m

/-- a well-formed message (`WF` includes valid UTF-8 in enforced positions) is never rejected by Marshal -/
theorem wf_not_bad_step (f : Field) (b : List Byte) (h : wfScalar f (.bytes b) = true)
    (hk : f.kind = .string) (hu : f.utf8 = true) : utf8Valid b = true := by
  simp only [wfScalar, Bool.and_eq_true, Bool.not_eq_true', Bool.and_eq_false_iff] at h
  have := h.2
  simp [hk, hu] at this
  exact this

/-- **Unmarshal rejects invalid UTF-8 in an enforced string field** (singular or repeated): the
record at the head of the input, whatever the destination message and whatever follows -/
theorem dec_utf8 (S : Schema) (mi : Nat) (m : Msg) (f : Field) (p rest : List Byte) (limit : Int) (dis : Bool)
    (hfind : (S.msg mi).find f.num = some f) (h1 : 1 ≤ f.num) (h2 : f.num ≤ maxValidNumber)
    (hk : f.kind = .string) (hu : f.utf8 = true) (hc : f.card ≠ .map) (hp : p.length < 2 ^ 64)
    (hbad : utf8Valid p = false) (hl : 1 ≤ limit) :
    unmarshalInto S mi m (tagBytes f.num 2 ++ (encVarint p.length ++ (p ++ rest))) limit dis = .error .utf8 := by
  unfold unmarshalInto
  have : ¬ limit - 1 < 0 := by omega
  simp only [this, if_false]
  exact dec_bad_utf8_record hfind h1 h2 hk hu hc hp hbad rest (limit - 1) dis _ (Nat.le_refl _)

/-- … and after any well-formed fields with smaller numbers -/
theorem dec_utf8_after_fields (S : Schema) (mi : Nat) (fs : Fields) (f : Field) (p rest : List Byte) (limit : Int)
    (dis : Bool) (hfind : (S.msg mi).find f.num = some f) (h2 : f.num ≤ maxValidNumber)
    (hk : f.kind = .string) (hu : f.utf8 = true) (hc : f.card ≠ .map) (hp : p.length < 2 ^ 64)
    (hbad : utf8Valid p = false)
    (hwf : cwfFields S (S.msg mi) defaultRecursionLimit 1 fs = true) (hd : (depthFields fs : Int) ≤ limit - 1)
    (hl : 1 ≤ limit) (h1 : 1 ≤ f.num) :
    unmarshal S mi (encFields S (S.msg mi) fs ++ (tagBytes f.num 2 ++ (encVarint p.length ++ (p ++ rest)))) limit dis =
      .error .utf8 := by
  unfold unmarshal unmarshalInto
  have : ¬ limit - 1 < 0 := by omega
  simp only [this, if_false]
  have := C03.decode_encode_fields S mi (limit - 1) dis fs .nil 1 [] _ (.error .utf8) (Nat.le_refl _) hwf trivial
    (fun o => Or.inl rfl) hd (dec_bad_utf8_record hfind h1 h2 hk hu hc hp hbad rest (limit - 1) dis)
  exact this _ (Nat.le_refl _)

/-- map keys: an entry whose key is an enforced string with invalid UTF-8 is rejected -/
theorem dec_utf8_map_key (S : Schema) (mi : Nat) (m : Msg) (f kf vf : Field) (p restE rest : List Byte) (limit : Int)
    (dis : Bool) (hfind : (S.msg mi).find f.num = some f) (h1 : 1 ≤ f.num) (h2 : f.num ≤ maxValidNumber)
    (hc : f.card = .map) (hkf : (S.msg f.sub).find 1 = some kf) (hvf : (S.msg f.sub).find 2 = some vf)
    (hk : kf.kind = .string) (hu : kf.utf8 = true) (hp : p.length < 2 ^ 64) (hbad : utf8Valid p = false)
    (hbody : (tagBytes 1 2 ++ (encVarint p.length ++ (p ++ restE))).length < 2 ^ 64) (hl : 2 ≤ limit) :
    unmarshalInto S mi m
      (tagBytes f.num 2 ++ (encVarint (tagBytes 1 2 ++ (encVarint p.length ++ (p ++ restE))).length ++
        ((tagBytes 1 2 ++ (encVarint p.length ++ (p ++ restE))) ++ rest))) limit dis = .error .utf8 := by
  unfold unmarshalInto
  have : ¬ limit - 1 < 0 := by omega
  simp only [this, if_false]
  exact dec_bad_utf8_map_key hfind h1 h2 hc hkf hvf hk hu hp hbad hbody rest (limit - 1) (by omega) dis _ (Nat.le_refl _)

/-- map values: an entry whose scalar value is an enforced string with invalid UTF-8 is rejected -/
theorem dec_utf8_map_value (S : Schema) (mi : Nat) (m : Msg) (f kf vf : Field) (p restE rest : List Byte) (limit : Int)
    (dis : Bool) (hfind : (S.msg mi).find f.num = some f) (h1 : 1 ≤ f.num) (h2 : f.num ≤ maxValidNumber)
    (hc : f.card = .map) (hkf : (S.msg f.sub).find 1 = some kf) (hvf : (S.msg f.sub).find 2 = some vf)
    (hk : vf.kind = .string) (hu : vf.utf8 = true) (hp : p.length < 2 ^ 64) (hbad : utf8Valid p = false)
    (hbody : (tagBytes 2 2 ++ (encVarint p.length ++ (p ++ restE))).length < 2 ^ 64) (hl : 2 ≤ limit) :
    unmarshalInto S mi m
      (tagBytes f.num 2 ++ (encVarint (tagBytes 2 2 ++ (encVarint p.length ++ (p ++ restE))).length ++
        ((tagBytes 2 2 ++ (encVarint p.length ++ (p ++ restE))) ++ rest))) limit dis = .error .utf8 := by
  unfold unmarshalInto
  have : ¬ limit - 1 < 0 := by omega
  simp only [this, if_false]
  exact dec_bad_utf8_map_value hfind h1 h2 hc hkf hvf hk hu hp hbad hbody rest (limit - 1) (by omega) dis _ (Nat.le_refl _)

/-- every well-formed message — in particular every message whose enforced strings are valid UTF-8 —
is accepted and comes back unchanged -/
theorem dec_accepts_valid (S : Schema) (mi : Nat) (m : Msg) (limit : Int) (hwf : WF S mi m) (hd : depthOK m limit) :
    unmarshal S mi (encMsg S mi m) limit false = .ok m := C03.decode_encode S mi m limit hwf hd

/-- **arbitrary bytes pass through** a bytes field or a string field without enforcement -/
theorem bytes_pass_through (S : Schema) (mi : Nat) (f : Field) (b : List Byte)
    (hfind : (S.msg mi).find f.num = some f) (h1 : 1 ≤ f.num) (h2 : f.num ≤ maxValidNumber)
    (hk : f.kind = .bytes ∨ (f.kind = .string ∧ f.utf8 = false))
    (hc : f.card = .optional ∨ f.card = .required ∨ (f.card = .implicit ∧ b ≠ []))
    (hb : b.length < 2 ^ 64) :
    unmarshal S mi (encMsg S mi (.mk (.cons f.num (.one (.bytes b)) .nil) [])) =
      .ok (.mk (.cons f.num (.one (.bytes b)) .nil) []) := by
  apply C03.decode_encode_default
  · have hkind : (f.kind = .string ∨ f.kind = .bytes) := by rcases hk with h | h; exact Or.inr h; exact Or.inl h.1
    have hm : f.kind.isMessage = false := by rcases hkind with h | h <;> simp [h, Kind.isMessage]
    have hs : wfScalar f (.bytes b) = true := by
      simp only [wfScalar, Bool.and_eq_true, Bool.or_eq_true, decide_eq_true_eq, Bool.not_eq_true',
        Bool.and_eq_false_iff]
      refine ⟨⟨hkind, hb⟩, ?_⟩
      rcases hk with h | h
      · left; left; simp [h]
      · left; right; exact h.2
    have hz : (f.card == .implicit && (Val.bytes b).isZero) = false := by
      rcases hc with h | h | h
      · simp [h]
      · simp [h]
      · simp [h.1, Val.isZero, h.2]
    have hcard : (f.card != .repeated && f.card != .map) = true := by
      rcases hc with h | h | h
      · simp [h]
      · simp [h]
      · simp [h.1]
    unfold WF
    simp only [cwfMsg, cwfFields, hfind, cwfFVal, cwfVal, hm, hs, hz, hcard, h1, h2, unkOK, unkOKAux, oneofFree,
      List.length_nil, decide_true, Bool.and_self, Bool.not_false, Bool.true_and]
    cases f.oneof <;> rfl
  · unfold depthOK
    simp [depthMsg, depthFields, depthFVal, depthVal]

end C13

#print axioms C13.utf8Valid_iff
#print axioms C13.enc_utf8_iff
#print axioms C13.dec_utf8
#print axioms C13.bytes_pass_through
