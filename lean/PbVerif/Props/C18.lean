import PbVerif.Model.ConcCode
import PbVerif.Lemmas.ConcLazy
/-
C18 — Concurrent readers of a lazily decoded message are safe and consistent.

All theorems are about `Conc.Code.lazyCfg present buf decode`: the lazy-field protocol whose
variant (publish by CAS-from-nil / plain store; result = re-loaded cell / own object) is selected
by the shape facts extracted from the Go sources of the current tree (Gen/ConcFacts.lean).  They
hold for EVERY reachable state of the interleaving semantics `Conc.Lazy.Step`: all schedules,
any number of threads (`pc : Nat → PC`), any presence bit, any buffer and any pure decoder.

Level: protocol, sequentially consistent atomics (one step = one atomic action).  Freedom from
data races under the Go memory model is observed with the race detector by the harness, not proved.
-/
namespace C18
open Conc Conc.Lazy Conc.Code

variable {β α : Type}

/-- the code has the protocol shape the proofs need: publish = CAS from nil, result = re-load.
(`decide` on the generated facts: breaks when the shape of the code changes.) -/
theorem code_shape (present : Bool) (buf : β) (entries : Nat) (decodeK : β → Nat → α) :
    (lazyCfg present buf entries decodeK).Safe :=
  ⟨(by decide : lazyPublish = .cas), (by decide : lazyResult = .reload), (by decide : lazyTiming = .afterAll)⟩

/-- the extracted shape facts, spelled out -/
theorem shape_facts :
    Gen.ConcFacts.setIfNilIsCAS = true ∧ Gen.ConcFacts.lazyUnmarshalDecodesIntoFresh = true ∧
    Gen.ConcFacts.lazyUnmarshalPublishesViaSetIfNil = true ∧ Gen.ConcFacts.lazyUnmarshalPublishesAfterAllEntries = true ∧
    Gen.ConcFacts.getterLoadsAreAtomic = true ∧
    Gen.ConcFacts.generatorEmitsProtocolOrder = true ∧
    Gen.ConcFacts.generatedLazyGettersConforming = Gen.ConcFacts.generatedLazyGetters ∧
    Gen.ConcFacts.reflectLazySitesReloading = Gen.ConcFacts.reflectLazySites := by decide

section
variable {present : Bool} {buf : β} {entries : Nat} {decodeK : β → Nat → α}
local notation "cfg" => lazyCfg present buf entries decodeK

/-- The pointer cell changes at most once: once set it keeps its value in every later state. -/
theorem cell_changes_at_most_once {s t : State α} (_ : Reachable cfg s) (h : Steps cfg s t) {v : Nat}
    (hv : s.cell = some v) : t.cell = some v :=
  steps_cell_stable (code_shape present buf entries decodeK) h hv

/-- … and the one change is nil → the object some thread decoded and is publishing. -/
theorem cell_only_nil_to_decoded {s t : State α} (st : Step cfg s t) (hne : t.cell ≠ s.cell) :
    s.cell = none ∧ ∃ i m k, s.pc i = .own m k true ∧ t.cell = some m :=
  step_cell_change st hne (code_shape present buf entries decodeK)

/-- All readers that have returned hold the same submessage instance, and it is the cell's value. -/
theorem readers_agree {s : State α} (r : Reachable cfg s) {i j v w : Nat}
    (hi : s.pc i = .done (some v)) (hj : s.pc j = .done (some w)) : v = w ∧ s.cell = some v := by
  have inv := inv_reachable (code_shape present buf entries decodeK) r
  have a := inv.done_cell i v hi
  have b := inv.done_cell j w hj
  rw [a] at b
  exact ⟨Option.some.inj b, a⟩

/-- A returned result is never revised. -/
theorem result_stable {s t : State α} (h : Steps cfg s t) {i : Nat} {res : Option Nat}
    (hd : s.pc i = .done res) : t.pc i = .done res := by
  induction h with
  | refl => exact hd
  | tail _ st ih => exact step_done_stable st ih

/-- The object of a losing CAS is never returned by any reader and is never the cell's value:
it is unreachable from the message. -/
theorem loser_never_returned {s : State α} (r : Reachable cfg s) {m : Nat} (hl : s.lost m = true) :
    (∀ i, s.pc i ≠ .done (some m)) ∧ s.cell ≠ some m := by
  have inv := inv_reachable (code_shape present buf entries decodeK) r
  have hc : s.cell ≠ some m := by
    intro h
    have := (inv.cell_ok m h).2.1
    rw [hl] at this; cases this
  exact ⟨fun i hi => hc (inv.done_cell i m hi), hc⟩

/-- No reader is stuck at `load`: when a thread reaches the load the cell is set. -/
theorem load_enabled {s : State α} (r : Reachable cfg s) {i : Nat} (h : s.pc i = .load) : ∃ v, s.cell = some v := by
  have inv := inv_reachable (code_shape present buf entries decodeK) r
  cases hc : s.cell with
  | none => exact absurd hc (inv.load_set i h)
  | some v => exact ⟨v, rfl⟩

/-- Progress: every thread that has not returned can take a step, whatever the others did
(no thread ever waits for another one: the protocol is lock-free and panic-free). -/
theorem reader_never_stuck {s : State α} (r : Reachable cfg s) (i : Nat) (hnd : ∀ res, s.pc i ≠ .done res) :
    ∃ t, Step cfg s t ∧ t.pc i ≠ s.pc i :=
  enabled (code_shape present buf entries decodeK) r i hnd

/-- The common result equals the sequential result: a reader returns nil iff the field is absent,
and otherwise an object holding exactly the complete decoding of the buffer (all index entries merged). -/
theorem result_eq_sequential {s : State α} (r : Reachable cfg s) {i : Nat} {res : Option Nat}
    (hd : s.pc i = .done res) : res.bind s.heap = seqResult cfg := by
  have inv := inv_reachable (code_shape present buf entries decodeK) r
  cases res with
  | none =>
    have hp : present = false := inv.pres_no i hd
    simp [seqResult, lazyCfg, hp]
  | some v =>
    have hp : present = true := inv.pres_yes i (by rw [hd]; intro h; cases h) (by rw [hd]; intro h; cases h)
    have := (inv.cell_ok v (inv.done_cell i v hd)).2.2
    simp [seqResult, lazyCfg, hp, this]

/-- The published object, too, holds the decoding of the buffer (so every later reader and every
serialisation of the message sees what a sequential decode would have produced). -/
theorem cell_eq_sequential {s : State α} (r : Reachable cfg s) {v : Nat} (hc : s.cell = some v) :
    s.heap v = some (decodeK buf entries) := by
  have inv := inv_reachable (code_shape present buf entries decodeK) r
  exact (inv.cell_ok v hc).2.2

end

/-- a thread that owns a private object finishes the loop over the index entries on its own -/
theorem merge_all {cfg : Cfg β α} (safe : cfg.Safe) (i m : Nat) :
    ∀ (n k : Nat) (s : State α), k + n = cfg.entries → s.pc i = .own m k false → s.heap m = some (cfg.decodeK cfg.buf k) →
      ∃ t, Steps cfg s t ∧ t.pc i = .own m cfg.entries true ∧ t.heap m = some cfg.full ∧ t.cell = s.cell := by
  have hm : ∀ m k, afterMerge cfg m k = .own m k false := by intro m k; simp [afterMerge, safe.afterAll]
  have hl : ∀ m k, afterLoop cfg m k = .own m k true := by intro m k; simp [afterLoop, safe.afterAll]
  intro n
  induction n with
  | zero =>
    intro k s hk hpc hh
    have hke : k = cfg.entries := by omega
    refine ⟨_, Steps.tail (Steps.refl s) (Step.merge_end s i m k hpc (by omega)), ?_, ?_, rfl⟩
    · simp [upd, hl, hke]
    · simp [hh, hke, Cfg.full]
  | succ n ih =>
    intro k s hk hpc hh
    have st := Step.merge (cfg := cfg) s i m k hpc (by omega)
    obtain ⟨t, h1, h2, h3, h4⟩ := ih (k + 1)
      { s with heap := upd s.heap m (some (cfg.decodeK cfg.buf (k + 1))), pc := upd s.pc i (afterMerge cfg m (k + 1)) }
      (by omega) (by simp [upd, hm]) (by simp [upd])
    exact ⟨t, Steps.head st h1, h2, h3, by simpa using h4⟩

/-- a thread that finds the cell nil and is not disturbed decodes, publishes and returns its own,
complete object -/
theorem lone_decoder_finishes {cfg : Cfg β α} (safe : cfg.Safe) (i : Nat) (s : State α)
    (hpc : s.pc i = .decode) (hc : s.cell = none) :
    ∃ t, Steps cfg s t ∧ t.pc i = .done (some s.next) ∧ t.heap s.next = some cfg.full := by
  have ha : ∀ m k, afterCas cfg m k = .load := by
    intro m k; simp [afterCas, afterPublish, safe.afterAll, safe.reload]
  have st1 := Step.alloc (cfg := cfg) s i hpc
  obtain ⟨t, h1, h2, h3, h4⟩ := merge_all safe i s.next cfg.entries 0
    { s with next := s.next + 1, heap := upd s.heap s.next (some (cfg.decodeK cfg.buf 0)), pc := upd s.pc i (.own s.next 0 false) }
    (by omega) (by simp [upd]) (by simp [upd])
  have hcell : t.cell = none := by rw [h4]; exact hc
  have st2 := Step.cas_win (cfg := cfg) t i s.next _ h2 safe.cas hcell
  have st3 := Step.load (cfg := cfg)
    { t with cell := some s.next, pc := upd t.pc i (afterCas cfg s.next cfg.entries) } i s.next (by simp [upd, ha]) rfl
  exact ⟨_, Steps.tail (Steps.tail (Steps.head st1 h1) st2) st3, by simp [upd], by simpa using h3⟩

/-- The sequential run itself (one thread, alone) ends in `done` with the sequential result,
whatever the number of index entries. -/
theorem sequential_run (present : Bool) (buf : β) (entries : Nat) (decodeK : β → Nat → α) :
    ∃ s res, Reachable (lazyCfg present buf entries decodeK) s ∧ s.pc 0 = .done res ∧
      res.bind s.heap = seqResult (lazyCfg present buf entries decodeK) := by
  have safe := code_shape present buf entries decodeK
  cases present with
  | false =>
    refine ⟨_, none, Reachable.step Reachable.init (Step.present_no init 0 rfl rfl), ?_, ?_⟩
    · simp [upd]
    · simp [seqResult, lazyCfg]
  | true =>
    let s1 : State α := { (init : State α) with pc := upd (init : State α).pc 0 .checkNil }
    let s2 : State α := { s1 with pc := upd s1.pc 0 .decode }
    have r1 : Reachable (lazyCfg true buf entries decodeK) s1 := Reachable.step Reachable.init (Step.present_yes init 0 rfl rfl)
    have r2 : Reachable (lazyCfg true buf entries decodeK) s2 := Reachable.step r1 (Step.checkNil_nil s1 0 (by simp [s1, upd]) rfl)
    obtain ⟨t, h1, h2, h3⟩ := lone_decoder_finishes safe 0 s2 (by simp [s2, upd]) rfl
    exact ⟨t, _, steps_reachable r2 h1, h2, by simp [h3, seqResult, lazyCfg]⟩

/-- The sync.Map caches of internal/impl/legacy_*.go (Load; compute; LoadOrStore; return the stored
value) are the same publish-once protocol: all callers obtain the same cached object. -/
theorem legacy_cache_agree {key : β} {compute : β → α} {s : State α}
    (r : Reachable (legacyCacheCfg key compute) s) {i j v w : Nat}
    (hi : s.pc i = .done (some v)) (hj : s.pc j = .done (some w)) : v = w ∧ s.heap v = some (compute key) := by
  have safe : (legacyCacheCfg key compute).Safe := ⟨(by decide : legacyCachePublish = .cas), rfl, rfl⟩
  have inv := inv_reachable safe r
  have a := inv.done_cell i v hi
  have b := inv.done_cell j w hj
  rw [a] at b
  exact ⟨Option.some.inj b, (inv.cell_ok v a).2.2⟩

/-! ### Non-vacuity: reachable states with many threads in distinct phases -/

/-- the code's protocol over a concrete buffer: the field occurs in two non-contiguous pieces
(two index entries); merging the first k entries yields the first k pieces -/
abbrev demo : Cfg (List Nat) (List Nat) := lazyCfg true [8, 1] 2 (fun b k => b.take k)

/-- allocation and both merges of thread i -/
abbrev dec (i obj : Nat) : List Ev := decodeEvents demo i obj

/-- six threads in six phases: 0 has returned object 0; 1 decoded object 1 completely and is about
to lose its CAS; 2 lost its CAS and waits at the load; 3 is in the middle of the merge loop (one
of two entries merged); 4 is at the nil check; 5 has not started. -/
def demoSchedule : List Ev :=
  [.present 0 true, .present 1 true, .present 2 true, .present 3 true, .present 4 true,
   .checkNil 0 true, .checkNil 1 true, .checkNil 2 true, .checkNil 3 true] ++
  dec 0 0 ++ dec 1 1 ++ dec 2 2 ++ [.alloc 3 3, .merge 3] ++
  [.publish 0 true, .publish 2 false, .load 0 0]

example : acceptsTrace demo demoSchedule = true := by decide

example :
    let s := run demo demoSchedule
    Reachable demo s ∧ s.pc 0 = .done (some 0) ∧ s.pc 1 = .own 1 2 true ∧ s.pc 2 = .load ∧ s.pc 3 = .own 3 1 false ∧
    s.pc 4 = .checkNil ∧ s.pc 5 = .checkPresent ∧ s.cell = some 0 ∧ s.lost 2 = true ∧ s.lost 0 = false ∧
    s.heap 0 = some [8, 1] ∧ s.heap 3 = some [8] :=
  ⟨run_reachable demo demoSchedule, by decide, by decide, by decide, by decide, by decide, by decide, by decide, by decide,
   by decide, by decide, by decide⟩

/-- the same schedule continued to the end: five readers hold the same, complete object -/
example :
    let s := run demo (demoSchedule ++ [.publish 1 false, .load 1 0, .load 2 0, .merge 3, .mergeEnd 3, .publish 3 false, .load 3 0,
      .checkNil 4 false, .load 4 0])
    s.pc 0 = .done (some 0) ∧ s.pc 1 = .done (some 0) ∧ s.pc 2 = .done (some 0) ∧ s.pc 3 = .done (some 0) ∧ s.pc 4 = .done (some 0) ∧
    s.lost 1 = true ∧ s.lost 2 = true ∧ s.lost 3 = true ∧ s.heap 0 = some [8, 1] := by decide

/-! ### The theorems are sensitive to the protocol shape -/

/-- If `AtomicSetPointerIfNil` were a plain atomic store, two readers could return different
instances (and the first reader's instance would no longer be the message's submessage). -/
theorem plain_store_breaks_agreement :
    let bad : Cfg (List Nat) (List Nat) := { demo with publish := .store }
    ∃ s, Reachable bad s ∧ s.pc 0 = .done (some 0) ∧ s.pc 1 = .done (some 1) ∧ s.cell = some 1 := by
  intro bad
  let tr : List Ev := [.present 0 true, .present 1 true, .checkNil 0 true, .checkNil 1 true] ++ dec 0 0 ++ dec 1 1 ++
    [.publish 0 true, .load 0 0, .publish 1 true, .load 1 1]
  exact ⟨run bad tr, run_reachable bad tr, by decide, by decide, by decide⟩

/-- If the getter returned the pointer it decoded itself instead of re-loading the cell, a reader
that lost the CAS would return an object that is not the message's submessage. -/
theorem returning_own_object_breaks_agreement :
    let bad : Cfg (List Nat) (List Nat) := { demo with result := .mine }
    ∃ s, Reachable bad s ∧ s.pc 0 = .done (some 0) ∧ s.pc 1 = .done (some 1) ∧ s.cell = some 0 ∧ s.lost 1 = true := by
  intro bad
  let tr : List Ev := [.present 0 true, .present 1 true, .checkNil 0 true, .checkNil 1 true] ++ dec 0 0 ++ dec 1 1 ++
    [.publish 0 true, .publish 1 false]
  exact ⟨run bad tr, run_reachable bad tr, by decide, by decide, by decide, by decide⟩

/-- If `lazyUnmarshal` published the object inside the loop over the index entries (publish, then
keep merging into the shared object), a concurrent reader could return the submessage while only
the first of its two wire occurrences has been merged: its result is NOT the sequential result,
and the object it holds is still being written by another thread. -/
theorem publish_before_complete_breaks_result :
    let bad : Cfg (List Nat) (List Nat) := { demo with timing := .insideLoop }
    ∃ s, Reachable bad s ∧ s.pc 1 = .done (some 0) ∧ s.pc 0 = .own 0 1 false ∧
      (some 0).bind s.heap = some [8] ∧ seqResult bad = some [8, 1] := by
  intro bad
  let tr : List Ev := [.present 0 true, .checkNil 0 true, .alloc 0 0, .merge 0, .publish 0 true,
    .present 1 true, .checkNil 1 false, .load 1 0]
  exact ⟨run bad tr, run_reachable bad tr, by decide, by decide, by decide, by decide⟩

/-- … and that reader's object changes under its hands afterwards (readers of the same message no
longer agree on the content they saw). -/
example :
    let bad : Cfg (List Nat) (List Nat) := { demo with timing := .insideLoop }
    let s := run bad [.present 0 true, .checkNil 0 true, .alloc 0 0, .merge 0, .publish 0 true,
      .present 1 true, .checkNil 1 false, .load 1 0, .merge 0, .publish 0 false, .mergeEnd 0, .load 0 0]
    s.pc 0 = .done (some 0) ∧ s.pc 1 = .done (some 0) ∧ s.heap 0 = some [8, 1] := by decide

/-- traces that are not runs of the code's protocol are rejected: a second CAS winner, a load that
returns something else than the cell, a decode after the cell was seen non-nil, a CAS before all
entries are merged, a second publication by the same call -/
example : acceptsTrace demo ([.present 0 true, .present 1 true, .checkNil 0 true, .checkNil 1 true] ++
    dec 0 0 ++ dec 1 1 ++ [.publish 0 true, .publish 1 true]) = false := by decide
example : acceptsTrace demo ([.present 0 true, .checkNil 0 true] ++ dec 0 0 ++ [.publish 0 true, .load 0 1]) = false := by decide
example : acceptsTrace demo ([.present 0 true, .checkNil 0 true] ++ dec 0 0 ++ [.publish 0 true, .load 0 0,
    .present 1 true, .checkNil 1 true]) = false := by decide
example : acceptsTrace demo [.present 0 true, .checkNil 0 true, .alloc 0 0, .merge 0, .publish 0 true] = false := by decide
example : acceptsTrace demo ([.present 0 true, .checkNil 0 true] ++ dec 0 0 ++ [.publish 0 true, .alloc 0 1]) = false := by decide

end C18
