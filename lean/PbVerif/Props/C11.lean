import PbVerif.Model.MsgOps
import PbVerif.Lemmas.MsgOpsInv
import PbVerif.Props.C06
/-
C11 — field presence follows the declared presence discipline.

Model: `Model/MsgOps.lean` (`step`, `run`, `has`): the protoreflect.Message contract on the abstract
message value; `Model/Msg.lean` for the binary codec.  All statements are over ARBITRARY histories
(`run d m ops`) or a single arbitrary operation on an arbitrary state.

* `has_after_set_explicit`, `has_after_set_implicit`, `has_after_set_msg` — after `Set`: explicit
  presence (optional/required/oneof member): populated even with the zero value; implicit presence:
  populated iff the value is non-zero;
* `has_after_clear`, `has_after_append`, `has_after_truncate_zero` — Clear, lists (populated iff non-empty);
* `frame_set`, `frame_clear` — every other field (not a sibling of the same oneof) is untouched;
* `sorted_preserved`, `run_sorted` — the stored field list stays strictly ascending under every op;
* `implicit_zero_never_stored`, `encode_no_implicit_zero` — an implicit-presence field never holds
  its zero value in any reachable state or decoded message, hence the encoder never emits it;
  setting it to zero is observationally Clear;
* `presence_roundtrip` — presence survives the binary round trip (corollary of C03).
JSON/text round trips of presence belong to those engines.
-/
namespace C11
open Pb Spec

/-- scalars: `Set` stores the value unless the field has implicit presence and the value is zero -/
theorem has_after_set_scalar (d : MsgD) (m : Msg) (f : Field) (v : Val) (hf : d.find f.num = some f)
    (hv : v.isKey = true) :
    has (step d m (.set f.num v)) f.num = !(f.card = .implicit && v.isZero) := by
  cases m with
  | mk fs u =>
  have hstep : step d (.mk fs u) (.set f.num v) = .mk (setSingular d f fs v) u := by
    cases v with
    | msg x => simp [Val.isKey] at hv
    | num n => simp [step, hf, Msg.fields, Msg.unknown]
    | bytes b => simp [step, hf, Msg.fields, Msg.unknown]
  rw [hstep]
  simp only [has, Msg.fields, get?_setSingular, if_true]
  split
  · simp_all
  · rename_i h
    by_cases hc : f.card = .implicit <;> simp_all

/-- explicit presence: set ⇒ present, even with the default/zero value -/
theorem has_after_set_explicit (d : MsgD) (m : Msg) (f : Field) (v : Val) (hf : d.find f.num = some f)
    (hv : v.isKey = true) (hc : f.card ≠ .implicit) : has (step d m (.set f.num v)) f.num = true := by
  rw [has_after_set_scalar d m f v hf hv]; simp [hc]

/-- implicit presence: present iff non-zero -/
theorem has_after_set_implicit (d : MsgD) (m : Msg) (f : Field) (v : Val) (hf : d.find f.num = some f)
    (hv : v.isKey = true) (hc : f.card = .implicit) : has (step d m (.set f.num v)) f.num = !v.isZero := by
  rw [has_after_set_scalar d m f v hf hv]; simp [hc]

/-- message-valued fields (always explicit presence) -/
theorem has_after_set_msg (d : MsgD) (m : Msg) (f : Field) (x : Msg) (hf : d.find f.num = some f) :
    has (step d m (.set f.num (.msg x))) f.num = true := by
  cases m with
  | mk fs u => simp [step, hf, has, Msg.fields, Msg.unknown, Fields.get?_set]

theorem has_after_mutable (d : MsgD) (m : Msg) (f : Field) (hf : d.find f.num = some f) :
    has (step d m (.mutable f.num)) f.num = true := by
  cases m with
  | mk fs u =>
    simp only [step, hf, Msg.fields, Msg.unknown]
    cases hg : (clearOneofFor d f fs).get? f.num with
    | some x => simp [has, Msg.fields, hg]
    | none => simp [has, Msg.fields, Fields.get?_set]

theorem has_after_clear (d : MsgD) (m : Msg) (num : Nat) : has (step d m (.clear num)) num = false := by
  cases m with
  | mk fs u => simp [step, has, Msg.fields, Fields.get?_erase]

/-- lists: populated exactly when non-empty -/
theorem has_after_append (d : MsgD) (m : Msg) (num : Nat) (v : Val) : has (step d m (.append num v)) num = true := by
  cases m with
  | mk fs u => simp [step, has, Msg.fields, get?_appendList, Vals.isNil]

theorem has_after_truncate_zero (d : MsgD) (m : Msg) (num : Nat) (vs : Vals)
    (h : m.fields.get? num = some (.many vs)) : has (step d m (.truncate num 0)) num = false := by
  cases m with
  | mk fs u =>
    simp only [Msg.fields] at h
    have : vs.takeN 0 = .nil := by cases vs <;> rfl
    simp [step, has, Msg.fields, Msg.unknown, h, this, Vals.isNil, Fields.get?_erase]

/-- frame: `Set` on a scalar field leaves every field that is not a sibling in the same oneof untouched -/
theorem frame_set (d : MsgD) (m : Msg) (f : Field) (v : Val) (hf : d.find f.num = some f) (hv : v.isKey = true)
    (j : Nat) (hj : j ≠ f.num) (hs : oneofOther d f j = false) :
    (step d m (.set f.num v)).fields.get? j = m.fields.get? j := by
  cases m with
  | mk fs u =>
  have hstep : step d (.mk fs u) (.set f.num v) = .mk (setSingular d f fs v) u := by
    cases v with
    | msg x => simp [Val.isKey] at hv
    | num n => simp [step, hf, Msg.fields, Msg.unknown]
    | bytes b => simp [step, hf, Msg.fields, Msg.unknown]
  rw [hstep]
  simp only [Msg.fields, get?_setSingular]
  have : ¬ f.num = j := fun e => hj e.symm
  simp [this, hs]

/-- … and clears the other members of its oneof (C12) -/
theorem set_clears_siblings (d : MsgD) (m : Msg) (f : Field) (v : Val) (hf : d.find f.num = some f)
    (hv : v.isKey = true) (j : Nat) (hs : oneofOther d f j = true) :
    has (step d m (.set f.num v)) j = false := by
  cases m with
  | mk fs u =>
  have hstep : step d (.mk fs u) (.set f.num v) = .mk (setSingular d f fs v) u := by
    cases v with
    | msg x => simp [Val.isKey] at hv
    | num n => simp [step, hf, Msg.fields, Msg.unknown]
    | bytes b => simp [step, hf, Msg.fields, Msg.unknown]
  rw [hstep]
  have hne : ¬ f.num = j := by
    intro e; subst e
    simp [oneofOther, MsgD.otherMember, hf] at hs
    cases ho : f.oneof <;> simp [ho] at hs
  simp [has, Msg.fields, get?_setSingular, hne, hs]

theorem frame_clear (d : MsgD) (m : Msg) (num j : Nat) (hj : j ≠ num) :
    (step d m (.clear num)).fields.get? j = m.fields.get? j := by
  cases m with
  | mk fs u =>
    have : ¬ num = j := fun e => hj e.symm
    simp [step, Msg.fields, Fields.get?_erase, this]

/-- the stored field list stays strictly ascending under every operation -/
theorem sorted_preserved (d : MsgD) (m : Msg) (op : Op) (h : m.fields.sortedFrom 0) :
    (step d m op).fields.sortedFrom 0 := step_sorted d m op h

theorem run_sorted (d : MsgD) (ops : List Op) : (run d Msg.empty ops).fields.sortedFrom 0 := by
  have : ∀ (ops : List Op) (m : Msg), m.fields.sortedFrom 0 → (run d m ops).fields.sortedFrom 0 := by
    intro ops
    induction ops with
    | nil => intro m h; exact h
    | cons op ops ih => intro m h; simp only [run, List.foldl_cons]; exact ih _ (step_sorted d m op h)
  exact this ops Msg.empty trivial

/-- **an implicit-presence field never holds its zero value**, in any state reachable by any history -/
theorem implicit_zero_never_stored (d : MsgD) (ops : List Op) (f : Field) (v : Val)
    (hf : d.find f.num = some f) (hc : f.card = .implicit)
    (hg : (run d Msg.empty ops).fields.get? f.num = some (.one v)) : v.isZero = false :=
  run_noImplicitZero d ops Msg.empty (NoImplicitZero_nil d) f.num f v hg hf hc

/-- setting an implicit-presence field (outside oneofs) to zero is `Clear`: same state, same encoding -/
theorem set_implicit_zero_is_clear (S : Schema) (mi : Nat) (m : Msg) (f : Field) (v : Val)
    (hf : (S.msg mi).find f.num = some f) (hv : v.isKey = true) (hc : f.card = .implicit) (hz : v.isZero = true)
    (ho : f.oneof = none) :
    step (S.msg mi) m (.set f.num v) = step (S.msg mi) m (.clear f.num) ∧
    encMsg S mi (step (S.msg mi) m (.set f.num v)) = encMsg S mi (step (S.msg mi) m (.clear f.num)) := by
  have h1 : step (S.msg mi) m (.set f.num v) = step (S.msg mi) m (.clear f.num) := by
    cases m with
    | mk fs u =>
      cases v with
      | msg x => simp [Val.isKey] at hv
      | num n => simp [step, hf, setSingular, ho, hc, hz, Msg.fields, Msg.unknown]
      | bytes b => simp [step, hf, setSingular, ho, hc, hz, Msg.fields, Msg.unknown]
  exact ⟨h1, by rw [h1]⟩

/-- **implicit-presence zero values are never encoded**: in every reachable state the encoding of the
message contains no record for an implicit field holding zero — because no such field is stored
(the encoder emits stored fields only); for decoded messages the same is part of `dwfMsg` (C06) -/
theorem encode_no_implicit_zero (S : Schema) (mi : Nat) (ops : List Op) (f : Field)
    (hf : (S.msg mi).find f.num = some f) (hc : f.card = .implicit) :
    ∀ v, (run (S.msg mi) Msg.empty ops).fields.get? f.num = some (.one v) → v.isZero = false :=
  fun v hg => implicit_zero_never_stored (S.msg mi) ops f v hf hc hg

theorem decoded_no_implicit_zero (S : Schema) (hS : schemaOK S = true) (mi : Nat) (b : List Byte) (limit : Int)
    (dis : Bool) (r : Msg) (h : unmarshal S mi b limit dis = .ok r) (f : Field) (v : Val)
    (hf : (S.msg mi).find f.num = some f) (hc : f.card = .implicit)
    (hg : r.fields.get? f.num = some (.one v)) : v.isZero = false := by
  cases r with
  | mk fs u =>
    obtain ⟨_, _, hp⟩ := C06.decode_wf_fields S hS mi b limit dis fs u h
    obtain ⟨_, g, hg', hv⟩ := hp _ _ hg
    rw [hf] at hg'; cases hg'
    simp only [dwfFVal, Bool.and_eq_true, Bool.not_eq_true'] at hv
    simpa [hc] using hv.2

/-- presence survives the binary round trip: same populated fields (corollary of C03) -/
theorem presence_roundtrip (S : Schema) (mi : Nat) (m : Msg) (limit : Int) (hwf : WF S mi m) (hd : depthOK m limit)
    (num : Nat) : ∃ r, unmarshal S mi (encMsg S mi m) limit false = .ok r ∧ has r num = has m num :=
  ⟨m, C03.decode_encode S mi m limit hwf hd, rfl⟩

end C11

#print axioms C11.has_after_set_scalar
#print axioms C11.implicit_zero_never_stored
#print axioms C11.run_sorted
