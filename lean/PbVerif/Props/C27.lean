import PbVerif.Lemmas.Delim
/-
C27 — Size-delimited streams frame messages exactly.

All statements are about `Model.Delim` (the model of encoding/protodelim/protodelim.go; see the header of
Model/Delim.lean for what each definition mirrors).  `unmarshalFrom maxSize t s` returns the result of one
`UnmarshalOptions{MaxSize: maxSize}.UnmarshalFrom` on a reader holding the bytes `s` and then reporting `t`
(`io.EOF` or another error) *and the remaining stream*, so every theorem also fixes the position the reader
is left at.  Bodies are opaque byte strings.  The only bounds are the code's own: `MaxSize`, the ten-byte
varint, and `maxAlloc` (no Go slice is longer than that, and `make` panics beyond it).
-/
open Model.Delim
namespace C27

/-- `body` can have been written by `MarshalTo` (a Go slice: `len ≤ maxAlloc`) and is within the limit -/
def Fits (maxSize : Int) (body : List Byte) : Prop :=
  body.length ≤ sizeLimit maxSize ∧ body.length ≤ maxAlloc

/-! ### the varint spec -/

/-- `ConsumeVarint(AppendVarint(nil, n) ++ tl) = (n, len)` for every `uint64` -/
theorem varint_roundtrip (n : Nat) (h : n < 2^64) (tl : List Byte) :
    consumeVarint (encodeVarint n ++ tl) = .ok n (encodeVarint n).length :=
  consumeVarintAux_encode 9 n tl (by omega)

theorem encodeVarint_length (n : Nat) (h : n < 2^64) :
    1 ≤ (encodeVarint n).length ∧ (encodeVarint n).length ≤ 10 := by
  constructor
  · have := encodeVarint_ne_nil n
    cases h' : encodeVarint n with
    | nil => exact absurd h' this
    | cons a l => simp
  · exact encodeVarint_length_le 9 n (by omega)

/-- every way of writing `n` in `len+1 ≤ 10` bytes (minimal or padded with `0x80 … 0x00`) is accepted -/
theorem encFixed_accepted : ∀ (k len n : Nat) (tl : List Byte), len ≤ k → n < 128 ^ (len + 1) →
    (len = k → n < 2 * 128 ^ k) →
    consumeVarintAux (k + 1) (encFixed len n ++ tl) = .ok n (len + 1)
  | k, 0, n, tl, _, hn, hk => by
    have hn' : n < 128 := by simpa using hn
    simp only [encFixed, List.cons_append, List.nil_append, consumeVarintAux]
    rw [toNat_ofNat8 n (by omega)]
    by_cases h0 : k = 0
    · have : n < 2 := by have := hk h0.symm; subst h0; simpa using this
      simp [h0, this]
    · simp [h0, hn']
  | 0, len+1, n, tl, hl, _, _ => by omega
  | k+1, len+1, n, tl, hl, hn, hk => by
    have hq : n / 128 < 128 ^ (len + 1) := by
      rw [Nat.pow_succ] at hn; omega
    have hk' : len = k → n / 128 < 2 * 128 ^ k := by
      intro e
      have := hk (by omega)
      rw [Nat.pow_succ] at this; omega
    have ih := encFixed_accepted k len (n / 128) tl (by omega) hq hk'
    simp only [encFixed, List.cons_append, consumeVarintAux]
    rw [toNat_ofNat8 (n % 128 + 128) (by omega), ih]
    have : ¬ (n % 128 + 128 < 128) := by omega
    simp only [Nat.succ_ne_zero, if_false, this]
    congr 1; omega

theorem encFixed_length : ∀ (len n : Nat), (encFixed len n).length = len + 1
  | 0, _ => rfl
  | len+1, n => by simp [encFixed, encFixed_length len]

/-! ### one call, any accepted size varint -/

/-- A stream that starts with any byte string `enc` which `ConsumeVarint` accepts as one whole varint of value
`v` (minimal or not): the size is `v`, the limit is checked, then the body is read; the position in case of
`SizeTooLargeError` is right behind the size. -/
theorem unmarshalFrom_varint (maxSize : Int) (t : Term) (enc tl : List Byte) (v : Nat)
    (h : consumeVarint enc = .ok v enc.length) :
    unmarshalFrom maxSize t (enc ++ tl) =
      match tooLarge maxSize v with
      | some mx => (.sizeTooLarge v mx, tl)
      | none => readBody t v tl := by
  simp only [unmarshalFrom, unmarshalWith]
  rw [sizeLoop_of_consume t maxVarintLen64 true enc tl v h]
  simp only [afterSize, h]
  cases tooLarge maxSize v <;> rfl

/-- the body phase: enough bytes ⇒ exactly `v` bytes are the body and the reader is left right behind them;
too few ⇒ everything is consumed and the error is `io.ErrUnexpectedEOF` (or the reader's own error) -/
theorem readBody_cases (t : Term) (v : Nat) (tl : List Byte) (hv : v ≤ maxAlloc) :
    readBody t v tl = if v ≤ tl.length then (.ok (tl.take v), tl.drop v) else (t.short, []) := by
  have : ¬ v > maxAlloc := by omega
  simp [readBody, this]

/-! ### round trip -/

theorem unmarshalFrom_frame (maxSize : Int) (t : Term) (body tl : List Byte) (hf : Fits maxSize body) :
    unmarshalFrom maxSize t (frame body ++ tl) = (.ok body, tl) := by
  obtain ⟨h1, h2⟩ := hf
  have hlt : body.length < 2^64 := by simp only [maxAlloc] at h2; omega
  have hv := varint_roundtrip body.length hlt []
  simp only [List.append_nil] at hv
  simp only [frame, List.append_assoc]
  rw [unmarshalFrom_varint maxSize t _ _ _ hv]
  have h3 : ¬ body.length > sizeLimit maxSize := by omega
  simp only [tooLarge, h3, if_false]
  rw [readBody_cases t _ _ h2]
  simp

/-- non-minimal size varints are accepted: the size of `body` written in any `len+1 ≤ 10` bytes -/
theorem nonminimal_size_accepted (maxSize : Int) (t : Term) (len : Nat) (body tl : List Byte)
    (hf : Fits maxSize body) (hlen : len ≤ 9) (hn : body.length < 128 ^ (len + 1)) :
    unmarshalFrom maxSize t (encFixed len body.length ++ (body ++ tl)) = (.ok body, tl) := by
  obtain ⟨h1, h2⟩ := hf
  have hlt : body.length < 2 * 128 ^ 9 := by simp only [maxAlloc] at h2; omega
  have hv := encFixed_accepted 9 len body.length [] hlen hn (fun _ => hlt)
  simp only [List.append_nil] at hv
  rw [← encFixed_length len body.length] at hv
  rw [unmarshalFrom_varint maxSize t _ _ _ hv]
  have h3 : ¬ body.length > sizeLimit maxSize := by omega
  simp only [tooLarge, h3, if_false]
  rw [readBody_cases t _ _ h2]
  simp

/-! ### `readAll` step lemmas (fuel lemmas are in Lemmas/Delim.lean) -/

/-- every outcome leaves the reader at a suffix of the stream (nothing is ever un-read or skipped) -/
theorem rest_suffix (maxSize : Int) (t : Term) (s : List Byte) :
    ∃ used, s = used ++ (unmarshalFrom maxSize t s).2 :=
  Model.Delim.rest_suffix maxSize t s

/-- `readAll` never runs out of fuel -/
theorem readAll_isSome (maxSize : Int) (t : Term) (s : List Byte) : (readAll maxSize t s).isSome :=
  Model.Delim.readAll_isSome maxSize t s

/-- reading a stream that starts with a whole frame: that body, then whatever the rest gives -/
theorem readAll_frame_append (maxSize : Int) (t : Term) (body s : List Byte) (hf : Fits maxSize body) :
    readAll maxSize t (frame body ++ s) =
      (readAll maxSize t s).map fun (bs, r, rest) => (body :: bs, r, rest) := by
  have hne : 0 < (frame body).length := by
    have := encodeVarint_ne_nil body.length
    simp only [frame, List.length_append]
    have := List.length_pos_iff.mpr this; omega
  rw [readAll, readAllFuel, unmarshalFrom_frame maxSize t body s hf]
  simp only
  rw [readAllFuel_eq_readAll maxSize t _ s (by simp only [List.length_append]; omega)]

/-- a call that does not succeed ends `readAll` -/
theorem readAll_stop (maxSize : Int) (t : Term) (s : List Byte) (r : Result) (rest : List Byte)
    (h : unmarshalFrom maxSize t s = (r, rest)) (hr : ∀ b, r ≠ .ok b) :
    readAll maxSize t s = some ([], r, rest) := by
  rw [readAll, readAllFuel, h]
  cases r with
  | ok b => exact absurd rfl (hr b)
  | _ => rfl

/-! ### the property clauses -/

/-- **Round trip, in order.**  Any sequence of bodies written with `MarshalTo`, followed by anything: repeated
`UnmarshalFrom` returns exactly those bodies in order and then continues on what follows. -/
theorem readAll_stream_append (maxSize : Int) (t : Term) (ms : List (List Byte)) (tl : List Byte)
    (hf : ∀ m ∈ ms, Fits maxSize m) :
    readAll maxSize t (stream ms ++ tl) =
      (readAll maxSize t tl).map fun (bs, r, rest) => (ms ++ bs, r, rest) := by
  induction ms with
  | nil =>
    simp only [stream, List.map_nil, List.flatten_nil, List.nil_append]
    cases readAll maxSize t tl with
    | none => rfl
    | some x => rfl
  | cons m ms ih =>
    have hm := hf m (by simp)
    have ih' := ih (fun x hx => hf x (by simp [hx]))
    simp only [stream, List.map_cons, List.flatten_cons, List.append_assoc] at ih' ⊢
    rw [readAll_frame_append maxSize t m _ hm, ih']
    cases readAll maxSize t tl with
    | none => rfl
    | some x => rfl

/-- **Round trip, then EOF**: `readAll (concat (map frame ms)) = ms`, and the final result is `io.EOF` with
nothing left. -/
theorem readAll_stream (maxSize : Int) (ms : List (List Byte)) (hf : ∀ m ∈ ms, Fits maxSize m) :
    readAll maxSize .eof (stream ms) = some (ms, .eof, []) := by
  have := readAll_stream_append maxSize .eof ms [] hf
  simp only [List.append_nil] at this
  rw [this]
  simp [readAll, readAllFuel, unmarshalFrom, unmarshalWith, sizeLoop, maxVarintLen64, Term.clean]

/-- **EOF exactly at a clean boundary**: `io.EOF` is returned iff not a single byte could be read (and the
reader ended with `io.EOF`). -/
theorem eof_iff (maxSize : Int) (t : Term) (s : List Byte) :
    (unmarshalFrom maxSize t s).1 = .eof ↔ (s = [] ∧ t = .eof) := by
  constructor
  · intro h
    simp only [unmarshalFrom, unmarshalWith] at h
    cases hs : sizeLoop t maxVarintLen64 true s with
    | ret e =>
      rw [hs] at h
      have hr := sizeLoop_ret t _ _ _ _ hs
      cases e with
      | err c => simp [Term.clean] at h
      | eof => exact ⟨hr.2 rfl hr.1.symm, hr.1.symm⟩
    | bytes buf rest =>
      rw [hs] at h
      simp only [afterSize] at h
      cases hc : consumeVarint buf with
      | truncated => rw [hc] at h; simp at h
      | overflow => rw [hc] at h; simp at h
      | ok v n =>
        rw [hc] at h
        simp only at h
        cases htl : tooLarge maxSize v with
        | some mx => rw [htl] at h; simp at h
        | none =>
          rw [htl] at h
          simp only [readBody] at h
          split at h
          · simp at h
          · split at h
            · simp at h
            · cases t <;> simp [Term.short] at h
  · rintro ⟨rfl, rfl⟩
    simp [unmarshalFrom, unmarshalWith, sizeLoop, maxVarintLen64, Term.clean]

/-- a reader that fails before the first byte: its error, unchanged -/
theorem reader_error_clean (maxSize : Int) (e : Nat) :
    unmarshalFrom maxSize (.err e) [] = (.readerErr e, []) := by
  simp [unmarshalFrom, unmarshalWith, sizeLoop, maxVarintLen64, Term.clean]

/-- **Truncation inside a frame** (inside the size varint or inside the body, at every cut point `p ++ q`
with both parts non-empty): `io.ErrUnexpectedEOF` — or the reader's own error, unchanged — and the reader has
consumed everything. -/
theorem truncated_frame (maxSize : Int) (t : Term) (body p q : List Byte) (hf : Fits maxSize body)
    (hpq : p ++ q = frame body) (hp : p ≠ []) (hq : q ≠ []) :
    unmarshalFrom maxSize t p = (t.short, []) := by
  obtain ⟨h1, h2⟩ := hf
  have hlt : body.length < 2^64 := by simp only [maxAlloc] at h2; omega
  have hv := varint_roundtrip body.length hlt []
  simp only [List.append_nil] at hv
  generalize henc : encodeVarint body.length = enc at hv
  simp only [frame, henc] at hpq
  by_cases hlen : p.length < enc.length
  · -- the cut is inside the size varint
    obtain ⟨q', hq'⟩ : ∃ q', enc = p ++ q' := by
      have := congrArg (List.take p.length) hpq
      rw [List.take_left, List.take_append_of_le_length (by omega)] at this
      have e : enc = List.take p.length enc ++ List.drop p.length enc := (List.take_append_drop _ _).symm
      rw [← this] at e
      exact ⟨_, e⟩
    have hq'ne : q' ≠ [] := by
      intro e; subst e; simp at hq'; subst hq'; omega
    subst hq'
    have hv' : consumeVarintAux 10 (p ++ q') = .ok body.length (p ++ q').length := hv
    have hloop := sizeLoop_cut t 10 true p q' body.length hv' hq'ne (fun _ => hp)
    have hcut := consumeVarintAux_cut 10 p q' body.length hv' hq'ne
    simp only [unmarshalFrom, unmarshalWith, maxVarintLen64, hloop]
    cases t with
    | eof => simp [afterSize, consumeVarint, maxVarintLen64, hcut, Term.short]
    | err e => simp [Term.clean, Term.short]
  · -- the cut is inside the body
    obtain ⟨p', hp'⟩ : ∃ p', p = enc ++ p' := by
      have := congrArg (List.take enc.length) hpq
      rw [List.take_left, List.take_append_of_le_length (by omega)] at this
      have e : p = List.take enc.length p ++ List.drop enc.length p := (List.take_append_drop _ _).symm
      rw [this] at e
      exact ⟨_, e⟩
    subst hp'
    rw [List.append_assoc, List.append_cancel_left_eq] at hpq
    have hbl : p'.length < body.length := by
      have := congrArg List.length hpq
      simp only [List.length_append] at this
      have := List.length_pos_iff.mpr hq
      omega
    rw [unmarshalFrom_varint maxSize t _ _ _ hv]
    have h3 : ¬ body.length > sizeLimit maxSize := by omega
    simp only [tooLarge, h3, if_false]
    rw [readBody_cases t _ _ h2]
    have : ¬ body.length ≤ p'.length := by omega
    simp [this]

/-- the same for a whole stream: complete frames `ms`, then a frame cut strictly inside -/
theorem truncated_stream (maxSize : Int) (t : Term) (ms : List (List Byte)) (body p q : List Byte)
    (hms : ∀ m ∈ ms, Fits maxSize m) (hf : Fits maxSize body)
    (hpq : p ++ q = frame body) (hp : p ≠ []) (hq : q ≠ []) :
    readAll maxSize t (stream ms ++ p) = some (ms, t.short, []) := by
  rw [readAll_stream_append maxSize t ms p hms]
  have := truncated_frame maxSize t body p q hf hpq hp hq
  rw [readAll_stop maxSize t p t.short [] this (by cases t <;> simp [Term.short])]
  simp

theorem frame_length_pos (body : List Byte) : 0 < (frame body).length := by
  have := List.length_pos_iff.mpr (encodeVarint_ne_nil body.length)
  simp only [frame, List.length_append]; omega

/-- **Every truncation point of a well-formed stream.**  Cut `stream ms` after `k` bytes, for any `k`: the
reader gets back exactly the messages `ms1` that lie wholly before the cut, and then `io.EOF` if the cut is
the boundary behind `ms1`, `io.ErrUnexpectedEOF` if it falls strictly inside the next frame. -/
theorem every_cut (maxSize : Int) (ms : List (List Byte)) (hf : ∀ m ∈ ms, Fits maxSize m) :
    ∀ (k : Nat), k ≤ (stream ms).length →
    ∃ ms1 ms2, ms = ms1 ++ ms2 ∧ (stream ms1).length ≤ k ∧
      (∀ m ms3, ms2 = m :: ms3 → k < (stream ms1).length + (frame m).length) ∧
      readAll maxSize .eof ((stream ms).take k) =
        some (ms1, (if k = (stream ms1).length then Result.eof else Result.unexpectedEOF), []) := by
  induction ms with
  | nil =>
    intro k hk
    simp only [stream, List.map_nil, List.flatten_nil, List.length_nil, Nat.le_zero_eq] at hk
    subst hk
    refine ⟨[], [], rfl, by simp [stream], by simp, ?_⟩
    simp [stream, readAll, readAllFuel, unmarshalFrom, unmarshalWith, sizeLoop, maxVarintLen64, Term.clean]
  | cons m ms ih =>
    intro k hk
    have hm := hf m (by simp)
    have hms : ∀ x ∈ ms, Fits maxSize x := fun x hx => hf x (by simp [hx])
    have hst : stream (m :: ms) = frame m ++ stream ms := by simp [stream]
    rw [hst] at hk ⊢
    have hpos := frame_length_pos m
    by_cases hlt : k < (frame m).length
    · refine ⟨[], m :: ms, rfl, by simp [stream], ?_, ?_⟩
      · intro m' ms3 e
        simp only [List.cons.injEq] at e
        rw [← e.1]; simp [stream]; exact hlt
      · rw [List.take_append_of_le_length (by omega)]
        by_cases h0 : k = 0
        · subst h0
          simp [stream, readAll, readAllFuel, unmarshalFrom, unmarshalWith, sizeLoop, maxVarintLen64, Term.clean]
        · have hp : (frame m).take k ≠ [] := by
            intro e
            have := congrArg List.length e
            simp only [List.length_take, List.length_nil] at this; omega
          have hq : (frame m).drop k ≠ [] := by
            intro e
            have := congrArg List.length e
            simp only [List.length_drop, List.length_nil] at this; omega
          have := truncated_frame maxSize .eof m _ _ hm (List.take_append_drop k (frame m)) hp hq
          rw [readAll_stop maxSize .eof _ _ _ this (by simp [Term.short])]
          simp [stream, h0, Term.short]
    · have hk' : k - (frame m).length ≤ (stream ms).length := by
        simp only [List.length_append] at hk; omega
      obtain ⟨ms1, ms2, e, hle, hmax, hr⟩ := ih hms (k - (frame m).length) hk'
      refine ⟨m :: ms1, ms2, by rw [e]; rfl, ?_, ?_, ?_⟩
      · simp only [stream, List.map_cons, List.flatten_cons, List.length_append] at hle ⊢; omega
      · intro m' ms3 e'
        have := hmax m' ms3 e'
        simp only [stream, List.map_cons, List.flatten_cons, List.length_append] at this ⊢; omega
      · have e1 : List.take k (frame m) = frame m := List.take_of_length_le (by omega)
        rw [List.take_append, e1, readAll_frame_append maxSize .eof m _ hm, hr]
        have e2 : (stream (m :: ms1)).length = (frame m).length + (stream ms1).length := by
          simp [stream]
        rw [e2]
        by_cases hc : k - (frame m).length = (stream ms1).length
        · have : k = (frame m).length + (stream ms1).length := by omega
          simp [this]
        · have : ¬ k = (frame m).length + (stream ms1).length := by omega
          simp [hc, this]

/-- **A size above the limit** is reported as `SizeTooLargeError{Size, MaxSize}`; the reader is left right
behind the size varint (nothing of the body is consumed). -/
theorem size_too_large (maxSize : Int) (t : Term) (body tl : List Byte)
    (h : body.length > sizeLimit maxSize) (h64 : body.length < 2^64) :
    unmarshalFrom maxSize t (frame body ++ tl) =
      (.sizeTooLarge body.length (sizeLimit maxSize), body ++ tl) := by
  have hv := varint_roundtrip body.length h64 []
  simp only [List.append_nil] at hv
  simp only [frame, List.append_assoc]
  rw [unmarshalFrom_varint maxSize t _ _ _ hv]
  simp [tooLarge, h]

/-- `MaxSize = 0` means 4 MiB -/
theorem sizeLimit_default : sizeLimit 0 = 4194304 := by decide
/-- `MaxSize = -1` means "no limit" (only `size > math.MaxInt` is refused) -/
theorem sizeLimit_unlimited : sizeLimit (-1) = 9223372036854775807 := by decide
/-- a positive `MaxSize` is the limit itself -/
theorem sizeLimit_pos (m : Int) (h0 : 0 < m) (h1 : m < 2^63) : sizeLimit m = m.toNat := by
  have h2 : m ≠ 0 := by omega
  have h3 : m ≠ -1 := by omega
  simp only [sizeLimit, h2, if_false, h3, u64OfInt64]
  omega
/-- a `MaxSize` below `-1` is converted with `uint64(maxSize)`, i.e. it is a limit of at least `2^63` -/
theorem sizeLimit_neg (m : Int) (h0 : m < -1) (h1 : -2^63 ≤ m) : sizeLimit m = (m + 2^64).toNat := by
  have h2 : m ≠ 0 := by omega
  have h3 : m ≠ -1 := by omega
  simp only [sizeLimit, h2, if_false, h3, u64OfInt64]
  omega

/-- with `MaxSize = -1` every body that can exist as a Go slice is within the limit -/
theorem fits_unlimited (body : List Byte) (h : body.length ≤ maxAlloc) : Fits (-1) body := by
  refine ⟨?_, h⟩
  rw [sizeLimit_unlimited]
  simp only [maxAlloc] at h; omega

/-- the limit is inclusive: a body of exactly `MaxSize` bytes is read, one more byte is refused -/
theorem limit_inclusive (m : Int) (t : Term) (body tl : List Byte) (h0 : 0 < m) (h1 : m ≤ 2^48) :
    (body.length = m.toNat → unmarshalFrom m t (frame body ++ tl) = (.ok body, tl)) ∧
    (body.length = m.toNat + 1 →
      unmarshalFrom m t (frame body ++ tl) = (.sizeTooLarge (m.toNat + 1) m.toNat, body ++ tl)) := by
  have hl := sizeLimit_pos m h0 (by omega)
  constructor
  · intro hb
    exact unmarshalFrom_frame m t body tl ⟨by omega, by simp only [maxAlloc]; omega⟩
  · intro hb
    have := size_too_large m t body tl (by omega) (by omega)
    rw [this, hl, hb]

/-- **Overflow**: nine continuation bytes and a tenth byte that is `≥ 2` (in particular a tenth continuation
byte): `errOverflow`; exactly ten bytes are consumed. -/
theorem tenth_byte_overflow (maxSize : Int) (t : Term) (cs : List Byte) (b : Byte) (tl : List Byte)
    (hlen : cs.length = 9) (hcs : ∀ c ∈ cs, 128 ≤ c.toNat) (hb : 2 ≤ b.toNat) :
    unmarshalFrom maxSize t (cs ++ b :: tl) = (.overflow, tl) := by
  have h1 := sizeLoop_cont t cs true b tl hcs
  have h2 := consumeVarintAux_overflow cs b hcs hb
  rw [hlen] at h1 h2
  simp only [unmarshalFrom, unmarshalWith, maxVarintLen64, h1, afterSize, consumeVarint, h2]

/-- fewer than ten continuation bytes and then the end of the data: a truncated size -/
theorem continuation_only_truncated (maxSize : Int) (cs : List Byte)
    (hne : cs ≠ []) (hlen : cs.length < 10) (hcs : ∀ c ∈ cs, 128 ≤ c.toNat) :
    unmarshalFrom maxSize .eof cs = (.unexpectedEOF, []) := by
  have hloop : ∀ (k : Nat) (first : Bool) (l : List Byte), (∀ c ∈ l, 128 ≤ c.toNat) → l.length < k →
      (first = true → l ≠ []) → sizeLoop .eof k first l = .bytes l [] := by
    intro k
    induction k with
    | zero => intro _ l _ h; omega
    | succ k ih =>
      intro first l hl hlen hf
      cases l with
      | nil => cases first <;> simp [sizeLoop] at hf ⊢
      | cons c l =>
        have hc : ¬ c.toNat < 128 := by have := hl c (by simp); omega
        have := ih false l (fun x hx => hl x (by simp [hx])) (by simp at hlen; omega) (by simp)
        simp [sizeLoop, hc, this]
  have h1 := hloop 10 true cs hcs hlen (fun _ => hne)
  have h2 := consumeVarintAux_allcont 10 cs hcs hlen
  simp only [unmarshalFrom, unmarshalWith, maxVarintLen64, h1, afterSize, consumeVarint, h2]

/-- **The reader does not matter**: a non-bufio reader (ReadByte + io.ReadFull, any chunking of `Read`) and a
`bufio.Reader` of any buffer size (Peek/Discard when the body fits the buffer, the ReadFull path otherwise)
give the same result and leave the logical stream at the same position. -/
theorem unmarshalFromR_eq (rk : ReaderKind) (hints : List Nat) (maxSize : Int) (t : Term) (s : List Byte)
    (hB : ∀ B, rk = .bufio B → B ≤ maxAlloc) :
    unmarshalFromR rk hints maxSize t s = unmarshalFrom maxSize t s := by
  have : readBodyR rk t hints = readBody t := by
    funext size r; exact readBodyR_eq rk t hints size r hB
  simp only [unmarshalFromR, unmarshalFrom, this]

/-- **No panic** whenever the effective limit does not exceed what `make` can allocate — in particular with
the default `MaxSize = 0`. -/
theorem no_panic_partial (maxSize : Int) (t : Term) (s : List Byte) (hl : sizeLimit maxSize ≤ maxAlloc) (n : Nat) :
    (unmarshalFrom maxSize t s).1 ≠ .panicAlloc n := by
  simp only [unmarshalFrom, unmarshalWith]
  cases hs : sizeLoop t maxVarintLen64 true s with
  | ret e => cases e <;> simp [Term.clean]
  | bytes buf rest =>
    simp only [afterSize]
    cases consumeVarint buf with
    | truncated => simp
    | overflow => simp
    | ok v k =>
      simp only [tooLarge]
      by_cases hv : v > sizeLimit maxSize
      · simp [hv]
      · have : ¬ v > maxAlloc := by omega
        simp only [hv, if_false, readBody, this]
        split
        · simp
        · cases t <;> simp [Term.short]

theorem no_panic_default (t : Term) (s : List Byte) (n : Nat) : (unmarshalFrom 0 t s).1 ≠ .panicAlloc n :=
  no_panic_partial 0 t s (by decide) n

/-
Full statement (FALSE of the current code, see `panic_witness`):
  theorem no_panic (maxSize : Int) (t : Term) (s : List Byte) (n : Nat) :
      (unmarshalFrom maxSize t s).1 ≠ .panicAlloc n
Missing hypothesis: `sizeLimit maxSize ≤ maxAlloc`.  With `MaxSize = -1` (or any `MaxSize > 2^48`) the nine
bytes `ff ff ff ff ff ff ff ff 7f` (size = math.MaxInt) pass the limit check and reach `make([]byte, size)`,
which panics with "makeslice: len out of range" before a single body byte is read.
-/
def panicStream : List Byte := [0xff, 0xff, 0xff, 0xff, 0xff, 0xff, 0xff, 0xff, 0x7f]

theorem panic_witness : unmarshalFrom (-1) .eof panicStream = (.panicAlloc 9223372036854775807, []) := by
  decide

/-! ### the hypotheses are satisfiable by non-trivial values -/

example : Fits 0 [1, 2, 3] := by unfold Fits; decide
example : readAll 0 .eof [2, 8, 1, 0, 2, 0x12, 0] = some ([[8, 1], [], [0x12, 0]], .eof, []) := by decide
example : stream [[8, 1], [], [0x12, 0]] = [2, 8, 1, 0, 2, 0x12, 0] := by
  simp [stream, frame, encodeVarint_lt]
example : unmarshalFrom 0 .eof [2, 8] = (.unexpectedEOF, []) := by decide
example : unmarshalFrom 1 .eof [2, 8, 1, 7] = (.sizeTooLarge 2 1, [8, 1, 7]) := by decide
example : unmarshalFrom 0 .eof [0x82, 0x80, 0, 8, 1, 7] = (.ok [8, 1], [7]) := by decide
example : consumeVarint (encFixed 2 2) = .ok 2 3 := by decide

end C27
