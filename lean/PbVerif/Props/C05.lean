import PbVerif.Lemmas.MsgAlgDet
import PbVerif.Lemmas.MsgAlgExamples
/-
C05 — deterministic marshalling is a function of message content
(model: `Pb.detMsg`, `Pb.encodeDet` = proto.MarshalOptions{Deterministic:true}).
-/
namespace C05
open Pb
open Spec (Byte)

/-! ### the comparators are strict total orders -/

/-- `LegacyFieldOrder`: irreflexive, transitive, and total on distinct field numbers
(for every descriptor — declared or undeclared numbers alike) -/
theorem legacyLess_strictTotal (d : MsgD) :
    (∀ a, legacyLess d a a = false) ∧
    (∀ a b c, legacyLess d a b = true → legacyLess d b c = true → legacyLess d a c = true) ∧
    (∀ a b, a ≠ b → legacyLess d a b = true ∨ legacyLess d b a = true) :=
  ⟨legacyLess_irrefl d, legacyLess_trans d, legacyLess_total d⟩

/-- `GenericKeyOrder` for key kind `k`: irreflexive and transitive on all values, total on distinct
canonical keys of kind `k` (`KeyCanon`: byte strings for string keys, 64-bit patterns otherwise) -/
theorem keyLess_strictTotal (k : Kind) :
    (∀ a, keyLess k a a = false) ∧
    (∀ a b c, keyLess k a b = true → keyLess k b c = true → keyLess k a c = true) ∧
    (∀ a b, KeyCanon k a → KeyCanon k b → a ≠ b → keyLess k a b = true ∨ keyLess k b a = true) :=
  ⟨keyLess_irrefl k, keyLess_trans k, keyLess_total k⟩

example : KeyCanon .string (.bytes [0x61#8]) ∧ KeyCanon .sint32 (.num (2 ^ 64 - 1)) :=
  ⟨rfl, by decide, by decide⟩

/-! ### insertion sort returns the sorted permutation -/

/-- sorting a field list: a permutation of the input, strictly ascending in `LegacyFieldOrder`
when the field numbers are distinct -/
theorem sortFields_sorted_perm (d : MsgD) (fs : Fields) (hn : fs.nums.Nodup) :
    (Fields.sortBy (legacyLess d) fs).toList.Perm fs.toList ∧
    (Fields.sortBy (legacyLess d) fs).nums.Pairwise (fun a b => legacyLess d a b = true) := by
  rw [Fields.nums_eq_map, Fields.toList_sortBy]
  refine ⟨insSort_perm _ _, ?_⟩
  rw [List.pairwise_map]
  refine insSort_sorted (lt := fstLt (legacyLess d)) ?_ _ ?_
  · intro a b c; exact legacyLess_trans d a.1 b.1 c.1
  · rw [Fields.nums_eq_map, List.Nodup, List.pairwise_map] at hn
    exact hn.imp (fun h => legacyLess_total d _ _ h)

example : (Fields.cons 2 (.one (.num 1)) (.cons 1 (.one (.num 1)) .nil)).nums.Nodup := by decide

/-- a strictly sorted permutation is unique: any sorting algorithm yields this list -/
theorem sortFields_unique (d : MsgD) (fs gs : Fields) (hn : fs.nums.Nodup)
    (hp : gs.toList.Perm fs.toList)
    (hs : gs.nums.Pairwise (fun a b => legacyLess d a b = true)) :
    gs = Fields.sortBy (legacyLess d) fs := by
  apply Fields.toList_inj
  obtain ⟨hp', hs'⟩ := sortFields_sorted_perm d fs hn
  rw [Fields.nums_eq_map, List.pairwise_map] at hs hs'
  refine sorted_perm_unique (lt := fstLt (legacyLess d)) ?_ ?_ hs hs' (hp.trans hp'.symm)
  · intro a b c; exact legacyLess_trans d a.1 b.1 c.1
  · intro a; exact legacyLess_irrefl d a.1

/-- sorting the entries of a map: a permutation of the input, strictly ascending in
`GenericKeyOrder` when the entries are pairwise comparable (distinct canonical keys) -/
theorem sortEntries_sorted_perm (kk : Kind) (vs : Vals) (hc : vs.toList.Pairwise (Cmp (entryLess kk))) :
    (Vals.sortBy (entryLess kk) vs).toList.Perm vs.toList ∧
    (Vals.sortBy (entryLess kk) vs).toList.Pairwise (fun a b => entryLess kk a b = true) := by
  rw [Vals.toList_sortBy]
  exact ⟨insSort_perm _ _, insSort_sorted (entryLess_trans kk) _ hc⟩

/-- … and it is the only strictly ascending permutation -/
theorem sortEntries_unique (kk : Kind) (vs ws : Vals) (hc : vs.toList.Pairwise (Cmp (entryLess kk)))
    (hp : ws.toList.Perm vs.toList) (hs : ws.toList.Pairwise (fun a b => entryLess kk a b = true)) :
    ws = Vals.sortBy (entryLess kk) vs := by
  apply Vals.toList_inj
  obtain ⟨hp', hs'⟩ := sortEntries_sorted_perm kk vs hc
  exact sorted_perm_unique (entryLess_trans kk) (entryLess_irrefl kk) hs hs' (hp.trans hp'.symm)

/-- entries with distinct canonical keys are comparable -/
theorem distinctEntries_cmp_raw (kk : Kind) (a b : Val) (h : DistinctEntries kk a b) :
    Cmp (entryLess kk) a b := by
  obtain ⟨ea, eb, ka, kb, rfl, rfl, ha, hb, _, _, ca, cb, hne⟩ := h
  rcases keyLess_total kk ka kb ca cb hne with h | h
  · left; rw [entryLess_iff]; exact ⟨_, _, ka, kb, rfl, rfl, ha, hb, h⟩
  · right; rw [entryLess_iff]; exact ⟨_, _, kb, ka, rfl, rfl, hb, ha, h⟩

/-! ### same content up to the order of field lists and of map entries -/

/-! `Pb.DistinctEntries kk a b` (Lemmas/MsgAlgDet.lean): `a`, `b` are entry messages with distinct field
numbers and distinct canonical keys of kind `kk` — they can be told apart by `GenericKeyOrder`. -/

mutual
/-- `PermMsg S mi a b`: `a` and `b` (messages of type `mi`) have the same content, up to the order
in which the populated fields are stored and the order of the entries of every map field, at
every level of the value tree -/
inductive PermMsg (S : Schema) : Nat → Msg → Msg → Prop
  | mk {mi : Nat} {xs ys : Fields} {u : List Byte} :
      PermFields S (S.msg mi) xs ys → PermMsg S mi (.mk xs u) (.mk ys u)
inductive PermFields (S : Schema) : MsgD → Fields → Fields → Prop
  | nil {d : MsgD} : PermFields S d .nil .nil
  | cons {d : MsgD} {n : Nat} {fx fy : FVal} {xs ys : Fields} :
      PermFVal S d n fx fy → PermFields S d xs ys → PermFields S d (.cons n fx xs) (.cons n fy ys)
  /-- any reordering of a field list with distinct numbers -/
  | reorder {d : MsgD} {xs ys : Fields} :
      xs.toList.Perm ys.toList → xs.nums.Nodup → PermFields S d xs ys
  | trans {d : MsgD} {xs ys zs : Fields} :
      PermFields S d xs ys → PermFields S d ys zs → PermFields S d xs zs
inductive PermFVal (S : Schema) : MsgD → Nat → FVal → FVal → Prop
  | same {d : MsgD} {n : Nat} {fx : FVal} : PermFVal S d n fx fx
  | one {d : MsgD} {n : Nat} {f : Field} {a b : Val} :
      d.find n = some f → PermVal S f a b → PermFVal S d n (.one a) (.one b)
  /-- lists: element-wise, same order -/
  | list {d : MsgD} {n : Nat} {f : Field} {as bs : Vals} :
      d.find n = some f → PermVals S f as bs → PermFVal S d n (.many as) (.many bs)
  /-- maps: entries in any order -/
  | map {d : MsgD} {n : Nat} {f kf : Field} {as bs : Vals} :
      d.find n = some f → f.card = .map → (S.msg f.sub).find 1 = some kf →
      PermEntries S f kf.kind as bs → PermFVal S d n (.many as) (.many bs)
inductive PermVal (S : Schema) : Field → Val → Val → Prop
  | same {f : Field} {v : Val} : PermVal S f v v
  | msg {f : Field} {a b : Msg} : PermMsg S f.sub a b → PermVal S f (.msg a) (.msg b)
inductive PermVals (S : Schema) : Field → Vals → Vals → Prop
  | nil {f : Field} : PermVals S f .nil .nil
  | cons {f : Field} {a b : Val} {as bs : Vals} :
      PermVal S f a b → PermVals S f as bs → PermVals S f (.cons a as) (.cons b bs)
inductive PermEntries (S : Schema) : Field → Kind → Vals → Vals → Prop
  | nil {f : Field} {kk : Kind} : PermEntries S f kk .nil .nil
  | cons {f : Field} {kk : Kind} {a b : Val} {as bs : Vals} :
      PermVal S f a b → PermEntries S f kk as bs → PermEntries S f kk (.cons a as) (.cons b bs)
  /-- any reordering of entries with pairwise distinct canonical keys -/
  | reorder {f : Field} {kk : Kind} {as bs : Vals} :
      as.toList.Perm bs.toList → as.toList.Pairwise (DistinctEntries kk) → PermEntries S f kk as bs
  | trans {f : Field} {kk : Kind} {as bs cs : Vals} :
      PermEntries S f kk as bs → PermEntries S f kk bs cs → PermEntries S f kk as cs
end

/-! the relation is reflexive and symmetric (transitivity is a constructor at the two list levels) -/

theorem PermFields.refl (S : Schema) (d : MsgD) : ∀ fs : Fields, PermFields S d fs fs
  | .nil => .nil
  | .cons _ _ tl => .cons .same (PermFields.refl S d tl)

theorem PermMsg.refl (S : Schema) (mi : Nat) : ∀ m : Msg, PermMsg S mi m m
  | .mk fs _ => .mk (PermFields.refl S _ fs)

theorem PermVals.refl (S : Schema) (f : Field) : ∀ vs : Vals, PermVals S f vs vs
  | .nil => .nil
  | .cons _ tl => .cons .same (PermVals.refl S f tl)

theorem distinctEntries_symm {kk : Kind} {a b : Val} (h : DistinctEntries kk a b) : DistinctEntries kk b a := by
  obtain ⟨ea, eb, ka, kb, h1, h2, h3, h4, h5, h6, h7, h8, h9⟩ := h
  exact ⟨eb, ea, kb, ka, h2, h1, h4, h3, h6, h5, h8, h7, fun e => h9 e.symm⟩

mutual
theorem PermMsg.symm (S : Schema) : ∀ {mi : Nat} {a b : Msg}, PermMsg S mi a b → PermMsg S mi b a
  | _, _, _, .mk h => .mk (PermFields.symm S h)
theorem PermFields.symm (S : Schema) : ∀ {d : MsgD} {xs ys : Fields}, PermFields S d xs ys → PermFields S d ys xs
  | _, _, _, .nil => .nil
  | _, _, _, .cons hv h => .cons (PermFVal.symm S hv) (PermFields.symm S h)
  | _, xs, ys, .reorder hp hn => by
    refine .reorder hp.symm ?_
    rw [Fields.nums_eq_map] at hn ⊢
    exact ((hp.map (·.1)).nodup_iff).mp hn
  | _, _, _, .trans h1 h2 => .trans (PermFields.symm S h2) (PermFields.symm S h1)
theorem PermFVal.symm (S : Schema) : ∀ {d : MsgD} {n : Nat} {fx fy : FVal}, PermFVal S d n fx fy → PermFVal S d n fy fx
  | _, _, _, _, .same => .same
  | _, _, _, _, .one hf hv => .one hf (PermVal.symm S hv)
  | _, _, _, _, .list hf hv => .list hf (PermVals.symm S hv)
  | _, _, _, _, .map hf hc hk hv => .map hf hc hk (PermEntries.symm S hv)
theorem PermVal.symm (S : Schema) : ∀ {f : Field} {a b : Val}, PermVal S f a b → PermVal S f b a
  | _, _, _, .same => .same
  | _, _, _, .msg h => .msg (PermMsg.symm S h)
theorem PermVals.symm (S : Schema) : ∀ {f : Field} {as bs : Vals}, PermVals S f as bs → PermVals S f bs as
  | _, _, _, .nil => .nil
  | _, _, _, .cons hv h => .cons (PermVal.symm S hv) (PermVals.symm S h)
theorem PermEntries.symm (S : Schema) : ∀ {f : Field} {kk : Kind} {as bs : Vals}, PermEntries S f kk as bs →
    PermEntries S f kk bs as
  | _, _, _, _, .nil => .nil
  | _, _, _, _, .cons hv h => .cons (PermVal.symm S hv) (PermEntries.symm S h)
  | _, _, _, _, .reorder hp hd =>
    .reorder hp.symm ((hp.pairwise_iff (fun h => distinctEntries_symm h)).mp hd)
  | _, _, _, _, .trans h1 h2 => .trans (PermEntries.symm S h2) (PermEntries.symm S h1)
end

/-! ### the main theorem -/

theorem distinctEntries_cmp (S : Schema) (f : Field) (kk : Kind) (a b : Val)
    (h : DistinctEntries kk a b) : Cmp (entryLess kk) (detVal S f a) (detVal S f b) := by
  obtain ⟨ea, eb, ka, kb, rfl, rfl, ha, hb, na, nb, ca, cb, hne⟩ := h
  have sa : ka.isKey = true := by cases ka <;> first | rfl | exact ca.elim
  have sb : kb.isKey = true := by cases kb <;> first | rfl | exact cb.elim
  have ha' := entryKey_detMsg S f.sub ea ka na ha sa
  have hb' := entryKey_detMsg S f.sub eb kb nb hb sb
  rcases keyLess_total kk ka kb ca cb hne with h | h
  · left
    rw [detVal, detVal, entryLess_iff]
    exact ⟨_, _, ka, kb, rfl, rfl, ha', hb', h⟩
  · right
    rw [detVal, detVal, entryLess_iff]
    exact ⟨_, _, kb, ka, rfl, rfl, hb', ha', h⟩

theorem sortFields_congr (S : Schema) (d : MsgD) (xs ys : Fields)
    (hp : xs.toList.Perm ys.toList) (hn : xs.nums.Nodup) :
    Fields.sortBy (legacyLess d) (detFields S d xs) = Fields.sortBy (legacyLess d) (detFields S d ys) := by
  apply Fields.toList_inj
  rw [Fields.toList_sortBy, Fields.toList_sortBy, detFields_toList, detFields_toList]
  refine insSort_perm_eq (lt := fstLt (legacyLess d)) ?_ ?_ (hp.map _) ?_
  · intro a b c; exact legacyLess_trans d a.1 b.1 c.1
  · intro a; exact legacyLess_irrefl d a.1
  · rw [Fields.nums_eq_map, List.Nodup, List.pairwise_map] at hn
    rw [List.pairwise_map]
    exact hn.imp (fun h => legacyLess_total d _ _ h)

theorem sortEntries_congr (S : Schema) (f : Field) (kk : Kind) (as bs : Vals)
    (hp : as.toList.Perm bs.toList) (hd : as.toList.Pairwise (DistinctEntries kk)) :
    Vals.sortBy (entryLess kk) (detVals S f as) = Vals.sortBy (entryLess kk) (detVals S f bs) := by
  apply Vals.toList_inj
  rw [Vals.toList_sortBy, Vals.toList_sortBy, detVals_toList, detVals_toList]
  refine insSort_perm_eq (entryLess_trans kk) (entryLess_irrefl kk) (hp.map _) ?_
  rw [List.pairwise_map]
  exact hd.imp (fun h => distinctEntries_cmp S f kk _ _ h)

mutual
theorem detMsg_perm (S : Schema) : ∀ {mi : Nat} {a b : Msg}, PermMsg S mi a b → detMsg S mi a = detMsg S mi b
  | _, _, _, .mk h => by
    rw [detMsg, detMsg, detFields_perm S h]
theorem detFields_perm (S : Schema) : ∀ {d : MsgD} {xs ys : Fields}, PermFields S d xs ys →
    Fields.sortBy (legacyLess d) (detFields S d xs) = Fields.sortBy (legacyLess d) (detFields S d ys)
  | _, _, _, .nil => rfl
  | _, _, _, .cons hv h => by
    rw [detFields_cons, detFields_cons, Fields.sortBy, Fields.sortBy, detField_perm S hv, detFields_perm S h]
  | _, _, _, .reorder hp hn => sortFields_congr S _ _ _ hp hn
  | _, _, _, .trans h1 h2 => (detFields_perm S h1).trans (detFields_perm S h2)
theorem detField_perm (S : Schema) : ∀ {d : MsgD} {n : Nat} {fx fy : FVal}, PermFVal S d n fx fy →
    detField S d n fx = detField S d n fy
  | _, _, _, _, .same => rfl
  | _, _, _, _, .one hf hv => by
    simp only [detField, hf, detFVal, detVal_perm S hv]
  | _, _, _, _, .list hf hv => by
    simp only [detField, hf, detFVal, detVals_perm S hv]
  | _, _, _, _, .map hf hc hk hv => by
    simp only [detField, hf, detFVal, hc, if_true, hk, detEntries_perm S hv]
theorem detVal_perm (S : Schema) : ∀ {f : Field} {a b : Val}, PermVal S f a b → detVal S f a = detVal S f b
  | _, _, _, .same => rfl
  | _, _, _, .msg h => by rw [detVal, detVal, detMsg_perm S h]
theorem detVals_perm (S : Schema) : ∀ {f : Field} {as bs : Vals}, PermVals S f as bs →
    detVals S f as = detVals S f bs
  | _, _, _, .nil => rfl
  | _, _, _, .cons hv h => by rw [detVals, detVals, detVal_perm S hv, detVals_perm S h]
theorem detEntries_perm (S : Schema) : ∀ {f : Field} {kk : Kind} {as bs : Vals}, PermEntries S f kk as bs →
    Vals.sortBy (entryLess kk) (detVals S f as) = Vals.sortBy (entryLess kk) (detVals S f bs)
  | _, _, _, _, .nil => rfl
  | _, _, _, _, .cons hv h => by
    rw [detVals, detVals, Vals.sortBy, Vals.sortBy, detVal_perm S hv, detEntries_perm S h]
  | _, _, _, _, .reorder hp hd => sortEntries_congr S _ _ _ _ hp hd
  | _, _, _, _, .trans h1 h2 => (detEntries_perm S h1).trans (detEntries_perm S h2)
end

/-- **C05 main theorem**: deterministic marshalling depends only on the content of the message, not
on the order in which fields and map entries are stored — for all schemas and all message values -/
theorem encodeDet_perm (S : Schema) (mi : Nat) (a b : Msg) (h : PermMsg S mi a b) :
    encodeDet S mi a = encodeDet S mi b := by
  rw [encodeDet, encodeDet, detMsg_perm S h]

/-- a non-trivial instance of the hypothesis: the two fields stored in opposite order AND the two
entries of the map field 5 stored in opposite order -/
example :
    let e1 := Ex.entry [0x61#8] 4
    let e2 := Ex.entry [0x62#8] 9
    let one5 : FVal := .one (.num 5)
    PermMsg Ex.S0 0
      (.mk (.cons 1 one5 (.cons 5 (.many (.cons e1 (.cons e2 .nil))) .nil)) [])
      (.mk (.cons 5 (.many (.cons e2 (.cons e1 .nil))) (.cons 1 one5 .nil)) []) := by
  intro e1 e2 one5
  refine .mk (.trans (.cons .same (.cons (.map (f := { num := 5, kind := .message, card := .map, sub := 1 })
    (kf := { num := 1, kind := .string, card := .optional }) rfl rfl rfl ?_) .nil)) (.reorder (List.Perm.swap _ _ _) (by decide)))
  refine .reorder (List.Perm.swap _ _ _) ?_
  simp only [Vals.toList, List.pairwise_cons, List.mem_cons, or_false, forall_eq,
    List.not_mem_nil, false_imp_iff, implies_true, List.Pairwise.nil, and_true]
  exact ⟨_, _, .bytes [0x61#8], .bytes [0x62#8], rfl, rfl, rfl, rfl, by decide, by decide, rfl, rfl,
    by intro h; cases h⟩

/-! ### the normal form is idempotent -/

mutual
/-- normalising twice is normalising once — for well-formed messages (distinct field numbers,
distinct map keys: `wfMsg`) whose map keys are canonical for their kind (`ckMsg`) -/
theorem detMsg_idempotent (S : Schema) : ∀ (m : Msg) (mi : Nat), wfMsg S mi m = true → ckMsg S mi m = true →
    detMsg S mi (detMsg S mi m) = detMsg S mi m
  | .mk fs unk, mi, hw, hc => by
    rw [wfMsg] at hw
    rw [ckMsg] at hc
    have hn : (detFields S (S.msg mi) fs).nums.Nodup := by rw [detFields_nums]; exact wfFields_nodup hw
    rw [detMsg, detMsg, detFields_sortBy, detFields_idem S fs _ hw hc, sortFields_idem _ _ hn]
theorem detFields_idem (S : Schema) : ∀ (fs : Fields) (d : MsgD), wfFields S d fs = true →
    ckFields S d fs = true → detFields S d (detFields S d fs) = detFields S d fs
  | .nil, _, _, _ => by rw [detFields, detFields]
  | .cons n fv tl, d, hw, hc => by
    rw [wfFields, Bool.and_eq_true, Bool.and_eq_true] at hw
    rw [ckFields, Bool.and_eq_true] at hc
    rw [detFields_cons, detFields_cons, detFields_idem S tl d hw.2 hc.2]
    congr 1
    have h1 := hw.1.1
    have h2 := hc.1
    unfold detField
    split at h1
    · rename_i f hf
      rw [hf] at h2
      simp only [hf]
      exact detFVal_idem S fv f h1 h2
    · cases h1
theorem detFVal_idem (S : Schema) : ∀ (fv : FVal) (f : Field), wfFVal S f fv = true →
    ckFVal S f fv = true → detFVal S f (detFVal S f fv) = detFVal S f fv
  | .one v, f, hw, hc => by
    rw [wfFVal] at hw
    rw [ckFVal] at hc
    simp only [detFVal, detVal_idem S v f hw hc]
  | .many vs, f, hw, hc => by
    rw [wfFVal] at hw
    rw [ckFVal, Bool.and_eq_true] at hc
    by_cases hm : f.card = .map
    · simp only [hm, if_true] at hw hc
      cases hk : (S.msg f.sub).find 1 with
      | none =>
        simp only [detFVal, hm, if_true, hk]
        rw [detVals_fixed S f _ (fun v hv => ?_)]
        rw [detVals_toList, List.mem_map] at hv
        obtain ⟨w, hw', rfl⟩ := hv
        exact detEntries_elem S vs f hw hc.1 w hw'
      | some kf =>
        have hc2 := hc.2
        rw [hk] at hc2
        simp only [detFVal, hm, if_true, hk]
        have hfix : ∀ v ∈ (detVals S f vs).toList, detVal S f v = v := by
          intro v hv
          rw [detVals_toList, List.mem_map] at hv
          obtain ⟨w, hw', rfl⟩ := hv
          exact detEntries_elem S vs f hw hc.1 w hw'
        rw [detVals_fixed S f (Vals.sortBy (entryLess kf.kind) (detVals S f vs)) (fun v hv => by
          rw [Vals.toList_sortBy] at hv
          exact hfix v ((insSort_perm _ _).mem_iff.mp hv))]
        congr 1
        apply Vals.toList_inj
        rw [Vals.toList_sortBy, Vals.toList_sortBy]
        apply insSort_of_sorted
        refine insSort_sorted (entryLess_trans kf.kind) _ ?_
        rw [detVals_toList, List.pairwise_map]
        exact (distinctEntries_of_wf hw hc2).imp (fun h => distinctEntries_cmp S f kf.kind _ _ h)
    · simp only [hm, if_false] at hw
      simp only [detFVal, hm, if_false, detVals_idem S vs f hw hc.1]
theorem detVal_idem (S : Schema) : ∀ (v : Val) (f : Field), wfVal S f v = true → ckVal S f v = true →
    detVal S f (detVal S f v) = detVal S f v
  | .msg m, f, hw, hc => by
    rw [wfVal] at hw
    rw [ckVal] at hc
    rw [detVal, detVal, detMsg_idempotent S m f.sub hw hc]
  | .num n, f, _, _ => by rw [detVal_scalar S f _ rfl]
  | .bytes b, f, _, _ => by rw [detVal_scalar S f _ rfl]
theorem detVals_idem (S : Schema) : ∀ (vs : Vals) (f : Field), wfVals S f vs = true → ckVals S f vs = true →
    detVals S f (detVals S f vs) = detVals S f vs
  | .nil, _, _, _ => by rw [detVals, detVals]
  | .cons v tl, f, hw, hc => by
    rw [wfVals, Bool.and_eq_true] at hw
    rw [ckVals, Bool.and_eq_true] at hc
    rw [detVals, detVals, detVal_idem S v f hw.1 hc.1, detVals_idem S tl f hw.2 hc.2]
theorem detEntries_elem (S : Schema) : ∀ (vs : Vals) (f : Field), wfEntries S f.sub vs = true →
    ckVals S f vs = true → ∀ w ∈ vs.toList, detVal S f (detVal S f w) = detVal S f w
  | .nil, _, _, _, _, hw' => by simp [Vals.toList] at hw'
  | .cons (.msg e) tl, f, hw, hc, w, hw' => by
    rw [wfEntries, Bool.and_eq_true, wfEntry, Bool.and_eq_true] at hw
    rw [ckVals, Bool.and_eq_true, ckVal] at hc
    simp only [Vals.toList, List.mem_cons] at hw'
    rcases hw' with rfl | hw'
    · rw [detVal, detVal, detMsg_idempotent S e f.sub hw.1.2 hc.1]
    · exact detEntries_elem S tl f hw.2 hc.2 w hw'
  | .cons (.num n) tl, _, hw, _, _, _ => by
    rw [wfEntries, Bool.and_eq_true] at hw
    simp [wfEntry] at hw
  | .cons (.bytes b) tl, _, hw, _, _, _ => by
    rw [wfEntries, Bool.and_eq_true] at hw
    simp [wfEntry] at hw
end

example : wfMsg Ex.S0 0 Ex.m0 = true ∧ ckMsg Ex.S0 0 Ex.m0 = true := by decide

/-- idempotence fails when a field number occurs twice: the insertion sort reverses the two -/
theorem detMsg_idempotent_needs_distinct :
    let S : Schema := ⟨[⟨[{ num := 1, kind := .int32, card := .optional }]⟩]⟩
    let m : Msg := .mk (.cons 1 (.one (.num 1)) (.cons 1 (.one (.num 2)) .nil)) []
    encMsg S 0 (detMsg S 0 (detMsg S 0 m)) ≠ encMsg S 0 (detMsg S 0 m) := by
  decide +kernel

end C05
