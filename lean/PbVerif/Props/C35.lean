import PbVerif.Lemmas.Desc
/-
C35 — Descriptor validation never crashes and rejects invalid schemas.

Stated on `Model.Desc` (`newFile` = steps 0–3 of `protodesc.FileOptions.New`).  One lemma per rule of the
property statement, for ALL trees: a descriptor tree exhibiting the defect anywhere makes `newFile` fail.
`m ∈ flattenMsgs (build env p).messages` ranges over every message of the file at any nesting depth.
-/
namespace C35
open Desc Gen.EditionDefaults

/-- the validation context `validateFile` uses -/
def vctx (env : Env) (p : FileP) : VCtx :=
  { env := env, all := flattenMsgs (build env p).messages, edition := (build env p).edition }

/-! ### generic: a failing declaration anywhere fails the file -/

theorem reject_of_msg (env : Env) (p : FileP) (m : MessageD)
    (hm : m ∈ flattenMsgs (build env p).messages) (bad : validateMsg (vctx env p) m ≠ .ok ()) :
    ∃ r, newFile env p = .error r := by
  apply newFile_error_of_check
  intro h
  simp only [check, seq_ok_iff, validateFile] at h
  exact bad (validateMsgs_of_mem _ _ h.2.2.2.2.1 m hm)

theorem reject_of_enum_top (env : Env) (p : FileP) (e : EnumD)
    (he : e ∈ (build env p).enums) (bad : validateEnum e ≠ .ok ()) : ∃ r, newFile env p = .error r := by
  apply newFile_error_of_check
  intro h
  simp only [check, seq_ok_iff, validateFile, allV_ok_iff] at h
  exact bad (h.2.2.2.1 e he)

theorem reject_of_enum_nested (env : Env) (p : FileP) (m : MessageD) (e : EnumD)
    (hm : m ∈ flattenMsgs (build env p).messages) (he : e ∈ m.enums) (bad : validateEnum e ≠ .ok ()) :
    ∃ r, newFile env p = .error r := by
  apply reject_of_msg env p m hm
  intro h
  cases m with
  | mk mp n f fs os nested es xs =>
    simp only [validateMsg, seq_ok_iff, allV_ok_iff] at h
    exact bad (h.2.2.2.2.2.2.2.2.2.2.1 e he)

/-! ### duplicate names / invalid names (step 1, `makeBase`) -/

theorem checkDecls_ok (ds : List Decl) (seen : List Str) (h : checkDecls ds seen = .ok ()) :
    (∀ d ∈ ds, isValidName d.2 = true) ∧ (ds.map (·.1)).Nodup ∧ ∀ d ∈ ds, d.1 ∉ seen := by
  induction ds generalizing seen with
  | nil => simp
  | cons d rest ih =>
    obtain ⟨full, name⟩ := d
    simp only [checkDecls] at h
    split at h
    · cases h
    · rename_i hv
      split at h
      · cases h
      · rename_i hs
        have ⟨h1, h2, h3⟩ := ih (full :: seen) h
        simp only [Bool.not_eq_true, Bool.not_eq_false'] at hv
        refine ⟨?_, ?_, ?_⟩
        · intro d hd
          simp only [List.mem_cons] at hd
          rcases hd with rfl | hd
          · simpa using hv
          · exact h1 d hd
        · simp only [List.map_cons, List.nodup_cons]
          refine ⟨?_, h2⟩
          intro hmem
          simp only [List.mem_map] at hmem
          obtain ⟨d, hd, hdf⟩ := hmem
          exact h3 d hd (by simp [hdf])
        · intro d hd
          simp only [List.mem_cons] at hd
          rcases hd with rfl | hd
          · simpa using hs
          · intro hin; exact h3 d hd (by simp [hin])

/-- **dup_name.** Two declarations with the same full name — same scope, same short name, whatever their kinds
(message, enum, enum value, field, oneof, extension, service, method) — are rejected. -/
theorem dup_name (env : Env) (p : FileP) (h : ¬ ((fileDecls p).map (·.1)).Nodup) :
    ∃ r, newFile env p = .error r := by
  apply newFile_error_of_check
  intro hc
  simp only [check, seq_ok_iff] at hc
  exact h (checkDecls_ok _ _ hc.2.1).2.1

/-- **invalid_name.** A declaration whose name is not an identifier is rejected. -/
theorem invalid_name (env : Env) (p : FileP) (d : Decl) (hd : d ∈ fileDecls p) (h : isValidName d.2 = false) :
    ∃ r, newFile env p = .error r := by
  apply newFile_error_of_check
  intro hc
  simp only [check, seq_ok_iff] at hc
  have := (checkDecls_ok _ _ hc.2.1).1 d hd
  rw [h] at this; cases this

/-! ### message-level rules -/

section msg
variable (env : Env) (p : FileP) (m : MessageD) (hm : m ∈ flattenMsgs (build env p).messages)
include hm

/-- **dup_number.** Two fields of one message with the same number. -/
theorem dup_number (h : fieldNumbersConflict m.fields = true) : ∃ r, newFile env p = .error r := by
  apply reject_of_msg env p m hm
  intro hv
  cases m with
  | mk mp n f fs os nested es xs =>
    simp only [validateMsg, seq_ok_iff, guardV_ok_iff] at hv
    simp only [MessageD.fields] at h
    rw [h] at hv; exact absurd hv.2.2.2.2.1 (by simp)

/-- a field failing its own checks fails the file -/
theorem reject_of_field (f : FieldD) (hf : f ∈ m.fields) (bad : validateField (vctx env p) m f ≠ .ok ()) :
    ∃ r, newFile env p = .error r := by
  apply reject_of_msg env p m hm
  intro hv
  cases m with
  | mk mp n ft fs os nested es xs =>
    simp only [validateMsg, seq_ok_iff, allV_ok_iff] at hv
    exact bad (hv.2.2.2.2.2.2.2.2.1 f hf)

/-- **bad_number.** A field number outside [1, 2^29 - 1] (19000–19999 are NOT refused for message fields by the code). -/
theorem bad_number (f : FieldD) (hf : f ∈ m.fields) (h : f.number < 1 ∨ 536870911 < f.number) :
    ∃ r, newFile env p = .error r := by
  apply reject_of_field env p m hm f hf
  intro hv
  simp only [validateField, seq_ok_iff, guardV_ok_iff] at hv
  have hn : numberIsValid f.number = true := by simpa using hv.2.1
  simp [numberIsValid, maxValidNumber] at hn
  obtain ⟨h1', h2'⟩ := hn
  have h2'' := of_decide_eq_true h2'
  omega

/-- **field_in_ext_range.** -/
theorem field_in_ext_range (f : FieldD) (hf : f ∈ m.fields) (h : fieldRangesHas m.p.extRanges f.number = true) :
    ∃ r, newFile env p = .error r := by
  apply reject_of_field env p m hm f hf
  intro hv
  simp only [validateField, seq_ok_iff, guardV_ok_iff] at hv
  rw [h] at hv; exact absurd hv.2.2.2.2.1 (by simp)

/-- **reserved_use (number).** -/
theorem field_in_reserved_range (f : FieldD) (hf : f ∈ m.fields) (h : fieldRangesHas m.p.resRanges f.number = true) :
    ∃ r, newFile env p = .error r := by
  apply reject_of_field env p m hm f hf
  intro hv
  simp only [validateField, seq_ok_iff, guardV_ok_iff] at hv
  rw [h] at hv; exact absurd hv.2.2.2.1 (by simp)

/-- **reserved_use (name).** -/
theorem field_name_reserved (f : FieldD) (hf : f ∈ m.fields) (h : f.name ∈ m.p.resNames) :
    ∃ r, newFile env p = .error r := by
  apply reject_of_field env p m hm f hf
  intro hv
  simp only [validateField, seq_ok_iff, guardV_ok_iff] at hv
  have := hv.1
  simp only [List.contains_eq_mem, decide_eq_false_iff_not] at this
  exact this h

/-- **bad_map_entry.** A field whose target is a map entry violating any clause of `checkValidMap`. -/
theorem bad_map_entry (f : FieldD) (hf : f ∈ m.fields)
    (h : checkValidMap env (flattenMsgs (build env p).messages) f = true) : ∃ r, newFile env p = .error r := by
  apply reject_of_field env p m hm f hf
  intro hv
  simp only [validateField, seq_ok_iff, guardV_ok_iff, vctx] at hv
  rw [h] at hv; exact absurd hv.2.2.2.2.2.2.2.2.2.2.2.1 (by simp)

/-- **bad_group.** -/
theorem bad_group (f : FieldD) (hf : f ∈ m.fields)
    (h : checkValidGroup env (flattenMsgs (build env p).messages) (build env p).edition f = true) :
    ∃ r, newFile env p = .error r := by
  apply reject_of_field env p m hm f hf
  intro hv
  simp only [validateField, seq_ok_iff, guardV_ok_iff, vctx] at hv
  rw [h] at hv; exact absurd hv.2.2.2.2.2.2.2.2.2.2.1 (by simp)

/-- **proto3_forbidden (required).** -/
theorem proto3_required (f : FieldD) (hf : f ∈ m.fields) (h3 : (build env p).edition = editionProto3)
    (h : f.cardinality = cRequired) : ∃ r, newFile env p = .error r := by
  apply reject_of_field env p m hm f hf
  intro hv
  simp only [validateField, seq_ok_iff, guardV_ok_iff, vctx, h3, h] at hv
  exact absurd hv.2.2.2.2.2.2.2.2.2.2.2.2.1 (by decide)

/-- **proto3_forbidden (extension ranges).** -/
theorem proto3_extension_ranges (h3 : (build env p).edition = editionProto3) (h : m.p.extRanges ≠ []) :
    ∃ r, newFile env p = .error r := by
  apply reject_of_msg env p m hm
  intro hv
  cases m with
  | mk mp n f fs os nested es xs =>
    simp only [validateMsg, seq_ok_iff, guardV_ok_iff, vctx, h3] at hv
    have := hv.2.2.2.2.2.2.2.1
    simp only [MessageD.p] at h
    cases hx : mp.extRanges with
    | nil => exact h hx
    | cons a b => simp [hx] at this

/-- **presence/enum combination.** An implicit-presence singular field of a closed enum type. -/
theorem implicit_closed_enum (f : FieldD) (hf : f ∈ m.fields)
    (h : f.cardinality = cOptional ∧ f.hasPresence = false ∧ enumClosedNonPlaceholder f = true) :
    ∃ r, newFile env p = .error r := by
  apply reject_of_field env p m hm f hf
  intro hv
  simp only [validateField, seq_ok_iff, guardV_ok_iff, h.1, h.2.1, h.2.2] at hv
  exact absurd hv.2.2.2.2.2.2.2.2.2.2.2.2.2.2 (by decide)

end msg

/-! ### ranges -/

theorem mem_insertByStart (r x : Int × Int) (l : List (Int × Int)) : x ∈ insertByStart r l ↔ x = r ∨ x ∈ l := by
  induction l with
  | nil => simp [insertByStart]
  | cons y ys ih =>
    simp only [insertByStart]
    split
    · simp
    · simp only [List.mem_cons, ih]
      constructor
      · rintro (h | h | h) <;> simp [h]
      · rintro (h | h | h) <;> simp [h]

theorem mem_sortByStart (x : Int × Int) (l : List (Int × Int)) : x ∈ sortByStart l ↔ x ∈ l := by
  induction l with
  | nil => simp [sortByStart]
  | cons y ys ih =>
    simp only [sortByStart, List.foldr_cons] at ih ⊢
    rw [mem_insertByStart, ih]
    simp [eq_comm]

theorem fieldRangesBad_of_mem (ms : Bool) (l : List (Int × Int)) (prev : Option (Int × Int)) (r : Int × Int)
    (hr : r ∈ l) (hbad : ¬ (r.1 ≤ fieldEnd r)) : fieldRangesBad ms l prev = true := by
  induction l generalizing prev with
  | nil => cases hr
  | cons x xs ih =>
    simp only [fieldRangesBad]
    split
    · rfl
    · split
      · rfl
      · split
        · rfl
        · rename_i hx
          simp only [List.mem_cons] at hr
          rcases hr with rfl | hr
          · simp only [Bool.not_eq_true, Bool.not_eq_false', decide_eq_true_eq] at hx
            exact absurd hx hbad
          · cases prev with
            | none => exact ih _ hr
            | some rp =>
              simp only
              split
              · rfl
              · exact ih _ hr

theorem perm_insertByStart (r : Int × Int) (l : List (Int × Int)) : (insertByStart r l).Perm (r :: l) := by
  induction l with
  | nil => simp [insertByStart]
  | cons y ys ih =>
    simp only [insertByStart]
    split
    · exact List.Perm.refl _
    · exact (List.Perm.cons y ih).trans (List.Perm.swap r y ys)

theorem perm_sortByStart (l : List (Int × Int)) : (sortByStart l).Perm l := by
  induction l with
  | nil => exact List.Perm.refl _
  | cons y ys ih =>
    have : sortByStart (y :: ys) = insertByStart y (sortByStart ys) := rfl
    rw [this]
    exact (perm_insertByStart y _).trans (List.Perm.cons y ih)

/-- after a previous range `rp`, an accepted list starts strictly after `rp` ends — for EVERY later element -/
theorem fieldRanges_after (ms : Bool) (l : List (Int × Int)) (rp : Int × Int)
    (h : fieldRangesBad ms l (some rp) = false) : ∀ y ∈ l, fieldEnd rp < y.1 := by
  induction l generalizing rp with
  | nil => intro y hy; cases hy
  | cons x xs ih =>
    intro y hy
    simp only [fieldRangesBad] at h
    split at h
    · cases h
    · split at h
      · cases h
      · split at h
        · cases h
        · rename_i hself
          simp only [Bool.not_eq_true, Bool.not_eq_false', decide_eq_true_eq] at hself
          split at h
          · cases h
          · rename_i hprev
            simp only [Bool.not_eq_true, Bool.not_eq_false', decide_eq_true_eq] at hprev
            simp only [List.mem_cons] at hy
            rcases hy with rfl | hy
            · exact hprev
            · have := ih x h y hy
              omega

theorem fieldRanges_pairwise (ms : Bool) (l : List (Int × Int)) (prev : Option (Int × Int))
    (h : fieldRangesBad ms l prev = false) : l.Pairwise fun a b => fieldEnd a < b.1 := by
  induction l generalizing prev with
  | nil => exact List.Pairwise.nil
  | cons x xs ih =>
    simp only [fieldRangesBad] at h
    split at h
    · cases h
    · split at h
      · cases h
      · split at h
        · cases h
        · have hx : fieldRangesBad ms xs (some x) = false := by
            cases prev with
            | none => exact h
            | some rp =>
              simp only at h
              split at h
              · cases h
              · exact h
          exact List.Pairwise.cons (fieldRanges_after ms xs x hx) (ih _ hx)

/-- **overlap.** Two extension ranges (or two reserved ranges) of one message that overlap — wherever they stand in
the declared list — are rejected. -/
theorem overlap (env : Env) (p : FileP) (m : MessageD) (hm : m ∈ flattenMsgs (build env p).messages)
    (l1 l2 l3 : List (Int × Int)) (a b : Int × Int)
    (hl : m.p.extRanges = l1 ++ a :: l2 ++ b :: l3 ∨ m.p.resRanges = l1 ++ a :: l2 ++ b :: l3)
    (hov : ¬ (fieldEnd a < b.1 ∨ fieldEnd b < a.1)) : ∃ r, newFile env p = .error r := by
  apply reject_of_msg env p m hm
  intro hv
  have key : ∀ l : List (Int × Int), l = l1 ++ a :: l2 ++ b :: l3 →
      fieldRangesBad m.p.messageSet (sortByStart l) none = false → False := by
    intro l hl hbad
    have hp := fieldRanges_pairwise _ _ _ hbad
    have hs : (sortByStart l).Pairwise fun x y => fieldEnd x < y.1 ∨ fieldEnd y < x.1 := hp.imp Or.inl
    have hl' : l.Pairwise fun x y => fieldEnd x < y.1 ∨ fieldEnd y < x.1 :=
      (List.Perm.pairwise_iff (fun h => h.symm) (perm_sortByStart l)).1 hs
    rw [hl] at hl'
    have h1 := (List.pairwise_append.1 hl').2.2 a (by simp) b (by simp)
    exact hov h1
  cases m with
  | mk mp n f fs os nested es xs =>
    simp only [validateMsg, seq_ok_iff, guardV_ok_iff] at hv
    simp only [MessageD.p] at hl key
    rcases hl with hl | hl
    · exact key _ hl hv.2.2.1
    · exact key _ hl hv.2.1

/-- `fieldEnd` is `end - 1` for every `end` an int32 can hold except MinInt32. -/
theorem fieldEnd_eq (r : Int × Int) (h : -2147483648 < r.2 ∧ r.2 ≤ 2147483647) : fieldEnd r = r.2 - 1 := by
  simp only [fieldEnd, wrap32]; omega

/-- **bad_range.** An extension range or reserved range with `start ≥ end` (ends within int32, `end ≠ MinInt32`),
anywhere in the file. -/
theorem bad_range (env : Env) (p : FileP) (m : MessageD) (hm : m ∈ flattenMsgs (build env p).messages)
    (r : Int × Int) (hr : r ∈ m.p.extRanges ∨ r ∈ m.p.resRanges)
    (hend : -2147483648 < r.2 ∧ r.2 ≤ 2147483647) (h : r.2 ≤ r.1) : ∃ r', newFile env p = .error r' := by
  apply reject_of_msg env p m hm
  intro hv
  have hb : ¬ (r.1 ≤ fieldEnd r) := by rw [fieldEnd_eq r hend]; omega
  cases m with
  | mk mp n f fs os nested es xs =>
    simp only [validateMsg, seq_ok_iff, guardV_ok_iff] at hv
    simp only [MessageD.p] at hr
    rcases hr with hr | hr
    · have := fieldRangesBad_of_mem mp.messageSet (sortByStart mp.extRanges) none r ((mem_sortByStart _ _).2 hr) hb
      rw [this] at hv; exact absurd hv.2.2.1 (by simp)
    · have := fieldRangesBad_of_mem mp.messageSet (sortByStart mp.resRanges) none r ((mem_sortByStart _ _).2 hr) hb
      rw [this] at hv; exact absurd hv.2.1 (by simp)

/-! ### oneofs -/

theorem validateOneofs_ok (ed : Nat) (fs : List FieldD) (os : List OneofD) (seen : Bool)
    (h : validateOneofs ed fs os seen = .ok ()) :
    ∀ o ∈ os, o.members ≠ [] ∧
      ((o.members.length : Int) - 1 = ((o.members.getLast?.getD 0 : Nat) : Int) - ((o.members.head?.getD 0 : Nat) : Int)) := by
  induction os generalizing seen with
  | nil => simp
  | cons o rest ih =>
    intro x hx
    simp only [validateOneofs] at h
    split at h
    · cases h
    · rename_i first more hmem
      split at h
      · cases h
      · rename_i hcons
        simp only [List.mem_cons] at hx
        rcases hx with rfl | hx
        · refine ⟨by rw [hmem]; simp, ?_⟩
          rw [hmem]
          simp only [bne_iff_ne, ne_eq, Decidable.not_not] at hcons
          simp only [List.head?_cons, Option.getD_some]
          cases hl : (first :: more).getLast? with
          | none => simp at hl
          | some l => rw [hl] at hcons; simpa using hcons
        · split at h
          · exact ih true h x hx
          · split at h
            · cases h
            · split at h
              · cases h
              · exact ih seen h x hx

/-- **oneof_nonconsecutive_or_empty.** A oneof without members, or whose members are not declared consecutively
(`n - 1 ≠ index(last) - index(first)`), anywhere in the file. -/
theorem oneof_nonconsecutive_or_empty (env : Env) (p : FileP) (m : MessageD)
    (hm : m ∈ flattenMsgs (build env p).messages) (o : OneofD) (ho : o ∈ m.oneofs)
    (h : o.members = [] ∨
      (o.members.length : Int) - 1 ≠ ((o.members.getLast?.getD 0 : Nat) : Int) - ((o.members.head?.getD 0 : Nat) : Int)) :
    ∃ r, newFile env p = .error r := by
  apply reject_of_msg env p m hm
  intro hv
  cases m with
  | mk mp n f fs os nested es xs =>
    simp only [validateMsg, seq_ok_iff] at hv
    have := validateOneofs_ok _ _ _ _ hv.2.2.2.2.2.2.2.2.2.1 o ho
    rcases h with h | h
    · exact this.1 h
    · exact h this.2

/-! ### enums -/

/-- **proto3_forbidden (first enum value) / open enums.** -/
theorem open_enum_first_nonzero (e : EnumD) (v : EnumValueP) (rest : List EnumValueP)
    (hv : e.p.values = v :: rest) (hopen : e.isClosed = false) (hz : v.number.getD 0 ≠ 0) :
    validateEnum e ≠ .ok () := by
  intro h
  simp only [validateEnum, seq_ok_iff, guardV_ok_iff, hv, hopen] at h
  have h6 := h.2.2.2.2.2.1
  simp at h6
  exact hz h6

theorem enum_empty (e : EnumD) (hv : e.p.values = []) : validateEnum e ≠ .ok () := by
  intro h
  simp only [validateEnum, seq_ok_iff, guardV_ok_iff, hv] at h
  exact absurd h.2.2.1 (by simp)

/-- duplicate enum numbers without `allow_alias` -/
theorem enum_dup_number (e : EnumD) (h : hasDupNumber (e.p.values.map fun v => some (v.number.getD 0)) = true)
    (ha : e.p.allowAlias = false) : validateEnum e ≠ .ok () := by
  intro hv
  simp only [validateEnum, seq_ok_iff, guardV_ok_iff, h, ha] at hv
  exact absurd hv.2.2.2.1 (by simp)

/-- an enum value using a reserved number or name -/
theorem enum_reserved_use (e : EnumD) (v : EnumValueP) (hv : v ∈ e.p.values)
    (h : v.name ∈ e.p.resNames ∨ enumRangesHas e.p.resRanges (v.number.getD 0) = true) : validateEnum e ≠ .ok () := by
  intro hok
  simp only [validateEnum, seq_ok_iff, allV_ok_iff] at hok
  have := hok.2.2.2.2.2.2 v hv
  simp only [validateEnumValue, seq_ok_iff, guardV_ok_iff] at this
  rcases h with h | h
  · have h2 := this.2.1
    simp only [List.contains_eq_mem, decide_eq_false_iff_not] at h2
    exact h2 h
  · rw [h] at this; exact absurd this.2.2 (by simp)

/-! ### totality: the only panic branch of the code and when it is reachable -/

theorem defaults_some_of_supported (ed : Nat) (h : (supportMinimum ≤ ed ∧ ed ≤ supportMaximum) ∨ ed = editionUnstable) :
    (defaultsFor ed).isSome = true := by
  have : ed = 998 ∨ ed = 999 ∨ ed = 1000 ∨ ed = 1001 ∨ ed = 9999 := by
    simp only [supportMinimum, supportMaximum, editionUnstable] at h; omega
  rcases this with rfl | rfl | rfl | rfl | rfl <;> decide

/-- **validate_total.** Every function of the model is total (structural recursion, no partial operation, no
`get!`), so `newFile` always returns a verdict.  The code's own `panic` / `os.Exit` (`toEditionProto`,
`getFeatureSetFor`, reached from `initFileDescFromFeatureSet`) is the verdict `editionPanic`, which only
`checkHeader` can produce, and ONLY through the `cmd/protoc-gen-go/testdata/` path escape hatch. -/
theorem validate_total (p : FileP) (h : checkHeader p = .error .editionPanic) :
    p.syn = 9 ∧ testdataPrefix.isPrefixOf p.path = true := by
  simp only [checkHeader] at h
  by_cases h1 : p.syn == 1
  · simp [seq, guardV, h1] at h
  by_cases h2 : p.path.isEmpty
  · simp [seq, guardV, h1, h2] at h
  by_cases hpk : (!isValidFullName p.pkg && !p.pkg.isEmpty)
  · by_cases hx : (p.syn == 9 && (p.edition < supportMinimum || supportMaximum < p.edition) && p.edition != editionUnstable
        && !(testdataPrefix.isPrefixOf p.path))
    · simp [seq, guardV, h1, h2, hx] at h
    · simp [seq, guardV, h1, h2, hx, hpk] at h
  by_cases h9 : p.syn = 9
  · refine ⟨h9, ?_⟩
    by_cases hpre : testdataPrefix.isPrefixOf p.path = true
    · exact hpre
    · exfalso
      simp only [Bool.not_eq_true] at hpre
      by_cases hsup : (p.edition < supportMinimum || supportMaximum < p.edition) && p.edition != editionUnstable
      · simp [seq, guardV, h1, h2, h9, hpre, hsup] at h
      · have hs : (supportMinimum ≤ p.edition ∧ p.edition ≤ supportMaximum) ∨ p.edition = editionUnstable := by
          simp only [Bool.and_eq_true, Bool.or_eq_true, decide_eq_true_eq, bne_iff_ne, ne_eq, not_and,
            Decidable.not_not] at hsup
          by_cases hu : p.edition = editionUnstable
          · exact Or.inr hu
          · left
            by_cases ha : p.edition < supportMinimum
            · exact absurd (hsup (Or.inl ha)) hu
            · by_cases hb : supportMaximum < p.edition
              · exact absurd (hsup (Or.inr hb)) hu
              · omega
        have hd := defaults_some_of_supported p.edition hs
        have hfe : fileEdition p = p.edition := by simp [fileEdition, h9]
        simp only [Bool.not_eq_true] at hpk hsup
        simp [seq, guardV, h1, h2, h9, hpre, hsup, hpk, hfe, Option.isSome_iff_ne_none.mp hd] at h
  · exfalso
    have hfe : (defaultsFor (fileEdition p)).isSome = true := by
      unfold fileEdition
      have : (p.syn == 9) = false := by simpa using h9
      rw [this]
      by_cases h3 : p.syn == 3 <;> simp [h3] <;> decide
    have h9' : (p.syn == 9) = false := by simpa using h9
    simp only [Bool.not_eq_true] at hpk
    simp [seq, guardV, h1, h2, h9', hpk, Option.isSome_iff_ne_none.mp hfe] at h

/-! ### extensions -/

theorem reject_of_ext_top (env : Env) (p : FileP) (x : FieldD) (hx : x ∈ (build env p).exts)
    (bad : validateExtension (vctx env p) x ≠ .ok ()) : ∃ r, newFile env p = .error r := by
  apply newFile_error_of_check
  intro h
  simp only [check, seq_ok_iff, validateFile, allV_ok_iff] at h
  exact bad (h.2.2.2.2.2 x hx)

/-- an extension whose number is not inside an extension range of its (resolved, non-placeholder) extendee -/
theorem ext_not_in_range (env : Env) (p : FileP) (x : FieldD) (hx : x ∈ (build env p).exts) (t : TargetRef)
    (ht : x.extendeeT = some t) (hp : (msgInfo env (flattenMsgs (build env p).messages) t).placeholder = false)
    (h : fieldRangesHas (msgInfo env (flattenMsgs (build env p).messages) t).extRanges x.number = false) :
    ∃ r, newFile env p = .error r := by
  apply reject_of_ext_top env p x hx
  intro hv
  simp only [validateExtension, seq_ok_iff, guardV_ok_iff, ht, vctx, hp] at hv
  have := hv.2.2.2.2.1
  simp only [Bool.false_eq_true, ↓reduceIte, seq_ok_iff, guardV_ok_iff, h] at this
  exact absurd this.1 (by simp)

/-- an extension with the `required` label, a oneof index, or a number in 19000–19999 / negative -/
theorem ext_bad_shape (env : Env) (p : FileP) (x : FieldD) (hx : x ∈ (build env p).exts)
    (h : x.cardinality = cRequired ∨ x.p.oneofIndex.isSome = true ∨ x.number < 0 ∨ (19000 ≤ x.number ∧ x.number ≤ 19999)) :
    ∃ r, newFile env p = .error r := by
  apply reject_of_ext_top env p x hx
  intro hv
  simp only [validateExtension, seq_ok_iff, guardV_ok_iff] at hv
  rcases h with h | h | h | h
  · have := hv.2.1; simp [h, cRequired] at this
  · have := hv.2.2.2.1; rw [h] at this; cases this
  · have h1 := hv.1
    have : decide (x.number < 0) = true := decide_eq_true h
    rw [this] at h1; cases h1
  · have h1 := hv.1
    have a : decide (firstReservedNumber ≤ x.number) = true := decide_eq_true h.1
    have b : decide (x.number ≤ lastReservedNumber) = true := decide_eq_true h.2
    rw [a, b] at h1; simp at h1

/-! ### unresolvable references (without AllowUnresolvable) -/

/-- a field, extension or method whose resolution failed fails the file -/
theorem unresolvable (env : Env) (p : FileP)
    (h : ∃ e, some e ∈ msgsResolveErrs (build env p).messages ++ (build env p).exts.map (·.resolveErr) ++
      (build env p).methods.map methodErr) : ∃ r, newFile env p = .error r := by
  apply newFile_error_of_check
  intro hc
  simp only [check, seq_ok_iff, checkResolve, firstErr_ok_iff] at hc
  obtain ⟨e, he⟩ := h
  have := hc.2.2.1 (some e) he
  cases this

/-- `findTyped` on a fully-qualified valid name that is declared nowhere: an error unless AllowUnresolvable. -/
theorem findTyped_notFound (c : Ctx) (w : Want) (ref : Str) (h : findDescriptor c ref = .notFound)
    (ha : c.env.allowUnresolvable = false) : findTyped c w ref = .error .unresolvedType := by
  simp [findTyped, h, ha]

/-! ### the `packed` guard is dead code (DESIGN finding 13) -/

def str (x : String) : Str := x.toList.map Char.toNat

theorem findTarget_mapEntry (c : Ctx) (k : Nat) (ref : Str) (t : Target) (h : findTarget c k ref = .ok t)
    (m : TargetRef) (hm : t.messageT = some m) (hme : m.isMapEntry = true) : t.kind = kMessage ∨ t.kind = kGroup := by
  unfold findTarget at h
  split at h
  · -- enum
    cases hf : findTyped c .enum ref with
    | error e => simp [hf, Except.map] at h
    | ok r => simp [hf, Except.map] at h; subst h; simp at hm
  · split at h
    · rename_i hk
      cases hf : findTyped c .msg ref with
      | error e => simp [hf, Except.map] at h
      | ok r =>
        simp [hf, Except.map] at h; subst h
        simp only [Bool.or_eq_true, beq_iff_eq] at hk
        exact hk
    · split at h
      · split at h
        · cases h
        · cases h
        · split at h
          · injection h with h; subst h
            simp only [Option.some.injEq] at hm; subst hm
            simp [TargetRef.isMapEntry] at hme
          · cases h
        · rename_i t' _
          split at h
          · injection h with h; subst h; simp at hm
          · injection h with h; subst h; left; rfl
          · cases h
      · split at h
        · cases h
        · split at h
          · cases h
          · injection h with h; subst h; simp at hm

theorem buildField_isMap_kind (c : Ctx) (par : GoFeatures) (scope : Str) (me : Bool) (n i : Nat) (p : FieldP)
    (h : (buildField c par scope me n i p).isMap = true) : (buildField c par scope me n i p).kind = kMessage := by
  simp only [buildField, FieldD.isMap] at h ⊢
  generalize (if (p.type == kMessage && (fieldFeatures par p.features p.packed).isDelimitedEncoded) = true then kGroup else p.type) = k0 at h ⊢
  cases hft : findTarget c k0 (p.typeName.getD []) with
  | error e => simp [hft] at h
  | ok t =>
    simp only [hft] at h ⊢
    cases hmt : t.messageT with
    | none => simp [hmt] at h
    | some mt =>
      simp only [hmt, Bool.not_false, Bool.true_and] at h ⊢
      rcases findTarget_mapEntry c _ _ t hft mt hmt h with hk | hk
      · simp [hk, kMessage, kGroup]
      · simp [hk, h]

/-- **packed_guard_dead.** For every field `protodesc` builds, `f.IsPacked() && !isPackable(f)` is false:
`IsPacked()` already requires a repeated field of a packable kind, and such a field is a list (it can only be a map
if its kind is message).  The `notPackable` error can never be returned. -/
theorem packed_guard_dead (c : Ctx) (par : GoFeatures) (scope : Str) (me : Bool) (n i : Nat) (p : FieldP) :
    ((buildField c par scope me n i p).isPacked && !isPackable (buildField c par scope me n i p)) = false := by
  generalize hf : buildField c par scope me n i p = f
  have hmap : f.isMap = true → f.kind = kMessage := by
    subst hf; exact buildField_isMap_kind c par scope me n i p
  have hext : f.isExtension = false := by subst hf; rfl
  cases hp : f.isPacked with
  | false => rfl
  | true =>
    simp only [Bool.true_and, Bool.not_eq_false']
    simp only [FieldD.isPacked, isPacked] at hp
    split at hp
    · cases hp
    · rename_i hcard
      split at hp
      · cases hp
      · rename_i hkind
        simp only [Bool.not_eq_true, Bool.not_eq_false', bne_iff_ne, ne_eq, Decidable.not_not] at hcard hkind
        simp only [packableKind, Bool.not_eq_true', Bool.or_eq_false_iff, beq_eq_false_iff_ne, ne_eq] at hkind
        obtain ⟨⟨⟨hk1, hk2⟩, hk3⟩, hk4⟩ := hkind
        have hnm : f.isMap = false := by
          cases hm : f.isMap with
          | false => rfl
          | true => exact absurd (hmap hm) hk3
        simp [isPackable, hk1, hk2, hk3, hk4, FieldD.isList, hcard, hnm, hext]

/-- proto2 `message M { repeated string s = 1 [packed = true]; optional int32 i = 2 [packed = true]; }` -/
def packedWitness : FileP :=
  { path := str "w/packed.proto", pkg := str "w", syn := 2
    messages := .cons (.mk (str "M")
      [{ name := str "s", number := some 1, label := some 3, type := 9, packed := some true },
       { name := str "i", number := some 2, label := some 1, type := 5, packed := some true }]
      [] .nil [] [] [] [] [] false false {}) .nil }

/-- `[packed = true]` on a field that is not a repeated field of a packable kind (top-level messages) -/
def packedOnUnpackable (p : FileP) : Bool :=
  p.messages.toList.any fun m => m.fields.any fun f =>
    f.packed == some true && (f.label.getD cOptional != cRepeated || !packableKind f.type)

/- FULL STATEMENT of the rule "invalid packed combinations are rejected" (false of the current code):
   `∀ env p, packedOnUnpackable p = true → ∃ r, newFile env p = .error r`. -/
set_option maxRecDepth 10000 in
theorem packed_rule_false : ¬ ∀ env p, packedOnUnpackable p = true → ∃ r, newFile env p = .error r := by
  intro h
  obtain ⟨r, hr⟩ := h {} packedWitness (by decide)
  have : (newFile {} packedWitness).isOk = true := by decide
  rw [hr] at this; cases this

/-! ### duplicate extension numbers are accepted (DESIGN finding 14) -/

/-- proto2 `message M { extensions 100 to 199; } extend M { optional int32 a = 100; optional int32 b = 100; }` -/
def dupExtWitness : FileP :=
  { path := str "w/dupext.proto", pkg := str "w", syn := 2
    messages := .cons (.mk (str "M") [] [] .nil [] [] [(100, 200)] [] [] false false {}) .nil
    exts := [{ name := str "a", number := some 100, label := some 1, type := 5, extendee := some (str ".w.M") },
             { name := str "b", number := some 100, label := some 1, type := 5, extendee := some (str ".w.M") }] }

def dupExtension (p : FileP) : Bool :=
  let keys := p.exts.map fun x => (x.extendee, x.number)
  hasDupNumber (keys.map fun k => some (k.2.getD 0)) && (keys.map (·.1)).eraseDups.length == 1

/- FULL STATEMENT (false of the current code): two extensions of one extendee with the same number are rejected. -/
set_option maxRecDepth 10000 in
theorem dup_extension_false : ¬ ∀ env p, dupExtension p = true → ∃ r, newFile env p = .error r := by
  intro h
  obtain ⟨r, hr⟩ := h {} dupExtWitness (by decide)
  have : (newFile {} dupExtWitness).isOk = true := by decide
  rw [hr] at this; cases this

/-! ### the escape hatch reaches the panic (new finding) -/

def editionPanicWitness : FileP :=
  { path := str "cmd/protoc-gen-go/testdata/w.proto", pkg := str "w", syn := 9, edition := 1 }

/- FULL STATEMENT "NewFile never panics" (false of the current code): `∀ env p, check env p ≠ .error .editionPanic`. -/
set_option maxRecDepth 10000 in
theorem never_panics_false : ¬ ∀ env p, check env p ≠ .error .editionPanic := by
  intro h
  exact h {} editionPanicWitness rfl

/-- … and outside the escape hatch the header check never reaches it (contrapositive of `validate_total`). -/
theorem never_panics_partial (p : FileP) (h : testdataPrefix.isPrefixOf p.path = false) :
    checkHeader p ≠ .error .editionPanic := by
  intro hp
  have := (validate_total p hp).2
  rw [h] at this; cases this

end C35
