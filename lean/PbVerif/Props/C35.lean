import PbVerif.Lemmas.Desc
/-
C35 — Descriptor validation never crashes and rejects invalid schemas.

Stated on `Model.Desc` (`newFile` = steps 0–3 of `protodesc.FileOptions.New`).  One lemma per rule of the
property statement, for ALL trees: a descriptor tree exhibiting the defect anywhere makes `newFile` fail.
`m ∈ flattenMsgs (build env p).messages` ranges over every message of the file at any nesting depth.
-/
namespace C35
open Desc Gen.EditionDefaults

/-- the validation context `validateFile` uses -/
def vctx (env : Env) (p : FileP) : VCtx :=
  { env := env, all := flattenMsgs (build env p).messages, edition := (build env p).edition }

/-! ### generic: a failing declaration anywhere fails the file -/

theorem reject_of_msg (env : Env) (p : FileP) (m : MessageD)
    (hm : m ∈ flattenMsgs (build env p).messages) (bad : validateMsg (vctx env p) m ≠ .ok ()) :
    ∃ r, newFile env p = .error r := by
  apply newFile_error_of_check
  intro h
  simp only [check, seq_ok_iff, validateFile] at h
  exact bad (validateMsgs_of_mem _ _ h.2.2.2.2.1 m hm)

theorem reject_of_enum_top (env : Env) (p : FileP) (e : EnumD)
    (he : e ∈ (build env p).enums) (bad : validateEnum e ≠ .ok ()) : ∃ r, newFile env p = .error r := by
  apply newFile_error_of_check
  intro h
  simp only [check, seq_ok_iff, validateFile, allV_ok_iff] at h
  exact bad (h.2.2.2.1 e he)

theorem reject_of_enum_nested (env : Env) (p : FileP) (m : MessageD) (e : EnumD)
    (hm : m ∈ flattenMsgs (build env p).messages) (he : e ∈ m.enums) (bad : validateEnum e ≠ .ok ()) :
    ∃ r, newFile env p = .error r := by
  apply reject_of_msg env p m hm
  intro h
  cases m with
  | mk mp n f fs os nested es xs =>
    simp only [validateMsg, seq_ok_iff, allV_ok_iff] at h
    exact bad (h.2.2.2.2.2.2.2.2.2.2.1 e he)

/-! ### duplicate names / invalid names (step 1, `makeBase`) -/

theorem checkDecls_ok (ds : List Decl) (seen : List Str) (h : checkDecls ds seen = .ok ()) :
    (∀ d ∈ ds, isValidName d.2 = true) ∧ (ds.map (·.1)).Nodup ∧ ∀ d ∈ ds, d.1 ∉ seen := by
  induction ds generalizing seen with
  | nil => simp
  | cons d rest ih =>
    obtain ⟨full, name⟩ := d
    simp only [checkDecls] at h
    split at h
    · cases h
    · rename_i hv
      split at h
      · cases h
      · rename_i hs
        have ⟨h1, h2, h3⟩ := ih (full :: seen) h
        simp only [Bool.not_eq_true, Bool.not_eq_false'] at hv
        refine ⟨?_, ?_, ?_⟩
        · intro d hd
          simp only [List.mem_cons] at hd
          rcases hd with rfl | hd
          · simpa using hv
          · exact h1 d hd
        · simp only [List.map_cons, List.nodup_cons]
          refine ⟨?_, h2⟩
          intro hmem
          simp only [List.mem_map] at hmem
          obtain ⟨d, hd, hdf⟩ := hmem
          exact h3 d hd (by simp [hdf])
        · intro d hd
          simp only [List.mem_cons] at hd
          rcases hd with rfl | hd
          · simpa using hs
          · intro hin; exact h3 d hd (by simp [hin])

/-- **dup_name.** Two declarations with the same full name — same scope, same short name, whatever their kinds
(message, enum, enum value, field, oneof, extension, service, method) — are rejected. -/
theorem dup_name (env : Env) (p : FileP) (h : ¬ ((fileDecls p).map (·.1)).Nodup) :
    ∃ r, newFile env p = .error r := by
  apply newFile_error_of_check
  intro hc
  simp only [check, seq_ok_iff] at hc
  exact h (checkDecls_ok _ _ hc.2.1).2.1

/-- **invalid_name.** A declaration whose name is not an identifier is rejected. -/
theorem invalid_name (env : Env) (p : FileP) (d : Decl) (hd : d ∈ fileDecls p) (h : isValidName d.2 = false) :
    ∃ r, newFile env p = .error r := by
  apply newFile_error_of_check
  intro hc
  simp only [check, seq_ok_iff] at hc
  have := (checkDecls_ok _ _ hc.2.1).1 d hd
  rw [h] at this; cases this

/-! ### message-level rules -/

section msg
variable (env : Env) (p : FileP) (m : MessageD) (hm : m ∈ flattenMsgs (build env p).messages)
include hm

/-- **dup_number.** Two fields of one message with the same number. -/
theorem dup_number (h : fieldNumbersConflict m.fields = true) : ∃ r, newFile env p = .error r := by
  apply reject_of_msg env p m hm
  intro hv
  cases m with
  | mk mp n f fs os nested es xs =>
    simp only [validateMsg, seq_ok_iff, guardV_ok_iff] at hv
    simp only [MessageD.fields] at h
    rw [h] at hv; exact absurd hv.2.2.2.2.1 (by simp)

/-- a field failing its own checks fails the file -/
theorem reject_of_field (f : FieldD) (hf : f ∈ m.fields) (bad : validateField (vctx env p) m f ≠ .ok ()) :
    ∃ r, newFile env p = .error r := by
  apply reject_of_msg env p m hm
  intro hv
  cases m with
  | mk mp n ft fs os nested es xs =>
    simp only [validateMsg, seq_ok_iff, allV_ok_iff] at hv
    exact bad (hv.2.2.2.2.2.2.2.2.1 f hf)

/-- **bad_number.** A field number outside [1, 2^29 - 1] (19000–19999 are NOT refused for message fields by the code). -/
theorem bad_number (f : FieldD) (hf : f ∈ m.fields) (h : f.number < 1 ∨ 536870911 < f.number) :
    ∃ r, newFile env p = .error r := by
  apply reject_of_field env p m hm f hf
  intro hv
  simp only [validateField, seq_ok_iff, guardV_ok_iff] at hv
  have hn : numberIsValid f.number = true := by simpa using hv.2.1
  simp [numberIsValid, maxValidNumber] at hn
  obtain ⟨h1', h2'⟩ := hn
  have h2'' := of_decide_eq_true h2'
  omega

/-- **field_in_ext_range.** -/
theorem field_in_ext_range (f : FieldD) (hf : f ∈ m.fields) (h : fieldRangesHas m.p.extRanges f.number = true) :
    ∃ r, newFile env p = .error r := by
  apply reject_of_field env p m hm f hf
  intro hv
  simp only [validateField, seq_ok_iff, guardV_ok_iff] at hv
  rw [h] at hv; exact absurd hv.2.2.2.2.1 (by simp)

/-- **reserved_use (number).** -/
theorem field_in_reserved_range (f : FieldD) (hf : f ∈ m.fields) (h : fieldRangesHas m.p.resRanges f.number = true) :
    ∃ r, newFile env p = .error r := by
  apply reject_of_field env p m hm f hf
  intro hv
  simp only [validateField, seq_ok_iff, guardV_ok_iff] at hv
  rw [h] at hv; exact absurd hv.2.2.2.1 (by simp)

/-- **reserved_use (name).** -/
theorem field_name_reserved (f : FieldD) (hf : f ∈ m.fields) (h : f.name ∈ m.p.resNames) :
    ∃ r, newFile env p = .error r := by
  apply reject_of_field env p m hm f hf
  intro hv
  simp only [validateField, seq_ok_iff, guardV_ok_iff] at hv
  have := hv.1
  simp only [List.contains_eq_mem, decide_eq_false_iff_not] at this
  exact this h

/-- **bad_map_entry.** A field whose target is a map entry violating any clause of `checkValidMap`. -/
theorem bad_map_entry (f : FieldD) (hf : f ∈ m.fields)
    (h : checkValidMap env (flattenMsgs (build env p).messages) f = true) : ∃ r, newFile env p = .error r := by
  apply reject_of_field env p m hm f hf
  intro hv
  simp only [validateField, seq_ok_iff, guardV_ok_iff, vctx] at hv
  rw [h] at hv; exact absurd hv.2.2.2.2.2.2.2.2.2.2.2.1 (by simp)

/-- **bad_group.** -/
theorem bad_group (f : FieldD) (hf : f ∈ m.fields)
    (h : checkValidGroup env (flattenMsgs (build env p).messages) (build env p).edition f = true) :
    ∃ r, newFile env p = .error r := by
  apply reject_of_field env p m hm f hf
  intro hv
  simp only [validateField, seq_ok_iff, guardV_ok_iff, vctx] at hv
  rw [h] at hv; exact absurd hv.2.2.2.2.2.2.2.2.2.2.1 (by simp)

/-- **proto3_forbidden (required).** -/
theorem proto3_required (f : FieldD) (hf : f ∈ m.fields) (h3 : (build env p).edition = editionProto3)
    (h : f.cardinality = cRequired) : ∃ r, newFile env p = .error r := by
  apply reject_of_field env p m hm f hf
  intro hv
  simp only [validateField, seq_ok_iff, guardV_ok_iff, vctx, h3, h] at hv
  exact absurd hv.2.2.2.2.2.2.2.2.2.2.2.2.1 (by decide)

/-- **proto3_forbidden (extension ranges).** -/
theorem proto3_extension_ranges (h3 : (build env p).edition = editionProto3) (h : m.p.extRanges ≠ []) :
    ∃ r, newFile env p = .error r := by
  apply reject_of_msg env p m hm
  intro hv
  cases m with
  | mk mp n f fs os nested es xs =>
    simp only [validateMsg, seq_ok_iff, guardV_ok_iff, vctx, h3] at hv
    have := hv.2.2.2.2.2.2.2.1
    simp only [MessageD.p] at h
    cases hx : mp.extRanges with
    | nil => exact h hx
    | cons a b => simp [hx] at this

/-- **presence/enum combination.** An implicit-presence singular field of a closed enum type. -/
theorem implicit_closed_enum (f : FieldD) (hf : f ∈ m.fields)
    (h : f.cardinality = cOptional ∧ f.hasPresence = false ∧ enumClosedNonPlaceholder f = true) :
    ∃ r, newFile env p = .error r := by
  apply reject_of_field env p m hm f hf
  intro hv
  simp only [validateField, seq_ok_iff, guardV_ok_iff, h.1, h.2.1, h.2.2] at hv
  exact absurd hv.2.2.2.2.2.2.2.2.2.2.2.2.2.2 (by decide)

end msg

/-! ### ranges -/

theorem mem_insertByStart (r x : Int × Int) (l : List (Int × Int)) : x ∈ insertByStart r l ↔ x = r ∨ x ∈ l := by
  induction l with
  | nil => simp [insertByStart]
  | cons y ys ih =>
    simp only [insertByStart]
    split
    · simp
    · simp only [List.mem_cons, ih]
      constructor
      · rintro (h | h | h) <;> simp [h]
      · rintro (h | h | h) <;> simp [h]

theorem mem_sortByStart (x : Int × Int) (l : List (Int × Int)) : x ∈ sortByStart l ↔ x ∈ l := by
  induction l with
  | nil => simp [sortByStart]
  | cons y ys ih =>
    simp only [sortByStart, List.foldr_cons] at ih ⊢
    rw [mem_insertByStart, ih]
    simp [eq_comm]

theorem fieldRangesBad_of_mem (ms : Bool) (l : List (Int × Int)) (prev : Option (Int × Int)) (r : Int × Int)
    (hr : r ∈ l) (hbad : ¬ (r.1 ≤ fieldEnd r)) : fieldRangesBad ms l prev = true := by
  induction l generalizing prev with
  | nil => cases hr
  | cons x xs ih =>
    simp only [fieldRangesBad]
    split
    · rfl
    · split
      · rfl
      · split
        · rfl
        · rename_i hx
          simp only [List.mem_cons] at hr
          rcases hr with rfl | hr
          · simp only [Bool.not_eq_true, Bool.not_eq_false', decide_eq_true_eq] at hx
            exact absurd hx hbad
          · cases prev with
            | none => exact ih _ hr
            | some rp =>
              simp only
              split
              · rfl
              · exact ih _ hr

theorem perm_insertByStart (r : Int × Int) (l : List (Int × Int)) : (insertByStart r l).Perm (r :: l) := by
  induction l with
  | nil => simp [insertByStart]
  | cons y ys ih =>
    simp only [insertByStart]
    split
    · exact List.Perm.refl _
    · exact (List.Perm.cons y ih).trans (List.Perm.swap r y ys)

theorem perm_sortByStart (l : List (Int × Int)) : (sortByStart l).Perm l := by
  induction l with
  | nil => exact List.Perm.refl _
  | cons y ys ih =>
    have : sortByStart (y :: ys) = insertByStart y (sortByStart ys) := rfl
    rw [this]
    exact (perm_insertByStart y _).trans (List.Perm.cons y ih)

/-- after a previous range `rp`, an accepted list starts strictly after `rp` ends — for EVERY later element -/
theorem fieldRanges_after (ms : Bool) (l : List (Int × Int)) (rp : Int × Int)
    (h : fieldRangesBad ms l (some rp) = false) : ∀ y ∈ l, fieldEnd rp < y.1 := by
  induction l generalizing rp with
  | nil => intro y hy; cases hy
  | cons x xs ih =>
    intro y hy
    simp only [fieldRangesBad] at h
    split at h
    · cases h
    · split at h
      · cases h
      · split at h
        · cases h
        · rename_i hself
          simp only [Bool.not_eq_true, Bool.not_eq_false', decide_eq_true_eq] at hself
          split at h
          · cases h
          · rename_i hprev
            simp only [Bool.not_eq_true, Bool.not_eq_false', decide_eq_true_eq] at hprev
            simp only [List.mem_cons] at hy
            rcases hy with rfl | hy
            · exact hprev
            · have := ih x h y hy
              omega

theorem fieldRanges_pairwise (ms : Bool) (l : List (Int × Int)) (prev : Option (Int × Int))
    (h : fieldRangesBad ms l prev = false) : l.Pairwise fun a b => fieldEnd a < b.1 := by
  induction l generalizing prev with
  | nil => exact List.Pairwise.nil
  | cons x xs ih =>
    simp only [fieldRangesBad] at h
    split at h
    · cases h
    · split at h
      · cases h
      · split at h
        · cases h
        · have hx : fieldRangesBad ms xs (some x) = false := by
            cases prev with
            | none => exact h
            | some rp =>
              simp only at h
              split at h
              · cases h
              · exact h
          exact List.Pairwise.cons (fieldRanges_after ms xs x hx) (ih _ hx)

/-- **overlap.** Two extension ranges (or two reserved ranges) of one message that overlap — wherever they stand in
the declared list — are rejected. -/
theorem overlap (env : Env) (p : FileP) (m : MessageD) (hm : m ∈ flattenMsgs (build env p).messages)
    (l1 l2 l3 : List (Int × Int)) (a b : Int × Int)
    (hl : m.p.extRanges = l1 ++ a :: l2 ++ b :: l3 ∨ m.p.resRanges = l1 ++ a :: l2 ++ b :: l3)
    (hov : ¬ (fieldEnd a < b.1 ∨ fieldEnd b < a.1)) : ∃ r, newFile env p = .error r := by
  apply reject_of_msg env p m hm
  intro hv
  have key : ∀ l : List (Int × Int), l = l1 ++ a :: l2 ++ b :: l3 →
      fieldRangesBad m.p.messageSet (sortByStart l) none = false → False := by
    intro l hl hbad
    have hp := fieldRanges_pairwise _ _ _ hbad
    have hs : (sortByStart l).Pairwise fun x y => fieldEnd x < y.1 ∨ fieldEnd y < x.1 := hp.imp Or.inl
    have hl' : l.Pairwise fun x y => fieldEnd x < y.1 ∨ fieldEnd y < x.1 :=
      (List.Perm.pairwise_iff (fun h => h.symm) (perm_sortByStart l)).1 hs
    rw [hl] at hl'
    have h1 := (List.pairwise_append.1 hl').2.2 a (by simp) b (by simp)
    exact hov h1
  cases m with
  | mk mp n f fs os nested es xs =>
    simp only [validateMsg, seq_ok_iff, guardV_ok_iff] at hv
    simp only [MessageD.p] at hl key
    rcases hl with hl | hl
    · exact key _ hl hv.2.2.1
    · exact key _ hl hv.2.1

/-- `fieldEnd` is `end - 1` for every `end` an int32 can hold except MinInt32. -/
theorem fieldEnd_eq (r : Int × Int) (h : -2147483648 < r.2 ∧ r.2 ≤ 2147483647) : fieldEnd r = r.2 - 1 := by
  simp only [fieldEnd, wrap32]; omega

/-- **bad_range.** An extension range or reserved range with `start ≥ end` (ends within int32, `end ≠ MinInt32`),
anywhere in the file. -/
theorem bad_range (env : Env) (p : FileP) (m : MessageD) (hm : m ∈ flattenMsgs (build env p).messages)
    (r : Int × Int) (hr : r ∈ m.p.extRanges ∨ r ∈ m.p.resRanges)
    (hend : -2147483648 < r.2 ∧ r.2 ≤ 2147483647) (h : r.2 ≤ r.1) : ∃ r', newFile env p = .error r' := by
  apply reject_of_msg env p m hm
  intro hv
  have hb : ¬ (r.1 ≤ fieldEnd r) := by rw [fieldEnd_eq r hend]; omega
  cases m with
  | mk mp n f fs os nested es xs =>
    simp only [validateMsg, seq_ok_iff, guardV_ok_iff] at hv
    simp only [MessageD.p] at hr
    rcases hr with hr | hr
    · have := fieldRangesBad_of_mem mp.messageSet (sortByStart mp.extRanges) none r ((mem_sortByStart _ _).2 hr) hb
      rw [this] at hv; exact absurd hv.2.2.1 (by simp)
    · have := fieldRangesBad_of_mem mp.messageSet (sortByStart mp.resRanges) none r ((mem_sortByStart _ _).2 hr) hb
      rw [this] at hv; exact absurd hv.2.1 (by simp)

/-! ### oneofs -/

theorem validateOneofs_ok (ed : Nat) (fs : List FieldD) (os : List OneofD) (seen : Bool)
    (h : validateOneofs ed fs os seen = .ok ()) :
    ∀ o ∈ os, o.members ≠ [] ∧
      ((o.members.length : Int) - 1 = ((o.members.getLast?.getD 0 : Nat) : Int) - ((o.members.head?.getD 0 : Nat) : Int)) := by
  induction os generalizing seen with
  | nil => simp
  | cons o rest ih =>
    intro x hx
    simp only [validateOneofs] at h
    split at h
    · cases h
    · rename_i first more hmem
      split at h
      · cases h
      · rename_i hcons
        simp only [List.mem_cons] at hx
        rcases hx with rfl | hx
        · refine ⟨by rw [hmem]; simp, ?_⟩
          rw [hmem]
          simp only [bne_iff_ne, ne_eq, Decidable.not_not] at hcons
          simp only [List.head?_cons, Option.getD_some]
          cases hl : (first :: more).getLast? with
          | none => simp at hl
          | some l => rw [hl] at hcons; simpa using hcons
        · split at h
          · exact ih true h x hx
          · split at h
            · cases h
            · split at h
              · cases h
              · exact ih seen h x hx

/-- **oneof_nonconsecutive_or_empty.** A oneof without members, or whose members are not declared consecutively
(`n - 1 ≠ index(last) - index(first)`), anywhere in the file. -/
theorem oneof_nonconsecutive_or_empty (env : Env) (p : FileP) (m : MessageD)
    (hm : m ∈ flattenMsgs (build env p).messages) (o : OneofD) (ho : o ∈ m.oneofs)
    (h : o.members = [] ∨
      (o.members.length : Int) - 1 ≠ ((o.members.getLast?.getD 0 : Nat) : Int) - ((o.members.head?.getD 0 : Nat) : Int)) :
    ∃ r, newFile env p = .error r := by
  apply reject_of_msg env p m hm
  intro hv
  cases m with
  | mk mp n f fs os nested es xs =>
    simp only [validateMsg, seq_ok_iff] at hv
    have := validateOneofs_ok _ _ _ _ hv.2.2.2.2.2.2.2.2.2.1 o ho
    rcases h with h | h
    · exact this.1 h
    · exact h this.2

/-! ### enums -/

/-- **proto3_forbidden (first enum value) / open enums.** -/
theorem open_enum_first_nonzero (e : EnumD) (v : EnumValueP) (rest : List EnumValueP)
    (hv : e.p.values = v :: rest) (hopen : e.isClosed = false) (hz : v.number.getD 0 ≠ 0) :
    validateEnum e ≠ .ok () := by
  intro h
  simp only [validateEnum, seq_ok_iff, guardV_ok_iff, hv, hopen] at h
  have h6 := h.2.2.2.2.2.1
  simp at h6
  exact hz h6

theorem enum_empty (e : EnumD) (hv : e.p.values = []) : validateEnum e ≠ .ok () := by
  intro h
  simp only [validateEnum, seq_ok_iff, guardV_ok_iff, hv] at h
  exact absurd h.2.2.1 (by simp)

/-- duplicate enum numbers without `allow_alias` -/
theorem enum_dup_number (e : EnumD) (h : hasDupNumber (e.p.values.map fun v => some (v.number.getD 0)) = true)
    (ha : e.p.allowAlias = false) : validateEnum e ≠ .ok () := by
  intro hv
  simp only [validateEnum, seq_ok_iff, guardV_ok_iff, h, ha] at hv
  exact absurd hv.2.2.2.1 (by simp)

/-- an enum value using a reserved number or name -/
theorem enum_reserved_use (e : EnumD) (v : EnumValueP) (hv : v ∈ e.p.values)
    (h : v.name ∈ e.p.resNames ∨ enumRangesHas e.p.resRanges (v.number.getD 0) = true) : validateEnum e ≠ .ok () := by
  intro hok
  simp only [validateEnum, seq_ok_iff, allV_ok_iff] at hok
  have := hok.2.2.2.2.2.2 v hv
  simp only [validateEnumValue, seq_ok_iff, guardV_ok_iff] at this
  rcases h with h | h
  · have h2 := this.2.1
    simp only [List.contains_eq_mem, decide_eq_false_iff_not] at h2
    exact h2 h
  · rw [h] at this; exact absurd this.2.2 (by simp)

/-! ### totality: the only panic branch of the code and when it is reachable -/

theorem defaults_some_of_supported (ed : Nat) (h : (supportMinimum ≤ ed ∧ ed ≤ supportMaximum) ∨ ed = editionUnstable) :
    (defaultsFor ed).isSome = true := by
  have : ed = 998 ∨ ed = 999 ∨ ed = 1000 ∨ ed = 1001 ∨ ed = 9999 := by
    simp only [supportMinimum, supportMaximum, editionUnstable] at h; omega
  rcases this with rfl | rfl | rfl | rfl | rfl <;> decide

theorem isKnownEdition_supported (ed : Nat) (h : isKnownEdition ed = true) :
    (supportMinimum ≤ ed ∧ ed ≤ supportMaximum) ∨ ed = editionUnstable := by
  simp [isKnownEdition, minimumEdition, maximumEdition, editionUnstable] at h
  simp only [supportMinimum, supportMaximum, editionUnstable]
  rcases h.2 with ⟨a, b⟩ | c
  · exact Or.inl ⟨of_decide_eq_true a, of_decide_eq_true b⟩
  · exact Or.inr c

theorem packable_ite (b : Bool) (k0 : Nat) (h : packableKind k0 = false) :
    packableKind (if b = true then kMessage else k0) = false := by
  cases b
  · simpa using h
  · simp [packableKind, kMessage, kString, kBytes, kGroup]

/-- **validate_total / never_panics.** Every function of the model is total (structural recursion, no partial
operation, no `get!`), so `newFile` always returns a verdict.  The code's own `panic` / `os.Exit` (`toEditionProto`,
`getFeatureSetFor`, reached from `initFileDescFromFeatureSet`) is the verdict `editionPanic`; only `checkHeader` could
produce it, and it NEVER does — for every file, whatever its path: since 4beace6 the `cmd/protoc-gen-go/testdata/`
exemption only admits editions the defaults table covers. -/
theorem validate_total (p : FileP) : checkHeader p ≠ .error .editionPanic := by
  intro h
  simp only [checkHeader] at h
  by_cases h1 : p.syn == 1
  · simp [seq, guardV, h1] at h
  by_cases h2 : p.path.isEmpty
  · simp [seq, guardV, h1, h2] at h
  by_cases hx : (p.syn == 9 && (p.edition < supportMinimum || supportMaximum < p.edition) && p.edition != editionUnstable
      && (!(testdataPrefix.isPrefixOf p.path) || !isKnownEdition p.edition))
  · simp [seq, guardV, h1, h2, hx] at h
  by_cases hpk : (!isValidFullName p.pkg && !p.pkg.isEmpty)
  · simp [seq, guardV, h1, h2, hx, hpk] at h
  have hd : (defaultsFor (fileEdition p)).isSome = true := by
    by_cases h9 : p.syn = 9
    · have hfe : fileEdition p = p.edition := by simp [fileEdition, h9]
      rw [hfe]
      apply defaults_some_of_supported
      by_cases hs : (supportMinimum ≤ p.edition ∧ p.edition ≤ supportMaximum) ∨ p.edition = editionUnstable
      · exact hs
      · -- outside the window the guard `hx` can only be false through the exemption, which needs a known edition
        have hk : isKnownEdition p.edition = true := by
          simp only [Bool.not_eq_true] at hx
          have h9' : (p.syn == 9) = true := by simpa using h9
          have hw : (decide (p.edition < supportMinimum) || decide (supportMaximum < p.edition)) = true := by
            simp only [not_or, not_and] at hs
            simp only [Bool.or_eq_true, decide_eq_true_eq]
            by_cases ha : p.edition < supportMinimum
            · exact Or.inl ha
            · right
              have := hs.1 (by omega)
              omega
          have hu : (p.edition != editionUnstable) = true := by
            simp only [not_or] at hs
            simpa using hs.2
          simp only [h9', hw, hu, Bool.and_self, Bool.true_and, Bool.or_eq_false_iff, Bool.not_eq_false'] at hx
          exact hx.2
        exact isKnownEdition_supported _ hk
    · unfold fileEdition
      have : (p.syn == 9) = false := by simpa using h9
      rw [this]
      by_cases h3 : p.syn == 3 <;> simp [h3] <;> decide
  simp only [Bool.not_eq_true] at hpk hx
  simp [seq, guardV, h1, h2, hx, hpk, Option.isSome_iff_ne_none.mp hd] at h

/-! ### extensions -/

theorem reject_of_ext_top (env : Env) (p : FileP) (x : FieldD) (hx : x ∈ (build env p).exts)
    (bad : validateExtension (vctx env p) x ≠ .ok ()) : ∃ r, newFile env p = .error r := by
  apply newFile_error_of_check
  intro h
  simp only [check, seq_ok_iff, validateFile, allV_ok_iff] at h
  exact bad (h.2.2.2.2.2 x hx)

/-- an extension whose number is not inside an extension range of its (resolved, non-placeholder) extendee -/
theorem ext_not_in_range (env : Env) (p : FileP) (x : FieldD) (hx : x ∈ (build env p).exts) (t : TargetRef)
    (ht : x.extendeeT = some t) (hp : (msgInfo env (flattenMsgs (build env p).messages) t).placeholder = false)
    (h : fieldRangesHas (msgInfo env (flattenMsgs (build env p).messages) t).extRanges x.number = false) :
    ∃ r, newFile env p = .error r := by
  apply reject_of_ext_top env p x hx
  intro hv
  simp only [validateExtension, seq_ok_iff, guardV_ok_iff, ht, vctx, hp] at hv
  have := hv.2.2.2.2.1
  simp only [Bool.false_eq_true, ↓reduceIte, seq_ok_iff, guardV_ok_iff, h] at this
  exact absurd this.1 (by simp)

/-- an extension with the `required` label, a oneof index, or a number in 19000–19999 / negative -/
theorem ext_bad_shape (env : Env) (p : FileP) (x : FieldD) (hx : x ∈ (build env p).exts)
    (h : x.cardinality = cRequired ∨ x.p.oneofIndex.isSome = true ∨ x.number < 0 ∨ (19000 ≤ x.number ∧ x.number ≤ 19999)) :
    ∃ r, newFile env p = .error r := by
  apply reject_of_ext_top env p x hx
  intro hv
  simp only [validateExtension, seq_ok_iff, guardV_ok_iff] at hv
  rcases h with h | h | h | h
  · have := hv.2.1; simp [h, cRequired] at this
  · have := hv.2.2.2.1; rw [h] at this; cases this
  · have h1 := hv.1
    have : decide (x.number < 0) = true := decide_eq_true h
    rw [this] at h1; cases h1
  · have h1 := hv.1
    have a : decide (firstReservedNumber ≤ x.number) = true := decide_eq_true h.1
    have b : decide (x.number ≤ lastReservedNumber) = true := decide_eq_true h.2
    rw [a, b] at h1; simp at h1

/-! ### unresolvable references (without AllowUnresolvable) -/

/-- a field, extension or method whose resolution failed fails the file -/
theorem unresolvable (env : Env) (p : FileP)
    (h : ∃ e, some e ∈ msgsResolveErrs (build env p).messages ++ (build env p).exts.map (·.resolveErr) ++
      (build env p).methods.map methodErr) : ∃ r, newFile env p = .error r := by
  apply newFile_error_of_check
  intro hc
  simp only [check, seq_ok_iff, checkResolve, firstErr_ok_iff] at hc
  obtain ⟨e, he⟩ := h
  have := hc.2.2.1 (some e) he
  cases this

/-- `findTyped` on a fully-qualified valid name that is declared nowhere: an error unless AllowUnresolvable. -/
theorem findTyped_notFound (c : Ctx) (w : Want) (ref : Str) (h : findDescriptor c ref = .notFound)
    (ha : c.env.allowUnresolvable = false) : findTyped c w ref = .error .unresolvedType := by
  simp [findTyped, h, ha]

/-! ### invalid `packed` combinations are rejected (DESIGN finding 13, repaired by 622c0ae) -/

def str (x : String) : Str := x.toList.map Char.toNat

/-- **bad_packed.** `[packed = true]` on a field that is not a list of a packable kind, anywhere in the file. -/
theorem bad_packed (env : Env) (p : FileP) (m : MessageD) (hm : m ∈ flattenMsgs (build env p).messages)
    (f : FieldD) (hf : f ∈ m.fields) (h : f.p.packed = some true ∧ isPackable f = false) :
    ∃ r, newFile env p = .error r := by
  apply reject_of_field env p m hm f hf
  intro hv
  simp only [validateField, seq_ok_iff, guardV_ok_iff, h.1, h.2] at hv
  exact absurd hv.2.2.2.2.2.2.2.2.2.1 (by decide)

/-- the same for extensions declared at file level -/
theorem bad_packed_ext (env : Env) (p : FileP) (x : FieldD) (hx : x ∈ (build env p).exts)
    (h : x.p.packed = some true ∧ isPackable x = false) : ∃ r, newFile env p = .error r := by
  apply reject_of_ext_top env p x hx
  intro hv
  simp only [validateExtension, seq_ok_iff, guardV_ok_iff, h.1, h.2] at hv
  exact absurd hv.2.2.2.2.2.1 (by decide)

/-- `[packed = true]` on a field that is not a repeated field of a packable kind (fields of top-level messages) -/
def packedOnUnpackable (p : FileP) : Bool :=
  p.messages.toList.any fun m => m.fields.any fun f =>
    f.packed == some true && (f.label.getD cOptional != cRepeated || (1 ≤ f.type && !packableKind f.type))

theorem buildField_mem (c : Ctx) (par : GoFeatures) (scope : Str) (me : Bool) (n : Nat) (ps : List FieldP) (i : Nat)
    (q : FieldP) (hq : q ∈ ps) : ∃ j, buildField c par scope me n j q ∈ buildFields c par scope me n i ps := by
  induction ps generalizing i with
  | nil => cases hq
  | cons a rest ih =>
    simp only [List.mem_cons] at hq
    rcases hq with rfl | hq
    · exact ⟨i, by simp [buildFields]⟩
    · obtain ⟨j, hj⟩ := ih (i + 1) hq
      exact ⟨j, by simp [buildFields, hj]⟩

theorem buildMsg_mem_flatten (c : Ctx) (par : GoFeatures) (scope : Str) : (ms : MessagePList) → (m : MessageP) →
    m ∈ ms.toList → buildMsg c par scope m ∈ flattenMsgs (buildMsgs c par scope ms)
  | .nil, _, h => by simp [MessagePList.toList] at h
  | .cons a rest, m, h => by
    simp only [MessagePList.toList, List.mem_cons] at h
    simp only [buildMsgs, flattenMsgs, List.mem_append]
    rcases h with rfl | h
    · left
      cases hb : buildMsg c par scope m with
      | mk bp n f fs os nested es xs => simp [flattenMsg]
    · right; exact buildMsg_mem_flatten c par scope rest m h

/-- the kind of a built field whose declared type is string / bytes / message / group is one of those four -/
theorem buildField_unpackable_kind (c : Ctx) (par : GoFeatures) (scope : Str) (me : Bool) (n i : Nat) (q : FieldP)
    (h1 : 1 ≤ q.type) (h : packableKind q.type = false) :
    packableKind (buildField c par scope me n i q).kind = false := by
  have ht0 : (q.type == 0) = false := by simp; omega
  simp only [buildField, ht0, Bool.false_and, Bool.false_eq_true, ↓reduceIte]
  generalize hk0 : (if (q.type == kMessage && (fieldFeatures par q.features q.packed).isDelimitedEncoded) = true then kGroup else q.type) = k0
  have hk0u : packableKind k0 = false := by
    rw [← hk0]; split
    · decide
    · exact h
  have hk0ne : k0 ≠ 0 := by
    intro h0; rw [h0] at hk0u; exact absurd hk0u (by decide)
  cases hft : findTarget c k0 (q.typeName.getD []) with
  | error e => exact packable_ite _ _ hk0u
  | ok t =>
    have htk := (findTarget_ok c k0 _ t hft hk0ne).1
    simp only [htk]
    exact packable_ite _ _ hk0u

/-- **packed_rule.** The stated rule, on the proto level and for every resolver / option: a file with
`[packed = true]` on a singular field, or on a repeated string / bytes / message / group field, is rejected. -/
theorem packed_rule (env : Env) (p : FileP) (h : packedOnUnpackable p = true) : ∃ r, newFile env p = .error r := by
  simp only [packedOnUnpackable, List.any_eq_true, Bool.and_eq_true, beq_iff_eq, Bool.or_eq_true, bne_iff_ne, ne_eq,
    Bool.not_eq_true', decide_eq_true_eq] at h
  obtain ⟨m, hm, q, hq, hpk, hbad⟩ := h
  have hmem := buildMsg_mem_flatten (mkCtx env p) (fileFeatures p) p.pkg p.messages m hm
  have hmem' : buildMsg (mkCtx env p) (fileFeatures p) p.pkg m ∈ flattenMsgs (build env p).messages := hmem
  cases m with
  | mk name fields oneofs nested enums exts xr rr rn me ms feat =>
    simp only [MessageP.fields] at hq
    obtain ⟨j, hj⟩ := buildField_mem (mkCtx env p) (mergeGo (fileFeatures p) feat) (fullAppend p.pkg name) me oneofs.length
      fields 0 q hq
    refine bad_packed env p _ hmem' _ (by simpa [buildMsg, MessageD.fields] using hj) ⟨hpk, ?_⟩
    generalize hd : buildField (mkCtx env p) (mergeGo (fileFeatures p) feat) (fullAppend p.pkg name) me oneofs.length j q = d
    rcases hbad with hl | ⟨h1, hk⟩
    · -- not repeated: not a list
      have hc : d.cardinality ≠ cRepeated := by
        rw [← hd]; simp only [buildField, cardinalityOf]
        split
        · decide
        · exact hl
      have : (d.cardinality == cRepeated) = false := by simpa using hc
      simp only [isPackable, FieldD.isList, this, Bool.false_and]
      split <;> (try rfl)
      split <;> rfl
    · have := buildField_unpackable_kind (mkCtx env p) (mergeGo (fileFeatures p) feat) (fullAppend p.pkg name) me
        oneofs.length j q h1 hk
      rw [hd] at this
      simp only [packableKind, Bool.not_eq_false'] at this
      simp [isPackable, this]

/-- proto2 `message M { repeated string s = 1 [packed = true]; optional int32 i = 2 [packed = true]; }`:
the witness that refuted the rule before 622c0ae, kept as a regression example — it is now rejected. -/
def packedWitness : FileP :=
  { path := str "w/packed.proto", pkg := str "w", syn := 2
    messages := .cons (.mk (str "M")
      [{ name := str "s", number := some 1, label := some 3, type := 9, packed := some true },
       { name := str "i", number := some 2, label := some 1, type := 5, packed := some true }]
      [] .nil [] [] [] [] [] false false {}) .nil }

set_option maxRecDepth 10000 in
theorem regress_packedWitness : check {} packedWitness = .error .notPackable ∧ packedOnUnpackable packedWitness = true := by
  constructor
  · rfl
  · decide

/-! ### duplicate extension numbers are accepted (DESIGN finding 14) -/

/-- proto2 `message M { extensions 100 to 199; } extend M { optional int32 a = 100; optional int32 b = 100; }` -/
def dupExtWitness : FileP :=
  { path := str "w/dupext.proto", pkg := str "w", syn := 2
    messages := .cons (.mk (str "M") [] [] .nil [] [] [(100, 200)] [] [] false false {}) .nil
    exts := [{ name := str "a", number := some 100, label := some 1, type := 5, extendee := some (str ".w.M") },
             { name := str "b", number := some 100, label := some 1, type := 5, extendee := some (str ".w.M") }] }

def dupExtension (p : FileP) : Bool :=
  let keys := p.exts.map fun x => (x.extendee, x.number)
  hasDupNumber (keys.map fun k => some (k.2.getD 0)) && (keys.map (·.1)).eraseDups.length == 1

/- FULL STATEMENT (false of the current code): two extensions of one extendee with the same number are rejected. -/
set_option maxRecDepth 10000 in
theorem dup_extension_false : ¬ ∀ env p, dupExtension p = true → ∃ r, newFile env p = .error r := by
  intro h
  obtain ⟨r, hr⟩ := h {} dupExtWitness (by decide)
  have : (newFile {} dupExtWitness).isOk = true := by decide
  rw [hr] at this; cases this

/-! ### the testdata exemption no longer reaches the panic (repaired by 4beace6) -/

/-- the witness that made `NewFile` panic before 4beace6 (`cmd/protoc-gen-go/testdata/…`, editions, edition 1), kept as
a regression example — it is now an ordinary "edition not supported" error; `validate_total` is the general theorem -/
def editionPanicWitness : FileP :=
  { path := str "cmd/protoc-gen-go/testdata/w.proto", pkg := str "w", syn := 9, edition := 1 }

set_option maxRecDepth 10000 in
theorem regress_editionPanicWitness :
    check {} editionPanicWitness = .error .unsupportedEdition ∧
    check {} { editionPanicWitness with edition := 0 } = .error .unsupportedEdition ∧
    check {} { editionPanicWitness with edition := 1001 } = .ok () := ⟨rfl, rfl, rfl⟩

/-! ### valid_base_accepted: a structural family the checkers provably accept -/

def scalarType (t : Nat) : Bool := 1 ≤ t && t ≤ 18 && t != kGroup && t != kMessage && t != kEnum

/-- a plain scalar field: no references, no oneof, no default, no options -/
def flatField (f : FieldP) : Bool :=
  scalarType f.type && f.typeName.isNone && f.extendee.isNone && f.oneofIndex.isNone && !f.proto3Optional &&
  f.defaultOk.isNone && f.packed.isNone && f.features == {} &&
  (match f.label with | some l => 1 ≤ l && l ≤ 3 | none => true) &&
  (match f.number with | some n => 1 ≤ n && n ≤ 536870911 | none => false)

def g998 : GoFeatures := (protodescDefaultsGo editionProto2).getD {}

theorem flatField_build (c : Ctx) (scope : Str) (n i : Nat) (f : FieldP) (h : flatField f = true) :
    (buildField c g998 scope false n i f).resolveErr = none ∧ (buildField c g998 scope false n i f).kind = f.type ∧
    (buildField c g998 scope false n i f).cardinality = f.label.getD cOptional ∧
    (buildField c g998 scope false n i f).messageT = none ∧ (buildField c g998 scope false n i f).enumT = none ∧
    (buildField c g998 scope false n i f).containingOneof = none ∧
    (buildField c g998 scope false n i f).features = g998 ∧
    (buildField c g998 scope false n i f).isExtension = false ∧ (buildField c g998 scope false n i f).p = f := by
  simp only [flatField, Bool.and_eq_true, scalarType, bne_iff_ne, ne_eq, decide_eq_true_eq, Bool.not_eq_true',
    Option.isNone_iff_eq_none, beq_iff_eq] at h
  obtain ⟨⟨⟨⟨⟨⟨⟨⟨⟨⟨⟨⟨⟨h1, h2⟩, hg⟩, hm⟩, he⟩, htn⟩, hx⟩, ho⟩, hp3⟩, hd⟩, hpk⟩, hf⟩, hl⟩, hn⟩ := h
  have hF : fieldFeatures g998 f.features f.packed = g998 := by rw [hf, hpk]; decide
  have hk0 : (if (f.type == kMessage && g998.isDelimitedEncoded) = true then kGroup else f.type) = f.type := by
    have : (f.type == kMessage) = false := by simpa using hm
    simp [this]
  have hft : findTarget c f.type (f.typeName.getD []) = .ok { kind := f.type } := by
    rw [htn]
    unfold findTarget
    have a : (f.type == kEnum) = false := by simpa using he
    have b : (f.type == kMessage) = false := by simpa using hm
    have d : (f.type == kGroup) = false := by simpa using hg
    have e : (f.type == 0) = false := by simp; omega
    simp [a, b, d, e, h1, h2]
  have hlr : g998.isLegacyRequired = false := by decide
  have hg' : (f.type == kGroup) = false := by simpa using hg
  have ht0 : (f.type == 0) = false := by simp; omega
  simp only [buildField, hF, hk0, hft, ho, hd, ht0]
  simp [cardinalityOf, hlr, hg', defaultErr, Option.orElse, hd]

theorem mem_buildFields (c : Ctx) (par : GoFeatures) (scope : Str) (me : Bool) (n : Nat) (ps : List FieldP) (i : Nat)
    (d : FieldD) (h : d ∈ buildFields c par scope me n i ps) : ∃ p ∈ ps, ∃ j, d = buildField c par scope me n j p := by
  induction ps generalizing i with
  | nil => simp [buildFields] at h
  | cons p rest ih =>
    simp only [buildFields, List.mem_cons] at h
    rcases h with h | h
    · exact ⟨p, by simp, i, h⟩
    · obtain ⟨q, hq, j, hj⟩ := ih (i + 1) h
      exact ⟨q, by simp [hq], j, hj⟩

theorem buildFields_numbers (c : Ctx) (par : GoFeatures) (scope : Str) (me : Bool) (n : Nat) (ps : List FieldP) (i : Nat) :
    (buildFields c par scope me n i ps).map (fun f => some f.number) = ps.map fun p => some (p.number.getD 0) := by
  induction ps generalizing i with
  | nil => rfl
  | cons p rest ih =>
    simp only [buildFields, List.map_cons, ih]
    simp [FieldD.number, buildField]

theorem isPacked_g998 (card kind : Nat) : isPacked card kind g998 = false := by
  have : g998.isPacked = false := by decide
  simp only [isPacked, this]
  split
  · rfl
  · split <;> rfl

/-- a flat field of a message without reserved names / ranges / extension ranges passes every field check (proto2) -/
theorem flat_validateField (v : VCtx) (hv : v.edition = editionProto2) (m : MessageD)
    (hm : m.p.resNames = [] ∧ m.p.resRanges = [] ∧ m.p.extRanges = [])
    (c : Ctx) (scope : Str) (n i : Nat) (fp : FieldP) (h : flatField fp = true) :
    validateField v m (buildField c g998 scope false n i fp) = .ok () := by
  obtain ⟨_, hk, hc, hmt, het, hco, hfe, hie, hp⟩ := flatField_build c scope n i fp h
  simp only [flatField, Bool.and_eq_true, scalarType, bne_iff_ne, ne_eq, decide_eq_true_eq, Bool.not_eq_true',
    Option.isNone_iff_eq_none, beq_iff_eq] at h
  obtain ⟨⟨⟨⟨⟨⟨⟨⟨⟨⟨⟨⟨⟨h1, h2⟩, hg⟩, hmm⟩, he⟩, htn⟩, hx⟩, ho⟩, hp3⟩, hd⟩, hpk⟩, hf⟩, hl⟩, hn⟩ := h
  generalize buildField c g998 scope false n i fp = d at *
  have hnum : numberIsValid d.number = true := by
    simp only [FieldD.number, hp]
    cases hnn : fp.number with
    | none => simp [hnn] at hn
    | some x =>
      simp [hnn] at hn
      simp only [numberIsValid, maxValidNumber, Option.getD_some, Bool.and_eq_true, decide_eq_true_eq]
      exact ⟨hn.1, decide_eq_true hn.2⟩
  have hcard : (decide (1 ≤ d.cardinality) && decide (d.cardinality ≤ 3)) = true := by
    rw [hc]
    cases hll : fp.label with
    | none => simp [cOptional]
    | some l => simpa [hll] using hl
  have hgrp : checkValidGroup v.env v.all v.edition d = false := by
    have : (d.kind != kGroup) = true := by rw [hk]; simpa using hg
    simp [checkValidGroup, this]
  have hmap : checkValidMap v.env v.all d = false := by simp [checkValidMap, hmt]
  have hec : enumClosedNonPlaceholder d = false := by simp [enumClosedNonPlaceholder, het]
  have hpkd : d.isPacked = false := by simp only [FieldD.isPacked, hfe]; exact isPacked_g998 _ _
  have hp2 : (v.edition == editionProto3) = false := by rw [hv]; decide
  simp only [validateField, seq_ok_iff, guardV_ok_iff, hm.1, hm.2.1, hm.2.2, hnum, hcard, hgrp, hmap, hec, hp2,
    hp, hx, hp3, hco, hpk]
  simp [fieldRangesHas]

def isNilP : MessagePList → Bool | .nil => true | .cons .. => false

/-- a message with plain scalar fields only: distinct numbers, nothing else declared -/
def flatMsg (m : MessageP) : Bool :=
  m.oneofs.isEmpty && isNilP m.nested && m.enums.isEmpty && m.exts.isEmpty && m.extRanges.isEmpty &&
  m.resRanges.isEmpty && m.resNames.isEmpty && !m.mapEntry && !m.messageSet && m.features == {} &&
  m.fields.all flatField && !hasDupNumber (m.fields.map fun f => some (f.number.getD 0))

theorem flat_msg (v : VCtx) (hv : v.edition = editionProto2) (c : Ctx) (scope : Str) (m : MessageP)
    (h : flatMsg m = true) :
    validateMsg v (buildMsg c g998 scope m) = .ok () ∧ ∀ e ∈ msgResolveErrs (buildMsg c g998 scope m), e = none := by
  cases m with
  | mk name fields oneofs nested enums exts xr rr rn me ms feat =>
    simp only [flatMsg, MessageP.oneofs, MessageP.nested, MessageP.enums, MessageP.exts, MessageP.extRanges,
      MessageP.resRanges, MessageP.resNames, MessageP.mapEntry, MessageP.messageSet, MessageP.features, MessageP.fields,
      Bool.and_eq_true, List.isEmpty_iff, Bool.not_eq_true', beq_iff_eq, List.all_eq_true] at h
    obtain ⟨⟨⟨⟨⟨⟨⟨⟨⟨⟨⟨ho, hn⟩, he⟩, hx⟩, hxr⟩, hrr⟩, hrn⟩, hme⟩, hms⟩, hfe⟩, hff⟩, hdup⟩ := h
    subst ho he hx hxr hrr hrn hme hms hfe
    cases nested with
    | cons a b => simp [isNilP] at hn
    | nil =>
      have hg : mergeGo g998 {} = g998 := by decide
      have hp2 : (v.edition == editionProto3) = false := by rw [hv]; decide
      simp only [buildMsg, hg, List.length_nil, buildMsgs, List.map_nil, buildExts, buildOneofs]
      constructor
      · simp only [validateMsg, seq_ok_iff, guardV_ok_iff, allV_ok_iff, MessageP.messageSet, MessageP.resNames,
          MessageP.resRanges, MessageP.extRanges, hp2]
        refine ⟨by simp [namesHaveDup], by simp [sortByStart, fieldRangesBad], by simp [sortByStart, fieldRangesBad],
          by simp [rangesOverlap], ?_, by simp, by simp, by simp, ?_, by simp [validateOneofs], by simp [allV],
          by simp [validateMsgs], by simp [allV]⟩
        · simp only [fieldNumbersConflict, buildFields_numbers]
          simpa using hdup
        · intro d hd
          obtain ⟨p, hp, j, rfl⟩ := mem_buildFields _ _ _ _ _ _ _ d hd
          exact flat_validateField v hv _ ⟨rfl, rfl, rfl⟩ c _ 0 j p (hff p hp)
      · intro e he
        simp only [msgResolveErrs, msgsResolveErrs, List.map_nil, List.append_nil, List.mem_map] at he
        obtain ⟨d, hd, rfl⟩ := he
        obtain ⟨p, hp, j, rfl⟩ := mem_buildFields _ _ _ _ _ _ _ d hd
        exact (flatField_build c _ 0 j p (hff p hp)).1

theorem flat_msgs (v : VCtx) (hv : v.edition = editionProto2) (c : Ctx) (scope : Str) : (ms : MessagePList) →
    (∀ m ∈ ms.toList, flatMsg m = true) →
    validateMsgs v (buildMsgs c g998 scope ms) = .ok () ∧ ∀ e ∈ msgsResolveErrs (buildMsgs c g998 scope ms), e = none
  | .nil, _ => by simp [buildMsgs, validateMsgs, msgsResolveErrs]
  | .cons m rest, h => by
    have h1 := flat_msg v hv c scope m (h m (by simp [MessagePList.toList]))
    have h2 := flat_msgs v hv c scope rest (fun x hx => h x (by simp [MessagePList.toList, hx]))
    simp only [buildMsgs, validateMsgs, seq_ok_iff, msgsResolveErrs, List.mem_append]
    refine ⟨⟨h1.1, h2.1⟩, ?_⟩
    rintro e (he | he)
    · exact h1.2 e he
    · exact h2.2 e he

def nodupB : List Str → Bool
  | [] => true
  | x :: r => !r.contains x && nodupB r

theorem checkDecls_of_valid (ds : List Decl) (seen : List Str) (hv : ∀ d ∈ ds, isValidName d.2 = true)
    (hn : nodupB (ds.map (·.1)) = true) (hs : ∀ d ∈ ds, d.1 ∉ seen) : checkDecls ds seen = .ok () := by
  induction ds generalizing seen with
  | nil => rfl
  | cons d rest ih =>
    obtain ⟨full, name⟩ := d
    simp only [List.map_cons, nodupB, Bool.and_eq_true, Bool.not_eq_true', List.contains_eq_mem,
      decide_eq_false_iff_not, List.mem_map, not_exists, not_and] at hn
    have hvd := hv (full, name) (by simp)
    have hsd := hs (full, name) (by simp)
    simp only at hvd hsd
    simp only [checkDecls, hvd, Bool.not_true, Bool.false_eq_true, ↓reduceIte, List.contains_eq_mem, hsd, decide_false]
    apply ih
    · intro d hd; exact hv d (by simp [hd])
    · exact hn.2
    · intro d hd
      simp only [List.mem_cons, not_or]
      refine ⟨?_, hs d (by simp [hd])⟩
      intro heq
      exact hn.1 d hd heq

/-- The generator's simplest base family: a proto2 file (syntax "proto2" or absent) of messages with plain scalar
fields only (any of the 15 scalar types, any label, numbers distinct and in range), valid distinct names. -/
def flatValid (p : FileP) : Bool :=
  (p.syn == 2 || p.syn == 0) && !p.path.isEmpty && (isValidFullName p.pkg || p.pkg.isEmpty) && p.features == {} &&
  p.enums.isEmpty && p.exts.isEmpty && p.services.isEmpty && p.messages.toList.all flatMsg &&
  (fileDecls p).all (fun d => isValidName d.2) && nodupB ((fileDecls p).map (·.1))

/-- **valid_base_accepted (flat scalar family).** Every file of the family is accepted, whatever the resolver
contents and options, and `newFile` returns the built descriptor. -/
theorem valid_flat_accepted (env : Env) (p : FileP) (h : flatValid p = true) : newFile env p = .ok (build env p) := by
  simp only [flatValid, Bool.and_eq_true, Bool.or_eq_true, beq_iff_eq, Bool.not_eq_true', List.isEmpty_iff,
    List.all_eq_true] at h
  obtain ⟨⟨⟨⟨⟨⟨⟨⟨⟨hsyn, hpath⟩, hpkg⟩, hfeat⟩, hen⟩, hex⟩, hsv⟩, hms⟩, hval⟩, hnd⟩ := h
  rw [newFile_ok_iff]
  refine ⟨⟨?_, ?_, ?_, ?_⟩, rfl⟩
  · -- header
    have hed : fileEdition p = editionProto2 := by
      rcases hsyn with h | h <;> simp [fileEdition, h]
    have h1 : (p.syn == 1) = false := by rcases hsyn with h | h <;> simp [h]
    have h9 : (p.syn == 9) = false := by rcases hsyn with h | h <;> simp [h]
    have hpk : (!isValidFullName p.pkg && !p.pkg.isEmpty) = false := by
      rcases hpkg with h | h <;> simp [h]
    have hdf : (defaultsFor editionProto2).isNone = false := by decide
    simp [checkHeader, h1, hpath, h9, hpk, hed, hdf]
  · exact checkDecls_of_valid _ _ (fun d hd => hval d hd) hnd (fun _ _ => by simp)
  · -- resolution
    have hff : fileFeatures p = g998 := by
      have hed : fileEdition p = editionProto2 := by
        rcases hsyn with h | h <;> simp [fileEdition, h]
      simp only [fileFeatures, hed, hfeat]
      decide
    have hv : (⟨env, [], editionProto2⟩ : VCtx).edition = editionProto2 := rfl
    have := (flat_msgs ⟨env, [], editionProto2⟩ hv (mkCtx env p) p.pkg p.messages hms).2
    simp only [checkResolve, firstErr_ok_iff, build, hff, hex, hsv, buildExts, List.map_nil, List.flatMap_nil,
      List.append_nil]
    exact this
  · have hff : fileFeatures p = g998 := by
      have hed : fileEdition p = editionProto2 := by
        rcases hsyn with h | h <;> simp [fileEdition, h]
      simp only [fileFeatures, hed, hfeat]
      decide
    have hed : fileEdition p = editionProto2 := by
      rcases hsyn with h | h <;> simp [fileEdition, h]
    simp only [validateFile, seq_ok_iff, build, hff, hen, hex, hed, List.map_nil, buildExts, allV, and_true, true_and]
    exact (flat_msgs _ rfl (mkCtx env p) p.pkg p.messages hms).1

/-- the family is not empty: a two-message file with several scalar kinds and labels -/
def flatExample : FileP :=
  { path := str "w/flat.proto", pkg := str "w.sub", syn := 2
    messages := .cons (.mk (str "A")
      [{ name := str "x", number := some 1, label := some 1, type := 5 },
       { name := str "y", number := some 536870911, label := some 3, type := 9 },
       { name := str "z", number := some 19000, label := some 2, type := 1 }]
      [] .nil [] [] [] [] [] false false {})
      (.cons (.mk (str "B") [{ name := str "x", number := some 2, label := none, type := 12 }]
        [] .nil [] [] [] [] [] false false {}) .nil) }

example : flatValid flatExample = true := by decide
/-! ### valid_base_accepted, larger family: scalar message trees with enums -/

/-- a plain enum: at least one value, all numbered, no duplicate numbers, no alias option, nothing reserved -/
def flatEnum (e : EnumP) : Bool :=
  !e.values.isEmpty && e.values.all (fun v => v.number.isSome) &&
  !hasDupNumber (e.values.map fun v => some (v.number.getD 0)) && !e.allowAlias &&
  e.resRanges.isEmpty && e.resNames.isEmpty && e.features == {}

theorem flat_validateEnum (scope : Str) (e : EnumP) (h : flatEnum e = true) :
    validateEnum (buildEnum g998 scope e) = .ok () := by
  simp only [flatEnum, Bool.and_eq_true, Bool.not_eq_true', List.isEmpty_iff, List.all_eq_true, beq_iff_eq] at h
  obtain ⟨⟨⟨⟨⟨⟨hne, hnum⟩, hdup⟩, hal⟩, hrr⟩, hrn⟩, hf⟩ := h
  have hcl : (buildEnum g998 scope e).isClosed = true := by
    simp only [buildEnum, EnumD.isClosed, hf]; decide
  have hp : (buildEnum g998 scope e).p = e := rfl
  simp only [validateEnum, seq_ok_iff, guardV_ok_iff, allV_ok_iff, hp, hrr, hrn, hdup, hal, hcl, hne]
  refine ⟨by simp [namesHaveDup], by simp [sortByStart, enumRangesBad], trivial, by simp, by simp, by simp, ?_⟩
  intro v hv
  have := hnum v hv
  simp only [validateEnumValue, seq_ok_iff, guardV_ok_iff, hp, hrr, hrn]
  cases hvn : v.number with
  | none => rw [hvn] at this; cases this
  | some x => simp [enumRangesHas]

mutual
/-- a message tree of plain scalar fields: any nesting depth, nested plain enums -/
def treeMsg : MessageP → Bool
  | .mk _ fields oneofs nested enums exts xr rr rn me ms feat =>
    oneofs.isEmpty && enums.all flatEnum && exts.isEmpty && xr.isEmpty && rr.isEmpty && rn.isEmpty && !me && !ms &&
    feat == {} && fields.all flatField && !hasDupNumber (fields.map fun f => some (f.number.getD 0)) && treeMsgs nested
def treeMsgs : MessagePList → Bool
  | .nil => true
  | .cons m r => treeMsg m && treeMsgs r
end

mutual
theorem tree_msg (v : VCtx) (hv : v.edition = editionProto2) (c : Ctx) (scope : Str) :
    (m : MessageP) → treeMsg m = true →
    validateMsg v (buildMsg c g998 scope m) = .ok () ∧ ∀ e ∈ msgResolveErrs (buildMsg c g998 scope m), e = none
  | .mk name fields oneofs nested enums exts xr rr rn me ms feat, h => by
    simp only [treeMsg, Bool.and_eq_true, List.isEmpty_iff, Bool.not_eq_true', beq_iff_eq, List.all_eq_true] at h
    obtain ⟨⟨⟨⟨⟨⟨⟨⟨⟨⟨⟨ho, hen⟩, hx⟩, hxr⟩, hrr⟩, hrn⟩, hme⟩, hms⟩, hfe⟩, hff⟩, hdup⟩, hn⟩ := h
    subst ho hx hxr hrr hrn hme hms hfe
    have hg : mergeGo g998 {} = g998 := by decide
    have hp2 : (v.edition == editionProto3) = false := by rw [hv]; decide
    have hnest := tree_msgs v hv c (fullAppend scope name) nested hn
    simp only [buildMsg, hg, List.length_nil, buildExts, buildOneofs]
    constructor
    · simp only [validateMsg, seq_ok_iff, guardV_ok_iff, allV_ok_iff, MessageP.messageSet, MessageP.resNames,
        MessageP.resRanges, MessageP.extRanges, hp2]
      refine ⟨by simp [namesHaveDup], by simp [sortByStart, fieldRangesBad], by simp [sortByStart, fieldRangesBad],
        by simp [rangesOverlap], ?_, by simp, by simp, by simp, ?_, by simp [validateOneofs], ?_,
        hnest.1, by simp [allV]⟩
      · simp only [fieldNumbersConflict, buildFields_numbers]
        simpa using hdup
      · intro d hd
        obtain ⟨p, hp, j, rfl⟩ := mem_buildFields _ _ _ _ _ _ _ d hd
        exact flat_validateField v hv _ ⟨rfl, rfl, rfl⟩ c _ 0 j p (hff p hp)
      · intro d hd
        simp only [List.mem_map] at hd
        obtain ⟨e, he, rfl⟩ := hd
        exact flat_validateEnum _ e (hen e he)
    · intro e he
      simp only [msgResolveErrs, List.map_nil, List.append_nil, List.mem_append, List.mem_map] at he
      rcases he with ⟨d, hd, rfl⟩ | he
      · obtain ⟨p, hp, j, rfl⟩ := mem_buildFields _ _ _ _ _ _ _ d hd
        exact (flatField_build c _ 0 j p (hff p hp)).1
      · exact hnest.2 e he
theorem tree_msgs (v : VCtx) (hv : v.edition = editionProto2) (c : Ctx) (scope : Str) :
    (ms : MessagePList) → treeMsgs ms = true →
    validateMsgs v (buildMsgs c g998 scope ms) = .ok () ∧ ∀ e ∈ msgsResolveErrs (buildMsgs c g998 scope ms), e = none
  | .nil, _ => by simp [buildMsgs, validateMsgs, msgsResolveErrs]
  | .cons m rest, h => by
    simp only [treeMsgs, Bool.and_eq_true] at h
    have h1 := tree_msg v hv c scope m h.1
    have h2 := tree_msgs v hv c scope rest h.2
    simp only [buildMsgs, validateMsgs, seq_ok_iff, msgsResolveErrs, List.mem_append]
    refine ⟨⟨h1.1, h2.1⟩, ?_⟩
    rintro e (he | he)
    · exact h1.2 e he
    · exact h2.2 e he
end

/-- The scalar-tree family: a proto2 file (syntax "proto2" or absent) of messages nested to ANY depth whose fields are
plain scalars (15 scalar types, any label, distinct in-range numbers), with plain enums declared at file level and inside
messages; all declared names valid and pairwise distinct by full name. -/
def treeValid (p : FileP) : Bool :=
  (p.syn == 2 || p.syn == 0) && !p.path.isEmpty && (isValidFullName p.pkg || p.pkg.isEmpty) && p.features == {} &&
  p.enums.all flatEnum && p.exts.isEmpty && p.services.isEmpty && treeMsgs p.messages &&
  (fileDecls p).all (fun d => isValidName d.2) && nodupB ((fileDecls p).map (·.1))

/-- **valid_base_accepted (scalar-tree family).** Every file of the family is accepted, for every resolver and option. -/
theorem valid_tree_accepted (env : Env) (p : FileP) (h : treeValid p = true) : newFile env p = .ok (build env p) := by
  simp only [treeValid, Bool.and_eq_true, Bool.or_eq_true, beq_iff_eq, Bool.not_eq_true', List.isEmpty_iff,
    List.all_eq_true] at h
  obtain ⟨⟨⟨⟨⟨⟨⟨⟨⟨hsyn, hpath⟩, hpkg⟩, hfeat⟩, hen⟩, hex⟩, hsv⟩, hms⟩, hval⟩, hnd⟩ := h
  have hed : fileEdition p = editionProto2 := by
    rcases hsyn with h | h <;> simp [fileEdition, h]
  have hff : fileFeatures p = g998 := by
    simp only [fileFeatures, hed, hfeat]
    decide
  rw [newFile_ok_iff]
  refine ⟨⟨?_, ?_, ?_, ?_⟩, rfl⟩
  · have h1 : (p.syn == 1) = false := by rcases hsyn with h | h <;> simp [h]
    have h9 : (p.syn == 9) = false := by rcases hsyn with h | h <;> simp [h]
    have hpk : (!isValidFullName p.pkg && !p.pkg.isEmpty) = false := by
      rcases hpkg with h | h <;> simp [h]
    have hdf : (defaultsFor editionProto2).isNone = false := by decide
    simp [checkHeader, h1, hpath, h9, hpk, hed, hdf]
  · exact checkDecls_of_valid _ _ (fun d hd => hval d hd) hnd (fun _ _ => by simp)
  · have := (tree_msgs ⟨env, [], editionProto2⟩ rfl (mkCtx env p) p.pkg p.messages hms).2
    simp only [checkResolve, firstErr_ok_iff, build, hff, hex, hsv, buildExts, List.map_nil, List.flatMap_nil,
      List.append_nil]
    exact this
  · simp only [validateFile, seq_ok_iff, allV_ok_iff, build, hff, hex, hed, buildExts, List.not_mem_nil, false_imp_iff,
      implies_true, and_true]
    refine ⟨?_, (tree_msgs _ rfl (mkCtx env p) p.pkg p.messages hms).1⟩
    intro d hd
    simp only [List.mem_map] at hd
    obtain ⟨e, he, rfl⟩ := hd
    exact flat_validateEnum _ e (hen e he)

/-- the family is not empty: nesting three deep, enums at file level and inside a message -/
def treeExample : FileP :=
  { path := str "w/tree.proto", pkg := str "w", syn := 2
    enums := [{ name := str "E", values := [{ name := str "E_A", number := some 1 }, { name := str "E_B", number := some (-2) }] }]
    messages := .cons (.mk (str "A")
      [{ name := str "x", number := some 1, label := some 2, type := 5 }] []
      (.cons (.mk (str "B") [{ name := str "y", number := some 7, label := some 3, type := 12 }] []
        (.cons (.mk (str "C") [] [] .nil [] [] [] [] [] false false {}) .nil)
        [{ name := str "F", values := [{ name := str "F_A", number := some 0 }] }] [] [] [] [] false false {}) .nil)
      [] [] [] [] [] false false {}) .nil }

example : treeValid treeExample = true := by decide

end C35
