import PbVerif.Model.Msg
import PbVerif.Lemmas.MsgRound
import PbVerif.Lemmas.MsgGroup
/-
C03 — binary Marshal/Unmarshal round-trips every message.

Model: `Model/Msg.lean` (`encMsg` = proto/encode.go + encode_gen.go in stored field order,
`unmarshal`/`decMsg`/`decField`/`decEntry` = proto/decode.go + decode_gen.go with merge semantics,
recursion limit, DiscardUnknown).  Well-formedness `Pb.WF` is defined in `Lemmas/MsgWF.lean`
(Bool-valued, decidable); this file states the property theorems, for ALL schemas (cyclic ones
included) and ALL messages: all 18 kinds, implicit/explicit/required presence, packed and unpacked
lists, maps, oneofs, nested messages, groups, unknown fields.

`WF S mi m` says (recursively): field numbers strictly ascending, between 1 and 2^29-1, each declared
in the descriptor with a value of the right shape for its kind and cardinality; numbers canonical
for their kind (`Pb.CanonNum`); singular implicit-presence scalars non-zero; lists non-empty; map
fields of kind message whose entries are `(1 ↦ key, 2 ↦ value)` without unknown bytes and with
pairwise distinct keys; at most one member of each oneof; enforced strings valid UTF-8; unknown
bytes a sequence of complete wire records whose numbers are not declared (and ≤ 2^29-1); every
length prefix below 2^64; groups (also those inside unknown bytes) nested at most
`protowire.DefaultRecursionLimit` = 10000 deep between two length-delimited boundaries (that is
the budget of `protowire.ConsumeFieldValue`, which `decode.go` uses to delimit every record);
nested messages well-formed.  `depthOK m limit`: the message nesting depth (map entries count as a
level, exactly as `unmarshalMap` counts them) does not exceed `UnmarshalOptions.RecursionLimit`.

Status: `decode_encode` is the FULL statement (no `_partial` variant is left): groups need no
extra hypothesis beyond the group-nesting budget that is part of `WF` (`Pb.groupScanOK` holds for
every schema).  Deliberately outside `WF`, although such values round-trip in the implementation
as well: (a) unknown bytes holding records of DECLARED field numbers with a mismatching wire type
(the decoder keeps them as unknown); (b) a stored field order that is not ascending (the decoder
always produces ascending order, so equality of values needs it; `proto.Equal` does not — C05/C30).
The round trip through `eqMsg` is `C03.decode_encode_equal` in Props/C03Equal.lean.
-/
namespace C03
open Pb Spec

/-- general form: any discard mode; the result is the message with the unknown fields removed
recursively iff `DiscardUnknown` is set -/
theorem decode_encode_gen (S : Schema) (mi : Nat) (m : Msg) (limit : Int) (dis : Bool)
    (hwf : WF S mi m) (hd : depthOK m limit) :
    unmarshal S mi (encMsg S mi m) limit dis = .ok (stripMsg dis m) := by
  unfold unmarshal unmarshalInto
  have hpos := depthMsg_pos m
  unfold depthOK at hd
  have : ¬ limit - 1 < 0 := by omega
  simp only [this, if_false]
  exact roundMsg (groupScanOK S) m mi defaultRecursionLimit (limit - 1) dis (Int.le_refl _) hwf (by omega)
    (Pb.fuelFor (encMsg S mi m)) (Nat.le_refl _)

/-- **C03 (full strength)**: decoding the encoding of a well-formed message gives the message back —
every schema, every message, groups and maps included. -/
theorem decode_encode (S : Schema) (mi : Nat) (m : Msg) (limit : Int)
    (hwf : WF S mi m) (hd : depthOK m limit) :
    unmarshal S mi (encMsg S mi m) limit false = .ok m := by
  have := decode_encode_gen S mi m limit false hwf hd
  rwa [stripMsg_false] at this

/-- with `DiscardUnknown` the result is the message without its unknown fields, at every level -/
theorem decode_encode_discard (S : Schema) (mi : Nat) (m : Msg) (limit : Int)
    (hwf : WF S mi m) (hd : depthOK m limit) :
    unmarshal S mi (encMsg S mi m) limit true = .ok (stripMsg true m) :=
  decode_encode_gen S mi m limit true hwf hd

/-- the default options (`RecursionLimit` 10000) -/
theorem decode_encode_default (S : Schema) (mi : Nat) (m : Msg)
    (hwf : WF S mi m) (hd : depthOK m 10000) :
    unmarshal S mi (encMsg S mi m) = .ok m := decode_encode S mi m 10000 hwf hd

/-- the model's fuel is adequate: the artefact error `DErr.fuel` never shows on an encoding -/
theorem decode_encode_no_fuel_error (S : Schema) (mi : Nat) (m : Msg) (limit : Int) (dis : Bool)
    (hwf : WF S mi m) (hd : depthOK m limit) :
    unmarshal S mi (encMsg S mi m) limit dis ≠ .error .fuel := by
  rw [decode_encode_gen S mi m limit dis hwf hd]; simp

/-- merge semantics: decoding into a message that only holds smaller field numbers appends the
fields (the decoder-loop invariant, exposed) -/
theorem decode_encode_fields (S : Schema) (mi : Nat) (depth : Int) (dis : Bool) (fs acc : Fields)
    (lb : Nat) (u rest : List Byte) (R : Except DErr Msg) (hlb : 1 ≤ lb)
    (hwf : cwfFields S (S.msg mi) defaultRecursionLimit lb fs = true) (hacc : acc.allLt lb)
    (hO : ∀ o, oneofFree (S.msg mi) o acc = true ∨ oneofFree (S.msg mi) o fs = true)
    (hd : (depthFields fs : Int) ≤ depth)
    (hrest : DecTo S mi depth dis (.mk (acc.append (stripFields dis fs)) u) rest R) :
    DecTo S mi depth dis (.mk acc u) (encFields S (S.msg mi) fs ++ rest) R :=
  fields_ok (groupScanOK S) (Int.le_refl _) fs lb acc hlb hwf hacc hO hd (fun sub _ => roundMsg (groupScanOK S) sub) hrest

/-- injectivity of the encoder on well-formed messages (what C05 needs) -/
theorem encMsg_injective (S : Schema) (mi : Nat) (a b : Msg) (limit : Int)
    (ha : WF S mi a) (hb : WF S mi b) (hda : depthOK a limit) (hdb : depthOK b limit)
    (h : encMsg S mi a = encMsg S mi b) : a = b := by
  have h1 := decode_encode S mi a limit ha hda
  have h2 := decode_encode S mi b limit hb hdb
  rw [h, h2] at h1
  exact (Except.ok.inj h1).symm

/-! ### the hypotheses are satisfiable by a rich message

Schema: message 0 has all 18 kinds, a packed and two unpacked lists, a map, a oneof with two
members, a nested message, a group, a repeated message; message 1 is recursive (cyclic schema);
message 2 is the map entry type.  The value populates all of them, with negative numbers, NaN,
-0.0, non-ASCII UTF-8, an empty string in a list, nested unknown fields and an unknown group. -/

namespace Example

def fld (num : Nat) (kind : Kind) (card : Card := .optional) : Field := { num := num, kind := kind, card := card }

def S : Schema := { msgs := [
  { fields := [
      fld 1 .bool, fld 2 .enum, fld 3 .int32, fld 4 .sint32, fld 5 .uint32, fld 6 .int64, fld 7 .sint64,
      fld 8 .uint64, fld 9 .sfixed32, fld 10 .fixed32, fld 11 .float, fld 12 .sfixed64, fld 13 .fixed64,
      fld 14 .double .required,
      { fld 15 .string .implicit with utf8 := true }, fld 16 .bytes,
      { fld 17 .message with sub := 1 }, { fld 18 .group with sub := 1 },
      { fld 19 .int32 .repeated with packed := true }, fld 20 .string .repeated,
      { fld 21 .message .map with sub := 2 },
      { fld 22 .int32 with oneof := some 0 }, { fld 23 .string with oneof := some 0, utf8 := true },
      { fld 24 .message .repeated with sub := 1 }, fld 25 .sint64 .repeated ] },
  { fields := [ fld 1 .int32, { fld 2 .message with sub := 1 } ] },
  { fields := [ fld 1 .int32, { fld 2 .message with sub := 1 } ] } ] }

def leaf (n : Nat) (unk : List Byte := []) : Msg := .mk (.cons 1 (.one (.num n)) .nil) unk
def entry (k : Nat) (v : Msg) : Val := .msg (.mk (.cons 1 (.one (.num k)) (.cons 2 (.one (.msg v)) .nil)) [])

def M : Msg := .mk
  (.cons 1 (.one (.num 1)) <|
   .cons 2 (.one (.num (2 ^ 64 - 1))) <|            -- enum -1
   .cons 3 (.one (.num (2 ^ 64 - 5))) <|            -- int32 -5
   .cons 4 (.one (.num (2 ^ 64 - 2 ^ 31))) <|       -- sint32 min
   .cons 5 (.one (.num (2 ^ 32 - 1))) <|
   .cons 6 (.one (.num (2 ^ 63))) <|                -- int64 min
   .cons 7 (.one (.num (2 ^ 64 - 1))) <|            -- sint64 -1
   .cons 8 (.one (.num (2 ^ 64 - 1))) <|
   .cons 9 (.one (.num (2 ^ 64 - 2))) <|            -- sfixed32 -2
   .cons 10 (.one (.num (2 ^ 32 - 1))) <|
   .cons 11 (.one (.num 0x7FC00000)) <|             -- float NaN
   .cons 12 (.one (.num (2 ^ 63))) <|
   .cons 13 (.one (.num 7)) <|
   .cons 14 (.one (.num (2 ^ 63))) <|               -- double -0.0 (required)
   .cons 15 (.one (.bytes [0x68#8, 0xC3#8, 0xA9#8])) <|   -- "hé"
   .cons 16 (.one (.bytes [0xFF#8, 0x00#8])) <|
   .cons 17 (.one (.msg (leaf 5 [0x48#8, 0x01#8]))) <|    -- nested, with an unknown varint field 9
   .cons 18 (.one (.msg (.mk (.cons 2 (.one (.msg (leaf 7))) .nil) [0x3B#8, 0x3C#8]))) <|  -- group, unknown group 7 inside
   .cons 19 (.many (.cons (.num 1) (.cons (.num (2 ^ 64 - 1)) (.cons (.num 300) .nil)))) <|
   .cons 20 (.many (.cons (.bytes [0x61#8]) (.cons (.bytes []) .nil))) <|
   .cons 21 (.many (.cons (entry 3 (leaf 1)) (.cons (entry (2 ^ 64 - 1) (.mk .nil [])) .nil))) <|
   .cons 23 (.one (.bytes [0x78#8])) <|
   .cons 24 (.many (.cons (.msg (.mk .nil [])) (.cons (.msg (leaf 2)) .nil))) <|
   .cons 25 (.many (.cons (.num 1) (.cons (.num 2) .nil))) .nil)
  [0xA5#8, 0x06#8, 0x01#8, 0x02#8, 0x03#8, 0x04#8,   -- unknown field 100, fixed32
   0xAA#8, 0x06#8, 0x01#8, 0x00#8]                    -- unknown field 101, one byte

example : WF S 0 M := by decide +kernel
example : depthOK M 10000 := by decide +kernel
example : depthOK M 3 ∧ ¬ depthOK M 2 := by decide +kernel

/-- the theorem applied -/
example : unmarshal S 0 (encMsg S 0 M) = .ok M :=
  decode_encode_default S 0 M (by decide +kernel) (by decide +kernel)

/-- WF is not vacuous the other way either: it rejects non-canonical, unsorted, empty-list,
duplicate-key and doubly-set-oneof values -/
example : ¬ WF S 0 (.mk (.cons 3 (.one (.num (2 ^ 32 - 5))) .nil) []) := by decide +kernel
example : ¬ WF S 0 (.mk (.cons 3 (.one (.num 1)) (.cons 1 (.one (.num 1)) .nil)) []) := by decide +kernel
example : ¬ WF S 0 (.mk (.cons 20 (.many .nil) .nil) []) := by decide +kernel
example : ¬ WF S 0 (.mk (.cons 21 (.many (.cons (entry 3 (leaf 1)) (.cons (entry 3 (leaf 2)) .nil))) .nil) []) := by
  decide +kernel
example : ¬ WF S 0 (.mk (.cons 22 (.one (.num 1)) (.cons 23 (.one (.bytes [])) .nil)) []) := by decide +kernel
example : ¬ WF S 0 (.mk (.cons 15 (.one (.bytes [0xC3#8])) .nil) []) := by decide +kernel
example : ¬ WF S 0 (.mk .nil [0x08#8]) := by decide +kernel

end Example

end C03

#print axioms C03.decode_encode
#print axioms C03.decode_encode_discard
#print axioms C03.encMsg_injective
