import PbVerif.Lemmas.Heap
/-
C14 — Decoded and cloned messages never alias caller memory.

Two layers.

(a) The TABLE.  `Gen/AliasFacts.lean` is extracted from the Go sources on every run: one record per
place where decoded or merged data is stored (every `consume*` function of bytes and string kind,
every merge function, the unknown-field buffers, the lazy buffer, the reflection path, protodelim),
classified by the shape of the stored expression, and one record per field coder (which consume and
which merge function it is wired to).  The theorems of the first section quantify over that finite
table and are decided by evaluation: "every coder in the source copies".

(b) The HEAP.  `Model/Heap.lean` computes where each decoded / merged value lives from the table
entry of the coder used.  The theorems of the second section hold for ALL inputs, messages, stores
and allocation epochs, under the hypothesis that the coders used are copying ones — which (a)
discharges for every coder of the extracted table.

This is the one property whose model is an abstraction of memory rather than of values: the level is
"proof on an extracted copy/alias table + dynamic correspondence".
-/
namespace C14
open Heap Gen.AliasFacts

/-! ## (a) the extracted table -/

/-- every decode site that stores bytes, a string or unknown-field bytes copies them, or aliases
only under the AliasBuffer flag — table-driven path and reflection path -/
theorem table_decode_copies :
    ∀ s ∈ sites, (s.path = .decodeFast ∨ s.path = .decodeReflect) →
      (s.kind = .bytes ∨ s.kind = .string ∨ s.kind = .unknown) →
      s.cls = .copy ∨ s.cls = .aliasOnlyUnderFlag := by decide

/-- the remaining decode sites (nested messages, groups, map entries, extensions) only hand the
input to a nested unmarshal call or store what an element coder returned -/
theorem table_decode_structural :
    ∀ s ∈ sites, (s.path = .decodeFast ∨ s.path = .decodeReflect) → s.kind = .message →
      s.cls = .transient ∨ s.cls = .viaCoder := by decide

/-- every merge site for bytes (singular, list elements, map values, unknown fields) copies -/
theorem table_merge_copies :
    ∀ s ∈ sites, (s.path = .mergeFast ∨ s.path = .mergeReflect) → (s.kind = .bytes ∨ s.kind = .unknown) →
      s.cls = .copy := by decide

/-- no merge site shares a pointer, a slice header or a `[]byte`; what is shared is a Go string
(immutable), what is stored by value is a scalar, messages are merged recursively -/
theorem table_merge_no_alias :
    ∀ s ∈ sites, (s.path = .mergeFast ∨ s.path = .mergeReflect) →
      s.cls ≠ .alias ∧ s.cls ≠ .aliasOnlyUnderFlag ∧ s.cls ≠ .transient ∧
      (s.cls = .immutableShare → s.kind = .string) ∧ (s.cls = .byValue → s.kind = .scalar) ∧
      (s.kind = .message → s.cls = .deep ∨ s.cls = .viaCoder) := by decide

/-- the buffer retained for lazy decoding is the caller's only under the AliasBuffer flag -/
theorem table_lazy_buffer :
    lazyBuffer = .aliasOnlyUnderFlag ∧ ∀ s ∈ sites, s.path = .lazyBuffer → s.cls = .aliasOnlyUnderFlag := by decide

/-- protodelim hands the Peek window to Unmarshal and keeps no other reference to it -/
theorem table_delim_window :
    delimWindow = .transient ∧ ∀ s ∈ sites, s.path = .delim → s.cls = .transient := by decide

/-- proto.UnmarshalOptions cannot switch the AliasBuffer flag on -/
theorem public_no_alias_flag : publicUnmarshalSetsAlias = false := by decide

/-- every field coder of the source — the bytes/string coder tables of codec_gen.go, maps with
bytes values, the reflection path, the unknown-field buffers — decodes by copying and merges by
copying (or by sharing an immutable string) -/
theorem coders_ok : ∀ c ∈ coders, DecOK c ∧ MrgOK c := by decide

/-- the table is not trivially small: all paths are populated -/
theorem table_populated :
    17 ≤ (sites.filter fun s => s.path == .decodeFast && (s.kind == .bytes || s.kind == .string)).length ∧
    4 ≤ (sites.filter fun s => s.path == .decodeReflect && (s.kind == .bytes || s.kind == .string)).length ∧
    48 ≤ (sites.filter fun s => s.path == .mergeFast).length ∧
    8 ≤ (sites.filter fun s => s.path == .mergeReflect).length ∧
    1 = (sites.filter fun s => s.path == .lazyBuffer).length ∧
    1 = (sites.filter fun s => s.path == .delim).length ∧
    19 ≤ (coders.filter fun c => c.fast).length ∧ 7 ≤ (coders.filter fun c => !c.fast).length := by decide

/-! ## (b) the heap -/

theorem lazyBuffer_ok : LazyOK lazyBuffer := by decide

/-- **Decoding never references the input.**  For every input, every allocation epoch, with or
without deferred (lazy) fields: if the alias flag is off, the lazy buffer entry and the coders used
are copying ones, then the input region is not reachable from the decoded message. -/
theorem decode_no_alias (lb : Cls) (hlb : LazyOK lb) (e : Nat) (defer : Bool) (w : Wire)
    (hw : ∀ c ∈ wcodersFs w.fields, DecOK c) :
    Region.input ∉ reachable (decode lb e defer false .input w) := by
  intro h
  rcases mem_reachable.mp h with ⟨m, hm⟩
  have hl := lazyEnter_ok (lb := lb) (flag := false) (cur := .input) (e := e) (p := [0]) hlb (by simp)
  unfold decode at hm
  split at hm
  · simp only [Tree.refs, Option.toList, List.map_cons, List.map_nil, List.mem_append, List.mem_singleton,
      Prod.mk.injEq] at hm
    rcases hm with hm | hm
    · exact hl.1 hm.2.symm
    · exact decodeFs_no_input lb e defer hlb w.fields _ _ _ [1] hw hl.2 (fun b hb => by cases hb; exact hl.1) m hm
  · simp only [Tree.refs, Option.toList, List.map_nil, List.nil_append] at hm
    exact decodeFs_no_input lb e defer hlb w.fields false .input none [1] hw (by simp) (fun b hb => by cases hb) m hm

/-- the same for `proto.Unmarshal` as it is in the tree: extracted lazy-buffer entry, the flag the
public options can set, and any input whose leaves are decoded by coders of the extracted table -/
theorem unmarshal_no_alias (e : Nat) (defer : Bool) (w : Wire) (hw : ∀ c ∈ wcodersFs w.fields, c ∈ coders) :
    Region.input ∉ reachable (unmarshal e defer w) := by
  unfold unmarshal
  rw [public_no_alias_flag]
  exact decode_no_alias lazyBuffer lazyBuffer_ok e defer w (fun c hc => (coders_ok c (hw c hc)).1)

/-- **Overwriting the input buffer cannot change the message**: any store that differs from the
current one only inside the input region shows the same message. -/
theorem overwrite_input_invisible (e : Nat) (defer : Bool) (w : Wire) (hw : ∀ c ∈ wcodersFs w.fields, c ∈ coders)
    (s s' : Store) (h : agreeOutside [.input] s s') :
    view s' (unmarshal e defer w) = view s (unmarshal e defer w) :=
  view_congr s s' _ [.input] (fun r hr => by
    have : r = .input := by simpa using hr
    subst this; exact unmarshal_no_alias e defer w hw) h

/-- … in particular after arbitrary writes into the input region -/
theorem overwrite_input_invisible' (e : Nat) (defer : Bool) (w : Wire) (hw : ∀ c ∈ wcodersFs w.fields, c ∈ coders)
    (s : Store) (f : Nat → Nat) :
    view (overwrite s .input f) (unmarshal e defer w) = view s (unmarshal e defer w) :=
  overwrite_input_invisible e defer w hw s _ (agreeOutside_overwrite s .input f)

/-- the buffer a lazily decoding message retains is an allocation of its own -/
theorem lazy_buffer_is_copy (e : Nat) (defer : Bool) (w : Wire) :
    (unmarshal e defer w).buf = if w.msgLazy then some (.fresh e [0]) else none := by
  unfold unmarshal decode
  rw [public_no_alias_flag]
  have : lazyBuffer = .aliasOnlyUnderFlag := table_lazy_buffer.1
  rw [this]
  split <;> simp [lazyEnter]

/-- **Lazy fields decoded after the fact do not reference the input either**: decode with deferred
lazy fields, then force every one of them (in a later epoch `e'`). -/
theorem force_no_alias (e e' : Nat) (w : Wire) (hw : ∀ c ∈ wcodersFs w.fields, c ∈ coders) :
    Region.input ∉ reachable (force lazyBuffer e' (unmarshal e true w)) := by
  have h0 := unmarshal_no_alias e true w hw
  have hcod : ∀ c ∈ codersFs (unmarshal e true w).fields, DecOK c := by
    intro c hc
    have : c ∈ wcodersFs w.fields := by
      revert hc
      unfold unmarshal decode
      split <;> exact codersFs_decodeFs _ _ _ _ _ _ _ _ c
    exact (coders_ok c (hw c this)).1
  intro h
  rcases mem_reachable.mp h with ⟨m, hm⟩
  simp only [force, Tree.refs, List.mem_append] at hm
  rcases hm with hm | hm
  · exact h0 (mem_reachable.mpr ⟨m, by simp [Tree.refs, hm]⟩)
  · exact forceFs_no_input lazyBuffer e' lazyBuffer_ok _ [1] hcod
      (fun m' hm' => h0 (mem_reachable.mpr ⟨m', by simp [Tree.refs, hm']⟩)) m hm

/-- decode lazily, overwrite the buffer, then access everything: same content -/
theorem overwrite_then_force_invisible (e e' : Nat) (w : Wire) (hw : ∀ c ∈ wcodersFs w.fields, c ∈ coders)
    (s : Store) (f : Nat → Nat) :
    view (overwrite s .input f) (force lazyBuffer e' (unmarshal e true w)) =
    view s (force lazyBuffer e' (unmarshal e true w)) :=
  view_congr s _ _ [.input] (fun r hr => by
    have : r = .input := by simpa using hr
    subst this; exact force_no_alias e e' w hw) (agreeOutside_overwrite s .input f)

/-- **Lazy decoding followed by access to everything builds exactly the heap that eager decoding
builds** (same allocations, same regions for every leaf), for every input -/
theorem lazy_then_force_eq_eager (e : Nat) (w : Wire) :
    force lazyBuffer e (unmarshal e true w) = unmarshal e false w := by
  have hlb : lazyBuffer = .aliasOnlyUnderFlag := table_lazy_buffer.1
  unfold unmarshal decode force
  rw [hlb]
  have hl := lazyEnter_alias publicUnmarshalSetsAlias .input (.fresh e [0])
  split
  · simp only
    rw [forceFs_decodeFs e w.fields _ _ _ [1] (fun b hb => by cases hb; exact hl)]
  · simp only
    rw [forceFs_decodeFs e w.fields _ _ _ [1] (fun b hb => by cases hb)]

/-- after forcing nothing is left undecoded -/
theorem force_complete (lb : Cls) (e : Nat) (t : Tree) : noThunksFs (force lb e t).fields = true :=
  forceFs_noThunks lb e t.fields [1]

/-- **protodelim messages do not reference the reader's buffer** -/
theorem delim_no_alias (e : Nat) (defer : Bool) (w : Wire) (hw : ∀ c ∈ wcodersFs w.fields, c ∈ coders) :
    Region.input ∉ reachable (delimUnmarshal e defer w) := by
  unfold delimUnmarshal
  rw [table_delim_window.1]
  exact unmarshal_no_alias e defer w hw

/-! ### merge and clone -/

/-- **After Merge(dst, src) no writable memory of src is reachable from dst.**
Hypotheses: src is fully decoded (mergePointer decodes lazy source fields first); its coders merge
by copying; before the merge dst does not reach src's writable memory; `e` is a new allocation
epoch; nothing writable overlaps string storage or retained buffers (Go's type system). -/
theorem merge_src_disjoint (e : Nat) (dst src : Tree)
    (hforced : noThunksFs src.fields = true)
    (hc : ∀ c ∈ codersFs src.fields, MrgOK c)
    (hsep : ∀ r ∈ writable src, r ∉ reachable dst)
    (hnew : ∀ r ∈ writable src, ∀ q, r ≠ .fresh e q)
    (himm : ∀ r ∈ writable src, r ∉ readOnly src) :
    ∀ r ∈ writable src, r ∉ reachable (merge e dst src) := by
  intro r hr h
  rcases mem_reachable.mp h with ⟨m, hm⟩
  simp only [merge, Tree.refs, List.mem_append] at hm
  rcases hm with hm | hm
  · exact hsep r hr (mem_reachable.mpr ⟨m, by simp [Tree.refs, hm]⟩)
  · rcases mergeFs_refs e src.fields [1] dst.fields (m, r) hforced hc hm with h1 | ⟨q, h2⟩ | ⟨h3, h4⟩
    · exact hsep r hr (mem_reachable.mpr ⟨m, by simp [Tree.refs, h1]⟩)
    · exact hnew r hr q h2
    · simp only at h3; subst h3
      exact himm r hr (mem_readOnly.mpr (by simp [Tree.refs, h4]))

/-- the same with the coders of the extracted table -/
theorem merge_src_disjoint_gen (e : Nat) (dst src : Tree)
    (hforced : noThunksFs src.fields = true)
    (hc : ∀ c ∈ codersFs src.fields, c ∈ coders)
    (hsep : ∀ r ∈ writable src, r ∉ reachable dst)
    (hnew : ∀ r ∈ writable src, ∀ q, r ≠ .fresh e q)
    (himm : ∀ r ∈ writable src, r ∉ readOnly src) :
    ∀ r ∈ writable src, r ∉ reachable (merge e dst src) :=
  merge_src_disjoint e dst src hforced (fun c h => (coders_ok c (hc c h)).2) hsep hnew himm

/-- **Mutating src after the merge does not change dst**: any store that differs only inside src's
writable memory shows the same dst. -/
theorem merge_src_mutation_invisible (e : Nat) (dst src : Tree)
    (hforced : noThunksFs src.fields = true)
    (hc : ∀ c ∈ codersFs src.fields, c ∈ coders)
    (hsep : ∀ r ∈ writable src, r ∉ reachable dst)
    (hnew : ∀ r ∈ writable src, ∀ q, r ≠ .fresh e q)
    (himm : ∀ r ∈ writable src, r ∉ readOnly src)
    (s s' : Store) (h : agreeOutside (writable src) s s') :
    view s' (merge e dst src) = view s (merge e dst src) :=
  view_congr s s' _ _ (merge_src_disjoint_gen e dst src hforced hc hsep hnew himm) h

/-- what dst can write after the merge is what it could write before, or new allocations: never
memory of src -/
theorem merge_dst_writable (e : Nat) (dst src : Tree)
    (hforced : noThunksFs src.fields = true) (hc : ∀ c ∈ codersFs src.fields, MrgOK c) :
    ∀ r ∈ writable (merge e dst src), r ∈ writable dst ∨ ∃ q, r = .fresh e q := by
  intro r hr
  have hm := mem_writable.mp hr
  simp only [merge, Tree.refs, List.mem_append] at hm
  rcases hm with hm | hm
  · exact Or.inl (mem_writable.mpr (by simp [Tree.refs, hm]))
  · rcases mergeFs_refs e src.fields [1] dst.fields (true, r) hforced hc hm with h1 | ⟨q, h2⟩ | ⟨h3, _⟩
    · exact Or.inl (mem_writable.mpr (by simp [Tree.refs, h1]))
    · exact Or.inr ⟨q, h2⟩
    · simp at h3

/-- **A clone shares no mutable state with its source** — in both directions: nothing src can write
is reachable from the clone, and nothing the clone can write is reachable from src. -/
theorem clone_disjoint (e : Nat) (src : Tree)
    (hforced : noThunksFs src.fields = true)
    (hc : ∀ c ∈ codersFs src.fields, c ∈ coders)
    (hnew : ∀ r ∈ reachable src, ∀ q, r ≠ .fresh e q)
    (himm : ∀ r ∈ writable src, r ∉ readOnly src) :
    (∀ r ∈ writable src, r ∉ reachable (clone e src)) ∧
    (∀ r ∈ writable (clone e src), r ∉ reachable src) := by
  have hw : ∀ r ∈ writable src, r ∈ reachable src := fun r hr =>
    mem_reachable.mpr ⟨true, mem_writable.mp hr⟩
  constructor
  · exact merge_src_disjoint_gen e _ src hforced hc
      (fun r _ h => by simp [reachable, Tree.refs, refsFs] at h) (fun r hr => hnew r (hw r hr)) himm
  · intro r hr h
    rcases merge_dst_writable e _ src hforced (fun c hm => (coders_ok c (hc c hm)).2) r hr with h1 | ⟨q, h2⟩
    · simp [writable, Tree.refs, refsFs] at h1
    · exact hnew r h q h2

/-- mutating the source (or the clone) is invisible through the other -/
theorem clone_mutation_invisible (e : Nat) (src : Tree)
    (hforced : noThunksFs src.fields = true)
    (hc : ∀ c ∈ codersFs src.fields, c ∈ coders)
    (hnew : ∀ r ∈ reachable src, ∀ q, r ≠ .fresh e q)
    (himm : ∀ r ∈ writable src, r ∉ readOnly src) (s s' : Store) :
    (agreeOutside (writable src) s s' → view s' (clone e src) = view s (clone e src)) ∧
    (agreeOutside (writable (clone e src)) s s' → view s' src = view s src) :=
  ⟨view_congr s s' _ _ (clone_disjoint e src hforced hc hnew himm).1,
   view_congr s s' _ _ (clone_disjoint e src hforced hc hnew himm).2⟩

/-! ## the hypotheses are satisfiable, and they are needed -/

section examples

/-- some coder of the extracted table, of bytes kind -/
def someBytesCoder : Coder := (coders.find? fun c => c.kind == .bytes && c.fast).getD
  { name := "", kind := .bytes, fast := true, dec := .copy, mrg := .copy }
def someStringCoder : Coder := (coders.find? fun c => c.kind == .string && c.mrg == .immutableShare).getD
  { name := "", kind := .string, fast := true, dec := .copy, mrg := .immutableShare }

theorem someBytesCoder_mem : someBytesCoder ∈ coders := by decide
theorem someStringCoder_mem : someStringCoder ∈ coders := by decide

/-- an input with a bytes field, a string field, a repeated bytes field, a lazily decoding nested
message with a lazy field inside it, an eager nested message -/
def sampleWire : Wire :=
  { msgLazy := true
    fields := .cons 1 (.leaf someBytesCoder 2 5) <| .cons 2 (.leaf someStringCoder 9 3) <|
      .cons 3 (.list (.cons 0 (.leaf someBytesCoder 14 1) <| .cons 1 (.leaf someBytesCoder 17 2) .nil)) <|
      .cons 4 (.sub true true 21 20 (.cons 1 (.leaf someBytesCoder 23 4) <|
                 .cons 2 (.sub false true 29 8 (.cons 7 (.leaf someStringCoder 31 6) .nil)) .nil)) <|
      .cons 5 (.sub false false 43 6 (.cons 1 (.leaf someBytesCoder 45 4) .nil)) .nil }

theorem sampleWire_coders : ∀ c ∈ wcodersFs sampleWire.fields, c ∈ coders := by decide

/-- the theorems apply to it; the lazily decoded form really has an undecoded field, which lives in
the message's own buffer -/
example : Region.input ∉ reachable (unmarshal 1 true sampleWire) := unmarshal_no_alias 1 true sampleWire sampleWire_coders
example : noThunksFs (unmarshal 1 true sampleWire).fields = false := by decide
example : (match (unmarshal 1 true sampleWire).fields.get? 4 with
    | some (.thunk (.fresh 1 [0]) 21 20 true _) => true
    | _ => false) = true := by decide
/-- forcing it yields a message whose leaves live in allocations of the forcing epoch -/
example : reachable (force lazyBuffer 2 (unmarshal 1 true sampleWire)) =
    [.fresh 1 [0], .fresh 1 [1, 1], .fresh 1 [2, 1], .fresh 1 [0, 0, 3, 1], .fresh 1 [1, 0, 3, 1],
     .fresh 1 [0], .fresh 2 [1, 1, 4, 1], .fresh 2 [7, 1, 2, 1, 4, 1], .fresh 1 [1, 1, 5, 1]] := by decide

/-- necessity: the same input decoded with the alias flag set retains the caller's buffer -/
example : Region.input ∈ reachable (decode lazyBuffer 1 true true .input sampleWire) := by decide

/-- necessity: a consume function that stores the bare slice makes the input reachable -/
def aliasingCoder : Coder := { name := "seeded", kind := .bytes, fast := true, dec := .alias, mrg := .alias }
example : Region.input ∈ reachable (decode lazyBuffer 1 false false .input
    { msgLazy := false, fields := .cons 1 (.leaf aliasingCoder 2 5) .nil }) := by decide

/-- necessity: a lazy path that skips the buffer copy retains the input -/
example : Region.input ∈ reachable (decode .alias 1 true false .input sampleWire) := by decide

/-- a source message built by the caller (regions `src n`) and a destination: the hypotheses of the
merge theorems hold, and the merged destination references only its own and new memory -/
def sampleSrc : Tree :=
  { buf := none
    fields := .cons 1 (.leaf someBytesCoder (.src 0) 0 4) <| .cons 2 (.leaf someStringCoder (.src 1) 0 3) <|
      .cons 3 (.list (.cons 0 (.leaf someBytesCoder (.src 2) 0 1) .nil)) <|
      .cons 4 (.sub none (.cons 1 (.leaf someBytesCoder (.src 3) 0 2) .nil)) .nil }
def sampleDst : Tree :=
  { buf := none
    fields := .cons 1 (.leaf someBytesCoder (.src 10) 0 4) <|
      .cons 3 (.list (.cons 0 (.leaf someBytesCoder (.src 11) 0 1) .nil)) <|
      .cons 4 (.sub none (.cons 2 (.leaf someBytesCoder (.src 12) 0 2) .nil)) .nil }

example : writable sampleSrc = [.src 0, .src 2, .src 3] := by decide
example : reachable (merge 7 sampleDst sampleSrc) =
    [.fresh 7 [1, 1], .src 11, .fresh 7 [0, 0, 3, 1], .src 12, .fresh 7 [1, 1, 4, 1], .src 1] := by decide
example : ∀ r ∈ writable sampleSrc, r ∉ reachable (merge 7 sampleDst sampleSrc) := by decide
example : ∀ r ∈ writable sampleSrc, r ∉ readOnly sampleSrc := by decide

/-- necessity: a merge function that shares the slice makes src's memory reachable from dst -/
example : Region.src 0 ∈ reachable (merge 7 sampleDst
    { buf := none, fields := .cons 1 (.leaf aliasingCoder (.src 0) 0 4) .nil }) := by decide

end examples

end C14
