import PbVerif.Model.StructAny
import PbVerif.Props.Utf8Basics
open Model Model.StructAny

namespace C45

mutual
theorem asInterface_newValue (P : Params) : (v : GoVal) → (p : PV) → newValue P v = .ok p →
    asInterface p = normalize P v
  | .nil, p, h => by simp [newValue] at h; subst h; simp [asInterface, normalize]
  | .bool b, p, h => by simp [newValue] at h; subst h; simp [asInterface, normalize]
  | .int t v, p, h => by simp [newValue] at h; subst h; simp [asInterface, normalize]
  | .uint t v, p, h => by simp [newValue] at h; subst h; simp [asInterface, normalize]
  | .f32 b, p, h => by simp [newValue] at h; subst h; simp [asInterface, normalize]
  | .f64 b, p, h => by simp [newValue] at h; subst h; simp [asInterface, normalize]
  | .jnum s, p, h => by
    simp only [newValue] at h
    split at h
    · rename_i f hf; simp at h; subst h; simp [asInterface, normalize, hf]
    · simp at h
  | .str s, p, h => by
    simp only [newValue] at h
    split at h
    · simp at h; subst h; simp [asInterface, normalize]
    · simp at h
  | .bytes b, p, h => by simp [newValue] at h; subst h; simp [asInterface, normalize]
  | .map n m, p, h => by
    simp only [newValue] at h
    split at h
    · rename_i f hf; simp at h; subst h; simp [asInterface, normalize, asMap_newStruct P m f hf]
    · simp at h
  | .slice n l, p, h => by
    simp only [newValue] at h
    split at h
    · rename_i f hf; simp at h; subst h; simp [asInterface, normalize, asSlice_newList P l f hf]
    · simp at h
  | .unsupported t, p, h => by simp [newValue] at h
theorem asMap_newStruct (P : Params) : (m : GoMap) → (f : PFields) → newStruct P m = .ok f →
    asMap f = normalizeMap P m
  | .nil, f, h => by simp [newStruct] at h; subst h; simp [asMap, normalizeMap]
  | .cons k v t, f, h => by
    simp only [newStruct] at h
    split at h
    · split at h
      · simp at h
      · rename_i pv hv
        split at h
        · simp at h
        · rename_i pt ht
          simp at h; subst h
          simp [asMap, normalizeMap, asInterface_newValue P v pv hv, asMap_newStruct P t pt ht]
    · simp at h
theorem asSlice_newList (P : Params) : (l : GoList) → (f : PList) → newList P l = .ok f →
    asSlice f = normalizeList P l
  | .nil, f, h => by simp [newList] at h; subst h; simp [asSlice, normalizeList]
  | .cons v t, f, h => by
    simp only [newList] at h
    split at h
    · simp at h
    · rename_i pv hv
      split at h
      · simp at h
      · rename_i pt ht
        simp at h; subst h
        simp [asSlice, normalizeList, asInterface_newValue P v pv hv, asSlice_newList P t pt ht]
end

end C45
