import PbVerif.Lemmas.StructAny
import PbVerif.Lemmas.StructAnyUrl
import PbVerif.Lemmas.StructAnyParams
/-
C45 — Struct, Value and Any conversions round-trip.

All statements are about `Model.StructAny` (the model of the hand-written helpers of
`types/known/structpb/struct.pb.go` and `types/known/anypb/any.pb.go`; see the header of Model/StructAny.lean
for what each definition mirrors).  They hold for ALL value trees (no depth or size bound) and for ANY
standard-library parameter `P : Params` (`float64(int)`, `float64(float32)`, `json.Number.Float64`, base64),
unless the statement names the executable instance `goParams`.

Go maps are unordered.  The model lists the entries of a map in *some* order; `Equiv a b` says that two trees
differ only by such orders (its meaning: `equiv_adequate`).  Every law below is either literally independent of
the order (both sides list the entries in the same order) or is accompanied by an `…_order_independent` /
`…_anyOrder` theorem quantifying over all orders.  The one thing that *does* depend on the order is which error
`NewStruct` reports when several entries are bad: `possibleErrs` is the exact set (`newValue_error_mem`,
`possibleErrs_complete`).
-/
open Model Model.StructAny
open Model.StructAny.Lem (okB OptEquiv Adequate ExRel)

namespace C45

/-! ## Part A: structpb -/

/-! ### `NewValue(v).AsInterface() = normalize(v)` -/

/-- the documented law, for every Go value tree that `NewValue` accepts -/
theorem asInterface_newValue (P : Params) (v : GoVal) (p : PV) (h : newValue P v = .ok p) :
    asInterface p = normalize P v := Lem.asInterface_newValue P v p h

/-- `NewStruct(m).AsMap()` -/
theorem asMap_newStruct (P : Params) (m : GoMap) (f : PFields) (h : newStruct P m = .ok f) :
    asMap f = normalizeMap P m := Lem.asMap_newStruct P m f h

/-- `NewList(l).AsSlice()` -/
theorem asSlice_newList (P : Params) (l : GoList) (f : PList) (h : newList P l = .ok f) :
    asSlice f = normalizeList P l := Lem.asSlice_newList P l f h

/-- the law whatever order `NewStruct` ranges over the Go maps (`v'` is `v` listed in another order) and
whatever order `AsMap` ranges over `Struct.Fields` (`p'` is `p` listed in another order) -/
theorem asInterface_newValue_anyOrder (P : Params) {v v' : GoVal} {p p' : PV}
    (hv : Equiv (.val v) (.val v')) (h : newValue P v' = .ok p) (hp : PEquiv (.val p) (.val p')) :
    Equiv (.val (asInterface p')) (.val (normalize P v)) :=
  Lem.asInterface_newValue_anyOrder P hv h hp

/-- `normalize` is a projection: a normalized tree is a fixed point of the round trip's right-hand side -/
theorem normalize_idempotent (P : Params) (v : GoVal) : normalize P (normalize P v) = normalize P v :=
  Lem.normalize_idempotent P v

/-! ### when `NewValue` succeeds -/

/-- `NewValue` succeeds iff the tree contains no unsupported Go type, every string and every map key is valid
UTF-8 and every `json.Number` parses — at every depth -/
theorem newValue_ok_iff (P : Params) (v : GoVal) :
    (∃ p, newValue P v = .ok p) ↔ supported P v = true := Lem.newValue_ok_iff P v

theorem newStruct_ok_iff (P : Params) (m : GoMap) :
    (∃ f, newStruct P m = .ok f) ↔ supportedMap P m = true := by
  rw [← Lem.okB_newStruct, Lem.okB_iff]

theorem newList_ok_iff (P : Params) (l : GoList) :
    (∃ f, newList P l = .ok f) ↔ supportedList P l = true := by
  rw [← Lem.okB_newList, Lem.okB_iff]

/-- the verdict and the resulting Value do not depend on the map iteration order -/
theorem newValue_order_independent (P : Params) {v v' : GoVal} (h : Equiv (.val v) (.val v')) :
    ((∃ e, newValue P v = .error e) ↔ (∃ e, newValue P v' = .error e)) ∧
    (∀ p p', newValue P v = .ok p → newValue P v' = .ok p' → PEquiv (.val p) (.val p')) := by
  have := Lem.new_equiv P h
  simp only [Node.new] at this
  cases hv : newValue P v <;> cases hv' : newValue P v' <;> simp_all [Lem.ExRel, Except.map]

theorem supported_order_independent (P : Params) {v v' : GoVal} (h : Equiv (.val v) (.val v')) :
    supported P v = supported P v' := Lem.supported_equiv P h

theorem normalize_order_independent (P : Params) {v v' : GoVal} (h : Equiv (.val v) (.val v')) :
    Equiv (.val (normalize P v)) (.val (normalize P v')) := Lem.normalize_equiv P h

/-- the error reported is one of `possibleErrs` … -/
theorem newValue_error_mem (P : Params) (v : GoVal) (e : Err) (h : newValue P v = .error e) :
    e ∈ possibleErrs P v := Lem.newValue_error_mem P v e h

/-- … a set that does not depend on the order … -/
theorem possibleErrs_order_independent (P : Params) {v v' : GoVal} (h : Equiv (.val v) (.val v')) (e : Err) :
    e ∈ possibleErrs P v ↔ e ∈ possibleErrs P v' := Lem.possibleErrs_equiv P h e

/-- … and every member of which is reported under some order -/
theorem possibleErrs_complete (P : Params) (v : GoVal) (e : Err) (h : e ∈ possibleErrs P v) :
    ∃ w, Equiv (.val v) (.val w) ∧ newValue P w = .error e := Lem.possibleErrs_complete P v e h

/-- what `Equiv` means: the same outermost constructor for values; for maps the same keys and — when the keys
are distinct, as in every Go map — equivalent values under every key; for slices equivalent elements at every
index -/
theorem equiv_adequate {a b : Node} (h : Equiv a b) : Adequate a b := Lem.equiv_adequate h

/-! ### the converse direction: `NewValue(x.AsInterface()) = x` -/

/-- for every Value tree without unset Values, with finite numbers and valid UTF-8 strings and keys;
and for no other (`PV.wf` is necessary) -/
theorem newValue_asInterface (P : Params) (p : PV) (h : p.wf = true) : newValue P (asInterface p) = .ok p :=
  Lem.newValue_asInterface P p h

theorem newValue_asInterface_iff (P : Params) (p : PV) :
    newValue P (asInterface p) = .ok p ↔ p.wf = true := Lem.newValue_asInterface_iff P p

/-! ### JSON: `encoding/json.Marshal(x.AsInterface())` against `protojson.Marshal(x)` -/

/-- whenever protojson marshals the Value, encoding/json of `AsInterface` gives the same document -/
theorem valueJSON_agrees (p : PV) (j : J) (h : protoJSON p = .ok j) : goJSON (asInterface p) = .ok j :=
  Lem.goJSON_asInterface p j h

/-- protojson marshals exactly the Values that `NewValue ∘ AsInterface` reproduces -/
theorem protoJSON_ok_iff (p : PV) : (∃ j, protoJSON p = .ok j) ↔ p.wf = true := by
  rw [← Lem.okB_protoJSON, Lem.okB_iff]

/-! ### laws of the executable parameter instance -/

/-- base64 text is valid UTF-8 (so the `[]byte` arm needs no check), 4·⌈n/3⌉ bytes long -/
theorem base64_valid (s : Str) : Utf8.valid (b64 s) = true := Lem.b64_valid s
theorem base64_length (s : Str) : (b64 s).length = 4 * ((s.length + 2) / 3) := Lem.b64_length s

/-- `float64(i)` is finite for every value of a Go integer type -/
theorem intToF64_finite (i : Int) (h : i.natAbs < 2 ^ 64) : f64Finite (intToF64 i) = true :=
  Lem.intToF64_finite i h

/-- hence an integer always comes back as a float64, never as one of the strings "NaN"/"Infinity" -/
theorem normalize_int (pf : Str → Option F64) (t : IntTy) (i : Int) (h : i.natAbs < 2 ^ 64) :
    normalize (goParams pf) (.int t i) = .f64 (intToF64 i) := by
  simp [normalize, goParams, Lem.numIface_finite (intToF64_finite i h)]

/-- below 2^53 the conversion is exact: `(1.frac) · 2^(e−1023) = n` -/
theorem intToF64_exact (n : Nat) (h0 : 0 < n) (h : n < 2 ^ 53) :
    1023 ≤ natToF64Mag n / 2 ^ 52 ∧ natToF64Mag n / 2 ^ 52 ≤ 1075 ∧
    (2 ^ 52 + natToF64Mag n % 2 ^ 52) * 2 ^ (natToF64Mag n / 2 ^ 52 - 1023) = n * 2 ^ 52 :=
  Lem.natToF64Mag_exact n h0 h

/-- the documented precision loss above 2^53 -/
theorem intToF64_precision_loss : intToF64 9007199254740993 = intToF64 9007199254740992 :=
  Lem.intToF64_precision_loss

/-! ## Part B: anypb -/

section any
variable {M : Type}

theorem new_ok_iff (C : Codec M) (m : M) (a : AnyMsg) :
    new C m = .ok a ↔ ∃ b, C.marshal m = some b ∧ a = ⟨urlPrefix ++ C.nameOf m, b⟩ := by
  unfold new
  cases C.marshal m <;> simp [eq_comm]

theorem urlPrefix_split : urlPrefix = (urlPrefix.take 19) ++ [SLASH] := by decide

/-- the suffix after the last '/' of the URL written by `New` is the message's full name -/
theorem messageNameRaw_new (C : Codec M) (m : M) (a : AnyMsg) (h : new C m = .ok a)
    (hn : SLASH ∉ C.nameOf m) : messageNameRaw a.typeURL = C.nameOf m := by
  obtain ⟨b, _, rfl⟩ := (new_ok_iff C m a).mp h
  simp only
  rw [urlPrefix_split, List.append_assoc]
  exact Lem.messageNameRaw_append_slash _ _ hn

/-- `New(m).MessageName() = m`'s full name (a valid full name contains no '/') -/
theorem messageName_new (C : Codec M) (m : M) (a : AnyMsg) (h : new C m = .ok a)
    (hv : fullNameValid (C.nameOf m) = true) : messageName a.typeURL = C.nameOf m := by
  simp [messageName, messageNameRaw_new C m a h (Lem.fullNameValid_noslash hv), hv]

/-- `MessageName` characterised: the suffix `n` after the last '/' (the whole URL when it has none) when that
is a valid full name, the empty string otherwise -/
theorem messageName_suffix (url : Str) :
    ∃ n, SLASH ∉ n ∧ (url = n ∨ ∃ p, url = p ++ SLASH :: n) ∧
      messageName url = if fullNameValid n then n else [] :=
  ⟨messageNameRaw url, (Lem.messageNameRaw_split url).1, (Lem.messageNameRaw_split url).2, rfl⟩

/-- the suffix is unique: any split of the URL at a '/' with a slash-free right part gives it -/
theorem messageName_of_split (p n : Str) (hv : fullNameValid n = true) :
    messageName (p ++ SLASH :: n) = n ∧ messageName n = n := by
  have hn := Lem.fullNameValid_noslash hv
  simp [messageName, Lem.messageNameRaw_append_slash p n hn, Lem.messageNameRaw_of_noslash hn, hv]

/-- the suffix characterised as an equivalence -/
theorem messageNameRaw_iff (url n : Str) :
    messageNameRaw url = n ↔ SLASH ∉ n ∧ (url = n ∨ ∃ p, url = p ++ SLASH :: n) :=
  Lem.messageNameRaw_spec url n

/-- `MessageIs(m)` holds iff the suffix after the last '/' is `m`'s full name — although the code compares with
`strings.HasSuffix` and looks at one byte only (message names contain no '/') -/
theorem messageIs_iff (url name : Str) (hn : SLASH ∉ name) :
    messageIs url name = true ↔ messageNameRaw url = name := Lem.messageIs_iff url name hn

/-- a valid full name contains no '/' -/
theorem fullNameValid_noslash {s : Str} (h : fullNameValid s = true) : SLASH ∉ s :=
  Lem.fullNameValid_noslash h

theorem messageName_invalid (url : Str) (h : fullNameValid (messageNameRaw url) = false) :
    messageName url = [] := by
  simp [messageName, h]

theorem messageIs_new (C : Codec M) (m : M) (a : AnyMsg) (h : new C m = .ok a)
    (hn : SLASH ∉ C.nameOf m) : messageIs a.typeURL (C.nameOf m) = true :=
  (Lem.messageIs_iff _ _ hn).mpr (messageNameRaw_new C m a h hn)

theorem messageIs_new_other (C : Codec M) (m : M) (a : AnyMsg) (h : new C m = .ok a)
    (hn : SLASH ∉ C.nameOf m) (n' : Str) (hn' : SLASH ∉ n') (hne : n' ≠ C.nameOf m) :
    messageIs a.typeURL n' = false := by
  rw [Bool.eq_false_iff]
  intro hc
  have := (Lem.messageIs_iff _ _ hn').mp hc
  rw [messageNameRaw_new C m a h hn] at this
  exact hne this.symm

/-- `UnmarshalTo` in general: it decodes iff the URL's suffix is the destination's name -/
theorem unmarshalTo_eq (C : Codec M) (a : AnyMsg) (n : Str) (hn : SLASH ∉ n) :
    unmarshalTo C a n =
      if messageNameRaw a.typeURL = n then
        (match C.unmarshal n a.value with | some m => .ok m | none => .error .decode)
      else .error .mismatch := by
  unfold unmarshalTo
  by_cases h : messageNameRaw a.typeURL = n
  · cases hu : C.unmarshal n a.value <;> simp [h, (Lem.messageIs_iff _ _ hn).mpr h]
  · have : messageIs a.typeURL n = false := by
      rw [Bool.eq_false_iff]; exact fun hc => h ((Lem.messageIs_iff _ _ hn).mp hc)
    simp [h, this]

theorem unmarshalTo_new (C : Codec M) (hrt : C.RoundTrip) (m : M) (a : AnyMsg) (h : new C m = .ok a)
    (hn : SLASH ∉ C.nameOf m) : unmarshalTo C a (C.nameOf m) = .ok m := by
  rw [unmarshalTo_eq C a _ hn, if_pos (messageNameRaw_new C m a h hn)]
  obtain ⟨b, hb, rfl⟩ := (new_ok_iff C m a).mp h
  simp [hrt m b hb]

theorem unmarshalTo_mismatch (C : Codec M) (m : M) (a : AnyMsg) (h : new C m = .ok a)
    (hn : SLASH ∉ C.nameOf m) (n' : Str) (hn' : SLASH ∉ n') (hne : n' ≠ C.nameOf m) :
    unmarshalTo C a n' = .error .mismatch := by
  simp [unmarshalTo, messageIs_new_other C m a h hn n' hn' hne]

theorem unmarshalNew_new (C : Codec M) (hrt : C.RoundTrip) (r : Resolver) (m : M) (a : AnyMsg)
    (h : new C m = .ok a) (hn : SLASH ∉ C.nameOf m) (hr : r.find (C.nameOf m) = some true) :
    unmarshalNew C r a = .ok m := by
  have hraw := messageNameRaw_new C m a h hn
  obtain ⟨b, hb, rfl⟩ := (new_ok_iff C m a).mp h
  have hne : urlPrefix ++ C.nameOf m ≠ [] := by
    intro hc; have := congrArg List.length hc; simp [urlPrefix] at this
  simp only at hraw
  simp [unmarshalNew, hne, hraw, hr, hrt m b hb]

theorem unmarshalNew_unknown (C : Codec M) (r : Resolver) (a : AnyMsg) (hne : a.typeURL ≠ [])
    (hr : r.find (messageNameRaw a.typeURL) = none) : unmarshalNew C r a = .error .notFound := by
  simp [unmarshalNew, hne, hr]

theorem unmarshalNew_wrongType (C : Codec M) (r : Resolver) (a : AnyMsg) (hne : a.typeURL ≠ [])
    (hr : r.find (messageNameRaw a.typeURL) = some false) : unmarshalNew C r a = .error .wrongType := by
  simp [unmarshalNew, hne, hr]

theorem unmarshalNew_empty (C : Codec M) (r : Resolver) (v : Str) :
    unmarshalNew C r ⟨[], v⟩ = .error .emptyURL := by
  simp [unmarshalNew]

/-- `UnmarshalNew` = `UnmarshalTo` into a fresh message of the resolved type -/
theorem unmarshalNew_eq_unmarshalTo (C : Codec M) (r : Resolver) (a : AnyMsg) (hne : a.typeURL ≠ [])
    (hr : r.find (messageNameRaw a.typeURL) = some true) :
    unmarshalNew C r a = unmarshalTo C a (messageNameRaw a.typeURL) := by
  rw [unmarshalTo_eq C a _ (Lem.messageNameRaw_split a.typeURL).1]
  cases hu : C.unmarshal (messageNameRaw a.typeURL) a.value <;> simp [unmarshalNew, hne, hr, hu]

end any


/-! ## Non-vacuity: the hypotheses are satisfiable by non-trivial values -/

section examples

def kA : Str := [0x61#8]            -- "a"
def kK : Str := [0x6B#8]            -- "k"
def kBad : Str := [0xFF#8]          -- not UTF-8
def nanBits : F64 := 0x7FF8000000000001#64

theorem valid_kA : Utf8.valid kA = true := Utf8.valid_of_ascii _ (by decide)
theorem valid_kK : Utf8.valid kK = true := Utf8.valid_of_ascii _ (by decide)
theorem valid_nil : Utf8.valid [] = true := Utf8.valid_of_ascii _ (by decide)
theorem valid_kBad : Utf8.valid kBad = false := by
  unfold Utf8.valid kBad
  have : Utf8.isInvalid (Utf8.decodeRune [0xFF#8]) = true := by decide
  simp [this]

/-- `{"a": [int64(-5), []byte{0xff}, nil], "": map[string]any(nil), "k": NaN}` -/
def vEx : GoVal :=
  .map false (.cons kA (.slice false (.cons (.int .i64 (-5)) (.cons (.bytes [0xFF#8]) (.cons .nil .nil))))
    (.cons [] (.map true .nil) (.cons kK (.f64 nanBits) .nil)))

/-- `NewValue` accepts it (whatever the parameters), nested two levels deep … -/
example (P : Params) : newValue P vEx =
    .ok (.struct (.cons kA (.list (.cons (.number (P.i2f (-5))) (.cons (.string (P.base64 [0xFF#8])) (.cons .null .nil))))
      (.cons [] (.struct .nil) (.cons kK (.number nanBits) .nil)))) := by
  simp [vEx, newValue, newStruct, newList, valid_kA, valid_kK, valid_nil]

/-- … and comes back normalized: the nil map is an empty map, the NaN is the string "NaN" -/
example (P : Params) : normalize P vEx =
    .map false (.cons kA (.slice false (.cons (numIface (P.i2f (-5))) (.cons (.str (P.base64 [0xFF#8])) (.cons .nil .nil))))
      (.cons [] (.map false .nil) (.cons kK (.str sNaN) .nil))) := by
  have hn : f64IsNaN nanBits = true := by decide
  have : numIface nanBits = .str sNaN := by simp [numIface, hn]
  simp [vEx, normalize, normalizeMap, normalizeList, this]

/-- with the executable parameters: -5 ↦ 0xC014000000000000, 0xff ↦ "/w==" -/
example : intToF64 (-5) = 0xC014000000000000#64 ∧ b64 [0xFF#8] = [0x2F#8, 0x77#8, 0x3D#8, 0x3D#8] := by decide

/-- `NewValue` accepts NaN, protojson refuses the result, encoding/json prints the string -/
example (P : Params) : newValue P (.f64 nanBits) = .ok (.number nanBits) ∧
    protoJSON (.number nanBits) = .error .nonfinite ∧
    goJSON (asInterface (.number nanBits)) = .ok (.str sNaN) := by
  have h1 : f64Finite nanBits = false := by decide
  have hn : f64IsNaN nanBits = true := by decide
  have h2 : numIface nanBits = .str sNaN := by simp [numIface, hn]
  have h3 : Utf8.valid sNaN = true := Utf8.valid_of_ascii _ (by decide)
  simp [newValue, protoJSON, asInterface, goJSON, h1, h2, h3]

/-- errors come out of nested values: a bad key three levels down, an unsupported element -/
example (P : Params) :
    newValue P (.slice false (.cons (.map false (.cons kA (.map false (.cons kBad .nil .nil)) .nil)) .nil))
      = .error .utf8 := by
  simp [newValue, newStruct, newList, valid_kA, valid_kBad]

example (P : Params) : newValue P (.slice false (.cons (.bool true) (.cons (.unsupported 3) .nil))) = .error .type := by
  simp [newValue, newList]

/-- the reported error really depends on the map order: `{"\xff": nil, "a": <chan>}` -/
example (P : Params) :
    newValue P (.map false (.cons kBad .nil (.cons kA (.unsupported 0) .nil))) = .error .utf8 ∧
    newValue P (.map false (.cons kA (.unsupported 0) (.cons kBad .nil .nil))) = .error .type ∧
    possibleErrs P (.map false (.cons kBad .nil (.cons kA (.unsupported 0) .nil))) = [.utf8, .type] ∧
    Equiv (.val (.map false (.cons kBad .nil (.cons kA (.unsupported 0) .nil))))
      (.val (.map false (.cons kA (.unsupported 0) (.cons kBad .nil .nil)))) := by
  refine ⟨?_, ?_, ?_, .vmap false (.swap ..)⟩ <;>
    simp [newValue, newStruct, possibleErrs, possibleErrsMap, valid_kA, valid_kBad]

/-- a well-formed Value with nesting; the unset Value is not -/
example : (PV.struct (.cons kA (.list (.cons (.number 0#64) (.cons (.struct .nil) .nil))) .nil)).wf = true := by
  have : f64Finite 0#64 = true := by decide
  simp [PV.wf, PFields.wf, PList.wf, valid_kA, this]

example (P : Params) : newValue P (asInterface (.list (.cons .unset .nil))) = .ok (.list (.cons .null .nil)) := by
  simp [asInterface, asSlice, newValue, newList]

/-- a codec whose messages are (name, bytes) pairs: the round-trip hypothesis is satisfiable -/
def pairCodec : Codec (Str × Str) :=
  { nameOf := fun m => m.1, marshal := fun m => some m.2, unmarshal := fun n b => some (n, b) }

example : pairCodec.RoundTrip := by
  intro m b h; simp [pairCodec] at h ⊢; subst h; rfl

/-- "a.B" -/
def nAB : Str := [0x61#8, 0x2E#8, 0x42#8]

example : fullNameValid nAB = true ∧ messageName (urlPrefix ++ nAB) = nAB ∧
    messageIs (urlPrefix ++ nAB) nAB = true ∧ messageIs (urlPrefix ++ nAB) [0x42#8] = false := by decide

/-- hand-made URLs: "", "/", "x/y/a.B", "a.B", "h//a.B", "a.B/", "a/b c" -/
example : messageName [] = [] ∧ messageName [SLASH] = [] ∧
    messageName ([0x78#8, SLASH, 0x79#8, SLASH] ++ nAB) = nAB ∧ messageName nAB = nAB ∧
    messageName ([0x68#8, SLASH, SLASH] ++ nAB) = nAB ∧ messageName (nAB ++ [SLASH]) = [] ∧
    messageName [0x61#8, SLASH, 0x62#8, 0x20#8, 0x63#8] = [] := by decide

example : unmarshalNew pairCodec [(nAB, true)] ⟨urlPrefix ++ nAB, [1#8]⟩ = .ok (nAB, [1#8]) ∧
    unmarshalNew pairCodec [(nAB, false)] ⟨urlPrefix ++ nAB, []⟩ = .error .wrongType ∧
    unmarshalNew pairCodec [] ⟨urlPrefix ++ nAB, []⟩ = .error .notFound ∧
    unmarshalTo pairCodec ⟨urlPrefix ++ nAB, []⟩ [0x42#8] = .error .mismatch := ⟨rfl, rfl, rfl, rfl⟩

end examples

end C45
