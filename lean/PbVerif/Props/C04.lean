import PbVerif.Model.Msg
import PbVerif.Lemmas.WireSpec
import PbVerif.Lemmas.MsgBasic
/-
C04 — `proto.Size` equals the length of the `Marshal` output.

`sizeMsg` (Model/Msg.lean) mirrors proto/size.go + size_gen.go: it never builds bytes.  `encMsg`
mirrors proto/encode.go + encode_gen.go.  The theorems hold for ALL schemas (cyclic ones included,
undeclared field numbers, ill-typed values) and ALL messages: no well-formedness hypothesis.
-/
namespace C04
open Pb Spec

theorem tagBytes_length (num typ : Nat) : (tagBytes num typ).length = sizeTag num := by
  unfold tagBytes sizeTag sizeVarint; exact tag_length num typ 0

theorem sizeScalar_eq (k : Kind) (v : Val) : sizeScalar k v = (encScalar k v).length := by
  cases v with
  | num n =>
    simp only [sizeScalar, encScalar]
    split <;> simp [sizeVarint, encFixed_length]
  | bytes b => simp [sizeScalar, encScalar, sizeVarint]
  | msg m => simp [sizeScalar, encScalar]

theorem sizePacked_eq (k : Kind) : ∀ vs : Vals, sizePacked k vs = (encPacked k vs).length
  | .nil => by simp [sizePacked, encPacked]
  | .cons v tl => by simp [sizePacked, encPacked, sizeScalar_eq, sizePacked_eq k tl]

mutual
theorem sizeVal_eq (S : Schema) (f : Field) : ∀ v : Val, sizeVal S f v = (encVal S f v).length
  | .num n => by
    simp only [sizeVal, encVal, List.length_append, tagBytes_length, sizeScalar_eq]
  | .bytes b => by
    simp only [sizeVal, encVal, List.length_append, tagBytes_length, sizeScalar_eq]
  | .msg m => by
    simp only [sizeVal, encVal, size_eq_length S f.sub m]
    split
    · simp only [List.length_append, tagBytes_length]; omega
    · simp only [List.length_append, tagBytes_length, sizeVarint]
/-- **C04**: `Size` = length of the encoding, all schemas, all messages -/
theorem size_eq_length (S : Schema) (mi : Nat) : ∀ m : Msg, sizeMsg S mi m = (encMsg S mi m).length
  | .mk fs unk => by
    simp only [sizeMsg, encMsg, List.length_append, sizeFields_eq S (S.msg mi) fs]
theorem sizeFields_eq (S : Schema) (d : MsgD) : ∀ fs : Fields, sizeFields S d fs = (encFields S d fs).length
  | .nil => by simp [sizeFields, encFields]
  | .cons num fv tl => by
    simp only [sizeFields, encFields, List.length_append, sizeFields_eq S d tl]
    cases d.find num with
    | none => simp
    | some f => simp only [sizeFVal_eq S f fv]
theorem sizeFVal_eq (S : Schema) (f : Field) : ∀ fv : FVal, sizeFVal S f fv = (encFVal S f fv).length
  | .one v => by simp only [sizeFVal, encFVal, sizeVal_eq S f v]
  | .many vs => by
    simp only [sizeFVal, encFVal]
    split
    · simp only [List.length_append, tagBytes_length, sizePacked_eq, sizeVarint]
    · exact sizeVals_eq S f vs
theorem sizeVals_eq (S : Schema) (f : Field) : ∀ vs : Vals, sizeVals S f vs = (encVals S f vs).length
  | .nil => by simp [sizeVals, encVals]
  | .cons v tl => by
    simp only [sizeVals, encVals, List.length_append, sizeVal_eq S f v, sizeVals_eq S f tl]
end

/-! ### the encoding of a field list is the concatenation of the encodings of its fields
(`MarshalAppend` appends field after field; nothing written earlier is touched) -/

theorem encFields_append (S : Schema) (d : MsgD) : ∀ xs ys : Fields,
    encFields S d (xs.append ys) = encFields S d xs ++ encFields S d ys
  | .nil, ys => by simp [Fields.append, encFields]
  | .cons n x tl, ys => by
    simp only [Fields.append, encFields, encFields_append S d tl ys, List.append_assoc]

/-- one declared field contributes exactly the encoding of its value -/
theorem encFields_cons_declared (S : Schema) (d : MsgD) (f : Field) (num : Nat) (fv : FVal) (tl : Fields)
    (h : d.find num = some f) :
    encFields S d (.cons num fv tl) = encFVal S f fv ++ encFields S d tl := by
  simp only [encFields, h]

theorem encVals_append (S : Schema) (f : Field) : ∀ xs ys : Vals,
    encVals S f (xs.append ys) = encVals S f xs ++ encVals S f ys
  | .nil, ys => by simp [Vals.append, encVals]
  | .cons v tl, ys => by simp only [Vals.append, encVals, encVals_append S f tl ys, List.append_assoc]

/-- `MarshalAppend(p, m) = p ++ Marshal(m)` is definitional in the model (the encoder is a pure
function producing the appended bytes); the message body is fields followed by unknown bytes -/
theorem encodeAppend (S : Schema) (mi : Nat) (fs : Fields) (unk : List Byte) (p : List Byte) :
    p ++ encMsg S mi (.mk fs unk) = (p ++ encFields S (S.msg mi) fs) ++ unk := by
  simp only [encMsg, List.append_assoc]

/-- closed form of a nested length-delimited message record: tag, varint of the body length,
body — what `finishSpeculativeLength` leaves in the buffer after its 1-byte guess and shift -/
theorem encVal_message (S : Schema) (f : Field) (m : Msg) (h : f.kind ≠ .group) :
    encVal S f (.msg m) =
      tagBytes f.num 2 ++ encVarint (sizeMsg S f.sub m) ++ encMsg S f.sub m := by
  simp only [encVal, h, if_false, size_eq_length]

theorem encVal_group (S : Schema) (f : Field) (m : Msg) (h : f.kind = .group) :
    encVal S f (.msg m) = tagBytes f.num 3 ++ encMsg S f.sub m ++ tagBytes f.num 4 := by
  simp only [encVal, h, if_true]

/-- length of a nested message record in terms of sizes only (size.go: `sizeMessage`) -/
theorem sizeVal_message (S : Schema) (f : Field) (m : Msg) (h : f.kind ≠ .group) :
    (encVal S f (.msg m)).length =
      sizeTag f.num + sizeVarint (sizeMsg S f.sub m) + sizeMsg S f.sub m := by
  rw [← sizeVal_eq]; simp only [sizeVal, h, if_false]

end C04

#print axioms C04.size_eq_length
#print axioms C04.sizeFields_eq
#print axioms C04.sizeVal_eq
#print axioms C04.encFields_append
#print axioms C04.encVal_message
