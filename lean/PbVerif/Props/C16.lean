import PbVerif.Model.SizeCache
/-
C16 — the size cache never makes Marshal output stale (model: `SizeCache`, i.e.
internal/impl/encode.go `sizePointer`/`sizePointerSlow`/`marshalAppendPointer`,
codec_field.go `appendMessageInfo`, proto/encode.go `MarshalOptions.marshal`).
All theorems hold for every content tree, EVERY prior cache contents (any history) and every
value of the cache limit `lim` (`math.MaxInt32 - 1` in the code).
-/
namespace C16
open SizeCache
open Spec (Byte encVarint)

/-! ### fresh and sound caches -/

mutual
/-- the caches a full size pass leaves behind -/
def freshC (lim : Nat) : T → C
  | .node own kids => .node (cacheWord lim (own ++ encodeKids kids).length) (freshKids lim kids)
def freshKids (lim : Nat) : Ts → Cs
  | .nil => .nil
  | .cons _ t tl => .cons (freshC lim t) (freshKids lim tl)
end

/-- every cache in the tree holds the current size (or `0` where the size exceeds the limit) -/
def CachesFresh (lim : Nat) (t : T) (c : C) : Prop := c = freshC lim t

mutual
/-- every VALID cache word in the tree holds the current size (invalid words are allowed anywhere) -/
def CachesSound : T → C → Prop
  | .node own kids, c =>
    (c.cache = 0 ∨ c.cache = (own ++ encodeKids kids).length + 1) ∧ SoundKids kids c.kids
def SoundKids : Ts → Cs → Prop
  | .nil, _ => True
  | .cons _ t tl, cs => CachesSound t cs.head ∧ SoundKids tl cs.tail
end

theorem cacheWord_sound (lim n : Nat) : cacheWord lim n = 0 ∨ cacheWord lim n = n + 1 := by
  unfold cacheWord; split <;> simp

mutual
theorem fresh_sound (lim : Nat) : ∀ t : T, CachesSound t (freshC lim t)
  | .node own kids => by
    rw [freshC, CachesSound]
    exact ⟨cacheWord_sound _ _, freshKids_sound lim kids⟩
theorem freshKids_sound (lim : Nat) : ∀ ts : Ts, SoundKids ts (freshKids lim ts)
  | .nil => by rw [SoundKids]; trivial
  | .cons _ t tl => by
    rw [freshKids, SoundKids]
    exact ⟨fresh_sound lim t, freshKids_sound lim tl⟩
end

/-! ### the size pass -/

mutual
/-- **the size pass** (`sizePointer` without `UseCachedSize`) ignores whatever the caches held,
returns the exact encoded length and leaves every cache fresh -/
theorem sizeP_false (lim : Nat) : ∀ (t : T) (c : C),
    sizeP lim false t c = (freshC lim t, (encode t).length)
  | .node own kids, c => by
    rw [sizeP, sizeKids_false lim kids c.kids, freshC, encode]
    simp [List.length_append]
theorem sizeKids_false (lim : Nat) : ∀ (ts : Ts) (cs : Cs),
    sizeKids lim false ts cs = (freshKids lim ts, (encodeKids ts).length)
  | .nil, _ => by rw [sizeKids, freshKids, encodeKids]; rfl
  | .cons tag t tl, cs => by
    rw [sizeKids, sizeP_false lim t cs.head, sizeKids_false lim tl cs.tail, freshKids, encodeKids]
    simp [List.length_append, Spec.sizeVarint, Nat.add_assoc]
end

theorem sizePass_fresh (lim : Nat) (t : T) (c : C) : CachesFresh lim t (sizeSlow lim t c).1 := by
  unfold CachesFresh sizeSlow; rw [sizeP_false]

theorem sizeSlow_eq (lim : Nat) (t : T) (c : C) : (sizeSlow lim t c).2 = (encode t).length := by
  unfold sizeSlow; rw [sizeP_false]

mutual
/-- sizing with `UseCachedSize` is exact whenever every valid cache is current — in particular a
node whose size exceeds the limit (cache word `0`) is simply recomputed from its children -/
theorem sizeP_true_sound (lim : Nat) : ∀ (t : T) (c : C), CachesSound t c →
    (sizeP lim true t c).2 = (encode t).length ∧ CachesSound t (sizeP lim true t c).1
  | .node own kids, c, h => by
    rw [CachesSound] at h
    rw [sizeP]
    by_cases hc : c.cache > 0
    · simp only [Bool.true_and, hc, decide_true, if_true]
      rcases h.1 with h0 | h1
      · omega
      · refine ⟨by rw [h1, encode]; simp, ?_⟩
        rw [CachesSound]; exact h
    · simp only [Bool.true_and, hc, decide_false, Bool.false_eq_true, if_false]
      obtain ⟨hs, hk⟩ := sizeKids_true_sound lim kids c.kids h.2
      refine ⟨by rw [hs, encode]; simp [List.length_append], ?_⟩
      rw [CachesSound]
      refine ⟨?_, hk⟩
      have := cacheWord_sound lim (own.length + (encodeKids kids).length)
      simpa [C.cache, List.length_append, hs] using this
theorem sizeKids_true_sound (lim : Nat) : ∀ (ts : Ts) (cs : Cs), SoundKids ts cs →
    (sizeKids lim true ts cs).2 = (encodeKids ts).length ∧ SoundKids ts (sizeKids lim true ts cs).1
  | .nil, _, _ => by rw [sizeKids, encodeKids, SoundKids]; exact ⟨rfl, trivial⟩
  | .cons tag t tl, cs, h => by
    rw [SoundKids] at h
    obtain ⟨h1, h1'⟩ := sizeP_true_sound lim t cs.head h.1
    obtain ⟨h2, h2'⟩ := sizeKids_true_sound lim tl cs.tail h.2
    rw [sizeKids]
    refine ⟨?_, ?_⟩
    · simp only [h1, h2, encodeKids, List.length_append, Spec.sizeVarint]
    · rw [SoundKids]; exact ⟨h1', h2'⟩
end

mutual
/-- on fresh caches, sizing with `UseCachedSize` changes nothing (also where a cache is `0`
because the size exceeds the limit: the recomputation stores `0` again) -/
theorem sizeP_true_fresh (lim : Nat) : ∀ t : T,
    sizeP lim true t (freshC lim t) = (freshC lim t, (encode t).length)
  | .node own kids => by
    rw [sizeP]
    by_cases hc : (freshC lim (.node own kids)).cache > 0
    · simp only [Bool.true_and, hc, decide_true, if_true]
      have := cacheWord_sound lim (own ++ encodeKids kids).length
      rw [freshC, C.cache] at hc ⊢
      rcases this with h | h
      · omega
      · rw [h, encode]; simp
    · simp only [Bool.true_and, hc, decide_false, Bool.false_eq_true, if_false]
      have : (freshC lim (.node own kids)).kids = freshKids lim kids := by rw [freshC, C.kids]
      rw [this, sizeKids_true_fresh lim kids, freshC, encode]
      simp [List.length_append]
theorem sizeKids_true_fresh (lim : Nat) : ∀ ts : Ts,
    sizeKids lim true ts (freshKids lim ts) = (freshKids lim ts, (encodeKids ts).length)
  | .nil => by rw [sizeKids, freshKids, encodeKids]; rfl
  | .cons tag t tl => by
    rw [freshKids, sizeKids, Cs.head, Cs.tail, sizeP_true_fresh lim t, sizeKids_true_fresh lim tl, encodeKids]
    simp [List.length_append, Spec.sizeVarint, Nat.add_assoc]
end

/-! ### the marshal pass -/

mutual
/-- whatever the caches hold: IF the marshal pass succeeds, the bytes are the encoding of the
current content (a stale cache can only produce the size-mismatch error, never stale output) -/
theorem marshalP_any (lim : Nat) : ∀ (t : T) (c c' : C) (bs : List Byte),
    marshalP lim t c = .ok (c', bs) → bs = encode t
  | .node own kids, c, c', bs, h => by
    rw [marshalP] at h
    split at h
    · cases h
    · rename_i cs' bs' hk
      cases h
      rw [encode, marshalKids_any lim kids c.kids cs' bs' hk]
theorem marshalKids_any (lim : Nat) : ∀ (ts : Ts) (cs cs' : Cs) (bs : List Byte),
    marshalKids lim ts cs = .ok (cs', bs) → bs = encodeKids ts
  | .nil, _, _, _, h => by rw [marshalKids] at h; cases h; rw [encodeKids]
  | .cons tag t tl, cs, cs', bs, h => by
    rw [marshalKids] at h
    split at h
    · cases h
    · rename_i c1 body hb
      have hbody := marshalP_any lim t _ c1 body hb
      split at h
      · cases h
      · rename_i hlen
        split at h
        · cases h
        · rename_i tl' rest hr
          have hrest := marshalKids_any lim tl _ tl' rest hr
          cases h
          have hl : (sizeP lim true t cs.head).2 = (encode t).length := by
            rw [← hbody]; exact Decidable.of_not_not hlen
          rw [encodeKids, hl, hbody, hrest]
end

mutual
/-- **the marshal pass on fresh caches** returns the encoding and leaves the caches as they are -/
theorem marshalP_fresh (lim : Nat) : ∀ t : T,
    marshalP lim t (freshC lim t) = .ok (freshC lim t, encode t)
  | .node own kids => by
    have hk : (freshC lim (.node own kids)).kids = freshKids lim kids := by rw [freshC, C.kids]
    rw [marshalP, hk, marshalKids_fresh lim kids, encode]
    have : (freshC lim (.node own kids)).cache = cacheWord lim (own ++ encodeKids kids).length := by
      rw [freshC, C.cache]
    rw [this, freshC]
theorem marshalKids_fresh (lim : Nat) : ∀ ts : Ts,
    marshalKids lim ts (freshKids lim ts) = .ok (freshKids lim ts, encodeKids ts)
  | .nil => by rw [marshalKids, freshKids, encodeKids]
  | .cons tag t tl => by
    rw [freshKids, marshalKids, Cs.head, Cs.tail, sizeP_true_fresh lim t]
    simp only
    rw [marshalP_fresh lim t]
    simp only [ne_eq, not_true_eq_false, if_false]
    rw [marshalKids_fresh lim tl, encodeKids]
    done
end

theorem marshalCached_correct (lim : Nat) (t : T) (c : C) (h : CachesFresh lim t c) :
    marshalCached lim t c = .ok (c, encode t) := by
  unfold CachesFresh at h
  subst h
  exact marshalP_fresh lim t

mutual
/-- more generally the marshal pass succeeds whenever every VALID cache is current -/
theorem marshalP_sound (lim : Nat) : ∀ (t : T) (c : C), CachesSound t c →
    ∃ c', marshalP lim t c = .ok (c', encode t) ∧ CachesSound t c'
  | .node own kids, c, h => by
    rw [CachesSound] at h
    obtain ⟨cs', hk, hs⟩ := marshalKids_sound lim kids c.kids h.2
    refine ⟨.node c.cache cs', ?_, ?_⟩
    · rw [marshalP, hk, encode]
    · rw [CachesSound]; exact ⟨h.1, hs⟩
theorem marshalKids_sound (lim : Nat) : ∀ (ts : Ts) (cs : Cs), SoundKids ts cs →
    ∃ cs', marshalKids lim ts cs = .ok (cs', encodeKids ts) ∧ SoundKids ts cs'
  | .nil, _, _ => ⟨.nil, by rw [marshalKids, encodeKids], by rw [SoundKids]; trivial⟩
  | .cons tag t tl, cs, h => by
    rw [SoundKids] at h
    obtain ⟨hsz, hsnd⟩ := sizeP_true_sound lim t cs.head h.1
    obtain ⟨c1, hm, hs1⟩ := marshalP_sound lim t _ hsnd
    obtain ⟨tl', hr, hs2⟩ := marshalKids_sound lim tl cs.tail h.2
    refine ⟨.cons c1 tl', ?_, ?_⟩
    · rw [marshalKids]
      rw [hm]
      simp only [hsz, ne_eq, not_true_eq_false, if_false]
      rw [hr, encodeKids]
    · rw [SoundKids]; exact ⟨hs1, hs2⟩
end

/-! ### `proto.Marshal`, `proto.Size`, `UseCachedSize` -/

/-- **`proto.Marshal` is correct from ANY state**: whatever the caches hold (after any history),
the result is the encoding of the current content, and the caches are fresh afterwards -/
theorem marshal_correct (lim : Nat) (t : T) (c : C) :
    marshal lim t c = .ok (freshC lim t, encode t) := by
  unfold marshal
  have hf := sizePass_fresh lim t c
  rw [marshalCached_correct lim t _ hf, hf]

/-- documented usage of `UseCachedSize`: `Size` then `Marshal{UseCachedSize}` with no mutation in
between -/
theorem size_then_marshalUC (lim : Nat) (t : T) (c : C) :
    marshalUC lim t (sizeSlow lim t c).1 = .ok (freshC lim t, encode t) := by
  unfold marshalUC sizeCached sizeSlow
  rw [sizeP_false, sizeP_true_fresh]
  exact marshalP_fresh lim t

/-- `Marshal{UseCachedSize}` is correct whenever all valid caches are current -/
theorem marshalUC_sound (lim : Nat) (t : T) (c : C) (h : CachesSound t c) :
    ∃ c', marshalUC lim t c = .ok (c', encode t) := by
  unfold marshalUC sizeCached marshalCached
  obtain ⟨c', hm, _⟩ := marshalP_sound lim t _ (sizeP_true_sound lim t c h).2
  exact ⟨c', hm⟩

/-- and on ANY caches it never returns stale bytes: it either fails or is right -/
theorem marshalUC_any (lim : Nat) (t : T) (c c' : C) (bs : List Byte)
    (h : marshalUC lim t c = .ok (c', bs)) : bs = encode t :=
  marshalP_any lim t _ c' bs h

/-- … but WITHOUT the size pass it can fail on a stale tree: the child's payload was changed from
one byte to two after its size (1) was cached.  `proto.Marshal` on the same state is right. -/
theorem marshalUC_stale_fails :
    let t : T := .node [] (.cons [0x0A#8] (.node [0x08#8, 0x01#8] .nil) .nil)
    let c : C := .node 0 (.cons (.node 2 .nil) .nil)
    marshalUC maxSizeCached t c = .error (.mismatch 1 2) ∧
    marshal maxSizeCached t c = .ok (freshC maxSizeCached t, [0x0A#8, 0x02#8, 0x08#8, 0x01#8]) := by
  decide +kernel

/-- the overflow escape on a small limit: the child (size 2 > lim = 1) gets the invalid word `0`,
the marshal pass recomputes its size, the output is right -/
example :
    let t : T := .node [] (.cons [0x0A#8] (.node [0x08#8, 0x01#8] .nil) .nil)
    freshC 1 t = .node 0 (.cons (.node 0 .nil) .nil) ∧
    marshal 1 t (.node 7 (.cons (.node 9 .nil) .nil)) = .ok (freshC 1 t, [0x0A#8, 0x02#8, 0x08#8, 0x01#8]) := by
  decide +kernel

/-! ### histories -/

/-- a marshal result recorded in a history is current -/
def Current (p : T × Bool × Except MErr (List Byte)) : Prop :=
  (p.2.1 = false → p.2.2 = .ok (encode p.1)) ∧ (∀ bs, p.2.2 = .ok bs → bs = encode p.1)

theorem step_current (lim : Nat) (s : St) (op : Op) (h : ∀ p ∈ s.out, Current p) :
    ∀ p ∈ (step lim s op).out, Current p := by
  cases op with
  | mutate p own => exact h
  | replace t c => exact h
  | size => exact h
  | marshal =>
    intro p hp
    rw [step, marshal_correct] at hp
    simp only [List.mem_append, List.mem_singleton] at hp
    rcases hp with hp | rfl
    · exact h p hp
    · exact ⟨fun _ => rfl, fun bs hb => by cases hb; rfl⟩
  | marshalUC =>
    intro p hp
    rw [step] at hp
    split at hp
    · rename_i c' bs hm
      simp only [List.mem_append, List.mem_singleton] at hp
      rcases hp with hp | rfl
      · exact h p hp
      · exact ⟨fun hf => (by cases hf), fun bs' hb => by cases hb; exact marshalUC_any lim _ _ _ _ hm⟩
    · rename_i e hm
      simp only [List.mem_append, List.mem_singleton] at hp
      rcases hp with hp | rfl
      · exact h p hp
      · exact ⟨fun hf => (by cases hf), fun bs' hb => by cases hb⟩

/-- **C16 main theorem**: for any interleaving of mutations (which never touch a cache), arbitrary
replacements of content and cache words, `Size`, `Marshal` and `Marshal{UseCachedSize}` calls,
starting from any content and any caches: every `proto.Marshal` result is the encoding of the
content at the time of the call, and a `Marshal{UseCachedSize}` result, if it is not the
size-mismatch error, is too -/
theorem marshal_current (lim : Nat) (ops : List Op) (t : T) (c : C) :
    ∀ p ∈ (run lim ⟨t, c, []⟩ ops).out, Current p := by
  suffices ∀ (ops : List Op) (s : St), (∀ p ∈ s.out, Current p) → ∀ p ∈ (run lim s ops).out, Current p from
    this ops _ (by intro p hp; cases hp)
  intro ops
  induction ops with
  | nil => intro s h; exact h
  | cons op tl ih => intro s h; exact ih _ (step_current lim s op h)

/-- mutations do not touch the caches; `Size`/`Marshal` do not touch the content -/
theorem mutate_keeps_caches (lim : Nat) (s : St) (p : List Nat) (own : List Byte) :
    (step lim s (.mutate p own)).c = s.c := rfl
theorem size_keeps_content (lim : Nat) (s : St) : (step lim s .size).t = s.t := rfl
theorem marshal_keeps_content (lim : Nat) (s : St) : (step lim s .marshal).t = s.t := by
  rw [step, marshal_correct]

/-- a history exercising a stale cache: size, mutate the child, marshal -/
example :
    let t : T := .node [0x18#8, 0x05#8] (.cons [0x0A#8] (.node [0x08#8, 0x01#8] .nil) .nil)
    (run maxSizeCached ⟨t, .node 0 .nil, []⟩
      [.size, .mutate [0] [0x08#8, 0xAC#8, 0x02#8], .marshal]).out.map (·.2.2) =
      [.ok [0x18#8, 0x05#8, 0x0A#8, 0x03#8, 0x08#8, 0xAC#8, 0x02#8]] := by
  decide +kernel

end C16
