import PbVerif.Props.C07
import PbVerif.Props.C03
import PbVerif.Lemmas.MsgAlgFuel
import PbVerif.Lemmas.MsgAlgRound
/-
C07, second part — merge and decoding: the decoder is a left fold over the records of its input
(`decode_append`), and merging `b` into `a` is decoding the encoding of `b` into `a`
(`merge_eq_decode_encode`, full strength: any destination), hence
`merge a b = decode (encode a ++ encode b)` (`merge_eq_decode_concat`).
-/
namespace C07
open Pb Spec

/-- `x` is a sequence of complete wire records (tag + value, framed as `protowire.ConsumeField`
frames them; the group-nesting budget is `protowire.DefaultRecursionLimit`) -/
inductive Records : List Byte → Prop
  | nil : Records []
  | cons {b : List Byte} {num wt tl k : Nat} : decTag b = .ok (num, wt, tl) →
      consumeFieldValue num wt (b.drop tl) = .ok k → Records ((b.drop tl).drop k) → Records b

theorem decTag_ne_nil {b : List Byte} {r : Nat × Nat × Nat} (h : decTag b = .ok r) : b ≠ [] := by
  intro e
  subst e
  simp [decTag, decVarint, decVarintAux] at h

/-- the record loop on `x ++ y`, for a sequence `x` of complete records: first `x`, then `y` -/
theorem decMsg_append (S : Schema) (mi : Nat) (depth : Int) (dis : Bool) {x : List Byte} (hx : Records x) :
    ∀ (y : List Byte) (F : Nat) (m : Msg), (x ++ y).length + 2 ≤ F →
      decMsg F S mi m (x ++ y) depth dis =
        (decMsg F S mi m x depth dis).bind (fun m' => decMsg F S mi m' y depth dis) := by
  induction hx with
  | nil =>
    intro y F m hF
    cases F with
    | zero => omega
    | succ F' => rw [List.nil_append, decMsg.eq_2]; rfl
  | @cons b num wt tl k hT hC _ ih =>
    intro y F m hF
    have hbne := decTag_ne_nil hT
    have hl := decTag_len hT
    have hk := consumeFieldValue_le hC
    rw [List.length_drop] at hk
    cases F with
    | zero => omega
    | succ F' =>
      have hbyne : b ++ y ≠ [] := by
        intro e; exact hbne (List.append_eq_nil_iff.mp e).1
      rw [decMsg.eq_3 _ _ _ _ _ _ _ (fun e => hbyne e), decMsg.eq_3 _ _ _ _ _ _ _ (fun e => hbne e),
        decTag_ext y hT, hT]
      simp only
      by_cases hmax : num > maxValidNumber
      · simp only [hmax, if_true]; rfl
      · simp only [hmax, if_false]
        have hdrop : List.drop tl (b ++ y) = List.drop tl b ++ y := List.drop_append_of_le_length hl.2
        have hdrop2 : List.drop k (List.drop tl b ++ y) = List.drop k (List.drop tl b) ++ y :=
          List.drop_append_of_le_length (by rw [List.length_drop]; exact hk)
        have htake : List.take (tl + k) (b ++ y) = List.take (tl + k) b :=
          List.take_append_of_le_length (by omega)
        have hlen : (List.drop k (List.drop tl b) ++ y).length + 2 ≤ F' := by
          simp only [List.length_append, List.length_drop] at hF ⊢; omega
        have hy : ∀ m'', decMsg F' S mi m'' y depth dis = decMsg (F' + 1) S mi m'' y depth dis := by
          intro m''
          refine (algFuelStep F').1 S mi m'' y depth dis ?_
          simp only [List.length_append] at hF
          have : 1 ≤ b.length := by omega
          omega
        rw [hdrop, consumeFieldValue_ext y hC, hC]
        cases hfind : (S.msg mi).find num with
        | none =>
          simp only [hdrop2, htake]
          rw [ih y F' _ hlen]
          simp only [hy]
        | some f =>
          have hnum := MsgD.find_num hfind
          simp only
          rw [decField_ext S mi m f wt _ y depth dis (by rw [hnum]; exact hC)]
          cases decField F' S mi m f wt (List.drop tl b) depth dis with
          | err e => rfl
          | ok m' =>
            simp only [hdrop2]
            rw [ih y F' _ hlen]
            simp only [hy]
          | unknown =>
            simp only [hdrop2, htake]
            rw [ih y F' _ hlen]
            simp only [hy]

/-- **decode_append**: unmarshalling (with merge semantics) the concatenation `x ++ y`, where `x` is
a sequence of complete records, is unmarshalling `x` and then unmarshalling `y` into the result —
for all schemas, destinations, recursion limits and both `DiscardUnknown` modes, with the model's
own fuel (`fuelFor`), including all error outcomes -/
theorem decode_append (S : Schema) (mi : Nat) (m : Msg) (x y : List Byte) (limit : Int) (dis : Bool)
    (hx : Records x) :
    unmarshalInto S mi m (x ++ y) limit dis =
      (unmarshalInto S mi m x limit dis) >>= fun m' => unmarshalInto S mi m' y limit dis := by
  unfold unmarshalInto
  by_cases hl : limit - 1 < 0
  · simp only [hl, if_true]; rfl
  · simp only [hl, if_false]
    rw [decMsg_append S mi (limit - 1) dis hx y (Pb.fuelFor (x ++ y)) m (Nat.le_refl _)]
    have e1 : decMsg (Pb.fuelFor (x ++ y)) S mi m x (limit - 1) dis =
        decMsg (Pb.fuelFor x) S mi m x (limit - 1) dis :=
      decMsg_fuel_eq S mi m x (limit - 1) dis
        (by unfold Pb.fuelFor; simp only [List.length_append]; omega) (Nat.le_refl _)
    rw [e1]
    cases decMsg (Pb.fuelFor x) S mi m x (limit - 1) dis with
    | error e => rfl
    | ok m' =>
      show decMsg (Pb.fuelFor (x ++ y)) S mi m' y (limit - 1) dis = decMsg (Pb.fuelFor y) S mi m' y (limit - 1) dis
      exact decMsg_fuel_eq S mi m' y (limit - 1) dis
        (by unfold Pb.fuelFor; simp only [List.length_append]; omega) (Nat.le_refl _)

/-- whatever decodes successfully is a sequence of complete records -/
theorem records_of_decMsg (S : Schema) (mi : Nat) (depth : Int) (dis : Bool) :
    ∀ (F : Nat) (m R : Msg) (x : List Byte), decMsg F S mi m x depth dis = .ok R → Records x
  | 0, _, _, _, h => by rw [decMsg.eq_1] at h; cases h
  | F + 1, m, R, x, h => by
    cases x with
    | nil => exact .nil
    | cons y t =>
      rw [decMsg.eq_3 _ _ _ _ _ _ _ (by intro e; cases e)] at h
      cases hT : decTag (y :: t) with
      | error e => rw [hT] at h; cases h
      | ok r =>
        obtain ⟨num, wt, tl⟩ := r
        rw [hT] at h
        simp only at h
        by_cases hmax : num > maxValidNumber
        · simp only [hmax, if_true] at h; cases h
        · simp only [hmax, if_false] at h
          cases hC : consumeFieldValue num wt (List.drop tl (y :: t)) with
          | error e =>
            rw [hC] at h
            split at h <;> cases h
          | ok k =>
            rw [hC] at h
            refine .cons hT hC ?_
            split at h
            · cases h
            · exact records_of_decMsg S mi depth dis F _ R _ h
            · exact records_of_decMsg S mi depth dis F _ R _ h

theorem records_of_unmarshal (S : Schema) (mi : Nat) (m R : Msg) (x : List Byte) (limit : Int) (dis : Bool)
    (h : unmarshalInto S mi m x limit dis = .ok R) : Records x := by
  unfold unmarshalInto at h
  split at h
  · cases h
  · exact records_of_decMsg S mi _ dis _ m R x h

/-- two complete records (field 1 varint 1, field 2 bytes "a") -/
example : Records [0x08#8, 0x01#8, 0x12#8, 0x01#8, 0x61#8] :=
  .cons (num := 1) (wt := 0) (tl := 1) (k := 1) rfl rfl
    (.cons (num := 2) (wt := 2) (tl := 1) (k := 2) rfl rfl .nil)

/-! ### merge = decode ∘ encode

`WF` (Lemmas/MsgWF.lean, the round-trip well-formedness of C03: canonical scalars, sizes < 2^64,
ascending order, declared numbers, …) and `pwfMsg` (map entries, read as messages of the entry
type, obey the presence discipline of the entry descriptor) are both needed: for a schema whose
entry key field is declared with implicit presence, `mergeMsg` deep-copies the entry *as a
message* and drops a zero key, while the decoder always materialises key and value —
`merge_needs_entry_presence`. -/

/-- **merge_eq_decode_encode (full strength)**: for every schema (cyclic ones, groups, maps, oneofs,
packed lists, unknown fields included), every well-formed source `b` and EVERY destination `a`
(any message value whatsoever): unmarshalling the encoding of `b` into `a` with merge semantics
gives exactly `mergeMsg a b` -/
theorem merge_eq_decode_encode (S : Schema) (mi : Nat) (a b : Msg) (limit : Int)
    (hb : WF S mi b) (hw : pwfMsg S mi b = true) (hd : depthOK b limit) :
    unmarshalInto S mi a (encMsg S mi b) limit false = .ok (mergeMsg S mi a b) := by
  unfold unmarshalInto
  have hpos := depthMsg_pos b
  unfold depthOK at hd
  have : ¬ limit - 1 < 0 := by omega
  simp only [this, if_false]
  exact mergeRound S b mi defaultRecursionLimit (limit - 1) a (Int.le_refl _) hb hw (by omega)
    (Pb.fuelFor (encMsg S mi b)) (Nat.le_refl _)

example : WF C03.Example.S 0 C03.Example.M ∧ pwfMsg C03.Example.S 0 C03.Example.M = true ∧
    depthOK C03.Example.M 3 := by
  decide +kernel

/-- hence `Merge(a, b)` is `Equal` (indeed identical) to unmarshalling `Marshal(a) ‖ Marshal(b)`
into a fresh message, for well-formed `a` and `b` -/
theorem merge_eq_decode_concat (S : Schema) (mi : Nat) (a b : Msg) (limit : Int)
    (ha : WF S mi a) (hda : depthOK a limit)
    (hb : WF S mi b) (hw : pwfMsg S mi b = true) (hdb : depthOK b limit) :
    unmarshal S mi (encMsg S mi a ++ encMsg S mi b) limit false = .ok (mergeMsg S mi a b) := by
  have h1 : unmarshalInto S mi Msg.empty (encMsg S mi a) limit false = .ok a :=
    C03.decode_encode S mi a limit ha hda
  unfold unmarshal
  rw [decode_append S mi Msg.empty _ _ limit false (records_of_unmarshal S mi _ _ _ limit false h1), h1]
  exact merge_eq_decode_encode S mi a b limit hb hw hdb

/-- `UnmarshalOptions{Merge:true}.Unmarshal(Marshal(b), a)` is `Merge(a, Unmarshal(Marshal(b)))` -/
theorem unmarshalMerge_eq_merge_decode (S : Schema) (mi : Nat) (a b : Msg) (limit : Int)
    (hb : WF S mi b) (hw : pwfMsg S mi b = true) (hd : depthOK b limit) :
    unmarshalInto S mi a (encMsg S mi b) limit false =
      (unmarshal S mi (encMsg S mi b) limit false).map (mergeMsg S mi a) := by
  rw [merge_eq_decode_encode S mi a b limit hb hw hd, C03.decode_encode S mi b limit hb hd]
  rfl

/-- an entry descriptor with an implicit-presence key: merge drops the zero key of the copied entry
(so the result is not even `eqMsg`-equal to the source), the decoder keeps it — outside `pwfMsg`
the model's `mergeMsg` and decoder disagree -/
theorem merge_needs_entry_presence :
    let S : Schema := ⟨[⟨[{ num := 1, kind := .message, card := .map, sub := 1 }]⟩,
                        ⟨[{ num := 1, kind := .int32, card := .implicit },
                          { num := 2, kind := .int32, card := .optional }]⟩]⟩
    let b : Msg := .mk (.cons 1 (.many (.cons (.msg (.mk (.cons 1 (.one (.num 0))
                        (.cons 2 (.one (.num 5)) .nil)) [])) .nil)) .nil) []
    WF S 0 b ∧ pwfMsg S 0 b = false ∧
    (match unmarshalInto S 0 Msg.empty (encMsg S 0 b) 100 false with
     | .ok m => eqMsg S 0 b m
     | .error _ => false) = true ∧
    eqMsg S 0 b (mergeMsg S 0 Msg.empty b) = false := by
  decide +kernel

/-! ### what is NOT true: "Unmarshal(x ‖ y) = Merge(Unmarshal x, Unmarshal y)" for arbitrary `y`

The property text of C07 also claims this, and "UnmarshalOptions{Merge:true} into m equals
Merge(m, Unmarshal(b))".  Both fail — in the model and in the Go implementation (checked with
TestAllTypes: x = oneof_nested_message{a:1}, y = oneof_uint32:5, oneof_nested_message{corecursive:{}};
Unmarshal(x‖y) = {corecursive:{}} but Merge(Unmarshal x, Unmarshal y) = {a:1 corecursive:{}}) — when
`y` sets another member of a oneof and then comes back to a message member: the decoder starts the
second occurrence from a fresh submessage, `Unmarshal(y)` alone forgets the switch.  The true
statements are `decode_append` (sequential decoding) and `merge_eq_decode_encode` (for `y` the
encoding of a well-formed message, which holds at most one member per oneof). -/
theorem concat_ne_merge_of_decodes :
    let S : Schema := ⟨[⟨[{ num := 1, kind := .message, card := .optional, oneof := some 0, sub := 1 },
                         { num := 2, kind := .int32, card := .optional, oneof := some 0 }]⟩,
                        ⟨[{ num := 1, kind := .int32, card := .optional },
                          { num := 2, kind := .int32, card := .optional }]⟩]⟩
    let x : List Byte := [0x0A#8, 0x02#8, 0x08#8, 0x01#8]                        -- 1:{1:1}
    let y : List Byte := [0x10#8, 0x05#8, 0x0A#8, 0x02#8, 0x10#8, 0x02#8]        -- 2:5, 1:{2:2}
    (match unmarshal S 0 (x ++ y), unmarshal S 0 x, unmarshal S 0 y with
     | .ok c, .ok a, .ok b =>
       eqMsg S 0 c (mergeMsg S 0 a b) ||
       (match unmarshalInto S 0 a y 10000 false with
        | .ok r => eqMsg S 0 r (mergeMsg S 0 a b)
        | .error _ => true)
     | _, _, _ => true) = false := by
  decide +kernel

end C07
