import PbVerif.Lemmas.MsgAlgClone
import PbVerif.Lemmas.MsgAlgExamples
/-
C07 — merge laws (model: `Pb.mergeMsg` = proto/merge.go `mergeMessage`) and their relation to
decoding.

`mergeFields` folds the populated fields of the source, in stored order, into the destination;
the effect of one source field is `mergeFVal`.  The clause-by-clause laws are therefore stated
for one source field merged into an ARBITRARY destination field list (`merge_singular`,
`merge_list`, `merge_map`, `merge_oneof`, `merge_submsg`), and the whole-message statement is
`mergeMsg_get?` below.
-/
namespace C07
open Pb
open Spec (Byte)

/-! ### shape of `mergeMsg` (`mergeFields` is the left fold of `Pb.mergeField`, see `Pb.mergeFields_cons`) -/

/-- unknown fields are appended -/
theorem merge_unknown (S : Schema) (mi : Nat) (a b : Msg) :
    (mergeMsg S mi a b).unknown = a.unknown ++ b.unknown := by
  cases a; cases b
  rw [mergeMsg_mk]; rfl

/-- merging the empty message changes nothing — for ALL messages -/
theorem merge_empty_right (S : Schema) (mi : Nat) (m : Msg) : mergeMsg S mi m Msg.empty = m := by
  cases m
  rw [Msg.empty, mergeMsg_mk, mergeFields_nil, List.append_nil]

/-- merging into the empty message is `clone` (by definition) -/
theorem merge_empty_left (S : Schema) (mi : Nat) (m : Msg) : mergeMsg S mi Msg.empty m = clone S mi m := rfl

/-! ### one source field, arbitrary destination -/

/-- **singular scalars**: a populated source scalar overwrites the destination value
(`v` is not a message) -/
theorem merge_singular (S : Schema) (d : MsgD) (f : Field) (dst : Fields) (v : Val)
    (hv : v.isKey = true) (hpop : (f.card = .implicit && v.isZero) = false) :
    mergeFVal S d f dst (.one v) = setSingular d f dst v ∧
    (mergeFVal S d f dst (.one v)).get? f.num = some (.one v) := by
  have h1 : mergeFVal S d f dst (.one v) = setSingular d f dst v := by
    rw [mergeFVal, mergeVal_scalar S d f dst v hv]
  refine ⟨h1, ?_⟩
  rw [h1, get?_setSingular]
  simp [hpop]

/-- every other field of the destination is untouched, except the other members of the oneof -/
theorem merge_singular_other (S : Schema) (d : MsgD) (f : Field) (dst : Fields) (v : Val)
    (j : Nat) (hj : f.num ≠ j) (hoo : oneofOther d f j = false) :
    (mergeFVal S d f dst (.one v)).get? j = dst.get? j := by
  rw [mergeFVal_get?_ne S d f dst _ j hj]
  simp [clearsF, hoo]

/-- **lists** are appended (elements deep-copied) -/
theorem merge_list (S : Schema) (d : MsgD) (f : Field) (dst : Fields) (vs : Vals)
    (hc : f.card ≠ .map) (hne : vs.isNil = false) :
    mergeFVal S d f dst (.many vs) = appendList dst f.num (cloneVals S f vs) ∧
    (mergeFVal S d f dst (.many vs)).get? f.num =
      some (.many ((dst.listAt f.num).append (cloneVals S f vs))) ∧
    ∀ j, f.num ≠ j → (mergeFVal S d f dst (.many vs)).get? j = dst.get? j := by
  have h1 : mergeFVal S d f dst (.many vs) = appendList dst f.num (cloneVals S f vs) := by
    rw [mergeFVal]; simp [hc]
  have hne' : (cloneVals S f vs).isNil = false := by
    cases vs with
    | nil => simp [Vals.isNil] at hne
    | cons v tl => rw [cloneVals]; rfl
  refine ⟨h1, ?_, ?_⟩
  · rw [h1, get?_appendList]; simp [hne']
  · intro j hj
    rw [h1, get?_appendList]; simp [hne', hj]

/-- **oneof**: merging a member of a oneof (scalar or message) clears every other member -/
theorem merge_oneof (S : Schema) (d : MsgD) (f : Field) (dst : Fields) (v : Val)
    (j : Nat) (hj : oneofOther d f j = true) :
    (mergeFVal S d f dst (.one v)).get? j = none := by
  have hne : f.num ≠ j := by
    intro h
    unfold oneofOther at hj
    split at hj
    · rw [← h, otherMember_self] at hj; cases hj
    · cases hj
  rw [mergeFVal_get?_ne S d f dst _ j hne]
  simp [clearsF, hj]

/-- **submessages** are merged recursively into the existing submessage (or a new one) -/
theorem merge_submsg (S : Schema) (d : MsgD) (f : Field) (dst : Fields) (sm : Msg) :
    (mergeFVal S d f dst (.one (.msg sm))).get? f.num =
      some (.one (.msg (mergeMsg S f.sub (dst.subAt f.num) sm))) := by
  rw [mergeFVal, mergeVal_msg, Fields.get?_set]
  simp

/-- **maps**: every source entry is upserted; the stored entry is a deep copy of the *source*
entry — an existing entry with that key is replaced, its message value is NOT merged -/
theorem merge_map (S : Schema) (d : MsgD) (f : Field) (dst : Fields) (vs : Vals) (hc : f.card = .map) :
    mergeFVal S d f dst (.many vs) =
      (if (mergeMapVals S f.sub (dst.listAt f.num) vs).isNil then dst
       else dst.set f.num (.many (mergeMapVals S f.sub (dst.listAt f.num) vs))) := by
  rw [mergeFVal]; simp only [hc, if_true]; rfl

/-- `mapPut` is a finite-map update: the entry stored under `k` afterwards is exactly `e` -/
theorem merge_map_put (vs : Vals) (k : Val) (e : Msg) (hk : entryHasKey e k = true) (k' : Val) :
    lookupEntry (mapPut vs k e) k' = if valBEq k' k then some e else lookupEntry vs k' :=
  lookupEntry_mapPut vs k e hk k'

/-- the map after merging the source entries `vs`: under every source key the deep copy of the
source entry (whatever the destination held), under every other key the destination entry -/
theorem merge_map_lookup (S : Schema) (ei : Nat) (vs dst : Vals) (h : pwfEntries S ei vs = true) (k : Val) :
    lookupEntry (mergeMapVals S ei dst vs) k =
      match lookupEntry vs k with
      | some e => some (clone S ei e)
      | none => lookupEntry dst k :=
  lookupEntry_mergeMapVals S ei vs dst (entriesOK_of_pwf h) k

/-! ### the whole message -/

/-- **whole-message merge law** — for every destination `a` and every source `b` with distinct field
numbers and at most one populated member per oneof (`mergeOK`): field `j` of `mergeMsg a b` is
the source value merged into the destination value by the single-field laws above when `b`
populates `j`; otherwise it is `a`'s value, unless `b` populates another member of `j`'s oneof. -/
theorem mergeMsg_get? (S : Schema) (mi : Nat) (a b : Msg) (hb : mergeOK (S.msg mi) b.fields = true) (j : Nat) :
    (mergeMsg S mi a b).fields.get? j =
      match b.fields.get? j, (S.msg mi).find j with
      | some fv, some f => (mergeFVal S (S.msg mi) f a.fields fv).get? j
      | _, _ => if clearedBy (S.msg mi) b.fields j then none else a.fields.get? j := by
  cases a; cases b
  rw [mergeMsg_mk]
  exact mergeFields_get? S _ _ _ hb j

example : mergeOK (Ex.S0.msg 0) Ex.m0.fields = true := by decide

/-- merge keeps the destination's fields in ascending order (the order `Fields.set` maintains) -/
theorem mergeMsg_sorted (S : Schema) (mi : Nat) (a b : Msg) (ha : a.fields.Sorted) :
    (mergeMsg S mi a b).fields.Sorted := by
  cases a; cases b
  rw [mergeMsg_mk]
  exact sorted_mergeFields S _ _ _ ha

/-! ### merging into the empty message: `clone m = m` -/

mutual
/-- `mergeMsg empty m = m` for every populated well-formed message stored in ascending field order
(`sortedMsg`: the order in which the decoder and `Fields.set` build messages) -/
theorem clone_eq_self (S : Schema) : ∀ (m : Msg) (mi : Nat), pwfMsg S mi m = true → sortedMsg m = true →
    clone S mi m = m
  | .mk fs unk, mi, hw, hs => by
    rw [pwfMsg] at hw
    rw [sortedMsg, Bool.and_eq_true] at hs
    unfold clone
    rw [Msg.empty, mergeMsg_mk, List.nil_append]
    congr 1
    apply Fields.ext_sorted (sorted_mergeFields S _ fs .nil Fields.sorted_nil) (ascNums_pairwise hs.1)
    intro j
    rw [get?_cloneFields S _ fs hw j]
    cases hg : fs.get? j with
    | none => rfl
    | some fv =>
      obtain ⟨f, hf, _⟩ := pwfFields_get hw hg
      simp only [hf]
      rw [cloneFields_eq S fs _ hw hs.2 j fv f hg hf]
theorem cloneFields_eq (S : Schema) : ∀ (fs : Fields) (d : MsgD), pwfFields S d fs = true →
    sortedFields fs = true → ∀ j fv f, fs.get? j = some fv → d.find j = some f → cloneFVal S f fv = fv
  | .nil, _, _, _, _, _, _, hg, _ => by simp [Fields.get?] at hg
  | .cons n x tl, d, hw, hs, j, fv, f, hg, hf => by
    rw [pwfFields, Bool.and_eq_true, Bool.and_eq_true, Bool.and_eq_true] at hw
    rw [sortedFields, Bool.and_eq_true] at hs
    rw [Fields.get?_cons] at hg
    split at hg
    · rename_i hn
      subst hn
      cases hg
      have h1 := hw.1.1.1
      rw [hf] at h1
      exact cloneFVal_eq S x f h1 hs.1
    · exact cloneFields_eq S tl d hw.2 hs.2 j fv f hg hf
theorem cloneFVal_eq (S : Schema) : ∀ (fv : FVal) (f : Field), pwfFVal S f fv = true →
    sortedFVal fv = true → cloneFVal S f fv = fv
  | .one (.msg sm), f, hw, hs => by
    rw [pwfFVal, Bool.and_eq_true, pwfVal] at hw
    rw [sortedFVal, sortedVal] at hs
    rw [cloneFVal, clone_eq_self S sm f.sub hw.1 hs]
  | .one (.num n), f, _, _ => by rw [cloneFVal]; intro sm h; cases h
  | .one (.bytes b), f, _, _ => by rw [cloneFVal]; intro sm h; cases h
  | .many vs, f, hw, hs => by
    rw [pwfFVal, Bool.and_eq_true] at hw
    rw [sortedFVal] at hs
    rw [cloneFVal]
    by_cases hm : f.card = .map
    · simp only [hm, if_true] at hw ⊢
      rw [mergeMapVals_eq_append S f.sub vs .nil (entriesOK_of_pwf hw.2)
        (cloneEntries_eq S vs f.sub hw.2 hs) (fun _ _ _ => rfl), Vals.nil_append]
    · simp only [hm, if_false] at hw ⊢
      rw [cloneVals_eq S vs f hw.2 hs]
theorem cloneVals_eq (S : Schema) : ∀ (vs : Vals) (f : Field), pwfVals S f vs = true →
    sortedVals vs = true → cloneVals S f vs = vs
  | .nil, _, _, _ => by rw [cloneVals]
  | .cons (.msg m) tl, f, hw, hs => by
    rw [pwfVals, Bool.and_eq_true, pwfVal] at hw
    rw [sortedVals, Bool.and_eq_true, sortedVal] at hs
    rw [cloneVals, cloneVal]
    have : mergeMsg S f.sub Msg.empty m = m := clone_eq_self S m f.sub hw.1 hs.1
    rw [this, cloneVals_eq S tl f hw.2 hs.2]
  | .cons (.num n) tl, f, hw, hs => by
    rw [pwfVals, Bool.and_eq_true] at hw
    rw [sortedVals, Bool.and_eq_true] at hs
    rw [cloneVals, cloneVal, cloneVals_eq S tl f hw.2 hs.2]
    intro m h; cases h
  | .cons (.bytes b) tl, f, hw, hs => by
    rw [pwfVals, Bool.and_eq_true] at hw
    rw [sortedVals, Bool.and_eq_true] at hs
    rw [cloneVals, cloneVal, cloneVals_eq S tl f hw.2 hs.2]
    intro m h; cases h
theorem cloneEntries_eq (S : Schema) : ∀ (vs : Vals) (ei : Nat), pwfEntries S ei vs = true →
    sortedVals vs = true → ∀ e, Val.msg e ∈ vs.toList → clone S ei e = e
  | .nil, _, _, _, _, he => by simp [Vals.toList] at he
  | .cons (.msg e0) tl, ei, hw, hs, e, he => by
    obtain ⟨e', k, hv, _, _, _, hwe, htl⟩ := pwfEntries_cons_msg hw
    cases hv
    rw [sortedVals, Bool.and_eq_true, sortedVal] at hs
    simp only [Vals.toList, List.mem_cons, Val.msg.injEq] at he
    rcases he with rfl | he
    · exact clone_eq_self S e ei hwe hs.1
    · exact cloneEntries_eq S tl ei htl hs.2 e he
  | .cons (.num n) tl, _, hw, _, _, _ => by
    obtain ⟨e', _, hv, _⟩ := pwfEntries_cons_msg hw
    cases hv
  | .cons (.bytes b) tl, _, hw, _, _, _ => by
    obtain ⟨e', _, hv, _⟩ := pwfEntries_cons_msg hw
    cases hv
end

/-- `mergeMsg empty m = m` -/
theorem merge_empty_left_eq (S : Schema) (mi : Nat) (m : Msg) (hw : pwfMsg S mi m = true)
    (hs : sortedMsg m = true) : mergeMsg S mi Msg.empty m = m := clone_eq_self S m mi hw hs

/-- the clone of the example message (stored out of order) is its sorted form, and cloning that is
the identity -/
example : pwfMsg Ex.S0 0 (clone Ex.S0 0 Ex.m0) = true ∧ sortedMsg (clone Ex.S0 0 Ex.m0) = true ∧
    sortedMsg Ex.m0 = false := by decide

end C07
