import PbVerif.Lemmas.MsgAlg
/-
C07 — merge laws (model: `Pb.mergeMsg` = proto/merge.go `mergeMessage`) and their relation to
decoding.

`mergeFields` folds the populated fields of the source, in stored order, into the destination;
the effect of one source field is `mergeFVal`.  The clause-by-clause laws are therefore stated
for one source field merged into an ARBITRARY destination field list (`merge_singular`,
`merge_list`, `merge_map`, `merge_oneof`, `merge_submsg`), and the whole-message statement is
`mergeMsg_get?` below.
-/
namespace C07
open Pb
open Spec (Byte)

/-! ### shape of `mergeMsg` -/

theorem mergeMsg_mk (S : Schema) (mi : Nat) (dfs sfs : Fields) (du su : List Byte) :
    mergeMsg S mi (.mk dfs du) (.mk sfs su) = .mk (mergeFields S (S.msg mi) dfs sfs) (du ++ su) := by
  rw [mergeMsg]

/-- one source field: the field is skipped when the descriptor does not declare it -/
def mergeField (S : Schema) (d : MsgD) (dst : Fields) (num : Nat) (fv : FVal) : Fields :=
  match d.find num with
  | none => dst
  | some f => mergeFVal S d f dst fv

/-- `mergeFields` is the left fold of `mergeField` over the source fields in stored order -/
theorem mergeFields_cons (S : Schema) (d : MsgD) (dst : Fields) (num : Nat) (fv : FVal) (tl : Fields) :
    mergeFields S d dst (.cons num fv tl) = mergeFields S d (mergeField S d dst num fv) tl := by
  rw [mergeFields]; rfl

theorem mergeFields_nil (S : Schema) (d : MsgD) (dst : Fields) : mergeFields S d dst .nil = dst := by
  rw [mergeFields]

/-- unknown fields are appended -/
theorem merge_unknown (S : Schema) (mi : Nat) (a b : Msg) :
    (mergeMsg S mi a b).unknown = a.unknown ++ b.unknown := by
  cases a; cases b
  rw [mergeMsg_mk]; rfl

/-- merging the empty message changes nothing — for ALL messages -/
theorem merge_empty_right (S : Schema) (mi : Nat) (m : Msg) : mergeMsg S mi m Msg.empty = m := by
  cases m
  rw [Msg.empty, mergeMsg_mk, mergeFields_nil, List.append_nil]

/-- merging into the empty message is `clone` (by definition) -/
theorem merge_empty_left (S : Schema) (mi : Nat) (m : Msg) : mergeMsg S mi Msg.empty m = clone S mi m := rfl

/-! ### one source field, arbitrary destination -/

theorem mergeVal_scalar (S : Schema) (d : MsgD) (f : Field) (dst : Fields) (v : Val)
    (hv : v.isKey = true) : mergeVal S d f dst v = setSingular d f dst v := by
  cases v with
  | num n => rw [mergeVal]; intro m h; cases h
  | bytes b => rw [mergeVal]; intro m h; cases h
  | msg m => simp [Val.isKey] at hv

/-- **singular scalars**: a populated source scalar overwrites the destination value
(`v` is not a message) -/
theorem merge_singular (S : Schema) (d : MsgD) (f : Field) (dst : Fields) (v : Val)
    (hv : v.isKey = true) (hpop : (f.card = .implicit && v.isZero) = false) :
    mergeFVal S d f dst (.one v) = setSingular d f dst v ∧
    (mergeFVal S d f dst (.one v)).get? f.num = some (.one v) := by
  have h1 : mergeFVal S d f dst (.one v) = setSingular d f dst v := by
    rw [mergeFVal, mergeVal_scalar S d f dst v hv]
  refine ⟨h1, ?_⟩
  rw [h1, get?_setSingular]
  simp [hpop]

/-- every other field of the destination is untouched, except the other members of the oneof -/
theorem merge_singular_other (S : Schema) (d : MsgD) (f : Field) (dst : Fields) (v : Val)
    (hv : v.isKey = true) (j : Nat) (hj : f.num ≠ j)
    (hoo : ∀ o, f.oneof = some o → d.otherMember o f.num j = false) :
    (mergeFVal S d f dst (.one v)).get? j = dst.get? j := by
  have h1 : mergeFVal S d f dst (.one v) = setSingular d f dst v := by
    rw [mergeFVal, mergeVal_scalar S d f dst v hv]
  rw [h1, get?_setSingular]
  simp only [hj, if_false]
  cases ho : f.oneof with
  | none => simp
  | some o => simp [hoo o ho]

/-- **lists** are appended (elements deep-copied) -/
theorem merge_list (S : Schema) (d : MsgD) (f : Field) (dst : Fields) (vs : Vals)
    (hc : f.card ≠ .map) (hne : vs.isNil = false) :
    mergeFVal S d f dst (.many vs) = appendList dst f.num (cloneVals S f vs) ∧
    (mergeFVal S d f dst (.many vs)).get? f.num =
      some (.many ((dst.listAt f.num).append (cloneVals S f vs))) ∧
    ∀ j, f.num ≠ j → (mergeFVal S d f dst (.many vs)).get? j = dst.get? j := by
  have h1 : mergeFVal S d f dst (.many vs) = appendList dst f.num (cloneVals S f vs) := by
    rw [mergeFVal]; simp [hc]
  have hne' : (cloneVals S f vs).isNil = false := by
    cases vs with
    | nil => simp [Vals.isNil] at hne
    | cons v tl => rw [cloneVals]; rfl
  refine ⟨h1, ?_, ?_⟩
  · rw [h1, get?_appendList]; simp [hne']
  · intro j hj
    rw [h1, get?_appendList]; simp [hne', hj]

/-- **oneof**: merging a member of oneof `o` clears every other member of `o` -/
theorem merge_oneof (S : Schema) (d : MsgD) (f : Field) (dst : Fields) (v : Val) (o : Nat)
    (ho : f.oneof = some o) (j : Nat) (hj : d.otherMember o f.num j = true) :
    (mergeFVal S d f dst (.one v)).get? j = none := by
  have hne : f.num ≠ j := by
    intro h
    unfold MsgD.otherMember at hj
    split at hj
    · simp [h] at hj
    · cases hj
  rw [mergeFVal]
  cases v with
  | num n =>
    rw [mergeVal_scalar _ _ _ _ _ rfl, get?_setSingular]
    simp [hne, ho, hj]
  | bytes b =>
    rw [mergeVal_scalar _ _ _ _ _ rfl, get?_setSingular]
    simp [hne, ho, hj]
  | msg m =>
    rw [mergeVal]
    simp only [ho, Fields.get?_set, hne, if_false, Fields.get?_clearOneof, hj, if_true]

theorem subAt_clearOneof (d : MsgD) (o n : Nat) (dst : Fields) :
    (Fields.clearOneof d o n dst).subAt n = dst.subAt n := by
  unfold Fields.subAt
  rw [Fields.get?_clearOneof]
  have : d.otherMember o n n = false := by
    unfold MsgD.otherMember
    split <;> simp
  simp [this]

theorem mergeVal_msg (S : Schema) (d : MsgD) (f : Field) (dst : Fields) (sm : Msg) :
    mergeVal S d f dst (.msg sm) =
      (match f.oneof with
       | some o => Fields.clearOneof d o f.num dst
       | none => dst).set f.num (.one (.msg (mergeMsg S f.sub (dst.subAt f.num) sm))) := by
  rw [mergeVal]
  cases ho : f.oneof with
  | none => rfl
  | some o =>
    simp only
    rw [← subAt_clearOneof d o f.num dst]
    rfl

/-- **submessages** are merged recursively into the existing submessage (or a new one) -/
theorem merge_submsg (S : Schema) (d : MsgD) (f : Field) (dst : Fields) (sm : Msg) :
    (mergeFVal S d f dst (.one (.msg sm))).get? f.num =
      some (.one (.msg (mergeMsg S f.sub (dst.subAt f.num) sm))) := by
  rw [mergeFVal, mergeVal_msg, Fields.get?_set]
  simp

/-- **maps**: every source entry is upserted; the stored entry is a deep copy of the *source*
entry — an existing entry with that key is replaced, its message value is NOT merged -/
theorem merge_map (S : Schema) (d : MsgD) (f : Field) (dst : Fields) (vs : Vals) (hc : f.card = .map) :
    mergeFVal S d f dst (.many vs) =
      (if (mergeMapVals S f.sub (dst.listAt f.num) vs).isNil then dst
       else dst.set f.num (.many (mergeMapVals S f.sub (dst.listAt f.num) vs))) := by
  rw [mergeFVal]; simp only [hc, if_true]; rfl

theorem mergeMapVals_cons_msg (S : Schema) (ei : Nat) (dst : Vals) (e : Msg) (tl : Vals) (k : Val)
    (hk : entryKey e = some k) :
    mergeMapVals S ei dst (.cons (.msg e) tl) =
      mergeMapVals S ei (mapPut dst k (clone S ei e)) tl := by
  rw [mergeMapVals, mergeMapVal]
  simp only [hk]
  rfl

end C07
