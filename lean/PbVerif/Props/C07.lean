import PbVerif.Lemmas.MsgAlgClone
import PbVerif.Lemmas.MsgAlgExamples
/-
C07 — merge laws (model: `Pb.mergeMsg` = proto/merge.go `mergeMessage`) and their relation to
decoding.

`mergeFields` folds the populated fields of the source, in stored order, into the destination;
the effect of one source field is `mergeFVal`.  The clause-by-clause laws are therefore stated
for one source field merged into an ARBITRARY destination field list (`merge_singular`,
`merge_list`, `merge_map`, `merge_oneof`, `merge_submsg`), and the whole-message statement is
`mergeMsg_get?` below.
-/
namespace C07
open Pb
open Spec (Byte)

/-! ### shape of `mergeMsg` (`mergeFields` is the left fold of `Pb.mergeField`, see `Pb.mergeFields_cons`) -/

/-- unknown fields are appended -/
theorem merge_unknown (S : Schema) (mi : Nat) (a b : Msg) :
    (mergeMsg S mi a b).unknown = a.unknown ++ b.unknown := by
  cases a; cases b
  rw [mergeMsg_mk]; rfl

/-- merging the empty message changes nothing — for ALL messages -/
theorem merge_empty_right (S : Schema) (mi : Nat) (m : Msg) : mergeMsg S mi m Msg.empty = m := by
  cases m
  rw [Msg.empty, mergeMsg_mk, mergeFields_nil, List.append_nil]

/-- merging into the empty message is `clone` (by definition) -/
theorem merge_empty_left (S : Schema) (mi : Nat) (m : Msg) : mergeMsg S mi Msg.empty m = clone S mi m := rfl

/-! ### one source field, arbitrary destination -/

/-- **singular scalars**: a populated source scalar overwrites the destination value
(`v` is not a message) -/
theorem merge_singular (S : Schema) (d : MsgD) (f : Field) (dst : Fields) (v : Val)
    (hv : v.isKey = true) (hpop : (f.card = .implicit && v.isZero) = false) :
    mergeFVal S d f dst (.one v) = setSingular d f dst v ∧
    (mergeFVal S d f dst (.one v)).get? f.num = some (.one v) := by
  have h1 : mergeFVal S d f dst (.one v) = setSingular d f dst v := by
    rw [mergeFVal, mergeVal_scalar S d f dst v hv]
  refine ⟨h1, ?_⟩
  rw [h1, get?_setSingular]
  simp [hpop]

/-- every other field of the destination is untouched, except the other members of the oneof -/
theorem merge_singular_other (S : Schema) (d : MsgD) (f : Field) (dst : Fields) (v : Val)
    (j : Nat) (hj : f.num ≠ j) (hoo : oneofOther d f j = false) :
    (mergeFVal S d f dst (.one v)).get? j = dst.get? j := by
  rw [mergeFVal_get?_ne S d f dst _ j hj]
  simp [clearsF, hoo]

/-- **lists** are appended (elements deep-copied) -/
theorem merge_list (S : Schema) (d : MsgD) (f : Field) (dst : Fields) (vs : Vals)
    (hc : f.card ≠ .map) (hne : vs.isNil = false) :
    mergeFVal S d f dst (.many vs) = appendList dst f.num (cloneVals S f vs) ∧
    (mergeFVal S d f dst (.many vs)).get? f.num =
      some (.many ((dst.listAt f.num).append (cloneVals S f vs))) ∧
    ∀ j, f.num ≠ j → (mergeFVal S d f dst (.many vs)).get? j = dst.get? j := by
  have h1 : mergeFVal S d f dst (.many vs) = appendList dst f.num (cloneVals S f vs) := by
    rw [mergeFVal]; simp [hc]
  have hne' : (cloneVals S f vs).isNil = false := by
    cases vs with
    | nil => simp [Vals.isNil] at hne
    | cons v tl => rw [cloneVals]; rfl
  refine ⟨h1, ?_, ?_⟩
  · rw [h1, get?_appendList]; simp [hne']
  · intro j hj
    rw [h1, get?_appendList]; simp [hne', hj]

/-- **oneof**: merging a member of a oneof (scalar or message) clears every other member -/
theorem merge_oneof (S : Schema) (d : MsgD) (f : Field) (dst : Fields) (v : Val)
    (j : Nat) (hj : oneofOther d f j = true) :
    (mergeFVal S d f dst (.one v)).get? j = none := by
  have hne : f.num ≠ j := by
    intro h
    unfold oneofOther at hj
    split at hj
    · rw [← h, otherMember_self] at hj; cases hj
    · cases hj
  rw [mergeFVal_get?_ne S d f dst _ j hne]
  simp [clearsF, hj]

/-- **submessages** are merged recursively into the existing submessage (or a new one) -/
theorem merge_submsg (S : Schema) (d : MsgD) (f : Field) (dst : Fields) (sm : Msg) :
    (mergeFVal S d f dst (.one (.msg sm))).get? f.num =
      some (.one (.msg (mergeMsg S f.sub (dst.subAt f.num) sm))) := by
  rw [mergeFVal, mergeVal_msg, Fields.get?_set]
  simp

/-- **maps**: every source entry is upserted; the stored entry is a deep copy of the *source*
entry — an existing entry with that key is replaced, its message value is NOT merged -/
theorem merge_map (S : Schema) (d : MsgD) (f : Field) (dst : Fields) (vs : Vals) (hc : f.card = .map) :
    mergeFVal S d f dst (.many vs) =
      (if (mergeMapVals S f.sub (dst.listAt f.num) vs).isNil then dst
       else dst.set f.num (.many (mergeMapVals S f.sub (dst.listAt f.num) vs))) := by
  rw [mergeFVal]; simp only [hc, if_true]; rfl

/-- `mapPut` is a finite-map update: the entry stored under `k` afterwards is exactly `e` -/
theorem merge_map_put (vs : Vals) (k : Val) (e : Msg) (hk : entryHasKey e k = true) (k' : Val) :
    lookupEntry (mapPut vs k e) k' = if valBEq k' k then some e else lookupEntry vs k' :=
  lookupEntry_mapPut vs k e hk k'

/-- the map after merging the source entries `vs`: under every source key the deep copy of the
source entry (whatever the destination held), under every other key the destination entry -/
theorem merge_map_lookup (S : Schema) (ei : Nat) (vs dst : Vals) (h : pwfEntries S ei vs = true) (k : Val) :
    lookupEntry (mergeMapVals S ei dst vs) k =
      match lookupEntry vs k with
      | some e => some (clone S ei e)
      | none => lookupEntry dst k :=
  lookupEntry_mergeMapVals S ei vs dst (entriesOK_of_pwf h) k

/-! ### the whole message -/

/-- **whole-message merge law** — for every destination `a` and every source `b` with distinct field
numbers and at most one populated member per oneof (`mergeOK`): field `j` of `mergeMsg a b` is
the source value merged into the destination value by the single-field laws above when `b`
populates `j`; otherwise it is `a`'s value, unless `b` populates another member of `j`'s oneof. -/
theorem mergeMsg_get? (S : Schema) (mi : Nat) (a b : Msg) (hb : mergeOK (S.msg mi) b.fields = true) (j : Nat) :
    (mergeMsg S mi a b).fields.get? j =
      match b.fields.get? j, (S.msg mi).find j with
      | some fv, some f => (mergeFVal S (S.msg mi) f a.fields fv).get? j
      | _, _ => if clearedBy (S.msg mi) b.fields j then none else a.fields.get? j := by
  cases a; cases b
  rw [mergeMsg_mk]
  exact mergeFields_get? S _ _ _ hb j

example : mergeOK (Ex.S0.msg 0) Ex.m0.fields = true := by decide

/-- merge keeps the destination's fields in ascending order (the order `Fields.set` maintains) -/
theorem mergeMsg_sorted (S : Schema) (mi : Nat) (a b : Msg) (ha : a.fields.Sorted) :
    (mergeMsg S mi a b).fields.Sorted := by
  cases a; cases b
  rw [mergeMsg_mk]
  exact sorted_mergeFields S _ _ _ ha

end C07
