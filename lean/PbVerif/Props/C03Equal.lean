import PbVerif.Props.C03
import PbVerif.Props.C30
/-
C03, corollary through `proto.Equal`: the round trip in terms of `eqMsg`.  Uses reflexivity of
`eqMsg` on well-formed values from Props/C30 (`C30.eqMsg_refl`, stated for the weaker
well-formedness `Pb.wfMsg` of Lemmas/MsgAlg.lean); `C03.cwf_wf` shows that `Pb.WF` implies it.
-/
namespace C03
open Pb Spec

theorem get?_none_of_cwfFields {S : Schema} {d : MsgD} {g : Int} {n : Nat} :
    ∀ (fs : Fields) (lb : Nat), n < lb → cwfFields S d g lb fs = true → fs.get? n = none
  | .nil, _, _, _ => rfl
  | .cons k fv tl, lb, hn, h => by
    simp only [cwfFields, Bool.and_eq_true, decide_eq_true_eq] at h
    have hk : ¬ k = n := by omega
    simp only [Fields.get?, hk, if_false]
    exact get?_none_of_cwfFields tl (k + 1) (by omega) h.2

theorem lookupEntry_none_of_keyFree (k : Val) : ∀ (vs : Vals), keyFree k vs = true → lookupEntry vs k = none
  | .nil, _ => rfl
  | .cons (.msg e) tl, h => by
    simp only [keyFree, Bool.and_eq_true] at h
    simp only [lookupEntry]
    cases hk : entryKey e with
    | none => simp only; exact lookupEntry_none_of_keyFree k tl h.2
    | some k' =>
      have h1 := h.1; simp only [hk, Bool.not_eq_true'] at h1
      simp only [h1, Bool.false_eq_true, if_false]; exact lookupEntry_none_of_keyFree k tl h.2
  | .cons (.num n) tl, h => by
    simp only [keyFree] at h; simp only [lookupEntry]; exact lookupEntry_none_of_keyFree k tl h
  | .cons (.bytes b) tl, h => by
    simp only [keyFree] at h; simp only [lookupEntry]; exact lookupEntry_none_of_keyFree k tl h

/-- the statement transferred: `cwfMsg` (this property's well-formedness) implies `wfMsg` (C30's) -/
def WfImp (S : Schema) (m : Msg) : Prop := ∀ mi g, cwfMsg S mi g m = true → wfMsg S mi m = true

theorem wf_val {S : Schema} {g : Int} {f : Field} {v : Val} (h : cwfVal S g f v = true)
    (IH : ∀ sub, v = .msg sub → WfImp S sub) : wfVal S f v = true := by
  cases v with
  | num n => simp [wfVal]
  | bytes b => simp [wfVal]
  | msg sub =>
    simp only [cwfVal, Bool.and_eq_true] at h
    simp only [wfVal]
    by_cases hg : f.kind = .group
    · simp only [hg, if_true, Bool.and_eq_true] at h; exact IH sub rfl _ _ h.2.2
    · simp only [hg, if_false, Bool.and_eq_true] at h; exact IH sub rfl _ _ h.2.1

theorem wf_vals {S : Schema} {g : Int} {f : Field} : ∀ (vs : Vals), cwfVals S g f vs = true →
    (∀ sub, sizeOf sub < sizeOf vs → WfImp S sub) → wfVals S f vs = true
  | .nil, _, _ => by simp [wfVals]
  | .cons v tl, h, IH => by
    simp only [cwfVals, Bool.and_eq_true] at h
    simp only [wfVals, Bool.and_eq_true]
    refine ⟨wf_val h.1 ?_, wf_vals tl h.2 ?_⟩
    · intro sub hs; subst hs; apply IH; simp; omega
    · intro sub hs; apply IH; simp; omega

theorem wf_entries {S : Schema} {f kf vf : Field}
    (hk : (S.msg f.sub).find 1 = some kf) (hv : (S.msg f.sub).find 2 = some vf) :
    ∀ (vs : Vals), cwfEntries S f kf vf vs = true →
      (∀ sub, sizeOf sub < sizeOf vs → WfImp S sub) → wfEntries S f.sub vs = true
  | .nil, _, _ => by simp [wfEntries]
  | .cons v tl, h, IH => by
    simp only [cwfEntries, Bool.and_eq_true] at h
    obtain ⟨⟨hwe, hkt⟩, hwt⟩ := h
    obtain ⟨key, value, hveq, hks, hvs, hsz⟩ := cwfEntry_inv hwe
    subst hveq
    have hek : entryKey (.mk (.cons 1 (.one key) (.cons 2 (.one value) .nil)) []) = some key := by
      simp [entryKey, Fields.get?]
    simp only [hek] at hkt
    have hkey : key.isKey = true := by cases key <;> simp [wfScalar, Val.isKey] at hks ⊢
    have hvw : wfVal S vf value = true := by
      apply wf_val hvs
      intro sub hs; subst hs; apply IH; simp; omega
    have hkw : wfVal S kf key = true := by cases key <;> simp [wfScalar, wfVal] at hks ⊢
    simp only [wfEntries, wfEntry, hek, hkey, lookupEntry_none_of_keyFree key tl hkt, Bool.and_eq_true]
    refine ⟨⟨by simp, ?_⟩, wf_entries hk hv tl hwt ?_⟩
    · simp [wfMsg, wfFields, hk, hv, wfFVal, hkw, hvw, Fields.get?]
    · intro sub hs; apply IH; simp; omega

theorem wf_fval {S : Schema} {g : Int} {f : Field} {fv : FVal} (h : cwfFVal S g f fv = true)
    (IH : ∀ sub, sizeOf sub < sizeOf fv → WfImp S sub) : wfFVal S f fv = true := by
  cases fv with
  | one v =>
    simp only [cwfFVal, Bool.and_eq_true] at h
    simp only [wfFVal]
    apply wf_val h.1.2
    intro sub hs; subst hs; apply IH; simp; omega
  | many vs =>
    simp only [cwfFVal, Bool.and_eq_true] at h
    have hIH : ∀ sub, sizeOf sub < sizeOf vs → WfImp S sub := by
      intro sub hs; apply IH; simp; omega
    have h2 := h.2
    simp only [wfFVal]
    cases hc : f.card with
    | optional => simp [hc] at h2
    | implicit => simp [hc] at h2
    | required => simp [hc] at h2
    | repeated =>
      simp only [hc, Bool.and_eq_true] at h2
      simp only [reduceCtorEq, if_false]
      exact wf_vals vs h2.1 hIH
    | map =>
      simp only [hc, Bool.and_eq_true] at h2
      simp only [if_true]
      have h3 := h2.2
      split at h3
      · rename_i kf vf hk hv; exact wf_entries hk hv vs h3 hIH
      · simp at h3

theorem wf_fields {S : Schema} {d : MsgD} {g : Int} : ∀ (fs : Fields) (lb : Nat), cwfFields S d g lb fs = true →
    (∀ sub, sizeOf sub < sizeOf fs → WfImp S sub) → wfFields S d fs = true
  | .nil, _, _, _ => by simp [wfFields]
  | .cons n fv tl, lb, h, IH => by
    have h0 := h
    simp only [cwfFields, Bool.and_eq_true, decide_eq_true_eq] at h
    obtain ⟨⟨⟨hl, hmax⟩, hf⟩, htl⟩ := h
    cases hfind : d.find n with
    | none => simp [hfind] at hf
    | some f =>
      simp only [hfind, Bool.and_eq_true] at hf
      simp only [wfFields, hfind, Bool.and_eq_true, Option.isNone_iff_eq_none]
      refine ⟨⟨wf_fval hf.1 ?_, get?_none_of_cwfFields tl (n + 1) (by omega) htl⟩, wf_fields tl (n + 1) htl ?_⟩
      · intro sub hs; apply IH; simp; omega
      · intro sub hs; apply IH; simp; omega

theorem wfImp_all {S : Schema} : ∀ (n : Nat) (m : Msg), sizeOf m ≤ n → WfImp S m
  | 0, m, h => by cases m; simp at h
  | n + 1, .mk fs unk, h => by
    intro mi g hwf
    simp only [cwfMsg, Bool.and_eq_true] at hwf
    simp only [wfMsg]
    apply wf_fields fs 1 hwf.1
    intro sub hs; apply wfImp_all n; simp at h; omega

/-- `Pb.WF` implies the weaker `Pb.wfMsg` under which `eqMsg` is an equivalence (C30) -/
theorem cwf_wf (S : Schema) (mi : Nat) (m : Msg) (h : WF S mi m) : wfMsg S mi m = true :=
  wfImp_all (sizeOf m) m (Nat.le_refl _) mi _ h

/-- **round trip through `proto.Equal`** -/
theorem decode_encode_equal (S : Schema) (mi : Nat) (m : Msg) (limit : Int)
    (hwf : WF S mi m) (hd : depthOK m limit) :
    ∃ m', unmarshal S mi (encMsg S mi m) limit false = .ok m' ∧ eqMsg S mi m m' = true :=
  ⟨m, decode_encode S mi m limit hwf hd, C30.eqMsg_refl S m mi (cwf_wf S mi m hwf)⟩

end C03

#print axioms C03.decode_encode_equal
