import PbVerif.Model.NilMsg
/-
C31 — typed nil messages behave as empty read-only messages.

Model (`Model/NilMsg.lean`): a message reference is `Option Msg`; every read-only entry point has its
own nil branch, written as the Go code guards it.  Theorems: for *every* schema, message index and
content observer the nil branch returns what the observer returns on the empty message
(`observe_nil_eq_empty`); the observers that see the difference are exactly the ones the property
names — `isValid`, `equal` — plus their two renderings in the code: the nil-ness of the buffer
returned by `Marshal` (`emptyBytesForMessage`) and `Format`, which prints `<nil>`.

The clause "Format behaves as on an empty message" of the property statement is false of the code
(`format_not_as_empty`, a documented debugging behaviour; reported as a known finding by the harness).
-/
namespace C31
open Pb Pb.Nil

theorem initMsg_empty (S : Schema) (mi : Nat) :
    initMsg S mi Msg.empty = (S.msg mi).fields.all fun f => f.card ≠ .required := by
  simp [Msg.empty, initMsg, initFields, Fields.get?]

theorem encMsg_empty (S : Schema) (mi : Nat) : encMsg S mi Msg.empty = [] := by
  simp [Msg.empty, encMsg, encFields]

theorem sizeMsg_empty (S : Schema) (mi : Nat) : sizeMsg S mi Msg.empty = 0 := by
  simp [Msg.empty, sizeMsg, sizeFields]

theorem badUtf8_empty (S : Schema) (mi : Nat) : badUtf8Msg S mi Msg.empty = false := by
  simp [Msg.empty, badUtf8Msg, badUtf8Fields]

theorem clone_empty (S : Schema) (mi : Nat) : Pb.clone S mi Msg.empty = Msg.empty := by
  simp [Pb.clone, Msg.empty, mergeMsg, mergeFields]

theorem mergeMsg_empty_src (S : Schema) (mi : Nat) (dst : Msg) : mergeMsg S mi dst Msg.empty = dst := by
  cases dst with
  | mk fs unk => simp [Msg.empty, mergeMsg, mergeFields]

/-- **Typed nil = empty for every content observer**: Marshal (both AllowPartial settings, including the
required-field error), Size, CheckInitialized, Has, Get, Range, WhichOneof, GetUnknown, Merge-from — for all schemas, all message types, all field / oneof numbers, all destinations. -/
theorem observe_nil_eq_empty (S : Schema) (mi : Nat) (o : Obs) :
    observe S mi none o = observe S mi (some Msg.empty) o := by
  cases o with
  | marshal p =>
    simp [observe, marshal, checkInit, encode, badUtf8_empty, initMsg_empty, encMsg_empty]
  | size => simp [observe, size, sizeMsg_empty]
  | checkInit => simp [observe, checkInit, initMsg_empty]
  | has n => simp [observe, has, Msg.empty, Msg.fields, Fields.get?]
  | get n => simp [observe, Nil.get, Msg.empty, Msg.fields, Fields.get?]
  | range => simp [observe, range, Msg.empty, Msg.fields, Fields.nums]
  | whichOneof o => simp [observe, whichOneof, Msg.empty, Msg.fields, whichIn]
  | getUnknown => simp [observe, getUnknown, Msg.empty, Msg.unknown]
  | mergeFrom dst => simp [observe, mergeFrom, mergeMsg_empty_src]

/-- `IsValid` distinguishes the typed nil from the empty message. -/
theorem isValid_distinguishes : isValid none = false ∧ isValid (some Msg.empty) = true := by
  simp [isValid]

/-- `proto.Equal` distinguishes them (in both argument orders), while each is equal to itself. -/
theorem equal_distinguishes (S : Schema) (mi : Nat) :
    equal S mi none (some Msg.empty) = false ∧ equal S mi (some Msg.empty) none = false ∧
    equal S mi none none = true ∧ equal S mi (some Msg.empty) (some Msg.empty) = true := by
  simp [equal, Msg.empty, eqMsg, eqFields, Fields.nums, unknownEq]

/-- `Clone` preserves validity: the clone of a typed nil is a typed nil, of a valid message valid. -/
theorem clone_preserves_validity (S : Schema) (mi : Nat) (r : Ref) :
    isValid (Nil.clone S mi r) = isValid r := by
  cases r <;> simp [Nil.clone, isValid]

/-- `emptyBytesForMessage`: `Marshal` returns a nil buffer for the typed nil and a non-nil empty buffer
for the empty message — the same distinction as `isValid`, nothing else. -/
theorem marshalBuf_nil_iff_invalid (S : Schema) (mi : Nat) :
    marshalBufIsNil S mi none = true ∧ marshalBufIsNil S mi (some Msg.empty) = false := by
  simp [marshalBufIsNil, encode, isValid, encMsg_empty]

/-- the clone of a typed nil (a typed nil) and the clone of the empty message (a valid message) are
again indistinguishable by every content observer. -/
theorem clone_observe (S : Schema) (mi : Nat) (o : Obs) :
    observe S mi (Nil.clone S mi none) o = observe S mi (Nil.clone S mi (some Msg.empty)) o := by
  simpa [Nil.clone, clone_empty] using observe_nil_eq_empty S mi o

/-
Full statement of the property for the `Format` entry points (protojson/prototext `Format`, `String()`):

  theorem format_nil_eq_empty (render) : format render none = format render (some Msg.empty)

It is FALSE of the current code: `Format` returns the literal `<nil>` for an invalid message
(`if m == nil || !m.ProtoReflect().IsValid() { return "<nil>" }`), while the empty message is
rendered as `` (text) or `{}` (JSON).  Proved negation with the concrete witness (the text
rendering of the empty message is the empty string), and the partial statement.
-/
theorem format_not_as_empty :
    ∃ render : Msg → List Char, format render none ≠ format render (some Msg.empty) :=
  ⟨fun _ => [], by simp [format]⟩

/-- what does hold: `Format` of the typed nil is the fixed literal, whatever the type; it coincides
with the rendering of the empty message only for a renderer that prints `<nil>` for it. -/
theorem format_nil_eq_empty_partial (render : Msg → List Char)
    (h : render Msg.empty = ['<', 'n', 'i', 'l', '>']) :
    format render none = format render (some Msg.empty) := by
  simp [format, h]

/-- hypotheses are satisfiable / statements are not vacuous: a schema with a required field, where the
typed nil and the empty message both fail the strict Marshal and both pass the partial one. -/
def exS : Schema := ⟨[⟨[{ num := 1, kind := .int32, card := .required }, { num := 2, kind := .string, card := .optional }]⟩]⟩

example : marshal exS 0 false none = .error .required ∧ marshal exS 0 false (some Msg.empty) = .error .required ∧
    marshal exS 0 true none = .ok [] ∧ checkInit exS 0 none = false := ⟨rfl, rfl, rfl, rfl⟩

/-- the hypothesis of `format_nil_eq_empty_partial` is satisfiable (by a renderer that prints `<nil>` for the
empty message, which neither prototext nor protojson is) -/
example : format (fun _ => ['<', 'n', 'i', 'l', '>']) none = format (fun _ => ['<', 'n', 'i', 'l', '>']) (some Msg.empty) :=
  format_nil_eq_empty_partial _ rfl

end C31
