/-
Model of /repo/encoding/protodelim/protodelim.go  (engine `delim`, property C27).

What is modelled, line by line:

* `MarshalTo`            — `frame body = AppendVarint(nil, uint64(len(body))) ++ body`; the message body is an
                            opaque byte string (the body codec belongs to other properties).
* `UnmarshalFrom`        — the `for i := range sizeArr { r.ReadByte() … }` loop (`sizeLoop`: at most
                            `binary.MaxVarintLen64 = 10` bytes, `io.EOF` at `i = 0` is returned as is, `io.EOF` at
                            `i ≠ 0` leaves the loop, any other reader error is returned unchanged),
                            `protowire.ConsumeVarint(sizeBuf)` (`consumeVarint`: truncated ⇒ `ParseError(-1)` =
                            `io.ErrUnexpectedEOF`, tenth byte ≥ 2 ⇒ `ParseError(-3)` = `errOverflow`),
                            the `MaxSize` ladder (`0` ⇒ `defaultMaxSize = 4<<20`, `-1` ⇒ only `size > math.MaxInt`,
                            otherwise `size > uint64(maxSize)`), and the two body-reading paths:
                            `bufio.Reader.Peek/Discard` and `make([]byte,size)` + `io.ReadFull`.
* the reader             — a *logical* byte stream `s : List Byte` followed by a sticky terminal condition
                            `Term` (`io.EOF` or some other error).  `ReadByte` pops one byte.  `Read(p)` delivers
                            a non-empty chunk whose size is chosen by an oracle (`hints`), at most `len(p)` and
                            at most what is left; `io.ReadFull` is its `ReadAtLeast` loop (`readFullAux`).
                            `bufio.Reader.Peek(n)` is modelled at the level of its documented contract on the
                            logical stream (`peek`): `n > buffer size ⇒ ErrBufferFull`, `n` bytes available ⇒ those
                            bytes, otherwise the reader's error; `Discard(n)` after a successful `Peek(n)`
                            advances by exactly `n`.  bufio's internal read-ahead is not modelled: positions are
                            positions of the logical stream (`underlying consumed − Buffered()`).
* `make([]byte, size)`   — panics ("makeslice: len out of range") when `size > maxAlloc` (`2^48`, the runtime's
                            constant on linux/amd64 and arm64); otherwise memory is assumed to be available.

`unmarshalFromR` is the operational function (reader kind, buffer size, chunk oracle); `unmarshalFrom` is the
same function with the body read replaced by its closed form.  `Props/C27.lean` proves them equal for every
reader kind, buffer size and oracle.  Core Lean only.
-/
namespace Model.Delim
abbrev Byte := BitVec 8

/-! ## varint over `Nat` (`protowire.AppendVarint` / `protowire.ConsumeVarint`) -/

/-- `protowire.AppendVarint(nil, n)` for `n < 2^64` (little-endian base 128, continuation bit `0x80`). -/
def encodeVarint (n : Nat) : List Byte :=
  if n < 128 then [BitVec.ofNat 8 n]
  else BitVec.ofNat 8 (n % 128 + 128) :: encodeVarint (n / 128)
decreasing_by omega

inductive VarintRes
  | ok (v n : Nat)      -- value, number of bytes
  | truncated           -- errCodeTruncated  → io.ErrUnexpectedEOF
  | overflow            -- errCodeOverflow   → errOverflow
  deriving DecidableEq, Repr

/-- `protowire.ConsumeVarint` with `k` bytes still allowed (`k = 10` at the start).  The tenth byte
(`k = 1`) must be `0` or `1` (`y < 2`), otherwise the value does not fit 64 bits: overflow.
No 64-bit wrap-around can occur before that point, so `Nat` arithmetic is exact. -/
def consumeVarintAux : Nat → List Byte → VarintRes
  | _, [] => .truncated
  | 0, _ :: _ => .overflow          -- not reachable from `consumeVarint`: the tenth byte always returns
  | k+1, b :: bs =>
    if k = 0 then (if b.toNat < 2 then .ok b.toNat 1 else .overflow)
    else if b.toNat < 128 then .ok b.toNat 1
    else match consumeVarintAux k bs with
      | .ok v n => .ok (b.toNat - 128 + 128 * v) (n + 1)
      | r => r

def maxVarintLen64 : Nat := 10

def consumeVarint (b : List Byte) : VarintRes := consumeVarintAux maxVarintLen64 b

/-! ## constants and the MaxSize ladder -/

/-- `const defaultMaxSize = 4 << 20` -/
def defaultMaxSize : Nat := 4 * 2^20
/-- `math.MaxInt` on a 64-bit platform -/
def maxInt : Nat := 2^63 - 1
/-- the Go runtime's `maxAlloc` (linux/amd64, arm64): `make([]byte, n)` panics for `n > maxAlloc` -/
def maxAlloc : Nat := 2^48

/-- `uint64(x)` for an `int64` `x` -/
def u64OfInt64 (i : Int) : Nat := (i % 2^64).toNat

/-- the bound `size` is compared with (and that `SizeTooLargeError.MaxSize` reports) -/
def sizeLimit (maxSize : Int) : Nat :=
  let m : Int := if maxSize = 0 then (defaultMaxSize : Int) else maxSize
  if m = -1 then maxInt else u64OfInt64 m

/-- `some limit` when a `SizeTooLargeError{size, limit}` is returned -/
def tooLarge (maxSize : Int) (size : Nat) : Option Nat :=
  if size > sizeLimit maxSize then some (sizeLimit maxSize) else none

/-! ## reader, results -/

/-- what the reader reports once its data is exhausted (assumed sticky) -/
inductive Term
  | eof
  | err (code : Nat)
  deriving DecidableEq, Repr

inductive Result
  | ok (body : List Byte)
  | eof                              -- io.EOF
  | unexpectedEOF                    -- io.ErrUnexpectedEOF
  | sizeTooLarge (size max : Nat)    -- *SizeTooLargeError (wrapped)
  | overflow                         -- protowire errOverflow
  | readerErr (code : Nat)           -- the reader's own error, unchanged
  | panicAlloc (size : Nat)          -- make([]byte, size) panics
  deriving DecidableEq, Repr

/-- the error produced when the data ends *after* at least one byte of the frame was read -/
def Term.short : Term → Result
  | .eof => .unexpectedEOF
  | .err e => .readerErr e

/-- the error produced when the data ends before the first byte -/
def Term.clean : Term → Result
  | .eof => .eof
  | .err e => .readerErr e

/-! ## the size loop -/

inductive SizeRead
  | bytes (sizeBuf rest : List Byte)  -- the loop was left by `break` or ran its ten iterations
  | ret (t : Term)                    -- `return err` from inside the loop (the data is exhausted)
  deriving DecidableEq, Repr

/-- `for i := range sizeArr { b, err := r.ReadByte(); … }` with `k` iterations left; `first` ⇔ `i = 0`. -/
def sizeLoop (t : Term) : Nat → Bool → List Byte → SizeRead
  | 0, _, s => .bytes [] s
  | _+1, first, [] =>
    match t with
    | .eof => if first then .ret .eof else .bytes [] []
    | .err e => .ret (.err e)
  | k+1, _, b :: s =>
    if b.toNat < 128 then .bytes [b] s
    else match sizeLoop t k false s with
      | .bytes bs r => .bytes (b :: bs) r
      | .ret e => .ret e

/-! ## reading the body -/

inductive RF
  | ok (b : List Byte)
  | eof
  | unexpectedEOF
  | err (code : Nat)
  deriving DecidableEq, Repr

/-- what `io.ReadAtLeast` returns when the reader ends after `got` bytes (`got` shorter than requested) -/
def endErr (t : Term) (got : List Byte) : RF :=
  match t with
  | .err e => .err e
  | .eof => if got.isEmpty then .eof else .unexpectedEOF

/-- size of the chunk one `Read(p)` delivers: at least one byte, at most `len(p)` and what is left -/
def chunk (hint need avail : Nat) : Nat := max 1 (min hint (min need avail))

/-- `io.ReadFull(r, buf)` = `ReadAtLeast(r, buf, len(buf))`: `need` bytes are still missing, `got` is what
was read so far.  Every `Read` delivers `chunk` bytes; once the oracle is exhausted the reader delivers
everything it can. -/
def readFullAux (t : Term) (hints : List Nat) (need : Nat) (got s : List Byte) : RF × List Byte :=
  if need = 0 then (.ok got, s)
  else match s with
    | [] => (endErr t got, [])
    | b :: s' =>
      let c := chunk (hints.headD (need + s'.length + 1)) need (s'.length + 1)
      readFullAux t hints.tail (need - c) (got ++ (b :: s').take c) ((b :: s').drop c)
termination_by need
decreasing_by simp only [chunk]; omega

def readFull (t : Term) (hints : List Nat) (n : Nat) (s : List Byte) : RF × List Byte :=
  readFullAux t hints n [] s

inductive PeekRes
  | ok (b : List Byte)
  | fail                -- ErrBufferFull, ErrNegativeCount or the reader's error: `b = nil`
  deriving DecidableEq, Repr

/-- contract of `(*bufio.Reader).Peek(n)` on the logical stream, buffer size `B` -/
def peek (B n : Nat) (s : List Byte) : PeekRes :=
  if n > B then .fail else if n ≤ s.length then .ok (s.take n) else .fail

inductive ReaderKind
  | generic             -- anything that is not a *bufio.Reader: ReadByte + io.ReadFull
  | bufio (B : Nat)     -- *bufio.Reader with buffer size B
  deriving DecidableEq, Repr

/-- `b = make([]byte, size); _, err = io.ReadFull(r, b)` and the error mapping that follows -/
def readBodyFallback (t : Term) (hints : List Nat) (size : Nat) (s : List Byte) : Result × List Byte :=
  if size > maxAlloc then (.panicAlloc size, s)
  else match readFull t hints size s with
    | (.ok b, r) => (.ok b, r)
    | (.eof, r) => (.unexpectedEOF, r)
    | (.unexpectedEOF, r) => (.unexpectedEOF, r)
    | (.err e, r) => (.readerErr e, r)

/-- the body phase as coded.  (`int(size)` is negative only for `size > maxInt`; `Peek` then fails with
ErrNegativeCount, which is the `fail` branch as well since `B ≤ maxAlloc < size`.) -/
def readBodyR (rk : ReaderKind) (t : Term) (hints : List Nat) (size : Nat) (s : List Byte) : Result × List Byte :=
  match rk with
  | .generic => readBodyFallback t hints size s
  | .bufio B =>
    match peek B size s with
    | .ok b => (.ok b, s.drop size)        -- `defer br.Discard(int(size))`
    | .fail => readBodyFallback t hints size s

/-- closed form of the body phase -/
def readBody (t : Term) (size : Nat) (s : List Byte) : Result × List Byte :=
  if size > maxAlloc then (.panicAlloc size, s)
  else if size ≤ s.length then (.ok (s.take size), s.drop size)
  else (t.short, [])

/-! ## UnmarshalFrom -/

/-- everything after the size loop, given how the body is read -/
def afterSize (body : Nat → List Byte → Result × List Byte) (maxSize : Int) (sizeBuf rest : List Byte) :
    Result × List Byte :=
  match consumeVarint sizeBuf with
  | .truncated => (.unexpectedEOF, rest)
  | .overflow => (.overflow, rest)
  | .ok size _ =>
    match tooLarge maxSize size with
    | some mx => (.sizeTooLarge size mx, rest)
    | none => body size rest

def unmarshalWith (body : Nat → List Byte → Result × List Byte) (maxSize : Int) (t : Term) (s : List Byte) :
    Result × List Byte :=
  match sizeLoop t maxVarintLen64 true s with
  | .ret e => (e.clean, [])
  | .bytes sizeBuf rest => afterSize body maxSize sizeBuf rest

/-- `UnmarshalOptions{MaxSize: maxSize}.UnmarshalFrom(r, m)` as coded: result and remaining logical stream. -/
def unmarshalFromR (rk : ReaderKind) (hints : List Nat) (maxSize : Int) (t : Term) (s : List Byte) :
    Result × List Byte :=
  unmarshalWith (readBodyR rk t hints) maxSize t s

/-- the same with the body phase in closed form (no reader kind, no oracle) -/
def unmarshalFrom (maxSize : Int) (t : Term) (s : List Byte) : Result × List Byte :=
  unmarshalWith (readBody t) maxSize t s

/-- the varint of `n` written in exactly `len+1` bytes (`n < 128^(len+1)`): the minimal form when
`len+1 = (encodeVarint n).length`, a non-minimal ("padded") form when it is longer -/
def encFixed : Nat → Nat → List Byte
  | 0, n => [BitVec.ofNat 8 n]
  | len+1, n => BitVec.ofNat 8 (n % 128 + 128) :: encFixed len (n / 128)

/-- `MarshalTo`: size varint, then the body -/
def frame (body : List Byte) : List Byte := encodeVarint body.length ++ body

/-- a sequence of `MarshalTo` calls on one writer -/
def stream (ms : List (List Byte)) : List Byte := (ms.map frame).flatten

/-- repeated `UnmarshalFrom` until the first result that is not `ok`: the bodies read, that result and the
remaining stream.  `none` = out of fuel (never with `readAll`, see `C27.readAll_isSome`). -/
def readAllFuel (maxSize : Int) (t : Term) : Nat → List Byte → Option (List (List Byte) × Result × List Byte)
  | 0, _ => none
  | fuel+1, s =>
    match unmarshalFrom maxSize t s with
    | (.ok b, rest) => (readAllFuel maxSize t fuel rest).map fun (bs, r, rest') => (b :: bs, r, rest')
    | (r, rest) => some ([], r, rest)

def readAll (maxSize : Int) (t : Term) (s : List Byte) : Option (List (List Byte) × Result × List Byte) :=
  readAllFuel maxSize t (s.length + 1) s

end Model.Delim
