/-
Go-faithful executable model of `unicode/utf8` (core Lean only; shared by several engines).

* `decodeRune`  — `utf8.DecodeRune` / `utf8.DecodeRuneInString`: the table driven acceptor
  (`first[256]` + `acceptRanges`).  Returns `(rune, size)`; `(runeError, 0)` for the empty input,
  `(runeError, 1)` for every ill-formed or truncated sequence (Go consumes exactly one byte then).
* `encodeRune`  — `utf8.AppendRune` = the conversion `string(rune)`: surrogates and values above
  `maxRune` are written as U+FFFD.
* `valid`       — `utf8.Valid` / `utf8.ValidString`, phrased as the documented loop over `DecodeRune`.

Bytes are `BitVec 8`, runes are `Nat` (Go's `rune` is `int32`; no function here produces a negative one).

Go's tables, for reference (`unicode/utf8/utf8.go`):
  first byte 00..7F  ASCII (size 1)
             80..C1  invalid
             C2..DF  size 2, second byte 80..BF
             E0      size 3, second byte A0..BF          (no overlong)
             E1..EC  size 3, second byte 80..BF
             ED      size 3, second byte 80..9F          (no surrogates)
             EE..EF  size 3, second byte 80..BF
             F0      size 4, second byte 90..BF          (no overlong)
             F1..F3  size 4, second byte 80..BF
             F4      size 4, second byte 80..8F          (≤ U+10FFFF)
             F5..FF  invalid
  every further continuation byte must be in 80..BF (`locb..hicb`).
  Masks: `p0 & mask2 = p0 % 32`, `p0 & mask3 = p0 % 16`, `p0 & mask4 = p0 % 8`, `b & maskx = b % 64`.
-/
namespace Model.Utf8

abbrev Byte := BitVec 8

/-- `utf8.RuneError` = U+FFFD -/
def runeError : Nat := 0xFFFD
/-- `utf8.MaxRune` -/
def maxRune : Nat := 0x10FFFF
/-- `utf8.RuneSelf` -/
def runeSelf : Nat := 0x80

/-- Unicode scalar value: what `utf8.ValidRune` accepts. -/
def isScalar (r : Nat) : Bool := r < 0xD800 || (0xE000 ≤ r && r ≤ 0x10FFFF)

/-- `acceptRanges[first[c] >> 4].lo` for a leading byte `c` of a multi-byte sequence -/
def acceptLo (c : Nat) : Nat := if c = 0xE0 then 0xA0 else if c = 0xF0 then 0x90 else 0x80
/-- `acceptRanges[first[c] >> 4].hi` -/
def acceptHi (c : Nat) : Nat := if c = 0xED then 0x9F else if c = 0xF4 then 0x8F else 0xBF

/-- second byte accepted after leading byte `c`: `accept.lo ≤ b1 ≤ accept.hi` -/
def accept (c b1 : Nat) : Bool := acceptLo c ≤ b1 && b1 ≤ acceptHi c

/-- continuation byte `locb ≤ b ≤ hicb` -/
def isCont (b : Nat) : Bool := 0x80 ≤ b && b ≤ 0xBF

/-- size-2 tail of `DecodeRune` (leading byte `c` in C2..DF) -/
def decode2 (c : Nat) : List Byte → Nat × Nat
  | b1 :: _ =>
    if isCont b1.toNat then (c % 32 * 64 + b1.toNat % 64, 2) else (runeError, 1)
  | _ => (runeError, 1)

/-- size-3 tail of `DecodeRune` (leading byte `c` in E0..EF) -/
def decode3 (c : Nat) : List Byte → Nat × Nat
  | b1 :: b2 :: _ =>
    if accept c b1.toNat ∧ isCont b2.toNat then
      (c % 16 * 4096 + b1.toNat % 64 * 64 + b2.toNat % 64, 3)
    else (runeError, 1)
  | _ => (runeError, 1)

/-- size-4 tail of `DecodeRune` (leading byte `c` in F0..F4) -/
def decode4 (c : Nat) : List Byte → Nat × Nat
  | b1 :: b2 :: b3 :: _ =>
    if accept c b1.toNat ∧ isCont b2.toNat ∧ isCont b3.toNat then
      (c % 8 * 262144 + b1.toNat % 64 * 4096 + b2.toNat % 64 * 64 + b3.toNat % 64, 4)
    else (runeError, 1)
  | _ => (runeError, 1)

/-- `utf8.DecodeRune(p)`: `(rune, size)`. -/
def decodeRune : List Byte → Nat × Nat
  | [] => (runeError, 0)
  | b0 :: rest =>
    let c := b0.toNat
    if c < 0x80 then (c, 1)
    else if c < 0xC2 then (runeError, 1)
    else if c < 0xE0 then decode2 c rest
    else if c < 0xF0 then decode3 c rest
    else if c < 0xF5 then decode4 c rest
    else (runeError, 1)

/-- The Go idiom `r == utf8.RuneError && n == 1`: the input does not start with a well-formed sequence. -/
def isInvalid (d : Nat × Nat) : Bool := d.1 == runeError && d.2 == 1

/-- `utf8.AppendRune(nil, r)` = `[]byte(string(rune(r)))`. -/
def encodeRune (r : Nat) : List Byte :=
  if r < 0x80 then [BitVec.ofNat 8 r]
  else if r < 0x800 then [BitVec.ofNat 8 (0xC0 + r / 64), BitVec.ofNat 8 (0x80 + r % 64)]
  else if 0x10FFFF < r ∨ (0xD800 ≤ r ∧ r ≤ 0xDFFF) then [0xEF#8, 0xBF#8, 0xBD#8]  -- > MaxRune or surrogate
  else if r < 0x10000 then
    [BitVec.ofNat 8 (0xE0 + r / 4096), BitVec.ofNat 8 (0x80 + r / 64 % 64), BitVec.ofNat 8 (0x80 + r % 64)]
  else
    [BitVec.ofNat 8 (0xF0 + r / 262144), BitVec.ofNat 8 (0x80 + r / 4096 % 64),
     BitVec.ofNat 8 (0x80 + r / 64 % 64), BitVec.ofNat 8 (0x80 + r % 64)]

/-- `utf8.RuneLen` for values that `encodeRune` writes verbatim (3 for the ones replaced by U+FFFD). -/
def runeLen (r : Nat) : Nat := (encodeRune r).length

theorem decode2_size_pos (c : Nat) (p : List Byte) : 1 ≤ (decode2 c p).2 := by
  unfold decode2; split <;> (try split) <;> simp

theorem decode3_size_pos (c : Nat) (p : List Byte) : 1 ≤ (decode3 c p).2 := by
  unfold decode3; split <;> (try split) <;> simp

theorem decode4_size_pos (c : Nat) (p : List Byte) : 1 ≤ (decode4 c p).2 := by
  unfold decode4; split <;> (try split) <;> simp

/-- `DecodeRune` consumes at least one byte of a non-empty input. -/
theorem decodeRune_size_pos (b : Byte) (p : List Byte) : 1 ≤ (decodeRune (b :: p)).2 := by
  simp only [decodeRune]
  split; · simp
  split; · simp
  split; · exact decode2_size_pos _ _
  split; · exact decode3_size_pos _ _
  split; · exact decode4_size_pos _ _
  simp

/-- `utf8.Valid(p)`: every position reached by repeatedly applying `DecodeRune` starts a well-formed
sequence. -/
def valid (p : List Byte) : Bool :=
  match p with
  | [] => true
  | b :: t =>
    if isInvalid (decodeRune (b :: t)) then false
    else valid ((b :: t).drop (decodeRune (b :: t)).2)
termination_by p.length
decreasing_by
  have := decodeRune_size_pos b t
  simp only [List.length_drop, List.length_cons]
  omega

/-- `[]rune(string(p))`: the runes seen by a `range` loop (ill-formed bytes become U+FFFD, width 1). -/
def runes (p : List Byte) : List Nat :=
  match p with
  | [] => []
  | b :: t => (decodeRune (b :: t)).1 :: runes ((b :: t).drop (decodeRune (b :: t)).2)
termination_by p.length
decreasing_by
  have := decodeRune_size_pos b t
  simp only [List.length_drop, List.length_cons]
  omega

/-- `[]byte(string(rs))` -/
def encodeRunes (rs : List Nat) : List Byte := rs.flatMap encodeRune

end Model.Utf8
