import PbVerif.Model.Utf8
/-
Executable model of the hand-written helpers of `types/known/structpb/struct.pb.go` and
`types/known/anypb/any.pb.go` (templates: `cmd/protoc-gen-go/internal_gengo/well_known_types.go`),
property C45.  Core Lean only.

Part A (structpb)
* `GoVal` — the Go values that reach the type switch of `NewValue` (`any`): nil, bool, the ten integer types,
  float32/float64 (bit patterns), `json.Number`, string, `[]byte`, `map[string]any`, `[]any` and
  "anything else" (`unsupported`: structs, channels, `map[int]…`, typed nil pointers, named string types …).
  Maps are association lists (Go maps are unordered: see `Equiv`), `isNil` distinguishes a nil map/slice
  from an empty one (`reflect.DeepEqual` does).
* `PV` — a `*structpb.Value` tree: `unset` is `Kind == nil` (also a nil `*Value`).
* `newValue / newStruct / newList` — `NewValue / NewStruct / NewList` (type switch, UTF-8 checks of strings and
  map keys, first error in iteration order wins).
* `asInterface / asMap / asSlice` — `AsInterface / AsMap / AsSlice` (NaN/±Inf become the strings
  "NaN"/"Infinity"/"-Infinity"; an unset Value becomes nil; maps and slices are never nil).
* `normalize` — the documented conversions, so that the law reads `asInterface (newValue v) = normalize v`.
* `protoJSON / goJSON` — what `protojson.Marshal` does with a Value tree and what `encoding/json.Marshal` does
  with the result of `AsInterface`, both as abstract JSON trees (number text formatting is not modelled).

Standard-library functions are parameters (`Params`): `i2f` (`float64(v)` for integers), `f32to64`,
`parseFloat` (`json.Number.Float64`), `base64`.  The executable instance `goParams` implements the first,
second and fourth concretely (round-to-nearest-even conversion, widening with NaN quieting, RFC 4648
standard alphabet with padding); they are tied to Go by the harness.

Part B (anypb): `lastIndexByte`, `messageNameRaw`, `messageName`, `messageIs`, `new`, `unmarshalTo`,
`unmarshalNew` over an abstract binary codec and a resolver (finite map from names to "message | other").
-/
namespace Model.StructAny

abbrev Byte := BitVec 8
abbrev Str := List Byte
/-- a float64 as its IEEE-754 bit pattern -/
abbrev F64 := BitVec 64

/-! ## Part A: structpb -/

/-- the signed integer types accepted by `NewValue` (`rune` = int32) -/
inductive IntTy where | int | i8 | i16 | i32 | i64
  deriving DecidableEq, Repr
/-- the unsigned integer types accepted by `NewValue` (`byte` = uint8; `uintptr` is *not* accepted) -/
inductive UIntTy where | uint | u8 | u16 | u32 | u64
  deriving DecidableEq, Repr

mutual
/-- a Go value of static type `any` as seen by the type switch of `NewValue` -/
inductive GoVal where
  | nil
  | bool (b : Bool)
  | int (t : IntTy) (v : Int)
  | uint (t : UIntTy) (v : Nat)
  | f32 (bits : BitVec 32)
  | f64 (bits : F64)
  | jnum (s : Str)                         -- json.Number
  | str (s : Str)
  | bytes (b : Str)                        -- []byte
  | map (isNil : Bool) (m : GoMap)         -- map[string]any
  | slice (isNil : Bool) (l : GoList)      -- []any
  | unsupported (tag : Nat)                -- every other dynamic type
/-- entries of a `map[string]any` in some iteration order -/
inductive GoMap where
  | nil
  | cons (k : Str) (v : GoVal) (t : GoMap)
inductive GoList where
  | nil
  | cons (v : GoVal) (t : GoList)
end

mutual
/-- `*structpb.Value` -/
inductive PV where
  | unset                                  -- Kind == nil (or a nil *Value, or a nil oneof wrapper)
  | null
  | number (bits : F64)
  | string (s : Str)
  | bool (b : Bool)
  | struct (f : PFields)
  | list (l : PList)
/-- `Struct.Fields` in some iteration order -/
inductive PFields where
  | nil
  | cons (k : Str) (v : PV) (t : PFields)
inductive PList where
  | nil
  | cons (v : PV) (t : PList)
end

/-- error classes of `NewValue` (by message: "invalid UTF-8 in string", "invalid type", "invalid number format") -/
inductive Err where | utf8 | type | number
  deriving DecidableEq, Repr

/-- the standard-library functions the helpers call -/
structure Params where
  /-- `float64(v)` for an integer `v` of any of the ten integer types -/
  i2f : Int → F64
  /-- `float64(v)` for a float32 `v` -/
  f32to64 : BitVec 32 → F64
  /-- `json.Number(s).Float64()`, i.e. `strconv.ParseFloat(s, 64)`; `none` = error -/
  parseFloat : Str → Option F64
  /-- `base64.StdEncoding.EncodeToString` -/
  base64 : Str → Str

def f64IsNaN (b : F64) : Bool := b.toNat / 2 ^ 52 % 2048 == 2047 && b.toNat % 2 ^ 52 != 0
def posInf : F64 := 0x7FF0000000000000#64
def negInf : F64 := 0xFFF0000000000000#64
/-- `!math.IsNaN(v) && !math.IsInf(v, 0)` -/
def f64Finite (b : F64) : Bool := !f64IsNaN b && b != posInf && b != negInf

def sNaN : Str := [0x4E#8, 0x61#8, 0x4E#8]
def sInfinity : Str := [0x49#8, 0x6E#8, 0x66#8, 0x69#8, 0x6E#8, 0x69#8, 0x74#8, 0x79#8]
def sNegInfinity : Str := 0x2D#8 :: sInfinity

mutual
/-- `structpb.NewValue` -/
def newValue (P : Params) : GoVal → Except Err PV
  | .nil => .ok .null
  | .bool b => .ok (.bool b)
  | .int _ v => .ok (.number (P.i2f v))
  | .uint _ v => .ok (.number (P.i2f (Int.ofNat v)))
  | .f32 b => .ok (.number (P.f32to64 b))
  | .f64 b => .ok (.number b)
  | .jnum s =>
    match P.parseFloat s with
    | some f => .ok (.number f)
    | none => .error .number
  | .str s => if Utf8.valid s then .ok (.string s) else .error .utf8
  | .bytes b => .ok (.string (P.base64 b))
  | .map _ m =>
    match newStruct P m with
    | .ok f => .ok (.struct f)
    | .error e => .error e
  | .slice _ l =>
    match newList P l with
    | .ok l => .ok (.list l)
    | .error e => .error e
  | .unsupported _ => .error .type
/-- `structpb.NewStruct`: the loop over the map in the given iteration order -/
def newStruct (P : Params) : GoMap → Except Err PFields
  | .nil => .ok .nil
  | .cons k v t =>
    if Utf8.valid k then
      match newValue P v with
      | .error e => .error e
      | .ok pv =>
        match newStruct P t with
        | .error e => .error e
        | .ok pt => .ok (.cons k pv pt)
    else .error .utf8
/-- `structpb.NewList` -/
def newList (P : Params) : GoList → Except Err PList
  | .nil => .ok .nil
  | .cons v t =>
    match newValue P v with
    | .error e => .error e
    | .ok pv =>
      match newList P t with
      | .error e => .error e
      | .ok pt => .ok (.cons pv pt)
end

/-- the `*Value_NumberValue` arm of `AsInterface` -/
def numIface (b : F64) : GoVal :=
  if f64IsNaN b then .str sNaN
  else if b = posInf then .str sInfinity
  else if b = negInf then .str sNegInfinity
  else .f64 b

mutual
/-- `(*Value).AsInterface` -/
def asInterface : PV → GoVal
  | .unset => .nil
  | .null => .nil
  | .number b => numIface b
  | .string s => .str s
  | .bool b => .bool b
  | .struct f => .map false (asMap f)
  | .list l => .slice false (asSlice l)
/-- `(*Struct).AsMap` (entries; the result map is never nil) -/
def asMap : PFields → GoMap
  | .nil => .nil
  | .cons k v t => .cons k (asInterface v) (asMap t)
/-- `(*ListValue).AsSlice` -/
def asSlice : PList → GoList
  | .nil => .nil
  | .cons v t => .cons (asInterface v) (asSlice t)
end

mutual
/-- The documented conversions: integers and float32 → float64, `[]byte` → base64 string, `json.Number` → float64,
non-finite numbers → their JSON strings, nil maps/slices → empty ones.  Unsupported values are left alone. -/
def normalize (P : Params) : GoVal → GoVal
  | .nil => .nil
  | .bool b => .bool b
  | .int _ v => numIface (P.i2f v)
  | .uint _ v => numIface (P.i2f (Int.ofNat v))
  | .f32 b => numIface (P.f32to64 b)
  | .f64 b => numIface b
  | .jnum s =>
    match P.parseFloat s with
    | some f => numIface f
    | none => .jnum s
  | .str s => .str s
  | .bytes b => .str (P.base64 b)
  | .map _ m => .map false (normalizeMap P m)
  | .slice _ l => .slice false (normalizeList P l)
  | .unsupported t => .unsupported t
def normalizeMap (P : Params) : GoMap → GoMap
  | .nil => .nil
  | .cons k v t => .cons k (normalize P v) (normalizeMap P t)
def normalizeList (P : Params) : GoList → GoList
  | .nil => .nil
  | .cons v t => .cons (normalize P v) (normalizeList P t)
end

mutual
/-- no unsupported Go type, every string and every map key valid UTF-8, every `json.Number` parses — at every depth -/
def supported (P : Params) : GoVal → Bool
  | .jnum s => (P.parseFloat s).isSome
  | .str s => Utf8.valid s
  | .map _ m => supportedMap P m
  | .slice _ l => supportedList P l
  | .unsupported _ => false
  | _ => true
def supportedMap (P : Params) : GoMap → Bool
  | .nil => true
  | .cons k v t => Utf8.valid k && supported P v && supportedMap P t
def supportedList (P : Params) : GoList → Bool
  | .nil => true
  | .cons v t => supported P v && supportedList P t
end

mutual
/-- the error classes `NewValue` can report for `v` when maps are iterated in *any* order
(a slice is scanned front to back, a map entry checks its key before its value) -/
def possibleErrs (P : Params) : GoVal → List Err
  | .jnum s => if (P.parseFloat s).isSome then [] else [.number]
  | .str s => if Utf8.valid s then [] else [.utf8]
  | .map _ m => possibleErrsMap P m
  | .slice _ l => possibleErrsList P l
  | .unsupported _ => [.type]
  | _ => []
def possibleErrsMap (P : Params) : GoMap → List Err
  | .nil => []
  | .cons k v t => (if Utf8.valid k then possibleErrs P v else [.utf8]) ++ possibleErrsMap P t
def possibleErrsList (P : Params) : GoList → List Err
  | .nil => []
  | .cons v t => if supported P v then possibleErrsList P t else possibleErrs P v
end

mutual
/-- what `newValue ∘ asInterface` can reproduce: no unset Value, finite numbers, valid UTF-8 strings and keys -/
def PV.wf : PV → Bool
  | .unset => false
  | .null => true
  | .number b => f64Finite b
  | .string s => Utf8.valid s
  | .bool _ => true
  | .struct f => f.wf
  | .list l => l.wf
def PFields.wf : PFields → Bool
  | .nil => true
  | .cons k v t => Utf8.valid k && v.wf && t.wf
def PList.wf : PList → Bool
  | .nil => true
  | .cons v t => v.wf && t.wf
end

/-! ### "The same Go value": maps are unordered

`Node` puts the three mutually inductive sorts under one roof so that the relation below is a single
inductive family (plain `induction` works on it). -/

inductive Node where
  | val (v : GoVal)
  | map (m : GoMap)
  | list (l : GoList)

/-- `Equiv a b`: `a` and `b` denote the same Go value — they differ only in the order in which the entries of
maps (at any depth) are listed.  The least equivalence that is a congruence and swaps adjacent map entries. -/
inductive Equiv : Node → Node → Prop where
  | refl (a : Node) : Equiv a a
  | symm {a b : Node} : Equiv a b → Equiv b a
  | trans {a b c : Node} : Equiv a b → Equiv b c → Equiv a c
  | swap (k₁ : Str) (v₁ : GoVal) (k₂ : Str) (v₂ : GoVal) (t : GoMap) :
      Equiv (.map (.cons k₁ v₁ (.cons k₂ v₂ t))) (.map (.cons k₂ v₂ (.cons k₁ v₁ t)))
  | mcons (k : Str) {v v' : GoVal} {t t' : GoMap} :
      Equiv (.val v) (.val v') → Equiv (.map t) (.map t') → Equiv (.map (.cons k v t)) (.map (.cons k v' t'))
  | lcons {v v' : GoVal} {t t' : GoList} :
      Equiv (.val v) (.val v') → Equiv (.list t) (.list t') → Equiv (.list (.cons v t)) (.list (.cons v' t'))
  | vmap (n : Bool) {m m' : GoMap} : Equiv (.map m) (.map m') → Equiv (.val (.map n m)) (.val (.map n m'))
  | vslice (n : Bool) {l l' : GoList} : Equiv (.list l) (.list l') → Equiv (.val (.slice n l)) (.val (.slice n l'))

/-- the protobuf side under the same roof -/
inductive PNode where
  | val (v : PV)
  | fields (f : PFields)
  | list (l : PList)

/-- the same relation on `Value` trees (`Struct.Fields` is a Go map) -/
inductive PEquiv : PNode → PNode → Prop where
  | refl (a : PNode) : PEquiv a a
  | symm {a b : PNode} : PEquiv a b → PEquiv b a
  | trans {a b c : PNode} : PEquiv a b → PEquiv b c → PEquiv a c
  | swap (k₁ : Str) (v₁ : PV) (k₂ : Str) (v₂ : PV) (t : PFields) :
      PEquiv (.fields (.cons k₁ v₁ (.cons k₂ v₂ t))) (.fields (.cons k₂ v₂ (.cons k₁ v₁ t)))
  | mcons (k : Str) {v v' : PV} {t t' : PFields} :
      PEquiv (.val v) (.val v') → PEquiv (.fields t) (.fields t') →
      PEquiv (.fields (.cons k v t)) (.fields (.cons k v' t'))
  | lcons {v v' : PV} {t t' : PList} :
      PEquiv (.val v) (.val v') → PEquiv (.list t) (.list t') → PEquiv (.list (.cons v t)) (.list (.cons v' t'))
  | vstruct {f f' : PFields} : PEquiv (.fields f) (.fields f') → PEquiv (.val (.struct f)) (.val (.struct f'))
  | vlist {l l' : PList} : PEquiv (.list l) (.list l') → PEquiv (.val (.list l)) (.val (.list l'))

/-- the three conversions on nodes -/
def Node.normalize (P : Params) : Node → Node
  | .val v => .val (Model.StructAny.normalize P v)
  | .map m => .map (normalizeMap P m)
  | .list l => .list (normalizeList P l)

def Node.supported (P : Params) : Node → Bool
  | .val v => Model.StructAny.supported P v
  | .map m => supportedMap P m
  | .list l => supportedList P l

def Node.possibleErrs (P : Params) : Node → List Err
  | .val v => Model.StructAny.possibleErrs P v
  | .map m => possibleErrsMap P m
  | .list l => possibleErrsList P l

def Node.new (P : Params) : Node → Except Err PNode
  | .val v => (newValue P v).map PNode.val
  | .map m => (newStruct P m).map PNode.fields
  | .list l => (newList P l).map PNode.list

def PNode.asGo : PNode → Node
  | .val v => .val (asInterface v)
  | .fields f => .map (asMap f)
  | .list l => .list (asSlice l)

/-! ### JSON: `protojson.Marshal(v)` against `encoding/json.Marshal(v.AsInterface())` -/

mutual
/-- an abstract JSON document (numbers are float64 values; text formatting is not modelled) -/
inductive J where
  | null
  | bool (b : Bool)
  | num (bits : F64)
  | str (s : Str)
  | obj (o : JObj)
  | arr (a : JArr)
inductive JObj where
  | nil
  | cons (k : Str) (v : J) (t : JObj)
inductive JArr where
  | nil
  | cons (v : J) (t : JArr)
end

inductive JErr where
  | unset        -- protojson: "google.protobuf.Value: none of the oneof fields is set"
  | nonfinite    -- protojson: "invalid NaN/Inf value"; encoding/json: UnsupportedValueError
  | utf8         -- protojson: invalid UTF-8
  | unmodelled   -- a Go value that `AsInterface` never returns
  deriving DecidableEq, Repr

mutual
/-- `protojson.Marshal` of a `Value` (`marshalKnownValue`, `marshalStruct`, `marshalListValue`) -/
def protoJSON : PV → Except JErr J
  | .unset => .error .unset
  | .null => .ok .null
  | .number b => if f64Finite b then .ok (.num b) else .error .nonfinite
  | .string s => if Utf8.valid s then .ok (.str s) else .error .utf8
  | .bool b => .ok (.bool b)
  | .struct f =>
    match protoJSONFields f with
    | .ok o => .ok (.obj o)
    | .error e => .error e
  | .list l =>
    match protoJSONList l with
    | .ok a => .ok (.arr a)
    | .error e => .error e
def protoJSONFields : PFields → Except JErr JObj
  | .nil => .ok .nil
  | .cons k v t =>
    if Utf8.valid k then
      match protoJSON v with
      | .error e => .error e
      | .ok j =>
        match protoJSONFields t with
        | .error e => .error e
        | .ok o => .ok (.cons k j o)
    else .error .utf8
def protoJSONList : PList → Except JErr JArr
  | .nil => .ok .nil
  | .cons v t =>
    match protoJSON v with
    | .error e => .error e
    | .ok j =>
      match protoJSONList t with
      | .error e => .error e
      | .ok a => .ok (.cons j a)
end

/-- `string(bytes.ToValidUTF8(…, "�"))`-like coercion of `encoding/json` (one U+FFFD per ill-formed byte) -/
def coerceUTF8 (s : Str) : Str := Utf8.encodeRunes (Utf8.runes s)

mutual
/-- `encoding/json.Marshal` on the value types that `AsInterface` returns (nil, bool, float64, string,
`map[string]any`, `[]any`); everything else answers `unmodelled`. -/
def goJSON : GoVal → Except JErr J
  | .nil => .ok .null
  | .bool b => .ok (.bool b)
  | .f64 b => if f64Finite b then .ok (.num b) else .error .nonfinite
  | .str s => .ok (.str (if Utf8.valid s then s else coerceUTF8 s))
  | .map isNil m =>
    if isNil then .ok .null else
    match goJSONMap m with
    | .ok o => .ok (.obj o)
    | .error e => .error e
  | .slice isNil l =>
    if isNil then .ok .null else
    match goJSONList l with
    | .ok a => .ok (.arr a)
    | .error e => .error e
  | _ => .error .unmodelled
def goJSONMap : GoMap → Except JErr JObj
  | .nil => .ok .nil
  | .cons k v t =>
    match goJSON v with
    | .error e => .error e
    | .ok j =>
      match goJSONMap t with
      | .error e => .error e
      | .ok o => .ok (.cons (if Utf8.valid k then k else coerceUTF8 k) j o)
def goJSONList : GoList → Except JErr JArr
  | .nil => .ok .nil
  | .cons v t =>
    match goJSON v with
    | .error e => .error e
    | .ok j =>
      match goJSONList t with
      | .error e => .error e
      | .ok a => .ok (.cons j a)
end

/-! ### The executable instance of the parameters -/

/-- exponent and mantissa fields of `float64(n)` for a natural number `n` (round to nearest, ties to even) -/
def natToF64Mag (n : Nat) : Nat :=
  if n = 0 then 0 else
  let l := Nat.log2 n
  if l ≤ 52 then (l + 1023) * 2 ^ 52 + (n * 2 ^ (52 - l) - 2 ^ 52)
  else
    let sh := l - 52
    let q := n / 2 ^ sh
    let r := n % 2 ^ sh
    let half := 2 ^ (sh - 1)
    let q' := if r > half ∨ (r = half ∧ q % 2 = 1) then q + 1 else q
    (l + 1023) * 2 ^ 52 + (q' - 2 ^ 52)

/-- `float64(i)` -/
def intToF64 (i : Int) : F64 :=
  BitVec.ofNat 64 ((if i < 0 then 2 ^ 63 else 0) + natToF64Mag i.natAbs)

/-- `float64(v)` for a float32 (exact; a signaling NaN comes out quiet, as the hardware conversion does) -/
def f32ToF64 (b : BitVec 32) : F64 :=
  let n := b.toNat
  let s := n / 2 ^ 31
  let e := n / 2 ^ 23 % 256
  let m := n % 2 ^ 23
  let mag :=
    if e = 255 then 2047 * 2 ^ 52 + (if m = 0 then 0 else m * 2 ^ 29 % 2 ^ 51 + 2 ^ 51)
    else if e = 0 then
      (if m = 0 then 0 else
        let l := Nat.log2 m
        (l + 874) * 2 ^ 52 + (m * 2 ^ (52 - l) - 2 ^ 52))
    else (e + 896) * 2 ^ 52 + m * 2 ^ 29
  BitVec.ofNat 64 (s * 2 ^ 63 + mag)

/-- the standard base64 alphabet -/
def b64char (n : Nat) : Byte :=
  BitVec.ofNat 8 (if n < 26 then 65 + n else if n < 52 then 71 + n else if n < 62 then n - 4
    else if n = 62 then 43 else 47)

def PAD : Byte := 0x3D#8

/-- `base64.StdEncoding.EncodeToString` -/
def b64 : Str → Str
  | a :: b :: c :: r =>
    let n := a.toNat * 65536 + b.toNat * 256 + c.toNat
    b64char (n / 262144) :: b64char (n / 4096 % 64) :: b64char (n / 64 % 64) :: b64char (n % 64) :: b64 r
  | [a, b] =>
    let n := a.toNat * 65536 + b.toNat * 256
    [b64char (n / 262144), b64char (n / 4096 % 64), b64char (n / 64 % 64), PAD]
  | [a] =>
    let n := a.toNat * 65536
    [b64char (n / 262144), b64char (n / 4096 % 64), PAD, PAD]
  | [] => []

/-- the instance used by `pbmodel_structany`; `pf` is the table of `json.Number` outcomes sent by the harness -/
def goParams (pf : Str → Option F64) : Params :=
  { i2f := intToF64, f32to64 := f32ToF64, parseFloat := pf, base64 := b64 }

/-! ## Part B: anypb -/

def SLASH : Byte := 0x2F#8
def DOT : Byte := 0x2E#8

/-- `"type.googleapis.com/"` -/
def urlPrefix : Str :=
  [0x74#8, 0x79#8, 0x70#8, 0x65#8, 0x2E#8, 0x67#8, 0x6F#8, 0x6F#8, 0x67#8, 0x6C#8, 0x65#8, 0x61#8, 0x70#8,
   0x69#8, 0x73#8, 0x2E#8, 0x63#8, 0x6F#8, 0x6D#8, 0x2F#8]

/-- `strings.LastIndexByte(s, c)`; `none` is `-1` -/
def lastIndexByte (c : Byte) : Str → Option Nat
  | [] => none
  | b :: r =>
    match lastIndexByte c r with
    | some i => some (i + 1)
    | none => if b = c then some 0 else none

/-- the `name` of `MessageName` before validation (also the key `FindMessageByURL` looks up):
`url[i+1:]` for the last `/`, the whole URL when there is none -/
def messageNameRaw (url : Str) : Str :=
  match lastIndexByte SLASH url with
  | some i => url.drop (i + 1)
  | none => url

def isLetter (c : Byte) : Bool :=
  c == 0x5F#8 || (decide (0x61 ≤ c.toNat) && decide (c.toNat ≤ 0x7A)) || (decide (0x41 ≤ c.toNat) && decide (c.toNat ≤ 0x5A))
def isLetterDigit (c : Byte) : Bool := isLetter c || (decide (0x30 ≤ c.toNat) && decide (c.toNat ≤ 0x39))

/-- `protoreflect.FullName.IsValid` as one scan; `segStart` says that an identifier must start here -/
def fullNameGo (segStart : Bool) : Str → Bool
  | [] => !segStart
  | c :: r =>
    if segStart then isLetter c && fullNameGo false r
    else if c = DOT then fullNameGo true r
    else isLetterDigit c && fullNameGo false r

def fullNameValid (s : Str) : Bool := fullNameGo true s

/-- `(*Any).MessageName`: empty when the suffix is not a valid full name -/
def messageName (url : Str) : Str :=
  let n := messageNameRaw url
  if fullNameValid n then n else []

/-- `(*Any).MessageIs` for a message whose full name is `name` -/
def messageIs (url name : Str) : Bool :=
  name.isSuffixOf url &&
    (url.length == name.length || url[url.length - name.length - 1]? == some SLASH)

structure AnyMsg where
  typeURL : Str
  value : Str
  deriving DecidableEq, Repr

inductive AnyErr where
  | marshal      -- opts.Marshal failed
  | mismatch     -- "mismatched message type"
  | emptyURL     -- "invalid empty type URL"
  | notFound     -- protoregistry.NotFound
  | wrongType    -- "could not resolve …: found wrong type"
  | decode       -- opts.Unmarshal failed
  deriving DecidableEq, Repr

/-- the binary codec, abstractly: messages of type `M`, each with a full name -/
structure Codec (M : Type) where
  nameOf : M → Str
  /-- `opts.Marshal(m)`; `none` = error -/
  marshal : M → Option Str
  /-- `opts.Unmarshal(b, dst)` for a `dst` of the type called `name` (Unmarshal resets `dst` first, so only its
  type matters); `none` = error -/
  unmarshal : (name : Str) → Str → Option M

/-- C03's theorem as a hypothesis: decoding what was encoded gives the message back -/
def Codec.RoundTrip {M : Type} (C : Codec M) : Prop :=
  ∀ m b, C.marshal m = some b → C.unmarshal (C.nameOf m) b = some m

/-- `anypb.New` / `anypb.MarshalFrom` -/
def new {M : Type} (C : Codec M) (m : M) : Except AnyErr AnyMsg :=
  match C.marshal m with
  | some b => .ok { typeURL := urlPrefix ++ C.nameOf m, value := b }
  | none => .error .marshal

/-- `anypb.UnmarshalTo(src, dst, opts)` where `dst` has the type called `dstName` -/
def unmarshalTo {M : Type} (C : Codec M) (a : AnyMsg) (dstName : Str) : Except AnyErr M :=
  if messageIs a.typeURL dstName then
    match C.unmarshal dstName a.value with
    | some m => .ok m
    | none => .error .decode
  else .error .mismatch

/-- what `typesByName` holds under a name: a message type or something else (enum, extension) -/
abbrev Resolver := List (Str × Bool)

/-- `r.typesByName[name]` -/
def Resolver.find (r : Resolver) (name : Str) : Option Bool :=
  match r with
  | [] => none
  | (n, isMsg) :: t => if n = name then some isMsg else Resolver.find t name

/-- `anypb.UnmarshalNew(src, opts)` with `opts.Resolver = r` (`FindMessageByURL`, then `mt.New()`, then Unmarshal) -/
def unmarshalNew {M : Type} (C : Codec M) (r : Resolver) (a : AnyMsg) : Except AnyErr M :=
  if a.typeURL = [] then .error .emptyURL else
  match r.find (messageNameRaw a.typeURL) with
  | none => .error .notFound
  | some false => .error .wrongType
  | some true =>
    match C.unmarshal (messageNameRaw a.typeURL) a.value with
    | some m => .ok m
    | none => .error .decode

end Model.StructAny
