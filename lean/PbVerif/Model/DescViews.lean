/-
Model.DescViews — executable model of the descriptor list views of
`internal/filedesc/desc_list.go`, `desc_list_gen.go` and the accessor glue of `desc.go` (C36).
Core Lean only (linked into `pbmodel_descviews`).

Conventions
* A Go `map[K]V` that is only ever written by `lazyInit` and read by `m[k]` is a partial function
  `K → Option V` (nobody iterates these maps, so no order is needed); `m[k] = v` is `set`, the
  guarded `if _, ok := m[k]; !ok { m[k] = v }` is `setIfAbsent` (every `lazyInit` table is of this kind).
* The generated lists store `&p.List[i]`; pointer identity is the index, so the tables hold `Nat`.
* `protoreflect.FieldNumber`/`EnumNumber` are `int32`; they are `Int` here, and the one place where
  the code does int32 arithmetic (`fieldRange.End() = r[1] - 1`) goes through `wrap32`.
* `protoreflect.FullName`/`Name` are `List Char`.
-/
namespace Model.DescViews

/-! ## Ranges: `EnumRanges` (end inclusive) and `FieldRanges` (end exclusive) -/

/-- One element of `List [][2]Number`: `start = r[0]`, `stop = r[1]` as stored. -/
structure Rng where
  start : Int
  stop : Int
deriving DecidableEq, Repr, Inhabited

/-- Go `int32(x)` of a mathematical integer. -/
def wrap32 (x : Int) : Int := (x + 2147483648) % 4294967296 - 2147483648

/-- `enumRange.End()`: `r[1]` (inclusive). -/
def enumEnd (r : Rng) : Int := r.stop

/-- `fieldRange.End()`: `r[1] - 1` in int32 arithmetic (inclusive). -/
def fieldEnd (r : Rng) : Int := wrap32 (r.stop - 1)

/-- The loop of `EnumRanges.Has` / `FieldRanges.Has` on the sorted copy:
```
for ls := sorted; len(ls) > 0; {
    i := len(ls) / 2
    switch r := ls[i]; {
    case n < r.Start(): ls = ls[:i]
    case n > r.End():   ls = ls[i+1:]
    default:            return true
    }
}
return false
``` -/
def bsearch (endOf : Rng → Int) (n : Int) (ls : List Rng) : Bool :=
  if h : 0 < ls.length then
    let i := ls.length / 2
    let r := ls[i]'(by omega)
    if n < r.start then bsearch endOf n (ls.take i)
    else if endOf r < n then bsearch endOf n (ls.drop (i + 1))
    else true
  else false
termination_by ls.length
decreasing_by
  · simp only [List.length_take]; omega
  · simp only [List.length_drop]; omega

/-- `lazyInit`: `sorted = append(nil, List...)`; `sort.Slice(sorted, sorted[i][0] < sorted[j][0])`.
A stable merge sort; when the starts are pairwise distinct every sorting algorithm gives this list. -/
def sortByStart (rs : List Rng) : List Rng := rs.mergeSort (fun a b => decide (a.start ≤ b.start))

def enumHas (rs : List Rng) (n : Int) : Bool := bsearch enumEnd n (sortByStart rs)
def fieldHas (rs : List Rng) (n : Int) : Bool := bsearch fieldEnd n (sortByStart rs)

/-- The loop of `CheckValid` over the sorted copy. `prev = none` is `i == 0` (the Go code guards the
overlap clause with `&& i > 0`); `okNum` is the per-end-point validity test (`isValidFieldNumber`,
constantly true for enums); `okRng` is the non-emptiness clause (`r.Start() <= r.End()` for enums,
`r[0] < r[1]` on the stored pair for fields). Returns `true` for a nil error. -/
def checkLoop (endOf : Rng → Int) (okNum : Int → Bool) (okRng : Rng → Bool) : Option Rng → List Rng → Bool
  | _, [] => true
  | prev, r :: rest =>
    if !okNum r.start then false
    else if !okNum (endOf r) then false
    else if !okRng r then false
    else if (match prev with | none => false | some rp => !(decide (endOf rp < r.start))) then false
    else checkLoop endOf okNum okRng (some r) rest

/-- `EnumRanges.CheckValid`: `case !(r.Start() <= r.End())`. -/
def enumCheckValid (rs : List Rng) : Bool :=
  checkLoop enumEnd (fun _ => true) (fun r => decide (r.start ≤ enumEnd r)) none (sortByStart rs)

/-- `isValidFieldNumber(n, isMessageSet)`: `MinValidNumber <= n && (n <= MaxValidNumber || isMessageSet)`. -/
def isValidFieldNumber (isMessageSet : Bool) (n : Int) : Bool :=
  decide (1 ≤ n) && (decide (n ≤ 536870911) || isMessageSet)

/-- `FieldRanges.CheckValid`: `case !(r[0] < r[1])` (the stored pair, so that a wrapping `End()` cannot pass). -/
def fieldCheckValid (isMessageSet : Bool) (rs : List Rng) : Bool :=
  checkLoop fieldEnd (isValidFieldNumber isMessageSet) (fun r => decide (r.start < r.stop)) none (sortByStart rs)

/-! ## Go maps written once by `lazyInit` -/

/-- A Go map as a partial function. A structure (not a bare function type) so that the compiled
`setIfAbsent` evaluates its test once, when the table is built, and not at every lookup. -/
structure Tbl (κ : Type) (β : Type) where
  get : κ → Option β

def Tbl.empty {κ β} : Tbl κ β := ⟨fun _ => none⟩

/-- `m[k] = v` -/
def Tbl.set {κ β} [DecidableEq κ] (m : Tbl κ β) (k : κ) (v : β) : Tbl κ β :=
  ⟨fun k' => if k' = k then some v else m.get k'⟩

/-- `if _, ok := m[k]; !ok { m[k] = v }` -/
def Tbl.setIfAbsent {κ β} [DecidableEq κ] (m : Tbl κ β) (k : κ) (v : β) : Tbl κ β :=
  match m.get k with
  | some _ => m
  | none => m.set k v

/-! ## Generated lists (`Enums`, `EnumValues`, `Messages`, `Fields`, `Oneofs`, `Extensions`,
`Services`, `Methods`): first-wins tables -/

/-- The body of `for i := range p.List { d := &p.List[i]; … }` for ONE of the maps: element `d`
contributes the keys `keysOf d` in order (one key for `byName`/`byNum`; for `Fields.byJSON`/`byText`
the name and, if the field is group-like, its lower-cased form), each inserted only if absent. -/
def buildFirstFrom {α κ} [DecidableEq κ] (keysOf : α → List κ) :
    Nat → List α → Tbl κ Nat → Tbl κ Nat
  | _, [], m => m
  | i, d :: ds, m => buildFirstFrom keysOf (i + 1) ds ((keysOf d).foldl (fun m k => m.setIfAbsent k i) m)

/-- `lazyInit` of a generated list for one map (`if len(p.List) > 0 { m = make(…); for … }`;
a nil map answers every lookup with the zero value). -/
def buildFirst {α κ} [DecidableEq κ] (keysOf : α → List κ) (l : List α) : Tbl κ Nat :=
  if l.isEmpty then Tbl.empty else buildFirstFrom keysOf 0 l Tbl.empty

/-- `ByName`/`ByNumber`/`ByJSONName`/`ByTextName` of a generated list: index of the returned
`&p.List[i]`, `none` for a nil result. -/
def byKeyFirst {α κ} [DecidableEq κ] (keysOf : α → List κ) (l : List α) (k : κ) : Option Nat :=
  (buildFirst keysOf l).get k

/-- `Get(i)` (`&p.List[i]`; out of range panics in Go = `none`). -/
def getAt {α} (l : List α) (i : Nat) : Option α := l[i]?

/-! ## `OneofFields`: one key per member and table, inserted only if absent (first-wins, like the
generated lists; no lower-cased alias keys) -/

/-- `OneofFields.ByName`/`ByJSONName`/`ByTextName`/`ByNumber`: index into `OneofFields.List`. -/
def byKeyOneof {α κ} [DecidableEq κ] (keyOf : α → κ) (l : List α) (k : κ) : Option Nat :=
  byKeyFirst (fun d => [keyOf d]) l k

/-! ## `Names` (count map) and `FieldNumbers` (set) -/

/-- `for _, s := range p.List { p.has[s] = p.has[s] + 1 }`; a missing key reads as 0. -/
def namesBuild {κ} [DecidableEq κ] (l : List κ) : κ → Nat :=
  l.foldl (fun m s => fun s' => if s' = s then m s + 1 else m s') (fun _ => 0)

/-- `Names.Has`: `has[s] > 0`. -/
def namesHas {κ} [DecidableEq κ] (l : List κ) (s : κ) : Bool := decide (0 < namesBuild l s)

/-- `Names.CheckValid` (nil error = true): ranges over the map (= the distinct elements of the list, in
an arbitrary order, which cannot matter for the verdict) and fails on a count above 1. -/
def namesCheckValid {κ} [DecidableEq κ] (l : List κ) : Bool :=
  l.all (fun s => !(decide (1 < namesBuild l s)))

/-- `FieldNumbers.Has`: `for _, n := range p.List { p.has[n] = struct{}{} }; _, ok := p.has[n]`. -/
def fieldNumbersHas (l : List Int) (n : Int) : Bool :=
  ((l.foldl (fun (m : Tbl Int Unit) x => m.set x ()) Tbl.empty).get n).isSome

/-! ## `Message.RequiredNumbers` as built next to the field list -/

inductive Card | optional | required | repeated
deriving DecidableEq, Repr

structure FieldInfo where
  number : Int
  card : Card
  oneof : Option Nat     -- `OneofIndex`
deriving DecidableEq, Repr

/-- `for … { if f.L1.Cardinality == Required { req.List = append(req.List, f.L1.Number) } }`
(`protodesc.resolveMessageDependencies`, `filedesc.(*Message).unmarshalFull`). -/
def requiredNumbers (fs : List FieldInfo) : List Int :=
  fs.foldl (fun acc f => if f.card = Card.required then acc ++ [f.number] else acc) []

/-- `if fd.OneofIndex != nil { o := &Oneofs[k]; f.ContainingOneof = o; o.Fields.List = append(o.Fields.List, f) }`:
the member list (field indices) of oneof `k`. -/
def oneofMembersFrom (k : Nat) : Nat → List FieldInfo → List Nat → List Nat
  | _, [], acc => acc
  | j, f :: fs, acc => oneofMembersFrom k (j + 1) fs (if f.oneof = some k then acc ++ [j] else acc)

def oneofMembers (k : Nat) (fs : List FieldInfo) : List Nat := oneofMembersFrom k 0 fs []

/-- `Field.ContainingOneof()` of field `j` (`none` = nil). -/
def containingOneof (fs : List FieldInfo) (j : Nat) : Option Nat := (fs[j]?).bind (·.oneof)

/-! ## Names, full names, parents -/

abbrev Str := List Char

/-- `strs.Builder.AppendFullName(prefix, name)`: append `prefix "." name` to the buffer and return
its last `n` bytes, `n` not counting the dot when the prefix is empty. -/
def appendFullName (pre name : Str) : Str :=
  let n := pre.length + 1 + name.length
  let n := if pre.length = 0 then n - 1 else n
  let buf := pre ++ '.' :: name
  buf.drop (buf.length - n)

/-- `FullName.Name()`: the part after the last `.` (everything if there is none). -/
def nameOf (s : Str) : Str := (s.reverse.takeWhile (· ≠ '.')).reverse

/-- `FullName.Parent()`: the part before the last `.` (empty if there is none). -/
def parentOf (s : Str) : Str := ((s.reverse.dropWhile (· ≠ '.')).drop 1).reverse

/-- A descriptor as the chain of `makeBase`/`unmarshalSeed` calls that created it. `isEnum` says
that the descriptor is an enum (its children, the enum values, are named in the enum's *parent*
scope: `parent.FullName().Parent()` in `makeBase`). -/
inductive Desc where
  | file (pkg : Str)
  | child (parent : Desc) (isEnum : Bool) (name : Str) (index : Nat)
deriving Repr

def Desc.isEnum : Desc → Bool
  | .file _ => false
  | .child _ e _ _ => e

/-- `FullName()`: `File.L1.Package`, resp. `BaseL0.FullName` as computed by `makeBase`. -/
def Desc.fullName : Desc → Str
  | .file pkg => pkg
  | .child p _ name _ =>
    appendFullName (if p.isEnum then parentOf p.fullName else p.fullName) name

/-- The scope in which a child of `p` is named. -/
def Desc.scope (p : Desc) : Str := if p.isEnum then parentOf p.fullName else p.fullName

/-- `Name()`: `d.L0.FullName.Name()`; for a file `Package.Name()`. -/
def Desc.name (d : Desc) : Str := nameOf d.fullName

/-- `Parent()` (`nil` for a file). -/
def Desc.parent : Desc → Option Desc
  | .file _ => none
  | .child p _ _ _ => some p

/-- `Index()` (0 for a file). -/
def Desc.index : Desc → Nat
  | .file _ => 0
  | .child _ _ _ i => i

/-- `ParentFile()`: `BaseL0.ParentFile = parent.ParentFile()`; a file is its own parent file. -/
def Desc.parentFile : Desc → Desc
  | .file pkg => .file pkg
  | .child p _ _ _ => p.parentFile

def Desc.depth : Desc → Nat
  | .file _ => 0
  | .child p _ _ _ => p.depth + 1

/-- `k` applications of `Parent()`; `none` once `nil` has been reached. -/
def Desc.ancestor : Nat → Desc → Option Desc
  | 0, d => some d
  | k + 1, d => d.parent.bind (Desc.ancestor k)

/-- Construction of a declaration list under one parent:
`for i, x := range xs { d := &ds[i]; d.L0 = makeBase(d, parent, x.GetName(), i, sb) }`. -/
def constructFrom (parent : Desc) (isEnum : Bool) : Nat → List Str → List Desc
  | _, [] => []
  | i, nm :: rest => Desc.child parent isEnum nm i :: constructFrom parent isEnum (i + 1) rest

def construct (parent : Desc) (isEnum : Bool) (names : List Str) : List Desc :=
  constructFrom parent isEnum 0 names

end Model.DescViews
