import PbVerif.Model.WireSpec
/-
Model of the MessageSet wire format code (engine `mset`, property C47), written line by line from

  internal/encoding/messageset/messageset.go   SizeField, Unmarshal, ConsumeFieldValue,
                                               AppendFieldStart/End, SizeUnknown, AppendUnknown
  proto/messageset.go                          reflection path  } both call Unmarshal(b, true, fn) since
  internal/impl/codec_messageset.go            fast path        } ff1f95d; incl. the fast path's
                                               pass-through of unexpanded lazy extensions (2afca19)

over the wire primitives of `Spec` (Model/WireSpec.lean: `decTag`, `decVarint`, `decBytes`,
`consumeFieldValue`, `encVarint`, `encTag` — tied to encoding/protowire by C01/C02).
Core Lean only (linked into `pbmodel_mset`).

What is abstracted: the content of a *known* extension is its payload byte string; "merge a second
occurrence into the extension message" is "append the payload" (decoding a concatenation = merging,
C07); the resolver / extension-range test is a predicate `known : Nat → Bool`.
-/
namespace MSet
open Spec

abbrev Bytes := List Byte

inductive Err where
  | wire (e : WErr)   -- protowire.ParseError(n)
  | typeId            -- "invalid type_id in message set"
  | unknownData       -- "invalid data in message set unknown fields"
  | panic             -- a Go slice expression out of range   (unreachable: `C47.consumeItem_no_panic`)
  | fuel              -- loop budget of the model exhausted    (unreachable: `C47.consumeItem_total`)
  deriving DecidableEq, Repr

/-- messageset.FieldItem / FieldTypeID / FieldMessage -/
def fieldItem : Nat := 1
def fieldTypeID : Nat := 2
def fieldMessage : Nat := 3
/-- protowire wire types -/
def wVarint : Nat := 0
def wBytes : Nat := 2
def wStartGroup : Nat := 3
def wEndGroup : Nat := 4

/-- `protowire.AppendTag(nil, num, typ)` -/
def tag (num typ : Nat) : Bytes := encVarint (encTag num typ)

/-- `protowire.SizeTag(num)` = `SizeVarint(EncodeTag(num, 0))` -/
def sizeTag (num : Nat) : Nat := sizeVarint (encTag num 0)

/-- `protowire.SizeBytes(n)` -/
def sizeBytes (n : Nat) : Nat := sizeVarint n + n

/-- `messageset.SizeField(num)` -/
def sizeField (num : Nat) : Nat := 2 * sizeTag fieldItem + sizeTag fieldTypeID + sizeVarint num

/-- `messageset.AppendFieldStart(b, num)` -/
def appendFieldStart (b : Bytes) (num : Nat) : Bytes :=
  b ++ tag fieldItem wStartGroup ++ tag fieldTypeID wVarint ++ encVarint num

/-- `messageset.AppendFieldEnd(b)` -/
def appendFieldEnd (b : Bytes) : Bytes := b ++ tag fieldItem wEndGroup

/-- one extension as an item (`marshalMessageSetField` of both paths): start, message tag,
length, payload, end -/
def encodeItem (n : Nat) (p : Bytes) : Bytes :=
  appendFieldEnd (appendFieldStart [] n ++ tag fieldMessage wBytes ++ encBytes p)

/-! ### `messageset.ConsumeFieldValue` -/

/-- the end-group branch: the message returned (`message = none` is Go's `nil`) -/
def finMsg (wantLen : Bool) (message : Option Bytes) : Bytes :=
  let m : Bytes := match message with | none => [] | some m => m
  -- "The message field was missing, which should never happen."
  if wantLen ∧ m.length = 0 then encVarint 0 else m

/-- the message-field branch: `raw` = `b[:n]` (length prefix and payload), `m` = the payload -/
def addMsg (wantLen : Bool) (message : Option Bytes) (raw m : Bytes) : Except Err Bytes :=
  match message with
  | none => .ok (if wantLen then raw else m)
  | some m0 =>
    if wantLen then
      -- _, nn := protowire.ConsumeVarint(message); m0 := message[nn:]
      match decVarint m0 with
      | .error _ => .error .panic
      | .ok (_, nn) =>
        let m00 := m0.drop nn
        .ok (encVarint (m00.length + m.length) ++ m00 ++ m)
    else .ok (m0 ++ m)

/-- the `for` loop of `ConsumeFieldValue(b, wantLen)`; `ilen` = `len(b)` at entry, `typeid` and
`message` are the named results.  One unit of `fuel` per iteration; every iteration consumes a
tag, so `len(b) + 1` suffices. -/
def itemLoop (wantLen : Bool) (ilen : Nat) :
    Nat → Bytes → Nat → Option Bytes → Except Err (Nat × Bytes × Nat)
  | 0, _, _, _ => .error .fuel
  | fuel + 1, b, typeid, message =>
    match decTag b with
    | .error e => .error (.wire e)
    | .ok (num, wtyp, n) =>
      let b1 := b.drop n
      if num = fieldItem ∧ wtyp = wEndGroup then
        .ok (typeid, finMsg wantLen message, ilen - b1.length)
      else if num = fieldTypeID ∧ wtyp = wVarint then
        match decVarint b1 with
        | .error e => .error (.wire e)
        | .ok (v, k) =>
          if v < 1 ∨ v > 2147483647 then .error .typeId
          else itemLoop wantLen ilen fuel (b1.drop k) v message
      else if num = fieldMessage ∧ wtyp = wBytes then
        match decBytes b1 with
        | .error e => .error (.wire e)
        | .ok (m, k) =>
          match addMsg wantLen message (b1.take k) m with
          | .error e => .error e
          | .ok m' => itemLoop wantLen ilen fuel (b1.drop k) typeid (some m')
      else
        -- "We have no place to put it, so we just ignore unknown fields."
        match consumeFieldValue num wtyp b1 with
        | .error e => .error (.wire e)
        | .ok k => itemLoop wantLen ilen fuel (b1.drop k) typeid message

/-- `messageset.ConsumeFieldValue(b, wantLen)`: (type id — 0 when absent —, message, length) -/
def consumeItem (wantLen : Bool) (b : Bytes) : Except Err (Nat × Bytes × Nat) :=
  itemLoop wantLen b.length (b.length + 1) b 0 none

/-! ### `messageset.Unmarshal` -/

/-- the loop of `Unmarshal(b, wantLen, fn)`: the sequence of calls `fn(typeID, value)`.
(The callbacks' own errors — a payload that does not parse — are outside this model; the
harness evaluates them on the returned sequence.) -/
def itemsLoop (wantLen : Bool) : Nat → Bytes → Except Err (List (Nat × Bytes))
  | 0, _ => .error .fuel
  | fuel + 1, b =>
    if b.length = 0 then .ok []
    else match decTag b with
    | .error e => .error (.wire e)
    | .ok (num, wtyp, n) =>
      let b1 := b.drop n
      if num ≠ fieldItem ∨ wtyp ≠ wStartGroup then
        match consumeFieldValue num wtyp b1 with
        | .error e => .error (.wire e)
        | .ok k => itemsLoop wantLen fuel (b1.drop k)
      else match consumeItem wantLen b1 with
        | .error e => .error e
        | .ok (typeID, value, k) =>
          if typeID = 0 then itemsLoop wantLen fuel (b1.drop k)
          else match itemsLoop wantLen fuel (b1.drop k) with
            | .error e => .error e
            | .ok r => .ok ((typeID, value) :: r)

def unmarshalItems (wantLen : Bool) (b : Bytes) : Except Err (List (Nat × Bytes)) :=
  itemsLoop wantLen (b.length + 1) b

/-! ### contents -/

/-- a MessageSet value: the populated extensions `(type id, payload)` (a Go map / the extension
fields of a message: distinct ids, order immaterial) and the raw unknown-field bytes -/
structure Content where
  items : List (Nat × Bytes)
  unknown : Bytes
  deriving DecidableEq, Repr

def Content.empty : Content := ⟨[], []⟩

/-- store the payload of an occurrence of extension `t`: a first occurrence is added (at the end),
a further occurrence is merged into the existing message (= payload appended) -/
def mergeItem : List (Nat × Bytes) → Nat → Bytes → List (Nat × Bytes)
  | [], t, p => [(t, p)]
  | (t', p') :: r, t, p => if t' = t then (t', p' ++ p) :: r else (t', p') :: mergeItem r t p

/-- the callback of `unmarshalMessageSet`.  Both paths call `messageset.Unmarshal(b, true, fn)`: `v`
carries its length prefix.  An unresolved item is kept byte for byte: `AppendTag(num, BytesType)`,
`append(v...)`.  A resolved one is decoded from the payload `ConsumeBytes(v)`: the fast path
(`fast = true`, impl/codec_messageset.go) through the extension coder, which fails when
`ConsumeBytes` does; the reflection path (`fast = false`, proto/messageset.go) with
`mv, _ := protowire.ConsumeBytes(v)`, i.e. with the empty payload when it fails (it never does:
`C47.paths_agree`). -/
def applyItem (known : Nat → Bool) (fast : Bool) (s : Content) (t : Nat) (v : Bytes) :
    Except Err Content :=
  if known t then
    match decBytes v with
    | .error e =>
      if fast then .error (.wire e) else .ok { s with items := mergeItem s.items t [] }
    | .ok (p, _) => .ok { s with items := mergeItem s.items t p }
  else
    .ok { s with unknown := s.unknown ++ tag t wBytes ++ v }

def applyItems (known : Nat → Bool) (fast : Bool) :
    Content → List (Nat × Bytes) → Except Err Content
  | s, [] => .ok s
  | s, (t, v) :: r =>
    match applyItem known fast s t v with
    | .error e => .error e
    | .ok s' => applyItems known fast s' r

/-- `proto.Unmarshal` of a MessageSet into an empty message: `fast = true` is the table-driven
path, `false` the reflection path (also dynamicpb) -/
def decodeSet (known : Nat → Bool) (fast : Bool) (b : Bytes) : Except Err Content :=
  match unmarshalItems true b with
  | .error e => .error e
  | .ok cs => applyItems known fast Content.empty cs

/-! ### `messageset.AppendUnknown` / `SizeUnknown` -/

def appendUnknownLoop : Nat → Bytes → Bytes → Except Err Bytes
  | 0, _, _ => .error .fuel
  | fuel + 1, b, unknown =>
    if unknown.length = 0 then .ok b
    else match decTag unknown with
    | .error _ => .error .unknownData
    | .ok (num, typ, n) =>
      if typ ≠ wBytes then .error .unknownData
      else
        let u1 := unknown.drop n
        match decBytes u1 with
        | .error _ => .error .unknownData
        | .ok (_, k) =>
          appendUnknownLoop fuel
            (appendFieldEnd (appendFieldStart b num ++ tag fieldMessage wBytes ++ u1.take k))
            (u1.drop k)

/-- `messageset.AppendUnknown(b, unknown)` -/
def appendUnknown (b unknown : Bytes) : Except Err Bytes :=
  appendUnknownLoop (unknown.length + 1) b unknown

/-- the loop of `SizeUnknown`; `none` = the `return 0` of malformed data -/
def sizeUnknownLoop : Nat → Nat → Bytes → Option Nat
  | 0, _, _ => none
  | fuel + 1, size, unknown =>
    if unknown.length = 0 then some size
    else match decTag unknown with
    | .error _ => none
    | .ok (num, typ, n) =>
      if typ ≠ wBytes then none
      else
        let u1 := unknown.drop n
        match decBytes u1 with
        | .error _ => none
        | .ok (_, k) => sizeUnknownLoop fuel (size + (sizeField num + sizeTag fieldMessage + k)) (u1.drop k)

/-- `messageset.SizeUnknown(unknown)` -/
def sizeUnknown (unknown : Bytes) : Nat :=
  match sizeUnknownLoop (unknown.length + 1) 0 unknown with
  | some n => n
  | none => 0

/-- the unknown-fields form of unresolved items: field `t`, length-delimited -/
def encodeUnknown : List (Nat × Bytes) → Bytes
  | [] => []
  | (t, p) :: r => tag t wBytes ++ encBytes p ++ encodeUnknown r

/-! ### marshal / size -/

def encodeItems : List (Nat × Bytes) → Bytes
  | [] => []
  | (t, p) :: r => encodeItem t p ++ encodeItems r

/-- `sort.Ints(keys)` / `order.NumberFieldOrder` -/
def sortItems (l : List (Nat × Bytes)) : List (Nat × Bytes) :=
  l.mergeSort (fun a b => decide (a.1 ≤ b.1))

/-- `marshalMessageSet`: the extensions (ascending type id when `det`: the fast path always sorts,
the reflection path under `Deterministic`; otherwise in the order of `s.items`), then the unknown
fields through `AppendUnknown` -/
def encodeSet (det : Bool) (s : Content) : Except Err Bytes :=
  appendUnknown (encodeItems (if det then sortItems s.items else s.items)) s.unknown

def sizeItems : List (Nat × Bytes) → Nat
  | [] => 0
  | (t, p) :: r => sizeField t + sizeTag fieldMessage + sizeBytes p.length + sizeItems r

/-- `sizeMessageSet` -/
def sizeSet (s : Content) : Nat := sizeItems s.items + sizeUnknown s.unknown

/-! ### the fast path's pass-through of unexpanded lazy extensions

`unmarshalExtension` keeps a validated extension as raw records `AppendTag(num, BytesType) ++ v`
(`appendLazyBytes`, one record per occurrence in the input); `marshalMessageSetField` re-emits
every record as its own message field of ONE item (`for len(lb) > 0 { _, n := ConsumeBytes(lb[xi.tagsize:]) … }`)
and `sizeMessageSet` counts `SizeTag(FieldMessage) + n` per record. -/

def lazyRecord (t : Nat) (v : Bytes) : Bytes := tag t wBytes ++ v

/-- the loop over the records of the lazy buffer; `ts` = `xi.tagsize`.  The slice expressions
`lb[ts:]`, `lb[ts:ts+n]` panic when the buffer is shorter than a tag or `ConsumeBytes` fails. -/
def lazyFieldsLoop (ts : Nat) : Nat → Bytes → Bytes → Except Err Bytes
  | 0, _, _ => .error .fuel
  | fuel + 1, b, lb =>
    if lb.length = 0 then .ok b
    else if lb.length < ts then .error .panic
    else
      let l1 := lb.drop ts
      match decBytes l1 with
      | .error _ => .error .panic
      | .ok (_, n) => lazyFieldsLoop ts fuel (b ++ tag fieldMessage wBytes ++ l1.take n) (l1.drop n)

def encodeLazyItem (t : Nat) (lb : Bytes) : Except Err Bytes :=
  match lazyFieldsLoop (sizeTag t) (lb.length + 1) (appendFieldStart [] t) lb with
  | .error e => .error e
  | .ok b => .ok (appendFieldEnd b)

def lazySizeLoop (ts : Nat) : Nat → Nat → Bytes → Except Err Nat
  | 0, _, _ => .error .fuel
  | fuel + 1, size, lb =>
    if lb.length = 0 then .ok size
    else if lb.length < ts then .error .panic
    else
      let l1 := lb.drop ts
      match decBytes l1 with
      | .error _ => .error .panic
      | .ok (_, n) => lazySizeLoop ts fuel (size + (sizeTag fieldMessage + n)) (l1.drop n)

def sizeLazyItem (t : Nat) (lb : Bytes) : Except Err Nat :=
  lazySizeLoop (sizeTag t) (lb.length + 1) (sizeField t) lb

end MSet
