import PbVerif.Model.Utf8
/-
Executable model of the text-format string literal codec of protobuf-go (core Lean only):

* `appendString`      — `internal/encoding/text/encode.go: appendString` (+ `indexNeedEscapeInString`)
* `parseString`       — `internal/encoding/text/decode_string.go: (*Decoder).parseString`
* `parseStringValue`  — `(*Decoder).parseStringValue` (adjacent literals are concatenated)
* `skipWs`            — `decode.go: consume(b, 0)` (white space and `#` comments after a token)

The structure of the Go code is kept: the same case order, the same slice expressions.  Go `string`s
and `[]byte` are `List Byte`, runes are `Nat` (never negative here), `unicode/utf8` is `Model.Utf8`.
A Go slice expression or conversion that could panic yields `none` (encoder) — the theorem
`C25.appendString_total` shows that it never does.  Parser errors are the two kinds the Go code
distinguishes: `ErrUnexpectedEOF` and a syntax error.

Standard-library functions used by the Go code and how they are rendered:
  `utf8.DecodeRune[InString]`, `string(rune)`  `Model.Utf8.decodeRune`, `encodeRune`
  `bits.Len32`                                  `bitsLen`     (`Nat.log2 + 1`, 0 for 0)
  `strconv.AppendUint(out, r, 16)`              `hexStr`      (lower case, no leading zeros, "0" for 0)
  `strconv.ParseUint(s, base, bitSize)`         `parseUint`   (digits only — `_` and `0x` are accepted by Go
                                                              only for base 0; empty string, a non-digit or a
                                                              value ≥ 2^bitSize is an error)
  `bytes.TrimLeft(b, digits)`                   `List.takeWhile`
  `utf16.IsSurrogate`, `utf16.DecodeRune`       `isSurrogate`, `utf16DecodeRune`
-/
namespace Model.TextStr
open Model.Utf8

abbrev Byte := BitVec 8

/-! ## Encoder -/

/-- the predicate of `indexNeedEscapeInString`: `c < ' ' || c == '"' || c == '\'' || c == '\\' || c >= 0x7f` -/
def needEscape (c : Byte) : Bool :=
  c.toNat < 0x20 || c == 0x22#8 || c == 0x27#8 || c == 0x5c#8 || 0x7f ≤ c.toNat

/-- `indexNeedEscapeInString(s)`: index of the first byte that needs escaping, `len(s)` if none. -/
def indexNeedEscape : List Byte → Nat
  | [] => 0
  | c :: t => if needEscape c then 0 else indexNeedEscape t + 1

/-- `bits.Len32(uint32(r))` (for `r < 2^32`) -/
def bitsLen (r : Nat) : Nat := if r = 0 then 0 else Nat.log2 r + 1

/-- one lower-case hexadecimal digit -/
def hexDigit (d : Nat) : Byte := BitVec.ofNat 8 (if d < 10 then 0x30 + d else 0x57 + d)

/-- `strconv.AppendUint(nil, r, 16)` -/
def hexStr (r : Nat) : List Byte :=
  if r < 16 then [hexDigit r] else hexStr (r / 16) ++ [hexDigit (r % 16)]
decreasing_by omega

/-- the slice expression `"00…0"[k:]` on a string of `w` zeros, `k` a Go `int`: `none` = panic -/
def zerosFrom (w : Nat) (k : Int) : Option (List Byte) :=
  if 0 ≤ k ∧ k ≤ (w : Int) then some (List.replicate (w - k.toNat) 0x30#8) else none

/-- `1 + (bits.Len32(uint32(r)) - 1) / 4` — Go's `/` on `int` truncates toward zero, so this is 1 for `r = 0` -/
def padStart (r : Nat) : Int := 1 + Int.tdiv ((bitsLen r : Int) - 1) 4

/-- `"00…0"[1+(bits.Len32(r)-1)/4:]` followed by `strconv.AppendUint(r, 16)`: `r` in `w` hex digits -/
def hexEscape (w : Nat) (r : Nat) : Option (List Byte) :=
  (zerosFrom w (padStart r)).map (· ++ hexStr r)

/-- the inner `switch r` of the first escape case (after the backslash) -/
def escapeShort (r : Nat) : Option (List Byte) :=
  if r = 0x22 ∨ r = 0x5c then some [BitVec.ofNat 8 r]      -- '"', '\\'  → byte(r)
  else if r = 0x0a then some [0x6e#8]                        -- '\n' → n
  else if r = 0x0d then some [0x72#8]                        -- '\r' → r
  else if r = 0x09 then some [0x74#8]                        -- '\t' → t
  else (hexEscape 2 r).map (0x78#8 :: ·)                     -- x + two hex digits

/-- the `\u` / `\U` case (after the backslash) -/
def escapeUnicode (r : Nat) : Option (List Byte) :=
  if r ≤ 0xFFFF then (hexEscape 4 r).map (0x75#8 :: ·)       -- r <= math.MaxUint16
  else (hexEscape 8 r).map (0x55#8 :: ·)

/-- the `for len(in) > 0` loop of `appendString`; the result is what is appended to `out`.
`inp.drop n`/`inp.take (n+i)` are the Go slices `in[n:]`, `in[:n+i]` (in range: `Utf8.decodeRune_ok`). -/
def escLoop (inp : List Byte) (ascii : Bool) : Option (List Byte) :=
  match inp with
  | [] => some []
  | b :: t =>
    let d := decodeRune (b :: t)
    let n := d.2
    -- case r == utf8.RuneError && n == 1:  r = rune(in[0]); fallthrough
    let inval := isInvalid d
    let r := if inval then b.toNat else d.1
    if inval || decide (r < 0x20) || r == 0x22 || r == 0x5c || r == 0x7f then
      (escapeShort r).bind fun e =>
      (escLoop ((b :: t).drop n) ascii).map fun tl => 0x5c#8 :: e ++ tl
    else if decide (0x80 ≤ r) && (ascii || decide (r ≤ 0x9f)) then
      (escapeUnicode r).bind fun e =>
      (escLoop ((b :: t).drop n) ascii).map fun tl => 0x5c#8 :: e ++ tl
    else
      let i := indexNeedEscape ((b :: t).drop n)
      (escLoop ((b :: t).drop (n + i)) ascii).map fun tl => (b :: t).take (n + i) ++ tl
termination_by inp.length
decreasing_by
  all_goals
    have := decodeRune_size_pos b t
    simp only [List.length_drop, List.length_cons]
    omega

/-- `appendString(nil, s, outputASCII)`; `appendString(out, s, a) = out ++ appendString(nil, s, a)`. -/
def appendString (s : List Byte) (ascii : Bool) : Option (List Byte) :=
  let i := indexNeedEscape s
  (escLoop (s.drop i) ascii).map fun body => 0x22#8 :: (s.take i ++ body ++ [0x22#8])

/-! ## Decoder -/

inductive Err
  | eof      -- ErrUnexpectedEOF
  | syntax   -- d.newSyntaxError(...)
  deriving DecidableEq, Repr

/-- `(string value, remaining input)` -/
abbrev Res := Except Err (List Byte × List Byte)

/-- `consume(b, 0)` of decode.go: drop white space and `#…\n` comments.  `inComment` is the state
"inside a comment" (`bytes.IndexByte(b, '\n')`; a comment without newline eats everything). -/
def skipWsAux : Bool → List Byte → List Byte
  | _, [] => []
  | true, c :: t => if c == 0x0a#8 then skipWsAux false t else skipWsAux true t
  | false, c :: t =>
    if c == 0x20#8 || c == 0x0a#8 || c == 0x0d#8 || c == 0x09#8 then skipWsAux false t
    else if c == 0x23#8 then skipWsAux true t
    else c :: t

def skipWs (b : List Byte) : List Byte := skipWsAux false b

def isOctal (c : Byte) : Bool := 0x30 ≤ c.toNat && c.toNat ≤ 0x37

/-- value of a digit character in bases up to 16 -/
def digitVal (c : Byte) : Option Nat :=
  let n := c.toNat
  if 0x30 ≤ n ∧ n ≤ 0x39 then some (n - 0x30)
  else if 0x61 ≤ n ∧ n ≤ 0x66 then some (n - 0x57)
  else if 0x41 ≤ n ∧ n ≤ 0x46 then some (n - 0x37)
  else none

/-- member of "0123456789abcdefABCDEF" -/
def isHex (c : Byte) : Bool := (digitVal c).isSome

def parseDigits (base : Nat) : Nat → List Byte → Option Nat
  | acc, [] => some acc
  | acc, c :: t => (digitVal c).bind fun d => if d < base then parseDigits base (acc * base + d) t else none

/-- `strconv.ParseUint(string(ds), base, bitSize)`; `none` = `err != nil` -/
def parseUint (base bitSize : Nat) (ds : List Byte) : Option Nat :=
  if ds.isEmpty then none
  else (parseDigits base 0 ds).bind fun v => if v < 2 ^ bitSize then some v else none

/-- `utf16.IsSurrogate` -/
def isSurrogate (r : Nat) : Bool := 0xd800 ≤ r && r < 0xe000

/-- `utf16.DecodeRune(r1, r2)` -/
def utf16DecodeRune (r1 r2 : Nat) : Nat :=
  if 0xd800 ≤ r1 ∧ r1 < 0xdc00 ∧ 0xdc00 ≤ r2 ∧ r2 < 0xe000 then
    (r1 - 0xd800) * 1024 + (r2 - 0xdc00) + 0x10000
  else 0xFFFD

/-- the `for len(in) > 0` loop of `parseString`; `out` is the accumulated value. -/
def parseLoop (quote : Byte) (inp : List Byte) (out : List Byte) : Res :=
  match inp with
  | [] => .error .eof
  | b :: t =>
    let d := decodeRune (b :: t)
    if isInvalid d then .error .syntax                         -- invalid UTF-8 detected
    else if d.1 == 0 || d.1 == 0x0a then .error .syntax        -- invalid character in string
    else if d.1 == quote.toNat then .ok (out, skipWs t)        -- in = in[1:]; d.consume(...)
    else if d.1 == 0x5c then
      match t with
      | [] => .error .eof                                      -- len(in) < 2
      | e :: t2 =>                                             -- e = in[1], t2 = in[2:]
        if e == 0x22#8 || e == 0x27#8 || e == 0x5c#8 || e == 0x3f#8 then parseLoop quote t2 (out ++ [e])
        else if e == 0x61#8 then parseLoop quote t2 (out ++ [0x07#8])   -- \a
        else if e == 0x62#8 then parseLoop quote t2 (out ++ [0x08#8])   -- \b
        else if e == 0x6e#8 then parseLoop quote t2 (out ++ [0x0a#8])   -- \n
        else if e == 0x72#8 then parseLoop quote t2 (out ++ [0x0d#8])   -- \r
        else if e == 0x74#8 then parseLoop quote t2 (out ++ [0x09#8])   -- \t
        else if e == 0x76#8 then parseLoop quote t2 (out ++ [0x0b#8])   -- \v
        else if e == 0x66#8 then parseLoop quote t2 (out ++ [0x0c#8])   -- \f
        else if isOctal e then
          -- one, two or three octal characters of in[1:]
          let n := min ((e :: t2).takeWhile isOctal).length 3
          match parseUint 8 8 ((e :: t2).take n) with
          | none => .error .syntax
          | some v => parseLoop quote ((e :: t2).drop n) (out ++ [BitVec.ofNat 8 v])
        else if e == 0x78#8 then
          -- one or two hexadecimal characters of in[2:]
          let n := min (t2.takeWhile isHex).length 2
          match parseUint 16 8 (t2.take n) with
          | none => .error .syntax
          | some v => parseLoop quote (t2.drop n) (out ++ [BitVec.ofNat 8 v])
        else if e == 0x75#8 || e == 0x55#8 then
          -- four or eight hexadecimal characters: in[2:n]
          let n := if e == 0x55#8 then 10 else 6
          if (b :: e :: t2).length < n then .error .eof
          else match parseUint 16 32 (((b :: e :: t2).take n).drop 2) with
            | none => .error .syntax
            | some v =>
              if 0x10FFFF < v then .error .syntax
              else
                let in2 := (b :: e :: t2).drop n
                if isSurrogate v then
                  if in2.length < 6 then .error .eof
                  else match parseUint 16 16 ((in2.take 6).drop 2) with
                    | none => .error .syntax
                    | some v2 =>
                      let r := utf16DecodeRune v v2
                      if in2.take 2 != [0x5c#8, 0x75#8] || r == 0xFFFD then .error .syntax
                      else parseLoop quote (in2.drop 6) (out ++ encodeRune r)
                else parseLoop quote in2 (out ++ encodeRune v)
        else .error .syntax                                    -- invalid escape code
    else
      let i := indexNeedEscape ((b :: t).drop d.2)
      parseLoop quote ((b :: t).drop (d.2 + i)) (out ++ (b :: t).take (d.2 + i))
termination_by inp.length
decreasing_by
  all_goals
    have := decodeRune_size_pos b t
    simp only [List.length_drop, List.length_cons] at *
    first | omega | (split <;> omega)

/-- `(*Decoder).parseString` on `d.in = inp`: the value and the new `d.in`.  The first byte is taken as
the quote character whatever it is (`UnmarshalString` calls it on arbitrary input). -/
def parseString (inp : List Byte) : Res :=
  match inp with
  | [] => .error .eof
  | quote :: in1 =>
    let i := indexNeedEscape in1
    parseLoop quote (in1.drop i) (in1.take i)

/-! ### Progress (needed for the termination of `parseStringValue`) -/

theorem skipWsAux_length_le (m : Bool) (l : List Byte) : (skipWsAux m l).length ≤ l.length := by
  fun_induction skipWsAux m l <;> simp_all <;> omega

/-- a successful `parseString` loop consumes at least the closing quote -/
theorem parseLoop_rest_lt (q : Byte) (inp out : List Byte) (o rest : List Byte)
    (h : parseLoop q inp out = .ok (o, rest)) : rest.length < inp.length := by
  fun_induction parseLoop q inp out
  all_goals first
    | (simp at h; done)
    | (rename_i ih; have := ih h; simp +zetaDelta only [List.length_drop, List.length_cons] at *; omega)
    | skip
  · simp only [Except.ok.injEq, Prod.mk.injEq] at h
    have := skipWsAux_length_le false ‹List Byte›
    rw [← h.2]; simp only [skipWs, List.length_cons]; omega

theorem parseString_rest_lt (inp o rest : List Byte)
    (h : parseString inp = .ok (o, rest)) : rest.length < inp.length := by
  unfold parseString at h
  split at h
  · simp at h
  · have := parseLoop_rest_lt _ _ _ _ _ h
    simp only [List.length_drop, List.length_cons] at *; omega

/-- the loop of `(*Decoder).parseStringValue`: while `d.in` starts with `"` or `'`, parse one literal;
`acc` is `strings.Join(ss, "")` so far.  Returns the joined value and the new `d.in`. -/
def parseStringValueLoop (inp : List Byte) (acc : List Byte) : Res :=
  match inp with
  | [] => .ok (acc, [])
  | c :: t =>
    if c == 0x22#8 || c == 0x27#8 then
      match h : parseString (c :: t) with
      | .error e => .error e
      | .ok (s, rest) => parseStringValueLoop rest (acc ++ s)
    else .ok (acc, c :: t)
termination_by inp.length
decreasing_by exact parseString_rest_lt _ _ _ h

/-- `(*Decoder).parseStringValue` on `d.in = inp` -/
def parseStringValue (inp : List Byte) : Res := parseStringValueLoop inp []

end Model.TextStr
